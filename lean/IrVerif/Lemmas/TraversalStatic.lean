/-
The static tree-shape predicate of `Model/LinkedSet.lean` (`RWorld.treeShape`: home graphs, ALL
recorded attribute entries, forward direction), evaluated on the coarse view `w.toR` of a world with
editable attributes, implies the dynamic predicate `TWorld.treeShape` (present members, current
attribute dicts, any direction).

`TWorld.attrs` is an association list read by first match: an attribute edit prepends the node's new
dict and the old one stays behind as a stale entry.  The static predicate counts the references of
every recorded entry, stale ones included, so it is the stronger of the two (`treeShape_static_dynamic`
needs no hypothesis on stale entries).  On worlds WITHOUT stale entries (`TWorld.noStale`) in which
every recorded node is a present member with the `recursive` predicate true (`TWorld.allHung`) and
which are homed, the two predicates are equal (`treeShape_static_eq`).
-/
import IrVerif.Lemmas.TraversalTree
import IrVerif.Lemmas.TraversalRefine
import IrVerif.Lemmas.TraversalUntouched
namespace IrVerif.LinkedSet

/-! ### lists -/

theorem nodup_flatMap_congr {α β : Type} (f f' : α → List β) (hm : ∀ x b, b ∈ f' x ↔ b ∈ f x)
    (hn : ∀ x, (f x).Nodup → (f' x).Nodup) : ∀ (l : List α), (l.flatMap f).Nodup → (l.flatMap f').Nodup
  | [], _ => by simp
  | a :: l, h => by
      simp only [List.flatMap_cons] at h ⊢
      obtain ⟨h1, h2, h3⟩ := List.nodup_append.1 h
      refine List.nodup_append.2 ⟨hn a h1, nodup_flatMap_congr f f' hm hn l h2, ?_⟩
      intro b hb c hc e
      subst e
      obtain ⟨y, hy, hby⟩ := List.mem_flatMap.1 hc
      exact h3 b ((hm a b).1 hb) b (List.mem_flatMap.2 ⟨y, hy, (hm y b).1 hby⟩) rfl

theorem lookup_some_mem {β : Type} (v : Nat) : ∀ (l : List (Nat × β)) (b : β), l.lookup v = some b → (v, b) ∈ l
  | [], _, h => by simp at h
  | (k, c) :: l, b, h => by
      simp only [List.lookup_cons] at h
      cases e : v == k with
      | true =>
        rw [e] at h
        have hk : v = k := by simpa using e
        have hc : c = b := by simpa using h
        subst hk; subst hc
        simp
      | false =>
        rw [e] at h
        exact List.mem_cons_of_mem _ (lookup_some_mem v l b h)

theorem Nested.mono {kids kids' : Nat → List Nat} (h : ∀ a b, b ∈ kids a → b ∈ kids' a) {g x : Nat}
    (n : Nested kids g x) : Nested kids' g x := by
  induction n with
  | one hk => exact .one (h _ _ hk)
  | cons hk _ ih => exact .cons (h _ _ hk) ih

/-! ### the direction of the iteration does not matter for the shape of the nest -/

theorem mem_graphsOf_dir (d d' : Dir) (a : AVal) (h : Nat) : h ∈ a.graphsOf d ↔ h ∈ a.graphsOf d' := by
  cases a <;> cases d <;> cases d' <;> simp [AVal.graphsOf]

theorem nodup_graphsOf_dir (d d' : Dir) (a : AVal) (h : (a.graphsOf d).Nodup) : (a.graphsOf d').Nodup := by
  cases a with
  | graph g => simp [AVal.graphsOf]
  | other => simp [AVal.graphsOf]
  | graphs hs =>
    have hn : hs.Nodup := by
      cases d
      · simpa [AVal.graphsOf] using h
      · have h' : hs.reverse.Nodup := by simpa [AVal.graphsOf] using h
        exact (List.reverse_perm _).nodup_iff.1 h'
    cases d'
    · simpa [AVal.graphsOf] using hn
    · have : hs.reverse.Nodup := (List.reverse_perm _).nodup_iff.2 hn
      simpa [AVal.graphsOf] using this

theorem mem_visit_dir (w : TWorld) (d d' : Dir) (v h : Nat) : h ∈ w.visit d v ↔ h ∈ w.visit d' v := by
  simp only [TWorld.visit, List.mem_flatMap]
  constructor <;> rintro ⟨e, he, hh⟩
  · exact ⟨e, he, (mem_graphsOf_dir d d' e.2 h).1 hh⟩
  · exact ⟨e, he, (mem_graphsOf_dir d d' e.2 h).2 hh⟩

theorem mem_tkids_dir (w : TWorld) (d d' : Dir) (g h : Nat) (hh : h ∈ w.kids d g) : h ∈ w.kids d' g := by
  simp only [TWorld.kids, List.mem_flatMap] at hh ⊢
  obtain ⟨v, hv, hh⟩ := hh
  exact ⟨v, hv, (mem_visit_dir w d d' v h).1 hh⟩

theorem tacyclic_complete (w : TWorld) (d : Dir) :
    w.acyclic d = false ↔ ∃ g, Nested (w.kids d) g g := by
  refine stable_iff_no_cycle (w.kids d) w.sets.length (List.range w.sets.length) ?_ (by simp)
  intro g hne
  apply List.mem_range.2
  apply Nat.lt_of_not_le
  intro hle
  apply hne
  simp [TWorld.kids, tsetOf_ge_empty w g hle, toList_empty]

/-- "no graph nested in itself" does not depend on the direction -/
theorem tacyclic_dir (w : TWorld) (d d' : Dir) (h : w.acyclic d = true) : w.acyclic d' = true := by
  cases e : w.acyclic d' with
  | true => rfl
  | false =>
    obtain ⟨g, hg⟩ := (tacyclic_complete w d').1 e
    have : w.acyclic d = false := (tacyclic_complete w d).2 ⟨g, hg.mono (mem_tkids_dir w d' d)⟩
    rw [h] at this; cases this

/-! ### the static reference list -/

/-- the subgraph references of one recorded dict, forward -/
def dictRefs (p : Nat × PyDict) : List Nat := p.2.live.flatMap fun e => e.2.graphsOf .fwd

/-- every subgraph reference of every recorded attribute entry (stale entries included) -/
def TWorld.srefs (w : TWorld) : List Nat := w.attrs.flatMap dictRefs

def attrRefs : Attr → List Nat
  | .graph h => [h]
  | .graphs hs => hs

theorem flatMap_toAttr_refs : ∀ (l : List (Nat × AVal)),
    (l.filterMap (fun e => e.2.toAttr)).flatMap attrRefs = l.flatMap (fun e => e.2.graphsOf .fwd)
  | [] => rfl
  | (k, a) :: l => by
      have ih := flatMap_toAttr_refs l
      cases a with
      | graph h => simp only [List.filterMap_cons, AVal.toAttr, List.flatMap_cons, AVal.graphsOf, attrRefs]; exact congrArg ([h] ++ ·) ih
      | graphs hs =>
        simp only [List.filterMap_cons, AVal.toAttr, List.flatMap_cons, AVal.graphsOf, attrRefs]
        have : (if Dir.fwd = Dir.rev then hs.reverse else hs) = hs := by simp
        rw [this]
        exact congrArg (hs ++ ·) ih
      | other => simp only [List.filterMap_cons, AVal.toAttr, List.flatMap_cons, AVal.graphsOf]; exact ih

theorem toR_unshared (w : TWorld) (g0 : Nat) :
    w.toR.unshared g0 = (decide w.srefs.Nodup && !w.srefs.contains g0) := by
  have e : (w.toR.attrs.flatMap fun p => p.2.flatMap attrRefs) = w.srefs := by
    simp only [TWorld.toR, TWorld.srefs, List.flatMap_map]
    congr 1
    funext p
    exact flatMap_toAttr_refs p.2.live
  show (decide (w.toR.attrs.flatMap fun p => p.2.flatMap attrRefs).Nodup &&
    !(w.toR.attrs.flatMap fun p => p.2.flatMap attrRefs).contains g0) = _
  rw [e]

/-- the subgraphs a node's current dict names are the references of a recorded entry -/
theorem visit_recorded (w : TWorld) (v : Nat) :
    w.visit .fwd v = [] ∨ ∃ dct, (v, dct) ∈ w.attrs ∧ w.visit .fwd v = dictRefs (v, dct) := by
  simp only [TWorld.visit, TWorld.dictOf, dictRefs]
  cases e : w.attrs.lookup v with
  | none => left; simp [PyDict.empty, PyDict.live]
  | some dct => right; exact ⟨dct, lookup_some_mem v _ _ e, rfl⟩

theorem mem_srefs_of_visit (w : TWorld) (d : Dir) (v h : Nat) (hh : h ∈ w.visit d v) : h ∈ w.srefs := by
  have hh := (mem_visit_dir w d .fwd v h).1 hh
  rcases visit_recorded w v with e | ⟨dct, hm, e⟩
  · rw [e] at hh; cases hh
  · rw [e] at hh
    exact List.mem_flatMap.2 ⟨(v, dct), hm, hh⟩

theorem visit_nodup_dir (w : TWorld) (d d' : Dir) (v : Nat) (h : (w.visit d v).Nodup) : (w.visit d' v).Nodup :=
  nodup_flatMap_congr (fun (e : Nat × AVal) => e.2.graphsOf d) (fun e => e.2.graphsOf d')
    (fun e b => mem_graphsOf_dir d' d e.2 b) (fun e => nodup_graphsOf_dir d d' e.2) _ h

/-- when the static reference list has no duplicates, the subgraphs named by the current dicts of
    pairwise different nodes are pairwise different -/
theorem visits_nodup {w : TWorld} (hnd : w.srefs.Nodup) (d : Dir) (vs : List Nat) (hvs : vs.Nodup) :
    (vs.flatMap (w.visit d)).Nodup := by
  refine nodup_flatMap_of (w.visit d) vs hvs ?_ ?_
  · intro v _
    apply visit_nodup_dir w .fwd d
    rcases visit_recorded w v with e | ⟨dct, hm, e⟩
    · rw [e]; exact List.nodup_nil
    · rw [e]; exact (sublist_flatMap_of_mem dictRefs _ _ hm).nodup hnd
  · intro x _ y _ hne b hbx hby
    have hbx := (mem_visit_dir w d .fwd x b).1 hbx
    have hby := (mem_visit_dir w d .fwd y b).1 hby
    rcases visit_recorded w x with e | ⟨dx, hmx, ex⟩
    · rw [e] at hbx; cases hbx
    rcases visit_recorded w y with e | ⟨dy, hmy, ey⟩
    · rw [e] at hby; cases hby
    rw [ex] at hbx
    rw [ey] at hby
    have hp : (x, dx) ≠ (y, dy) := fun e => hne (congrArg Prod.fst e)
    exact flatMap_nodup_disjoint dictRefs _ hnd (x, dx) hmx (y, dy) hmy hp b hbx hby

/-! ### homed worlds: no node is a member of two graphs -/

theorem homed_of_homedOk {w : TWorld} {home : Nat → Nat} (hh : w.toR.homedOk home = true) (g v : Nat)
    (hv : v ∈ toList (w.setOf g)) : home v = g := by
  simp only [RWorld.homedOk, List.all_eq_true, beq_iff_eq] at hh
  exact hh g (List.mem_range.2 (mem_toList_lt hv)) v hv

theorem members_nodup_of_homed {w : TWorld} (hw : TWorldWF w) {home : Nat → Nat}
    (hh : w.toR.homedOk home = true) : w.members.Nodup := by
  refine nodup_flatMap_of _ _ List.nodup_range (fun g _ => toList_nodup (hw.setOf g)) ?_
  intro g _ g' _ hne v hv hv'
  exact hne ((homed_of_homedOk hh g v hv).symm.trans (homed_of_homedOk hh g' v hv'))

/-! ### static tree shape implies dynamic tree shape -/

theorem treeShape_static_dynamic {w : TWorld} (hw : TWorldWF w) (home : Nat → Nat) (d : Dir) (g0 : Nat)
    (h : w.toR.treeShape home g0 = true) : w.treeShape d g0 = true := by
  simp only [RWorld.treeShape, Bool.and_eq_true] at h
  obtain ⟨⟨⟨_, hac⟩, hun⟩, hho⟩ := h
  rw [toR_acyclic] at hac
  rw [toR_unshared] at hun
  simp only [Bool.and_eq_true, decide_eq_true_eq, Bool.not_eq_true', List.contains_eq_mem,
    decide_eq_false_iff_not] at hun
  obtain ⟨hnd, hroot⟩ := hun
  have hmem := members_nodup_of_homed hw hho
  simp only [TWorld.treeShape, Bool.and_eq_true, decide_eq_true_eq, Bool.not_eq_true',
    List.contains_eq_mem, decide_eq_false_iff_not]
  refine ⟨⟨⟨tacyclic_dir w .fwd d hac, hmem⟩, ?_⟩, ?_⟩
  · exact visits_nodup hnd d _ (List.filter_sublist.nodup hmem)
  · intro hin
    obtain ⟨v, _, hv⟩ := List.mem_flatMap.1 hin
    exact hroot (mem_srefs_of_visit w d v g0 hv)

/-! ### worlds without stale entries: the two predicates coincide -/

/-- **no stale entries**: every node is recorded at most once in `TWorld.attrs`, so that the recorded
    dict IS the node's current dict and every recorded attribute entry is a live entry of it
    (`noStale_dictOf`); true for a world on which `setAttr` / `delAttr` were never applied to a node
    that was already recorded -/
def TWorld.noStale (w : TWorld) : Bool := decide (w.attrs.map (·.1)).Nodup

/-- every recorded dict that names a subgraph belongs to a present member on which the `recursive`
    predicate holds (the dynamic predicate does not see the other dicts) -/
def TWorld.allHung (w : TWorld) : Bool :=
  w.attrs.all fun p => (dictRefs p).isEmpty || (w.members.contains p.1 && w.recurse p.1)

theorem lookup_of_mem_nodup {β : Type} : ∀ (l : List (Nat × β)), (l.map (·.1)).Nodup →
    ∀ v b, (v, b) ∈ l → l.lookup v = some b
  | [], _, _, _, h => by cases h
  | (k, c) :: l, hnd, v, b, h => by
      simp only [List.map_cons, List.nodup_cons] at hnd
      rcases List.mem_cons.1 h with e | h'
      · cases e; simp [List.lookup_cons]
      · have hne : v ≠ k := by rintro rfl; exact hnd.1 (List.mem_map.2 ⟨(v, b), h', rfl⟩)
        have : (v == k) = false := by simpa using hne
        simp only [List.lookup_cons, this]
        exact lookup_of_mem_nodup l hnd.2 v b h'

theorem nodup_of_map_fst {β : Type} : ∀ (l : List (Nat × β)), (l.map (·.1)).Nodup → l.Nodup
  | [], _ => List.nodup_nil
  | p :: l, hnd => by
      simp only [List.map_cons, List.nodup_cons] at hnd
      exact List.nodup_cons.2 ⟨fun h => hnd.1 (List.mem_map.2 ⟨p, h, rfl⟩), nodup_of_map_fst l hnd.2⟩

/-- without stale entries the recorded dict of a node is its current dict -/
theorem noStale_dictOf {w : TWorld} (hns : w.noStale = true) {p : Nat × PyDict} (hp : p ∈ w.attrs) :
    w.dictOf p.1 = p.2 := by
  simp only [TWorld.noStale, decide_eq_true_eq] at hns
  simp only [TWorld.dictOf, lookup_of_mem_nodup w.attrs hns p.1 p.2 hp, Option.getD_some]

theorem noStale_visit {w : TWorld} (hns : w.noStale = true) {p : Nat × PyDict} (hp : p ∈ w.attrs) :
    w.visit .fwd p.1 = dictRefs p := by
  simp only [TWorld.visit, noStale_dictOf hns hp, dictRefs]

theorem hung_mem {w : TWorld} (hu : w.allHung = true) {p : Nat × PyDict} (hp : p ∈ w.attrs) {b : Nat}
    (hb : b ∈ dictRefs p) : p.1 ∈ w.members.filter w.recurse := by
  simp only [TWorld.allHung, List.all_eq_true, Bool.or_eq_true, Bool.and_eq_true, List.isEmpty_iff,
    List.contains_eq_mem, decide_eq_true_eq] at hu
  rcases hu p hp with e | ⟨hm, hr⟩
  · rw [e] at hb; cases hb
  · exact List.mem_filter.2 ⟨hm, hr⟩

theorem refs_nodup_dir {w : TWorld} (d d' : Dir) (h : (w.refs d).Nodup) : (w.refs d').Nodup :=
  nodup_flatMap_congr (w.visit d) (w.visit d') (fun v b => mem_visit_dir w d' d v b)
    (fun v => visit_nodup_dir w d d' v) _ h

theorem mem_refs_dir {w : TWorld} (d d' : Dir) (g : Nat) (h : g ∈ w.refs d) : g ∈ w.refs d' := by
  obtain ⟨v, hv, hg⟩ := List.mem_flatMap.1 h
  exact List.mem_flatMap.2 ⟨v, hv, (mem_visit_dir w d d' v g).1 hg⟩

theorem sstatic_complete (w : RWorld) (d : Dir) (home : Nat → Nat) :
    w.acyclicStatic d home = false ↔ ∃ g, Nested (w.skids d home) g g :=
  stable_iff_no_cycle (w.skids d home) w.attrs.length (w.attrs.map (fun (p : Nat × List Attr) => home p.1))
    (skids_covered w d home) (by simp)

/-- on a homed world without stale entries in which every dict that names a subgraph is hung, the
    static nesting is the current nesting -/
theorem skids_sub_kids {w : TWorld} {home : Nat → Nat} (hns : w.noStale = true) (hu : w.allHung = true)
    (hho : w.toR.homedOk home = true) (a b : Nat) (hb : b ∈ w.toR.skids .fwd home a) : b ∈ w.kids .fwd a := by
  simp only [RWorld.skids, RWorld.kidsOf, List.mem_flatMap, List.mem_filter, List.mem_map, beq_iff_eq] at hb
  obtain ⟨v, ⟨⟨⟨q, hq, hqv⟩, hhome⟩, hr⟩, hb⟩ := hb
  rw [toR_visit] at hb
  rw [toR_recurse] at hr
  simp only [TWorld.toR, List.mem_map] at hq
  obtain ⟨p, hp, rfl⟩ := hq
  simp only at hqv
  subst hqv
  rw [noStale_visit hns hp] at hb
  have hm := (List.mem_filter.1 (hung_mem hu hp hb)).1
  obtain ⟨g', _, hg'⟩ := List.mem_flatMap.1 hm
  have : home p.1 = g' := homed_of_homedOk hho g' p.1 hg'
  rw [hhome] at this
  subst this
  simp only [TWorld.kids, List.mem_flatMap, List.mem_filter]
  exact ⟨p.1, ⟨hg', hr⟩, by rw [noStale_visit hns hp]; exact hb⟩

theorem treeShape_dynamic_static {w : TWorld} (home : Nat → Nat) (d : Dir) (g0 : Nat)
    (hns : w.noStale = true) (hu : w.allHung = true) (hho : w.toR.homedOk home = true)
    (ht : w.treeShape d g0 = true) : w.toR.treeShape home g0 = true := by
  simp only [TWorld.treeShape, Bool.and_eq_true, decide_eq_true_eq, Bool.not_eq_true',
    List.contains_eq_mem, decide_eq_false_iff_not] at ht
  obtain ⟨⟨⟨hac, _⟩, hrefs⟩, hroot⟩ := ht
  have hac : w.acyclic .fwd = true := tacyclic_dir w d .fwd hac
  have hrefs : (w.refs .fwd).Nodup := refs_nodup_dir d .fwd hrefs
  have hroot : g0 ∉ w.refs .fwd := fun h => hroot (mem_refs_dir .fwd d g0 h)
  have hkeys : (w.attrs.map (·.1)).Nodup := by simpa [TWorld.noStale] using hns
  simp only [RWorld.treeShape, Bool.and_eq_true]
  refine ⟨⟨⟨?_, by rw [toR_acyclic]; exact hac⟩, ?_⟩, hho⟩
  · cases e : w.toR.acyclicStatic .fwd home with
    | true => rfl
    | false =>
      obtain ⟨g, hg⟩ := (sstatic_complete w.toR .fwd home).1 e
      have : w.acyclic .fwd = false := (tacyclic_complete w .fwd).2 ⟨g, hg.mono (skids_sub_kids hns hu hho)⟩
      rw [hac] at this; cases this
  · rw [toR_unshared]
    simp only [Bool.and_eq_true, decide_eq_true_eq, Bool.not_eq_true', List.contains_eq_mem,
      decide_eq_false_iff_not]
    constructor
    · refine nodup_flatMap_of dictRefs w.attrs (nodup_of_map_fst _ hkeys) ?_ ?_
      · intro p hp
        cases e : dictRefs p with
        | nil => exact List.nodup_nil
        | cons b l =>
          have hb : b ∈ dictRefs p := by rw [e]; simp
          rw [← e, ← noStale_visit hns hp]
          exact (sublist_flatMap_of_mem (w.visit .fwd) _ _ (hung_mem hu hp hb)).nodup hrefs
      · intro p hp q hq hne b hbp hbq
        have hne' : p.1 ≠ q.1 := by
          intro e
          apply hne
          have h1 := lookup_of_mem_nodup w.attrs hkeys p.1 p.2 hp
          have h2 := lookup_of_mem_nodup w.attrs hkeys q.1 q.2 hq
          rw [e] at h1
          have : p.2 = q.2 := Option.some.inj (h1.symm.trans h2)
          exact Prod.ext e this
        refine flatMap_nodup_disjoint (w.visit .fwd) _ hrefs p.1 (hung_mem hu hp hbp) q.1 (hung_mem hu hq hbq)
          hne' b ?_ ?_
        · rw [noStale_visit hns hp]; exact hbp
        · rw [noStale_visit hns hq]; exact hbq
    · intro hin
      obtain ⟨p, hp, hb⟩ := List.mem_flatMap.1 hin
      exact hroot (List.mem_flatMap.2 ⟨p.1, hung_mem hu hp hb, by rw [noStale_visit hns hp]; exact hb⟩)

/-- the two tree-shape predicates are equal on homed worlds without stale entries whose subgraph-naming
    dicts are all hung -/
theorem treeShape_static_eq {w : TWorld} (hw : TWorldWF w) (home : Nat → Nat) (d : Dir) (g0 : Nat)
    (hns : w.noStale = true) (hu : w.allHung = true) (hho : w.toR.homedOk home = true) :
    w.toR.treeShape home g0 = w.treeShape d g0 := by
  cases e : w.treeShape d g0 with
  | true => exact treeShape_dynamic_static home d g0 hns hu hho e
  | false =>
    cases e' : w.toR.treeShape home g0 with
    | false => rfl
    | true => rw [treeShape_static_dynamic hw home d g0 e'] at e; cases e

/-! ### histories of `next()` and node-sequence edits: acyclicity of every world passed through follows
from the static predicate on the initial world -/

theorem nested_rank_lt {w : RWorld} {d : Dir} {rk : Nat → Nat} (hr : Ranked w d rk) {g h : Nat}
    (hn : Nested (w.kids d) g h) : rk h < rk g := by
  have one : ∀ a b, b ∈ w.kids d a → rk b < rk a := by
    intro a b hb
    simp only [RWorld.kids, RWorld.kidsOf, List.mem_flatMap, List.mem_filter] at hb
    obtain ⟨v, ⟨hv, hrec⟩, hb⟩ := hb
    exact hr a v hv hrec b hb
  induction hn with
  | one hk => exact one _ _ hk
  | cons hk _ ih => exact Nat.lt_trans ih (one _ _ hk)

/-- a ranked world has no graph nested in itself -/
theorem acyclic_of_ranked {w : RWorld} {d : Dir} {rk : Nat → Nat} (hr : Ranked w d rk) : w.acyclic d = true := by
  cases e : w.acyclic d with
  | true => rfl
  | false =>
    obtain ⟨c, hc⟩ := (stable_iff_no_cycle (w.kids d) w.sets.length (List.range w.sets.length)
      (rkids_covered w d) (by simp)).1 e
    exact absurd (nested_rank_lt hr hc) (Nat.lt_irrefl _)

/-- what is kept along a history of node-sequence edits that insert nodes into their home graph only -/
structure StaticInv (w : TWorld) (home rk : Nat → Nat) : Prop where
  wf : TWorldWF w
  homed : Homed w.toR home
  ranked : StaticRanked w.toR .fwd rk home

theorem StaticInv.acyclic {w : TWorld} {home rk : Nat → Nat} (h : StaticInv w home rk) (d : Dir) :
    w.acyclic d = true := by
  have := acyclic_of_ranked (ranked_of_static h.homed h.ranked)
  rw [toR_acyclic] at this
  exact tacyclic_dir w .fwd d this

theorem StaticInv.applyAt {w : TWorld} {home rk : Nat → Nat} (h : StaticInv w home rk) (g : Nat) (op : Op)
    (hg : g < w.sets.length) (ht : ∀ v ∈ touched op, home v = g) : StaticInv (w.applyAt g op).1 home rk :=
  ⟨(tapplyAt_ok h.wf (st := []) (fun _ hx => by cases hx) g op).1,
   homed_applyAt (w := w.toR) h.wf h.homed g op hg ht,
   fun v hr x hx => h.ranked v hr x hx⟩

theorem staticInv_of_ok {w : TWorld} {home : Nat → Nat} (hw : TWorldWF w) (hho : w.toR.homedOk home = true)
    (has : w.toR.acyclicStatic .fwd home = true) : StaticInv w home (w.toR.shgt .fwd home) :=
  ⟨hw, homed_of_ok hho, static_ranked_of_acyclic has⟩

/-- admissible history for the excluded set `X`, STATIC form: as `tAdm`, but instead of checking in every
    world passed through that no graph is nested in itself, every edit addresses an existing graph and
    inserts / moves / removes only nodes whose home graph it is -/
def tAdmS (X : List Nat) (home : Nat → Nat) (d : Dir) (fuel : Nat) : TWorld → List TFrame → List TEv → Bool
  | w, _, [] => w.closedB d X
  | w, st, .next :: es =>
      w.closedB d X &&
      (match (tNext w d fuel st).2.2 with
       | .yield _ => true
       | .stop => true
       | _ => false) &&
      tAdmS X home d fuel w (tNext w d fuel st).1 es
  | w, st, .edit g op :: es =>
      w.closedB d X && (touched op).all X.contains &&
      (decide (g < w.sets.length) && (touched op).all fun v => home v == g) &&
      tAdmS X home d fuel (w.applyAt g op).1 st es
  | _, _, .setAttr _ _ _ :: _ => false
  | _, _, .delAttr _ _ :: _ => false

theorem tAdm_of_static (X : List Nat) (home rk : Nat → Nat) (d : Dir) (fuel : Nat) :
    ∀ (es : List TEv) (w : TWorld) (st : List TFrame), StaticInv w home rk →
      tAdmS X home d fuel w st es = true → tAdm X d fuel w st es = true
  | [], w, st, hi, h => by
      simp only [tAdmS] at h
      simp only [tAdm, TWorld.good, hi.acyclic d, h, Bool.and_self]
  | .next :: es, w, st, hi, h => by
      simp only [tAdmS, Bool.and_eq_true] at h
      obtain ⟨⟨hc, hr⟩, ht⟩ := h
      simp only [tAdm, TWorld.good, hi.acyclic d, hc, Bool.and_self, Bool.true_and, Bool.and_eq_true]
      exact ⟨hr, tAdm_of_static X home rk d fuel es w _ hi ht⟩
  | .edit g op :: es, w, st, hi, h => by
      simp only [tAdmS, Bool.and_eq_true, decide_eq_true_eq, List.all_eq_true, beq_iff_eq] at h
      obtain ⟨⟨⟨hc, htx⟩, hg, hth⟩, ht⟩ := h
      simp only [tAdm, TWorld.good, hi.acyclic d, hc, Bool.and_self, Bool.true_and, Bool.and_eq_true,
        List.all_eq_true]
      exact ⟨htx, tAdm_of_static X home rk d fuel es _ st (hi.applyAt g op hg hth) ht⟩
  | .setAttr _ _ _ :: _, _, _, _, h => by simp [tAdmS] at h
  | .delAttr _ _ :: _, _, _, _, h => by simp [tAdmS] at h

end IrVerif.LinkedSet

/-
C14 (wave 5): CSE keeps the names of the graph outputs position by position.  Part 2: the effect of
`graph.outputs[i] = v`, `Value(name=...)`, an accepted `Value.name = ...`; the relation `OK`.
-/
import IrVerif.Lemmas.PassKernelOuts
namespace IrVerif.PassKernel
open IrVerif.Kernel IrVerif.Kernel.World

theorem guardOp_fst_false (kind : String) (w w' : World) : (guardOp false kind w w').1 = w' := by
  unfold guardOp; simp only [Bool.false_eq_true, if_false]; split <;> rfl
theorem guardOp_true (kind : String) (w w' : World) : guardOp true kind w w' = (w, .raised kind) := by
  unfold guardOp; simp
theorem guardOp_ok (bad : Bool) (kind : String) (w w' : World) (h : (guardOp bad kind w w').2 = .ok) : bad = false := by
  cases bad with
  | false => rfl
  | true => rw [guardOp_true] at h; simp at h

theorem normIndex_ofNat (len k : Nat) : normIndex len (Int.ofNat k) = if k < len then some k else none := by
  unfold normIndex
  have h0 : ¬ (Int.ofNat k < 0) := by simp
  simp only [h0, if_false]
  by_cases hk : k < len
  · have : ¬ (Int.ofNat k < 0 ∨ Int.ofNat k ≥ (len : Int)) := by
      simp only [Int.ofNat_eq_natCast]; omega
    simp [this, hk]
  · have : (Int.ofNat k < 0 ∨ Int.ofNat k ≥ (len : Int)) := by
      right; simp only [Int.ofNat_eq_natCast]; omega
    simp [this, hk]

theorem insertAt_eraseIdx : ∀ (l : List Nat) (k x : Nat), k < l.length → insertAt (l.eraseIdx k) k x = l.set k x
  | [], _, _, h => by simp at h
  | a :: l, 0, x, _ => by simp [insertAt]
  | a :: l, k + 1, x, h => by
    have := insertAt_eraseIdx l k x (by simpa using h)
    simp only [insertAt] at this ⊢
    simp [this]

/-- `graph.outputs[k] = x`: names untouched; the list is unchanged (rejected) or has `x` at position `k`; accepted
    means the latter -/
theorem ioSetItem_out (w : World) (g k x : Nat) :
    ((((ioMut w g .out (.setItem (Int.ofNat k) x)).1.gr g).outputs = (w.gr g).outputs ∧
        (ioMut w g .out (.setItem (Int.ofNat k) x)).2 ≠ .ok) ∨
      (k < (w.gr g).outputs.length ∧
        ((ioMut w g .out (.setItem (Int.ofNat k) x)).1.gr g).outputs = (w.gr g).outputs.set k x)) := by
  simp only [ioMut, normIndex_ofNat]
  have hl : ioList .out (w.gr g) = (w.gr g).outputs := rfl
  rw [hl]
  by_cases hk : k < (w.gr g).outputs.length
  · rw [if_pos hk]
    by_cases hc : checkIO w g .out x = true
    · right
      refine ⟨hk, ?_⟩
      have hv : (ioList .out (w.gr g))[k]? = some (w.gr g).outputs[k] := by rw [hl]; exact List.getElem?_eq_getElem hk
      have hc2 := checkIO_ioRemoveAt w g .out k x hc
      have hgr : ((ioInsert (ioRemoveAt w g .out k) g .out k x).gr g).outputs = (w.gr g).outputs.set k x := by
        rw [ioInsert_gr _ _ _ _ _ hc2, if_pos rfl, ioRemoveAt_gr _ _ _ _ _ hv, if_pos rfl]
        simp only [setIoList, setIoCnt, ioList]
        exact insertAt_eraseIdx _ k x hk
      have hb : ((some k : Option Nat).isNone || !checkIO w g .out x) = false := by simp [hc]
      rw [hb, guardOp_fst_false]
      exact hgr
    · left
      simp only [Bool.not_eq_true] at hc
      have hb : ((some k : Option Nat).isNone || !checkIO w g .out x) = true := by simp [hc]
      rw [hb, guardOp_true]
      exact ⟨rfl, by simp⟩
  · left
    rw [if_neg hk]
    have hb : ((none : Option Nat).isNone || !checkIO w g .out x) = true := by simp
    rw [hb, guardOp_true]
    exact ⟨rfl, by simp⟩

theorem newValue_name (w : World) (nm : Option String) : ((newValue w nm).1.val w.vals.length).name = nm := by
  unfold newValue guardOp allocVal
  simp

theorem initPut_name (w : World) (g : Nat) (key : String) (v : Nat) (h : (w.val v).name = some key) (hk : key ≠ "") :
    ((initPut w g key v).val v).name = some key := by
  have hf : falsy (w.val v).name = false := by simp [falsy, h, hk]
  rw [initPut_NE w g key v hf v]; exact h

/-- an accepted `Value.name = s` leaves the value called `s` -/
theorem setName_name (w : World) (v : Nat) (s : Option String) (h : (setName w v s).2 = .ok) :
    ((setName w v s).1.val v).name = s := by
  unfold setName at h ⊢
  simp only [] at h ⊢
  have hbad := guardOp_ok _ _ _ _ h
  rw [hbad, guardOp_fst_false]
  by_cases hs : (w.val v).name = s
  · simp [hs]
  · simp only [hs, if_false]
    by_cases hi : (w.val v).isInit = true
    · simp only [hi, if_true]
      simp only [hs, ne_eq, not_false_eq_true, decide_true, hi, Bool.true_and, Bool.or_eq_false_iff] at hbad
      cases s with
      | none => simp at hbad
      | some new =>
        cases hg : (w.val v).graph with
        | none => simp [hg] at hbad
        | some g =>
          cases ho : (w.val v).name with
          | none => simp [hg, ho] at hbad
          | some old =>
            simp only [hg, ho, Bool.or_eq_false_iff, decide_eq_false_iff_not] at hbad ⊢
            refine initPut_name _ g new v ?_ hbad.2.1
            rw [setNamePlain_val]; simp
    · simp only [hi, Bool.false_eq_true, if_false]
      rw [setNamePlain_val]; simp

/-- the graph outputs of `g` keep their names position by position -/
def OK (g : Nat) (w w' : World) : Prop :=
  (w'.gr g).outputs.length = (w.gr g).outputs.length ∧
  ∀ (i v : Nat) (nm : String), (w.gr g).outputs[i]? = some v → (w.val v).name = some nm →
    ∃ v', (w'.gr g).outputs[i]? = some v' ∧ (w'.val v').name = some nm

theorem OK.refl (g : Nat) (w : World) : OK g w w := ⟨rfl, fun _ v _ hv hn => ⟨v, hv, hn⟩⟩
theorem OK.trans {g : Nat} {a b c : World} (h1 : OK g a b) (h2 : OK g b c) : OK g a c :=
  ⟨h2.1.trans h1.1, fun i v nm hv hn => by
    obtain ⟨v', hv', hn'⟩ := h1.2 i v nm hv hn
    exact h2.2 i v' nm hv' hn'⟩

/-- same list, and no value of the list is renamed -/
theorem OK.of_frame {g : Nat} {w w' : World} {x : Option Nat} (ho : OE g w w') (hn : NK x w w')
    (hx : ∀ u, x = some u → u ∉ (w.gr g).outputs) : OK g w w' := by
  refine ⟨by rw [ho], fun i v nm hv hnm => ⟨v, by rw [ho]; exact hv, hn v nm (fun he => ?_) hnm⟩⟩
  exact hx v he (List.mem_of_getElem? hv)

theorem foldl_OK {β : Type} (g : Nat) (f : World → β → World) (hf : ∀ w b, OK g w (f w b)) :
    ∀ (l : List β) (w : World), OK g w (l.foldl f w)
  | [], w => OK.refl g w
  | b :: l, w => (hf w b).trans (foldl_OK g f hf l (f w b))

end IrVerif.PassKernel

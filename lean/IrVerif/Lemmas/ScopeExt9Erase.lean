/-
Erasure for the IR version < 10 format of the extended model (`Model/ScopeExt9.lean`): the store and the tree of
`deserializeME9` are those of the core run `deserializeM9` on the erased proto; same error.
-/
import IrVerif.Model.ScopeExt9
import IrVerif.Lemmas.ScopeExt
namespace IrVerif.Scope

/-- erasing the metadata column of an experimental table -/
def eraseET (t : List (Name × Info × SS)) : List (Name × Info) := t.map fun e => (e.1, e.2.1)

theorem eraseET_lookup (n : Name) : ∀ (t : List (Name × Info × SS)),
    (eraseET t).lookup n = (t.lookup n).map (·.1)
  | [] => rfl
  | (k, i, m) :: t => by
    simp only [eraseET, List.map_cons, List.lookup_cons]
    cases n == k with
    | true => rfl
    | false => exact eraseET_lookup n t

theorem eraseET_reverse (t : List (Name × Info × SS)) : eraseET t.reverse = (eraseET t).reverse := by
  simp [eraseET, List.map_reverse]

theorem expEntriesForE_erase (fids : List FId) (fid : FId) : ∀ (vi : List VInfoE),
    eraseET (expEntriesForE fids vi fid) = expEntriesFor fids (vi.map VInfoE.erase) fid
  | [] => rfl
  | e :: vi => by
    have ih := expEntriesForE_erase fids fid vi
    simp only [expEntriesForE, expEntriesFor, eraseET, List.map_cons, List.filterMap_cons, VInfoE.erase] at ih ⊢
    cases parseExp e.name with
    | none => simpa using ih
    | some r =>
      obtain ⟨d, f, v⟩ := r
      by_cases hc : ((⟨d, f, ""⟩ : FId) = fid && fids.contains ⟨d, f, ""⟩) = true
      · simp only [hc, if_true, List.map_cons]
        rw [ih]
      · simp only [hc, if_false, Bool.false_eq_true]
        simpa using ih

theorem applyInfosE_erase (tbl : List (Name × Info × SS)) : ∀ (vs : List Nat) (st : Store) (x : Ext),
    (applyInfosE st x tbl vs).1 = applyInfos st (eraseET tbl) vs
  | [], _, _ => rfl
  | v :: vs, st, x => by
    simp only [applyInfosE, applyInfos]
    cases (st.vals v).name with
    | none => exact applyInfosE_erase tbl vs st x
    | some n =>
      simp only [eraseET_lookup]
      cases tbl.lookup n with
      | none => exact applyInfosE_erase tbl vs st x
      | some e => exact applyInfosE_erase tbl vs _ _

theorem applyExpFuncE_erase (vi : List VInfoE) (fids : List FId) (sx : Store × Ext) (f : FId × GraphT) :
    (applyExpFuncE vi fids sx f).1 = applyExpFunc (vi.map VInfoE.erase) fids sx.1 f := by
  obtain ⟨id, g⟩ := f
  cases g with
  | mk gid ins its nodes outs =>
    simp only [applyExpFuncE, applyExpFunc]
    rw [applyInfosE_erase, applyInfosE_erase, eraseET_reverse, expEntriesForE_erase]

theorem foldl_applyExpFuncE_erase (vi : List VInfoE) (fids : List FId) : ∀ (fs : List (FId × GraphT)) (sx : Store × Ext),
    (fs.foldl (applyExpFuncE vi fids) sx).1 = fs.foldl (applyExpFunc (vi.map VInfoE.erase) fids) sx.1
  | [], _ => rfl
  | f :: fs, sx => by
    simp only [List.foldl_cons]
    rw [foldl_applyExpFuncE_erase vi fids fs, applyExpFuncE_erase]

theorem eraseG_vinfo (g : GraphE) : (eraseG g).vinfo = g.vinfo.map VInfoE.erase := by
  cases g with
  | mk i t vi n o q => simp [eraseG, GraphP.vinfo, GraphE.vinfo]

/-- **erasure of the IR < 10 format** -/
theorem deserializeME9_erase (p : ModelE) :
    (match deserializeME9 p with
      | .ok w => deserializeM9 (eraseM p) = .ok w.core
      | .error e => deserializeM9 (eraseM p) = .error e) := by
  have h := deserializeME_erase p
  simp only [deserializeME9, deserializeM9]
  cases hd : deserializeME p with
  | error e =>
    rw [hd] at h
    simp only [h]
  | ok m =>
    rw [hd] at h
    simp only [h]
    have hv : (eraseM p).graph.vinfo = p.graph.vinfo.map VInfoE.erase := eraseG_vinfo p.graph
    simp only [MWorldE.core, hv]
    rw [foldl_applyExpFuncE_erase]

end IrVerif.Scope

/-
C18 <- C01: a world of the C01 kernel read as a world of the C18 model with every node taken WITHOUT its
graph attributes (the embedding ignores `NodeS.attrs`, so the result speaks about graphs whose nodes hold no
subgraph), and what the C01 invariant `Kernel.WF` gives for the hypotheses of `C18_eval`.
-/
import IrVerif.Lemmas.KernelOps
import IrVerif.Lemmas.ExtractSem
namespace IrVerif.Extract

/-- a C01 kernel world as a C18 world: same creation indices; graph attributes of kernel nodes are dropped -/
def ofKernel (w : Kernel.World) : World :=
  { vals := w.vals.map (fun v =>
      { name := v.name.getD "", producer := v.producer, graph := v.graph, isInit := v.isInit }),
    nodes := w.nodes.map (fun n => NodeT.mk n.inputs n.outputs []) }

theorem lget_eq_getD {α : Type} [Inhabited α] : ∀ (l : List α) (i : Nat), Kernel.lget l i = l.getD i default
  | [], i => by simp [Kernel.lget]
  | a :: t, 0 => by simp [Kernel.lget]
  | a :: t, i + 1 => by simp [Kernel.lget, lget_eq_getD t i]

theorem getD_map' {α β : Type} (f : α → β) (d : α) : ∀ (l : List α) (i : Nat),
    (l.map f).getD i (f d) = f (l.getD i d)
  | [], i => by simp
  | a :: t, 0 => by simp
  | a :: t, i + 1 => by simpa using getD_map' f d t i

theorem ofKernel_val (w : Kernel.World) (v : Nat) :
    (ofKernel w).val v = { name := (w.val v).name.getD "", producer := (w.val v).producer,
                           graph := (w.val v).graph, isInit := (w.val v).isInit } := by
  unfold World.val ofKernel Kernel.World.val
  rw [lget_eq_getD]
  exact getD_map' (fun v : Kernel.ValueS =>
    ({ name := v.name.getD "", producer := v.producer, graph := v.graph, isInit := v.isInit } : ValueS))
    default w.vals v

theorem ofKernel_nodeD (w : Kernel.World) (n : Nat) :
    (ofKernel w).nodeD n = NodeT.mk (w.node n).inputs (w.node n).outputs [] := by
  unfold World.nodeD ofKernel Kernel.World.node
  rw [lget_eq_getD]
  simp only [List.getElem?_map]
  by_cases h : n < w.nodes.length
  · simp [List.getD_eq_getElem?_getD, List.getElem?_eq_getElem h]
  · have h' : w.nodes.length ≤ n := Nat.le_of_not_lt h
    simp [List.getD_eq_getElem?_getD, List.getElem?_eq_none h']
    exact ⟨rfl, rfl⟩

theorem ofKernel_nodes_length (w : Kernel.World) : (ofKernel w).nodes.length = w.nodes.length := by
  simp [ofKernel]

/-- a value that names a producer names a node of the table -/
theorem producer_in_range {w : Kernel.World} (h : Kernel.WF w) {v n : Nat}
    (hp : (w.val v).producer = some n) : n < w.nodes.length := by
  obtain ⟨i, hi⟩ := h.prod.2 v n hp
  have := (h.prod.1 n i v).mpr ⟨hp, hi⟩
  apply Classical.byContradiction
  intro hlt
  have hnode : w.node n = default := by
    unfold Kernel.World.node
    rw [lget_eq_getD, List.getD_eq_getElem?_getD, List.getElem?_eq_none (Nat.le_of_not_lt hlt)]
    rfl
  rw [hnode] at this
  have e : (default : Kernel.NodeS).outputs = [] := rfl
  rw [e] at this
  simp at this

theorem ofKernel_prod {w : Kernel.World} (h : Kernel.WF w) (v : Nat) :
    (ofKernel w).prod v = (w.val v).producer := by
  unfold World.prod
  rw [ofKernel_val]
  simp only []
  cases hp : (w.val v).producer with
  | none => rfl
  | some n =>
    simp only []
    rw [ofKernel_nodes_length, if_pos (producer_in_range h hp)]

end IrVerif.Extract

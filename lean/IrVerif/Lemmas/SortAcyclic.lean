/-
C12 — a well-scoped tree all of whose graphs are already in order has no dependency cycle:
the post-order numbering of the tree increases along every edge of `Dep`.
-/
import IrVerif.Lemmas.SortStable

namespace IrVerif.Sort
open List

mutual
/-- post-order listing of node ids: the nodes of the attribute graphs first, then the node -/
def postN : MNode → List Nat
  | .mk i _ subs => postGs subs ++ [i]
def postGs : List (Nat × List MNode) → List Nat
  | [] => []
  | (_, ns) :: gs => postNs ns ++ postGs gs
def postNs : List MNode → List Nat
  | [] => []
  | n :: ns => postN n ++ postNs ns
end

theorem postNs_eq (ns : List MNode) : postNs ns = ns.flatMap postN := by
  induction ns with
  | nil => simp [postNs]
  | cons n ns ih => simp [postNs, ih]

theorem postGs_eq (gs : List MGraph) : postGs gs = gs.flatMap (fun g => postNs g.2) := by
  induction gs with
  | nil => simp [postGs]
  | cons g gs ih => obtain ⟨k, ns⟩ := g; simp [postGs, ih]

theorem postN_eq (n : MNode) : postN n = postGs n.subs ++ [n.id] := by
  cases n; simp [postN, MNode.id, MNode.subs]

theorem postNs_append (l1 l2 : List MNode) : postNs (l1 ++ l2) = postNs l1 ++ postNs l2 := by
  simp [postNs_eq]

/-! ### same elements as the pre-order span -/

theorem post_perm_Ns {ns : List MNode}
    (h : ∀ m ∈ ns, ∀ k, (postN m).Perm (idsOf (entsN k m))) (k : Nat) :
    (postNs ns).Perm (idsOf (entsNs k ns)) := by
  induction ns with
  | nil => simp [postNs, entsNs, idsOf]
  | cons n ns ih =>
    simp only [postNs, entsNs, idsOf, List.map_append]
    exact (h n (by simp) k).append (ih (fun m hm => h m (List.mem_cons_of_mem _ hm)))

theorem post_perm_Gs {gs : List MGraph}
    (h : ∀ g ∈ gs, ∀ m ∈ g.2, ∀ k, (postN m).Perm (idsOf (entsN k m))) :
    (postGs gs).Perm (idsOf (entsGs gs)) := by
  induction gs with
  | nil => simp [postGs, entsGs, idsOf]
  | cons g gs ih =>
    obtain ⟨k, ns⟩ := g
    simp only [postGs, entsGs, idsOf, List.map_append]
    exact (post_perm_Ns (h (k, ns) (by simp)) k).append
      (ih (fun g hg => h g (List.mem_cons_of_mem _ hg)))

theorem post_perm_N : ∀ m : MNode, ∀ k, (postN m).Perm (idsOf (entsN k m)) := by
  intro m
  induction m using MNode.ind with
  | h n ih =>
    intro k
    rw [postN_eq, entsN_cons]
    have := post_perm_Gs ih
    simp only [idsOf, List.map_cons] at *
    refine (List.perm_append_comm).trans ?_
    exact List.Perm.cons _ this

theorem post_perm_root (g : MGraph) : (postNs g.2).Perm (idsOf (nodesOf g)) :=
  post_perm_Ns (fun m _ => post_perm_N m) g.1

/-! ### post-order spans are contiguous -/

theorem postN_infix_postNs {ns : List MNode} {m : MNode} (hm : m ∈ ns) :
    postN m <:+: postNs ns := by
  rw [postNs_eq]; exact infix_flatMap_of_mem _ hm

theorem postNs_infix_postN {n : MNode} {g : MGraph} (hg : g ∈ n.subs) :
    postNs g.2 <:+: postN n := by
  rw [postN_eq, postGs_eq]
  exact (infix_flatMap_of_mem (fun g : MGraph => postNs g.2) hg).trans
    (List.prefix_append _ _).isInfix

theorem post_subgraph_infix : ∀ n : MNode, ∀ h ∈ subgraphsN n, postNs h.2 <:+: postN n := by
  intro n
  induction n using MNode.ind with
  | h n ih =>
    intro h hh
    obtain ⟨g, hg, hcase⟩ := mem_subgraphsN.1 hh
    rcases hcase with rfl | ⟨m', hm', hin⟩
    · exact postNs_infix_postN hg
    · exact ((ih g hg m' hm' h hin).trans (postN_infix_postNs hm')).trans (postNs_infix_postN hg)

theorem post_graph_infix {g h : MGraph} (hh : h ∈ allGraphs g) : postNs h.2 <:+: postNs g.2 := by
  rcases mem_allGraphs.1 hh with rfl | ⟨m, hm, hin⟩
  · exact List.infix_refl _
  · exact (post_subgraph_infix m h hin).trans (postN_infix_postNs hm)

theorem id_mem_postN (m : MNode) : m.id ∈ postN m := by rw [postN_eq]; simp

/-- **the post-order rank increases along every dependency** of a well-scoped tree whose graphs
    are all in order -/
theorem dep_before_post {g : MGraph} (hids : (idsOf (nodesOf g)).Nodup) (hws : WellScoped g)
    (hord : ∀ h ∈ allGraphs g, OrderedG h) {a b : Nat} (hd : Dep (nodesOf g) a b) :
    Before (postNs g.2) a b := by
  obtain ⟨ea, hea, eb, heb, rfl, rfl, hcase⟩ := hd
  rcases hcase with hin | hsub
  · -- `eb` uses a value produced by `ea`
    obtain ⟨h', hh', x, hx, rfl⟩ := ent_is_node_root hea
    have heb_in := hws h' hh' x hx eb heb hin
    obtain ⟨c', hc', hebc'⟩ := mem_entsNs.1 heb_in
    have hb := hord h' hh' x hx c' hc' ⟨eb, hebc', hin⟩
    have hcur := graph_ids_nodup hids hh'
    obtain ⟨L1, n, L2, m', hsplit, hn, hm', hm'id⟩ := before_map_split hb
    have hnmem : n ∈ h'.2 := by rw [hsplit]; simp
    have hm'mem : m' ∈ h'.2 := by rw [hsplit]; simp [hm']
    have h1 : n = x := List.inj_on_of_nodup_map hcur hnmem hx hn
    have h2 : m' = c' := List.inj_on_of_nodup_map hcur hm'mem hc' hm'id
    subst h1 h2
    have hbid : eb.id ∈ postNs L2 := by
      have : eb.id ∈ postN m' :=
        (post_perm_N m' h'.1).mem_iff.2 (List.mem_map.2 ⟨eb, hebc', rfl⟩)
      exact (postN_infix_postNs hm').subset this
    have hdecomp : postNs h'.2 = (postNs L1 ++ postGs n.subs) ++ n.id :: postNs L2 := by
      rw [hsplit, postNs_append]
      simp only [postNs, postN_eq, List.append_assoc, List.singleton_append]
    exact Before.of_infix (post_graph_infix hh') ⟨_, _, hdecomp, hbid⟩
  · -- `ea` is a direct node of an attribute graph of `eb`
    obtain ⟨h'', hh'', nb, hnb, rfl⟩ := ent_is_node_root heb
    have hsub' : ea.id ∈ subNodeIds nb.subs := hsub
    simp only [subNodeIds, List.mem_flatMap, List.mem_map] at hsub'
    obtain ⟨g', hg', m, hm, hmid⟩ := hsub'
    have hmem : ea.id ∈ postGs nb.subs := by
      rw [← hmid, postGs_eq]
      exact List.mem_flatMap.2 ⟨g', hg', (postN_infix_postNs hm).subset (id_mem_postN m)⟩
    obtain ⟨X, Y, hXY⟩ := List.mem_iff_append.1 hmem
    have hb : Before (postN nb) ea.id nb.id :=
      ⟨X, Y ++ [nb.id], by rw [postN_eq, hXY]; simp, by simp⟩
    exact Before.of_infix ((postN_infix_postNs hnb).trans (post_graph_infix hh'')) hb

/-- a well-scoped tree all of whose graphs are in order has no dependency cycle -/
theorem ordered_acyclic {g : MGraph} (hids : (idsOf (nodesOf g)).Nodup) (hws : WellScoped g)
    (hord : ∀ h ∈ allGraphs g, OrderedG h) :
    ¬ ∃ a, Relation.TransGen (Dep (nodesOf g)) a a := by
  have hnd : (postNs g.2).Nodup := (post_perm_root g).nodup_iff.2 hids
  have hlt : ∀ a b, Relation.TransGen (Dep (nodesOf g)) a b →
      (postNs g.2).idxOf a < (postNs g.2).idxOf b := by
    intro a b h
    induction h with
    | single hd => exact (dep_before_post hids hws hord hd).idxOf_lt hnd
    | tail _ hd ih => exact Nat.lt_trans ih ((dep_before_post hids hws hord hd).idxOf_lt hnd)
  rintro ⟨a, ha⟩
  exact Nat.lt_irrefl _ (hlt a a ha)

end IrVerif.Sort

import IrVerif.Lemmas.SerdeNames
/-!
C02 — the stand-alone entry points `from_proto(NodeProto)` / `from_proto(FunctionProto)`:
a stand-alone node creates placeholder values for its free inputs; once they exist the node
deserializes like a node inside the scope made of its outputs and these placeholders.
-/
namespace IrVerif.Serde
open IrVerif.Proto

theorem placeholderNames_not_mem : ∀ (ns names : List String), ∀ x ∈ placeholderNames names ns, x ∉ names
  | [], _, x, hx => by simp [placeholderNames] at hx
  | n :: ns, names, x, hx => by
    simp only [placeholderNames] at hx
    split at hx
    · exact placeholderNames_not_mem ns names x hx
    · rename_i hc
      rcases List.mem_cons.1 hx with rfl | hx
      · intro hm
        apply hc
        simp [hm]
      · have := placeholderNames_not_mem ns (names ++ [n]) x hx
        exact fun hm => this (List.mem_append_left _ hm)

theorem lookupLast_append_new {names : List String} {n : String} (h : n ∉ names) :
    lookupLast (names ++ [n]) n = some names.length := by
  induction names with
  | nil => simp [lookupLast]
  | cons x xs ih =>
    have hx : n ∉ xs := fun hm => h (List.mem_cons_of_mem _ hm)
    simp only [List.cons_append, lookupLast, ih hx, List.length_cons]

theorem newValue_nil (n : String) : newValue [] [] n = .ok (IRValue.blank n) := by
  rw [newValue_eq [] [] n (by simp), newValueT_nil]

theorem tableNames_blank (l : List String) : tableNames (l.map IRValue.blank) = l := by
  simp [tableNames, List.map_map, Function.comp_def, IRValue.blank]

/-- the input loop of a stand-alone node: it appends the placeholders, and running it again on the
resulting table gives the same references and creates nothing -/
theorem desNodeInputs_alone : ∀ (ins : List String) (tbl : List IRValue),
    ∃ refs, desNodeInputs [] [] [] ins tbl
        = .ok (refs, tbl ++ (placeholderNames (tableNames tbl) ins).map IRValue.blank) ∧
      ∀ (E : List String), (∀ x ∈ E, x ∉ tableNames tbl ++ placeholderNames (tableNames tbl) ins) →
        desNodeInputs [] [] [] ins
            (tbl ++ (placeholderNames (tableNames tbl) ins).map IRValue.blank ++ E.map IRValue.blank)
          = .ok (refs, tbl ++ (placeholderNames (tableNames tbl) ins).map IRValue.blank
              ++ E.map IRValue.blank)
  | [], tbl => ⟨[], by simp [desNodeInputs, placeholderNames], by
      intro E _; simp [desNodeInputs, placeholderNames]⟩
  | n :: ns, tbl => by
    by_cases hn : n = ""
    · subst hn
      obtain ⟨rs, h1, h2⟩ := desNodeInputs_alone ns tbl
      have hph : placeholderNames (tableNames tbl) ("" :: ns) = placeholderNames (tableNames tbl) ns := by
        simp [placeholderNames]
      refine ⟨none :: rs, ?_, ?_⟩
      · rw [hph]
        simp only [desNodeInputs, ↓reduceIte, h1, bind, Except.bind]
      · intro E hE
        rw [hph] at hE ⊢
        simp only [desNodeInputs, ↓reduceIte, h2 E hE, bind, Except.bind]
    · cases hl : lookupLast (tableNames tbl) n with
      | some i =>
        have hmem : n ∈ tableNames tbl := lookupLast_mem hl
        have hph : placeholderNames (tableNames tbl) (n :: ns) = placeholderNames (tableNames tbl) ns := by
          simp [placeholderNames, hmem]
        obtain ⟨rs, h1, h2⟩ := desNodeInputs_alone ns tbl
        refine ⟨some ⟨0, i⟩ :: rs, ?_, ?_⟩
        · rw [hph]
          simp only [desNodeInputs, hn, ↓reduceIte, resolve, hl, h1, bind, Except.bind]
        · intro E hE
          rw [hph] at hE ⊢
          have hres : lookupLast (tableNames (tbl ++ (placeholderNames (tableNames tbl) ns).map IRValue.blank
              ++ E.map IRValue.blank)) n = some i := by
            have e : tableNames (tbl ++ (placeholderNames (tableNames tbl) ns).map IRValue.blank
                ++ E.map IRValue.blank)
                = tableNames tbl ++ (placeholderNames (tableNames tbl) ns ++ E) := by
              simp [tableNames, List.map_append, List.map_map, Function.comp_def, IRValue.blank]
            rw [e, lookupLast_append_left, hl]
            intro hm
            rcases List.mem_append.1 hm with hm | hm
            · exact placeholderNames_not_mem ns _ n hm hmem
            · exact hE n hm (List.mem_append_left _ hmem)
          simp only [desNodeInputs, hn, ↓reduceIte, resolve, hres, h2 E hE, bind, Except.bind]
      | none =>
        have hnm : n ∉ tableNames tbl := by
          intro hm
          have := lookupLast_isSome hm
          rw [hl] at this; cases this
        have hph : placeholderNames (tableNames tbl) (n :: ns)
            = n :: placeholderNames (tableNames tbl ++ [n]) ns := by
          simp [placeholderNames, hn, hnm]
        have htn : tableNames (tbl ++ [IRValue.blank n]) = tableNames tbl ++ [n] := by
          simp only [tableNames, List.map_append, List.map_cons, List.map_nil, IRValue.blank]
        obtain ⟨rs, h1, h2⟩ := desNodeInputs_alone ns (tbl ++ [IRValue.blank n])
        rw [htn] at h1 h2
        have happ : ∀ (X : List IRValue), tbl ++ [IRValue.blank n] ++ X
            = tbl ++ (IRValue.blank n :: X) := by intro X; simp
        refine ⟨some ⟨0, tbl.length⟩ :: rs, ?_, ?_⟩
        · rw [hph]
          simp only [desNodeInputs, hn, ↓reduceIte, resolve, hl, Option.map_none, newValue_nil, h1, bind,
            Except.bind, List.map_cons, happ]
        · intro E hE
          rw [hph] at hE ⊢
          have hE' : ∀ x ∈ E, x ∉ tableNames tbl ++ [n] ++ placeholderNames (tableNames tbl ++ [n]) ns := by
            intro x hx hm
            apply hE x hx
            simpa [List.append_assoc] using hm
          have h2' := h2 E hE'
          have e : tableNames (tbl ++ (n :: placeholderNames (tableNames tbl ++ [n]) ns).map IRValue.blank
                ++ E.map IRValue.blank)
                = (tableNames tbl ++ [n]) ++ (placeholderNames (tableNames tbl ++ [n]) ns ++ E) := by
            simp [tableNames, List.map_append, List.map_map, Function.comp_def, IRValue.blank]
          have hres : lookupLast (tableNames (tbl ++ (n :: placeholderNames (tableNames tbl ++ [n]) ns).map
              IRValue.blank ++ E.map IRValue.blank)) n = some tbl.length := by
            rw [e, lookupLast_append_left, lookupLast_append_new hnm]
            · simp [tableNames]
            · intro hm
              rcases List.mem_append.1 hm with hm | hm
              · exact placeholderNames_not_mem ns _ n hm (by simp)
              · exact hE' n hm (by simp)
          have ht : tbl ++ (n :: placeholderNames (tableNames tbl ++ [n]) ns).map IRValue.blank
                ++ E.map IRValue.blank
              = tbl ++ [IRValue.blank n] ++ (placeholderNames (tableNames tbl ++ [n]) ns).map IRValue.blank
                ++ E.map IRValue.blank := by
            simp only [List.map_cons, List.append_assoc, List.cons_append, List.nil_append]
          rw [ht] at hres ⊢
          simp only [desNodeInputs, hn, ↓reduceIte, resolve, hres, h2', bind, Except.bind]

theorem desNode_of_inputs (outer : Scopes) (vis : List ValueInfoP) (q : List AnnotP)
    (tbl T : List IRValue) (n : NodeP) (refs : List (Option Ref))
    (h1 : desNodeInputs outer vis q n.inputs tbl = .ok (refs, T))
    (h2 : desNodeInputs outer vis q n.inputs T = .ok (refs, T)) :
    desNode outer vis q tbl n = desNode outer vis q T n := by
  cases n with
  | mk inputs outputs name opType domain overload doc attrs metadata devcfgs =>
    simp only [NodeP.inputs] at h1 h2
    simp only [desNode, h1, h2, bind, Except.bind]

/-- `from_proto(NodeProto)` then `to_proto`: a stand-alone node round-trips to its canonical form.
Its table is: its outputs, then the placeholders of its free inputs. -/
theorem node_alone_rt (n : NodeP) (h : wfNodeAlone n = true) :
    ∃ x tbl, desNodeAlone n = .ok (x, tbl) ∧
      tableNames tbl = n.outputs.filter (· ≠ "")
        ++ placeholderNames (n.outputs.filter (· ≠ "")) n.inputs ∧
      serNode [tableNames tbl] none x = .ok (normNode n) := by
  simp only [wfNodeAlone, Bool.and_eq_true] at h
  obtain ⟨hnd, hwf⟩ := h
  have hdecl := declareOutputs_spec [] [] (by simp) n.outputs [] (by simp [tableNames])
    (nodupStr_iff.1 hnd)
  simp only [List.nil_append] at hdecl
  have hmapeq : (n.outputs.filter (· ≠ "")).map (newValueT [] [])
      = (n.outputs.filter (· ≠ "")).map IRValue.blank := by
    apply List.map_congr_left; intro a _; exact newValueT_nil a
  rw [hmapeq] at hdecl
  obtain ⟨refs, h1, h2⟩ := desNodeInputs_alone n.inputs ((n.outputs.filter (· ≠ "")).map IRValue.blank)
  have h2' := h2 [] (by simp)
  simp only [List.map_nil, List.append_nil, tableNames_blank] at h1 h2'
  -- the node deserializes alike from the table with and without the placeholders
  have hsame := desNode_of_inputs [] [] [] _ _ n refs h1 h2'
  have hnames : tableNames ((n.outputs.filter (· ≠ "")).map IRValue.blank
      ++ (placeholderNames (n.outputs.filter (· ≠ "")) n.inputs).map IRValue.blank)
      = n.outputs.filter (· ≠ "") ++ placeholderNames (n.outputs.filter (· ≠ "")) n.inputs := by
    rw [← List.map_append, tableNames_blank]
  obtain ⟨x, g1, g2, _⟩ := node_rt [] [] [] none _ n (by rw [hnames]; exact hwf) (Or.inl rfl)
  refine ⟨x, _, ?_, hnames, g2⟩
  simp only [desNodeAlone, hdecl, bind, Except.bind]
  rw [hsame]
  exact g1

end IrVerif.Serde

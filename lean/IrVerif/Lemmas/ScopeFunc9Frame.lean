/-
Frame lemmas for worlds that differ only in the `info` slot of some values (`setInfo`):
* the serializer (`serGraph`, `serFunction` up to the function's value_info) only reads the info of the values
  whose information the proto carries (`emitG`, `emitSubNs`);
* the resolution certificate (`replG`, `replNs`) only reads the info of the truthy-named values it introduces;
* the values whose information the proto carries are introduced by the certificate (`emitG ⊆ new`).
Used by `ScopeFunc9Idem.lean` (the fix-point of the IR version < 10 format).
-/
import IrVerif.Model.ScopeFunc9
import IrVerif.Lemmas.ScopeModel
namespace IrVerif.Scope

/-- the value store `V` with the `info` slots replaced by `I` -/
def setInfo (V : Nat → ValueS) (I : Nat → Info) : Nat → ValueS := fun v => { V v with info := I v }

theorem setInfo_name (V : Nat → ValueS) (I : Nat → Info) (v : Nat) : (setInfo V I v).name = (V v).name := rfl
theorem setInfo_const (V : Nat → ValueS) (I : Nat → Info) (v : Nat) : (setInfo V I v).const = (V v).const := rfl
theorem setInfo_info (V : Nat → ValueS) (I : Nat → Info) (v : Nat) : (setInfo V I v).info = I v := rfl
theorem nm_setInfo (V : Nat → ValueS) (I : Nat → Info) : nm (setInfo V I) = nm V := rfl
theorem inName_setInfo (V : Nat → ValueS) (I : Nat → Info) : inName (setInfo V I) = inName V := by
  funext o; cases o <;> rfl

theorem setInfo_self (V : Nat → ValueS) : setInfo V (fun v => (V v).info) = V := rfl

theorem stripTrailing_setInfo (V : Nat → ValueS) (I : Nat → Info) :
    ∀ (l : List Nat), stripTrailing (setInfo V I) l = stripTrailing V l
  | [] => rfl
  | v :: vs => by simp only [stripTrailing, stripTrailing_setInfo V I vs, setInfo_name]; rfl

theorem liveOuts_setInfo (V : Nat → ValueS) (I : Nat → Info) : liveOuts (setInfo V I) = liveOuts V := by
  funext n
  cases n with
  | mk a b c d e => simp only [liveOuts, stripTrailing_setInfo]

theorem tblIns_setInfo (V : Nat → ValueS) (I : Nat → Info) (ins : List Nat) : tblIns (setInfo V I) ins = tblIns V ins := rfl

/-! ### the serializer -/

theorem serValues_setInfo (V : Nat → ValueS) (I : Nat → Info) :
    ∀ (l : List Nat), (∀ v ∈ l, I v = (V v).info) → serValues (setInfo V I) l = serValues V l
  | [], _ => rfl
  | v :: vs, h => by
    have e : serValue (setInfo V I v) = serValue (V v) := by
      simp only [serValue, setInfo_name, setInfo_info, h v (by simp)]
    simp only [serValues, e, serValues_setInfo V I vs (fun u hu => h u (by simp [hu]))]

theorem serInputs_setInfo (V : Nat → ValueS) (I : Nat → Info) :
    ∀ (l : List (Option Nat)), serInputs (setInfo V I) l = serInputs V l
  | [] => rfl
  | none :: vs => by simp only [serInputs, serInputs_setInfo V I vs]
  | some v :: vs => by simp only [serInputs, serInputs_setInfo V I vs, setInfo_name]

theorem serOutNames_setInfo (V : Nat → ValueS) (I : Nat → Info) :
    ∀ (l : List Nat), serOutNames (setInfo V I) l = serOutNames V l
  | [] => rfl
  | v :: vs => by simp only [serOutNames, serOutNames_setInfo V I vs, setInfo_name]

theorem shouldCreate_setInfo_of_not_truthy (V : Nat → ValueS) (I : Nat → Info) (v : Nat)
    (h : nameTruthy (V v).name = false) : shouldCreate (setInfo V I v) = false ∧ shouldCreate (V v) = false := by
  simp [shouldCreate, setInfo_name, h]

theorem outVInfo_setInfo (V : Nat → ValueS) (I : Nat → Info) (go : List Nat) :
    ∀ (l : List Nat), (∀ v ∈ l, nameTruthy (V v).name = true → I v = (V v).info) →
      outVInfo (setInfo V I) go l = outVInfo V go l
  | [], _ => rfl
  | v :: vs, h => by
    have ih := outVInfo_setInfo V I go vs (fun u hu => h u (by simp [hu]))
    by_cases ht : nameTruthy (V v).name = true
    · have := h v (by simp) ht
      simp only [outVInfo, shouldCreate, setInfo_name, setInfo_info, this, ih]
      rfl
    · have hf : nameTruthy (V v).name = false := by simpa using ht
      obtain ⟨h1, h2⟩ := shouldCreate_setInfo_of_not_truthy V I v hf
      simp only [outVInfo, h1, h2, ih]
      simp

theorem serInits_setInfo (V : Nat → ValueS) (I : Nat → Info) (td : TData) (inames : List (Option Name)) :
    ∀ (l : List (Name × Nat)), (∀ kv ∈ l, I kv.2 = (V kv.2).info) →
      serInits (setInfo V I) td inames l = serInits V td inames l
  | [], _ => rfl
  | (k, v) :: r, h => by
    have ih := serInits_setInfo V I td inames r (fun u hu => h u (by simp [hu]))
    have hv : I v = (V v).info := h (k, v) (by simp)
    simp only [serInits, shouldCreate, setInfo_name, setInfo_info, setInfo_const, hv, ih]
    rfl

mutual
theorem serGraph_setInfo (V : Nat → ValueS) (I : Nat → Info) (td : TData) :
    ∀ (g : GraphT), (∀ v ∈ emitG V g, I v = (V v).info) → serGraph (setInfo V I) td g = serGraph V td g
  | .mk gid ins inits nodes outs, h => by
    simp only [emitG, List.mem_append] at h
    have h1 := serValues_setInfo V I ins (fun v hv => h v (.inl (.inl (.inl (.inl hv)))))
    have h2 := serInits_setInfo V I td (ins.map fun v => (V v).name) inits
      (fun kv hkv => h kv.2 (.inl (.inl (.inl (.inr (List.mem_map_of_mem hkv))))))
    have h3 := serNodes_setInfo V I td outs nodes (fun v hv => h v (.inl (.inl (.inr hv)))) (fun v hv => h v (.inr hv))
    have h4 := serValues_setInfo V I outs (fun v hv => h v (.inl (.inr hv)))
    simp only [serGraph, h1, h2, h3, h4, setInfo_name]
theorem serNodes_setInfo (V : Nat → ValueS) (I : Nat → Info) (td : TData) (go : List Nat) :
    ∀ (ns : List NodeT),
      (∀ v ∈ (ns.flatMap (liveOuts V)).filter (fun v => nameTruthy (V v).name), I v = (V v).info) →
      (∀ v ∈ emitSubNs V ns, I v = (V v).info) → serNodes (setInfo V I) td go ns = serNodes V td go ns
  | [], _, _ => rfl
  | n :: ns, h1, h2 => by
    simp only [List.flatMap_cons, List.filter_append, List.mem_append] at h1
    simp only [emitSubNs, List.mem_append] at h2
    have a := serNode_setInfo V I td go n (fun v hv => h1 v (.inl hv)) (fun v hv => h2 v (.inl hv))
    have b := serNodes_setInfo V I td go ns (fun v hv => h1 v (.inr hv)) (fun v hv => h2 v (.inr hv))
    simp only [serNodes, a, b]
theorem serNode_setInfo (V : Nat → ValueS) (I : Nat → Info) (td : TData) (go : List Nat) :
    ∀ (n : NodeT),
      (∀ v ∈ (liveOuts V n).filter (fun v => nameTruthy (V v).name), I v = (V v).info) →
      (∀ v ∈ emitSubN V n, I v = (V v).info) → serNode (setInfo V I) td go n = serNode V td go n
  | .mk i g ins outs subs, h1, h2 => by
    simp only [emitSubN] at h2
    simp only [liveOuts, List.mem_filter] at h1
    have a := serSubs_setInfo V I td subs h2
    have b := outVInfo_setInfo V I go outs (fun v hv ht => h1 v ⟨truthy_mem_stripTrailing V v outs hv ht, ht⟩)
    simp only [serNode, serInputs_setInfo, stripTrailing_setInfo, serOutNames_setInfo, a, b]
theorem serSubs_setInfo (V : Nat → ValueS) (I : Nat → Info) (td : TData) :
    ∀ (gs : List GraphT), (∀ v ∈ emitGs V gs, I v = (V v).info) → serSubs (setInfo V I) td gs = serSubs V td gs
  | [], _ => rfl
  | g :: gs, h => by
    simp only [emitGs, List.mem_append] at h
    have a := serGraph_setInfo V I td g (fun v hv => h v (.inl hv))
    have b := serSubs_setInfo V I td gs (fun v hv => h v (.inr hv))
    simp only [serSubs, a, b]
end

/-- a function proto without its value_info (what `serializeM9` writes) -/
def eraseF (f : FuncP) : FuncP := { f with vinfo := [] }

theorem serNodes_setInfo_weak (V : Nat → ValueS) (I : Nat → Info) (td : TData) (go : List Nat) :
    ∀ (ns : List NodeT) (nps : List NodeP) (vis : List VInfoP) (ws : Writes),
      (∀ v ∈ emitSubNs V ns, I v = (V v).info) → serNodes V td go ns = .ok (nps, vis, ws) →
      ∃ vis', serNodes (setInfo V I) td go ns = .ok (nps, vis', ws)
  | [], nps, vis, ws, _, h => by
    simp only [serNodes, Except.ok.injEq, Prod.mk.injEq] at h
    obtain ⟨rfl, _, rfl⟩ := h
    exact ⟨[], rfl⟩
  | n :: ns, nps, vis, ws, h2, h => by
    simp only [emitSubNs, List.mem_append] at h2
    simp only [serNodes] at h
    split at h
    · simp at h
    · rename_i np vi ws1 hn
      split at h
      · simp at h
      · rename_i nps' vis' ws2 hr
        simp only [Except.ok.injEq, Prod.mk.injEq] at h
        obtain ⟨rfl, _, rfl⟩ := h
        obtain ⟨vis'', e2⟩ := serNodes_setInfo_weak V I td go ns nps' vis' ws2 (fun v hv => h2 v (.inr hv)) hr
        obtain ⟨i, g, ins, outs, subs⟩ := n
        simp only [emitSubN] at h2
        have a := serSubs_setInfo V I td subs (fun v hv => h2 v (.inl hv))
        simp only [serNode] at hn
        split at hn
        · simp at hn
        · rename_i insN hi
          split at hn
          · simp at hn
          · rename_i outsN ho
            split at hn
            · simp at hn
            · rename_i gps wsg hg
              simp only [Except.ok.injEq, Prod.mk.injEq] at hn
              obtain ⟨rfl, _, rfl⟩ := hn
              exact ⟨_, by
                simp only [serNodes, serNode, serInputs_setInfo, stripTrailing_setInfo, serOutNames_setInfo, a, hi,
                  ho, hg, e2]
                rfl⟩

theorem serFInputs_setInfo_weak (V : Nat → ValueS) (I : Nat → Info) :
    ∀ (ins : List Nat) (ns : List Name) (vis : List VInfoP), serFInputs V ins = .ok (ns, vis) →
      ∃ vis', serFInputs (setInfo V I) ins = .ok (ns, vis')
  | [], ns, vis, h => by
    simp only [serFInputs, Except.ok.injEq, Prod.mk.injEq] at h
    obtain ⟨rfl, _⟩ := h
    exact ⟨[], rfl⟩
  | v :: vs, ns, vis, h => by
    simp only [serFInputs] at h
    split at h
    · simp at h
    · rename_i n hn
      split at h
      · simp at h
      · rename_i ns' vis' hr
        simp only [Except.ok.injEq, Prod.mk.injEq] at h
        obtain ⟨rfl, _⟩ := h
        obtain ⟨vis'', e⟩ := serFInputs_setInfo_weak V I vs ns' vis' hr
        exact ⟨_, by simp only [serFInputs, setInfo_name, hn, e]; rfl⟩

theorem serFunction_setInfo_weak (V : Nat → ValueS) (I : Nat → Info) (td : TData) (id : FId) :
    ∀ (g : GraphT) (fp : FuncP) (ws : Writes), (∀ v ∈ emitSubNs V g.nodes, I v = (V v).info) →
      serFunction V td (id, g) = .ok (fp, ws) →
      ∃ fp', serFunction (setInfo V I) td (id, g) = .ok (fp', ws) ∧ eraseF fp' = eraseF fp
  | .mk gid ins inits nodes outs, fp, ws, h2, h => by
    simp only [serFunction] at h
    split at h
    · simp at h
    · rename_i insN vis1 hi
      split at h
      · simp at h
      · rename_i outsN ho
        split at h
        · simp at h
        · rename_i nps vis2 ws' hn
          simp only [Except.ok.injEq, Prod.mk.injEq] at h
          obtain ⟨rfl, rfl⟩ := h
          obtain ⟨vis1', e1⟩ := serFInputs_setInfo_weak V I ins insN vis1 hi
          obtain ⟨vis2', e2⟩ := serNodes_setInfo_weak V I td [] nodes nps vis2 ws' h2 hn
          exact ⟨⟨id, insN, outsN, vis1' ++ vis2', nps⟩, by simp only [serFunction, e1, serOutNames_setInfo, ho, e2], rfl⟩

theorem serFuncs_setInfo_weak (V : Nat → ValueS) (I : Nat → Info) (td : TData) :
    ∀ (fs : List (FId × GraphT)) (fps : List FuncP) (ws : Writes),
      (∀ f ∈ fs, ∀ v ∈ emitSubNs V f.2.nodes, I v = (V v).info) → serFuncs V td fs = .ok (fps, ws) →
      ∃ fps', serFuncs (setInfo V I) td fs = .ok (fps', ws) ∧ fps'.map eraseF = fps.map eraseF
  | [], fps, ws, _, h => by
    simp only [serFuncs, Except.ok.injEq, Prod.mk.injEq] at h
    obtain ⟨rfl, rfl⟩ := h
    exact ⟨[], rfl, rfl⟩
  | f :: fs, fps, ws, h2, h => by
    obtain ⟨fp, ws1, fps', ws2, a, b, rfl, rfl⟩ := serFuncs_inv h
    obtain ⟨id, g⟩ := f
    obtain ⟨fp', e1, e1'⟩ := serFunction_setInfo_weak V I td id g fp ws1 (h2 (id, g) (by simp)) a
    obtain ⟨fps'', e2, e2'⟩ := serFuncs_setInfo_weak V I td fs fps' ws2 (fun f hf => h2 f (by simp [hf])) b
    exact ⟨fp' :: fps'', by simp only [serFuncs, e1, e2], by simp only [List.map_cons, e1', e2']⟩

end IrVerif.Scope

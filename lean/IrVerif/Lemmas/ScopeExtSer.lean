/-
The extended serializer (`serGraphE` of `Model/ScopeExt.lean`): inversion lemmas, the entries of the value_info list,
the entries of the quantization_annotation list.
-/
import IrVerif.Lemmas.ScopeExtGen
namespace IrVerif.Scope

theorem xliftS_ok {α : Type} {e : Except SErr α} {a : α} (h : liftS e = .ok a) : e = .ok a := by
  cases e with
  | ok b => simpa [liftS] using h
  | error _ => simp [liftS] at h

theorem xserValues_ok {V : Nat → ValueS} {x : Ext} {vs : List Nat} {ps : List VInfoE} (h : serValuesE V x vs = .ok ps) :
    ps = vs.map (viOfE V x) ∧ ∀ v ∈ vs, (V v).name ≠ none := by
  induction vs generalizing ps with
  | nil =>
    simp only [serValuesE, Except.ok.injEq] at h
    subst h; simp
  | cons v vs ih =>
    simp only [serValuesE] at h
    split at h
    · simp at h
    · rename_i p hp
      split at h
      · simp at h
      · rename_i ps' hps
        simp only [Except.ok.injEq] at h
        subst h
        obtain ⟨e1, e2⟩ := ih hps
        simp only [serValueE] at hp
        split at hp
        · simp at hp
        · rename_i n hn
          simp only [Except.ok.injEq] at hp
          subst hp
          refine ⟨by simp [e1, viOfE, nm, hn], fun w hw => ?_⟩
          simp only [List.mem_cons] at hw
          rcases hw with rfl | hw
          · simp [hn]
          · exact e2 w hw

/-! ### inversion -/

theorem xserGraph_inv {V : Nat → ValueS} {x : Ext} {td : TData} {ver : Option Int} {gid : Nat} {ins : List Nat}
    {inits : List (Name × Nat)} {nodes : List NodeT} {outs : List Nat} {q : GraphE} {ws : Writes}
    (h : serGraphE V x td ver (.mk gid ins inits nodes outs) = .ok (q, ws)) :
    ∃ qIn seen1 qInit seen2 nps qNodes vis2 ws2 qOut seen3,
      (∀ v ∈ ins, (V v).name ≠ none) ∧ (∀ v ∈ outs, (V v).name ≠ none) ∧
      quantInputsE V x (inits.map (·.1)) ins [] = .ok (qIn, seen1) ∧
      quantOnceE V x (inits.map (·.2)) seen1 = .ok (qInit, seen2) ∧
      serNodesE V x td ver true outs nodes = .ok (nps, qNodes, vis2, ws2) ∧
      quantOnceE V x outs seen2 = .ok (qOut, seen3) ∧
      q = .mk (ins.map (viOfE V x)) (serInitsE V x td (ins.map fun v => (V v).name) inits).2.1
            ((serInitsE V x td (ins.map fun v => (V v).name) inits).1 ++ vis2) nps (outs.map (viOfE V x))
            (qIn ++ qInit ++ qNodes ++ qOut) := by
  simp only [serGraphE] at h
  split at h
  · simp at h
  · rename_i insP hi
    split at h
    · simp at h
    · rename_i qIn seen1 hq1
      split at h
      · simp at h
      · rename_i qInit seen2 hq2
        split at h
        · simp at h
        · rename_i nps qNodes vis2 ws2 hn
          split at h
          · simp at h
          · rename_i outsP ho
            split at h
            · simp at h
            · rename_i qOut seen3 hq3
              simp only [Except.ok.injEq, Prod.mk.injEq] at h
              obtain ⟨rfl, _⟩ := h
              obtain ⟨e1, n1⟩ := xserValues_ok (xliftS_ok hi)
              obtain ⟨e2, n2⟩ := xserValues_ok (xliftS_ok ho)
              exact ⟨qIn, seen1, qInit, seen2, nps, qNodes, vis2, ws2, qOut, seen3, n1, n2, xliftS_ok hq1, xliftS_ok hq2, hn,
                xliftS_ok hq3, by rw [e1, e2]⟩

theorem xserNodes_inv {V : Nat → ValueS} {x : Ext} {td : TData} {ver : Option Int} {annot : Bool} {go : List Nat}
    {n : NodeT} {ns : List NodeT} {nps : List NodeE} {qs : List QuantP} {vis : List VInfoE} {ws : Writes}
    (h : serNodesE V x td ver annot go (n :: ns) = .ok (nps, qs, vis, ws)) :
    ∃ np q1 vi1 ws1 nps' qs' vis' ws2, serNodeE V x td ver annot go n = .ok (np, q1, vi1, ws1) ∧
      serNodesE V x td ver annot go ns = .ok (nps', qs', vis', ws2) ∧ nps = np :: nps' ∧ qs = q1 ++ qs' ∧
      vis = vi1 ++ vis' := by
  simp only [serNodesE] at h
  split at h
  · simp at h
  · rename_i np q1 vi1 ws1 h1
    split at h
    · simp at h
    · rename_i nps' qs' vis' ws2 h2
      simp only [Except.ok.injEq, Prod.mk.injEq] at h
      obtain ⟨rfl, rfl, rfl, _⟩ := h
      exact ⟨np, q1, vi1, ws1, nps', qs', vis', ws2, h1, h2, rfl, rfl, rfl⟩

theorem xserNode_inv {V : Nat → ValueS} {x : Ext} {td : TData} {ver : Option Int} {annot : Bool} {go : List Nat}
    {i : Nat} {g : Option Nat} {ins : List (Option Nat)} {outs : List Nat} {subs : List GraphT} {np : NodeE}
    {q : List QuantP} {vi : List VInfoE} {ws : Writes}
    (h : serNodeE V x td ver annot go (.mk i g ins outs subs) = .ok (np, q, vi, ws)) :
    ∃ gps ds, serSubsE V x td ver subs = .ok (gps, ws) ∧ serDevRsGated V ver (x.devs i) = .ok ds ∧
      nodeOutsE V x annot go outs = .ok (q, vi) ∧
      np = .mk (ins.map (inName V)) ((stripTrailing V outs).map (nm V)) ds gps ∧
      (∀ v, some v ∈ ins → (V v).name ≠ none) ∧ (∀ v ∈ stripTrailing V outs, (V v).name ≠ none) := by
  simp only [serNodeE] at h
  split at h
  · simp at h
  · rename_i insN hi
    split at h
    · simp at h
    · rename_i outsN ho
      split at h
      · simp at h
      · rename_i gps ws' hs
        split at h
        · simp at h
        · rename_i ds hd
          split at h
          · simp at h
          · rename_i q' vi' hno
            simp only [Except.ok.injEq, Prod.mk.injEq] at h
            obtain ⟨rfl, rfl, rfl, rfl⟩ := h
            obtain ⟨e1, n1⟩ := serInputs_ok (xliftS_ok hi)
            obtain ⟨e2, n2⟩ := serOutNames_ok (xliftS_ok ho)
            exact ⟨gps, ds, hs, hd, xliftS_ok hno, by rw [e1, e2], n1, n2⟩

theorem xserSubs_inv {V : Nat → ValueS} {x : Ext} {td : TData} {ver : Option Int} {g : GraphT} {gs : List GraphT}
    {gps : List GraphE} {ws : Writes} (h : serSubsE V x td ver (g :: gs) = .ok (gps, ws)) :
    ∃ gp ws1 gps' ws2, serGraphE V x td ver g = .ok (gp, ws1) ∧ serSubsE V x td ver gs = .ok (gps', ws2) ∧
      gps = gp :: gps' := by
  simp only [serSubsE] at h
  split at h
  · simp at h
  · rename_i gp ws1 h1
    split at h
    · simp at h
    · rename_i gps' ws2 h2
      simp only [Except.ok.injEq, Prod.mk.injEq] at h
      obtain ⟨rfl, _⟩ := h
      exact ⟨gp, ws1, gps', ws2, h1, h2, rfl⟩

/-! ### tensors and node output names: as in the core serializer -/

theorem xserInits_tensors (V : Nat → ValueS) (x : Ext) (td : TData) (inames : List (Option Name)) :
    ∀ (l : List (Name × Nat)), (serInitsE V x td inames l).2.1 = (serInits V td inames l).2.1
  | [] => rfl
  | (k, v) :: r => by
    simp only [serInitsE, serInits]
    have := xserInits_tensors V x td inames r
    cases hc : (V v).const with
    | none => simpa using this
    | some t => simp [this]

theorem xserNodes_outputs (V : Nat → ValueS) (x : Ext) (td : TData) (ver : Option Int) (annot : Bool) (go : List Nat) :
    ∀ (ns : List NodeT) (nps : List NodeE) (qs : List QuantP) (vis : List VInfoE) (ws : Writes),
      serNodesE V x td ver annot go ns = .ok (nps, qs, vis, ws) →
      (eraseNs nps).map NodeP.outputs = ns.map (fun n => (liveOuts V n).map (nm V))
  | [], nps, qs, vis, ws, h => by
    simp only [serNodesE, Except.ok.injEq, Prod.mk.injEq] at h
    obtain ⟨rfl, _⟩ := h
    rfl
  | n :: ns, nps, qs, vis, ws, h => by
    obtain ⟨np, q1, vi1, ws1, nps', qs', vis', ws2, h1, h2, rfl, _, _⟩ := xserNodes_inv h
    obtain ⟨i, g, a, b, c⟩ := n
    obtain ⟨gps, ds, _, _, _, rfl, _, _⟩ := xserNode_inv h1
    simp only [eraseNs, List.map_cons, xserNodes_outputs V x td ver annot go ns nps' qs' vis' ws2 h2]
    rfl

/-! ### the value_info entries -/

theorem mem_xserInits_vi (V : Nat → ValueS) (x : Ext) (td : TData) (inames : List (Option Name)) (e : VInfoE) :
    ∀ (l : List (Name × Nat)), e ∈ (serInitsE V x td inames l).1 ↔
      ∃ kv ∈ l, shouldCreateE (V kv.2) (x.vmeta kv.2) = true ∧ (V kv.2).name ∉ inames ∧ e = viOfE V x kv.2
  | [] => by simp [serInitsE]
  | (k, v) :: r => by
    have ih := mem_xserInits_vi V x td inames e r
    have hfst : (serInitsE V x td inames ((k, v) :: r)).1 =
        (if shouldCreateE (V v) (x.vmeta v) && !(inames.contains (V v).name) then
          [(⟨(V v).name.getD "", (V v).info.emit, ssSorted (x.vmeta v)⟩ : VInfoE)] else []) ++
          (serInitsE V x td inames r).1 := by
      simp only [serInitsE]
      cases (V v).const <;> rfl
    rw [hfst, List.mem_append, ih]
    constructor
    · rintro (h | ⟨kv, hkv, h⟩)
      · split at h
        · rename_i hc
          simp only [Bool.and_eq_true, Bool.not_eq_true', List.contains_eq_mem, decide_eq_false_iff_not] at hc
          simp only [List.mem_singleton] at h
          exact ⟨(k, v), by simp, hc.1, hc.2, by rw [h]; rfl⟩
        · simp at h
      · exact ⟨kv, by simp [hkv], h⟩
    · rintro ⟨kv, hkv, h1, h2, h3⟩
      simp only [List.mem_cons] at hkv
      rcases hkv with rfl | hkv
      · left
        have : (shouldCreateE (V v) (x.vmeta v) && !(inames.contains (V v).name)) = true := by
          simp [h1, h2]
        rw [this, if_pos rfl, h3]
        simp [viOfE, nm]
      · exact .inr ⟨kv, hkv, h1, h2, h3⟩

theorem mem_nodeOutsE_vi (V : Nat → ValueS) (x : Ext) (annot : Bool) (go : List Nat) (e : VInfoE) :
    ∀ (l : List Nat) (qs : List QuantP) (vis : List VInfoE), nodeOutsE V x annot go l = .ok (qs, vis) →
      (e ∈ vis ↔ ∃ u ∈ l, u ∉ go ∧ shouldCreateE (V u) (x.vmeta u) = true ∧ e = viOfE V x u)
  | [], qs, vis, h => by
    simp only [nodeOutsE, Except.ok.injEq, Prod.mk.injEq] at h
    obtain ⟨_, rfl⟩ := h
    simp
  | v :: r, qs, vis, h => by
    simp only [nodeOutsE] at h
    by_cases hg : go.contains v = true
    · simp only [hg, if_true] at h
      rw [mem_nodeOutsE_vi V x annot go e r qs vis h]
      have hgm : v ∈ go := by simpa using hg
      constructor
      · rintro ⟨u, hu, h'⟩
        exact ⟨u, by simp [hu], h'⟩
      · rintro ⟨u, hu, h1, h'⟩
        simp only [List.mem_cons] at hu
        rcases hu with rfl | hu
        · exact absurd hgm h1
        · exact ⟨u, hu, h1, h'⟩
    · simp only [hg, Bool.false_eq_true, if_false] at h
      have hgm : v ∉ go := by simpa using hg
      split at h
      · simp at h
      · rename_i q hq
        split at h
        · simp at h
        · rename_i qs' vis' hr
          simp only [Except.ok.injEq, Prod.mk.injEq] at h
          obtain ⟨_, rfl⟩ := h
          have ih := mem_nodeOutsE_vi V x annot go e r qs' vis' hr
          by_cases hsc : shouldCreateE (V v) (x.vmeta v) = true
          · simp only [hsc, if_true, List.mem_cons, ih]
            constructor
            · rintro (h | ⟨u, hu, h'⟩)
              · exact ⟨v, by simp, hgm, hsc, by rw [h]; rfl⟩
              · exact ⟨u, by simp [hu], h'⟩
            · rintro ⟨u, hu, h1, h2, h3⟩
              rcases hu with rfl | hu
              · left; rw [h3]; rfl
              · exact .inr ⟨u, hu, h1, h2, h3⟩
          · simp only [hsc, Bool.false_eq_true, if_false, ih]
            constructor
            · rintro ⟨u, hu, h'⟩
              exact ⟨u, by simp [hu], h'⟩
            · rintro ⟨u, hu, h1, h2, h3⟩
              simp only [List.mem_cons] at hu
              rcases hu with rfl | hu
              · exact absurd h2 hsc
              · exact ⟨u, hu, h1, h2, h3⟩

theorem mem_xserNodes_vi (V : Nat → ValueS) (x : Ext) (td : TData) (ver : Option Int) (annot : Bool) (go : List Nat)
    (e : VInfoE) : ∀ (ns : List NodeT) (nps : List NodeE) (qs : List QuantP) (vis : List VInfoE) (ws : Writes),
      serNodesE V x td ver annot go ns = .ok (nps, qs, vis, ws) →
      (e ∈ vis ↔ ∃ n ∈ ns, ∃ u ∈ n.outputs, u ∉ go ∧ shouldCreateE (V u) (x.vmeta u) = true ∧ e = viOfE V x u)
  | [], nps, qs, vis, ws, h => by
    simp only [serNodesE, Except.ok.injEq, Prod.mk.injEq] at h
    obtain ⟨_, _, rfl, _⟩ := h
    simp
  | n :: ns, nps, qs, vis, ws, h => by
    obtain ⟨np, q1, vi1, ws1, nps', qs', vis', ws2, h1, h2, _, _, rfl⟩ := xserNodes_inv h
    obtain ⟨i, g, a, b, c⟩ := n
    obtain ⟨gps, ds, _, _, hno, _, _, _⟩ := xserNode_inv h1
    rw [List.mem_append, mem_nodeOutsE_vi V x annot go e b q1 vi1 hno,
      mem_xserNodes_vi V x td ver annot go e ns nps' qs' vis' ws2 h2]
    constructor
    · rintro (h | ⟨n, hn, h⟩)
      · exact ⟨.mk i g a b c, by simp, h⟩
      · exact ⟨n, by simp [hn], h⟩
    · rintro ⟨n, hn, h⟩
      simp only [List.mem_cons] at hn
      rcases hn with rfl | hn
      · exact .inl h
      · exact .inr ⟨n, hn, h⟩

/-! ### lookups in the tables of the second run -/

theorem vinfoTableE_lookup_some (L : List VInfoE) (n : Name) (i : Info) (m : SS)
    (hall : ∀ e ∈ L, e.name = n → e.info = i ∧ e.mprops = m) (hex : ∃ e ∈ L, e.name = n) :
    (vinfoTableE L).lookup n = some (i, m) := by
  induction L with
  | nil => obtain ⟨e, he, _⟩ := hex; simp at he
  | cons a L ih =>
    simp only [vinfoTableE, List.map_cons, List.reverse_cons] at ih ⊢
    rw [List.lookup_append]
    by_cases hr : ∃ e ∈ L, e.name = n
    · rw [ih (fun e he => hall e (by simp [he])) hr]; rfl
    · have hnone : ((L.map fun i => (i.name, i.info, i.mprops)).reverse).lookup n = none := by
        cases hl : ((L.map fun i => (i.name, i.info, i.mprops)).reverse).lookup n with
        | none => rfl
        | some v =>
          exfalso
          have := lookup_mem _ _ _ hl
          simp only [List.mem_reverse, List.mem_map] at this
          obtain ⟨e, he, heq⟩ := this
          exact hr ⟨e, he, (congrArg Prod.fst heq)⟩
      rw [hnone]
      obtain ⟨e, he, hn⟩ := hex
      simp only [List.mem_cons] at he
      rcases he with rfl | he
      · obtain ⟨h1, h2⟩ := hall e (by simp) hn
        simp [List.lookup_cons, hn, h1, h2]
      · exact absurd ⟨e, he, hn⟩ hr

theorem vinfoTableE_lookup_none (L : List VInfoE) (n : Name) (h : ∀ e ∈ L, e.name ≠ n) :
    (vinfoTableE L).lookup n = none := by
  cases hl : (vinfoTableE L).lookup n with
  | none => rfl
  | some v =>
    exfalso
    have := lookup_mem _ _ _ hl
    simp only [vinfoTableE, List.mem_reverse, List.mem_map] at this
    obtain ⟨e, he, heq⟩ := this
    exact h e he (congrArg Prod.fst heq)

theorem quantTable_lookup_some (Q : List QuantP) (n : Name) (P : SS)
    (hall : ∀ a ∈ Q, a.name = n → a.params = P) (hex : ∃ a ∈ Q, a.name = n) :
    (quantTable Q).lookup n = some P := by
  induction Q with
  | nil => obtain ⟨e, he, _⟩ := hex; simp at he
  | cons a L ih =>
    simp only [quantTable, List.map_cons, List.reverse_cons] at ih ⊢
    rw [List.lookup_append]
    by_cases hr : ∃ e ∈ L, e.name = n
    · rw [ih (fun e he => hall e (by simp [he])) hr]; rfl
    · have hnone : ((L.map fun a => (a.name, a.params)).reverse).lookup n = none := by
        cases hl : ((L.map fun a => (a.name, a.params)).reverse).lookup n with
        | none => rfl
        | some v =>
          exfalso
          have := lookup_mem _ _ _ hl
          simp only [List.mem_reverse, List.mem_map] at this
          obtain ⟨e, he, heq⟩ := this
          exact hr ⟨e, he, (congrArg Prod.fst heq)⟩
      rw [hnone]
      obtain ⟨e, he, hn⟩ := hex
      simp only [List.mem_cons] at he
      rcases he with rfl | he
      · have h1 := hall e (by simp) hn
        simp [List.lookup_cons, hn, h1]
      · exact absurd ⟨e, he, hn⟩ hr

theorem quantTable_lookup_none (Q : List QuantP) (n : Name) (h : ∀ a ∈ Q, a.name ≠ n) :
    (quantTable Q).lookup n = none := by
  cases hl : (quantTable Q).lookup n with
  | none => rfl
  | some v =>
    exfalso
    have := lookup_mem _ _ _ hl
    simp only [quantTable, List.mem_reverse, List.mem_map] at this
    obtain ⟨e, he, heq⟩ := this
    exact h e he (congrArg Prod.fst heq)

/-! ### the annotation entries -/

/-- the entry written for `v`, if any -/
def QEnt (V : Nat → ValueS) (x : Ext) (v : Nat) (a : QuantP) : Prop :=
  ∃ ps, x.quant v = some ps ∧ ps.isEmpty = false ∧ (V v).name = some a.name ∧ a.params = ssSorted ps

theorem quantOfE_mem {V : Nat → ValueS} {x : Ext} {v : Nat} {q : List QuantP} (h : quantOfE V x v = .ok q) :
    (∀ a ∈ q, QEnt V x v a) ∧ (∀ a, QEnt V x v a → a ∈ q) := by
  simp only [quantOfE] at h
  cases hq : x.quant v with
  | none =>
    simp only [hq, Except.ok.injEq] at h
    subst h
    exact ⟨fun a ha => by simp at ha, fun a ⟨ps, h1, _⟩ => by rw [hq] at h1; cases h1⟩
  | some ps =>
    simp only [hq] at h
    cases ps with
    | nil =>
      simp only [List.isEmpty_nil, if_true, Except.ok.injEq] at h
      subst h
      exact ⟨fun a ha => by simp at ha, fun a ⟨ps', h1, h2, _⟩ => by
        rw [hq] at h1; simp only [Option.some.injEq] at h1; subst h1; simp at h2⟩
    | cons p r =>
      simp only [List.isEmpty_cons, Bool.false_eq_true, if_false] at h
      cases hn : (V v).name with
      | none => simp [hn] at h
      | some n =>
        simp only [hn, Except.ok.injEq] at h
        subst h
        refine ⟨fun a ha => ?_, fun a ⟨ps', h1, _, h3, h4⟩ => ?_⟩
        · simp only [List.mem_singleton] at ha
          subst ha
          exact ⟨p :: r, hq, rfl, hn, rfl⟩
        · rw [hq] at h1
          rw [hn] at h3
          simp only [Option.some.injEq] at h1 h3
          subst h1
          obtain ⟨an, ap⟩ := a
          simp only at h3 h4
          subst h3; subst h4
          simp

theorem quantOnceE_mem (V : Nat → ValueS) (x : Ext) : ∀ (l seen : List Nat) (r : List QuantP) (seen' : List Nat),
    quantOnceE V x l seen = .ok (r, seen') →
    (∀ a ∈ r, ∃ v ∈ l, QEnt V x v a) ∧ (∀ v ∈ l, v ∈ seen ∨ ∀ a, QEnt V x v a → a ∈ r) ∧
    (∀ v, v ∈ seen' ↔ v ∈ seen ∨ v ∈ l)
  | [], seen, r, seen', h => by
    simp only [quantOnceE, Except.ok.injEq, Prod.mk.injEq] at h
    obtain ⟨rfl, rfl⟩ := h
    simp
  | v :: vs, seen, r, seen', h => by
    simp only [quantOnceE] at h
    by_cases hs : seen.contains v = true
    · simp only [hs, Bool.not_true, Bool.false_eq_true, if_false] at h
      have hsm : v ∈ seen := by simpa using hs
      obtain ⟨a, b, c⟩ := quantOnceE_mem V x vs seen r seen' h
      refine ⟨fun e he => ?_, fun w hw => ?_, fun w => ?_⟩
      · obtain ⟨u, hu, h'⟩ := a e he
        exact ⟨u, by simp [hu], h'⟩
      · simp only [List.mem_cons] at hw
        rcases hw with rfl | hw
        · exact .inl hsm
        · exact b w hw
      · rw [c w]
        constructor
        · rintro (h | h)
          · exact .inl h
          · exact .inr (by simp [h])
        · rintro (h | h)
          · exact .inl h
          · simp only [List.mem_cons] at h
            rcases h with rfl | h
            · exact .inl hsm
            · exact .inr h
    · simp only [hs, Bool.not_false, if_true] at h
      have hsm : v ∉ seen := by simpa using hs
      split at h
      · simp at h
      · rename_i q hq
        split at h
        · simp at h
        · rename_i r' seen'' hr
          simp only [Except.ok.injEq, Prod.mk.injEq] at h
          obtain ⟨rfl, rfl⟩ := h
          obtain ⟨a, b, c⟩ := quantOnceE_mem V x vs (v :: seen) r' seen'' hr
          obtain ⟨q1, q2⟩ := quantOfE_mem hq
          refine ⟨fun e he => ?_, fun w hw => ?_, fun w => ?_⟩
          · simp only [List.mem_append] at he
            rcases he with he | he
            · exact ⟨v, by simp, q1 e he⟩
            · obtain ⟨u, hu, h'⟩ := a e he
              exact ⟨u, by simp [hu], h'⟩
          · simp only [List.mem_cons] at hw
            rcases hw with rfl | hw
            · exact .inr (fun e he => List.mem_append.mpr (.inl (q2 e he)))
            · rcases b w hw with h | h
              · simp only [List.mem_cons] at h
                rcases h with rfl | h
                · exact .inr (fun e he => List.mem_append.mpr (.inl (q2 e he)))
                · exact .inl h
              · exact .inr (fun e he => List.mem_append.mpr (.inr (h e he)))
          · rw [c w]
            simp only [List.mem_cons]
            constructor
            · rintro ((h | h) | h)
              · exact .inr (.inl h)
              · exact .inl h
              · exact .inr (.inr h)
            · rintro (h | h | h)
              · exact .inl (.inr h)
              · exact .inl (.inl h)
              · exact .inr h

/-- the inputs skipped by the input loop: their name is an initializer key -/
def skipIn (V : Nat → ValueS) (keys : List Name) (v : Nat) : Bool :=
  match (V v).name with | some n => keys.contains n | none => false

theorem quantInputsE_mem (V : Nat → ValueS) (x : Ext) (keys : List Name) :
    ∀ (l seen : List Nat) (r : List QuantP) (seen' : List Nat),
    quantInputsE V x keys l seen = .ok (r, seen') →
    (∀ a ∈ r, ∃ v ∈ l, QEnt V x v a) ∧
    (∀ v ∈ l, skipIn V keys v = true ∨ v ∈ seen ∨ ∀ a, QEnt V x v a → a ∈ r) ∧
    (∀ v, v ∈ seen' ↔ v ∈ seen ∨ (v ∈ l ∧ skipIn V keys v = false))
  | [], seen, r, seen', h => by
    simp only [quantInputsE, Except.ok.injEq, Prod.mk.injEq] at h
    obtain ⟨rfl, rfl⟩ := h
    simp
  | v :: vs, seen, r, seen', h => by
    simp only [quantInputsE] at h
    change (if (!skipIn V keys v && !seen.contains v) = true then _ else _) = _ at h
    by_cases hc : (!skipIn V keys v && !seen.contains v) = true
    · simp only [hc, if_true] at h
      simp only [Bool.and_eq_true, Bool.not_eq_true', List.contains_eq_mem, decide_eq_false_iff_not] at hc
      obtain ⟨hk, hsm⟩ := hc
      split at h
      · simp at h
      · rename_i q hq
        split at h
        · simp at h
        · rename_i r' seen'' hr
          simp only [Except.ok.injEq, Prod.mk.injEq] at h
          obtain ⟨rfl, rfl⟩ := h
          obtain ⟨a, b, c⟩ := quantInputsE_mem V x keys vs (v :: seen) r' seen'' hr
          obtain ⟨q1, q2⟩ := quantOfE_mem hq
          refine ⟨fun e he => ?_, fun w hw => ?_, fun w => ?_⟩
          · simp only [List.mem_append] at he
            rcases he with he | he
            · exact ⟨v, by simp, q1 e he⟩
            · obtain ⟨u, hu, h'⟩ := a e he
              exact ⟨u, by simp [hu], h'⟩
          · simp only [List.mem_cons] at hw
            rcases hw with rfl | hw
            · exact .inr (.inr (fun e he => List.mem_append.mpr (.inl (q2 e he))))
            · rcases b w hw with h | h | h
              · exact .inl h
              · simp only [List.mem_cons] at h
                rcases h with rfl | h
                · exact .inr (.inr (fun e he => List.mem_append.mpr (.inl (q2 e he))))
                · exact .inr (.inl h)
              · exact .inr (.inr (fun e he => List.mem_append.mpr (.inr (h e he))))
          · rw [c w]
            simp only [List.mem_cons]
            constructor
            · rintro ((h | h) | h)
              · subst h; exact .inr ⟨.inl rfl, hk⟩
              · exact .inl h
              · exact .inr ⟨.inr h.1, h.2⟩
            · rintro (h | ⟨h | h, h2⟩)
              · exact .inl (.inr h)
              · exact .inl (.inl h)
              · exact .inr ⟨h, h2⟩
    · simp only [hc, Bool.false_eq_true, if_false] at h
      have hc' : skipIn V keys v = true ∨ v ∈ seen := by
        simp only [Bool.and_eq_true, Bool.not_eq_true', List.contains_eq_mem, decide_eq_false_iff_not, not_and,
          Decidable.not_not] at hc
        by_cases hk : skipIn V keys v = true
        · exact .inl hk
        · exact .inr (hc (by simpa using hk))
      obtain ⟨a, b, c⟩ := quantInputsE_mem V x keys vs seen r seen' h
      refine ⟨fun e he => ?_, fun w hw => ?_, fun w => ?_⟩
      · obtain ⟨u, hu, h'⟩ := a e he
        exact ⟨u, by simp [hu], h'⟩
      · simp only [List.mem_cons] at hw
        rcases hw with rfl | hw
        · rcases hc' with h | h
          · exact .inl h
          · exact .inr (.inl h)
        · exact b w hw
      · rw [c w]
        simp only [List.mem_cons]
        constructor
        · rintro (h | h)
          · exact .inl h
          · exact .inr ⟨.inr h.1, h.2⟩
        · rintro (h | ⟨h | h, h2⟩)
          · exact .inl h
          · subst h
            rcases hc' with h | h
            · rw [h] at h2; cases h2
            · exact .inl h
          · exact .inr ⟨h, h2⟩

theorem nodeOutsE_qmem (V : Nat → ValueS) (x : Ext) (go : List Nat) :
    ∀ (l : List Nat) (qs : List QuantP) (vis : List VInfoE), nodeOutsE V x true go l = .ok (qs, vis) →
      (∀ a ∈ qs, ∃ v ∈ l, QEnt V x v a) ∧ (∀ v ∈ l, v ∉ go → ∀ a, QEnt V x v a → a ∈ qs)
  | [], qs, vis, h => by
    simp only [nodeOutsE, Except.ok.injEq, Prod.mk.injEq] at h
    obtain ⟨rfl, _⟩ := h
    simp
  | v :: r, qs, vis, h => by
    simp only [nodeOutsE] at h
    by_cases hg : go.contains v = true
    · simp only [hg, if_true] at h
      have hgm : v ∈ go := by simpa using hg
      obtain ⟨a, b⟩ := nodeOutsE_qmem V x go r qs vis h
      refine ⟨fun e he => ?_, fun w hw hwg => ?_⟩
      · obtain ⟨u, hu, h'⟩ := a e he
        exact ⟨u, by simp [hu], h'⟩
      · simp only [List.mem_cons] at hw
        rcases hw with rfl | hw
        · exact absurd hgm hwg
        · exact b w hw hwg
    · simp only [hg, Bool.false_eq_true, if_false, if_true] at h
      split at h
      · simp at h
      · rename_i q hq
        split at h
        · simp at h
        · rename_i qs' vis' hr
          simp only [Except.ok.injEq, Prod.mk.injEq] at h
          obtain ⟨rfl, _⟩ := h
          obtain ⟨a, b⟩ := nodeOutsE_qmem V x go r qs' vis' hr
          obtain ⟨q1, q2⟩ := quantOfE_mem hq
          refine ⟨fun e he => ?_, fun w hw hwg => ?_⟩
          · simp only [List.mem_append] at he
            rcases he with he | he
            · exact ⟨v, by simp, q1 e he⟩
            · obtain ⟨u, hu, h'⟩ := a e he
              exact ⟨u, by simp [hu], h'⟩
          · simp only [List.mem_cons] at hw
            rcases hw with rfl | hw
            · exact fun e he => List.mem_append.mpr (.inl (q2 e he))
            · exact fun e he => List.mem_append.mpr (.inr (b w hw hwg e he))

theorem xserNodes_qmem (V : Nat → ValueS) (x : Ext) (td : TData) (ver : Option Int) (go : List Nat) :
    ∀ (ns : List NodeT) (nps : List NodeE) (qs : List QuantP) (vis : List VInfoE) (ws : Writes),
      serNodesE V x td ver true go ns = .ok (nps, qs, vis, ws) →
      (∀ a ∈ qs, ∃ n ∈ ns, ∃ v ∈ n.outputs, QEnt V x v a) ∧
      (∀ n ∈ ns, ∀ v ∈ n.outputs, v ∉ go → ∀ a, QEnt V x v a → a ∈ qs)
  | [], nps, qs, vis, ws, h => by
    simp only [serNodesE, Except.ok.injEq, Prod.mk.injEq] at h
    obtain ⟨_, rfl, _⟩ := h
    simp
  | n :: ns, nps, qs, vis, ws, h => by
    obtain ⟨np, q1, vi1, ws1, nps', qs', vis', ws2, h1, h2, _, rfl, _⟩ := xserNodes_inv h
    obtain ⟨i, g, a, b, c⟩ := n
    obtain ⟨gps, ds, _, _, hno, _, _, _⟩ := xserNode_inv h1
    obtain ⟨p1, p2⟩ := nodeOutsE_qmem V x go b q1 vi1 hno
    obtain ⟨r1, r2⟩ := xserNodes_qmem V x td ver go ns nps' qs' vis' ws2 h2
    refine ⟨fun e he => ?_, fun m hm v hv hvg e he => ?_⟩
    · simp only [List.mem_append] at he
      rcases he with he | he
      · obtain ⟨v, hv, h'⟩ := p1 e he
        exact ⟨.mk i g a b c, by simp, v, hv, h'⟩
      · obtain ⟨m, hm, h'⟩ := r1 e he
        exact ⟨m, by simp [hm], h'⟩
    · simp only [List.mem_cons] at hm
      rcases hm with rfl | hm
      · exact List.mem_append.mpr (.inl (p2 v hv hvg e he))
      · exact List.mem_append.mpr (.inr (r2 m hm v hv hvg e he))

end IrVerif.Scope

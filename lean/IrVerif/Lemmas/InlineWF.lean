/-
Lemmas/InlineWF.lean — the clone of a function body is again a well-formed node list: its value ids are
the fresh interval handed out by the Cloner (hence SSA), every node reads values that exist before it
(hence topologically ordered), the outputs of cloned subgraphs are bound in them (closed), and what it
reads from outside is what the value map pointed to.  This is what processing the cloned nodes (nested
calls) needs.
-/
import IrVerif.Lemmas.InlineCall
namespace IrVerif.Inline
open IrVerif.Sem IrVerif.Passes

theorem disj_of_lt {a b : List VId} (n : Nat) (ha : ∀ x ∈ a, x < n) (hb : ∀ x ∈ b, n ≤ x) : disj a b = true := by
  rw [disj_iff]
  intro x hx hx'
  exact absurd (ha x hx) (Nat.not_lt.2 (hb x hx'))

theorem nodupB_freshIds (next n : Nat) : nodupB (freshIds next n) = true := by
  rw [nodupB_iff]
  exact List.nodup_range' (step := 1) (by decide)

theorem outsTop_eraseNodes_cons (n : FNode) (ns : List FNode) :
    outsTop (eraseNodes (n :: ns)) = (eraseN n).outs ++ outsTop (eraseNodes ns) := by
  simp [outsTop]

theorem mem_filterMap_bind {vm : VMap} {ins : List (Option VId)} {w : VId}
    (h : w ∈ (ins.map (fun o => o.bind (mapV vm))).filterMap id) : ∃ v, mapV vm v = some w := by
  simp only [List.mem_filterMap, List.mem_map, id] at h
  obtain ⟨o, ⟨o0, _, rfl⟩, ho⟩ := h
  cases o0 with
  | none => simp at ho
  | some v => exact ⟨v, ho⟩

/-- what cloning a subgraph / a list of subgraphs yields -/
structure BodiesWF (Q : VId → Prop) (lo next nx : Nat) (defs refs : List VId) (s nf c : Bool) : Prop where
  defs : ∀ w ∈ defs, next ≤ w ∧ w < nx
  refs : ∀ w ∈ refs, w < nx ∧ (Q w ∨ lo ≤ w)
  ssa : s = true
  nofwd : nf = true
  closed : c = true
  le : next ≤ nx

/-- what cloning a node list yields -/
structure NodesWF (Q : VId → Prop) (lo next : Nat) (vm : VMap) (souts : List VId) (r1 : List Node) (rvm : VMap)
    (nx : Nat) : Prop where
  defs : ∀ w ∈ defsNodes r1, next ≤ w ∧ w < nx
  refs : ∀ w ∈ refsNodes r1, w < nx ∧ (Q w ∨ lo ≤ w)
  ssa : ssaNodes r1 = true
  nofwd : noFwdNodes r1 = true
  closed : closedNodes r1 = true
  img : ∀ v ∈ souts, ∃ w ∈ outsTop r1, mapV rvm v = some w
  keep : ∀ v, v ∉ souts → mapV rvm v = mapV vm v
  vlt : VLt rvm nx
  le : next ≤ nx
  vfrom : VFrom Q lo rvm

/-- what cloning one node yields -/
structure NodeWF (Q : VId → Prop) (lo next : Nat) (vm : VMap) (souts : List VId) (n' : Node) (rvm : VMap)
    (nx : Nat) : Prop where
  defs : ∀ w ∈ defsN n', next ≤ w ∧ w < nx
  refs : ∀ w ∈ refsN n', w < nx ∧ (Q w ∨ lo ≤ w)
  insLt : ∀ w ∈ n'.ins.filterMap id, w < next
  sep : ∀ w ∈ refsBodies n'.bodies, ∀ u ∈ n'.outs, w < u
  ssa : ssaN n' = true
  nofwd : noFwdN n' = true
  closed : closedN n' = true
  img : ∀ v ∈ souts, ∃ w ∈ n'.outs, mapV rvm v = some w
  keep : ∀ v, v ∉ souts → mapV rvm v = mapV vm v
  vlt : VLt rvm nx
  le : next ≤ nx
  vfrom : VFrom Q lo rvm

section
variable (am : List (String × FAttr)) (Q : VId → Prop) (lo : Nat)

mutual
theorem cloneG_wf : ∀ (b : FGraph) (vm : VMap) (next : Nat), VLt vm next → VFrom Q lo vm → lo ≤ next →
    closedG (eraseG b) = true →
    BodiesWF Q lo next (cloneG am vm next b).2 (defsG (eraseG (cloneG am vm next b).1))
      (refsG (eraseG (cloneG am vm next b).1)) (ssaG (eraseG (cloneG am vm next b).1))
      (noFwdG (eraseG (cloneG am vm next b).1)) (closedG (eraseG (cloneG am vm next b).1))
  | .mk inputs outputs inits nodes, vm, next, hlt, hvf, hlo, hcl => by
    simp only [eraseG, closedG, Bool.and_eq_true, List.all_eq_true] at hcl
    have hlen : (inits.map Prod.fst).length = inits.length := by simp
    have hvlt2 : VLt (inputs.zip ((freshIds next inputs.length).map some) ++
        ((inits.map Prod.fst).zip ((freshIds (next + inputs.length) inits.length).map some) ++ vm))
        (next + inputs.length + inits.length) := by
      intro v w hw
      by_cases hv : v ∈ inputs
      · rw [mapV_fresh_mem hv] at hw
        have h1 := List.idxOf_lt_length_of_mem hv
        simp only [Option.some.injEq] at hw
        rw [← hw]
        exact Nat.lt_of_lt_of_le (Nat.add_lt_add_left h1 _) (Nat.le_add_right _ _)
      · rw [mapV_fresh_not_mem hv] at hw
        have := (hlt.fresh (inits.map Prod.fst) (Nat.le_add_right next inputs.length)) v w
        rw [hlen] at this
        exact this hw
    have hvf2 : VFrom Q lo (inputs.zip ((freshIds next inputs.length).map some) ++
        ((inits.map Prod.fst).zip ((freshIds (next + inputs.length) inits.length).map some) ++ vm)) := by
      refine VFrom.fresh ?_ inputs hlo
      have := hvf.fresh (inits.map Prod.fst) (n1 := next + inputs.length) (Nat.le_trans hlo (Nat.le_add_right _ _))
      rw [hlen] at this
      exact this
    have ih := cloneNodes_wf nodes _ (next + inputs.length + inits.length) hvlt2 hvf2
      (Nat.le_trans hlo (Nat.le_trans (Nat.le_add_right _ _) (Nat.le_add_right _ _))) hcl.2
    have hz1 : ((freshIds (next + inputs.length) inits.length).zip (inits.map Prod.snd)).map Prod.fst =
        freshIds (next + inputs.length) inits.length := List.map_fst_zip (by simp)
    -- the image of every output is one of the new top-level values
    have houts : ∀ v ∈ outputs, ∃ w, mapV (cloneNodes am (inputs.zip ((freshIds next inputs.length).map some) ++
          ((inits.map Prod.fst).zip ((freshIds (next + inputs.length) inits.length).map some) ++ vm))
          (next + inputs.length + inits.length) nodes).2.1 v = some w ∧
        (w ∈ freshIds next inputs.length ∨ w ∈ freshIds (next + inputs.length) inits.length ∨
          w ∈ outsTop (eraseNodes (cloneNodes am (inputs.zip ((freshIds next inputs.length).map some) ++
          ((inits.map Prod.fst).zip ((freshIds (next + inputs.length) inits.length).map some) ++ vm))
          (next + inputs.length + inits.length) nodes).1)) := by
      intro v hv
      by_cases hvo : v ∈ outsTop (eraseNodes nodes)
      · obtain ⟨w, hw1, hw2⟩ := ih.img v hvo
        exact ⟨w, hw2, Or.inr (Or.inr hw1)⟩
      · rw [ih.keep v hvo]
        have hpre := hcl.1 v hv
        simp only [List.contains_eq_mem, decide_eq_true_eq, List.mem_append] at hpre
        rcases hpre with (h | h) | h
        · refine ⟨_, mapV_fresh_mem h next _, Or.inl (mem_freshIds.2 ⟨Nat.le_add_right _ _, ?_⟩)⟩
          exact Nat.add_lt_add_left (List.idxOf_lt_length_of_mem h) _
        · by_cases hvi : v ∈ inputs
          · refine ⟨_, mapV_fresh_mem hvi next _, Or.inl (mem_freshIds.2 ⟨Nat.le_add_right _ _, ?_⟩)⟩
            exact Nat.add_lt_add_left (List.idxOf_lt_length_of_mem hvi) _
          · rw [mapV_fresh_not_mem hvi]
            have := mapV_fresh_mem h (next + inputs.length) vm
            rw [hlen] at this
            refine ⟨_, this, Or.inr (Or.inl (mem_freshIds.2 ⟨Nat.le_add_right _ _, ?_⟩))⟩
            have h2 := List.idxOf_lt_length_of_mem h
            rw [hlen] at h2
            exact Nat.add_lt_add_left h2 _
        · exact absurd h hvo
    have hle : next + inputs.length + inits.length ≤ (cloneNodes am (inputs.zip ((freshIds next inputs.length).map some) ++
          ((inits.map Prod.fst).zip ((freshIds (next + inputs.length) inits.length).map some) ++ vm))
          (next + inputs.length + inits.length) nodes).2.2 := ih.le
    have hin : ∀ w ∈ freshIds next inputs.length, next ≤ w ∧ w < next + inputs.length + inits.length := by
      intro w hw
      have := mem_freshIds.1 hw
      exact ⟨this.1, Nat.lt_of_lt_of_le this.2 (Nat.le_add_right _ _)⟩
    have hit : ∀ w ∈ freshIds (next + inputs.length) inits.length, next ≤ w ∧ w < next + inputs.length + inits.length := by
      intro w hw
      have := mem_freshIds.1 hw
      exact ⟨Nat.le_trans (Nat.le_add_right _ _) this.1, this.2⟩
    have hdn : ∀ w ∈ defsNodes (eraseNodes (cloneNodes am (inputs.zip ((freshIds next inputs.length).map some) ++
          ((inits.map Prod.fst).zip ((freshIds (next + inputs.length) inits.length).map some) ++ vm))
          (next + inputs.length + inits.length) nodes).1), next + inputs.length + inits.length ≤ w := fun w hw => (ih.defs w hw).1
    simp only [cloneG, eraseG]
    refine ⟨?_, ?_, ?_, ?_, ?_, ?_⟩
    · intro w hw
      simp only [defsG, hz1, List.mem_append] at hw
      rcases hw with (hw | hw) | hw
      · exact ⟨(hin w hw).1, Nat.lt_of_lt_of_le (hin w hw).2 hle⟩
      · exact ⟨(hit w hw).1, Nat.lt_of_lt_of_le (hit w hw).2 hle⟩
      · have := ih.defs w hw
        exact ⟨Nat.le_trans (Nat.le_trans (Nat.le_add_right _ _) (Nat.le_add_right _ _)) this.1, this.2⟩
    · intro w hw
      simp only [refsG, List.mem_append, List.mem_map] at hw
      rcases hw with ⟨v, hv, rfl⟩ | hw
      · obtain ⟨w, hw1, hw2⟩ := houts v hv
        rw [hw1, Option.getD_some]
        have hb : next ≤ w ∧ w < (cloneNodes am (inputs.zip ((freshIds next inputs.length).map some) ++
          ((inits.map Prod.fst).zip ((freshIds (next + inputs.length) inits.length).map some) ++ vm))
          (next + inputs.length + inits.length) nodes).2.2 := by
          rcases hw2 with h | h | h
          · exact ⟨(hin w h).1, Nat.lt_of_lt_of_le (hin w h).2 hle⟩
          · exact ⟨(hit w h).1, Nat.lt_of_lt_of_le (hit w h).2 hle⟩
          · have := ih.defs w (outsTop_sub_defsNodes _ h)
            exact ⟨Nat.le_trans (Nat.le_trans (Nat.le_add_right _ _) (Nat.le_add_right _ _)) this.1, this.2⟩
        exact ⟨hb.2, Or.inr (Nat.le_trans hlo hb.1)⟩
      · exact ih.refs w hw
    · simp only [ssaG, hz1, Bool.and_eq_true]
      refine ⟨⟨⟨nodupB_freshIds _ _, nodupB_freshIds _ _⟩, ?_⟩, ih.ssa⟩
      refine disj_of_lt (next + inputs.length + inits.length) ?_ hdn
      intro x hx
      rcases List.mem_append.1 hx with hx | hx
      · exact (hin x hx).2
      · exact (hit x hx).2
    · simp only [noFwdG]; exact ih.nofwd
    · simp only [closedG, hz1, Bool.and_eq_true, List.all_eq_true, List.mem_map, forall_exists_index, and_imp,
        forall_apply_eq_imp_iff₂]
      refine ⟨?_, ih.closed⟩
      intro v hv
      obtain ⟨w, hw1, hw2⟩ := houts v hv
      rw [hw1, Option.getD_some]
      simp only [List.contains_eq_mem, decide_eq_true_eq, List.mem_append]
      rcases hw2 with h | h | h
      · exact Or.inl (Or.inl h)
      · exact Or.inl (Or.inr h)
      · exact Or.inr h
    · exact Nat.le_trans (Nat.le_trans (Nat.le_add_right _ _) (Nat.le_add_right _ _)) hle
theorem cloneNodes_wf : ∀ (ns : List FNode) (vm : VMap) (next : Nat), VLt vm next → VFrom Q lo vm → lo ≤ next →
    closedNodes (eraseNodes ns) = true →
    NodesWF Q lo next vm (outsTop (eraseNodes ns)) (eraseNodes (cloneNodes am vm next ns).1)
      (cloneNodes am vm next ns).2.1 (cloneNodes am vm next ns).2.2
  | [], vm, next, hlt, hvf, _, _ => by
    simp only [cloneNodes, eraseNodes_nil]
    exact ⟨by simp [defsNodes], by simp [refsNodes], by simp [ssaNodes], by simp [noFwdNodes], by simp [closedNodes],
      by simp [outsTop], fun _ _ => rfl, hlt, Nat.le_refl _, hvf⟩
  | n :: ns, vm, next, hlt, hvf, hlo, hcl => by
    simp only [eraseNodes_cons, closedNodes, Bool.and_eq_true] at hcl
    have h1 := cloneN_wf n vm next hlt hvf hlo hcl.1
    have hs := cloneNodes_wf ns (cloneN am vm next n).2.1 (cloneN am vm next n).2.2 h1.vlt h1.vfrom
      (Nat.le_trans hlo h1.le) hcl.2
    simp only [cloneNodes, eraseNodes_cons]
    refine ⟨?_, ?_, ?_, ?_, ?_, ?_, ?_, hs.vlt, Nat.le_trans h1.le hs.le, hs.vfrom⟩
    · intro w hw
      simp only [defsNodes, List.mem_append] at hw
      rcases hw with hw | hw
      · exact ⟨(h1.defs w hw).1, Nat.lt_of_lt_of_le (h1.defs w hw).2 hs.le⟩
      · exact ⟨Nat.le_trans h1.le (hs.defs w hw).1, (hs.defs w hw).2⟩
    · intro w hw
      simp only [refsNodes, List.mem_append] at hw
      rcases hw with hw | hw
      · exact ⟨Nat.lt_of_lt_of_le (h1.refs w hw).1 hs.le, (h1.refs w hw).2⟩
      · exact hs.refs w hw
    · simp only [ssaNodes, Bool.and_eq_true]
      exact ⟨⟨h1.ssa, disj_of_lt _ (fun x hx => (h1.defs x hx).2) (fun x hx => (hs.defs x hx).1)⟩, hs.ssa⟩
    · simp only [noFwdNodes, Bool.and_eq_true]
      refine ⟨⟨⟨?_, ?_⟩, h1.nofwd⟩, hs.nofwd⟩
      · refine disj_of_lt next h1.insLt ?_
        intro x hx
        simp only [defsNodes, List.mem_append] at hx
        rcases hx with hx | hx
        · exact (h1.defs x hx).1
        · exact Nat.le_trans h1.le (hs.defs x hx).1
      · rw [disj_iff]
        intro x hx hx'
        rcases List.mem_append.1 hx' with hx' | hx'
        · exact absurd (h1.sep x hx x hx') (Nat.lt_irrefl _)
        · have hr : x ∈ refsN (eraseN (cloneN am vm next n).1) := by
            cases hn : eraseN (cloneN am vm next n).1 with
            | mk op attrs ins outs bodies =>
              rw [hn] at hx
              simp only [refsN, List.mem_append]
              exact Or.inr hx
          exact absurd (h1.refs x hr).1 (Nat.not_lt.2 (hs.defs x hx').1)
    · simp only [closedNodes, Bool.and_eq_true]
      exact ⟨h1.closed, hs.closed⟩
    · intro v hv
      simp only [outsTop] at hv
      by_cases hvs : v ∈ outsTop (eraseNodes ns)
      · obtain ⟨w, hw1, hw2⟩ := hs.img v hvs
        exact ⟨w, by simp only [outsTop, List.mem_append]; exact Or.inr hw1, hw2⟩
      · rcases List.mem_append.1 hv with hv | hv
        · obtain ⟨w, hw1, hw2⟩ := h1.img v hv
          refine ⟨w, by simp only [outsTop, List.mem_append]; exact Or.inl hw1, ?_⟩
          rw [hs.keep v hvs, hw2]
        · exact absurd hv hvs
    · intro v hv
      simp only [outsTop, List.mem_append, not_or] at hv
      rw [hs.keep v hv.2, h1.keep v hv.1]
theorem cloneN_wf : ∀ (n : FNode) (vm : VMap) (next : Nat), VLt vm next → VFrom Q lo vm → lo ≤ next →
    closedN (eraseN n) = true →
    NodeWF Q lo next vm (eraseN n).outs (eraseN (cloneN am vm next n).1) (cloneN am vm next n).2.1
      (cloneN am vm next n).2.2
  | .mk op attrs ins outs bodies, vm, next, hlt, hvf, hlo, hcl => by
    simp only [eraseN, closedN] at hcl
    have hb := cloneBodies_wf bodies vm next hlt hvf hlo hcl
    simp only [cloneN, eraseN, Node.outs, Node.ins, Node.bodies]
    have hou : ∀ w ∈ freshIds (cloneBodies am vm next bodies).2 outs.length,
        (cloneBodies am vm next bodies).2 ≤ w ∧ w < (cloneBodies am vm next bodies).2 + outs.length :=
      fun w hw => mem_freshIds.1 hw
    refine ⟨?_, ?_, ?_, ?_, ?_, ?_, ?_, ?_, ?_, hlt.fresh outs hb.le, Nat.le_trans hb.le (Nat.le_add_right _ _),
      hvf.fresh outs (Nat.le_trans hlo hb.le)⟩
    · intro w hw
      simp only [defsN, List.mem_append] at hw
      rcases hw with hw | hw
      · exact ⟨Nat.le_trans hb.le (hou w hw).1, (hou w hw).2⟩
      · exact ⟨(hb.defs w hw).1, Nat.lt_of_lt_of_le (hb.defs w hw).2 (Nat.le_add_right _ _)⟩
    · intro w hw
      simp only [refsN, List.mem_append] at hw
      rcases hw with hw | hw
      · obtain ⟨v, hv⟩ := mem_filterMap_bind hw
        exact ⟨Nat.lt_of_lt_of_le (hlt v w hv) (Nat.le_trans hb.le (Nat.le_add_right _ _)), hvf v w hv⟩
      · exact ⟨Nat.lt_of_lt_of_le (hb.refs w hw).1 (Nat.le_add_right _ _), (hb.refs w hw).2⟩
    · intro w hw
      obtain ⟨v, hv⟩ := mem_filterMap_bind hw
      exact hlt v w hv
    · intro w hw u hu
      exact Nat.lt_of_lt_of_le (hb.refs w hw).1 (hou u hu).1
    · simp only [ssaN, Bool.and_eq_true]
      refine ⟨⟨nodupB_freshIds _ _, ?_⟩, hb.ssa⟩
      rw [disj_iff]
      intro x hx hx'
      exact absurd (hb.defs x hx').2 (Nat.not_lt.2 (hou x hx).1)
    · simp only [noFwdN]; exact hb.nofwd
    · simp only [closedN]; exact hb.closed
    · intro v hv
      refine ⟨_, ?_, mapV_fresh_mem hv _ _⟩
      exact mem_freshIds.2 ⟨Nat.le_add_right _ _, Nat.add_lt_add_left (List.idxOf_lt_length_of_mem hv) _⟩
    · intro v hv
      exact mapV_fresh_not_mem hv _ _
theorem cloneBodies_wf : ∀ (bs : List FGraph) (vm : VMap) (next : Nat), VLt vm next → VFrom Q lo vm → lo ≤ next →
    closedBodies (eraseBodies bs) = true →
    BodiesWF Q lo next (cloneBodies am vm next bs).2 (defsBodies (eraseBodies (cloneBodies am vm next bs).1))
      (refsBodies (eraseBodies (cloneBodies am vm next bs).1)) (ssaBodies (eraseBodies (cloneBodies am vm next bs).1))
      (noFwdBodies (eraseBodies (cloneBodies am vm next bs).1)) (closedBodies (eraseBodies (cloneBodies am vm next bs).1))
  | [], _, _, _, _, _, _ => by
    simp only [cloneBodies, eraseBodies_nil]
    exact ⟨by simp [defsBodies], by simp [refsBodies], by simp [ssaBodies], by simp [noFwdBodies],
      by simp [closedBodies], Nat.le_refl _⟩
  | b :: bs, vm, next, hlt, hvf, hlo, hcl => by
    simp only [eraseBodies_cons, closedBodies, Bool.and_eq_true] at hcl
    have h1 := cloneG_wf b vm next hlt hvf hlo hcl.1
    have hlt' : VLt vm (cloneG am vm next b).2 := fun v w hw => Nat.lt_of_lt_of_le (hlt v w hw) h1.le
    have hs := cloneBodies_wf bs vm (cloneG am vm next b).2 hlt' hvf (Nat.le_trans hlo h1.le) hcl.2
    simp only [cloneBodies, eraseBodies_cons]
    refine ⟨?_, ?_, ?_, ?_, ?_, Nat.le_trans h1.le hs.le⟩
    · intro w hw
      simp only [defsBodies, List.mem_append] at hw
      rcases hw with hw | hw
      · exact ⟨(h1.defs w hw).1, Nat.lt_of_lt_of_le (h1.defs w hw).2 hs.le⟩
      · exact ⟨Nat.le_trans h1.le (hs.defs w hw).1, (hs.defs w hw).2⟩
    · intro w hw
      simp only [refsBodies, List.mem_append] at hw
      rcases hw with hw | hw
      · exact ⟨Nat.lt_of_lt_of_le (h1.refs w hw).1 hs.le, (h1.refs w hw).2⟩
      · exact hs.refs w hw
    · simp only [ssaBodies, Bool.and_eq_true]
      exact ⟨⟨h1.ssa, disj_of_lt _ (fun x hx => (h1.defs x hx).2) (fun x hx => (hs.defs x hx).1)⟩, hs.ssa⟩
    · simp only [noFwdBodies, Bool.and_eq_true]; exact ⟨h1.nofwd, hs.nofwd⟩
    · simp only [closedBodies, Bool.and_eq_true]; exact ⟨h1.closed, hs.closed⟩
end

end

/-! ## cloning keeps the calls well-formed -/

theorem cloneAttr_key {am : List (String × FAttr)} {p q : String × FAttr} (h : cloneAttr am p = some q) :
    q.1 = p.1 ∧ (match q.2 with | .val _ => True | .ref _ => ∃ r, p.2 = .ref r) := by
  obtain ⟨k, x⟩ := p
  cases x with
  | val a => simp only [cloneAttr, Option.some.injEq] at h; subst h; exact ⟨rfl, trivial⟩
  | ref r =>
    simp only [cloneAttr] at h
    split at h
    · simp only [Option.some.injEq] at h; subst h; exact ⟨rfl, trivial⟩
    · simp only [Option.some.injEq] at h; subst h; exact ⟨rfl, r, rfl⟩
    · cases h

theorem cloneAttrs_keys_sublist (am : List (String × FAttr)) : ∀ attrs : List (String × FAttr),
    ((attrs.filterMap (cloneAttr am)).map Prod.fst).Sublist (attrs.map Prod.fst)
  | [] => by simp
  | p :: rest => by
    have ih := cloneAttrs_keys_sublist am rest
    cases h : cloneAttr am p with
    | none => rw [List.filterMap_cons_none h]; exact ih.trans (by simp)
    | some q =>
      rw [List.filterMap_cons_some h]
      simp only [List.map_cons, (cloneAttr_key h).1]
      exact ih.cons₂ _

theorem callOK_clone {f : Func} {attrs : List (String × FAttr)} {ins : List (Option VId)} {outs : List VId}
    {bodies : List FGraph} (am : List (String × FAttr)) (g : Option VId → Option VId) (outs' : List VId)
    (hlen : outs'.length = outs.length) (h : callOK f attrs ins outs bodies = true) :
    callOK f (attrs.filterMap (cloneAttr am)) (ins.map g) outs' [] = true := by
  simp only [callOK, Bool.and_eq_true, decide_eq_true_eq, List.all_eq_true, List.isEmpty_iff] at h ⊢
  obtain ⟨⟨⟨⟨_, h1⟩, h2⟩, h3⟩, h4⟩ := h
  refine ⟨⟨⟨⟨trivial, h1.sublist (cloneAttrs_keys_sublist am attrs)⟩, by simpa using h2⟩, by rw [hlen]; exact h3⟩, ?_⟩
  intro q hq
  obtain ⟨p, hp, hpq⟩ := List.mem_filterMap.1 hq
  obtain ⟨k1, k2⟩ := cloneAttr_key hpq
  have := h4 p hp
  cases hq2 : q.2 with
  | val a => trivial
  | ref r =>
    rw [hq2] at k2
    obtain ⟨r', hr'⟩ := k2
    rw [hr'] at this
    simp only [k1]
    exact this

theorem callOK_bodies_nil {f : Func} {attrs : List (String × FAttr)} {ins : List (Option VId)} {outs : List VId}
    {bodies : List FGraph} (h : callOK f attrs ins outs bodies = true) : bodies = [] := by
  simp only [callOK, Bool.and_eq_true, List.isEmpty_iff] at h
  exact h.1.1.1.1

mutual
theorem cloneG_callsOK (tbl : List Func) (am : List (String × FAttr)) : ∀ (b : FGraph) (vm : VMap) (next : Nat),
    callsOKG tbl b = true → callsOKG tbl (cloneG am vm next b).1 = true
  | .mk inputs outputs inits nodes, vm, next, h => by
    simp only [callsOKG] at h
    simp only [cloneG, callsOKG]
    exact cloneNodes_callsOK tbl am nodes _ _ h
theorem cloneNodes_callsOK (tbl : List Func) (am : List (String × FAttr)) : ∀ (ns : List FNode) (vm : VMap) (next : Nat),
    callsOKNodes tbl ns = true → callsOKNodes tbl (cloneNodes am vm next ns).1 = true
  | [], _, _, _ => by simp [cloneNodes, callsOKNodes]
  | n :: ns, vm, next, h => by
    simp only [callsOKNodes, Bool.and_eq_true] at h
    simp only [cloneNodes, callsOKNodes, Bool.and_eq_true]
    exact ⟨cloneN_callsOK tbl am n vm next h.1, cloneNodes_callsOK tbl am ns _ _ h.2⟩
theorem cloneN_callsOK (tbl : List Func) (am : List (String × FAttr)) : ∀ (n : FNode) (vm : VMap) (next : Nat),
    callsOKN tbl n = true → callsOKN tbl (cloneN am vm next n).1 = true
  | .mk op attrs ins outs bodies, vm, next, h => by
    simp only [callsOKN, Bool.and_eq_true] at h
    simp only [cloneN, callsOKN, Bool.and_eq_true]
    refine ⟨?_, cloneBodies_callsOK tbl am bodies vm next h.2⟩
    cases hf : findFunc tbl op with
    | none => rfl
    | some f =>
      have h1 := h.1
      rw [hf] at h1
      simp only at h1 ⊢
      have hb := callOK_bodies_nil h1
      subst hb
      simp only [cloneBodies]
      exact callOK_clone am _ _ (by simp) h1
theorem cloneBodies_callsOK (tbl : List Func) (am : List (String × FAttr)) : ∀ (bs : List FGraph) (vm : VMap) (next : Nat),
    callsOKBodies tbl bs = true → callsOKBodies tbl (cloneBodies am vm next bs).1 = true
  | [], _, _, _ => by simp [cloneBodies, callsOKBodies]
  | b :: bs, vm, next, h => by
    simp only [callsOKBodies, Bool.and_eq_true] at h
    simp only [cloneBodies, callsOKBodies, Bool.and_eq_true]
    exact ⟨cloneG_callsOK tbl am b vm next h.1, cloneBodies_callsOK tbl am bs vm _ h.2⟩
end

/-! ## appending node lists -/

theorem defsNodes_append : ∀ (a b : List Node), defsNodes (a ++ b) = defsNodes a ++ defsNodes b
  | [], b => by simp [defsNodes]
  | n :: a, b => by simp [defsNodes, defsNodes_append a b]

theorem refsNodes_append : ∀ (a b : List Node), refsNodes (a ++ b) = refsNodes a ++ refsNodes b
  | [], b => by simp [refsNodes]
  | n :: a, b => by simp [refsNodes, refsNodes_append a b]

theorem closedNodes_append : ∀ (a b : List Node), closedNodes (a ++ b) = (closedNodes a && closedNodes b)
  | [], b => by simp [closedNodes]
  | n :: a, b => by simp [closedNodes, closedNodes_append a b, Bool.and_assoc]

theorem callsOKNodes_append (tbl : List Func) : ∀ (a b : List FNode),
    callsOKNodes tbl (a ++ b) = (callsOKNodes tbl a && callsOKNodes tbl b)
  | [], b => by simp [callsOKNodes]
  | n :: a, b => by simp [callsOKNodes, callsOKNodes_append tbl a b, Bool.and_assoc]

/-- two well-formed node lists whose values are separated by `n1` -/
theorem ssaNodes_append (n1 : Nat) : ∀ (a b : List Node), (∀ w ∈ defsNodes a, w < n1) → (∀ w ∈ defsNodes b, n1 ≤ w) →
    ssaNodes a = true → ssaNodes b = true → ssaNodes (a ++ b) = true
  | [], b, _, _, _, hb => by simpa using hb
  | n :: a, b, hda, hdb, ha, hb => by
    simp only [ssaNodes, Bool.and_eq_true, disj_iff] at ha
    simp only [defsNodes, List.mem_append] at hda
    simp only [List.cons_append, ssaNodes, Bool.and_eq_true, disj_iff, defsNodes_append, List.mem_append, not_or]
    refine ⟨⟨ha.1.1, fun x hx => ⟨ha.1.2 x hx, fun hx' => ?_⟩⟩,
      ssaNodes_append n1 a b (fun w hw => hda w (Or.inr hw)) hdb ha.2 hb⟩
    exact absurd (hda x (Or.inl hx)) (Nat.not_lt.2 (hdb x hx'))

theorem noFwdNodes_append (n1 : Nat) : ∀ (a b : List Node), (∀ w ∈ refsNodes a, w < n1) → (∀ w ∈ defsNodes b, n1 ≤ w) →
    noFwdNodes a = true → noFwdNodes b = true → noFwdNodes (a ++ b) = true
  | [], b, _, _, _, hb => by simpa using hb
  | n :: a, b, hra, hdb, ha, hb => by
    simp only [noFwdNodes, Bool.and_eq_true, disj_iff] at ha
    simp only [refsNodes, List.mem_append] at hra
    have hrn : ∀ w ∈ refsN n, w < n1 := fun w hw => hra w (Or.inl hw)
    cases n with
    | mk op attrs ins outs bodies =>
    simp only [refsN, List.mem_append] at hrn
    simp only [Node.ins, Node.outs, Node.bodies] at ha
    simp only [List.cons_append, noFwdNodes, Bool.and_eq_true, disj_iff, Node.ins, Node.outs, Node.bodies]
    refine ⟨⟨⟨?_, ?_⟩, ha.1.2⟩, noFwdNodes_append n1 a b (fun w hw => hra w (Or.inr hw)) hdb ha.2 hb⟩
    · intro x hx hx'
      have h0 := ha.1.1.1 x hx
      simp only [defsNodes, List.mem_append, defsNodes_append] at h0 hx'
      rcases hx' with hx' | hx' | hx'
      · exact h0 (Or.inl hx')
      · exact h0 (Or.inr hx')
      · exact absurd (hrn x (Or.inl hx)) (Nat.not_lt.2 (hdb x hx'))
    · intro x hx hx'
      have h0 := ha.1.1.2 x hx
      simp only [List.mem_append, defsNodes_append] at h0 hx'
      rcases hx' with hx' | hx' | hx'
      · exact h0 (Or.inl hx')
      · exact h0 (Or.inr hx')
      · exact absurd (hrn x (Or.inr hx)) (Nat.not_lt.2 (hdb x hx'))

/-! ## the instantiated body -/

/-- a node list as the inliner inserts it: SSA, closed, ordered, its values in `[lo, N)`, reading values
    below `N` that satisfy `Q` or are its own, with well-formed calls -/
structure WFBody (tbl : List Func) (Q : VId → Prop) (lo N : Nat) (ns : List FNode) : Prop where
  ssa : ssaNodes (eraseNodes ns) = true
  closed : closedNodes (eraseNodes ns) = true
  nofwd : noFwdNodes (eraseNodes ns) = true
  defs : ∀ w ∈ defsNodes (eraseNodes ns), lo ≤ w ∧ w < N
  refs : ∀ w ∈ refsNodes (eraseNodes ns), w < N ∧ (Q w ∨ lo ≤ w)
  calls : callsOKNodes tbl ns = true

/-- the Identity nodes read images of the value map -/
theorem fwdOuts_refs_lt (vm : VMap) : ∀ (vs produced : List VId) (next n0 : Nat), VLt vm n0 →
    ∀ w ∈ refsNodes (eraseNodes (fwdOuts vm produced vs next).nodes), w < n0
  | [], _, _, _, _, w, hw => by simp [fwdOuts, refsNodes] at hw
  | v :: vs, produced, next, n0, hlt, w, hw => by
    rw [fwdOuts] at hw
    split at hw
    · rename_i w' hw'
      split at hw
      · exact fwdOuts_refs_lt vm vs produced next n0 hlt w hw
      · simp only [eraseNodes_cons, eraseN, eraseBodies_nil, refsNodes, refsN, refsBodies, List.append_nil,
          List.mem_append, List.filterMap_cons, id, List.filterMap_nil, List.mem_singleton] at hw
        rcases hw with hw | hw
        · subst hw; exact hlt v w hw'
        · exact fwdOuts_refs_lt vm vs _ _ n0 hlt w hw
    · simp only [eraseNodes_cons, eraseN, eraseBodies_nil, refsNodes, refsN, refsBodies, List.append_nil,
        List.mem_append, List.filterMap_cons, id, List.filterMap_nil, List.not_mem_nil, false_or] at hw
      exact fwdOuts_refs_lt vm vs _ _ n0 hlt w hw

/-- the Identity nodes that forward returned function inputs -/
structure FwdWF (tbl : List Func) (Q : VId → Prop) (lo next nx : Nat) (ns : List FNode) : Prop where
  ssa : ssaNodes (eraseNodes ns) = true
  closed : closedNodes (eraseNodes ns) = true
  nofwd : noFwdNodes (eraseNodes ns) = true
  defs : ∀ w ∈ defsNodes (eraseNodes ns), next ≤ w ∧ w < nx
  refs : ∀ w ∈ refsNodes (eraseNodes ns), w < next ∧ (Q w ∨ lo ≤ w)
  calls : callsOKNodes tbl ns = true
  le : next ≤ nx

theorem fwdOuts_wf (tbl : List Func) (hid : findFunc tbl identityOp = none) (Q : VId → Prop) (lo : Nat) (vm : VMap)
    (hvf : VFrom Q lo vm) : ∀ (vs produced : List VId) (next : Nat), VLt vm next →
    FwdWF tbl Q lo next (fwdOuts vm produced vs next).next (fwdOuts vm produced vs next).nodes
  | [], produced, next, _ => by
    simp only [fwdOuts]
    exact ⟨by simp [ssaNodes], by simp [closedNodes], by simp [noFwdNodes], by simp [defsNodes], by simp [refsNodes],
      by simp [callsOKNodes], Nat.le_refl _⟩
  | v :: vs, produced, next, hlt => by
    have hlt1 : VLt vm (next + 1) := fun v w hw => Nat.lt_succ_of_lt (hlt v w hw)
    have hstep : ∀ (produced' : List VId) (o : Option VId), (∀ w, o = some w → w < next ∧ (Q w ∨ lo ≤ w)) →
        FwdWF tbl Q lo next (fwdOuts vm produced' vs (next + 1)).next
          (.mk identityOp [] [o] [next] [] :: (fwdOuts vm produced' vs (next + 1)).nodes) := by
      intro produced' o ho
      have ih := fwdOuts_wf tbl hid Q lo vm hvf vs produced' (next + 1) hlt1
      have hle' : next < (fwdOuts vm produced' vs (next + 1)).next := ih.le
      have hins : ∀ w ∈ [o].filterMap id, w < next ∧ (Q w ∨ lo ≤ w) := by
        intro w hw
        cases o with
        | none => simp at hw
        | some w' =>
          simp only [List.filterMap_cons, id, List.filterMap_nil, List.mem_singleton] at hw
          subst hw
          exact ho w rfl
      refine ⟨?_, ?_, ?_, ?_, ?_, ?_, Nat.le_of_lt hle'⟩
      · simp only [eraseNodes_cons, eraseN, eraseBodies_nil, ssaNodes, ssaN, Bool.and_eq_true, disj_iff, nodupB,
          defsN, defsBodies, List.append_nil, ssaBodies, List.mem_singleton]
        refine ⟨⟨⟨⟨by simp, by simp⟩, trivial⟩, ?_⟩, ih.ssa⟩
        intro x hx hx'
        subst hx
        exact absurd (ih.defs x hx').1 (Nat.not_succ_le_self _)
      · simp only [eraseNodes_cons, eraseN, eraseBodies_nil, closedNodes, closedN, closedBodies, Bool.true_and]
        exact ih.closed
      · simp only [eraseNodes_cons, eraseN, eraseBodies_nil, noFwdNodes, noFwdN, noFwdBodies, Bool.and_eq_true,
          disj_iff, Node.ins, Node.outs, Node.bodies, refsBodies, List.not_mem_nil, false_imp_iff, implies_true,
          and_true, true_and]
        refine ⟨?_, ih.nofwd⟩
        intro x hx hx'
        have hx1 := (hins x hx).1
        simp only [defsNodes, defsN, defsBodies, List.append_nil, List.mem_append, List.mem_singleton] at hx'
        rcases hx' with hx' | hx'
        · exact absurd hx1 (by rw [hx']; exact Nat.lt_irrefl _)
        · exact absurd (ih.defs x hx').1 (Nat.not_le.2 (Nat.lt_succ_of_lt hx1))
      · intro w hw
        simp only [eraseNodes_cons, eraseN, eraseBodies_nil, defsNodes, defsN, defsBodies, List.append_nil,
          List.mem_append, List.mem_singleton] at hw
        rcases hw with hw | hw
        · subst hw; exact ⟨Nat.le_refl _, hle'⟩
        · exact ⟨Nat.le_of_succ_le (ih.defs w hw).1, (ih.defs w hw).2⟩
      · intro w hw
        simp only [eraseNodes_cons, eraseN, eraseBodies_nil, refsNodes, refsN, refsBodies, List.append_nil,
          List.mem_append] at hw
        rcases hw with hw | hw
        · exact hins w hw
        · obtain ⟨a, b⟩ := ih.refs w hw
          -- a reference of a later Identity node is an image of the value map: below `next`
          exact ⟨by
            have := fwdOuts_refs_lt vm vs produced' (next + 1) next hlt w hw
            exact this, b⟩
      · simp only [callsOKNodes, callsOKN, hid, callsOKBodies, Bool.and_true, Bool.true_and]
        exact ih.calls
    rw [fwdOuts]
    split
    · rename_i w hw
      split
      · exact fwdOuts_wf tbl hid Q lo vm hvf vs produced next hlt
      · exact hstep (next :: produced) (some w) (fun w' h => by
          simp only [Option.some.injEq] at h; subst h; exact ⟨hlt v w hw, hvf v w hw⟩)
    · exact hstep produced none (fun w' h => by cases h)

/-- the instantiated body of a call is a well-formed node list over the fresh interval -/
theorem instantiate_wf (tbl : List Func) (hid : findFunc tbl identityOp = none) (f : Func)
    (hcl : closedNodes (eraseNodes f.nodes) = true) (hco : callsOKNodes tbl f.nodes = true)
    (cattrs : List (String × FAttr)) (cins : List (Option VId)) (next : Nat)
    (hins : ∀ v ∈ cins.filterMap id, v < next) :
    WFBody tbl (· ∈ cins.filterMap id) next (instantiate f cattrs cins next).next (instantiate f cattrs cins next).nodes := by
  have hvlt : VLt (zipPad f.inputs cins) next := fun v w hw => hins w (zipPad_range _ _ v w hw)
  have hvf : VFrom (· ∈ cins.filterMap id) next (zipPad f.inputs cins) :=
    fun v w hw => Or.inl (zipPad_range _ _ v w hw)
  have hw := cloneNodes_wf (attrMap f.params cattrs) (· ∈ cins.filterMap id) next f.nodes (zipPad f.inputs cins) next
    hvlt hvf (Nat.le_refl _) hcl
  have fw := fwdOuts_wf tbl hid (· ∈ cins.filterMap id) next _ hw.vfrom f.outputs
    (outsTopF (cloneNodes (attrMap f.params cattrs) (zipPad f.inputs cins) next f.nodes).1) _ hw.vlt
  simp only [instantiate]
  refine ⟨?_, ?_, ?_, ?_, ?_, ?_⟩
  · rw [eraseNodes_append]
    exact ssaNodes_append _ _ _ (fun w h => (hw.defs w h).2) (fun w h => (fw.defs w h).1) hw.ssa fw.ssa
  · rw [eraseNodes_append, closedNodes_append, hw.closed, fw.closed]; rfl
  · rw [eraseNodes_append]
    exact noFwdNodes_append _ _ _ (fun w h => (hw.refs w h).1) (fun w h => (fw.defs w h).1) hw.nofwd fw.nofwd
  · intro w h
    rw [eraseNodes_append, defsNodes_append, List.mem_append] at h
    rcases h with h | h
    · exact ⟨(hw.defs w h).1, Nat.lt_of_lt_of_le (hw.defs w h).2 fw.le⟩
    · exact ⟨Nat.le_trans hw.le (fw.defs w h).1, (fw.defs w h).2⟩
  · intro w h
    rw [eraseNodes_append, refsNodes_append, List.mem_append] at h
    rcases h with h | h
    · exact ⟨Nat.lt_of_lt_of_le (hw.refs w h).1 fw.le, (hw.refs w h).2⟩
    · exact ⟨Nat.lt_of_lt_of_le (fw.refs w h).1 fw.le, (fw.refs w h).2⟩
  · rw [callsOKNodes_append, cloneNodes_callsOK tbl _ f.nodes _ _ hco, fw.calls]; rfl

end IrVerif.Inline

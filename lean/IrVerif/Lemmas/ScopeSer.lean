/-
Explicit form of what the serializer writes when it does not raise (every name it needs is a `str`).
-/
import IrVerif.Lemmas.ScopeBasic
namespace IrVerif.Scope

/-- the name written for value `v` -/
def nm (V : Nat → ValueS) (v : Nat) : Name := ((V v).name).getD ""

/-- the `ValueInfoProto` written for value `v` -/
def viOf (V : Nat → ValueS) (v : Nat) : VInfoP := ⟨nm V v, (V v).info.emit⟩

theorem serValues_ok {V : Nat → ValueS} {vs : List Nat} {ps : List VInfoP} (h : serValues V vs = .ok ps) :
    ps = vs.map (viOf V) ∧ ∀ v ∈ vs, (V v).name ≠ none := by
  induction vs generalizing ps with
  | nil =>
    simp only [serValues, Except.ok.injEq] at h
    subst h; simp
  | cons v vs ih =>
    simp only [serValues] at h
    split at h
    · simp at h
    · rename_i p hp
      split at h
      · simp at h
      · rename_i ps' hps
        simp only [Except.ok.injEq] at h
        subst h
        obtain ⟨e, hn⟩ := ih hps
        simp only [serValue] at hp
        split at hp
        · simp at hp
        · rename_i n hn'
          simp only [Except.ok.injEq] at hp
          subst hp
          refine ⟨by simp [viOf, nm, hn', e], ?_⟩
          intro w hw
          simp only [List.mem_cons] at hw
          rcases hw with rfl | hw
          · simp [hn']
          · exact hn w hw

theorem serValues_of_names {V : Nat → ValueS} {vs : List Nat} (h : ∀ v ∈ vs, (V v).name ≠ none) :
    serValues V vs = .ok (vs.map (viOf V)) := by
  induction vs with
  | nil => rfl
  | cons v vs ih =>
    have hv := h v (by simp)
    have := ih (fun w hw => h w (by simp [hw]))
    cases hn : (V v).name with
    | none => exact absurd hn hv
    | some n => simp [serValues, serValue, hn, this, viOf, nm]

/-- the name written into a node's input list -/
def inName (V : Nat → ValueS) : Option Nat → Name
  | none => ""
  | some v => nm V v

theorem serInputs_ok {V : Nat → ValueS} {ins : List (Option Nat)} {ns : List Name}
    (h : serInputs V ins = .ok ns) : ns = ins.map (inName V) ∧ ∀ v, some v ∈ ins → (V v).name ≠ none := by
  induction ins generalizing ns with
  | nil =>
    simp only [serInputs, Except.ok.injEq] at h
    subst h; simp
  | cons a r ih =>
    cases a with
    | none =>
      simp only [serInputs] at h
      split at h
      · simp at h
      · rename_i ns' h'
        simp only [Except.ok.injEq] at h
        subst h
        obtain ⟨e, hn⟩ := ih h'
        refine ⟨by simp [inName, e], ?_⟩
        intro v hv
        simp only [List.mem_cons] at hv
        rcases hv with hv | hv
        · cases hv
        · exact hn v hv
    | some w =>
      simp only [serInputs] at h
      split at h
      · simp at h
      · rename_i n hn'
        split at h
        · simp at h
        · rename_i ns' h'
          simp only [Except.ok.injEq] at h
          subst h
          obtain ⟨e, hn⟩ := ih h'
          refine ⟨by simp [inName, nm, hn', e], ?_⟩
          intro v hv
          simp only [List.mem_cons, Option.some.injEq] at hv
          rcases hv with rfl | hv
          · simp [hn']
          · exact hn v hv

theorem serInputs_of_names {V : Nat → ValueS} {ins : List (Option Nat)}
    (h : ∀ v, some v ∈ ins → (V v).name ≠ none) : serInputs V ins = .ok (ins.map (inName V)) := by
  induction ins with
  | nil => rfl
  | cons a r ih =>
    have := ih (fun w hw => h w (by simp [hw]))
    cases a with
    | none => simp [serInputs, this, inName]
    | some w =>
      have hw := h w (by simp)
      cases hn : (V w).name with
      | none => exact absurd hn hw
      | some n => simp [serInputs, hn, this, inName, nm]

theorem serOutNames_ok {V : Nat → ValueS} {vs : List Nat} {ns : List Name} (h : serOutNames V vs = .ok ns) :
    ns = vs.map (nm V) ∧ ∀ v ∈ vs, (V v).name ≠ none := by
  induction vs generalizing ns with
  | nil =>
    simp only [serOutNames, Except.ok.injEq] at h
    subst h; simp
  | cons v vs ih =>
    simp only [serOutNames] at h
    split at h
    · simp at h
    · rename_i n hn'
      split at h
      · simp at h
      · rename_i ns' h'
        simp only [Except.ok.injEq] at h
        subst h
        obtain ⟨e, hn⟩ := ih h'
        refine ⟨by simp [nm, hn', e], ?_⟩
        intro w hw
        simp only [List.mem_cons] at hw
        rcases hw with rfl | hw
        · simp [hn']
        · exact hn w hw

theorem serOutNames_of_names {V : Nat → ValueS} {vs : List Nat} (h : ∀ v ∈ vs, (V v).name ≠ none) :
    serOutNames V vs = .ok (vs.map (nm V)) := by
  induction vs with
  | nil => rfl
  | cons v vs ih =>
    have hv := h v (by simp)
    have := ih (fun w hw => h w (by simp [hw]))
    cases hn : (V v).name with
    | none => exact absurd hn hv
    | some n => simp [serOutNames, hn, this, nm]

/-! ### stripTrailing -/

theorem stripTrailing_sub (V : Nat → ValueS) (vs : List Nat) : ∀ v ∈ stripTrailing V vs, v ∈ vs := by
  induction vs with
  | nil => simp [stripTrailing]
  | cons a r ih =>
    intro v hv
    simp only [stripTrailing] at hv
    split at hv
    · split at hv
      · simp only [List.mem_singleton] at hv; simp [hv]
      · simp at hv
    · rename_i hne
      simp only [List.mem_cons] at hv
      rcases hv with rfl | hv
      · simp
      · exact List.mem_cons_of_mem _ (ih v hv)

mutual
/-- the (key, value) pairs of the initializers of every graph of the tree -/
def allInitsG : GraphT → List (Name × Nat)
  | .mk _ _ inits nodes _ => inits ++ allInitsNs nodes
def allInitsNs : List NodeT → List (Name × Nat)
  | [] => []
  | n :: ns => allInitsN n ++ allInitsNs ns
def allInitsN : NodeT → List (Name × Nat)
  | .mk _ _ _ _ subs => allInitsGs subs
def allInitsGs : List GraphT → List (Name × Nat)
  | [] => []
  | g :: gs => allInitsG g ++ allInitsGs gs
end


end IrVerif.Scope

/-
Simulation: every public operation of the pointer structure, together with every concrete
cursor, is matched step by step by the abstract list-with-gaps machine `Spec`.
-/
import IrVerif.Lemmas.LinkedSetAbs
namespace IrVerif.LinkedSet

/-- abstraction of a state and one cursor -/
def absSt (s : LSet) (bs : List Nat) (d : Dir) (c : Cursor) : Spec.St :=
  ⟨bs.map (vl s), d, acur s bs d c⟩

/-- a concrete insertion point (root or live box) and the abstract anchor denote the same place -/
def AncRel (s : LSet) (bs : List Nat) (b : Nat) (a : Option Nat) : Prop :=
  (b = 0 ∧ a = none) ∨ (b ∈ bs ∧ a = some (vl s b))

theorem insertIdx_mid (l1 l2 : List Nat) (x : Nat) : (l1 ++ l2).insertIdx l1.length x = l1 ++ x :: l2 := by
  induction l1 with
  | nil => simp
  | cons a l1 ih => simp [ih]

theorem eraseIdx_mid (l1 l2 : List Nat) (x : Nat) : (l1 ++ x :: l2).eraseIdx l1.length = l1 ++ l2 := by
  rw [List.eraseIdx_append_of_length_le (Nat.le_refl _)]; simp

theorem idxOf_map_inj {f : Nat → Nat} : ∀ (l : List Nat) (x : Nat), x ∈ l →
    (∀ a ∈ l, ∀ b ∈ l, f a = f b → a = b) → (l.map f).idxOf (f x) = l.idxOf x
  | [], _, h, _ => by simp at h
  | y :: l, x, h, hi => by
      simp only [List.map_cons, List.idxOf_cons]
      by_cases hy : y = x
      · subst hy; simp
      · have hx : x ∈ l := by
          simp only [List.mem_cons] at h
          rcases h with h | h
          · exact absurd h.symm hy
          · exact h
        have hf : f y ≠ f x := fun e => hy (hi y (by simp) x (by simp [hx]) e)
        have b1 : (f y == f x) = false := by simp [hf]
        have b2 : (y == x) = false := by simp [hy]
        simp only [b1, b2, cond_false]
        rw [idxOf_map_inj l x hx (fun a ha b hb => hi a (by simp [ha]) b (by simp [hb]))]

theorem Inv.vl_inj {s : LSet} {bs : List Nat} (h : Inv s bs) :
    ∀ a ∈ bs, ∀ b ∈ bs, vl s a = vl s b → a = b := by
  intro a ha b hb e
  have ea := h.val_eq_vl ha
  have eb := h.val_eq_vl hb
  rw [e] at ea
  exact h.val_inj ha hb ea eb

theorem Inv.vals_idxOf {s : LSet} {bs : List Nat} (h : Inv s bs) {b : Nat} (hb : b ∈ bs) :
    (bs.map (vl s)).idxOf (vl s b) = bs.idxOf b :=
  idxOf_map_inj bs b hb h.vl_inj

theorem vl_rmv {s : LSet} {n v b : Nat} (hb : b ≠ n) : vl (rmv s n v) b = vl s b := by
  show (val (er s n) b).getD 0 = _
  rw [val_er]; simp [hb, vl]

theorem size_rmv (s : LSet) (n v : Nat) : size (rmv s n v) = size s := by
  show size (er s n) = _; simp

theorem vl_lnkS {s : LSet} {b v x : Nat} : vl (lnkS s b v) x = if x = size s then v else vl s x := by
  show (val (lnkS s b v) x).getD 0 = _
  rw [val_lnkS, val_lnk]; split <;> simp [vl]

/-- removing a present value: one `Spec.removeIdx` -/
theorem sim_rmv {s : LSet} {l1 l2 : List Nat} {n v : Nat} (h : Inv s (l1 ++ n :: l2))
    (hv : val s n = some v) (d : Dir) (c : Cursor) (hp : c.pos < size s) :
    absSt (rmv s n v) (l1 ++ l2) d c =
      Spec.removeIdx (absSt s (l1 ++ n :: l2) d c) ((absSt s (l1 ++ n :: l2) d c).L.idxOf v) := by
  have hnd := h.nodup
  have hvn : vl s n = v := by simp [vl, hv]
  have hidx : ((l1 ++ n :: l2).map (vl s)).idxOf v = l1.length := by
    rw [← hvn, h.vals_idxOf (by simp), idxOf_mid (by grind)]
  simp only [absSt, Spec.removeIdx, hidx]
  congr 1
  · have := eraseIdx_mid (l1.map (vl s)) (l2.map (vl s)) (vl s n)
    simp only [List.length_map] at this
    have e : (l1 ++ l2).map (vl (rmv s n v)) = (l1 ++ l2).map (vl s) := by
      apply List.map_congr_left
      intro b hb
      exact vl_rmv (by grind)
    rw [e]
    simp only [List.map_append, List.map_cons]
    exact this.symm
  · exact acur_rmv h hv d c hp

/-- linking an absent value in after node `b`: one `Spec.insertIdx` -/
theorem sim_lnk {s : LSet} {l1 l2 : List Nat} {v : Nat} (h : Inv s (l1 ++ l2))
    (hv : ∀ b ∈ l1 ++ l2, val s b ≠ some v) (d : Dir) (c : Cursor) (hp : c.pos < size s) :
    absSt (lnkS s (lastOr 0 l1) v) (l1 ++ size s :: l2) d c =
      Spec.insertIdx (absSt s (l1 ++ l2) d c) l1.length v := by
  have hm : ∀ b ∈ l1 ++ l2, b ≠ size s := by
    intro b hb; have := (h.live b hb).2.1; omega
  simp only [absSt, Spec.insertIdx]
  congr 1
  · have := insertIdx_mid (l1.map (vl s)) (l2.map (vl s)) v
    simp only [List.length_map] at this
    simp only [List.map_append, List.map_cons]
    rw [this]
    have e1 : l1.map (vl (lnkS s (lastOr 0 l1) v)) = l1.map (vl s) := by
      apply List.map_congr_left; intro b hb
      rw [vl_lnkS]; simp [hm b (by simp [hb])]
    have e2 : l2.map (vl (lnkS s (lastOr 0 l1) v)) = l2.map (vl s) := by
      apply List.map_congr_left; intro b hb
      rw [vl_lnkS]; simp [hm b (by simp [hb])]
    rw [e1, e2, vl_lnkS]; simp
  · exact acur_lnk h hv d c hp

/-- the abstract insertion index of an anchor -/
def ancIdx (L : List Nat) : Option Nat → Nat
  | none => 0
  | some a' => L.idxOf a' + 1

theorem AncRel.index {s : LSet} {l1 l2 : List Nat} (h : Inv s (l1 ++ l2)) {b : Nat} {a : Option Nat}
    (hr : AncRel s (l1 ++ l2) b a) (hl : lastOr 0 l1 = b) (hb0 : b = 0 → l1 = []) :
    ancIdx ((l1 ++ l2).map (vl s)) a = l1.length := by
  rcases hr with ⟨rfl, rfl⟩ | ⟨hb, rfl⟩
  · simp [ancIdx, hb0 rfl]
  · have hb0' : b ≠ 0 := by rintro rfl; exact h.zero_notin hb
    simp only [ancIdx]
    rw [h.vals_idxOf hb]
    have := lastOr_posR l1 l2 h.nodup (by have := h.zero_notin; grind)
    rw [hl] at this
    simpa [posR, hb0'] using this

theorem ancIdx_eq (L : List Nat) (a : Option Nat) :
    (match a with
     | none => 0
     | some a' => L.idxOf a' + 1) = ancIdx L a := by
  cases a <;> rfl

theorem sim_insertOneAfter {s : LSet} {bs : List Nat} (h : Inv s bs) {b : Nat} {a : Option Nat}
    (hr : AncRel s bs b a) (v : Nat) (d : Dir) (c : Cursor) (hp : c.pos < size s) :
    ∃ bs' b', insertOneAfter s b v = ((insertOneAfter s b v).1, some b') ∧
      Inv (insertOneAfter s b v).1 bs' ∧
      AncRel (insertOneAfter s b v).1 bs' b' (Spec.insertOneAfter (absSt s bs d c) a v).2 ∧
      absSt (insertOneAfter s b v).1 bs' d c = (Spec.insertOneAfter (absSt s bs d c) a v).1 ∧
      size s ≤ size (insertOneAfter s b v).1 := by
  have hbn : IsNode bs b := by
    rcases hr with ⟨hb, _⟩ | ⟨hb, _⟩
    · exact Or.inl hb
    · exact Or.inr hb
  have haeq : a = some v ↔ val s b = some v := by
    rcases hr with ⟨rfl, rfl⟩ | ⟨hb, rfl⟩
    · simp [h.dead 0 h.zero_notin]
    · rw [h.val_eq_vl hb]
  unfold insertOneAfter Spec.insertOneAfter
  by_cases h1 : val s b = some v
  · have ha : a = some v := haeq.2 h1
    simp only [h1, if_true, ha]
    have hbm : b ∈ bs := by
      rcases hbn with rfl | hb
      · have := h.dead 0 h.zero_notin; rw [this] at h1; cases h1
      · exact hb
    exact ⟨bs, b, rfl, h, Or.inr ⟨hbm, by simp [vl, h1]⟩, rfl, Nat.le_refl _⟩
  · have ha : a ≠ some v := fun e => h1 (haeq.1 e)
    simp only [h1, if_false, h.owned b, Bool.not_true, Bool.false_eq_true, ha]
    by_cases hpres : ∃ n ∈ bs, val s n = some v
    · obtain ⟨n, hn, hvn⟩ := hpres
      have hl : (lookup s v).isSome = true := by rw [h.lookup_some hn hvn]; rfl
      have hmem : v ∈ (absSt s bs d c).L := by
        simp only [absSt, List.mem_map]; exact ⟨n, hn, by simp [vl, hvn]⟩
      simp only [hl, if_true, h.remove_eq hn hvn, Bool.not_true, Bool.false_eq_true, if_false, hmem]
      obtain ⟨l1, l2, rfl⟩ := List.append_of_mem hn
      have h' := inv_rmv h hvn
      have hbne : b ≠ n := by rintro rfl; exact h1 hvn
      have hnd := h.nodup
      have hr' : AncRel (rmv s n v) (l1 ++ l2) b a := by
        rcases hr with ⟨hb, ha'⟩ | ⟨hb, ha'⟩
        · exact Or.inl ⟨hb, ha'⟩
        · right; exact ⟨by grind, by rw [ha', vl_rmv hbne]⟩
      have hb' : IsNode (l1 ++ l2) b := by
        rcases hr' with ⟨hb, _⟩ | ⟨hb, _⟩
        · exact Or.inl hb
        · exact Or.inr hb
      obtain ⟨k1, k2, hk, hlast, hk0⟩ := split_at_node hb' h'.zero_notin
      have hsim1 := sim_rmv h hvn d c hp
      rw [← hsim1]
      rw [hk] at h' hr' ⊢
      have hfresh : ∀ x ∈ k1 ++ k2, val (rmv s n v) x ≠ some v := by
        intro x hx hxv
        rw [← hk] at hx
        have hxn : x ≠ n := by grind
        have e : val (rmv s n v) x = val s x := by
          show val (er s n) x = _
          rw [val_er]; simp [hxn]
        rw [e] at hxv
        exact hxn (h.val_inj (by grind) (by simp) hxv hvn)
      have hp' : c.pos < size (rmv s n v) := by rw [size_rmv]; exact hp
      have hsim2 := sim_lnk h' hfresh d c hp'
      have hidx := hr'.index h' hlast hk0
      have h'' := inv_lnk h' hfresh
      rw [hlast] at h'' hsim2
      rw [linkNew_eq] at h'' ⊢
      refine ⟨_, size (rmv s n v), rfl, h'', ?_, ?_, ?_⟩
      · right; refine ⟨by simp, ?_⟩
        rw [vl_lnkS]; simp
      · rw [hsim2]; congr 1; rw [← hidx]; cases a <;> rfl
      · rw [size_lnkS, size_lnk, size_rmv]; omega
    · have hfresh : ∀ x ∈ bs, val s x ≠ some v := fun x hx hxv => hpres ⟨x, hx, hxv⟩
      have hl : (lookup s v).isSome = false := by rw [h.lookup_none hfresh]; rfl
      have hmem : v ∉ (absSt s bs d c).L := by
        simp only [absSt, List.mem_map]
        rintro ⟨x, hx, hxv⟩
        exact hfresh x hx (by rw [h.val_eq_vl hx, hxv])
      simp only [hl, Bool.false_eq_true, if_false, Bool.not_true, hmem]
      obtain ⟨k1, k2, hk, hlast, hk0⟩ := split_at_node hbn h.zero_notin
      subst hk
      have hsim2 := sim_lnk h hfresh d c hp
      have hidx := hr.index h hlast hk0
      have h'' := inv_lnk h hfresh
      rw [hlast] at h'' hsim2
      rw [linkNew_eq] at h'' ⊢
      refine ⟨_, size s, rfl, h'', ?_, ?_, ?_⟩
      · right; refine ⟨by simp, ?_⟩
        rw [vl_lnkS]; simp
      · rw [hsim2]; congr 1; rw [← hidx]; cases a <;> rfl
      · rw [size_lnkS, size_lnk]; omega

theorem sim_insertManyAfter (d : Dir) (c : Cursor) : ∀ (vs : List Nat) {s : LSet} {bs : List Nat}
    (_ : Inv s bs) {b : Nat} {a : Option Nat} (_ : AncRel s bs b a) (_ : c.pos < size s),
    ∃ bs', (insertManyAfter s b vs).2 = true ∧ Inv (insertManyAfter s b vs).1 bs' ∧
      absSt (insertManyAfter s b vs).1 bs' d c = Spec.insertManyAfter (absSt s bs d c) a vs ∧
      size s ≤ size (insertManyAfter s b vs).1
  | [], s, bs, h, b, a, _, _ => ⟨bs, rfl, h, rfl, Nat.le_refl _⟩
  | v :: vs, s, bs, h, b, a, hr, hp => by
      obtain ⟨bs1, b1, he, h1, hr1, hs1, hsz⟩ := sim_insertOneAfter h hr v d c hp
      obtain ⟨bs2, ho, h2, hs2, hsz2⟩ :=
        sim_insertManyAfter d c vs h1 hr1 (Nat.lt_of_lt_of_le hp hsz)
      have e : insertManyAfter s b (v :: vs) = insertManyAfter (insertOneAfter s b v).1 b1 vs := by
        conv => lhs; unfold insertManyAfter
        rw [he]
      rw [e]
      refine ⟨bs2, ho, h2, ?_, Nat.le_trans hsz hsz2⟩
      rw [hs2, hs1]; rfl

theorem Inv.pv_root {s : LSet} {bs : List Nat} (h : Inv s bs) : pv s 0 = lastOr 0 bs := by
  have := Links_into bs 0 0 [] (by simpa using h.links); exact this.2

theorem AncRel.last {s : LSet} {bs : List Nat} (h : Inv s bs) :
    AncRel s bs (pv s 0) (bs.map (vl s)).getLast? := by
  rw [h.pv_root]
  rcases List.eq_nil_or_concat bs with rfl | ⟨A, x, rfl⟩
  · left; simp
  · right
    simp only [List.concat_eq_append]
    rw [lastOr_append_singleton]
    simp

theorem sim_append {s : LSet} {bs : List Nat} (h : Inv s bs) (v : Nat) (d : Dir) (c : Cursor)
    (hp : c.pos < size s) :
    ∃ bs', (append s v).2 = true ∧ Inv (append s v).1 bs' ∧
      absSt (append s v).1 bs' d c = Spec.append (absSt s bs d c) v ∧
      size s ≤ size (append s v).1 := by
  obtain ⟨bs1, b1, he, h1, _, hs1, hsz⟩ := sim_insertOneAfter h (AncRel.last h) v d c hp
  refine ⟨bs1, ?_, h1, hs1, hsz⟩
  simp only [append]; rw [he]; rfl

theorem sim_extend (d : Dir) (c : Cursor) : ∀ (vs : List Nat) {s : LSet} {bs : List Nat}
    (_ : Inv s bs) (_ : c.pos < size s),
    ∃ bs', (extend s vs).2 = true ∧ Inv (extend s vs).1 bs' ∧
      absSt (extend s vs).1 bs' d c = Spec.extend (absSt s bs d c) vs ∧
      size s ≤ size (extend s vs).1
  | [], s, bs, h, _ => ⟨bs, rfl, h, rfl, Nat.le_refl _⟩
  | v :: vs, s, bs, h, hp => by
      obtain ⟨bs1, ho1, h1, hs1, hsz⟩ := sim_append h v d c hp
      obtain ⟨bs2, ho, h2, hs2, hsz2⟩ := sim_extend d c vs h1 (Nat.lt_of_lt_of_le hp hsz)
      have e : extend s (v :: vs) = extend (append s v).1 vs := by
        conv => lhs; unfold extend
        have : append s v = ((append s v).1, true) := by rw [← ho1]
        rw [this]
      rw [e]
      refine ⟨bs2, ho, h2, ?_, Nat.le_trans hsz hsz2⟩
      rw [hs2, hs1]; rfl

theorem Inv.lookup_isNone_iff {s : LSet} {bs : List Nat} (h : Inv s bs) (v : Nat) :
    lookup s v = none ↔ v ∉ bs.map (vl s) := by
  constructor
  · intro hl hm
    simp only [List.mem_map] at hm
    obtain ⟨b, hb, rfl⟩ := hm
    rw [h.lookup_some hb (h.val_eq_vl hb)] at hl; cases hl
  · intro hm
    apply h.lookup_none
    intro b hb hv
    apply hm
    simp only [List.mem_map]
    exact ⟨b, hb, by simp [vl, hv]⟩

theorem sim_insertAfter {s : LSet} {bs : List Nat} (h : Inv s bs) (a : Nat) (vs : List Nat)
    (d : Dir) (c : Cursor) (hp : c.pos < size s) :
    ∃ bs', Inv (insertAfter s a vs).1 bs' ∧
      absSt (insertAfter s a vs).1 bs' d c = (Spec.insertAfter (absSt s bs d c) a vs).1 ∧
      (insertAfter s a vs).2 = (Spec.insertAfter (absSt s bs d c) a vs).2 ∧
      size s ≤ size (insertAfter s a vs).1 := by
  unfold insertAfter Spec.insertAfter
  cases hl : lookup s a with
  | none =>
    have : a ∉ (absSt s bs d c).L := (h.lookup_isNone_iff a).1 hl
    simp only [this, if_false]
    exact ⟨bs, h, by trivial, by trivial, Nat.le_refl _⟩
  | some b =>
    obtain ⟨hb, hv⟩ := h.lookup_spec hl
    have hm : a ∈ (absSt s bs d c).L := by
      simp only [absSt, List.mem_map]; exact ⟨b, hb, by simp [vl, hv]⟩
    simp only [hm, if_true]
    have hr : AncRel s bs b (some a) := Or.inr ⟨hb, by simp [vl, hv]⟩
    obtain ⟨bs', ho, h', hs, hsz⟩ := sim_insertManyAfter d c vs h hr hp
    exact ⟨bs', h', hs, ho, hsz⟩

theorem AncRel.pred {s : LSet} {l1 l2 : List Nat} {b : Nat} (h : Inv s (l1 ++ b :: l2)) :
    AncRel s (l1 ++ b :: l2) (pv s b) (Spec.predOf ((l1 ++ b :: l2).map (vl s)) (vl s b)) := by
  rw [h.around.1]
  have hnd := h.nodup
  unfold Spec.predOf
  simp only
  rw [h.vals_idxOf (by simp), idxOf_mid (by grind)]
  rcases List.eq_nil_or_concat l1 with rfl | ⟨A, x, rfl⟩
  · left; simp
  · right
    simp only [List.concat_eq_append]
    rw [lastOr_append_singleton]
    refine ⟨by simp, ?_⟩
    simp

theorem sim_insertBefore {s : LSet} {bs : List Nat} (h : Inv s bs) (a : Nat) (vs : List Nat)
    (d : Dir) (c : Cursor) (hp : c.pos < size s) :
    ∃ bs', Inv (insertBefore s a vs).1 bs' ∧
      absSt (insertBefore s a vs).1 bs' d c = (Spec.insertBefore (absSt s bs d c) a vs).1 ∧
      (insertBefore s a vs).2 = (Spec.insertBefore (absSt s bs d c) a vs).2 ∧
      size s ≤ size (insertBefore s a vs).1 := by
  unfold insertBefore Spec.insertBefore
  cases hl : lookup s a with
  | none =>
    have : a ∉ (absSt s bs d c).L := (h.lookup_isNone_iff a).1 hl
    simp only [this, if_false]
    exact ⟨bs, h, by trivial, by trivial, Nat.le_refl _⟩
  | some b =>
    obtain ⟨hb, hv⟩ := h.lookup_spec hl
    have hm : a ∈ (absSt s bs d c).L := by
      simp only [absSt, List.mem_map]; exact ⟨b, hb, by simp [vl, hv]⟩
    simp only [hm, if_true]
    obtain ⟨l1, l2, rfl⟩ := List.append_of_mem hb
    have hr := AncRel.pred h
    have hva : vl s b = a := by simp [vl, hv]
    rw [hva] at hr
    obtain ⟨bs', ho, h', hs, hsz⟩ := sim_insertManyAfter d c vs h hr hp
    exact ⟨bs', h', hs, ho, hsz⟩

theorem sim_remove {s : LSet} {bs : List Nat} (h : Inv s bs) (v : Nat) (d : Dir) (c : Cursor)
    (hp : c.pos < size s) :
    ∃ bs', Inv (remove s v).1 bs' ∧
      absSt (remove s v).1 bs' d c = (Spec.remove (absSt s bs d c) v).1 ∧
      (remove s v).2 = (Spec.remove (absSt s bs d c) v).2 ∧
      size s ≤ size (remove s v).1 := by
  unfold Spec.remove
  by_cases hm : v ∈ (absSt s bs d c).L
  · simp only [hm, if_true]
    simp only [absSt, List.mem_map] at hm
    obtain ⟨n, hn, hvn⟩ := hm
    have hv : val s n = some v := by rw [h.val_eq_vl hn, hvn]
    obtain ⟨l1, l2, rfl⟩ := List.append_of_mem hn
    rw [h.remove_eq hn hv]
    exact ⟨l1 ++ l2, inv_rmv h hv, sim_rmv h hv d c hp, rfl, by rw [size_rmv]; exact Nat.le_refl _⟩
  · simp only [hm, if_false]
    have : ∀ b ∈ bs, val s b ≠ some v := by
      intro b hb hv
      apply hm
      simp only [absSt, List.mem_map]
      exact ⟨b, hb, by simp [vl, hv]⟩
    rw [h.remove_absent this]
    exact ⟨bs, h, rfl, rfl, Nat.le_refl _⟩

/-- **simulation**: any public operation, any cursor -/
theorem sim_apply {s : LSet} {bs : List Nat} (h : Inv s bs) (op : Op) (d : Dir) (c : Cursor)
    (hp : c.pos < size s) :
    ∃ bs', Inv (apply s op).1 bs' ∧
      absSt (apply s op).1 bs' d c = (Spec.apply (absSt s bs d c) op).1 ∧
      (apply s op).2 = (Spec.apply (absSt s bs d c) op).2 ∧
      size s ≤ size (apply s op).1 := by
  cases op with
  | append v =>
    obtain ⟨bs', ho, h', hs, hsz⟩ := sim_append h v d c hp
    exact ⟨bs', h', hs, ho, hsz⟩
  | extend vs =>
    obtain ⟨bs', ho, h', hs, hsz⟩ := sim_extend d c vs h hp
    exact ⟨bs', h', hs, ho, hsz⟩
  | insertAfter a vs => exact sim_insertAfter h a vs d c hp
  | insertBefore a vs => exact sim_insertBefore h a vs d c hp
  | remove v => exact sim_remove h v d c hp

end IrVerif.LinkedSet

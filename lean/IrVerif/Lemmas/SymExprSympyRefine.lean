/-
C16: symbolic negative exponents in a denominator, without a side condition on the binding.
`Lemmas/SymExprSympyEval.lean` proves that the tree the parser returns on SymPy's text evaluates
like the SymPy object's meaning under every binding that leaves no such denominator's base zero.
Here: under EVERY binding the text never gets ANOTHER value - whenever `surf s` has a value it is
the value of `sden s` (`surf_refines`); at a zero base it may only lose its value
(`M/0**(-2)` against `M*0**2`).  Same induction, with "has the value of" (`Le`) for "equals".
-/
import IrVerif.Lemmas.SymExprSympyEval
namespace IrVerif.SymExpr

/-- `a` has no value, or the value of `b` -/
def Le (a b : Option Rat) : Prop := ∀ v, a = some v → b = some v

theorem Le.rfl' {a : Option Rat} : Le a a := fun _ h => h
theorem Le.of_eq {a b : Option Rat} (h : a = b) : Le a b := fun _ hv => h ▸ hv
theorem Le.trans {a b c : Option Rat} (h1 : Le a b) (h2 : Le b c) : Le a c :=
  fun v hv => h2 v (h1 v hv)
theorem Le.bot (b : Option Rat) : Le Option.none b := fun _ h => by cases h

theorem Le.cases {a b : Option Rat} (h : Le a b) : a = Option.none ∨ a = b := by
  cases ha : a with
  | none => exact Or.inl rfl
  | some v => exact Or.inr (h v ha).symm

theorem omul_mono {a a' b b' : Option Rat} (h1 : Le a a') (h2 : Le b b') :
    Le (omul a b) (omul a' b') := by
  rcases h1.cases with h | h <;> rcases h2.cases with g | g
  · subst h; exact Le.bot _
  · subst h; exact Le.bot _
  · subst g; cases a <;> exact Le.bot _
  · subst h; subst g; exact Le.rfl'

theorem frac_mono {m : Bool} {n n' d d' : Option Rat} (h1 : Le n n') (h2 : Le d d') :
    Le (frac m n d) (frac m n' d') := by
  rcases h1.cases with h | h <;> rcases h2.cases with g | g
  · subst h; exact Le.bot _
  · subst h; exact Le.bot _
  · subst g; cases n <;> exact Le.bot _
  · subst h; subst g; exact Le.rfl'

theorem map_neg_mono {a b : Option Rat} (h : Le a b) :
    Le (a.map (fun v => -v)) (b.map (fun v => -v)) := by
  rcases h.cases with g | g
  · subst g; exact Le.bot _
  · subst g; exact Le.rfl'

theorem eval_bin_mono (env : Env) (o : BinOp) {a a' b b' : Expr}
    (h1 : Le (eval env a) (eval env a')) (h2 : Le (eval env b) (eval env b')) :
    Le (eval env (.bin o a b)) (eval env (.bin o a' b')) := by
  simp only [eval]
  rcases h1.cases with h | h <;> rcases h2.cases with g | g
  · rw [h]; exact Le.bot _
  · rw [h]; exact Le.bot _
  · rw [g]; cases eval env a <;> exact Le.bot _
  · rw [h, g]; exact Le.rfl'

theorem eval_un_mono (env : Env) (o : UnOp) {a a' : Expr} (h : Le (eval env a) (eval env a')) :
    Le (eval env (.un o a)) (eval env (.un o a')) := by
  simp only [eval]
  rcases h.cases with g | g
  · rw [g]; exact Le.bot _
  · rw [g]; exact Le.rfl'

/-- `1 / b**(-v)` has no value or the value of `b**v`, for every base and exponent -/
theorem frac_ratPow_le (x v : Rat) : Le (frac false (some 1) (ratPow x (-v))) (ratPow x v) := by
  by_cases hx : x = 0
  · subst hx
    unfold ratPow
    rw [Rat.den_neg_eq_den, Rat.num_neg_eq_neg_num]
    by_cases hd : v.den = 1
    · simp only [hd, if_true, neg_neg]
      by_cases h0 : v.num = 0
      · simp [h0, frac]
        exact Le.rfl'
      · by_cases h1 : 0 ≤ -v.num
        · have hne : (-v.num).toNat ≠ 0 := by omega
          simp only [h1, if_true, zero_pow hne, frac]
          exact Le.bot _
        · simp only [h1, if_false, if_true, frac]
          exact Le.bot _
    · simp only [hd, if_false, frac]
      exact Le.bot _
  · exact Le.of_eq (ratPow_neg_nz x v hx).symm

/-- what the induction carries (compare `SInv`) -/
def RInv (env : Env) (s : SExpr) : Prop :=
  Le (eval env (sfOf s).e) (eval env (sden s)) ∧
  (∀ b x, s = .pow b x → negCoeff x = true →
    Le (frac false (some 1) (eval env (sfOf s).den)) (eval env (sden s))) ∧
  (negCoeff s = true → Le (eval env (sfOf s).neg) ((eval env (sden s)).map (fun v => -v)))

theorem RInv.of_sinv {env : Env} {s : SExpr} (h : SInv env s)
    (hp : ∀ b x, s ≠ .pow b x) : RInv env s :=
  ⟨Le.of_eq h.1, fun b x hs => absurd hs (hp b x), fun hn => Le.of_eq (h.2.2 hn)⟩

/-! ### products -/

theorem fac_le (env : Env) (f : SExpr) (h : RInv env f) :
    Le (frac (sgnF f) (evalProd env (mulNumE [(f, sfOf f)])) (evalProd env (mulDenE [(f, sfOf f)])))
      (eval env (sden f)) := by
  have other : (mulNumE [(f, sfOf f)] = [(sfOf f).e]) → (mulDenE [(f, sfOf f)] = []) →
      sgnF f = false →
      Le (frac (sgnF f) (evalProd env (mulNumE [(f, sfOf f)])) (evalProd env (mulDenE [(f, sfOf f)])))
        (eval env (sden f)) := by
    intro h1 h2 h3
    rw [h1, h2, h3]
    simp only [evalProd, frac_false_one]
    exact h.1
  cases f with
  | int z =>
    exact Le.of_eq (fac_eval env (.int z) (sinv_all env (.int z) rfl rfl) rfl).symm
  | rat p q =>
    exact Le.of_eq (fac_eval env (.rat p q) (sinv_all env (.rat p q) rfl rfl) rfl).symm
  | pow b x =>
    by_cases hn : negCoeff x = true
    · have := h.2.1 b x rfl hn
      simp only [mulNumE, mulDenE, hn, if_true, List.append_nil, List.nil_append, sgnF, isNum,
        Bool.false_and, evalProd, omul_one]
      exact this
    · have hn' : negCoeff x = false := by simpa using hn
      exact other (by simp [mulNumE, hn']) (by simp [mulDenE, hn']) rfl
  | sym x => exact other rfl rfl rfl
  | add ts => exact other rfl rfl rfl
  | mul gs => exact other rfl rfl rfl
  | fn g args => exact other rfl rfl rfl

theorem prod_le (env : Env) : ∀ fs : List SExpr, (∀ f ∈ fs, RInv env f) →
    Le (frac (sgnL fs) (evalProd env (mulNumE (sfL fs))) (evalProd env (mulDenE (sfL fs))))
      (evalProd env (fs.map sden))
  | [], _ => by simp [evalProd, sfL, mulNumE, mulDenE, sgnL, frac]; exact Le.rfl'
  | f :: rest, h => by
    have ih := prod_le env rest (fun g hg => h g (by simp [hg]))
    have h1 := fac_le env f (h f (by simp))
    have hs : sfL (f :: rest) = (f, sfOf f) :: sfL rest := rfl
    rw [hs, mulNumE_cons, mulDenE_cons, evalProd_append, evalProd_append, sgnL, ← frac_mul]
    simp only [List.map_cons, evalProd]
    exact omul_mono h1 ih

theorem rinv_mul (env : Env) (fs : List SExpr) (ih : ∀ f ∈ fs, RInv env f) (hw : SWfX (.mul fs)) :
    RInv env (.mul fs) := by
  simp only [SWfX, swfX_mul, Bool.and_eq_true, List.all_eq_true, Bool.not_eq_true'] at hw
  have hsd : Le (frac (negCoeff (.mul fs)) (evalProd env (mulNumE (sfL fs)))
      (evalProd env (mulDenE (sfL fs)))) (eval env (sden (.mul fs))) := by
    rw [sden_mul, eval_foldBin_mul]
    match fs, hw, ih with
    | [], hw, _ => simp at hw
    | f :: rest, hw, ih =>
      rw [← sgnL_swf f rest (by simpa using hw.2)]
      exact prod_le env (f :: rest) ih
  refine ⟨?_, (by intro b x h; cases h), ?_⟩
  · rw [sf_mul, eval_mulBodyE]
    exact hsd
  · intro hn
    have generic : Le (eval env (mulBodyE false (sfL fs)))
        ((eval env (sden (.mul fs))).map (fun v => -v)) := by
      rw [eval_mulBodyE, frac_neg]
      rw [hn] at hsd
      exact map_neg_mono hsd
    rw [sf_neg_mul]
    match fs, ih, generic with
    | [], _, g => exact g
    | [_], _, g => exact g
    | [c, y], ih, g =>
      by_cases hc : isNegOne c = true
      · simp only [hc, if_true]
        cases c with
        | int z =>
          have hz : z = -1 := by simpa [isNegOne] using hc
          subst hz
          refine Le.trans (ih y (by simp)).1 (Le.of_eq ?_)
          rw [sden_mul]
          simp only [List.map_cons, List.map_nil, foldBin, List.foldl_cons, List.foldl_nil,
            eval_mul, sden_int, eval_num]
          cases eval env (sden y) with
          | none => simp [omul]
          | some v => simp [omul]
        | _ => simp [isNegOne] at hc
      · have hc' : isNegOne c = false := by simpa using hc
        simp only [hc', Bool.false_eq_true, if_false]
        exact g
    | _ :: _ :: _ :: _, _, g => exact g

/-! ### sums -/

def TermLe (env : Env) (s : SExpr) : Prop := ∀ acc1 acc2,
  Le (eval env acc1) (eval env acc2) →
  Le (eval env (.bin (if (stp s).1 then .sub else .add) acc1 (stp s).2))
    (eval env (.bin .add acc2 (sden s)))

theorem termLe (env : Env) (s : SExpr) (hs : RInv env s) (hw : SWfX s) : TermLe env s := by
  intro acc1 acc2 hacc
  by_cases hA : isAddS s = true
  · simp only [stp, addStepE_add hA, Bool.false_eq_true, if_false]
    exact eval_bin_mono env .add hacc hs.1
  · have hA' : isAddS s = false := by simpa using hA
    by_cases hm : ∃ r, (tkOf s).toks = Tok.op .minus :: r
    · obtain ⟨r, hr⟩ := hm
      have h1 := strip_eval env s hw hA' hr
      simp only [stp, addStepE_minus hA' hr, if_true]
      have heq : eval env (.bin .sub acc1 (stripNeg (sfOf s).e)) =
          eval env (.bin .add acc1 (sfOf s).e) := by
        simp only [eval, h1]
        cases eval env acc1 <;> cases eval env (sfOf s).e <;> simp [evalBin, sub_eq_add_neg]
      rw [heq]
      exact eval_bin_mono env .add hacc hs.1
    · have hm' : ∀ r, (tkOf s).toks ≠ Tok.op .minus :: r := fun r hr => hm ⟨r, hr⟩
      simp only [stp, addStepE_other hA' hm', Bool.false_eq_true, if_false]
      exact eval_bin_mono env .add hacc hs.1

theorem add_fold_le (env : Env) : ∀ (rest : List SExpr) (acc1 acc2 : Expr),
    Le (eval env acc1) (eval env acc2) → (∀ s ∈ rest, TermLe env s) →
    Le (eval env ((rest.map stp).foldl
        (fun acc mt => .bin (if mt.1 then .sub else .add) acc mt.2) acc1))
      (eval env ((rest.map sden).foldl (fun acc x => .bin .add acc x) acc2))
  | [], _, _, h, _ => by simpa using h
  | s :: rest, acc1, acc2, h, hs => by
    simp only [List.map_cons, List.foldl_cons]
    exact add_fold_le env rest _ _ (hs s (by simp) acc1 acc2 h) (fun t ht => hs t (by simp [ht]))

theorem rinv_add (env : Env) (ts : List SExpr) (ih : ∀ t ∈ ts, RInv env t) (hw : SWfX (.add ts)) :
    RInv env (.add ts) := by
  refine ⟨?_, (by intro b x h; cases h), (by intro h; simp [negCoeff] at h)⟩
  simp only [SWfX, swfX_add, Bool.and_eq_true, List.all_eq_true] at hw
  match ts, hw with
  | t :: rest, hw =>
    rw [sf_add, sden_add]
    simp only [addJoinE, foldBin, List.map_cons]
    exact add_fold_le env rest _ _ (ih t (by simp)).1
      (fun s hs => termLe env s (ih s (by simp [hs])) (hw.2 s (by simp [hs])))

/-! ### functions -/

theorem foldl_mono (env : Env) (o : BinOp) (g1 g2 : SExpr → Expr) : ∀ (l : List SExpr) (a1 a2 : Expr),
    Le (eval env a1) (eval env a2) → (∀ a ∈ l, Le (eval env (g1 a)) (eval env (g2 a))) →
    Le (eval env ((l.map g1).foldl (fun acc x => .bin o acc x) a1))
      (eval env ((l.map g2).foldl (fun acc x => .bin o acc x) a2))
  | [], _, _, h, _ => by simpa using h
  | x :: l, a1, a2, h, hl => by
    simp only [List.map_cons, List.foldl_cons]
    exact foldl_mono env o g1 g2 l _ _ (eval_bin_mono env o h (hl x (by simp)))
      (fun a ha => hl a (by simp [ha]))

theorem fnExpr_mono (env : Env) (f : SFn) (args : List SExpr) (g1 g2 : SExpr → Expr)
    (h : ∀ a ∈ args, Le (eval env (g1 a)) (eval env (g2 a))) :
    Le (eval env (fnExpr f (args.map g1))) (eval env (fnExpr f (args.map g2))) := by
  have many : ∀ (o : BinOp) (u : Expr), Le (eval env (foldBin o u (args.map g1)))
      (eval env (foldBin o u (args.map g2))) := by
    intro o u
    match args, h with
    | [], _ => exact Le.rfl'
    | a :: rest, h =>
      simp only [List.map_cons, foldBin]
      exact foldl_mono env o g1 g2 rest _ _ (h a (by simp)) (fun x hx => h x (by simp [hx]))
  cases f with
  | max => exact many .max _
  | min => exact many .min _
  | mod =>
    match args, h with
    | [], _ => exact Le.rfl'
    | [a], _ => exact Le.rfl'
    | [a, b], h => exact eval_bin_mono env .mod (h a (by simp)) (h b (by simp))
    | a :: b :: c :: rest, _ => exact Le.rfl'
  | floor =>
    match args, h with
    | [], _ => exact Le.rfl'
    | [a], h => exact eval_un_mono env .floor (h a (by simp))
    | a :: b :: rest, _ => exact Le.rfl'
  | ceiling =>
    match args, h with
    | [], _ => exact Le.rfl'
    | [a], h => exact eval_un_mono env .ceil (h a (by simp))
    | a :: b :: rest, _ => exact Le.rfl'
  | abs =>
    match args, h with
    | [], _ => exact Le.rfl'
    | [a], h => exact eval_un_mono env .abs (h a (by simp))
    | a :: b :: rest, _ => exact Le.rfl'
  | sign =>
    match args, h with
    | [], _ => exact Le.rfl'
    | [a], h => exact eval_un_mono env .sign (h a (by simp))
    | a :: b :: rest, _ => exact Le.rfl'

theorem rinv_fn (env : Env) (f : SFn) (args : List SExpr) (ih : ∀ a ∈ args, RInv env a) :
    RInv env (.fn f args) := by
  refine ⟨?_, (by intro b x h; cases h), (by intro h; simp [negCoeff] at h)⟩
  rw [sf_fn, sden_fn]
  exact fnExpr_mono env f args _ _ (fun a ha => (ih a ha).1)

/-! ### powers -/

/-- `X**(-1)` and `1/X`: the same value, the same "no value" -/
theorem pow_negone_eq (env : Env) (X : Expr) :
    eval env (.bin .pow X (.num (-1))) = eval env (.bin .div (.num 1) X) := by
  rw [eval_pow, eval_div, eval_num, eval_num]
  cases eval env X with
  | none => rfl
  | some x =>
    simp only []
    rw [den_negone x]
    simp [frac]

theorem frac_one_eq_div (env : Env) (X : Expr) :
    frac false (some 1) (eval env X) = eval env (.bin .div (.num 1) X) := by
  rw [eval_div, eval_num]
  cases eval env X <;> simp [frac]

theorem rinv_pow (env : Env) (b e : SExpr) (hb : RInv env b) (he : RInv env e) :
    RInv env (.pow b e) := by
  have hsq : Le (eval env (.un .sqrt (sfOf b).e)) (eval env (.un .sqrt (sden b))) :=
    eval_un_mono env .sqrt hb.1
  have hone : Le (eval env (Expr.num 1)) (eval env (Expr.num 1)) := Le.rfl'
  refine ⟨?_, ?_, (by intro h; simp [negCoeff] at h)⟩
  · rw [sf_pow, sden_pow]
    by_cases h0 : isHalf e = true
    · simp only [h0, if_true]; exact hsq
    · have h0' : isHalf e = false := by simpa using h0
      by_cases h2 : isNegHalf e = true
      · simp only [h0', h2, if_true, Bool.false_eq_true, if_false]
        exact eval_bin_mono env .div hone hsq
      · have h2' : isNegHalf e = false := by simpa using h2
        by_cases h1 : isNegOne e = true
        · simp only [h0', h2', h1, if_true, Bool.false_eq_true, if_false]
          cases e with
          | int z =>
            have hz : z = -1 := by simpa [isNegOne] using h1
            subst hz
            rw [sden_int, pow_negone_eq]
            exact eval_bin_mono env .div hone hb.1
          | _ => simp [isNegOne] at h1
        · have h1' : isNegOne e = false := by simpa using h1
          simp only [h0', h2', h1', Bool.false_eq_true, if_false]
          exact eval_bin_mono env .pow hb.1 he.1
  · intro b' x h hn
    cases h
    rw [sf_den, sden_pow]
    have h0' : isHalf e = false := by
      cases e with
      | rat p q =>
        have hp : p < 0 := by simpa [negCoeff] using hn
        have : (p == 1) = false := by simp only [beq_eq_false_iff_ne]; omega
        simp [isHalf, this]
      | _ => rfl
    by_cases h1 : isNegOne e = true
    · have h2' : isNegHalf e = false := by
        cases e <;> first | rfl | simp [isNegOne] at h1
      simp only [h0', h2', h1, if_true, Bool.false_eq_true, if_false]
      cases e with
      | int z =>
        have hz : z = -1 := by simpa [isNegOne] using h1
        subst hz
        rw [sden_int, pow_negone_eq, ← frac_one_eq_div]
        exact frac_mono Le.rfl' hb.1
      | _ => simp [isNegOne] at h1
    · have h1' : isNegOne e = false := by simpa using h1
      by_cases h2 : isNegHalf e = true
      · simp only [h0', h1', h2, if_true, Bool.false_eq_true, if_false]
        rw [← frac_one_eq_div]
        exact frac_mono Le.rfl' hsq
      · have h2' : isNegHalf e = false := by simpa using h2
        simp only [h0', h1', h2', Bool.false_eq_true, if_false]
        have hden : Le (eval env (.bin .pow (sfOf b).e (sfOf e).neg))
            (match eval env (sden b), (eval env (sden e)).map (fun v => -v) with
              | some x, some y => ratPow x y
              | _, _ => none) := by
          rw [eval_pow]
          rcases hb.1.cases with g | g <;> rcases (he.2.2 hn).cases with k | k
          · rw [g]; exact Le.bot _
          · rw [g]; exact Le.bot _
          · rw [k]; cases eval env (sfOf b).e <;> exact Le.bot _
          · rw [g, k]; exact Le.rfl'
        refine Le.trans (frac_mono Le.rfl' hden) ?_
        rw [eval_pow]
        cases eval env (sden b) with
        | none => simp [frac]; exact Le.bot _
        | some bv =>
          cases eval env (sden e) with
          | none => simp [frac]; exact Le.bot _
          | some v => exact frac_ratPow_le bv v

/-! ### the theorem -/

theorem rinv_all (env : Env) : ∀ s, SWfX s → RInv env s := by
  apply SExpr.ind
  · intro z _
    exact RInv.of_sinv (sinv_all env (.int z) rfl rfl) (by intro b x h; cases h)
  · intro p q _
    exact RInv.of_sinv (sinv_all env (.rat p q) rfl rfl) (by intro b x h; cases h)
  · intro x _
    exact RInv.of_sinv (sinv_all env (.sym x) rfl rfl) (by intro b x h; cases h)
  · intro ts ih hw
    have hw' := hw
    simp only [SWfX, swfX_add, Bool.and_eq_true, List.all_eq_true] at hw'
    exact rinv_add env ts (fun a ha => ih a ha (hw'.2 a ha)) hw
  · intro fs ih hw
    have hw' := hw
    simp only [SWfX, swfX_mul, Bool.and_eq_true, List.all_eq_true, Bool.not_eq_true'] at hw'
    exact rinv_mul env fs (fun a ha => ih a ha (hw'.1 a ha).1) hw
  · intro b e ihb ihe hw
    have hw' := hw
    simp only [SWfX, swfX_pow, Bool.and_eq_true] at hw'
    exact rinv_pow env b e (ihb hw'.1.1) (ihe hw'.1.2)
  · intro f args ih hw
    have hw' := hw
    simp only [SWfX, swfX_fn, Bool.and_eq_true, List.all_eq_true] at hw'
    exact rinv_fn env f args (fun a ha => ih a ha (hw'.1 a ha))

/-- Under EVERY binding, whenever the tree the parser returns on SymPy's text has a value, it is
    the value of the SymPy object's meaning: the text is never mis-read, it can only lose its value
    where a denominator with a symbolic exponent has a zero base. -/
theorem surf_refines (s : SExpr) (h : SWfX s) (env : Env) (v : Rat)
    (hv : eval env (surf s) = some v) : eval env (sden s) = some v :=
  (rinv_all env s h).1 v hv

end IrVerif.SymExpr

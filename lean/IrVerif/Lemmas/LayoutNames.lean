/-
Helper lemmas for C07: decimal padding is injective; shard file name decomposition;
threshold split / zip-assignment.  Core Lean only.
-/
import IrVerif.Model.Layout
namespace IrVerif.Layout

/-! ### decimal digits -/

/-- value of a digit string (what `int(s)` computes for ASCII digits) -/
def valOf (l : List Char) : Nat := l.foldl (fun a c => a * 10 + (c.toNat - 48)) 0

theorem digitChar_val : ∀ d, d < 10 → (Char.ofNat (48 + d)).toNat - 48 = d := by decide

theorem digitsAux_val (fuel n : Nat) (acc : List Char) (h : n < 10 ^ fuel) :
    (digitsAux fuel n acc).foldl (fun a c => a * 10 + (c.toNat - 48)) 0 =
      acc.foldl (fun a c => a * 10 + (c.toNat - 48)) n := by
  induction fuel generalizing n acc with
  | zero =>
    have : n = 0 := by simp at h; omega
    subst this; rfl
  | succ fuel ih =>
    simp only [digitsAux]
    have hd := digitChar_val (n % 10) (Nat.mod_lt _ (by decide))
    split
    · rename_i h0
      simp only [List.foldl_cons, hd]
      have : n % 10 = n := by omega
      rw [this]; simp
    · rename_i h0
      rw [ih]
      · simp only [List.foldl_cons, hd]
        have : n / 10 * 10 + n % 10 = n := by omega
        rw [this]
      · rw [Nat.pow_succ] at h
        omega

theorem valOf_digits (n : Nat) : valOf (digits n) = n := by
  unfold valOf digits
  rw [digitsAux_val]
  · rfl
  · exact Nat.lt_of_lt_of_le (Nat.lt_pow_self (by decide)) (Nat.pow_le_pow_right (by decide) (by omega))

theorem valOf_zeros (k : Nat) (l : List Char) : valOf (List.replicate k '0' ++ l) = valOf l := by
  unfold valOf
  rw [List.foldl_append]
  have : (List.replicate k '0').foldl (fun a c => a * 10 + (c.toNat - 48)) 0 = 0 := by
    induction k with
    | zero => rfl
    | succ k ih => simpa [List.replicate_succ] using ih
  rw [this]

theorem valOf_pad5 (n : Nat) : valOf (pad5 n) = n := by
  unfold pad5; simp only []; rw [valOf_zeros, valOf_digits]

theorem pad5_injective {i j : Nat} (h : pad5 i = pad5 j) : i = j := by
  have := congrArg valOf h
  simpa [valOf_pad5] using this

/-! ### file name decomposition -/

theorem splitext_append (p : List Char) : (splitext p).1 ++ (splitext p).2 = p := by
  unfold splitext
  simp only []
  split
  · split
    · simp
    · simp
  · simp

theorem peelSuffixes_append (fuel : Nat) (count : Option Nat) (name : List Char)
    (acc : List (List Char)) :
    (peelSuffixes fuel count name acc).1 ++ (peelSuffixes fuel count name acc).2.reverse.flatten =
      name ++ acc.reverse.flatten := by
  induction fuel generalizing name acc with
  | zero => rfl
  | succ fuel ih =>
    simp only [peelSuffixes]
    repeat' split
    all_goals first
      | rfl
      | (rw [ih]
         have := splitext_append name
         simp only [List.reverse_append, List.reverse_cons, List.reverse_nil, List.nil_append,
           List.flatten_append, List.flatten_cons, List.flatten_nil, List.append_nil,
           List.singleton_append]
         rw [← List.append_assoc, this])

/-- the file-name part of a shard name, for a file name `filename` -/
def shardBasename (filename : List Char) (idx total : Nat) (sc : Option Nat) : List Char :=
  let r := peelSuffixes (filename.length + 1) sc filename []
  r.1 ++ '-' :: pad5 idx ++ "-of-".toList ++ pad5 total ++ r.2.reverse.flatten

theorem shardFilename_eq (base : List Char) (idx total : Nat) (sc : Option Nat) (h : total ≠ 1) :
    shardFilename base idx total sc =
      if (posixSplit base).1 ≠ [] then
        posixJoin (posixSplit base).1 (shardBasename (posixSplit base).2 idx total sc)
      else shardBasename (posixSplit base).2 idx total sc := by
  unfold shardFilename shardBasename
  simp [h]

theorem shardBasename_injective (filename : List Char) (total : Nat) (sc : Option Nat) {i j : Nat}
    (h : shardBasename filename i total sc = shardBasename filename j total sc) : i = j := by
  unfold shardBasename at h
  simp only [] at h
  simp only [List.append_assoc] at h
  have h1 := List.append_cancel_left h
  simp only [List.cons_append, List.cons.injEq, true_and] at h1
  have hlen : (pad5 i).length = (pad5 j).length := by
    have := congrArg List.length h1
    simp only [List.length_append] at this
    omega
  exact pad5_injective (List.append_inj_left h1 hlen)

theorem shardBasename_head (filename : List Char) (total : Nat) (sc : Option Nat) (i j : Nat) :
    (shardBasename filename i total sc).head? = (shardBasename filename j total sc).head? := by
  unfold shardBasename
  simp only []
  cases (peelSuffixes (filename.length + 1) sc filename []).1 <;> simp

theorem posixJoin_injective (a : List Char) {b c : List Char} (hh : b.head? = c.head?)
    (h : posixJoin a b = posixJoin a c) : b = c := by
  unfold posixJoin at h
  rw [hh] at h
  split at h
  · exact h
  · split at h
    · exact List.append_cancel_left h
    · have := List.append_cancel_left h
      simpa using this

/-! ### the directory of a shard name -/

theorem rfindSucc_eq_zero (c : Char) (l : List Char) : rfindSucc c l = 0 ↔ c ∉ l := by
  induction l with
  | nil => simp [rfindSucc]
  | cons x xs ih =>
    simp only [rfindSucc, List.mem_cons, not_or]
    by_cases hr : rfindSucc c xs > 0
    · simp only [hr, if_true]
      constructor
      · intro h; omega
      · intro h; exact absurd (ih.mpr h.2) (by omega)
    · have h0 : rfindSucc c xs = 0 := by omega
      simp only [hr, if_false]
      by_cases hx : x = c
      · simp [hx]
      · simp only [hx, if_false, true_iff]
        exact ⟨fun h => hx h.symm, ih.mp h0⟩

theorem not_mem_drop_rfindSucc (c : Char) (l : List Char) : c ∉ l.drop (rfindSucc c l) := by
  induction l with
  | nil => simp [rfindSucc]
  | cons x xs ih =>
    simp only [rfindSucc]
    by_cases hr : rfindSucc c xs > 0
    · simpa [hr] using ih
    · have h0 : rfindSucc c xs = 0 := by omega
      have hx' := (rfindSucc_eq_zero c xs).mp h0
      by_cases hx : x = c
      · simpa [hr, hx] using hx'
      · simp only [hr, hx, if_false, List.drop_zero, List.mem_cons, not_or]
        exact ⟨fun h => hx h.symm, hx'⟩

theorem rfindSucc_append_cons (c : Char) (a b : List Char) (hb : c ∉ b) :
    rfindSucc c (a ++ c :: b) = a.length + 1 := by
  induction a with
  | nil => simp [rfindSucc, (rfindSucc_eq_zero c b).mpr hb]
  | cons y a ih => simp [rfindSucc, ih]

theorem digitsAux_mem (fuel n : Nat) (acc : List Char) :
    ∀ c ∈ digitsAux fuel n acc, c ∈ acc ∨ ∃ d, d < 10 ∧ c = Char.ofNat (48 + d) := by
  induction fuel generalizing n acc with
  | zero => intro c hc; exact Or.inl hc
  | succ fuel ih =>
    intro c hc
    simp only [digitsAux] at hc
    split at hc
    · rcases List.mem_cons.mp hc with h | h
      · exact Or.inr ⟨n % 10, Nat.mod_lt _ (by decide), h⟩
      · exact Or.inl h
    · rcases ih _ _ c hc with h | h
      · rcases List.mem_cons.mp h with h | h
        · exact Or.inr ⟨n % 10, Nat.mod_lt _ (by decide), h⟩
        · exact Or.inl h
      · exact Or.inr h

theorem digit_ne_slash : ∀ d, d < 10 → Char.ofNat (48 + d) ≠ '/' := by decide

theorem slash_not_mem_pad5 (n : Nat) : '/' ∉ pad5 n := by
  intro h
  simp only [pad5, List.mem_append, List.mem_replicate] at h
  rcases h with ⟨_, h⟩ | h
  · exact absurd h (by decide)
  · rcases digitsAux_mem _ _ _ _ h with h | ⟨d, hd, h⟩
    · simp at h
    · exact digit_ne_slash d hd h.symm

theorem slash_not_mem_shardBasename (filename : List Char) (idx total : Nat) (sc : Option Nat)
    (h : '/' ∉ filename) : '/' ∉ shardBasename filename idx total sc := by
  have hsplit := peelSuffixes_append (filename.length + 1) sc filename []
  simp only [List.reverse_nil, List.flatten_nil, List.append_nil] at hsplit
  unfold shardBasename
  simp only []
  generalize (peelSuffixes (filename.length + 1) sc filename []).1 = stem at *
  generalize (peelSuffixes (filename.length + 1) sc filename []).2.reverse.flatten = ext at *
  subst hsplit
  simp only [List.mem_append, not_or] at h
  simp only [List.mem_append, List.mem_cons, not_or]
  exact ⟨⟨⟨⟨h.1, by decide, slash_not_mem_pad5 idx⟩, by decide⟩, slash_not_mem_pad5 total⟩, h.2⟩

theorem dropWhile_nil_all {α : Type} (p : α → Bool) (l : List α) (h : l.dropWhile p = []) :
    ∀ x ∈ l, p x = true := by
  induction l with
  | nil => intro x hx; simp at hx
  | cons y ys ih =>
    intro x hx
    by_cases hy : p y = true
    · rw [List.dropWhile_cons_of_pos hy] at h
      rcases List.mem_cons.mp hx with rfl | hx
      · exact hy
      · exact ih h x hx
    · rw [List.dropWhile_cons_of_neg hy] at h
      simp at h

theorem rstripSlash_props (h : List Char) (hne : h ≠ List.replicate h.length '/') :
    rstripSlash h ≠ [] ∧ (rstripSlash h).getLast? ≠ some '/' := by
  unfold rstripSlash
  constructor
  · intro hnil
    have : h.reverse.dropWhile (· = '/') = [] := by simpa using hnil
    have hall := dropWhile_nil_all _ _ this
    apply hne
    rw [List.eq_replicate_iff]
    exact ⟨rfl, fun b hb => by simpa using hall b (by simpa using hb)⟩
  · rw [List.getLast?_reverse]
    intro hh
    have hne' : h.reverse.dropWhile (· = '/') ≠ [] := by
      intro e; rw [e] at hh; simp at hh
    have := List.head_dropWhile_not (· = '/') hne'
    rw [List.head?_eq_head hne'] at hh
    simp only [Option.some.injEq] at hh
    rw [hh] at this
    simp at this

theorem rstripSlash_snoc (d : List Char) (hd : d.getLast? ≠ some '/') :
    rstripSlash (d ++ ['/']) = d := by
  unfold rstripSlash
  simp only [List.reverse_append, List.reverse_cons, List.reverse_nil, List.nil_append,
    List.singleton_append]
  rw [List.dropWhile_cons_of_pos (by simp)]
  cases hrev : d.reverse with
  | nil => simp [List.reverse_eq_nil_iff.mp hrev]
  | cons x xs =>
    have hx : x ≠ '/' := by
      intro e
      apply hd
      rw [← List.head?_reverse, hrev, e]; rfl
    rw [List.dropWhile_cons_of_neg (by simpa using hx)]
    rw [← hrev, List.reverse_reverse]

/-- `posixpath.split` of what `posixpath.join` made from a split directory and a slash-free
    file name gives the two parts back -/
theorem posixSplit_join (p f : List Char) (hf : '/' ∉ f) (hfne : f ≠ []) (hdir : (posixSplit p).1 ≠ []) :
    posixSplit (posixJoin (posixSplit p).1 f) = ((posixSplit p).1, f) := by
  have hhead : f.head? ≠ some '/' := by
    intro h
    cases f with
    | nil => simp at h
    | cons x xs => simp at h; exact hf (by simp [h])
  -- shape of the directory part
  have hshape : (posixSplit p).1 = List.replicate (posixSplit p).1.length '/' ∨
      (posixSplit p).1.getLast? ≠ some '/' := by
    unfold posixSplit
    simp only []
    split
    · rename_i hc
      exact Or.inr (rstripSlash_props _ hc.2).2
    · rename_i hc
      by_cases h0 : List.take (rfindSucc '/' p) p = []
      · simp [h0] at hdir
        unfold posixSplit at hdir
        simp [h0] at hdir
      · left
        have : List.take (rfindSucc '/' p) p =
            List.replicate (List.take (rfindSucc '/' p) p).length '/' := by
          by_cases h1 : List.take (rfindSucc '/' p) p =
              List.replicate (List.take (rfindSucc '/' p) p).length '/'
          · exact h1
          · exact absurd ⟨h0, h1⟩ hc
        exact this
  generalize (posixSplit p).1 = d at *
  rcases hshape with hrep | hlast
  · -- d is all slashes: join = d ++ f
    obtain ⟨k, hk⟩ : ∃ k, d = List.replicate k '/' ++ ['/'] := by
      refine ⟨d.length - 1, ?_⟩
      have hpos : 0 < d.length := List.length_pos_iff.mpr hdir
      rw [hrep]
      rw [← List.replicate_succ']
      congr 1
      simp; omega
    have hj : posixJoin d f = List.replicate k '/' ++ '/' :: f := by
      unfold posixJoin
      simp only [hhead, if_false]
      have : d.getLast? = some '/' := by rw [hk]; simp
      simp [this, hk]
    rw [hj]
    unfold posixSplit
    simp only [rfindSucc_append_cons '/' _ f hf, List.length_replicate]
    have ht : List.take (k + 1) (List.replicate k '/' ++ '/' :: f) = d := by
      rw [hk]
      rw [show List.replicate k '/' ++ '/' :: f = (List.replicate k '/' ++ ['/']) ++ f by simp]
      rw [List.take_left' (by simp)]
    have hdrop : List.drop (k + 1) (List.replicate k '/' ++ '/' :: f) = f := by
      rw [show List.replicate k '/' ++ '/' :: f = (List.replicate k '/' ++ ['/']) ++ f by simp]
      rw [List.drop_left' (by simp)]
    rw [ht, hdrop]
    have : ¬ (d ≠ [] ∧ d ≠ List.replicate d.length '/') := fun h => h.2 hrep
    simp [this]
  · -- d does not end with a slash: join = d ++ "/" ++ f
    have hj : posixJoin d f = d ++ '/' :: f := by
      unfold posixJoin
      simp only [hhead, if_false]
      have : ¬ (d = [] ∨ d.getLast? = some '/') := by
        rintro (h | h)
        · exact hdir h
        · exact hlast h
      simp [this]
    rw [hj]
    unfold posixSplit
    simp only [rfindSucc_append_cons '/' d f hf]
    have ht : List.take (d.length + 1) (d ++ '/' :: f) = d ++ ['/'] := by
      rw [show d ++ '/' :: f = (d ++ ['/']) ++ f by simp]
      rw [List.take_left' (by simp)]
    have hdrop : List.drop (d.length + 1) (d ++ '/' :: f) = f := by
      rw [show d ++ '/' :: f = (d ++ ['/']) ++ f by simp]
      rw [List.drop_left' (by simp)]
    rw [ht, hdrop]
    have hnrep : d ++ ['/'] ≠ List.replicate (d ++ ['/']).length '/' := by
      intro h
      have hall := (List.eq_replicate_iff.mp h).2
      apply hlast
      cases hrev : d.reverse with
      | nil => exact absurd (List.reverse_eq_nil_iff.mp hrev) hdir
      | cons x xs =>
        have hx : x ∈ d := by
          have : x ∈ d.reverse := by rw [hrev]; simp
          simpa using this
        have := hall x (by simp [hx])
        rw [← List.head?_reverse, hrev, this]; rfl
    have : (d ++ ['/'] ≠ [] ∧ d ++ ['/'] ≠ List.replicate (d ++ ['/']).length '/') :=
      ⟨by simp, hnrep⟩
    rw [if_pos this, rstripSlash_snoc d hlast]

/-! ### shape of the peeled suffixes; names across different shard counts -/

theorem rfindSucc_get (c : Char) (l : List Char) (n : Nat) (h : rfindSucc c l = n + 1) :
    l[n]? = some c := by
  induction l generalizing n with
  | nil => simp [rfindSucc] at h
  | cons x xs ih =>
    simp only [rfindSucc] at h
    by_cases hr : rfindSucc c xs > 0
    · simp only [hr, if_true] at h
      obtain ⟨m, hm⟩ : ∃ m, rfindSucc c xs = m + 1 := ⟨rfindSucc c xs - 1, by omega⟩
      have : n = m + 1 := by omega
      subst this
      simpa using ih m hm
    · simp only [hr, if_false] at h
      by_cases hx : x = c
      · simp only [hx, if_true] at h
        have : n = 0 := by omega
        subst this; simp [hx]
      · simp [hx] at h

theorem splitext_suffix_head (p : List Char) (h : (splitext p).2 ≠ []) :
    (splitext p).2.head? = some '.' := by
  revert h
  unfold splitext
  simp only []
  split
  · rename_i hgt
    split
    · intro _
      obtain ⟨n, hn⟩ : ∃ n, rfindSucc '.' p = n + 1 := ⟨rfindSucc '.' p - 1, by omega⟩
      simp only [hn, Nat.add_sub_cancel]
      rw [List.head?_drop]
      exact rfindSucc_get '.' p n hn
    · intro h; exact absurd rfl h
  · intro h; exact absurd rfl h

theorem splitext_fst_length (p : List Char) (h : (splitext p).2 ≠ []) :
    (splitext p).1.length < p.length := by
  have := congrArg List.length (splitext_append p)
  simp only [List.length_append] at this
  have : 0 < (splitext p).2.length := List.length_pos_iff.mpr h
  omega

/-- what the suffix-peeling loop guarantees about its result `r`, started with `acc` -/
def PeelSpec (count : Option Nat) (acc : List (List Char)) (r : List Char × List (List Char)) : Prop :=
  (∃ new, r.2 = acc ++ new ∧ ∀ s ∈ new, s.head? = some '.' ∧ isExtensionSuffix s = true) ∧
  (∀ c, count = some c → r.2.length ≤ max acc.length c) ∧
  ((∀ c, count = some c → r.2.length < c) →
    (splitext r.1).2 = [] ∨ isExtensionSuffix (splitext r.1).2 = false)

theorem peel_body (fuel : Nat) (count : Option Nat) (name : List Char) (acc : List (List Char))
    (ih : ∀ name' acc', name'.length < fuel → PeelSpec count acc' (peelSuffixes fuel count name' acc'))
    (hf : name.length < fuel + 1) (hroom : ∀ c, count = some c → acc.length < c) :
    PeelSpec count acc
      (if (splitext name).2 = [] ∨ ¬ isExtensionSuffix (splitext name).2 = true then (name, acc)
       else peelSuffixes fuel count (splitext name).1 (acc ++ [(splitext name).2])) := by
  by_cases hstop : (splitext name).2 = [] ∨ ¬ isExtensionSuffix (splitext name).2 = true
  · rw [if_pos hstop]
    refine ⟨⟨[], by simp, by simp⟩, fun c _ => by simp; omega, fun _ => ?_⟩
    rcases hstop with h | h
    · exact Or.inl h
    · exact Or.inr (by simpa using h)
  · rw [if_neg hstop]
    have hne : (splitext name).2 ≠ [] := fun h => hstop (Or.inl h)
    have hext : isExtensionSuffix (splitext name).2 = true := by
      by_cases h : isExtensionSuffix (splitext name).2 = true
      · exact h
      · exact absurd (Or.inr h) hstop
    have hlt := splitext_fst_length name hne
    obtain ⟨⟨new, hnew, hall⟩, hbound, hmax⟩ :=
      ih (splitext name).1 (acc ++ [(splitext name).2]) (by omega)
    refine ⟨⟨(splitext name).2 :: new, by rw [hnew]; simp, ?_⟩, ?_, hmax⟩
    · intro s hs
      rcases List.mem_cons.mp hs with rfl | hs
      · exact ⟨splitext_suffix_head name hne, hext⟩
      · exact hall s hs
    · intro c hc
      have h1 := hbound c hc
      have h2 := hroom c hc
      simp only [List.length_append, List.length_singleton] at h1
      omega

theorem peelSuffixes_spec (fuel : Nat) (count : Option Nat) (name : List Char)
    (acc : List (List Char)) (hf : name.length < fuel) :
    PeelSpec count acc (peelSuffixes fuel count name acc) := by
  induction fuel generalizing name acc with
  | zero => omega
  | succ fuel ih =>
    cases count with
    | none =>
      simp only [peelSuffixes, if_true]
      exact peel_body fuel none name acc ih hf (by simp)
    | some c =>
      by_cases hc : acc.length < c
      · simp only [peelSuffixes, hc, decide_true, if_true]
        exact peel_body fuel (some c) name acc ih hf (by intro c' h; cases h; exact hc)
      · simp only [peelSuffixes, hc, decide_false, Bool.false_eq_true, if_false]
        refine ⟨⟨[], by simp, by simp⟩, fun c' _ => by simp; omega, fun h => ?_⟩
        exact absurd (h c rfl) hc

theorem pad5_chars (n : Nat) : ∀ c ∈ pad5 n, ∃ d, d < 10 ∧ c = Char.ofNat (48 + d) := by
  intro c h
  simp only [pad5, List.mem_append, List.mem_replicate] at h
  rcases h with ⟨_, h⟩ | h
  · exact ⟨0, by decide, h⟩
  · rcases digitsAux_mem _ _ _ _ h with h | h
    · simp at h
    · exact h

theorem digit_ne_dash : ∀ d, d < 10 → Char.ofNat (48 + d) ≠ '-' := by decide

theorem dash_not_mem_pad5 (n : Nat) : '-' ∉ pad5 n := by
  intro h
  obtain ⟨d, hd, e⟩ := pad5_chars n _ h
  exact digit_ne_dash d hd e.symm

/-- two strings that agree up to their first `c` agree on both sides of it -/
theorem split_at_first (c : Char) (a b x y : List Char) (ha : c ∉ a) (hb : c ∉ b)
    (h : a ++ c :: x = b ++ c :: y) : a = b ∧ x = y := by
  induction a generalizing b with
  | nil =>
    cases b with
    | nil => simpa using h
    | cons b0 bs =>
      simp only [List.nil_append, List.cons_append, List.cons.injEq] at h
      exact absurd (by simp [h.1]) hb
  | cons a0 as ih =>
    cases b with
    | nil =>
      simp only [List.nil_append, List.cons_append, List.cons.injEq] at h
      exact absurd (by simp [h.1]) ha
    | cons b0 bs =>
      simp only [List.cons_append, List.cons.injEq] at h
      have := ih bs (fun m => ha (List.mem_cons_of_mem _ m)) (fun m => hb (List.mem_cons_of_mem _ m)) h.2
      exact ⟨by rw [h.1, this.1], this.2⟩

/-- the file-name part determines both counters -/
theorem shardBasename_injective2 (filename : List Char) (sc : Option Nat) {i j t t' : Nat}
    (h : shardBasename filename i t sc = shardBasename filename j t' sc) : i = j ∧ t = t' := by
  unfold shardBasename at h
  simp only [] at h
  simp only [List.append_assoc] at h
  have h1 := List.append_cancel_left h
  simp only [List.cons_append, List.cons.injEq, true_and] at h1
  -- pad5 i ++ '-' :: 'o' :: 'f' :: '-' :: (pad5 t ++ ext)
  have h2 : pad5 i ++ '-' :: ("of-".toList ++ (pad5 t ++
        (peelSuffixes (filename.length + 1) sc filename []).2.reverse.flatten)) =
      pad5 j ++ '-' :: ("of-".toList ++ (pad5 t' ++
        (peelSuffixes (filename.length + 1) sc filename []).2.reverse.flatten)) := by
    simpa using h1
  obtain ⟨hij, hrest⟩ := split_at_first '-' _ _ _ _ (dash_not_mem_pad5 i) (dash_not_mem_pad5 j) h2
  have h3 := List.append_cancel_left hrest
  have h4 := List.append_cancel_right h3
  exact ⟨pad5_injective hij, pad5_injective h4⟩

/-! ### zip-assignment -/

theorem assignZip_length (st : List NewConst) (is : List Nat) (ns : List NewConst) :
    (assignZip st is ns).length = st.length := by
  induction is generalizing st ns with
  | nil => simp [assignZip]
  | cons i is ih =>
    cases ns with
    | nil => simp [assignZip]
    | cons n ns => simp [assignZip, ih]

theorem assignZip_not_mem (st : List NewConst) (is : List Nat) (ns : List NewConst) (k : Nat)
    (h : k ∉ is) : (assignZip st is ns)[k]? = st[k]? := by
  induction is generalizing st ns with
  | nil => simp [assignZip]
  | cons i is ih =>
    cases ns with
    | nil => simp [assignZip]
    | cons n ns =>
      simp only [assignZip]
      rw [ih _ _ (fun hk => h (List.mem_cons_of_mem _ hk))]
      have : i ≠ k := fun e => h (e ▸ List.mem_cons_self ..)
      simp [List.getElem?_set, this]

theorem assignZip_mem (st : List NewConst) (is : List Nat) (ns : List NewConst)
    (hnd : is.Nodup) (hlen : is.length = ns.length) (hb : ∀ i ∈ is, i < st.length)
    (j : Nat) (hj : j < is.length) : (assignZip st is ns)[is[j]]? = ns[j]? := by
  induction is generalizing st ns j with
  | nil => simp at hj
  | cons i is ih =>
    cases ns with
    | nil => simp at hlen
    | cons n ns =>
      simp only [assignZip]
      rw [List.nodup_cons] at hnd
      cases j with
      | zero =>
        simp only [List.getElem_cons_zero, List.getElem?_cons_zero]
        rw [assignZip_not_mem _ _ _ _ hnd.1]
        have := hb i (List.mem_cons_self ..)
        simp [List.getElem?_set, this]
      | succ j =>
        simp only [List.getElem_cons_succ, List.getElem?_cons_succ]
        apply ih _ _ hnd.2 (by simpa using hlen)
        intro k hk
        simpa using hb k (List.mem_cons_of_mem _ hk)

/-! ### threshold split -/

/-- generic form of the two classification loops -/
def splitBy (pe pm : Init → Bool) : Nat → List Init → List Nat × List Nat
  | _, [] => ([], [])
  | k, v :: rest =>
    let r := splitBy pe pm (k + 1) rest
    (if pe v then k :: r.1 else r.1, if pm v then k :: r.2 else r.2)

/-- raw backend: becomes external -/
def extRaw (thr : Int) (v : Init) : Bool := v.hasConst && !v.isString && decide ((v.nbytes : Int) > thr)
/-- raw backend: loaded to memory -/
def memRaw (thr : Int) (v : Init) : Bool :=
  v.hasConst && !v.isString && !decide ((v.nbytes : Int) > thr) && v.isExternal
/-- safetensors backend -/
def extSt (thr : Int) (v : Init) : Bool := v.hasConst && !v.isString && !decide ((v.nbytes : Int) < thr)
def memSt (thr : Int) (v : Init) : Bool :=
  v.hasConst && !v.isString && decide ((v.nbytes : Int) < thr) && v.isExternal

theorem splitRawGo_eq (thr : Int) (k : Nat) (vs : List Init) :
    splitRawGo thr k vs = splitBy (extRaw thr) (memRaw thr) k vs := by
  induction vs generalizing k with
  | nil => rfl
  | cons v rest ih =>
    simp only [splitRawGo, splitBy, ih, extRaw, memRaw]
    by_cases h1 : v.hasConst = true <;> by_cases h2 : v.isString = true <;>
      by_cases h3 : v.isExternal = true <;> by_cases h : (v.nbytes : Int) > thr <;>
      simp [h1, h2, h3, h]

theorem splitStGo_eq (thr : Int) (k : Nat) (vs : List Init) :
    splitStGo thr k vs = splitBy (extSt thr) (memSt thr) k vs := by
  induction vs generalizing k with
  | nil => rfl
  | cons v rest ih =>
    simp only [splitStGo, splitBy, ih, extSt, memSt]
    by_cases h1 : v.hasConst = true <;> by_cases h2 : v.isString = true <;>
      by_cases h3 : v.isExternal = true <;> by_cases h : (v.nbytes : Int) < thr <;>
      simp [h1, h2, h3, h]

theorem splitBy_mem_fst (pe pm : Init → Bool) (k : Nat) (vs : List Init) (i : Nat) :
    i ∈ (splitBy pe pm k vs).1 ↔ ∃ j, ∃ h : j < vs.length, i = k + j ∧ pe vs[j] = true := by
  induction vs generalizing k with
  | nil => simp [splitBy]
  | cons v rest ih =>
    simp only [splitBy]
    constructor
    · intro hi
      have hi' : (pe v = true ∧ i = k) ∨ i ∈ (splitBy pe pm (k + 1) rest).1 := by
        split at hi
        · rcases List.mem_cons.mp hi with h | h
          · left; exact ⟨by assumption, h⟩
          · right; exact h
        · right; exact hi
      rcases hi' with ⟨hp, rfl⟩ | h
      · exact ⟨0, by simp, by simp, by simpa using hp⟩
      · obtain ⟨j, hj, rfl, hp⟩ := (ih (k + 1)).mp h
        exact ⟨j + 1, by simpa using hj, by omega, by simpa using hp⟩
    · rintro ⟨j, hj, rfl, hp⟩
      cases j with
      | zero =>
        have : pe v = true := by simpa using hp
        simp [this]
      | succ j =>
        have : k + (j + 1) ∈ (splitBy pe pm (k + 1) rest).1 :=
          (ih (k + 1)).mpr ⟨j, by simpa using hj, by omega, by simpa using hp⟩
        split
        · exact List.mem_cons_of_mem _ this
        · exact this

theorem splitBy_swap (pe pm : Init → Bool) (k : Nat) (vs : List Init) :
    (splitBy pe pm k vs).2 = (splitBy pm pe k vs).1 := by
  induction vs generalizing k with
  | nil => rfl
  | cons v rest ih => simp [splitBy, ih]

theorem splitBy_mem_snd (pe pm : Init → Bool) (k : Nat) (vs : List Init) (i : Nat) :
    i ∈ (splitBy pe pm k vs).2 ↔ ∃ j, ∃ h : j < vs.length, i = k + j ∧ pm vs[j] = true := by
  rw [splitBy_swap]; exact splitBy_mem_fst pm pe k vs i

theorem splitBy_sorted_fst (pe pm : Init → Bool) (k : Nat) (vs : List Init) :
    (splitBy pe pm k vs).1.Pairwise (· < ·) := by
  induction vs generalizing k with
  | nil => simp [splitBy]
  | cons v rest ih =>
    simp only [splitBy]
    split
    · rw [List.pairwise_cons]
      refine ⟨?_, ih _⟩
      intro i hi
      obtain ⟨j, _, rfl, _⟩ := (splitBy_mem_fst pe pm (k + 1) rest i).mp hi
      omega
    · exact ih _

theorem splitBy_sorted_snd (pe pm : Init → Bool) (k : Nat) (vs : List Init) :
    (splitBy pe pm k vs).2.Pairwise (· < ·) := by
  rw [splitBy_swap]; exact splitBy_sorted_fst pm pe k vs

/-- the position of initializer `j` in the first list is the number of selected initializers
    before it -/
theorem splitBy_index (pe pm : Init → Bool) (b : Nat) (vs : List Init) (j : Nat)
    (hj : j < vs.length) (hp : pe vs[j] = true) :
    (splitBy pe pm b vs).1[(vs.take j).countP pe]? = some (b + j) := by
  induction vs generalizing b j with
  | nil => simp at hj
  | cons v rest ih =>
    cases j with
    | zero =>
      have : pe v = true := by simpa using hp
      simp [splitBy, this]
    | succ j =>
      have hj' : j < rest.length := by simpa using hj
      have hp' : pe rest[j] = true := by simpa using hp
      have := ih (b + 1) j hj' hp'
      simp only [splitBy, List.take_succ_cons, List.countP_cons]
      by_cases hv : pe v = true
      · simp only [hv, if_true, List.getElem?_cons_succ]
        rw [this]; congr 1; omega
      · simp only [hv, Bool.false_eq_true, if_false, Nat.add_zero]
        rw [this]; congr 1; omega

/-- the selected initializers, in order, are the filter of the list -/
theorem splitBy_map_filter (pe pm : Init → Bool) (pre vs : List Init) :
    (splitBy pe pm pre.length vs).1.map (fun i => (pre ++ vs).getD i default) = vs.filter pe := by
  induction vs generalizing pre with
  | nil => simp [splitBy]
  | cons v rest ih =>
    have h := ih (pre ++ [v])
    simp only [List.length_append, List.length_singleton, List.append_assoc, List.singleton_append] at h
    simp only [splitBy, List.filter_cons]
    by_cases hv : pe v = true
    · simp only [hv, if_true, List.map_cons, h]
      congr 1
      simp [List.getD_eq_getElem?_getD]
    · simp only [hv, Bool.false_eq_true, if_false, h]

theorem nodup_of_sorted {l : List Nat} (h : l.Pairwise (· < ·)) : l.Nodup :=
  h.imp (by intro a b hab; omega)

/-! ### placements carry every tensor's own length, in order -/

theorem placeShards_lengths_from (al : Option Nat) (thr : Nat) (shards : List (List Nat))
    (start total : Nat) :
    (((shards.zipIdx start).flatMap fun (sh, i) =>
      (computeInfos al thr sh).map fun inf => (⟨i, total, inf.offset, inf.length⟩ : Placement)).map
        (·.length)) = shards.flatten := by
  induction shards generalizing start with
  | nil => rfl
  | cons sh rest ih =>
    simp only [List.zipIdx_cons, List.flatMap_cons, List.map_append, List.flatten_cons, ih]
    congr 1
    simp only [List.map_map]
    have := computeInfosFrom_lengths al thr 0 sh
    simpa [computeInfos, Function.comp_def] using this
where
  computeInfosFrom_lengths (al : Option Nat) (thr : Nat) (cur : Nat) (sizes : List Nat) :
      (computeInfosFrom al thr cur sizes).map (·.length) = sizes := by
    induction sizes generalizing cur with
    | nil => rfl
    | cons s rest ih => simp [computeInfosFrom, ih]

end IrVerif.Layout

/-
Completeness of the decidable acyclicity predicates (`stableG` over `hgtG`, Model/LinkedSet.lean):
the predicate is false exactly when some graph is nested in itself.  Sufficiency (stable heights
are a rank) is Lemmas/LinkedSetTree.lean; here the converse, by a pigeonhole argument: an unstable
height means a nesting chain longer than the number of graphs that have subgraphs at all.
-/
import IrVerif.Lemmas.LinkedSetTree
namespace IrVerif.LinkedSet

/-- `Nested kids g h`: `h` is entered - directly or through further subgraphs - from graph `g`
    (transitive closure of the nesting relation given by `kids`) -/
inductive Nested (kids : Nat → List Nat) : Nat → Nat → Prop
  | one {g h : Nat} : h ∈ kids g → Nested kids g h
  | cons {g h x : Nat} : h ∈ kids g → Nested kids h x → Nested kids g x

theorem Nested.snoc {kids : Nat → List Nat} {g h x : Nat} (h1 : Nested kids g h) (h2 : x ∈ kids h) :
    Nested kids g x := by
  induction h1 with
  | one hk => exact .cons hk (.one h2)
  | cons hk _ ih => exact .cons hk (ih h2)

theorem Nested.trans {kids : Nat → List Nat} {g h x : Nat} (h1 : Nested kids g h) (h2 : Nested kids h x) :
    Nested kids g x := by
  induction h1 with
  | one hk => exact .cons hk h2
  | cons hk _ ih => exact .cons hk (ih h2)

/-- a nodup list whose elements all lie in `gs` is no longer than `gs` -/
theorem nodup_length_le_of_subset : ∀ (l gs : List Nat), l.Nodup → (∀ a ∈ l, a ∈ gs) → l.length ≤ gs.length
  | [], _, _, _ => Nat.zero_le _
  | a :: l, gs, hnd, hsub => by
      have ha : a ∈ gs := hsub a (by simp)
      have hnd' := List.nodup_cons.1 hnd
      have ih := nodup_length_le_of_subset l (gs.erase a) hnd'.2 (by
        intro b hb
        have hne : b ≠ a := by rintro rfl; exact hnd'.1 hb
        exact (List.mem_erase_of_ne hne).2 (hsub b (by simp [hb])))
      rw [List.length_erase_of_mem ha] at ih
      have : 0 < gs.length := List.length_pos_of_mem ha
      simp only [List.length_cons]
      omega

theorem foldr_max_le (f : Nat → Nat) (k : Nat) : ∀ (l : List Nat), (∀ h ∈ l, f h + 1 ≤ k) →
    l.foldr (fun h m => max (f h + 1) m) 0 ≤ k
  | [], _ => Nat.zero_le _
  | x :: l, h => by
      simp only [List.foldr_cons]
      exact Nat.max_le.2 ⟨h x (by simp), foldr_max_le f k l (fun y hy => h y (by simp [hy]))⟩

theorem foldr_max_congr (f f' : Nat → Nat) : ∀ (l : List Nat), (∀ h ∈ l, f h = f' h) →
    l.foldr (fun h m => max (f h + 1) m) 0 = l.foldr (fun h m => max (f' h + 1) m) 0
  | [], _ => rfl
  | x :: l, h => by
      simp only [List.foldr_cons]
      rw [h x (by simp), foldr_max_congr f f' l (fun y hy => h y (by simp [hy]))]

/-- the maximum is attained -/
theorem foldr_max_attained (f : Nat → Nat) : ∀ (l : List Nat) (k : Nat),
    l.foldr (fun h m => max (f h + 1) m) 0 = k + 1 → ∃ h ∈ l, f h = k
  | [], _, e => by simp at e
  | x :: l, k, e => by
      simp only [List.foldr_cons] at e
      by_cases hx : f x + 1 ≥ l.foldr (fun h m => max (f h + 1) m) 0
      · rw [Nat.max_eq_left hx] at e
        exact ⟨x, by simp, by omega⟩
      · rw [Nat.max_eq_right (by omega)] at e
        obtain ⟨h, hm, hh⟩ := foldr_max_attained f l k e
        exact ⟨h, by simp [hm], hh⟩

/-- a height below the cap does not change with more fuel -/
theorem hgtG_stable_of_le (kids : Nat → List Nat) : ∀ (k g : Nat), hgtG kids (k + 1) g ≤ k →
    hgtG kids k g = hgtG kids (k + 1) g
  | 0, g, h => by
      cases hk : kids g with
      | nil => simp [hgtG, hk]
      | cons x l =>
        simp only [hgtG, hk, List.foldr_cons] at h
        have := Nat.le_max_left (0 + 1) (l.foldr (fun h m => max (hgtG kids 0 h + 1) m) 0)
        simp only [hgtG] at this
        omega
  | k + 1, g, h => by
      have hall : ∀ x ∈ kids g, hgtG kids (k + 1) x ≤ k := by
        intro x hx
        have := hgtG_succ_ge kids (k + 1) g x hx
        omega
      show (kids g).foldr _ 0 = (kids g).foldr _ 0
      exact foldr_max_congr _ _ _ (fun x hx => hgtG_stable_of_le kids k x (hall x hx))

/-- a chain as long as the fuel: some subgraph has full height for one unit less -/
theorem hgtG_full_kid (kids : Nat → List Nat) (k g : Nat) (h : hgtG kids (k + 1) g = k + 1) :
    ∃ x ∈ kids g, hgtG kids k x = k :=
  foldr_max_attained (hgtG kids k) (kids g) k h

/-- pigeonhole along a chain of full height: with `seen` distinct ancestors, all among `gs`, and
    `k` more levels to go where `k + seen.length > gs.length`, some graph is nested in itself -/
theorem cycle_of_full (kids : Nat → List Nat) (gs : List Nat) (hall : ∀ g, kids g ≠ [] → g ∈ gs) :
    ∀ (k : Nat) (seen : List Nat) (g : Nat), seen.Nodup → (∀ a ∈ seen, a ∈ gs ∧ Nested kids a g) →
      hgtG kids k g = k → gs.length < k + seen.length → ∃ c, Nested kids c c
  | 0, seen, g, hnd, hs, _, hlen => by
      have := nodup_length_le_of_subset seen gs hnd (fun a ha => (hs a ha).1)
      omega
  | k + 1, seen, g, hnd, hs, hfull, hlen => by
      obtain ⟨x, hx, hxf⟩ := hgtG_full_kid kids k g hfull
      by_cases hg : g ∈ seen
      · exact ⟨g, (hs g hg).2⟩
      · have hgs : g ∈ gs := hall g (by intro e; rw [e] at hx; cases hx)
        refine cycle_of_full kids gs hall k (g :: seen) x (List.nodup_cons.2 ⟨hg, hnd⟩) ?_ hxf
          (by simp only [List.length_cons]; omega)
        intro a ha
        rcases List.mem_cons.1 ha with rfl | ha
        · exact ⟨hgs, .one hx⟩
        · exact ⟨(hs a ha).1, (hs a ha).2.snoc hx⟩

/-- **completeness of `stableG`**: when the list `gs` covers every graph that has subgraphs and is
    not longer than the fuel `n`, an unstable height exhibits a graph nested in itself -/
theorem cycle_of_unstable (kids : Nat → List Nat) (n : Nat) (gs : List Nat)
    (hall : ∀ g, kids g ≠ [] → g ∈ gs) (hlen : gs.length ≤ n) (hs : stableG kids n gs = false) :
    ∃ c, Nested kids c c := by
  have : ∃ g ∈ gs, hgtG kids n g ≠ hgtG kids (n + 1) g := by
    have h := hs
    simp only [stableG] at h
    have h2 : ¬ (gs.all fun g => hgtG kids n g == hgtG kids (n + 1) g) = true := by simp [h]
    rw [List.all_eq_true] at h2
    apply Classical.byContradiction
    intro hne
    apply h2
    intro g hg
    have : ¬ hgtG kids n g ≠ hgtG kids (n + 1) g := fun hh => hne ⟨g, hg, hh⟩
    simpa using this
  obtain ⟨g, _, hne⟩ := this
  have hfull : hgtG kids (n + 1) g = n + 1 := by
    have hle := hgtG_le kids (n + 1) g
    apply Classical.byContradiction
    intro hh
    exact hne (hgtG_stable_of_le kids n g (by omega))
  exact cycle_of_full kids gs hall (n + 1) [] g List.nodup_nil (by simp) hfull (by simp; omega)

/-- soundness, in the same vocabulary: stable heights strictly decrease along `Nested` -/
theorem hgt_lt_of_nested (kids : Nat → List Nat) (n : Nat) (gs : List Nat) (hs : stableG kids n gs = true)
    (hall : ∀ g, kids g ≠ [] → g ∈ gs) {g h : Nat} (hn : Nested kids g h) :
    hgtG kids n h < hgtG kids n g := by
  induction hn with
  | one hk => exact hgtG_rank kids n gs hs hall _ _ hk
  | cons hk _ ih => exact Nat.lt_trans ih (hgtG_rank kids n gs hs hall _ _ hk)

theorem stable_iff_no_cycle (kids : Nat → List Nat) (n : Nat) (gs : List Nat)
    (hall : ∀ g, kids g ≠ [] → g ∈ gs) (hlen : gs.length ≤ n) :
    stableG kids n gs = false ↔ ∃ c, Nested kids c c := by
  constructor
  · exact cycle_of_unstable kids n gs hall hlen
  · rintro ⟨c, hc⟩
    cases hst : stableG kids n gs with
    | false => rfl
    | true => exact absurd (hgt_lt_of_nested kids n gs hst hall hc) (Nat.lt_irrefl _)

/-! ### the three instances -/

theorem rkids_covered (w : RWorld) (d : Dir) (g : Nat) (hne : w.kids d g ≠ []) :
    g ∈ List.range w.sets.length := by
  apply List.mem_range.2
  apply Nat.lt_of_not_le
  intro hle
  apply hne
  simp [RWorld.kids, RWorld.kidsOf, setOf_ge_empty w g hle, toList_empty]

theorem skids_covered (w : RWorld) (d : Dir) (home : Nat → Nat) (g : Nat) (hne : w.skids d home g ≠ []) :
    g ∈ w.attrs.map (fun p => home p.1) := by
  simp only [RWorld.skids, RWorld.kidsOf] at hne
  have : ∃ x, x ∈ ((w.attrs.map (·.1)).filter (fun v => home v == g)) := by
    cases hx : (w.attrs.map (·.1)).filter (fun v => home v == g) with
    | nil => simp [hx] at hne
    | cons x _ => exact ⟨x, by simp⟩
  obtain ⟨x, hx⟩ := this
  obtain ⟨hx1, hx2⟩ := List.mem_filter.1 hx
  obtain ⟨p, hp, rfl⟩ := List.mem_map.1 hx1
  exact List.mem_map.2 ⟨p, hp, by simpa using hx2⟩

end IrVerif.LinkedSet

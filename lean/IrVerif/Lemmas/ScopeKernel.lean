/-
The IR built by deserialization, seen as a world of the kernel model (`IrVerif.Kernel`, C01): the
embedding `toKernel` and the proof that `Consistent` (C17) gives the six clauses of `Kernel.WF`.
-/
import IrVerif.Lemmas.KernelOps
import IrVerif.Lemmas.ScopeTree
namespace IrVerif.Scope

/-! ### the embedding -/

/-- a value cell as a kernel value record (the type / shape / documentation tokens are dropped) -/
def kval (c : ValueS) : Kernel.ValueS :=
  { name := c.name, producer := c.producer, index := c.index.map Int.ofNat, uses := c.uses, graph := c.graph,
    isIn := c.isIn, isOut := c.isOut, isInit := c.isInit, const := c.const }

mutual
/-- the nodes of a graph tree with their creation index, as kernel node records -/
def knodesG : GraphT → List (Nat × Kernel.NodeS)
  | .mk _ _ _ ns _ => knodesNs ns
def knodesNs : List NodeT → List (Nat × Kernel.NodeS)
  | [] => []
  | n :: ns => knodesN n ++ knodesNs ns
def knodesN : NodeT → List (Nat × Kernel.NodeS)
  | .mk i gr a b subs => knodesGs subs ++ [(i, { inputs := a, outputs := b, graph := gr })]
def knodesGs : List GraphT → List (Nat × Kernel.NodeS)
  | [] => []
  | g :: gs => knodesG g ++ knodesGs gs
end

/-- what the kernel records of a graph besides the reference counters and the name authority -/
structure KG where
  inputs : List Nat
  outputs : List Nat
  inits : List (Name × Nat)
  nodes : List Nat

mutual
def kgraphsG : GraphT → List (Nat × KG)
  | .mk i ins inits ns outs => kgraphsNs ns ++ [(i, ⟨ins, outs, inits, ns.map NodeT.id⟩)]
def kgraphsNs : List NodeT → List (Nat × KG)
  | [] => []
  | n :: ns => kgraphsN n ++ kgraphsNs ns
def kgraphsN : NodeT → List (Nat × KG)
  | .mk _ _ _ _ subs => kgraphsGs subs
def kgraphsGs : List GraphT → List (Nat × KG)
  | [] => []
  | g :: gs => kgraphsG g ++ kgraphsGs gs
end

/-- the reference counters of a tracked list: multiplicities, indexed by value id -/
def cnts (nv : Nat) (l : List Nat) : List Nat := (List.range nv).map fun v => l.count v

def kgraph (nv : Nat) (r : KG) : Kernel.GraphS :=
  { inputs := r.inputs, outputs := r.outputs, inCnt := cnts nv r.inputs, outCnt := cnts nv r.outputs,
    inits := r.inits, nodes := r.nodes }

/-- **the embedding**: value `v` is kernel value `v`, the node / graph with creation index `i` is kernel
    node / graph `i`; ids that name nothing are blank records. -/
def toKernel (w : World) : Kernel.World :=
  { vals := (List.range w.st.nv).map fun v => kval (w.st.vals v),
    nodes := (List.range w.st.nn).map fun n => ((knodesG w.root).lookup n).getD {},
    graphs := (List.range w.st.ng).map fun g =>
      match (kgraphsG w.root).lookup g with
      | some r => kgraph w.st.nv r
      | none => {} }

/-! ### reading the embedding -/

theorem lget_range'_map {α : Type} [Inhabited α] (f : Nat → α) :
    ∀ (n s i : Nat), Kernel.lget ((List.range' s n).map f) i = if i < n then f (s + i) else default := by
  intro n
  induction n with
  | zero => intro s i; simp [Kernel.lget]
  | succ n ih =>
    intro s i
    cases i with
    | zero => simp [List.range'_succ, Kernel.lget]
    | succ i =>
      simp only [List.range'_succ, List.map_cons, Kernel.lget, ih (s + 1) i]
      have : s + 1 + i = s + (i + 1) := by omega
      rw [this]
      by_cases h : i < n
      · simp [h]
      · simp [h]

theorem lget_range_map {α : Type} [Inhabited α] (f : Nat → α) (n i : Nat) :
    Kernel.lget ((List.range n).map f) i = if i < n then f i else default := by
  rw [List.range_eq_range', lget_range'_map]; simp

theorem kval_default : kval {} = {} := rfl

theorem val_toKernel (w : World) (hf : Fresh w.st) (v : Nat) : (toKernel w).val v = kval (w.st.vals v) := by
  simp only [Kernel.World.val, toKernel, lget_range_map]
  split
  · rfl
  · rename_i h
    rw [hf v (by omega)]; rfl

theorem lookup_none_of_keys_lt {α : Type} (l : List (Nat × α)) (b k : Nat) (h : ∀ e ∈ l, e.1 < b) (hk : b ≤ k) :
    l.lookup k = none := by
  induction l with
  | nil => rfl
  | cons e l ih =>
    obtain ⟨a, r⟩ := e
    have ha := h (a, r) (by simp)
    have : (k == a) = false := by
      simp only [beq_eq_false_iff_ne, ne_eq]
      intro e; subst e; exact absurd ha (by simp; omega)
    simp only [List.lookup_cons, this]
    exact ih (fun e he => h e (by simp [he]))

theorem node_toKernel (w : World) (hlt : ∀ e ∈ knodesG w.root, e.1 < w.st.nn) (n : Nat) :
    (toKernel w).node n = ((knodesG w.root).lookup n).getD {} := by
  simp only [Kernel.World.node, toKernel, lget_range_map]
  split
  · rfl
  · rename_i h
    rw [lookup_none_of_keys_lt _ w.st.nn n hlt (by omega)]; rfl

theorem gr_toKernel (w : World) (hlt : ∀ e ∈ kgraphsG w.root, e.1 < w.st.ng) (g : Nat) :
    (toKernel w).gr g = match (kgraphsG w.root).lookup g with
      | some r => kgraph w.st.nv r
      | none => {} := by
  simp only [Kernel.World.gr, toKernel, lget_range_map]
  split
  · rfl
  · rename_i h
    rw [lookup_none_of_keys_lt _ w.st.ng g hlt (by omega)]; rfl

theorem lookup_some_iff {α : Type} (l : List (Nat × α)) (hnd : (l.map (·.1)).Nodup) (k : Nat) (r : α) :
    l.lookup k = some r ↔ (k, r) ∈ l := by
  induction l with
  | nil => simp
  | cons e l ih =>
    obtain ⟨a, x⟩ := e
    simp only [List.map_cons, List.nodup_cons, List.mem_map, not_exists, not_and] at hnd
    by_cases hk : k = a
    · subst hk
      simp only [List.lookup_cons, beq_self_eq_true, Option.some.injEq, List.mem_cons, Prod.mk.injEq, true_and]
      constructor
      · intro h; exact .inl h.symm
      · rintro (h | h)
        · exact h.symm
        · exact absurd rfl (hnd.1 (k, r) h)
    · have : (k == a) = false := by simpa using hk
      simp only [List.lookup_cons, this, List.mem_cons, Prod.mk.injEq, hk, false_and, false_or]
      exact ih hnd.2

/-! ### the flattened records and `recsG` / `grecsG` -/

def toNRec (e : Nat × Kernel.NodeS) : NRec := ⟨e.1, e.2.inputs, e.2.outputs⟩
def toGRec (e : Nat × KG) : GRec := ⟨e.1, e.2.inputs, e.2.outputs, e.2.inits.map (·.2)⟩

mutual
theorem recsG_knodes : ∀ (g : GraphT), recsG g = (knodesG g).map toNRec
  | .mk _ _ _ ns _ => by simp only [recsG, knodesG]; exact recsNs_knodes ns
theorem recsNs_knodes : ∀ (ns : List NodeT), recsNs ns = (knodesNs ns).map toNRec
  | [] => rfl
  | n :: ns => by simp only [recsNs, knodesNs, List.map_append, recsN_knodes n, recsNs_knodes ns]
theorem recsN_knodes : ∀ (n : NodeT), recsN n = (knodesN n).map toNRec
  | .mk i gr a b subs => by
    simp only [recsN, knodesN, List.map_append, recsGs_knodes subs, List.map_cons, List.map_nil, toNRec]
theorem recsGs_knodes : ∀ (gs : List GraphT), recsGs gs = (knodesGs gs).map toNRec
  | [] => rfl
  | g :: gs => by simp only [recsGs, knodesGs, List.map_append, recsG_knodes g, recsGs_knodes gs]
end

mutual
theorem grecsG_kgraphs : ∀ (g : GraphT), grecsG g = (kgraphsG g).map toGRec
  | .mk i ins inits ns outs => by
    simp only [grecsG, kgraphsG, List.map_append, grecsNs_kgraphs ns, List.map_cons, List.map_nil, toGRec]
theorem grecsNs_kgraphs : ∀ (ns : List NodeT), grecsNs ns = (kgraphsNs ns).map toGRec
  | [] => rfl
  | n :: ns => by simp only [grecsNs, kgraphsNs, List.map_append, grecsN_kgraphs n, grecsNs_kgraphs ns]
theorem grecsN_kgraphs : ∀ (n : NodeT), grecsN n = (kgraphsN n).map toGRec
  | .mk _ _ _ _ subs => by simp only [grecsN, kgraphsN]; exact grecsGs_kgraphs subs
theorem grecsGs_kgraphs : ∀ (gs : List GraphT), grecsGs gs = (kgraphsGs gs).map toGRec
  | [] => rfl
  | g :: gs => by simp only [grecsGs, kgraphsGs, List.map_append, grecsG_kgraphs g, grecsGs_kgraphs gs]
end

/-! ### what `TreeOKG` says about the flattened records -/

/-- initializers are keyed by the non-empty name of their value; keys are distinct -/
def PI (st : Store) (KGs : List (Nat × KG)) : Prop :=
  ∀ e ∈ KGs, (∀ kv ∈ e.2.inits, (st.vals kv.2).name = some kv.1 ∧ kv.1 ≠ "") ∧ (e.2.inits.map (·.1)).Nodup

/-- every node listed by a graph names that graph as its owner -/
def PA (KN : List (Nat × Kernel.NodeS)) (KGs : List (Nat × KG)) : Prop :=
  ∀ e ∈ KGs, ∀ n ∈ e.2.nodes, ∃ rec, (n, rec) ∈ KN ∧ rec.graph = some e.1

/-- every node is listed by the graph it names as its owner -/
def PB (KN : List (Nat × Kernel.NodeS)) (KGs : List (Nat × KG)) : Prop :=
  ∀ x ∈ KN, ∃ e ∈ KGs, x.2.graph = some e.1 ∧ x.1 ∈ e.2.nodes

theorem PI.append {st : Store} {A B : List (Nat × KG)} (ha : PI st A) (hb : PI st B) : PI st (A ++ B) :=
  fun e he => by
    rcases List.mem_append.mp he with h | h
    · exact ha e h
    · exact hb e h

theorem PA.append {KN KN' : List (Nat × Kernel.NodeS)} {A B : List (Nat × KG)} (ha : PA KN A) (hb : PA KN' B) :
    PA (KN ++ KN') (A ++ B) := fun e he n hn => by
  rcases List.mem_append.mp he with h | h
  · obtain ⟨rec, h1, h2⟩ := ha e h n hn
    exact ⟨rec, List.mem_append.mpr (.inl h1), h2⟩
  · obtain ⟨rec, h1, h2⟩ := hb e h n hn
    exact ⟨rec, List.mem_append.mpr (.inr h1), h2⟩

theorem PB.append {KN KN' : List (Nat × Kernel.NodeS)} {A B : List (Nat × KG)} (ha : PB KN A) (hb : PB KN' B) :
    PB (KN ++ KN') (A ++ B) := fun x hx => by
  rcases List.mem_append.mp hx with h | h
  · obtain ⟨e, h1, h2⟩ := ha x h
    exact ⟨e, List.mem_append.mpr (.inl h1), h2⟩
  · obtain ⟨e, h1, h2⟩ := hb x h
    exact ⟨e, List.mem_append.mpr (.inr h1), h2⟩

mutual
theorem treeOK_flatG (st : Store) :
    ∀ (g : GraphT), TreeOKG st g → PI st (kgraphsG g) ∧ PA (knodesG g) (kgraphsG g) ∧ PB (knodesG g) (kgraphsG g)
  | .mk gid ins inits ns outs, h => by
    simp only [TreeOKG] at h
    obtain ⟨h1, h2, h3⟩ := h
    obtain ⟨i1, a1, b1, l1⟩ := treeOK_flatNs st (some gid) ns h3
    simp only [kgraphsG, knodesG]
    refine ⟨i1.append ?_, ?_, ?_⟩
    · intro e he
      simp only [List.mem_singleton] at he
      subst he
      exact ⟨fun kv hkv => (h1 kv hkv).2, h2⟩
    · intro e he n hn
      rcases List.mem_append.mp he with h | h
      · exact a1 e h n hn
      · simp only [List.mem_singleton] at h
        subst h
        simp only [List.mem_map] at hn
        obtain ⟨nd, hnd, rfl⟩ := hn
        exact l1 nd hnd
    · intro x hx
      rcases b1 x hx with ⟨hg, hm⟩ | ⟨e, he, h⟩
      · exact ⟨(gid, ⟨ins, outs, inits, ns.map NodeT.id⟩), by simp, hg, hm⟩
      · exact ⟨e, List.mem_append.mpr (.inl he), h⟩
theorem treeOK_flatNs (st : Store) :
    ∀ (o : Option Nat) (ns : List NodeT), TreeOKNs st o ns →
      PI st (kgraphsNs ns) ∧ PA (knodesNs ns) (kgraphsNs ns) ∧
      (∀ x ∈ knodesNs ns, (x.2.graph = o ∧ x.1 ∈ ns.map NodeT.id) ∨
        ∃ e ∈ kgraphsNs ns, x.2.graph = some e.1 ∧ x.1 ∈ e.2.nodes) ∧
      (∀ n ∈ ns, ∃ rec, (n.id, rec) ∈ knodesNs ns ∧ rec.graph = o)
  | _, [], _ => by
    refine ⟨fun _ he => by simp [kgraphsNs] at he, fun _ he => by simp [kgraphsNs] at he,
      fun _ hx => by simp [knodesNs] at hx, fun _ hn => by simp at hn⟩
  | o, n :: ns, h => by
    simp only [TreeOKNs] at h
    obtain ⟨i1, a1, b1, l1⟩ := treeOK_flatN st o n h.1
    obtain ⟨i2, a2, b2, l2⟩ := treeOK_flatNs st o ns h.2
    simp only [kgraphsNs, knodesNs]
    refine ⟨i1.append i2, a1.append a2, ?_, ?_⟩
    · intro x hx
      rcases List.mem_append.mp hx with hx | hx
      · rcases b1 x hx with ⟨hg, hm⟩ | ⟨e, he, h⟩
        · exact .inl ⟨hg, by simp [hm]⟩
        · exact .inr ⟨e, List.mem_append.mpr (.inl he), h⟩
      · rcases b2 x hx with ⟨hg, hm⟩ | ⟨e, he, h⟩
        · exact .inl ⟨hg, by simp [hm]⟩
        · exact .inr ⟨e, List.mem_append.mpr (.inr he), h⟩
    · intro m hm
      simp only [List.mem_cons] at hm
      rcases hm with rfl | hm
      · obtain ⟨rec, h1, h2⟩ := l1
        exact ⟨rec, List.mem_append.mpr (.inl h1), h2⟩
      · obtain ⟨rec, h1, h2⟩ := l2 m hm
        exact ⟨rec, List.mem_append.mpr (.inr h1), h2⟩
theorem treeOK_flatN (st : Store) :
    ∀ (o : Option Nat) (n : NodeT), TreeOKN st o n →
      PI st (kgraphsN n) ∧ PA (knodesN n) (kgraphsN n) ∧
      (∀ x ∈ knodesN n, (x.2.graph = o ∧ x.1 = n.id) ∨ ∃ e ∈ kgraphsN n, x.2.graph = some e.1 ∧ x.1 ∈ e.2.nodes) ∧
      (∃ rec, (n.id, rec) ∈ knodesN n ∧ rec.graph = o)
  | o, .mk i gr a b subs, h => by
    simp only [TreeOKN] at h
    obtain ⟨i1, a1, b1⟩ := treeOK_flatGs st subs h.2
    simp only [kgraphsN, knodesN, NodeT.id]
    refine ⟨i1, ?_, ?_, ⟨{ inputs := a, outputs := b, graph := gr }, by simp, h.1⟩⟩
    · intro e he n hn
      obtain ⟨rec, h1, h2⟩ := a1 e he n hn
      exact ⟨rec, List.mem_append.mpr (.inl h1), h2⟩
    · intro x hx
      rcases List.mem_append.mp hx with hx | hx
      · exact .inr (b1 x hx)
      · simp only [List.mem_singleton] at hx
        subst hx
        exact .inl ⟨h.1, rfl⟩
theorem treeOK_flatGs (st : Store) :
    ∀ (gs : List GraphT), TreeOKGs st gs →
      PI st (kgraphsGs gs) ∧ PA (knodesGs gs) (kgraphsGs gs) ∧ PB (knodesGs gs) (kgraphsGs gs)
  | [], _ => ⟨fun _ he => by simp [kgraphsGs] at he, fun _ he => by simp [kgraphsGs] at he,
      fun _ hx => by simp [knodesGs] at hx⟩
  | g :: gs, h => by
    simp only [TreeOKGs] at h
    obtain ⟨i1, a1, b1⟩ := treeOK_flatG st g h.1
    obtain ⟨i2, a2, b2⟩ := treeOK_flatGs st gs h.2
    simp only [kgraphsGs, knodesGs]
    exact ⟨i1.append i2, a1.append a2, b1.append b2⟩
end

/-- the node list of every graph is a sublist of the ids of all nodes -/
def PS (KN : List (Nat × Kernel.NodeS)) (KGs : List (Nat × KG)) : Prop :=
  ∀ e ∈ KGs, e.2.nodes.Sublist (KN.map (·.1))

theorem PS.append {KN KN' : List (Nat × Kernel.NodeS)} {A B : List (Nat × KG)} (ha : PS KN A) (hb : PS KN' B) :
    PS (KN ++ KN') (A ++ B) := fun e he => by
  rw [List.map_append]
  rcases List.mem_append.mp he with h | h
  · exact (ha e h).trans (List.sublist_append_left _ _)
  · exact (hb e h).trans (List.sublist_append_right _ _)

mutual
theorem sub_flatG : ∀ (g : GraphT), PS (knodesG g) (kgraphsG g)
  | .mk gid ins inits ns outs => by
    obtain ⟨h1, h2⟩ := sub_flatNs ns
    simp only [kgraphsG, knodesG]
    intro e he
    rcases List.mem_append.mp he with h | h
    · exact h1 e h
    · simp only [List.mem_singleton] at h
      subst h
      exact h2
theorem sub_flatNs : ∀ (ns : List NodeT),
    PS (knodesNs ns) (kgraphsNs ns) ∧ (ns.map NodeT.id).Sublist ((knodesNs ns).map (·.1))
  | [] => ⟨fun _ he => by simp [kgraphsNs] at he, by simp [knodesNs]⟩
  | n :: ns => by
    obtain ⟨h1, h2⟩ := sub_flatN n
    obtain ⟨h3, h4⟩ := sub_flatNs ns
    simp only [kgraphsNs, knodesNs]
    refine ⟨h1.append h3, ?_⟩
    rw [List.map_append, List.map_cons]
    have : (n.id :: ns.map NodeT.id) = [n.id] ++ ns.map NodeT.id := rfl
    rw [this]
    exact List.Sublist.append h2 h4
theorem sub_flatN : ∀ (n : NodeT), PS (knodesN n) (kgraphsN n) ∧ [n.id].Sublist ((knodesN n).map (·.1))
  | .mk i gr a b subs => by
    have h1 := sub_flatGs subs
    simp only [kgraphsN, knodesN, NodeT.id]
    refine ⟨fun e he => ?_, ?_⟩
    · rw [List.map_append]
      exact (h1 e he).trans (List.sublist_append_left _ _)
    · rw [List.map_append]
      exact List.sublist_append_right _ _
theorem sub_flatGs : ∀ (gs : List GraphT), PS (knodesGs gs) (kgraphsGs gs)
  | [] => fun _ he => by simp [kgraphsGs] at he
  | g :: gs => by
    simp only [kgraphsGs, knodesGs]
    exact (sub_flatG g).append (sub_flatGs gs)
end

/-! ### `Consistent` gives `Kernel.WF` -/

/-- the store is blank above its counters and the creation indices of the tree are below them
    (true of everything deserialization builds; `C17_consistent` is stated on `World` without it) -/
structure Bounded (w : World) : Prop where
  fresh : Fresh w.st
  node_lt : ∀ r ∈ recsG w.root, r.id < w.st.nn
  graph_lt : ∀ g ∈ grecsG w.root, g.id < w.st.ng

theorem lget_cnts (nv : Nat) (l : List Nat) (hl : ∀ v ∈ l, v < nv) (v : Nat) :
    Kernel.lget (cnts nv l) v = l.count v := by
  simp only [cnts, lget_range_map]
  split
  · rfl
  · rename_i h
    symm
    show List.count v l = 0
    rw [List.count_eq_zero]
    intro hm
    exact h (hl v hm)

/-- **C17_consistent_is_WF** (on the model's own terms; `Props/C17.lean` restates it): the 12 fields of
    `Consistent`, read through the embedding `toKernel`, give the six clauses `I_use`, `I_prod`, `I_root`,
    `I_own`, `I_key`, `I_node` of the kernel invariant `Kernel.WF` of C01.
    Correspondence: `use_of_input` + `input_of_use` + `uses_nodup` = `I_use`;
    `producer_of_output` + `output_of_producer` (+ `index_iff_producer`, which is stronger than the
    kernel's clause) = `I_prod`; `roots` (+ `owner_of_flag`) = `I_root`; `owned` + `owner_of_flag` = `I_own`
    (the reference counters are multiplicities by construction of the embedding); `tree` (initializer
    keyed by its non-empty name, distinct keys) = `I_key`; `tree` (`node.graph` = the listing graph) +
    `node_ids_distinct` = `I_node`. -/
theorem consistent_toKernel_WF (w : World)
    (use_of_input : ∀ r ∈ recsG w.root, ∀ i v, r.inputs[i]? = some (some v) → (r.id, i) ∈ (w.st.vals v).uses)
    (input_of_use : ∀ v n i, (n, i) ∈ (w.st.vals v).uses →
      ∃ r ∈ recsG w.root, r.id = n ∧ r.inputs[i]? = some (some v))
    (uses_nodup : ∀ v, (w.st.vals v).uses.Nodup)
    (producer_of_output : ∀ r ∈ recsG w.root, ∀ k v, r.outputs[k]? = some v →
      (w.st.vals v).producer = some r.id ∧ (w.st.vals v).index = some k)
    (output_of_producer : ∀ v n, (w.st.vals v).producer = some n →
      ∃ r ∈ recsG w.root, r.id = n ∧ ∃ k, (w.st.vals v).index = some k ∧ r.outputs[k]? = some v)
    (node_ids_distinct : ((recsG w.root).map (·.id)).Nodup)
    (graph_ids_distinct : ((grecsG w.root).map (·.id)).Nodup)
    (owned : ∀ g ∈ grecsG w.root,
      (∀ v ∈ g.inputs, (w.st.vals v).isIn = true ∧ (w.st.vals v).graph = some g.id) ∧
      (∀ v ∈ g.outputs, (w.st.vals v).isOut = true ∧ (w.st.vals v).graph = some g.id) ∧
      (∀ v ∈ g.inits, (w.st.vals v).isInit = true ∧ (w.st.vals v).graph = some g.id))
    (owner_of_flag : ∀ v,
      ((w.st.vals v).isIn = true → ∃ g ∈ grecsG w.root, (w.st.vals v).graph = some g.id ∧ v ∈ g.inputs) ∧
      ((w.st.vals v).isOut = true → ∃ g ∈ grecsG w.root, (w.st.vals v).graph = some g.id ∧ v ∈ g.outputs) ∧
      ((w.st.vals v).isInit = true → ∃ g ∈ grecsG w.root, (w.st.vals v).graph = some g.id ∧ v ∈ g.inits) ∧
      ((w.st.vals v).graph ≠ none →
        (w.st.vals v).isIn = true ∨ (w.st.vals v).isOut = true ∨ (w.st.vals v).isInit = true))
    (roots : ∀ g ∈ grecsG w.root,
      (∀ v ∈ g.inputs, (w.st.vals v).producer = none) ∧ (∀ v ∈ g.inits, (w.st.vals v).producer = none))
    (tree : TreeOKG w.st w.root) (hb : Bounded w) : Kernel.WF (toKernel w) := by
  obtain ⟨hf, hnlt, hglt⟩ := hb
  -- the flattened records
  have eN := recsG_knodes w.root
  have eG := grecsG_kgraphs w.root
  have hKNnd : ((knodesG w.root).map (·.1)).Nodup := by
    have : (recsG w.root).map (·.id) = (knodesG w.root).map (·.1) := by
      rw [eN, List.map_map]; rfl
    rw [← this]; exact node_ids_distinct
  have hKGnd : ((kgraphsG w.root).map (·.1)).Nodup := by
    have : (grecsG w.root).map (·.id) = (kgraphsG w.root).map (·.1) := by
      rw [eG, List.map_map]; rfl
    rw [← this]; exact graph_ids_distinct
  have hKNlt : ∀ e ∈ knodesG w.root, e.1 < w.st.nn := fun e he =>
    hnlt (toNRec e) (by rw [eN]; exact List.mem_map_of_mem he)
  have hKGlt : ∀ e ∈ kgraphsG w.root, e.1 < w.st.ng := fun e he =>
    hglt (toGRec e) (by rw [eG]; exact List.mem_map_of_mem he)
  have hval := val_toKernel w hf
  have hnode := node_toKernel w hKNlt
  have hgr := gr_toKernel w hKGlt
  have recMem : ∀ e, e ∈ knodesG w.root → toNRec e ∈ recsG w.root := fun e he => by
    rw [eN]; exact List.mem_map_of_mem he
  have grecMem : ∀ e, e ∈ kgraphsG w.root → toGRec e ∈ grecsG w.root := fun e he => by
    rw [eG]; exact List.mem_map_of_mem he
  have recInv : ∀ r ∈ recsG w.root, ∃ e ∈ knodesG w.root, toNRec e = r := fun r hr => by
    rw [eN] at hr; exact List.mem_map.mp hr
  have grecInv : ∀ g ∈ grecsG w.root, ∃ e ∈ kgraphsG w.root, toGRec e = g := fun g hg => by
    rw [eG] at hg; exact List.mem_map.mp hg
  -- a kernel node / graph is a record of the tree or blank
  have nodeOf : ∀ n rec, (n, rec) ∈ knodesG w.root → (toKernel w).node n = rec := fun n rec hm => by
    rw [hnode, (lookup_some_iff _ hKNnd n rec).mpr hm]; rfl
  have nodeCases : ∀ n, (toKernel w).node n = {} ∨ ∃ rec, (n, rec) ∈ knodesG w.root ∧ (toKernel w).node n = rec := by
    intro n
    cases hl : (knodesG w.root).lookup n with
    | none => left; rw [hnode, hl]; rfl
    | some rec =>
      right
      have hm := (lookup_some_iff _ hKNnd n rec).mp hl
      exact ⟨rec, hm, nodeOf n rec hm⟩
  have grOf : ∀ g r, (g, r) ∈ kgraphsG w.root → (toKernel w).gr g = kgraph w.st.nv r := fun g r hm => by
    rw [hgr, (lookup_some_iff _ hKGnd g r).mpr hm]
  have grCases : ∀ g, (toKernel w).gr g = {} ∨ ∃ r, (g, r) ∈ kgraphsG w.root ∧ (toKernel w).gr g = kgraph w.st.nv r := by
    intro g
    cases hl : (kgraphsG w.root).lookup g with
    | none => left; rw [hgr, hl]
    | some r =>
      right
      have hm := (lookup_some_iff _ hKGnd g r).mp hl
      exact ⟨r, hm, grOf g r hm⟩
  -- values listed by a graph of the tree are allocated
  have inLt : ∀ e ∈ kgraphsG w.root, (∀ v ∈ e.2.inputs, v < w.st.nv) ∧ (∀ v ∈ e.2.outputs, v < w.st.nv) := by
    intro e he
    have ho := owned (toGRec e) (grecMem e he)
    refine ⟨fun v hv => ?_, fun v hv => ?_⟩
    · have := (ho.1 v hv).1
      apply Nat.lt_of_not_le
      intro hle
      rw [hf v hle] at this
      simp at this
    · have := (ho.2.1 v hv).1
      apply Nat.lt_of_not_le
      intro hle
      rw [hf v hle] at this
      simp at this
  obtain ⟨pI, pA, pB⟩ := treeOK_flatG w.st w.root tree
  have pS := sub_flatG w.root
  refine ⟨⟨?_, ?_⟩, ⟨?_, ?_⟩, ?_, ⟨?_, ?_, ?_, ?_, ?_, ?_⟩, ⟨?_, ?_⟩, ⟨?_, ?_⟩⟩
  · -- I_use, both directions
    intro v n i
    rw [hval]
    constructor
    · intro h
      obtain ⟨r, hr, hid, hin⟩ := input_of_use v n i h
      obtain ⟨e, he, rfl⟩ := recInv r hr
      obtain ⟨m, rec⟩ := e
      simp only [toNRec] at hid hin
      subst hid
      rw [nodeOf m rec he]; exact hin
    · intro h
      rcases nodeCases n with hbl | ⟨rec, hm, hn⟩
      · rw [hbl] at h; simp at h
      · rw [hn] at h
        exact use_of_input (toNRec (n, rec)) (recMem _ hm) i v h
  · intro v; rw [hval]; exact uses_nodup v
  · -- I_prod
    intro n i v
    rw [hval]
    constructor
    · intro h
      rcases nodeCases n with hbl | ⟨rec, hm, hn⟩
      · rw [hbl] at h; simp at h
      · rw [hn] at h
        obtain ⟨h1, h2⟩ := producer_of_output (toNRec (n, rec)) (recMem _ hm) i v h
        simp only [toNRec] at h1
        simp [kval, h1, h2]
    · rintro ⟨h1, h2⟩
      simp only [kval] at h1 h2
      obtain ⟨r, hr, hid, k, hk, hout⟩ := output_of_producer v n h1
      obtain ⟨e, he, rfl⟩ := recInv r hr
      obtain ⟨m, rec⟩ := e
      simp only [toNRec] at hid hout
      subst hid
      rw [hk] at h2
      simp only [Option.map_some, Option.some.injEq, Int.ofNat_eq_natCast, Int.natCast_inj] at h2
      subst h2
      rw [nodeOf m rec he]; exact hout
  · intro v n h
    rw [hval] at h ⊢
    simp only [kval] at h
    obtain ⟨r, _, _, k, hk, _⟩ := output_of_producer v n h
    exact ⟨k, by simp [kval, hk]⟩
  · -- I_root
    intro v h
    rw [hval] at h ⊢
    simp only [kval] at h ⊢
    rcases h with h | h
    · obtain ⟨g, hg, _, hm⟩ := (owner_of_flag v).1 h
      exact (roots g hg).1 v hm
    · obtain ⟨g, hg, _, hm⟩ := (owner_of_flag v).2.2.1 h
      exact (roots g hg).2 v hm
  · -- I_own.cnt
    intro k g v
    rcases grCases g with hbl | ⟨r, hm, hg⟩
    · rw [hbl]; cases k <;> simp [Kernel.ioCnt, Kernel.ioList, Kernel.lget]
    · rw [hg]
      cases k
      · exact lget_cnts _ _ (inLt _ hm).1 v
      · exact lget_cnts _ _ (inLt _ hm).2 v
  · -- io_mem
    intro k g v hv
    rcases grCases g with hbl | ⟨r, hm, hg⟩
    · rw [hbl] at hv; cases k <;> simp [Kernel.ioList] at hv
    · rw [hg] at hv
      rw [hval]
      have ho := owned (toGRec (g, r)) (grecMem _ hm)
      cases k
      · exact ho.1 v hv
      · exact ho.2.1 v hv
  · -- io_flag
    intro k v h
    rw [hval] at h
    cases k
    · obtain ⟨g, hg, h1, h2⟩ := (owner_of_flag v).1 h
      obtain ⟨e, he, rfl⟩ := grecInv g hg
      obtain ⟨gid, r⟩ := e
      exact ⟨gid, by rw [hval]; exact h1, by rw [grOf gid r he]; exact h2⟩
    · obtain ⟨g, hg, h1, h2⟩ := (owner_of_flag v).2.1 h
      obtain ⟨e, he, rfl⟩ := grecInv g hg
      obtain ⟨gid, r⟩ := e
      exact ⟨gid, by rw [hval]; exact h1, by rw [grOf gid r he]; exact h2⟩
  · -- init_mem
    intro g key v hv
    rcases grCases g with hbl | ⟨r, hm, hg⟩
    · rw [hbl] at hv; simp at hv
    · rw [hg] at hv
      rw [hval]
      have ho := owned (toGRec (g, r)) (grecMem _ hm)
      exact ho.2.2 v (List.mem_map.mpr ⟨(key, v), hv, rfl⟩)
  · -- init_flag
    intro v h
    rw [hval] at h
    obtain ⟨g, hg, h1, h2⟩ := (owner_of_flag v).2.2.1 h
    obtain ⟨e, he, rfl⟩ := grecInv g hg
    obtain ⟨gid, r⟩ := e
    simp only [toGRec, List.mem_map] at h2
    obtain ⟨kv, hkv, rfl⟩ := h2
    exact ⟨gid, kv.1, by rw [hval]; exact h1, by rw [grOf gid r he]; exact hkv⟩
  · -- graph_owned
    intro v g h
    rw [hval] at h ⊢
    have := (owner_of_flag v).2.2.2 (by simp only [kval] at h; rw [h]; simp)
    simp only [Kernel.owned, kval, Bool.or_eq_true]
    rcases this with h | h | h
    · exact .inl (.inl h)
    · exact .inl (.inr h)
    · exact .inr h
  · -- I_key.name
    intro g key v hv
    rcases grCases g with hbl | ⟨r, hm, hg⟩
    · rw [hbl] at hv; simp at hv
    · rw [hg] at hv
      rw [hval]
      exact (pI _ hm).1 (key, v) hv
  · intro g
    rcases grCases g with hbl | ⟨r, hm, hg⟩
    · rw [hbl]; simp
    · rw [hg]; exact (pI _ hm).2
  · -- I_node.mem
    intro n g
    constructor
    · intro h
      rcases nodeCases n with hbl | ⟨rec, hm, hn⟩
      · rw [hbl] at h; simp at h
      · rw [hn] at h
        obtain ⟨e, he, h1, h2⟩ := pB _ hm
        simp only at h1 h2
        rw [h] at h1
        simp only [Option.some.injEq] at h1
        obtain ⟨gid, r⟩ := e
        simp only at h1 h2
        subst h1
        rw [grOf g r he]; exact h2
    · intro h
      rcases grCases g with hbl | ⟨r, hm, hg⟩
      · rw [hbl] at h; simp at h
      · rw [hg] at h
        obtain ⟨rec, h1, h2⟩ := pA _ hm n h
        rw [nodeOf n rec h1]; exact h2
  · intro g
    rcases grCases g with hbl | ⟨r, hm, hg⟩
    · rw [hbl]; simp
    · rw [hg]
      exact (pS _ hm).nodup hKNnd

end IrVerif.Scope

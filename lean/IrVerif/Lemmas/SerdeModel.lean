import IrVerif.Lemmas.SerdeClosed
/-! C02 stage B: functions and models. -/
namespace IrVerif.Serde
open IrVerif.Proto

/-! ### dicts keyed by a name: identity on distinct keys -/

theorem dictByKey_append {α : Type} (key : α → String) :
    ∀ (l acc : List α), ((acc ++ l).map key).Nodup → dictByKey key acc l = acc ++ l
  | [], acc, _ => by simp [dictByKey]
  | x :: xs, acc, h => by
    have hx : acc.any (fun y => key y = key x) = false := by
      rw [Bool.eq_false_iff]
      intro hc
      obtain ⟨y, hy, hk⟩ := List.any_eq_true.1 hc
      simp only [decide_eq_true_eq] at hk
      simp only [List.map_append, List.map_cons] at h
      rw [List.nodup_append] at h
      exact h.2.2 (key y) (List.mem_map_of_mem hy) (key x) (by simp) hk
    simp only [dictByKey, hx, Bool.false_eq_true, if_false]
    rw [dictByKey_append key xs (acc ++ [x]) (by simpa using h)]
    simp

theorem dictByKey_nodup {α : Type} (key : α → String) (l : List α) (h : (l.map key).Nodup) :
    dictByKey key [] l = l := by
  rw [dictByKey_append key l [] (by simpa using h)]; simp

/-! ### functions -/

theorem functionInputs_eq (vis : List ValueInfoP) (hvis : vis.all wfVI = true) (ins : List String) :
    functionInputs vis ins = .ok (ins.map (newValueT vis [])) := by
  induction ins with
  | nil => rfl
  | cons n ns ih => simp [functionInputs, newValue_eq vis [] n hvis, ih, bind, Except.bind]

theorem functionOutputs_eq (names : List String) :
    ∀ outs : List String, (∀ n ∈ outs, n ∈ names) →
      ∃ gouts, functionOutputs names outs = .ok gouts ∧
        (outIdxs gouts).map (fun i => refName [names] ⟨0, i⟩) = outs
  | [], _ => ⟨[], rfl, rfl⟩
  | n :: ns, h => by
    obtain ⟨gouts, h1, h2⟩ := functionOutputs_eq names ns (fun m hm => h m (List.mem_cons_of_mem _ hm))
    obtain ⟨i, hi⟩ := lookupLast_exists (h n (by simp))
    refine ⟨.tbl i :: gouts, by simp [functionOutputs, hi, h1, bind, Except.bind], ?_⟩
    simp only [outIdxs, List.map_cons, h2, List.cons.injEq, and_true]
    simp [refName, List.getD, lookupLast_getElem hi]

/-- the value-info a function value named `n` contributes -/
def fnVI (vis : List ValueInfoP) (n : String) : List ValueInfoP :=
  match findVI vis n with
  | some vi => if viHasInfo vi then [normValueInfo vi] else []
  | none => []

theorem normFnVIs_eq (vis : List ValueInfoP) (ns : List String) :
    normFnVIs vis ns = ns.flatMap (fnVI vis) := by
  induction ns with
  | nil => rfl
  | cons n ns ih => simp only [normFnVIs, List.flatMap_cons, ih, fnVI]; rfl

theorem newValueT_vi (vis : List ValueInfoP) (hvis : vis.all wfVI = true) (n : String) (hn : n ≠ "") :
    (if shouldCreateVI (newValueT vis [] n) then [serValue (newValueT vis [] n)] else []) = fnVI vis n := by
  have hsame : sameInfo (newValueT vis [] n)
      (match findVI vis n with
       | some vi => applyInfoT (IRValue.blank n) vi
       | none => IRValue.blank n) := sameInfo_applyQuant [] _
  rw [shouldCreateVI_congr hsame, serValue_congr hsame]
  unfold fnVI
  cases hfv : findVI vis n with
  | none => simp [shouldCreateVI, IRValue.blank]
  | some vi =>
    have hvi := findVI_mem hfv
    have hwf := List.all_eq_true.1 hvis vi hvi.1
    have e1 := serValue_applyInfoT_blank vi hwf
    have e2 := shouldCreateVI_applyInfoT_blank vi hwf
    rw [hvi.2] at e1 e2
    simp only [e1, e2]
    have : n.isEmpty = false := by simpa [String.isEmpty_iff] using hn
    simp [this]

theorem valuesVI_eq (tbl : List IRValue) (c : Bool) (is : List Nat) :
    valuesVI tbl c is = is.flatMap (fun i =>
      if shouldCreateVI (tbl.getD i (IRValue.blank "")) && c
      then [serValue (tbl.getD i (IRValue.blank ""))] else []) := by
  induction is with
  | nil => rfl
  | cons i is ih => simp only [valuesVI, List.flatMap_cons, ih]

theorem optNats_map (names : List String) (os : List String) (h : ∀ s ∈ os, s ≠ "" → s ∈ names) :
    (optNats (os.map (fun s => if s = "" then none else lookupLast names s))).map some
      = (os.filter (· ≠ "")).map (lookupLast names) := by
  induction os with
  | nil => rfl
  | cons s os ih =>
    have ih' := ih (fun t ht => h t (List.mem_cons_of_mem _ ht))
    by_cases hs : s = ""
    · subst hs; simpa [optNats] using ih'
    · obtain ⟨i, hi⟩ := lookupLast_exists (h s (by simp) hs)
      simp only [List.map_cons, hs, if_false, hi, optNats, List.filter_cons]
      simp [hs, hi, ih']

def notRef : AttrP → Bool
  | .ref .. => false
  | _ => true

theorem desAttr_hasValue (scopes : Scopes) (a : AttrP) (x : IRAttr) (h : desAttr scopes a = .ok x)
    (hw : wfAttr scopes a = true) (hr : notRef a = true) : x.hasValue = true := by
  cases a <;> simp only [desAttr, bind, Except.bind] at h
  all_goals first
    | (simp [notRef] at hr; done)
    | (simp [wfAttr] at hw; done)
    | (cases h; rfl)
    | (split at h <;> first | (cases h; rfl) | cases h)

theorem desAttrs_hasValue (scopes : Scopes) : ∀ (as : List AttrP) (xs : List IRAttr),
    desAttrs scopes as = .ok xs → wfAttrs scopes as = true → as.all notRef = true →
    xs.all IRAttr.hasValue = true
  | [], xs, h, _, _ => by simp [desAttrs] at h; subst h; rfl
  | a :: as, xs, h, hw, hr => by
    simp only [desAttrs, bind, Except.bind] at h
    simp only [wfAttrs, Bool.and_eq_true] at hw
    simp only [List.all_cons, Bool.and_eq_true] at hr
    split at h
    · cases h
    · rename_i x hx
      split at h
      · cases h
      · rename_i xs' hxs
        cases h
        simp only [List.all_cons, Bool.and_eq_true]
        exact ⟨desAttr_hasValue scopes a x hx hw.1 hr.1, desAttrs_hasValue scopes as xs' hxs hw.2 hr.2⟩

theorem filter_hasValue_append (as : List IRAttr) (ns : List String)
    (h : as.all IRAttr.hasValue = true) :
    (as ++ ns.map (fun n => IRAttr.undefined n "")).filter IRAttr.hasValue = as ∧
    ((as ++ ns.map (fun n => IRAttr.undefined n "")).filter (fun a => !a.hasValue)).map IRAttr.name = ns := by
  have h1 : as.filter IRAttr.hasValue = as := List.filter_eq_self.2 (List.all_eq_true.1 h)
  have h2 : as.filter (fun a => !a.hasValue) = [] := by
    rw [List.filter_eq_nil_iff]
    intro a ha
    simp [List.all_eq_true.1 h a ha]
  have h3 : (ns.map (fun n => IRAttr.undefined n "")).filter IRAttr.hasValue = [] := by
    rw [List.filter_eq_nil_iff]
    intro a ha
    obtain ⟨n, _, rfl⟩ := List.mem_map.1 ha
    simp [IRAttr.hasValue]
  have h4 : (ns.map (fun n => IRAttr.undefined n "")).filter (fun a => !a.hasValue)
      = ns.map (fun n => IRAttr.undefined n "") := by
    rw [List.filter_eq_self]
    intro a ha
    obtain ⟨n, _, rfl⟩ := List.mem_map.1 ha
    simp [IRAttr.hasValue]
  refine ⟨by rw [List.filter_append, h1, h3]; simp, ?_⟩
  rw [List.filter_append, h2, h4]
  simp [List.map_map, Function.comp_def, IRAttr.name]

theorem nodup_append_comm' {α : Type} {a b : List α} (h : (a ++ b).Nodup) : (b ++ a).Nodup := by
  rw [List.nodup_append] at h ⊢
  exact ⟨h.2.1, h.1, fun x hx y hy e => h.2.2 y hy x hx e.symm⟩

/-- value-info of function values, driven by indices into the function's table -/
theorem fn_valuesVI_inputs (vis : List ValueInfoP) (hvis : vis.all wfVI = true) (c : Bool)
    (ins outs : List String) (hne : ∀ n ∈ ins, n ≠ "") :
    valuesVI (ins.map (newValueT vis []) ++ outs.map (newValueT vis [])) c (List.range ins.length)
      = if c = true then ins.flatMap (fnVI vis) else [] := by
  rw [valuesVI_eq]
  have h1 : ∀ (l : List IRValue) (n : Nat) (g : IRValue → List ValueInfoP), n ≤ l.length →
      (List.range n).flatMap (fun i => g (l.getD i (IRValue.blank ""))) = (l.take n).flatMap g := by
    intro l n g hn
    have := map_range_getD l (IRValue.blank "") g n hn
    rw [List.flatMap_def, this, ← List.flatMap_def]
  rw [h1 _ _ (fun v => if shouldCreateVI v && c then [serValue v] else []) (by simp)]
  rw [List.take_left' (by simp), List.flatMap_map]
  cases c with
  | false => simp
  | true =>
    simp only [Bool.and_true, if_true]
    apply flatMap_congr'
    intro n hn
    exact newValueT_vi vis hvis n (hne n hn)

theorem fn_valuesVI_outs (vis : List ValueInfoP) (hvis : vis.all wfVI = true) (c : Bool)
    (ins outs : List String) (hnd : (ins ++ outs).Nodup) (hne : ∀ n ∈ outs, n ≠ "") :
    ∀ os : List String, (∀ s ∈ os, s ≠ "" → s ∈ outs) →
      valuesVI (ins.map (newValueT vis []) ++ outs.map (newValueT vis [])) c
        (optNats (os.map (fun s => if s = "" then none else lookupLast (ins ++ outs) s)))
      = if c = true then (os.filter (· ≠ "")).flatMap (fnVI vis) else []
  | [], _ => by simp [optNats, valuesVI]
  | s :: os, hsub => by
    have ih := fn_valuesVI_outs vis hvis c ins outs hnd hne os
      (fun t ht => hsub t (List.mem_cons_of_mem _ ht))
    by_cases hs : s = ""
    · subst hs
      simpa [optNats] using ih
    · have hso : s ∈ outs := hsub s (by simp) hs
      obtain ⟨j, hj⟩ := lookupLast_exists (List.mem_append_right ins hso)
      have hN : tableNames (ins.map (newValueT vis []) ++ outs.map (newValueT vis [])) = ins ++ outs := by
        simp [tableNames, List.map_map, Function.comp_def]
      have hv : (ins.map (newValueT vis []) ++ outs.map (newValueT vis [])).getD j (IRValue.blank "")
          = newValueT vis [] s :=
        getD_of_lookup (by rw [hN]; exact hnd) (by rw [hN]; exact hj)
          (List.mem_append_right _ (List.mem_map_of_mem hso)) (by simp)
      have hf : (s :: os).filter (· ≠ "") = s :: os.filter (· ≠ "") := by simp [hs]
      simp only [List.map_cons, hs, if_false, hj, optNats, valuesVI, hv, ih, hf, List.flatMap_cons]
      cases c with
      | false => simp
      | true =>
        simp only [Bool.and_true, if_true]
        rw [newValueT_vi vis hvis s hs]

/-- the deserialized function, with its value table as a parameter -/
def fnIR (f : FunctionP) (tbl : List IRValue) (xs : List IRNode) (gouts : List IRGOut)
    (as : List IRAttr) : IRFunction :=
  IRFunction.mk f.domain f.name f.overload
    (.mk tbl (List.range f.inputs.length) [] xs gouts
      (if f.overload.isEmpty then "" else f.name ++ "_" ++ f.domain ++ "__" ++ f.overload) f.doc
      (opsetDict f.opsetImport) (dictOfEntries f.metadata))
    (as ++ f.attrNames.map fun n => IRAttr.undefined n "")

theorem valuesVI_false (tbl : List IRValue) (is : List Nat) : valuesVI tbl false is = [] := by
  induction is with
  | nil => rfl
  | cons i is ih => simp [valuesVI, ih]

/-- what `function_rt` exposes about the deserialized function besides the round trip: its shape,
the output indices of its nodes, and that serialization without value_info (IR < 10) only depends on
the names in the table -/
def FnShapeG (over : Option Int) (f : FunctionP) (x : IRFunction) : Prop :=
  ∃ xs gouts as,
    x = fnIR f (f.inputs.map (newValueT f.valueInfo []) ++ (nodeOutNames f.nodes).map (newValueT f.valueInfo []))
      xs gouts as ∧
    xs.flatMap IRNode.outputs = (f.nodes.flatMap NodeP.outputs).map
      (fun s => if s = "" then none else lookupLast (f.inputs ++ nodeOutNames f.nodes) s) ∧
    ∀ tbl', tableNames tbl' = f.inputs ++ nodeOutNames f.nodes →
      serFunction over false (fnIR f tbl' xs gouts as) = .ok (normFunction false f)

def FnShape (ver : Int) (f : FunctionP) (x : IRFunction) : Prop := FnShapeG (some ver) f x

/-- `over` is the `model_ir_version` the serializer is given (`none` when a function is serialized on
its own), `ver` the version that decides whether value_info is written -/
theorem function_rt_gen (over : Option Int) (ver : Int) (f : FunctionP) (h : wfFunction ver f = true)
    (hver : verAllows over = true ∨ nodesHaveDevCfg f.nodes = false) :
    ∃ x, desFunction f = .ok x ∧
      serFunction over (decide (ver ≥ 10)) x = .ok (normFunction (decide (ver ≥ 10)) f) ∧
      fnKey x = (f.domain, f.name, f.overload) ∧ FnShapeG over f x := by
  simp only [wfFunction, Bool.and_eq_true] at h
  obtain ⟨⟨⟨⟨⟨⟨⟨⟨⟨⟨⟨⟨h1, h2⟩, h3⟩, h4⟩, h5⟩, h6⟩, h7⟩, h8⟩, _h9⟩, h10⟩, _h11⟩, h12⟩, _h13⟩ := h
  have hnd := nodupStr_iff.1 h1
  rw [List.nodup_append] at hnd
  obtain ⟨_hndI, hndO, hdis⟩ := hnd
  -- deserialization
  have hI := functionInputs_eq f.valueInfo h7 f.inputs
  have hNI : tableNames (f.inputs.map (newValueT f.valueInfo [])) = f.inputs := by
    simp [tableNames, List.map_map, Function.comp_def]
  have hC := declareAll_spec f.valueInfo [] h7 f.nodes (f.inputs.map (newValueT f.valueInfo []))
    (by intro n hn hm; rw [hNI] at hm; exact hdis n hm n hn rfl) hndO
  have hN : tableNames (f.inputs.map (newValueT f.valueInfo [])
      ++ (nodeOutNames f.nodes).map (newValueT f.valueInfo [])) = f.inputs ++ nodeOutNames f.nodes := by
    simp [tableNames, List.map_map, Function.comp_def]
  obtain ⟨xs, n1, n2, n3⟩ := nodes_rt [] f.valueInfo [] over f.nodes
    (f.inputs.map (newValueT f.valueInfo []) ++ (nodeOutNames f.nodes).map (newValueT f.valueInfo []))
    (by rw [hN]; exact h12) hver
  rw [hN] at n2 n3
  obtain ⟨gouts, o1, o2⟩ := functionOutputs_eq (f.inputs ++ nodeOutNames f.nodes) f.outputs
    (by intro n hn; have := List.all_eq_true.1 h3 n hn; simpa using this)
  obtain ⟨as, a1, a2, a3⟩ := attrs_rt [] none f.attrProtos h5 (Or.inl rfl)
  have hasv := desAttrs_hasValue [] f.attrProtos as a1 h5
    (by rw [List.all_eq_true]; intro a ha
        have := List.all_eq_true.1 h6 a ha
        cases a <;> simp_all [notRef])
  have hdict : attrDict (as ++ f.attrNames.map fun n => IRAttr.undefined n "")
      = as ++ f.attrNames.map fun n => IRAttr.undefined n "" := by
    apply dictByKey_nodup
    have hn4 := nodupStr_iff.1 h4
    simp only [List.map_append, List.map_map, a3]
    have : (f.attrNames.map ((IRAttr.name) ∘ fun n => IRAttr.undefined n "")) = f.attrNames := by
      simp [Function.comp_def, IRAttr.name]
    rw [this]
    exact nodup_append_comm' hn4
  obtain ⟨fa1, fa2⟩ := filter_hasValue_append as f.attrNames hasv
  have hlen : f.inputs.length ≤ (f.inputs ++ nodeOutNames f.nodes).length := by simp
  have hins : (List.range f.inputs.length).map
      (fun i => refName [f.inputs ++ nodeOutNames f.nodes] ⟨0, i⟩) = f.inputs := by
    have := map_range_getD (f.inputs ++ nodeOutNames f.nodes) "" id f.inputs.length hlen
    simpa [refName] using this
  have hopset : opsetDict f.opsetImport = f.opsetImport :=
    dictByKey_nodup _ _ (nodupStr_iff.1 h10)
  -- serialization, for any table with the right names
  have hser : ∀ (tbl' : List IRValue) (c : Bool), tableNames tbl' = f.inputs ++ nodeOutNames f.nodes →
      serFunction over c (fnIR f tbl' xs gouts as) = .ok
        { normFunction c f with
          valueInfo := valuesVI tbl' c (List.range f.inputs.length)
            ++ valuesVI tbl' c (optNats (xs.flatMap IRNode.outputs)) } := by
    intro tbl' c htn
    simp only [serFunction, fnIR, IRGraph.table, IRGraph.nodes, IRGraph.inputs, IRGraph.outputs,
      IRGraph.doc, IRGraph.opsets, IRGraph.mprops, htn, serFunctionAttrs, fa1, fa2, a2, n2, hins, o2,
      hopset, bind, Except.bind, normFunction, normEntries]
  refine ⟨fnIR f (f.inputs.map (newValueT f.valueInfo [])
      ++ (nodeOutNames f.nodes).map (newValueT f.valueInfo [])) xs gouts as, ?_, ?_, rfl,
    ⟨xs, gouts, as, rfl, n3, ?_⟩⟩
  · simp only [desFunction, fnIR, hI, hC, n1, hN, o1, a1, hdict, bind, Except.bind]
  · -- value info
    have hvi1 : valuesVI (f.inputs.map (newValueT f.valueInfo [])
          ++ (nodeOutNames f.nodes).map (newValueT f.valueInfo [])) (decide (ver ≥ 10))
          (List.range f.inputs.length)
        = if decide (ver ≥ 10) = true then f.inputs.flatMap (fnVI f.valueInfo) else [] := by
      exact fn_valuesVI_inputs f.valueInfo h7 _ f.inputs (nodeOutNames f.nodes)
        (fun n hn => nodupStr_all_nonempty h2 n (List.mem_append_left _ hn))
    have hvi2 : valuesVI (f.inputs.map (newValueT f.valueInfo [])
          ++ (nodeOutNames f.nodes).map (newValueT f.valueInfo [])) (decide (ver ≥ 10))
          (optNats (xs.flatMap IRNode.outputs))
        = if decide (ver ≥ 10) = true then (nodeOutNames f.nodes).flatMap (fnVI f.valueInfo) else [] := by
      rw [n3]
      exact fn_valuesVI_outs f.valueInfo h7 _ f.inputs (nodeOutNames f.nodes) (nodupStr_iff.1 h1)
        (fun n hn => nodupStr_all_nonempty h2 n (List.mem_append_right _ hn))
        (f.nodes.flatMap NodeP.outputs)
        (by intro s hs hne'
            simp only [nodeOutNames, List.mem_filter]
            exact ⟨hs, by simpa using hne'⟩)
    rw [hser _ _ hN, hvi1, hvi2]
    simp only [normFunction, normFnVIs_eq, List.flatMap_append]
    by_cases hc : ver ≥ 10 <;> simp [hc]
  · intro tbl' htn
    rw [hser tbl' false htn, valuesVI_false, valuesVI_false]
    simp [normFunction]

theorem function_rt (ver : Int) (f : FunctionP) (h : wfFunction ver f = true)
    (hver : 11 ≤ ver ∨ nodesHaveDevCfg f.nodes = false) :
    ∃ x, desFunction f = .ok x ∧
      serFunction (some ver) (decide (ver ≥ 10)) x = .ok (normFunction (decide (ver ≥ 10)) f) ∧
      fnKey x = (f.domain, f.name, f.overload) ∧ FnShape ver f x :=
  function_rt_gen (some ver) ver f h (by
    rcases hver with hv | hv
    · exact Or.inl (by simp [verAllows, hv])
    · exact Or.inr hv)

/-! ### models -/

theorem nodupKeys_iff {l : List (String × String × String)} : nodupKeys l = true ↔ l.Nodup := by
  induction l with
  | nil => simp [nodupKeys]
  | cons x xs ih => simp [nodupKeys, ih, List.nodup_cons]

theorem functionDict_append : ∀ (l acc : List IRFunction), ((acc ++ l).map fnKey).Nodup →
    functionDict acc l = acc ++ l
  | [], acc, _ => by simp [functionDict]
  | x :: xs, acc, h => by
    have hx : acc.any (fun g => fnKey g = fnKey x) = false := by
      rw [Bool.eq_false_iff]
      intro hc
      obtain ⟨y, hy, hk⟩ := List.any_eq_true.1 hc
      simp only [decide_eq_true_eq] at hk
      simp only [List.map_append, List.map_cons] at h
      rw [List.nodup_append] at h
      exact h.2.2 (fnKey y) (List.mem_map_of_mem hy) (fnKey x) (by simp) hk
    simp only [functionDict, hx, Bool.false_eq_true, if_false]
    rw [functionDict_append xs (acc ++ [x]) (by simpa using h)]
    simp

/-- pointwise relation between two lists -/
inductive Pointwise {α β : Type} (R : α → β → Prop) : List α → List β → Prop where
  | nil : Pointwise R [] []
  | cons {a b as bs} : R a b → Pointwise R as bs → Pointwise R (a :: as) (b :: bs)

theorem functions_rt (ver : Int) : ∀ fs : List FunctionP, fs.all (wfFunction ver) = true →
    (11 ≤ ver ∨ fs.all (fun f => !nodesHaveDevCfg f.nodes) = true) →
    ∃ xs, desFunctions fs = .ok xs ∧
      serFunctions ver xs = .ok (fs.map (normFunction (decide (ver ≥ 10)))) ∧
      xs.map fnKey = fs.map (fun f => (f.domain, f.name, f.overload)) ∧
      Pointwise (FnShape ver) fs xs
  | [], _, _ => ⟨[], rfl, rfl, rfl, Pointwise.nil⟩
  | f :: fs, h, hver => by
    simp only [List.all_cons, Bool.and_eq_true] at h
    have hv1 : 11 ≤ ver ∨ nodesHaveDevCfg f.nodes = false := by
      rcases hver with hv | hv
      · exact Or.inl hv
      · simp only [List.all_cons, Bool.and_eq_true, Bool.not_eq_true'] at hv; exact Or.inr hv.1
    have hv2 : 11 ≤ ver ∨ fs.all (fun f => !nodesHaveDevCfg f.nodes) = true := by
      rcases hver with hv | hv
      · exact Or.inl hv
      · simp only [List.all_cons, Bool.and_eq_true] at hv; exact Or.inr hv.2
    obtain ⟨x, g1, g2, g3, g4⟩ := function_rt ver f h.1 hv1
    obtain ⟨xs, r1, r2, r3, r4⟩ := functions_rt ver fs h.2 hv2
    exact ⟨x :: xs, by simp [desFunctions, g1, r1, bind, Except.bind],
      by simp [serFunctions, g2, r2, bind, Except.bind], by simp [g3, r3], Pointwise.cons g4 r4⟩

/-! ### the experimental `domain::name/value` encoding (IR < 10) -/

theorem partitionChars_spec (sep : List Char) : ∀ (l a b : List Char),
    partitionChars sep l = some (a, b) → l = a ++ sep ++ b
  | [], a, b, h => by
    simp only [partitionChars] at h
    split at h
    · rename_i hs
      cases h
      simp [List.isEmpty_iff.1 hs]
    · cases h
  | c :: cs, a, b, h => by
    simp only [partitionChars] at h
    split at h
    · rename_i hp
      cases h
      have := List.isPrefixOf_iff_prefix.1 hp
      obtain ⟨t, ht⟩ := this
      rw [← ht]
      simp
    · cases hr : partitionChars sep cs with
      | none => rw [hr] at h; cases h
      | some ab =>
        rw [hr] at h
        simp only [Option.map_some, Option.some.injEq, Prod.mk.injEq] at h
        obtain ⟨rfl, rfl⟩ := h
        have := partitionChars_spec sep cs ab.1 ab.2 (by rw [hr])
        rw [this]; simp

theorem partitionStr_spec {sep s a b : String} (h : partitionStr sep s = some (a, b)) :
    s = a ++ sep ++ b := by
  unfold partitionStr at h
  cases hr : partitionChars sep.toList s.toList with
  | none => rw [hr] at h; cases h
  | some ab =>
    rw [hr] at h
    simp only [Option.map_some, Option.some.injEq, Prod.mk.injEq] at h
    obtain ⟨rfl, rfl⟩ := h
    have := partitionChars_spec _ _ _ _ (by rw [hr])
    apply String.toList_injective
    simp [String.toList_append, String.toList_ofList, this]

/-- a name that parses is exactly the formatted name of what it parses to -/
theorem parseExperimentalName_spec {x d n vn : String}
    (h : parseExperimentalName x = some (d, n, vn)) : x = experimentalName d n vn := by
  unfold parseExperimentalName at h
  cases h1 : partitionStr "::" x with
  | none => rw [h1] at h; cases h
  | some dr =>
    obtain ⟨d', rest⟩ := dr
    rw [h1] at h
    simp only at h
    cases h2 : partitionStr "/" rest with
    | none => rw [h2] at h; cases h
    | some nv =>
      obtain ⟨n', vn'⟩ := nv
      rw [h2] at h
      simp only [Option.some.injEq, Prod.mk.injEq] at h
      obtain ⟨rfl, rfl, rfl⟩ := h
      rw [partitionStr_spec h1, partitionStr_spec h2]
      apply String.toList_injective
      simp [experimentalName, String.toList_append, List.append_assoc]

theorem experimentalName_ne_empty (d n vn : String) : (experimentalName d n vn).isEmpty = false := by
  rw [Bool.eq_false_iff]
  intro h
  have : experimentalName d n vn = "" := by simpa [String.isEmpty_iff] using h
  have := congrArg String.toList this
  simp [experimentalName, String.toList_append] at this

/-- the info the experimental entries `m` (keyed by value name) give to a function value -/
def expUpd (m : List (String × ValueInfoP)) (v : IRValue) : IRValue :=
  match findLast? (fun e => e.1 = v.name) m with
  | some e => applyInfoT v e.2
  | none => v

@[simp] theorem expUpd_name (m : List (String × ValueInfoP)) (v : IRValue) : (expUpd m v).name = v.name := by
  unfold expUpd; split <;> rfl

theorem getD_name (tbl : List IRValue) (i : Nat) (h : i < tbl.length) :
    (tbl.getD i (IRValue.blank "")).name = (tableNames tbl).getD i "" := by
  simp [List.getD, tableNames, List.getElem?_eq_getElem h]

theorem ite_mem_cons_ne {α : Type} {x n : String} (L : List String) (a b : α) (h : x ≠ n) :
    (if x ∈ n :: L then a else b) = (if x ∈ L then a else b) := by
  by_cases hL : x ∈ L
  · rw [if_pos hL, if_pos (List.mem_cons_of_mem _ hL)]
  · rw [if_neg hL, if_neg (by intro hm; rcases List.mem_cons.1 hm with e | e; exact h e; exact hL e)]

theorem ite_mem_cons_self {α : Type} (n : String) (L : List String) (a b : α) :
    (if n ∈ n :: L then a else b) = a := by
  rw [if_pos (List.mem_cons_self ..)]

/-- names of the table entries at the indices `is` -/
def namesAt (N : List String) (is : List Nat) : List String := is.map (fun i => N.getD i "")

theorem namesAt_cons (N : List String) (i : Nat) (is : List Nat) :
    namesAt N (i :: is) = N.getD i "" :: namesAt N is := rfl

theorem applyExperimental_spec (m : List (String × ValueInfoP))
    (hm : ∀ e ∈ m, wfType e.2.type = true) :
    ∀ (is : List Nat) (tbl : List IRValue), (tableNames tbl).Nodup → (∀ i ∈ is, i < tbl.length) →
      (namesAt (tableNames tbl) is).Nodup →
      applyExperimental m is tbl = .ok (tbl.map (fun v =>
        if v.name ∈ namesAt (tableNames tbl) is then expUpd m v else v))
  | [], tbl, _, _, _ => by simp [applyExperimental, namesAt]
  | i :: is, tbl, hnd, hlt, hnn => by
    have hi : i < tbl.length := hlt i (by simp)
    rw [namesAt_cons, List.nodup_cons] at hnn
    have hname := getD_name tbl i hi
    have hNi : (tableNames tbl)[i]? = some ((tableNames tbl).getD i "") := by
      have : i < (tableNames tbl).length := by simpa [tableNames] using hi
      simp [List.getD, List.getElem?_eq_getElem this]
    have hlk := lookupLast_of_nodup hnd hNi
    rw [namesAt_cons]
    cases hf : findLast? (fun e => e.1 = (tbl.getD i (IRValue.blank "")).name) m with
    | none =>
      simp only [applyExperimental, hf]
      rw [applyExperimental_spec m hm is tbl hnd (fun k hk => hlt k (List.mem_cons_of_mem _ hk)) hnn.2]
      congr 1
      apply List.map_congr_left
      intro u _
      by_cases hu : u.name = (tableNames tbl).getD i ""
      · have : expUpd m u = u := by
          unfold expUpd
          rw [hu, ← hname, hf]
        rw [hu, ite_mem_cons_self, ← hu, this]
        split <;> rfl
      · rw [ite_mem_cons_ne _ _ _ hu]
    | some e =>
      have hwf := hm e (findLast?_mem hf).1
      have hupd := listSet_eq_updName hnd (by rw [← hname] at hlk; exact hlk) (fun v => applyInfoT v e.2)
      have hN1 : tableNames (updName tbl (tbl.getD i (IRValue.blank "")).name (fun v => applyInfoT v e.2))
          = tableNames tbl := tableNames_updName _ _ _ (fun _ => rfl)
      simp only [applyExperimental, hf, (applyInfo_eq _ e.2 hwf).1, bind, Except.bind, hupd]
      rw [applyExperimental_spec m hm is _ (by rw [hN1]; exact hnd)
        (fun k hk => by simpa [updName] using hlt k (List.mem_cons_of_mem _ hk)) (by rw [hN1]; exact hnn.2),
        hN1]
      congr 1
      simp only [updName, List.map_map]
      apply List.map_congr_left
      intro u _
      simp only [Function.comp]
      by_cases hu : u.name = (tbl.getD i (IRValue.blank "")).name
      · have h1 : expUpd m u = applyInfoT u e.2 := by
          unfold expUpd; rw [hu, hf]
        have h2 : (applyInfoT u e.2).name ∉ namesAt (tableNames tbl) is := by
          rw [applyInfoT_name, hu, hname]; exact hnn.1
        rw [if_pos hu, if_neg h2]
        have hu2 : u.name = (tableNames tbl).getD i "" := by rw [hu, hname]
        rw [hu2, ite_mem_cons_self]
        exact h1.symm
      · have hu' : ¬ u.name = (tableNames tbl).getD i "" := by rw [← hname]; exact hu
        rw [if_neg hu, ite_mem_cons_ne _ _ _ hu']

/-! index-driven loops over a function's table, as loops over its value names -/

theorem flatMap_range_getD {β : Type} (l : List IRValue) (n : Nat) (g : IRValue → List β)
    (hn : n ≤ l.length) :
    (List.range n).flatMap (fun i => g (l.getD i (IRValue.blank ""))) = (l.take n).flatMap g := by
  have := map_range_getD l (IRValue.blank "") g n hn
  rw [List.flatMap_def, this, ← List.flatMap_def]

theorem flatMap_outs_getD {β : Type} (F : String → IRValue) (hF : ∀ n, (F n).name = n)
    (ins outs : List String) (hnd : (ins ++ outs).Nodup) (g : IRValue → List β) :
    ∀ os : List String, (∀ s ∈ os, s ≠ "" → s ∈ outs) →
      (optNats (os.map (fun s => if s = "" then none else lookupLast (ins ++ outs) s))).flatMap
          (fun i => g (((ins ++ outs).map F).getD i (IRValue.blank "")))
        = (os.filter (· ≠ "")).flatMap (fun n => g (F n))
  | [], _ => rfl
  | s :: os, hsub => by
    have ih := flatMap_outs_getD F hF ins outs hnd g os (fun t ht => hsub t (List.mem_cons_of_mem _ ht))
    by_cases hs : s = ""
    · subst hs; simpa [optNats] using ih
    · have hso : s ∈ outs := hsub s (by simp) hs
      obtain ⟨j, hj⟩ := lookupLast_exists (List.mem_append_right ins hso)
      have hN : tableNames ((ins ++ outs).map F) = ins ++ outs := by
        simp [tableNames, List.map_map, Function.comp_def, hF]
      have hv : ((ins ++ outs).map F).getD j (IRValue.blank "") = F s :=
        getD_of_lookup (by rw [hN]; exact hnd) (by rw [hN]; exact hj)
          (List.mem_map_of_mem (List.mem_append_right _ hso)) (hF s)
      have hf : (s :: os).filter (· ≠ "") = s :: os.filter (· ≠ "") := by simp [hs]
      simp only [List.map_cons, hs, if_false, hj, optNats, List.flatMap_cons, hv, ih, hf]

theorem namesAt_range (N : List String) (n : Nat) (hn : n ≤ N.length) :
    namesAt N (List.range n) = N.take n := by
  have := map_range_getD N "" id n hn
  simpa [namesAt] using this

theorem namesAt_outs (N : List String) : ∀ os : List String, (∀ s ∈ os, s ≠ "" → s ∈ N) →
    namesAt N (optNats (os.map (fun s => if s = "" then none else lookupLast N s)))
      = os.filter (· ≠ "") ∧
    ∀ i ∈ optNats (os.map (fun s => if s = "" then none else lookupLast N s)), i < N.length
  | [], _ => ⟨rfl, by intro i hi; cases hi⟩
  | s :: os, hsub => by
    obtain ⟨ih1, ih2⟩ := namesAt_outs N os (fun t ht => hsub t (List.mem_cons_of_mem _ ht))
    by_cases hs : s = ""
    · subst hs
      have hf : (("" : String) :: os).filter (· ≠ "") = os.filter (· ≠ "") := by simp
      simp only [List.map_cons, if_true, optNats, hf]
      exact ⟨ih1, ih2⟩
    · obtain ⟨j, hj⟩ := lookupLast_exists (hsub s (by simp) hs)
      have hf : (s :: os).filter (· ≠ "") = s :: os.filter (· ≠ "") := by simp [hs]
      simp only [List.map_cons, hs, if_false, hj, optNats, namesAt_cons, ih1, hf]
      refine ⟨by simp [List.getD, lookupLast_getElem hj], ?_⟩
      intro i hi
      rcases List.mem_cons.1 hi with rfl | hi
      · exact lookupLast_lt hj
      · exact ih2 i hi

theorem findLast?_experimentalFor (V : List ValueInfoP) (d nm vn : String) :
    findLast? (fun e => e.1 = vn) (experimentalFor V d nm)
      = (findLast? (fun e => parseExperimentalName e.name = some (d, nm, vn)) V).map (fun e => (vn, e)) := by
  induction V with
  | nil => rfl
  | cons v V ih =>
    cases hp : parseExperimentalName v.name with
    | none =>
      have hcons : experimentalFor (v :: V) d nm = experimentalFor V d nm := by
        simp [experimentalFor, List.filterMap_cons, hp]
      rw [hcons, ih]
      simp only [findLast?, hp]
      cases findLast? (fun e => parseExperimentalName e.name = some (d, nm, vn)) V <;> simp
    | some x =>
      obtain ⟨d', n', vn'⟩ := x
      by_cases hc : d' = d ∧ n' = nm
      · obtain ⟨rfl, rfl⟩ := hc
        have hcons : experimentalFor (v :: V) d' n' = (vn', v) :: experimentalFor V d' n' := by
          simp [experimentalFor, List.filterMap_cons, hp]
        rw [hcons]
        simp only [findLast?, ih, hp]
        cases findLast? (fun e => parseExperimentalName e.name = some (d', n', vn)) V with
        | some y => rfl
        | none =>
          by_cases hv : vn' = vn
          · subst hv; simp
          · simp [hv]
      · have hcons : experimentalFor (v :: V) d nm = experimentalFor V d nm := by
          simp [experimentalFor, List.filterMap_cons, hp, hc]
        have : ¬ (d', n', vn') = (d, nm, vn) := by
          intro e; simp only [Prod.mk.injEq] at e; exact hc ⟨e.1, e.2.1⟩
        rw [hcons, ih]
        simp only [findLast?, hp, Option.some.injEq, this, decide_false]
        cases findLast? (fun e => parseExperimentalName e.name = some (d, nm, vn)) V <;> simp

theorem applyQuant_nil (v : IRValue) : applyQuant [] v = v := by
  simp [applyQuant, findAnnot, findLast?]

theorem newValueT_nil (n : String) : newValueT [] [] n = IRValue.blank n := by
  simp [newValueT, findVI, findLast?, applyQuant_nil]

/-- what the serializer writes for the function value `n` after the experimental entries were applied -/
theorem exp_value (V : List ValueInfoP) (hV : V.all wfVI = true) (f : FunctionP) (n : String)
    (hn : n ≠ "") :
    expEmit f.domain f.name (expUpd (experimentalFor V f.domain f.name) (IRValue.blank n))
    = (expEntry V f n).toList := by
  have hne : n.isEmpty = false := by simpa [String.isEmpty_iff] using hn
  simp only [expEmit, expUpd_name]
  have hb : (IRValue.blank n).name = n := rfl
  rw [hb, hne]
  simp only [Bool.false_eq_true, if_false]
  unfold expUpd expEntry
  rw [hb, findLast?_experimentalFor]
  cases hf : findLast? (fun e => parseExperimentalName e.name = some (f.domain, f.name, n)) V with
  | none => simp [shouldCreateVI, IRValue.blank]
  | some e =>
    obtain ⟨hmem, hp⟩ := findLast?_mem hf
    have hp' : parseExperimentalName e.name = some (f.domain, f.name, n) := by simpa using hp
    have hname := parseExperimentalName_spec hp'
    have hwf := List.all_eq_true.1 hV e hmem
    have hwt : wfType e.type = true := by
      simp only [wfVI, Bool.and_eq_true] at hwf; exact hwf.1
    obtain ⟨_, h3, h4⟩ := applyInfo_eq (IRValue.blank n) e hwt
    simp only [Option.map_some]
    have hsc : shouldCreateVI (applyInfoT (IRValue.blank n) e) = viHasInfo e := by
      simp only [shouldCreateVI, applyInfoT, IRValue.blank, viHasInfo, h4,
        dictUpdate_nil _ (nodup_dkeys_dictOfEntries _), dictOfEntries_isEmpty, hne]
      simp
    rw [hsc, ← hname, hp']
    simp only [if_true]
    by_cases hi : viHasInfo e = true
    · simp only [hi, if_true, Option.toList]
      congr 1
      have hnee : e.name.isEmpty = false := by rw [hname]; exact experimentalName_ne_empty _ _ _
      simp only [serValueAs, hnee, Bool.false_eq_true, if_false, applyInfoT, IRValue.blank, h3,
        normValueInfo, normEntries, dictUpdate_nil _ (nodup_dkeys_dictOfEntries _)]
    · have hi' : viHasInfo e = false := by simpa using hi
      simp [hi']

theorem experimentalFor_wf (V : List ValueInfoP) (hV : V.all wfVI = true) (d n : String) :
    ∀ e ∈ experimentalFor V d n, wfType e.2.type = true := by
  intro e he
  simp only [experimentalFor, List.mem_filterMap] at he
  obtain ⟨vi, hvi, hx⟩ := he
  have hwf := List.all_eq_true.1 hV vi hvi
  simp only [wfVI, Bool.and_eq_true] at hwf
  cases hp : parseExperimentalName vi.name with
  | none => rw [hp] at hx; cases hx
  | some x =>
    obtain ⟨d', n', vn⟩ := x
    rw [hp] at hx
    simp only at hx
    split at hx
    · cases hx; exact hwf.1
    · cases hx

/-- IR < 10, one function: applying the experimental entries of the main graph and serializing -/
theorem exp_valueR (R : List String) (V : List ValueInfoP) (hV : V.all wfVI = true) (f : FunctionP) (n : String)
    (hn : n ≠ "") :
    expEmitR R f.domain f.name (expUpd (experimentalFor V f.domain f.name) (IRValue.blank n))
    = (if R.contains (experimentalName f.domain f.name n) then none else expEntry V f n).toList := by
  unfold expEmitR
  have hb : (expUpd (experimentalFor V f.domain f.name) (IRValue.blank n)).name = n := by
    simp [IRValue.blank]
  rw [hb]
  split
  · rfl
  · exact exp_value V hV f n hn

theorem serExperimentalR_nil (f : IRFunction) : serExperimentalR [] f = serExperimental f := by
  simp [serExperimentalR, serExperimental, expEmitR]

theorem experimentalVIsR_nil (V : List ValueInfoP) (f : FunctionP) :
    experimentalVIsR [] V f = experimentalVIs V f := by
  simp [experimentalVIsR, experimentalVIs]

/-- IR < 10, one function: applying the experimental entries of the main graph and serializing, for any list
`R` of reserved names -/
theorem fn_experimentalR (ver : Int) (V : List ValueInfoP) (hV : V.all wfVI = true) (f : FunctionP)
    (hwf : wfFunction ver f = true) (hvi : f.valueInfo = []) (x : IRFunction) (hx : FnShape ver f x) :
    ∃ x', applyExperimentalFn V x = .ok x' ∧
      serFunction (some ver) false x' = .ok (normFunction false f) ∧
      ∀ R, serExperimentalR R x' = experimentalVIsR R V f := by
  obtain ⟨xs, gouts, as, rfl, hout, hser⟩ := hx
  simp only [wfFunction, Bool.and_eq_true] at hwf
  obtain ⟨⟨⟨⟨⟨⟨⟨⟨⟨⟨⟨⟨h1, h2⟩, _⟩, _⟩, _⟩, _⟩, _⟩, _⟩, _⟩, _⟩, _⟩, _⟩, _⟩ := hwf
  have hnd := nodupStr_iff.1 h1
  have hne := nodupStr_all_nonempty h2
  rw [hvi]
  by_cases hov : f.overload = ""
  · -- the table of the function and the indices the loop visits
    have htbl : f.inputs.map (newValueT [] []) ++ (nodeOutNames f.nodes).map (newValueT [] [])
        = (f.inputs ++ nodeOutNames f.nodes).map IRValue.blank := by
      have : newValueT [] [] = IRValue.blank := funext newValueT_nil
      simp [List.map_append, this]
    have hN : tableNames ((f.inputs ++ nodeOutNames f.nodes).map IRValue.blank)
        = f.inputs ++ nodeOutNames f.nodes := by
      simp [tableNames, List.map_map, Function.comp_def, IRValue.blank]
    have hos : ∀ s ∈ f.nodes.flatMap NodeP.outputs, s ≠ "" → s ∈ nodeOutNames f.nodes := by
      intro s hs hne'
      simp only [nodeOutNames, List.mem_filter]
      exact ⟨hs, by simpa using hne'⟩
    obtain ⟨ho1, ho2⟩ := namesAt_outs (f.inputs ++ nodeOutNames f.nodes) (f.nodes.flatMap NodeP.outputs)
      (fun s hs hn => List.mem_append_right _ (hos s hs hn))
    have hnames : namesAt (f.inputs ++ nodeOutNames f.nodes)
        (List.range f.inputs.length ++ optNats (xs.flatMap IRNode.outputs))
        = f.inputs ++ nodeOutNames f.nodes := by
      rw [hout]
      simp only [namesAt, List.map_append]
      have h1' := namesAt_range (f.inputs ++ nodeOutNames f.nodes) f.inputs.length (by simp)
      simp only [namesAt] at h1' ho1
      rw [h1', ho1, List.take_left' rfl]
      rfl
    have hspec := applyExperimental_spec (experimentalFor V f.domain f.name)
      (experimentalFor_wf V hV _ _)
      (List.range f.inputs.length ++ optNats (xs.flatMap IRNode.outputs))
      ((f.inputs ++ nodeOutNames f.nodes).map IRValue.blank) (by rw [hN]; exact hnd)
      (by intro i hi
          rcases List.mem_append.1 hi with hi | hi
          · have := List.mem_range.1 hi
            simp; omega
          · rw [hout] at hi
            simpa using ho2 i hi)
      (by rw [hN, hnames]; exact hnd)
    rw [hN, hnames] at hspec
    have hall : ((f.inputs ++ nodeOutNames f.nodes).map IRValue.blank).map (fun v =>
          if v.name ∈ f.inputs ++ nodeOutNames f.nodes
          then expUpd (experimentalFor V f.domain f.name) v else v)
        = (f.inputs ++ nodeOutNames f.nodes).map
            (fun n => expUpd (experimentalFor V f.domain f.name) (IRValue.blank n)) := by
      rw [List.map_map]
      apply List.map_congr_left
      intro n hn
      simp only [Function.comp]
      rw [if_pos (by simpa [IRValue.blank] using hn)]
    rw [hall] at hspec
    have hN' : tableNames ((f.inputs ++ nodeOutNames f.nodes).map
        (fun n => expUpd (experimentalFor V f.domain f.name) (IRValue.blank n)))
        = f.inputs ++ nodeOutNames f.nodes := by
      simp [tableNames, List.map_map, Function.comp_def, IRValue.blank]
    refine ⟨fnIR f ((f.inputs ++ nodeOutNames f.nodes).map
        (fun n => expUpd (experimentalFor V f.domain f.name) (IRValue.blank n))) xs gouts as, ?_,
      hser _ hN', ?_⟩
    · simp only [applyExperimentalFn, fnIR, hov, if_true, htbl, hspec, bind, Except.bind]
    · -- what the serializer writes into the main graph
      intro R
      have hF : ∀ n, (expUpd (experimentalFor V f.domain f.name) (IRValue.blank n)).name = n := by
        intro n; simp [IRValue.blank]
      have hovE : f.overload.isEmpty = true := by simp [hov]
      simp only [serExperimentalR, experimentalVIsR, fnIR, hovE, Bool.not_true, Bool.false_eq_true,
        if_false, IRGraph.table, IRGraph.inputs, IRGraph.nodes]
      rw [flatMap_range_getD _ _ _ (by simp), hout,
        flatMap_outs_getD _ hF f.inputs (nodeOutNames f.nodes) hnd _ _ hos]
      have htake : ((f.inputs ++ nodeOutNames f.nodes).map
          (fun n => expUpd (experimentalFor V f.domain f.name) (IRValue.blank n))).take f.inputs.length
          = f.inputs.map (fun n => expUpd (experimentalFor V f.domain f.name) (IRValue.blank n)) := by
        rw [List.map_append]
        exact List.take_left' (by simp)
      rw [htake, List.flatMap_map, List.filterMap_append]
      have hfm : ∀ l : List String, (∀ n ∈ l, n ≠ "") →
          l.flatMap (fun n => expEmitR R f.domain f.name
            (expUpd (experimentalFor V f.domain f.name) (IRValue.blank n)))
          = l.filterMap (fun vn => if R.contains (experimentalName f.domain f.name vn) then none
              else expEntry V f vn) := by
        intro l hl
        induction l with
        | nil => rfl
        | cons n l ih =>
          rw [List.flatMap_cons, exp_valueR R V hV f n (hl n (by simp)),
            ih (fun k hk => hl k (List.mem_cons_of_mem _ hk)), List.filterMap_cons]
          cases (if R.contains (experimentalName f.domain f.name n) then none else expEntry V f n) <;> rfl
      have hf2 : (f.nodes.flatMap NodeP.outputs).filter (· ≠ "") = nodeOutNames f.nodes := rfl
      rw [hf2, hfm f.inputs (fun n hn => hne n (List.mem_append_left _ hn)),
        hfm (nodeOutNames f.nodes) (fun n hn => hne n (List.mem_append_right _ hn))]
  · -- a function with an overload is not addressed by the encoding
    have hovE : f.overload.isEmpty = false := by simpa [String.isEmpty_iff] using hov
    refine ⟨fnIR f (f.inputs.map (newValueT [] []) ++ (nodeOutNames f.nodes).map (newValueT [] []))
      xs gouts as, by simp [applyExperimentalFn, fnIR, hov], ?_, ?_⟩
    · have hN0 : tableNames (f.inputs.map (newValueT [] []) ++ (nodeOutNames f.nodes).map (newValueT [] []))
          = f.inputs ++ nodeOutNames f.nodes := by
        simp [tableNames, List.map_map, Function.comp_def]
      exact hser _ hN0
    · intro R
      simp [serExperimentalR, experimentalVIsR, fnIR, hovE]

theorem fn_experimental (ver : Int) (V : List ValueInfoP) (hV : V.all wfVI = true) (f : FunctionP)
    (hwf : wfFunction ver f = true) (hvi : f.valueInfo = []) (x : IRFunction) (hx : FnShape ver f x) :
    ∃ x', applyExperimentalFn V x = .ok x' ∧
      serFunction (some ver) false x' = .ok (normFunction false f) ∧
      serExperimental x' = experimentalVIs V f := by
  obtain ⟨x', a1, a2, a3⟩ := fn_experimentalR ver V hV f hwf hvi x hx
  exact ⟨x', a1, a2, by rw [← serExperimentalR_nil, a3 [], experimentalVIsR_nil]⟩

theorem fns_experimentalR (ver : Int) (V : List ValueInfoP) (hV : V.all wfVI = true) :
    ∀ (fs : List FunctionP) (xs : List IRFunction), fs.all (wfFunction ver) = true →
      (∀ f ∈ fs, f.valueInfo = []) → Pointwise (FnShape ver) fs xs →
      ∃ xs', applyExperimentalAll V xs = .ok xs' ∧
        (ver < 10 → serFunctions ver xs' = .ok (fs.map (normFunction false))) ∧
        ∀ R, xs'.flatMap (serExperimentalR R) = fs.flatMap (experimentalVIsR R V)
  | [], _, _, _, .nil => ⟨[], rfl, fun _ => rfl, fun _ => rfl⟩
  | f :: fs, _, hwf, hvi, .cons hx hxs => by
    simp only [List.all_cons, Bool.and_eq_true] at hwf
    obtain ⟨x', a1, a2, a3⟩ := fn_experimentalR ver V hV f hwf.1 (hvi f (by simp)) _ hx
    obtain ⟨xs', b1, b2, b3⟩ := fns_experimentalR ver V hV fs _ hwf.2
      (fun g hg => hvi g (List.mem_cons_of_mem _ hg)) hxs
    refine ⟨x' :: xs', by simp [applyExperimentalAll, a1, b1, bind, Except.bind], ?_, fun R => by simp [a3 R, b3 R]⟩
    intro hlt
    have hd : decide (ver ≥ 10) = false := by simp; omega
    simp [serFunctions, hd, a2, b2 hlt, bind, Except.bind]

theorem fns_experimental (ver : Int) (V : List ValueInfoP) (hV : V.all wfVI = true) :
    ∀ (fs : List FunctionP) (xs : List IRFunction), fs.all (wfFunction ver) = true →
      (∀ f ∈ fs, f.valueInfo = []) → Pointwise (FnShape ver) fs xs →
      ∃ xs', applyExperimentalAll V xs = .ok xs' ∧
        (ver < 10 → serFunctions ver xs' = .ok (fs.map (normFunction false))) ∧
        xs'.flatMap serExperimental = fs.flatMap (experimentalVIs V)
  | [], _, _, _, .nil => ⟨[], rfl, fun _ => rfl, rfl⟩
  | f :: fs, _, hwf, hvi, .cons hx hxs => by
    simp only [List.all_cons, Bool.and_eq_true] at hwf
    obtain ⟨x', a1, a2, a3⟩ := fn_experimental ver V hV f hwf.1 (hvi f (by simp)) _ hx
    obtain ⟨xs', b1, b2, b3⟩ := fns_experimental ver V hV fs _ hwf.2
      (fun g hg => hvi g (List.mem_cons_of_mem _ hg)) hxs
    refine ⟨x' :: xs', by simp [applyExperimentalAll, a1, b1, bind, Except.bind], ?_, by simp [a3, b3]⟩
    intro hlt
    have hd : decide (ver ≥ 10) = false := by simp; omega
    simp [serFunctions, hd, a2, b2 hlt, bind, Except.bind]

theorem serGraph_opsets (outer : Scopes) (ver : Option Int) (g : IRGraph) (ops : List OpsetP) :
    serGraph outer ver (g.setOpsets ops) = serGraph outer ver g := by
  cases g
  simp [serGraph, IRGraph.setOpsets]

theorem addValueInfo_nil (g : GraphP) : GraphP.addValueInfo g [] = g := by
  cases g; simp [GraphP.addValueInfo]

theorem model_rt (m : ModelP) (h : wfModel m = true) :
    ∃ x, desModel m = .ok x ∧ serModel x = .ok (normModel m) := by
  simp only [wfModel, Bool.and_eq_true] at h
  obtain ⟨⟨⟨⟨⟨⟨hg, hf⟩, _hmeta⟩, hops⟩, hkeys⟩, hdev⟩, _hexp⟩ := h
  -- graph
  have hgate : verAllows (some m.irVersion) = true ∨ graphHasDevCfg m.graph = false := by
    rcases Bool.or_eq_true_iff.1 hdev with h1 | h1
    · exact Or.inl (by simpa [verAllows] using h1)
    · simp only [Bool.and_eq_true, Bool.not_eq_true'] at h1
      exact Or.inr h1.1.2
  obtain ⟨g, g1, g2⟩ := graph_rt [] (some m.irVersion) m.graph hg hgate
  have hV : m.graph.valueInfo.all wfVI = true := by
    cases hmg : m.graph with
    | mk name doc nodes inits inputs outputs vis quant md =>
      rw [hmg] at hg
      exact (graphWF_of_wf [] name doc nodes inits inputs outputs vis quant md hg).1.wfVis
  -- functions
  have hfgate : 11 ≤ m.irVersion ∨ m.functions.all (fun f => !nodesHaveDevCfg f.nodes) = true := by
    rcases Bool.or_eq_true_iff.1 hdev with h1 | h1
    · exact Or.inl (by simpa using h1)
    · simp only [Bool.and_eq_true] at h1
      exact Or.inr h1.2
  obtain ⟨fs, f1, f2, f3, f4⟩ := functions_rt m.irVersion m.functions hf hfgate
  have hdict : functionDict [] fs = fs := by
    rw [functionDict_append fs [] (by simpa [f3] using nodupKeys_iff.1 hkeys)]; simp
  have hopset : opsetDict m.opsetImport = m.opsetImport := dictByKey_nodup _ _ (nodupStr_iff.1 hops)
  have hcfg : (if m.irVersion < 11 then [] else (m.configuration.map desModelCfg).map serModelCfg)
      = m.configuration := by
    split
    · rename_i hlt
      rcases Bool.or_eq_true_iff.1 hdev with h1 | h1
      · simp at h1; omega
      · simp only [Bool.and_eq_true, List.isEmpty_iff] at h1
        exact h1.1.1.symm
    · simp only [List.map_map]
      have : (serModelCfg ∘ desModelCfg) = id := by funext c; cases c; rfl
      rw [this, List.map_id]
  have hgops : ∀ g : IRGraph, (g.setOpsets (opsetDict m.opsetImport)).opsets = m.opsetImport := by
    intro g; cases g; simp [IRGraph.opsets, IRGraph.setOpsets, hopset]
  by_cases hc : m.irVersion ≥ 10
  · have hlt : ¬ m.irVersion < 10 := by omega
    refine ⟨{ graph := g.setOpsets (opsetDict m.opsetImport),
              irVersion := m.irVersion, producerName := m.producerName,
              producerVersion := m.producerVersion, domain := m.domain, modelVersion := m.modelVersion,
              doc := m.doc, functions := fs, mprops := dictOfEntries m.metadata,
              configs := m.configuration.map desModelCfg }, ?_, ?_⟩
    · simp only [desModel, g1, f1, hdict, hlt, if_false, bind, Except.bind]
    · simp only [serModel, serGraph_opsets, g2, f2, hgops, hcfg, hc, if_true, bind, Except.bind, normModel,
        normEntries]
  · have hlt : m.irVersion < 10 := by omega
    have hvis : ∀ f ∈ m.functions, f.valueInfo = [] := by
      intro f hfm
      have := List.all_eq_true.1 hf f hfm
      simp only [wfFunction, Bool.and_eq_true, Bool.or_eq_true, decide_eq_true_eq,
        List.isEmpty_iff] at this
      rcases this.2 with h10 | h10
      · omega
      · exact h10
    obtain ⟨fs', e1, e2, e3⟩ := fns_experimental m.irVersion m.graph.valueInfo hV m.functions fs hf hvis f4
    -- D320: no reserved name (a name of the main graph's table) has the experimental form
    have hRes : ∀ r ∈ reservedNames (g.setOpsets (opsetDict m.opsetImport)), parseExperimentalName r = none := by
      intro r hr
      have hsub := reservedNames_subset _ r hr
      have htn : tableNames (g.setOpsets (opsetDict m.opsetImport)).table = tableNames g.table := by
        cases g; rfl
      rw [htn, desGraph_table_names [] m.graph g hg g1] at hsub
      have hexp' := _hexp
      simp only [Bool.or_eq_true, decide_eq_true_eq] at hexp'
      rcases hexp' with h10 | hall
      · omega
      · have := List.all_eq_true.1 hall r hsub
        simpa using this
    have eR : fs'.flatMap (serExperimentalR (reservedNames (g.setOpsets (opsetDict m.opsetImport))))
        = fs'.flatMap serExperimental := by
      apply flatMap_congr'
      intro f _
      exact serExperimentalR_eq _ hRes f
    refine ⟨{ graph := g.setOpsets (opsetDict m.opsetImport),
              irVersion := m.irVersion, producerName := m.producerName,
              producerVersion := m.producerVersion, domain := m.domain, modelVersion := m.modelVersion,
              doc := m.doc, functions := fs', mprops := dictOfEntries m.metadata,
              configs := m.configuration.map desModelCfg }, ?_, ?_⟩
    · simp only [desModel, g1, f1, hdict, hlt, if_true, e1, bind, Except.bind]
    · simp only [serModel, serGraph_opsets, g2, e2 hlt, hgops, hcfg, hc, if_false, bind, Except.bind,
        normModel, normEntries, eR, e3, decide_false]

end IrVerif.Serde

import IrVerif.Lemmas.SerdeMutual
/-! C02 stage B: functions and models. -/
namespace IrVerif.Serde
open IrVerif.Proto

/-! ### dicts keyed by a name: identity on distinct keys -/

theorem dictByKey_append {α : Type} (key : α → String) :
    ∀ (l acc : List α), ((acc ++ l).map key).Nodup → dictByKey key acc l = acc ++ l
  | [], acc, _ => by simp [dictByKey]
  | x :: xs, acc, h => by
    have hx : acc.any (fun y => key y = key x) = false := by
      rw [Bool.eq_false_iff]
      intro hc
      obtain ⟨y, hy, hk⟩ := List.any_eq_true.1 hc
      simp only [decide_eq_true_eq] at hk
      simp only [List.map_append, List.map_cons] at h
      rw [List.nodup_append] at h
      exact h.2.2 (key y) (List.mem_map_of_mem hy) (key x) (by simp) hk
    simp only [dictByKey, hx, Bool.false_eq_true, if_false]
    rw [dictByKey_append key xs (acc ++ [x]) (by simpa using h)]
    simp

theorem dictByKey_nodup {α : Type} (key : α → String) (l : List α) (h : (l.map key).Nodup) :
    dictByKey key [] l = l := by
  rw [dictByKey_append key l [] (by simpa using h)]; simp

/-! ### functions -/

theorem functionInputs_eq (vis : List ValueInfoP) (hvis : vis.all wfVI = true) (ins : List String) :
    functionInputs vis ins = .ok (ins.map (newValueT vis [])) := by
  induction ins with
  | nil => rfl
  | cons n ns ih => simp [functionInputs, newValue_eq vis [] n hvis, ih, bind, Except.bind]

theorem functionOutputs_eq (names : List String) :
    ∀ outs : List String, (∀ n ∈ outs, n ∈ names) →
      ∃ gouts, functionOutputs names outs = .ok gouts ∧
        (outIdxs gouts).map (fun i => refName [names] ⟨0, i⟩) = outs
  | [], _ => ⟨[], rfl, rfl⟩
  | n :: ns, h => by
    obtain ⟨gouts, h1, h2⟩ := functionOutputs_eq names ns (fun m hm => h m (List.mem_cons_of_mem _ hm))
    obtain ⟨i, hi⟩ := lookupLast_exists (h n (by simp))
    refine ⟨.tbl i :: gouts, by simp [functionOutputs, hi, h1, bind, Except.bind], ?_⟩
    simp only [outIdxs, List.map_cons, h2, List.cons.injEq, and_true]
    simp [refName, List.getD, lookupLast_getElem hi]

/-- the value-info a function value named `n` contributes -/
def fnVI (vis : List ValueInfoP) (n : String) : List ValueInfoP :=
  match findVI vis n with
  | some vi => if viHasInfo vi then [normValueInfo vi] else []
  | none => []

theorem normFnVIs_eq (vis : List ValueInfoP) (ns : List String) :
    normFnVIs vis ns = ns.flatMap (fnVI vis) := by
  induction ns with
  | nil => rfl
  | cons n ns ih => simp only [normFnVIs, List.flatMap_cons, ih, fnVI]; rfl

theorem newValueT_vi (vis : List ValueInfoP) (hvis : vis.all wfVI = true) (n : String) (hn : n ≠ "") :
    (if shouldCreateVI (newValueT vis [] n) then [serValue (newValueT vis [] n)] else []) = fnVI vis n := by
  have hsame : sameInfo (newValueT vis [] n)
      (match findVI vis n with
       | some vi => applyInfoT (IRValue.blank n) vi
       | none => IRValue.blank n) := sameInfo_applyQuant [] _
  rw [shouldCreateVI_congr hsame, serValue_congr hsame]
  unfold fnVI
  cases hfv : findVI vis n with
  | none => simp [shouldCreateVI, IRValue.blank]
  | some vi =>
    have hvi := findVI_mem hfv
    have hwf := List.all_eq_true.1 hvis vi hvi.1
    have e1 := serValue_applyInfoT_blank vi hwf
    have e2 := shouldCreateVI_applyInfoT_blank vi hwf
    rw [hvi.2] at e1 e2
    simp only [e1, e2]
    have : n.isEmpty = false := by simpa [String.isEmpty_iff] using hn
    simp [this]

theorem valuesVI_eq (tbl : List IRValue) (c : Bool) (is : List Nat) :
    valuesVI tbl c is = is.flatMap (fun i =>
      if shouldCreateVI (tbl.getD i (IRValue.blank "")) && c
      then [serValue (tbl.getD i (IRValue.blank ""))] else []) := by
  induction is with
  | nil => rfl
  | cons i is ih => simp only [valuesVI, List.flatMap_cons, ih]

theorem optNats_map (names : List String) (os : List String) (h : ∀ s ∈ os, s ≠ "" → s ∈ names) :
    (optNats (os.map (fun s => if s = "" then none else lookupLast names s))).map some
      = (os.filter (· ≠ "")).map (lookupLast names) := by
  induction os with
  | nil => rfl
  | cons s os ih =>
    have ih' := ih (fun t ht => h t (List.mem_cons_of_mem _ ht))
    by_cases hs : s = ""
    · subst hs; simpa [optNats] using ih'
    · obtain ⟨i, hi⟩ := lookupLast_exists (h s (by simp) hs)
      simp only [List.map_cons, hs, if_false, hi, optNats, List.filter_cons]
      simp [hs, hi, ih']

def notRef : AttrP → Bool
  | .ref .. => false
  | _ => true

theorem desAttr_hasValue (scopes : Scopes) (a : AttrP) (x : IRAttr) (h : desAttr scopes a = .ok x)
    (hw : wfAttr scopes a = true) (hr : notRef a = true) : x.hasValue = true := by
  cases a <;> simp only [desAttr, bind, Except.bind] at h
  all_goals first
    | (simp [notRef] at hr; done)
    | (simp [wfAttr] at hw; done)
    | (cases h; rfl)
    | (split at h <;> first | (cases h; rfl) | cases h)

theorem desAttrs_hasValue (scopes : Scopes) : ∀ (as : List AttrP) (xs : List IRAttr),
    desAttrs scopes as = .ok xs → wfAttrs scopes as = true → as.all notRef = true →
    xs.all IRAttr.hasValue = true
  | [], xs, h, _, _ => by simp [desAttrs] at h; subst h; rfl
  | a :: as, xs, h, hw, hr => by
    simp only [desAttrs, bind, Except.bind] at h
    simp only [wfAttrs, Bool.and_eq_true] at hw
    simp only [List.all_cons, Bool.and_eq_true] at hr
    split at h
    · cases h
    · rename_i x hx
      split at h
      · cases h
      · rename_i xs' hxs
        cases h
        simp only [List.all_cons, Bool.and_eq_true]
        exact ⟨desAttr_hasValue scopes a x hx hw.1 hr.1, desAttrs_hasValue scopes as xs' hxs hw.2 hr.2⟩

theorem filter_hasValue_append (as : List IRAttr) (ns : List String)
    (h : as.all IRAttr.hasValue = true) :
    (as ++ ns.map (fun n => IRAttr.undefined n "")).filter IRAttr.hasValue = as ∧
    ((as ++ ns.map (fun n => IRAttr.undefined n "")).filter (fun a => !a.hasValue)).map IRAttr.name = ns := by
  have h1 : as.filter IRAttr.hasValue = as := List.filter_eq_self.2 (List.all_eq_true.1 h)
  have h2 : as.filter (fun a => !a.hasValue) = [] := by
    rw [List.filter_eq_nil_iff]
    intro a ha
    simp [List.all_eq_true.1 h a ha]
  have h3 : (ns.map (fun n => IRAttr.undefined n "")).filter IRAttr.hasValue = [] := by
    rw [List.filter_eq_nil_iff]
    intro a ha
    obtain ⟨n, _, rfl⟩ := List.mem_map.1 ha
    simp [IRAttr.hasValue]
  have h4 : (ns.map (fun n => IRAttr.undefined n "")).filter (fun a => !a.hasValue)
      = ns.map (fun n => IRAttr.undefined n "") := by
    rw [List.filter_eq_self]
    intro a ha
    obtain ⟨n, _, rfl⟩ := List.mem_map.1 ha
    simp [IRAttr.hasValue]
  refine ⟨by rw [List.filter_append, h1, h3]; simp, ?_⟩
  rw [List.filter_append, h2, h4]
  simp [List.map_map, Function.comp_def, IRAttr.name]

theorem nodup_append_comm' {α : Type} {a b : List α} (h : (a ++ b).Nodup) : (b ++ a).Nodup := by
  rw [List.nodup_append] at h ⊢
  exact ⟨h.2.1, h.1, fun x hx y hy e => h.2.2 y hy x hx e.symm⟩

/-- value-info of function values, driven by indices into the function's table -/
theorem fn_valuesVI_inputs (vis : List ValueInfoP) (hvis : vis.all wfVI = true) (c : Bool)
    (ins outs : List String) (hne : ∀ n ∈ ins, n ≠ "") :
    valuesVI (ins.map (newValueT vis []) ++ outs.map (newValueT vis [])) c (List.range ins.length)
      = if c = true then ins.flatMap (fnVI vis) else [] := by
  rw [valuesVI_eq]
  have h1 : ∀ (l : List IRValue) (n : Nat) (g : IRValue → List ValueInfoP), n ≤ l.length →
      (List.range n).flatMap (fun i => g (l.getD i (IRValue.blank ""))) = (l.take n).flatMap g := by
    intro l n g hn
    have := map_range_getD l (IRValue.blank "") g n hn
    rw [List.flatMap_def, this, ← List.flatMap_def]
  rw [h1 _ _ (fun v => if shouldCreateVI v && c then [serValue v] else []) (by simp)]
  rw [List.take_left' (by simp), List.flatMap_map]
  cases c with
  | false => simp
  | true =>
    simp only [Bool.and_true, if_true]
    apply flatMap_congr'
    intro n hn
    exact newValueT_vi vis hvis n (hne n hn)

theorem fn_valuesVI_outs (vis : List ValueInfoP) (hvis : vis.all wfVI = true) (c : Bool)
    (ins outs : List String) (hnd : (ins ++ outs).Nodup) (hne : ∀ n ∈ outs, n ≠ "") :
    ∀ os : List String, (∀ s ∈ os, s ≠ "" → s ∈ outs) →
      valuesVI (ins.map (newValueT vis []) ++ outs.map (newValueT vis [])) c
        (optNats (os.map (fun s => if s = "" then none else lookupLast (ins ++ outs) s)))
      = if c = true then (os.filter (· ≠ "")).flatMap (fnVI vis) else []
  | [], _ => by simp [optNats, valuesVI]
  | s :: os, hsub => by
    have ih := fn_valuesVI_outs vis hvis c ins outs hnd hne os
      (fun t ht => hsub t (List.mem_cons_of_mem _ ht))
    by_cases hs : s = ""
    · subst hs
      simpa [optNats] using ih
    · have hso : s ∈ outs := hsub s (by simp) hs
      obtain ⟨j, hj⟩ := lookupLast_exists (List.mem_append_right ins hso)
      have hN : tableNames (ins.map (newValueT vis []) ++ outs.map (newValueT vis [])) = ins ++ outs := by
        simp [tableNames, List.map_map, Function.comp_def]
      have hv : (ins.map (newValueT vis []) ++ outs.map (newValueT vis [])).getD j (IRValue.blank "")
          = newValueT vis [] s :=
        getD_of_lookup (by rw [hN]; exact hnd) (by rw [hN]; exact hj)
          (List.mem_append_right _ (List.mem_map_of_mem hso)) (by simp)
      have hf : (s :: os).filter (· ≠ "") = s :: os.filter (· ≠ "") := by simp [hs]
      simp only [List.map_cons, hs, if_false, hj, optNats, valuesVI, hv, ih, hf, List.flatMap_cons]
      cases c with
      | false => simp
      | true =>
        simp only [Bool.and_true, if_true]
        rw [newValueT_vi vis hvis s hs]

theorem function_rt (ver : Int) (f : FunctionP) (h : wfFunction ver f = true)
    (hver : 11 ≤ ver ∨ nodesHaveDevCfg f.nodes = false) :
    ∃ x, desFunction f = .ok x ∧
      serFunction (some ver) (decide (ver ≥ 10)) x = .ok (normFunction (decide (ver ≥ 10)) f) ∧
      fnKey x = (f.domain, f.name, f.overload) ∧
      (f.valueInfo = [] → ∀ v ∈ x.graph.table, shouldCreateVI v = false) := by
  simp only [wfFunction, Bool.and_eq_true] at h
  obtain ⟨⟨⟨⟨⟨⟨⟨⟨⟨⟨⟨⟨h1, h2⟩, h3⟩, h4⟩, h5⟩, h6⟩, h7⟩, h8⟩, _h9⟩, h10⟩, _h11⟩, h12⟩, _h13⟩ := h
  have hnd := nodupStr_iff.1 h1
  rw [List.nodup_append] at hnd
  obtain ⟨_hndI, hndO, hdis⟩ := hnd
  -- deserialization
  have hI := functionInputs_eq f.valueInfo h7 f.inputs
  have hNI : tableNames (f.inputs.map (newValueT f.valueInfo [])) = f.inputs := by
    simp [tableNames, List.map_map, Function.comp_def]
  have hC := declareAll_spec f.valueInfo [] h7 f.nodes (f.inputs.map (newValueT f.valueInfo []))
    (by intro n hn hm; rw [hNI] at hm; exact hdis n hm n hn rfl) hndO
  have hN : tableNames (f.inputs.map (newValueT f.valueInfo [])
      ++ (nodeOutNames f.nodes).map (newValueT f.valueInfo [])) = f.inputs ++ nodeOutNames f.nodes := by
    simp [tableNames, List.map_map, Function.comp_def]
  obtain ⟨xs, n1, n2, n3⟩ := nodes_rt [] f.valueInfo [] (some ver) f.nodes
    (f.inputs.map (newValueT f.valueInfo []) ++ (nodeOutNames f.nodes).map (newValueT f.valueInfo []))
    (by rw [hN]; exact h12)
    (by rcases hver with hv | hv
        · exact Or.inl (by simp [verAllows, hv])
        · exact Or.inr hv)
  rw [hN] at n2 n3
  obtain ⟨gouts, o1, o2⟩ := functionOutputs_eq (f.inputs ++ nodeOutNames f.nodes) f.outputs
    (by intro n hn; have := List.all_eq_true.1 h3 n hn; simpa using this)
  obtain ⟨as, a1, a2, a3⟩ := attrs_rt [] f.attrProtos h5
  have hasv := desAttrs_hasValue [] f.attrProtos as a1 h5
    (by rw [List.all_eq_true]; intro a ha
        have := List.all_eq_true.1 h6 a ha
        cases a <;> simp_all [notRef])
  have hdict : attrDict (as ++ f.attrNames.map fun n => IRAttr.undefined n "")
      = as ++ f.attrNames.map fun n => IRAttr.undefined n "" := by
    apply dictByKey_nodup
    have hn4 := nodupStr_iff.1 h4
    simp only [List.map_append, List.map_map, a3]
    have : (f.attrNames.map ((IRAttr.name) ∘ fun n => IRAttr.undefined n "")) = f.attrNames := by
      simp [Function.comp_def, IRAttr.name]
    rw [this]
    exact nodup_append_comm' hn4
  obtain ⟨fa1, fa2⟩ := filter_hasValue_append as f.attrNames hasv
  refine ⟨IRFunction.mk f.domain f.name f.overload
      (.mk (f.inputs.map (newValueT f.valueInfo [])
          ++ (nodeOutNames f.nodes).map (newValueT f.valueInfo []))
        (List.range f.inputs.length) [] xs gouts
        (if f.overload.isEmpty then "" else f.name ++ "_" ++ f.domain ++ "__" ++ f.overload) f.doc
        (opsetDict f.opsetImport) (dictOfEntries f.metadata))
      (as ++ f.attrNames.map fun n => IRAttr.undefined n ""), ?_, ?_, rfl, ?_⟩
  · simp only [desFunction, hI, hC, n1, hN, o1, a1, hdict, bind, Except.bind]
  · -- serialization
    have hlen : f.inputs.length ≤ (f.inputs ++ nodeOutNames f.nodes).length := by simp
    have hins : (List.range f.inputs.length).map
        (fun i => refName [f.inputs ++ nodeOutNames f.nodes] ⟨0, i⟩) = f.inputs := by
      have := map_range_getD (f.inputs ++ nodeOutNames f.nodes) "" id f.inputs.length hlen
      simpa [refName] using this
    have hopset : opsetDict f.opsetImport = f.opsetImport :=
      dictByKey_nodup _ _ (nodupStr_iff.1 h10)
    -- value info
    have hvi1 : valuesVI (f.inputs.map (newValueT f.valueInfo [])
          ++ (nodeOutNames f.nodes).map (newValueT f.valueInfo [])) (decide (ver ≥ 10))
          (List.range f.inputs.length)
        = if decide (ver ≥ 10) = true then f.inputs.flatMap (fnVI f.valueInfo) else [] := by
      exact fn_valuesVI_inputs f.valueInfo h7 _ f.inputs (nodeOutNames f.nodes)
        (fun n hn => nodupStr_all_nonempty h2 n (List.mem_append_left _ hn))
    have hvi2 : valuesVI (f.inputs.map (newValueT f.valueInfo [])
          ++ (nodeOutNames f.nodes).map (newValueT f.valueInfo [])) (decide (ver ≥ 10))
          (optNats (xs.flatMap IRNode.outputs))
        = if decide (ver ≥ 10) = true then (nodeOutNames f.nodes).flatMap (fnVI f.valueInfo) else [] := by
      rw [n3]
      exact fn_valuesVI_outs f.valueInfo h7 _ f.inputs (nodeOutNames f.nodes) (nodupStr_iff.1 h1)
        (fun n hn => nodupStr_all_nonempty h2 n (List.mem_append_right _ hn))
        (f.nodes.flatMap NodeP.outputs)
        (by intro s hs hne'
            simp only [nodeOutNames, List.mem_filter]
            exact ⟨hs, by simpa using hne'⟩)
    simp only [serFunction, IRGraph.table, IRGraph.nodes, IRGraph.inputs, IRGraph.outputs, IRGraph.doc,
      IRGraph.opsets, IRGraph.mprops, hN, serFunctionAttrs, fa1, fa2, a2, n2, hins, o2, hopset, hvi1,
      hvi2, bind, Except.bind, normFunction, normEntries, normFnVIs_eq, List.flatMap_append]
    cases f
    by_cases hc : ver ≥ 10 <;> simp [hc]
  · intro hvi v hv
    simp only [IRGraph.table, List.mem_append, List.mem_map] at hv
    have : ∀ n, shouldCreateVI (newValueT f.valueInfo [] n) = false := by
      intro n
      unfold newValueT
      rw [shouldCreateVI_congr (sameInfo_applyQuant [] _), hvi]
      simp [findVI, findLast?, shouldCreateVI, IRValue.blank]
    rcases hv with ⟨n, _, rfl⟩ | ⟨n, _, rfl⟩ <;> exact this n

/-! ### models -/

theorem nodupKeys_iff {l : List (String × String × String)} : nodupKeys l = true ↔ l.Nodup := by
  induction l with
  | nil => simp [nodupKeys]
  | cons x xs ih => simp [nodupKeys, ih, List.nodup_cons]

theorem functionDict_append : ∀ (l acc : List IRFunction), ((acc ++ l).map fnKey).Nodup →
    functionDict acc l = acc ++ l
  | [], acc, _ => by simp [functionDict]
  | x :: xs, acc, h => by
    have hx : acc.any (fun g => fnKey g = fnKey x) = false := by
      rw [Bool.eq_false_iff]
      intro hc
      obtain ⟨y, hy, hk⟩ := List.any_eq_true.1 hc
      simp only [decide_eq_true_eq] at hk
      simp only [List.map_append, List.map_cons] at h
      rw [List.nodup_append] at h
      exact h.2.2 (fnKey y) (List.mem_map_of_mem hy) (fnKey x) (by simp) hk
    simp only [functionDict, hx, Bool.false_eq_true, if_false]
    rw [functionDict_append xs (acc ++ [x]) (by simpa using h)]
    simp

theorem functions_rt (ver : Int) : ∀ fs : List FunctionP, fs.all (wfFunction ver) = true →
    (11 ≤ ver ∨ fs.all (fun f => !nodesHaveDevCfg f.nodes) = true) →
    ∃ xs, desFunctions fs = .ok xs ∧
      serFunctions ver xs = .ok (fs.map (normFunction (decide (ver ≥ 10)))) ∧
      xs.map fnKey = fs.map (fun f => (f.domain, f.name, f.overload)) ∧
      ((ver < 10) → ∀ x ∈ xs, ∀ v ∈ x.graph.table, shouldCreateVI v = false)
  | [], _, _ => ⟨[], rfl, rfl, rfl, by intro _ x hx; cases hx⟩
  | f :: fs, h, hver => by
    simp only [List.all_cons, Bool.and_eq_true] at h
    have hv1 : 11 ≤ ver ∨ nodesHaveDevCfg f.nodes = false := by
      rcases hver with hv | hv
      · exact Or.inl hv
      · simp only [List.all_cons, Bool.and_eq_true, Bool.not_eq_true'] at hv; exact Or.inr hv.1
    have hv2 : 11 ≤ ver ∨ fs.all (fun f => !nodesHaveDevCfg f.nodes) = true := by
      rcases hver with hv | hv
      · exact Or.inl hv
      · simp only [List.all_cons, Bool.and_eq_true] at hv; exact Or.inr hv.2
    obtain ⟨x, g1, g2, g3, g4⟩ := function_rt ver f h.1 hv1
    obtain ⟨xs, r1, r2, r3, r4⟩ := functions_rt ver fs h.2 hv2
    refine ⟨x :: xs, by simp [desFunctions, g1, r1, bind, Except.bind],
      by simp [serFunctions, g2, r2, bind, Except.bind], by simp [g3, r3], ?_⟩
    intro hlt y hy
    rcases List.mem_cons.1 hy with rfl | hy
    · apply g4
      have := h.1
      simp only [wfFunction, Bool.and_eq_true, Bool.or_eq_true, decide_eq_true_eq,
        List.isEmpty_iff] at this
      rcases this.2 with h10 | h10
      · omega
      · exact h10
    · exact r4 hlt y hy

theorem serExperimental_nil (x : IRFunction)
    (h : ∀ v ∈ x.graph.table, shouldCreateVI v = false) : serExperimental x = [] := by
  have hb : shouldCreateVI (IRValue.blank "") = false := by simp [shouldCreateVI, IRValue.blank]
  have hget : ∀ i, shouldCreateVI (x.graph.table.getD i (IRValue.blank "")) = false := by
    intro i
    simp only [List.getD]
    cases hi : x.graph.table[i]? with
    | none => simpa using hb
    | some v => simpa using h v (List.mem_of_getElem? hi)
  have hget' : ∀ i : Nat, shouldCreateVI (x.graph.table[i]?.getD (IRValue.blank "")) = false := by
    intro i; simpa [List.getD] using hget i
  unfold serExperimental
  split
  · rfl
  · simp only [List.append_eq_nil_iff, List.flatMap_eq_nil_iff]
    constructor <;> intro i _ <;> simp [hget']

theorem applyExperimental_nil : ∀ (is : List Nat) (tbl : List IRValue),
    applyExperimental [] is tbl = .ok tbl
  | [], _ => rfl
  | i :: is, tbl => by simp [applyExperimental, findLast?, applyExperimental_nil is tbl]

theorem experimentalFor_nil (vis : List ValueInfoP) (d n : String)
    (h : vis.all (fun vi => (parseExperimentalName vi.name).isNone) = true) :
    experimentalFor vis d n = [] := by
  unfold experimentalFor
  rw [List.filterMap_eq_nil_iff]
  intro vi hvi
  have := List.all_eq_true.1 h vi hvi
  cases hp : parseExperimentalName vi.name with
  | none => rfl
  | some x => rw [hp] at this; cases this

theorem applyExperimentalAll_nil (vis : List ValueInfoP)
    (h : vis.all (fun vi => (parseExperimentalName vi.name).isNone) = true) :
    ∀ xs : List IRFunction, applyExperimentalAll vis xs = .ok xs
  | [] => rfl
  | x :: xs => by
    have : applyExperimentalFn vis x = .ok x := by
      unfold applyExperimentalFn
      split
      · cases hx : x.graph with
        | mk tbl ins inits nodes outs name doc opsets mprops =>
          simp only [experimentalFor_nil vis _ _ h, applyExperimental_nil, bind, Except.bind]
          cases x
          simp_all
      · rfl
    simp [applyExperimentalAll, this, applyExperimentalAll_nil vis h xs, bind, Except.bind]

theorem serGraph_opsets (outer : Scopes) (ver : Option Int) (g : IRGraph) (ops : List OpsetP) :
    serGraph outer ver (g.setOpsets ops) = serGraph outer ver g := by
  cases g
  simp [serGraph, IRGraph.setOpsets]

theorem addValueInfo_nil (g : GraphP) : GraphP.addValueInfo g [] = g := by
  cases g; simp [GraphP.addValueInfo]

theorem experimentalVIs_nil (f : FunctionP) (h : f.valueInfo = []) : experimentalVIs f = [] := by
  unfold experimentalVIs
  split
  · rfl
  · rw [normFnVIs_eq, h]
    simp [fnVI, findVI, findLast?]

theorem model_rt (m : ModelP) (h : wfModel m = true) :
    ∃ x, desModel m = .ok x ∧ serModel x = .ok (normModel m) := by
  simp only [wfModel, Bool.and_eq_true] at h
  obtain ⟨⟨⟨⟨⟨⟨hg, hf⟩, _hmeta⟩, hops⟩, hkeys⟩, hdev⟩, hexp⟩ := h
  -- graph
  have hgate : verAllows (some m.irVersion) = true ∨ graphHasDevCfg m.graph = false := by
    rcases Bool.or_eq_true_iff.1 hdev with h1 | h1
    · exact Or.inl (by simpa [verAllows] using h1)
    · simp only [Bool.and_eq_true, Bool.not_eq_true'] at h1
      exact Or.inr h1.1.2
  obtain ⟨g, g1, g2⟩ := graph_rt [] (some m.irVersion) m.graph hg hgate
  -- functions
  have hfgate : 11 ≤ m.irVersion ∨ m.functions.all (fun f => !nodesHaveDevCfg f.nodes) = true := by
    rcases Bool.or_eq_true_iff.1 hdev with h1 | h1
    · exact Or.inl (by simpa using h1)
    · simp only [Bool.and_eq_true] at h1
      exact Or.inr h1.2
  obtain ⟨fs, f1, f2, f3, f4⟩ := functions_rt m.irVersion m.functions hf hfgate
  have hdict : functionDict [] fs = fs := by
    rw [functionDict_append fs [] (by simpa [f3] using nodupKeys_iff.1 hkeys)]; simp
  have hexpAll : (if m.irVersion < 10 then applyExperimentalAll m.graph.valueInfo fs else Except.ok fs)
      = Except.ok fs := by
    split
    · rename_i hlt
      apply applyExperimentalAll_nil
      rcases Bool.or_eq_true_iff.1 hexp with h1 | h1
      · simp at h1; omega
      · exact h1
    · rfl
  have hopset : opsetDict m.opsetImport = m.opsetImport := dictByKey_nodup _ _ (nodupStr_iff.1 hops)
  refine ⟨{ graph := g.setOpsets (opsetDict m.opsetImport),
            irVersion := m.irVersion, producerName := m.producerName,
            producerVersion := m.producerVersion, domain := m.domain, modelVersion := m.modelVersion,
            doc := m.doc, functions := fs, mprops := dictOfEntries m.metadata,
            configs := m.configuration.map desModelCfg }, ?_, ?_⟩
  · simp only [desModel, g1, f1, hdict, bind, Except.bind]
    split
    · rename_i hlt
      have : applyExperimentalAll m.graph.valueInfo fs = .ok fs := by
        have := hexpAll
        simpa [hlt] using this
      rw [this]
    · rfl
  · have hgops : (g.setOpsets (opsetDict m.opsetImport)).opsets = m.opsetImport := by
      cases g; simp [IRGraph.opsets, IRGraph.setOpsets, hopset]
    have hcfg : (if m.irVersion < 11 then [] else (m.configuration.map desModelCfg).map serModelCfg)
        = m.configuration := by
      split
      · rename_i hlt
        rcases Bool.or_eq_true_iff.1 hdev with h1 | h1
        · simp at h1; omega
        · simp only [Bool.and_eq_true, List.isEmpty_iff] at h1
          exact h1.1.1.symm
      · simp only [List.map_map]
        have : (serModelCfg ∘ desModelCfg) = id := by funext c; cases c; rfl
        rw [this, List.map_id]
    have hexpS : m.irVersion < 10 → fs.flatMap serExperimental = [] := by
      intro hlt
      rw [List.flatMap_eq_nil_iff]
      intro x hx
      exact serExperimental_nil x (f4 hlt x hx)
    have hexpN : m.irVersion < 10 → m.functions.flatMap experimentalVIs = [] := by
      intro hlt
      rw [List.flatMap_eq_nil_iff]
      intro f hfm
      apply experimentalVIs_nil
      have := List.all_eq_true.1 hf f hfm
      simp only [wfFunction, Bool.and_eq_true, Bool.or_eq_true, decide_eq_true_eq,
        List.isEmpty_iff] at this
      rcases this.2 with h10 | h10
      · omega
      · exact h10
    simp only [serModel, serGraph_opsets, g2, f2, hgops, hcfg, bind, Except.bind, normModel, normEntries]
    by_cases hc : m.irVersion ≥ 10
    · simp [hc]
    · have hlt : m.irVersion < 10 := by omega
      simp [hc, hexpS hlt, hexpN hlt, addValueInfo_nil]

end IrVerif.Serde

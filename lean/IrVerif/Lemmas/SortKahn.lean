/-
C12 — the reverse Kahn loop of `Graph.sort` over an arbitrary finite predecessor relation.

Part 1 (refinement): the loop of `Model/Sort.lean` (depth counters + heap) pops, at every step,
the largest position that is *ready* (not popped, all its children popped), and stops only when
nothing is ready (`kahn_run`, `kahn_stuck`, `kahn_fuel`).
Part 2 (specification level): consequences of `Run` + `Stuck` only.
-/
import IrVerif.Model.Sort
import Mathlib.Logic.Relation
import Mathlib.Data.List.Perm.Subperm

namespace IrVerif.Sort
open List

/-! ## Specification-level vocabulary -/

/-- `x` can be popped when the positions in `P` have been popped: it is a position, it has not
    been popped, and every node it is a predecessor of (its children) has been popped. -/
def Ready (n : Nat) (preds : Nat → List Nat) (P : List Nat) (x : Nat) : Prop :=
  x < n ∧ x ∉ P ∧ ∀ c, c < n → x ∈ preds c → c ∈ P

/-- `P` (most recent first) is a pop history of the algorithm "pop the largest ready position". -/
inductive Run (n : Nat) (preds : Nat → List Nat) : List Nat → Prop
  | nil : Run n preds []
  | cons {P : List Nat} {x : Nat} : Run n preds P → Ready n preds P x →
      (∀ y, Ready n preds P y → y ≤ x) → Run n preds (x :: P)

/-- number of occurrences of `v` in the predecessor lists of the positions not in `P` -/
def deg (n : Nat) (preds : Nat → List Nat) (P : List Nat) (v : Nat) : Nat :=
  (((List.range n).filter (fun c => decide (c ∉ P))).map (fun c => (preds c).count v)).sum

/-! ## counters -/

attribute [-simp] List.getD_eq_getElem?_getD

theorem getD_set_eq (d : List Nat) (p v a : Nat) :
    (d.set p a).getD v 0 = if p = v ∧ p < d.length then a else d.getD v 0 := by
  simp only [List.getD_eq_getElem?_getD, List.getElem?_set]
  by_cases h : p = v
  · subst h
    by_cases h2 : p < d.length
    · simp [h2]
    · simp [h2]
  · simp [h]

theorem getD_pos_lt (d : List Nat) (v : Nat) (h : 0 < d.getD v 0) : v < d.length := by
  by_contra hc
  simp [List.getD_eq_getElem?_getD, List.getElem?_eq_none (Nat.le_of_not_lt hc)] at h

theorem bump_fold (ps : List Nat) (d : List Nat) :
    (ps.foldl bump d).length = d.length ∧
    ∀ v, v < d.length → (ps.foldl bump d).getD v 0 = d.getD v 0 + ps.count v := by
  induction ps generalizing d with
  | nil => simp
  | cons p ps ih =>
    simp only [List.foldl_cons]
    obtain ⟨hl, hv⟩ := ih (bump d p)
    have hbl : (bump d p).length = d.length := by simp [bump]
    refine ⟨by rw [hl, hbl], ?_⟩
    intro v hvlt
    rw [hv v (by rw [hbl]; exact hvlt)]
    simp only [bump, getD_set_eq, List.count_cons]
    by_cases h : p = v
    · subst h; simp [hvlt]; omega
    · have : (p == v) = false := by simp [h]
      simp [h, this]

theorem initDepth_fold (preds : Nat → List Nat) (cs : List Nat) (d : List Nat) :
    let r := cs.foldl (fun d c => (preds c).foldl bump d) d
    r.length = d.length ∧
    ∀ v, v < d.length → r.getD v 0 = d.getD v 0 + (cs.map (fun c => (preds c).count v)).sum := by
  induction cs generalizing d with
  | nil => simp
  | cons c cs ih =>
    simp only [List.foldl_cons, List.map_cons, List.sum_cons]
    obtain ⟨hl, hv⟩ := ih ((preds c).foldl bump d)
    obtain ⟨hl1, hv1⟩ := bump_fold (preds c) d
    refine ⟨by rw [hl, hl1], ?_⟩
    intro v hvlt
    rw [hv v (by rw [hl1]; exact hvlt), hv1 v hvlt]
    omega

theorem initDepth_spec (n : Nat) (preds : Nat → List Nat) :
    (initDepth n preds).length = n ∧
    ∀ v, v < n → (initDepth n preds).getD v 0 = deg n preds [] v := by
  obtain ⟨hl, hv⟩ := initDepth_fold preds (List.range n) (List.replicate n 0)
  simp only [List.length_replicate] at hl hv
  refine ⟨hl, ?_⟩
  intro v hvlt
  have := hv v hvlt
  simp only [initDepth]
  rw [this]
  simp [deg, List.getD_eq_getElem?_getD, hvlt]

/-- the inner `for predecessor_node in node_predecessors[current_node]` loop -/
theorem relax_fold (ps : List Nat) (d h : List Nat) (hle : ∀ v, ps.count v ≤ d.getD v 0) :
    (ps.foldl relax1 (d, h)).1.length = d.length ∧
    (∀ v, (ps.foldl relax1 (d, h)).1.getD v 0 = d.getD v 0 - ps.count v) ∧
    ∃ pushed, (ps.foldl relax1 (d, h)).2 = pushed ++ h ∧ pushed.Nodup ∧
      ∀ z, z ∈ pushed ↔ (0 < ps.count z ∧ d.getD z 0 = ps.count z) := by
  induction ps generalizing d h with
  | nil => exact ⟨rfl, by simp, [], by simp⟩
  | cons p ps ih =>
    have hp : ps.count p + 1 ≤ d.getD p 0 := by
      have := hle p; simpa [List.count_cons] using this
    have hplt : p < d.length := getD_pos_lt d p (by omega)
    -- the counters after the decrement
    let d1 := d.set p (d.getD p 0 - 1)
    have hd1 : ∀ v, d1.getD v 0 = if p = v then d.getD p 0 - 1 else d.getD v 0 := by
      intro v; simp only [d1, getD_set_eq]; by_cases h : p = v
      · subst h; simp [hplt]
      · simp [h]
    have hle1 : ∀ v, ps.count v ≤ d1.getD v 0 := by
      intro v; rw [hd1]; by_cases h : p = v
      · subst h; simp; omega
      · have := hle v
        have hb : (p == v) = false := by simp [h]
        simp [List.count_cons, hb] at this; simp [h]; exact this
    have hcnt : ∀ z, (p :: ps).count z = ps.count z + if p = z then 1 else 0 := by
      intro z; simp [List.count_cons]
    simp only [List.foldl_cons]
    by_cases hz : d1.getD p 0 = 0
    · -- pushed
      have hstep : relax1 (d, h) p = (d1, p :: h) := by
        show (if (d1.getD p 0 == 0) = true then (d1, p :: h) else (d1, h)) = (d1, p :: h)
        simp [hz]
      rw [hstep]
      obtain ⟨hl, hv, pushed, hpush, hnd, hmem⟩ := ih d1 (p :: h) hle1
      have hpc : ps.count p = 0 := by have := hd1 p; simp at this; omega
      refine ⟨by rw [hl]; simp [d1], ?_, pushed ++ [p], by rw [hpush]; simp, ?_, ?_⟩
      · intro v; rw [hv, hd1, hcnt]; by_cases hh : p = v <;> simp [hh]; omega
      · rw [List.nodup_append]
        refine ⟨hnd, by simp, ?_⟩
        intro a ha b hb
        simp at hb; subst hb
        intro hab; subst hab
        have := (hmem a).1 ha; omega
      · intro z
        simp only [List.mem_append, List.mem_singleton, hmem, hd1, hcnt]
        by_cases hh : p = z
        · subst hh; simp; have := hd1 p; simp at this; omega
        · have hne : z ≠ p := fun h => hh h.symm
          simp [hh, hne]
    · have hstep : relax1 (d, h) p = (d1, h) := by
        simp only [relax1]; simp [d1] at hz ⊢; simp [hz]
      rw [hstep]
      obtain ⟨hl, hv, pushed, hpush, hnd, hmem⟩ := ih d1 h hle1
      refine ⟨by rw [hl]; simp [d1], ?_, pushed, hpush, hnd, ?_⟩
      · intro v; rw [hv, hd1, hcnt]; by_cases hh : p = v <;> simp [hh]; omega
      · intro z
        simp only [hmem, hd1, hcnt]
        by_cases hh : p = z
        · subst hh; have h1 := hd1 p; rw [if_pos rfl] at h1; simp; rw [← List.count_pos_iff]; omega
        · simp [hh]

/-! ## `deg` -/

theorem sum_map_eq_zero {l : List Nat} {f : Nat → Nat} :
    (l.map f).sum = 0 ↔ ∀ c ∈ l, f c = 0 := by
  induction l with
  | nil => simp
  | cons a l ih => simp [ih]

theorem sum_map_remove {l : List Nat} (f : Nat → Nat) (x : Nat) (hnd : l.Nodup) (hx : x ∈ l) :
    (l.map f).sum = f x + ((l.filter (fun c => !decide (c = x))).map f).sum := by
  induction l with
  | nil => simp at hx
  | cons a l ih =>
    rw [List.nodup_cons] at hnd
    by_cases h : a = x
    · subst h
      have : l.filter (fun c => !decide (c = a)) = l := by
        rw [List.filter_eq_self]; intro c hc; simp; intro hca; subst hca; exact hnd.1 hc
      simp [this]
    · have hx' : x ∈ l := by
        rcases List.mem_cons.1 hx with h1 | h1
        · exact absurd h1.symm h
        · exact h1
      have := ih hnd.2 hx'
      simp [h, this]; omega

theorem deg_eq_zero (n : Nat) (preds : Nat → List Nat) (P : List Nat) (v : Nat) :
    deg n preds P v = 0 ↔ ∀ c, c < n → c ∉ P → v ∉ preds c := by
  simp only [deg, sum_map_eq_zero, List.mem_filter, List.mem_range, List.count_eq_zero,
    decide_eq_true_eq]
  constructor
  · intro h c hc hcP; exact h c ⟨hc, hcP⟩
  · intro h c hc; exact h c hc.1 hc.2

theorem deg_cons (n : Nat) (preds : Nat → List Nat) (P : List Nat) (x v : Nat)
    (hx : x < n) (hxP : x ∉ P) :
    deg n preds P v = (preds x).count v + deg n preds (x :: P) v := by
  have hmem : x ∈ (List.range n).filter (fun c => decide (c ∉ P)) := by
    simp [List.mem_filter, hx, hxP]
  have hnd : ((List.range n).filter (fun c => decide (c ∉ P))).Nodup :=
    List.Nodup.sublist List.filter_sublist List.nodup_range
  have := sum_map_remove (fun c => (preds c).count v) x hnd hmem
  simp only [deg]
  rw [this, List.filter_filter]
  congr 3
  apply List.filter_congr
  intro c _
  simp [List.mem_cons, not_or]

theorem ready_iff_deg (n : Nat) (preds : Nat → List Nat) (P : List Nat) (x : Nat) :
    Ready n preds P x ↔ x < n ∧ x ∉ P ∧ deg n preds P x = 0 := by
  simp only [Ready, deg_eq_zero]
  constructor
  · rintro ⟨h1, h2, h3⟩
    exact ⟨h1, h2, fun c hc hcP hxc => hcP (h3 c hc hxc)⟩
  · rintro ⟨h1, h2, h3⟩
    refine ⟨h1, h2, fun c hc hxc => ?_⟩
    by_contra hcP
    exact h3 c hc hcP hxc

/-! ## `Run` -/

theorem Run.lt {n : Nat} {preds : Nat → List Nat} {P : List Nat} (h : Run n preds P) :
    ∀ x ∈ P, x < n := by
  induction h with
  | nil => simp
  | cons _ hr _ ih =>
    intro y hy
    rcases List.mem_cons.1 hy with h1 | h1
    · subst h1; exact hr.1
    · exact ih y h1

theorem Run.nodup {n : Nat} {preds : Nat → List Nat} {P : List Nat} (h : Run n preds P) :
    P.Nodup := by
  induction h with
  | nil => simp
  | cons _ hr _ ih => exact List.nodup_cons.2 ⟨hr.2.1, ih⟩

/-- children of a popped position are popped -/
theorem Run.closed {n : Nat} {preds : Nat → List Nat} {P : List Nat} (h : Run n preds P) :
    ∀ x ∈ P, ∀ c, c < n → x ∈ preds c → c ∈ P := by
  induction h with
  | nil => simp
  | cons _ hr _ ih =>
    intro y hy c hc hyc
    rcases List.mem_cons.1 hy with h1 | h1
    · subst h1; exact List.mem_cons_of_mem _ (hr.2.2 c hc hyc)
    · exact List.mem_cons_of_mem _ (ih y h1 c hc hyc)

theorem Run.length_le {n : Nat} {preds : Nat → List Nat} {P : List Nat} (h : Run n preds P) :
    P.length ≤ n := by
  have hs : P ⊆ List.range n := fun x hx => List.mem_range.2 (h.lt x hx)
  have := (List.subperm_of_subset h.nodup hs).length_le
  simpa using this

/-- a pop history of full length contains every position -/
theorem Run.complete {n : Nat} {preds : Nat → List Nat} {P : List Nat} (h : Run n preds P)
    (hl : P.length = n) : ∀ y, y < n → y ∈ P := by
  have hs : P ⊆ List.range n := fun x hx => List.mem_range.2 (h.lt x hx)
  have hsp := List.subperm_of_subset h.nodup hs
  have hperm : P.Perm (List.range n) := hsp.perm_of_length_le (by simp [hl])
  intro y hy
  exact hperm.mem_iff.2 (List.mem_range.2 hy)

/-! ## the loop refines `Run` -/

theorem maxOf_none {l : List Nat} (h : maxOf l = none) : l = [] := by
  cases l with
  | nil => rfl
  | cons x xs => simp only [maxOf] at h; split at h <;> simp at h

theorem maxOf_some {l : List Nat} {x : Nat} (h : maxOf l = some x) :
    x ∈ l ∧ ∀ y ∈ l, y ≤ x := by
  induction l generalizing x with
  | nil => simp [maxOf] at h
  | cons a l ih =>
    simp only [maxOf] at h
    split at h
    · rename_i hm
      have := maxOf_none hm
      subst this
      simp at h; subst h; simp
    · rename_i m hm
      obtain ⟨h1, h2⟩ := ih hm
      simp at h
      by_cases hle : m ≤ a
      · simp [hle] at h; subst h
        refine ⟨by simp, ?_⟩
        intro y hy
        rcases List.mem_cons.1 hy with h3 | h3
        · omega
        · exact Nat.le_trans (h2 y h3) hle
      · simp [hle] at h; subst h
        refine ⟨List.mem_cons_of_mem _ h1, ?_⟩
        intro y hy
        rcases List.mem_cons.1 hy with h3 | h3
        · omega
        · exact h2 y h3

/-- loop invariant: the counters count the predecessor-list occurrences among the unpopped
    nodes, the heap holds exactly the ready positions, the popped list is a `Run`. -/
structure Inv (n : Nat) (preds : Nat → List Nat) (s : KState) : Prop where
  run : Run n preds s.out
  dlen : s.depth.length = n
  dval : ∀ v, v < n → s.depth.getD v 0 = deg n preds s.out v
  hnd : s.heap.Nodup
  hiff : ∀ x, x ∈ s.heap ↔ Ready n preds s.out x

theorem inv_init (n : Nat) (preds : Nat → List Nat) :
    Inv n preds ⟨initDepth n preds, initHeap n (initDepth n preds), []⟩ := by
  obtain ⟨hl, hv⟩ := initDepth_spec n preds
  refine ⟨Run.nil, hl, hv, List.Nodup.sublist List.filter_sublist List.nodup_range, ?_⟩
  intro x
  simp only [initHeap, List.mem_filter, List.mem_range, ready_iff_deg, beq_iff_eq]
  constructor
  · rintro ⟨h1, h2⟩; exact ⟨h1, by simp, by rw [← hv x h1]; exact h2⟩
  · rintro ⟨h1, _, h3⟩; exact ⟨h1, by rw [hv x h1]; exact h3⟩

theorem inv_step {n : Nat} {preds : Nat → List Nat} (hp : ∀ c, c < n → ∀ p ∈ preds c, p < n)
    {s s' : KState} (hinv : Inv n preds s) (hs : step preds s = some s') :
    Inv n preds s' ∧ s'.out.length = s.out.length + 1 := by
  simp only [step] at hs
  split at hs
  · simp at hs
  · rename_i x hmax
    simp only [Option.some.injEq] at hs
    subst hs
    obtain ⟨hxh, hxmax⟩ := maxOf_some hmax
    have hrdy : Ready n preds s.out x := (hinv.hiff x).1 hxh
    have hxn := hrdy.1
    have hxP := hrdy.2.1
    have hdeg : ∀ v, deg n preds s.out v = (preds x).count v + deg n preds (x :: s.out) v :=
      fun v => deg_cons n preds s.out x v hxn hxP
    have hle : ∀ v, (preds x).count v ≤ s.depth.getD v 0 := by
      intro v
      by_cases hv : v < n
      · rw [hinv.dval v hv, hdeg v]; omega
      · have : v ∉ preds x := fun hmem => hv (hp x hxn v hmem)
        rw [List.count_eq_zero.2 this]; omega
    obtain ⟨hl, hv, pushed, hpush, hpnd, hpmem⟩ := relax_fold (preds x) s.depth (s.heap.erase x) hle
    have hrun : Run n preds (x :: s.out) :=
      Run.cons hinv.run hrdy (fun y hy => hxmax y ((hinv.hiff y).2 hy))
    have hdval : ∀ v, v < n →
        ((preds x).foldl relax1 (s.depth, s.heap.erase x)).1.getD v 0
          = deg n preds (x :: s.out) v := by
      intro v hvn
      rw [hv v, hinv.dval v hvn, hdeg v]; omega
    -- membership in the pushed part
    have hpm : ∀ z, z ∈ pushed ↔ (z ∈ preds x ∧ deg n preds (x :: s.out) z = 0) := by
      intro z
      rw [hpmem z, List.count_pos_iff]
      constructor
      · rintro ⟨h1, h2⟩
        have hzn := hp x hxn z h1
        rw [hinv.dval z hzn, hdeg z] at h2
        exact ⟨h1, by omega⟩
      · rintro ⟨h1, h2⟩
        have hzn := hp x hxn z h1
        refine ⟨h1, ?_⟩
        rw [hinv.dval z hzn, hdeg z]; omega
    have herase : ∀ z, z ∈ s.heap.erase x ↔ (z ≠ x ∧ Ready n preds s.out z) := by
      intro z; rw [hinv.hnd.mem_erase_iff, hinv.hiff]
    refine ⟨⟨hrun, by rw [hl]; exact hinv.dlen, hdval, ?_, ?_⟩, by simp⟩
    · -- nodup
      show ((preds x).foldl relax1 (s.depth, s.heap.erase x)).2.Nodup
      rw [hpush, List.nodup_append]
      refine ⟨hpnd, hinv.hnd.erase x, ?_⟩
      intro a ha b hb hab
      subst hab
      have h1 := (hpm a).1 ha
      have h2 := ((herase a).1 hb).2
      have h3 := ((ready_iff_deg n preds s.out a).1 h2).2.2
      have h4 := hdeg a
      have : 0 < (preds x).count a := List.count_pos_iff.2 h1.1
      omega
    · intro z
      show z ∈ ((preds x).foldl relax1 (s.depth, s.heap.erase x)).2 ↔ Ready n preds (x :: s.out) z
      rw [hpush, List.mem_append, hpm, herase, ready_iff_deg, ready_iff_deg]
      constructor
      · rintro (⟨h1, h2⟩ | ⟨h1, h2, h3, h4⟩)
        · have hzn := hp x hxn z h1
          refine ⟨hzn, ?_, h2⟩
          intro hmem
          rcases List.mem_cons.1 hmem with h5 | h5
          · subst h5
            -- x ∈ preds x contradicts readiness of x
            exact hxP (hrdy.2.2 z hxn h1)
          · exact hxP (hinv.run.closed z h5 x hxn h1)
        · refine ⟨h2, ?_, ?_⟩
          · intro hmem
            rcases List.mem_cons.1 hmem with h5 | h5
            · exact h1 h5
            · exact h3 h5
          · have := hdeg z; omega
      · rintro ⟨h1, h2, h3⟩
        have hzx : z ≠ x := fun h => h2 (h ▸ List.mem_cons_self)
        have hzP : z ∉ s.out := fun h => h2 (List.mem_cons_of_mem _ h)
        by_cases h0 : deg n preds s.out z = 0
        · exact Or.inr ⟨hzx, h1, hzP, h0⟩
        · left
          refine ⟨?_, h3⟩
          have := hdeg z
          exact List.count_pos_iff.1 (by omega)

theorem inv_loop {n : Nat} {preds : Nat → List Nat} (hp : ∀ c, c < n → ∀ p ∈ preds c, p < n)
    (f : Nat) {s : KState} (hinv : Inv n preds s) (hfuel : n ≤ s.out.length + f) :
    Inv n preds (loop preds f s) ∧ (loop preds f s).heap = [] := by
  induction f generalizing s with
  | zero =>
    refine ⟨hinv, ?_⟩
    show s.heap = []
    have hl : s.out.length = n := Nat.le_antisymm hinv.run.length_le (by simpa using hfuel)
    cases hh : s.heap with
    | nil => rfl
    | cons y ys =>
      have hy : y ∈ s.heap := by rw [hh]; simp
      have hr := (hinv.hiff y).1 hy
      exact absurd (hinv.run.complete hl y hr.1) hr.2.1
  | succ f ih =>
    simp only [loop]
    cases hs : step preds s with
    | none =>
      refine ⟨hinv, ?_⟩
      simp only [step] at hs
      split at hs
      · rename_i hm; exact maxOf_none hm
      · simp at hs
    | some s' =>
      obtain ⟨hinv', hlen⟩ := inv_step hp hinv hs
      exact ih hinv' (by omega)

/-- **refinement**: the popped list of the model loop is a history of "pop the largest ready
    position", and the loop ends only when nothing is ready. -/
theorem kahn_inv {n : Nat} {preds : Nat → List Nat} (hp : ∀ c, c < n → ∀ p ∈ preds c, p < n) :
    Inv n preds (kahnState n preds) ∧ (kahnState n preds).heap = [] := by
  have := inv_loop hp n (inv_init n preds) (by simp)
  simpa [kahnState] using this

theorem kahn_run {n : Nat} {preds : Nat → List Nat} (hp : ∀ c, c < n → ∀ p ∈ preds c, p < n) :
    Run n preds (kahn n preds) := (kahn_inv hp).1.run

theorem kahn_stuck {n : Nat} {preds : Nat → List Nat} (hp : ∀ c, c < n → ∀ p ∈ preds c, p < n) :
    ∀ y, ¬ Ready n preds (kahn n preds) y := by
  intro y hy
  obtain ⟨hinv, hh⟩ := kahn_inv hp
  have := (hinv.hiff y).2 hy
  rw [hh] at this
  simp at this

/-! ## Part 2: consequences of `Run` + "nothing is ready" -/

theorem Before.idxOf_lt {l : List Nat} {a b : Nat} (h : Before l a b) (hnd : l.Nodup) :
    l.idxOf a < l.idxOf b := by
  obtain ⟨l1, l2, rfl, hb⟩ := h
  rw [List.nodup_append] at hnd
  obtain ⟨_, h2, h3⟩ := hnd
  rw [List.nodup_cons] at h2
  have ha1 : a ∉ l1 := fun hm => h3 a hm a (by simp) rfl
  have hb1 : b ∉ l1 := fun hm => h3 b hm b (by simp [hb]) rfl
  have hba : a ≠ b := fun h => h2.1 (h ▸ hb)
  rw [List.idxOf_append, List.idxOf_append, if_neg ha1, if_neg hb1, List.idxOf_cons_self,
    List.idxOf_cons]
  have : (a == b) = false := by simp [hba]
  simp [this]

theorem before_of_idxOf_lt {l : List Nat} (hnd : l.Nodup) {a b : Nat} (ha : a ∈ l) (hb : b ∈ l)
    (h : l.idxOf a < l.idxOf b) : Before l a b := by
  obtain ⟨l1, l2, rfl⟩ := List.mem_iff_append.1 ha
  refine ⟨l1, l2, rfl, ?_⟩
  have ha1 : a ∉ l1 := fun hm => (List.nodup_append.1 hnd).2.2 a hm a (by simp) rfl
  rw [List.idxOf_append, List.idxOf_append, if_neg ha1, List.idxOf_cons_self] at h
  simp only [List.mem_append, List.mem_cons] at hb
  rcases hb with hb | hb | hb
  · rw [if_pos hb] at h
    have := List.idxOf_lt_length_of_mem hb
    omega
  · subst hb; rw [if_neg ha1, List.idxOf_cons_self] at h; omega
  · exact hb

theorem Before.mem_left {α : Type} {l : List α} {a b : α} (h : Before l a b) : a ∈ l := by
  obtain ⟨l1, l2, rfl, _⟩ := h; simp

theorem Before.mem_right {α : Type} {l : List α} {a b : α} (h : Before l a b) : b ∈ l := by
  obtain ⟨l1, l2, rfl, hb⟩ := h; simp [hb]

/-- the dependency relation of the sort: `p` is a predecessor of `c` (both positions) -/
def Edge (n : Nat) (preds : Nat → List Nat) (p c : Nat) : Prop := p < n ∧ c < n ∧ p ∈ preds c

section Spec
variable {n : Nat} {preds : Nat → List Nat}

theorem Run.suffix {l1 l2 : List Nat} (h : Run n preds (l1 ++ l2)) : Run n preds l2 := by
  induction l1 with
  | nil => simpa using h
  | cons a l1 ih =>
    cases h with
    | cons h' _ _ => exact ih h'

/-- what held when `x` was popped -/
theorem Run.at {l1 l2 : List Nat} {x : Nat} (h : Run n preds (l1 ++ x :: l2)) :
    Ready n preds l2 x ∧ ∀ y, Ready n preds l2 y → y ≤ x := by
  have := h.suffix
  cases this with
  | cons _ h1 h2 => exact ⟨h1, h2⟩

/-- in a pop history every node comes (most recent first) before its children: read as the final
    order, predecessors come before the nodes that depend on them -/
theorem Run.respects {P : List Nat} (h : Run n preds P) {p c : Nat} (hp : p ∈ P)
    (he : Edge n preds p c) : Before P p c := by
  obtain ⟨l1, l2, rfl⟩ := List.mem_iff_append.1 hp
  exact ⟨l1, l2, rfl, (h.at).1.2.2 c he.2.1 he.2.2⟩

theorem Run.transGen_before {P : List Nat} (h : Run n preds P) (hc : ∀ y, y < n → y ∈ P)
    {x y : Nat} (hxy : Relation.TransGen (Edge n preds) x y) : P.idxOf x < P.idxOf y := by
  induction hxy with
  | single he => exact (h.respects (hc _ he.1) he).idxOf_lt h.nodup
  | tail _ he ih => exact Nat.lt_trans ih ((h.respects (hc _ he.1) he).idxOf_lt h.nodup)

theorem transGen_edge_lt {x y : Nat} (h : Relation.TransGen (Edge n preds) x y) : x < n ∧ y < n := by
  induction h with
  | single he => exact ⟨he.1, he.2.1⟩
  | tail _ he ih => exact ⟨ih.1, he.2.1⟩

theorem exists_maximal {R : Nat → Nat → Prop} (htrans : ∀ a b c, R a b → R b c → R a c)
    (hirr : ∀ a, ¬ R a a) : ∀ l : List Nat, l ≠ [] → ∃ m ∈ l, ∀ y ∈ l, ¬ R m y := by
  intro l
  induction l with
  | nil => intro h; exact absurd rfl h
  | cons a l ih =>
    intro _
    by_cases hl : l = []
    · subst hl; exact ⟨a, by simp, by simpa using hirr a⟩
    · obtain ⟨m, hm, hmax⟩ := ih hl
      by_cases hma : R m a
      · refine ⟨a, by simp, ?_⟩
        intro y hy
        rcases List.mem_cons.1 hy with h1 | h1
        · subst h1; exact hirr _
        · intro hay; exact hmax y h1 (htrans _ _ _ hma hay)
      · refine ⟨m, List.mem_cons_of_mem _ hm, ?_⟩
        intro y hy
        rcases List.mem_cons.1 hy with h1 | h1
        · subst h1; exact hma
        · exact hmax y h1

/-- a stuck history that misses a position exhibits a dependency cycle -/
theorem stuck_cycle {P : List Nat} (hstuck : ∀ y, ¬ Ready n preds P y)
    {z : Nat} (hz : z < n) (hzP : z ∉ P) : ∃ x, Relation.TransGen (Edge n preds) x x := by
  by_contra hno
  have hirr : ∀ a, ¬ Relation.TransGen (Edge n preds) a a := fun a h => hno ⟨a, h⟩
  let Z := (List.range n).filter (fun c => decide (c ∉ P))
  have hZ : Z ≠ [] := by
    intro h
    have : z ∈ Z := by simp [Z, hz, hzP]
    rw [h] at this; simp at this
  obtain ⟨m, hm, hmax⟩ := exists_maximal (fun _ _ _ => Relation.TransGen.trans) hirr Z hZ
  have hm' : m < n ∧ m ∉ P := by simpa [Z] using hm
  have hnr := hstuck m
  simp only [Ready, not_and, not_forall] at hnr
  obtain ⟨c, hc, hmc, hcP⟩ := hnr hm'.1 hm'.2
  have hcZ : c ∈ Z := by simp [Z, hc, hcP]
  exact hmax c hcZ (Relation.TransGen.single ⟨hm'.1, hc, hmc⟩)

theorem exists_last_sat (S : Nat → Prop) : ∀ l : List Nat, (∃ x ∈ l, S x) →
    ∃ l1 x l2, l = l1 ++ x :: l2 ∧ S x ∧ ∀ y ∈ l2, ¬ S y := by
  intro l
  induction l with
  | nil => simp
  | cons c t ih =>
    intro hex
    by_cases ht : ∃ x ∈ t, S x
    · obtain ⟨l1, x, l2, rfl, hx, hl⟩ := ih ht
      exact ⟨c :: l1, x, l2, by simp, hx, hl⟩
    · obtain ⟨x, hx, hSx⟩ := hex
      rcases List.mem_cons.1 hx with h1 | h1
      · subst h1
        exact ⟨[], x, t, by simp, hSx, fun y hy hSy => ht ⟨y, hy, hSy⟩⟩
      · exact absurd ⟨x, h1, hSx⟩ ht

/-- **stability, abstractly.**  If `S` is a set of positions larger than `a` that is closed under
    "child of", except for children that `a` has too, then a complete pop history pops all of `S`
    before `a`. -/
theorem Run.stable {P : List Nat} (h : Run n preds P) (hc : ∀ y, y < n → y ∈ P)
    (a : Nat) (S : Nat → Prop) (hS : ∀ x, S x → a < x ∧ x < n)
    (hcl : ∀ x c, S x → c < n → x ∈ preds c → S c ∨ a ∈ preds c)
    {l1 l2 : List Nat} (hP : P = l1 ++ a :: l2) : ∀ b, S b → b ∈ l2 := by
  subst hP
  have hnone : ∀ x ∈ l1, ¬ S x := by
    intro x0 hx0 hSx0
    obtain ⟨l1', x, l1'', rfl, hSx, hlast⟩ := exists_last_sat S l1 ⟨x0, hx0, hSx0⟩
    have hrun : Run n preds (l1' ++ x :: (l1'' ++ a :: l2)) := by simpa using h
    have hx := hrun.at.1
    have ha : Run n preds ((l1' ++ x :: l1'') ++ a :: l2) := by simpa using h
    obtain ⟨hra, hamax⟩ := ha.at
    have hnd := h.nodup
    have hxl2 : x ∉ l2 := by
      intro hm
      have : (l1' ++ x :: (l1'' ++ a :: l2)).Nodup := hrun.nodup
      rw [List.nodup_append, List.nodup_cons] at this
      exact this.2.1.1 (by simp [hm])
    have hready : Ready n preds l2 x := by
      refine ⟨hx.1, hxl2, ?_⟩
      intro c hc hxc
      have hcm := hx.2.2 c hc hxc
      rcases hcl x c hSx hc hxc with hSc | hac
      · simp only [List.mem_append, List.mem_cons] at hcm
        rcases hcm with h1 | h1 | h1
        · exact absurd hSc (hlast c h1)
        · subst h1; exact absurd (hS c hSc).1 (Nat.lt_irrefl _)
        · exact h1
      · exact hra.2.2 c hc hac
    have := hamax x hready
    have := (hS x hSx).1
    omega
  intro b hb
  have hbP := hc b (hS b hb).2
  simp only [List.mem_append, List.mem_cons] at hbP
  rcases hbP with h1 | h1 | h1
  · exact absurd hb (hnone b h1)
  · exact absurd (hS b hb).1 (by omega)
  · exact h1

end Spec

end IrVerif.Sort

/-
Helper development for C18_captures_exact: the implicit-usage analysis
(`analyze_implicit_usage`, model functions `procN/procGs/procG/procNs/analyze`).
-/
import IrVerif.Lemmas.Extract
set_option linter.unusedSimpArgs false
namespace IrVerif.Extract

/-- `v` is recorded for graph `k` -/
def Usages.Has (u : Usages) (k : GId) (x : VId) : Prop := ∃ vs, u.lookup k = some vs ∧ x ∈ vs
def Usages.HasKey (u : Usages) (k : GId) : Prop := ∃ vs, u.lookup k = some vs

theorem mem_addSet {xs : List Nat} {x y : Nat} : y ∈ addSet xs x ↔ y ∈ xs ∨ y = x := by
  unfold addSet
  by_cases h : x ∈ xs
  · simp only [h, if_true]
    constructor
    · exact Or.inl
    · rintro (h' | rfl)
      · exact h'
      · exact h
  · simp [h]

theorem lookup_add (u : Usages) (g : GId) (v : VId) (k : GId) :
    (u.add g v).lookup k = (u.lookup k).map (fun vs => if k = g then addSet vs v else vs) := by
  unfold Usages.add
  induction u with
  | nil => simp
  | cons e t ih =>
    obtain ⟨a, b⟩ := e
    simp only [List.map_cons]
    by_cases hag : a = g
    · subst hag
      simp only [BEq.rfl, if_true]
      by_cases hk : k = a
      · subst hk; simp [List.lookup_cons]
      · have : (k == a) = false := by simpa using hk
        simp only [List.lookup_cons, this]
        exact ih
    · have hag' : (a == g) = false := by simpa using hag
      simp only [hag', Bool.false_eq_true, if_false]
      by_cases hk : k = a
      · subst hk; simp [List.lookup_cons, hag]
      · have : (k == a) = false := by simpa using hk
        simp only [List.lookup_cons, this]
        exact ih

theorem has_add {u : Usages} {g : GId} {v : VId} {k : GId} {x : VId} :
    (u.add g v).Has k x ↔ u.Has k x ∨ (x = v ∧ k = g ∧ u.HasKey g) := by
  unfold Usages.Has Usages.HasKey
  rw [lookup_add]
  cases hl : u.lookup k with
  | none =>
    simp only [Option.map_none, reduceCtorEq, false_and, exists_false, false_or]
    constructor
    · intro h; cases h
    · rintro ⟨_, rfl, vs, h⟩; rw [hl] at h; cases h
  | some vs =>
    simp only [Option.map_some, Option.some.injEq, exists_eq_left']
    by_cases hk : k = g
    · subst hk
      simp only [if_true, mem_addSet, hl, Option.some.injEq, exists_eq', and_true, true_and]
    · simp only [hk, if_false, false_and, and_false, or_false]

theorem hasKey_add {u : Usages} {g : GId} {v : VId} {k : GId} :
    (u.add g v).HasKey k ↔ u.HasKey k := by
  unfold Usages.HasKey
  rw [lookup_add]
  cases u.lookup k <;> simp

theorem any_key_iff (u : Usages) (g : GId) :
    u.any (fun kv => kv.1 == g) = true ↔ u.HasKey g := by
  unfold Usages.HasKey
  induction u with
  | nil => simp
  | cons e t ih =>
    obtain ⟨a, b⟩ := e
    by_cases h : g = a
    · subst h; simp [List.lookup_cons]
    · have h1 : (g == a) = false := by simpa using h
      have h2 : (a == g) = false := by simpa using (fun e : a = g => h e.symm)
      simp only [List.any_cons, h2, Bool.false_or, List.lookup_cons, h1]
      exact ih

theorem lookup_append_new (u : Usages) (g k : GId) (h : u.lookup g = none) :
    (u ++ [(g, [])]).lookup k = if k = g then some [] else u.lookup k := by
  induction u with
  | nil =>
    by_cases hk : k = g
    · subst hk; simp [List.lookup_cons]
    · have : (k == g) = false := by simpa using hk
      simp [List.lookup_cons, this, hk]
  | cons e t ih =>
    obtain ⟨a, b⟩ := e
    by_cases hga : g = a
    · subst hga; simp [List.lookup_cons] at h
    · have h1 : (g == a) = false := by simpa using hga
      simp only [List.lookup_cons, h1] at h
      by_cases hka : k = a
      · subst hka
        have : ¬ k = g := fun e => hga e.symm
        simp [List.lookup_cons, this]
      · have h2 : (k == a) = false := by simpa using hka
        simp only [List.cons_append, List.lookup_cons, h2]
        exact ih h

theorem has_addKey {u : Usages} {g k : GId} {x : VId} : (u.addKey g).Has k x ↔ u.Has k x := by
  unfold Usages.addKey
  by_cases h : u.any (fun kv => kv.1 == g) = true
  · simp [h]
  · simp only [h, Bool.false_eq_true, if_false]
    have hn : u.lookup g = none := by
      cases hl : u.lookup g with
      | none => rfl
      | some vs => exact absurd ((any_key_iff u g).mpr ⟨vs, hl⟩) h
    unfold Usages.Has
    rw [lookup_append_new u g k hn]
    by_cases hk : k = g
    · subst hk; simp [hn]
    · simp [hk]

theorem hasKey_addKey {u : Usages} {g k : GId} : (u.addKey g).HasKey k ↔ u.HasKey k ∨ k = g := by
  unfold Usages.addKey
  by_cases h : u.any (fun kv => kv.1 == g) = true
  · simp only [h, if_true]
    have := (any_key_iff u g).mp h
    constructor
    · exact Or.inl
    · rintro (h' | rfl)
      · exact h'
      · exact this
  · simp only [h, Bool.false_eq_true, if_false]
    have hn : u.lookup g = none := by
      cases hl : u.lookup g with
      | none => rfl
      | some vs => exact absurd ((any_key_iff u g).mpr ⟨vs, hl⟩) h
    unfold Usages.HasKey
    rw [lookup_append_new u g k hn]
    by_cases hk : k = g
    · subst hk; simp
    · simp [hk]

/-- the graphs on `chain` (innermost first) that lie strictly inside the graph owning `v` -/
def AddsTo (W : World) (chain : List GId) (v : VId) (k : GId) : Prop :=
  k ∈ chain.takeWhile (fun g => !(W.graphOf v == some g))

theorem addChain_keys {W : World} {v : VId} {k : GId} : ∀ (chain : List GId) (u : Usages),
    (addChain W v chain u).HasKey k ↔ u.HasKey k
  | [], u => by simp [addChain]
  | g :: gs, u => by
    unfold addChain
    by_cases h : (W.graphOf v == some g) = true
    · simp [h]
    · simp only [h, Bool.false_eq_true, if_false]
      rw [addChain_keys gs, hasKey_add]

theorem addChain_has {W : World} {v : VId} {k : GId} {x : VId} : ∀ (chain : List GId) (u : Usages),
    (∀ g, g ∈ chain → u.HasKey g) →
    ((addChain W v chain u).Has k x ↔ u.Has k x ∨ (x = v ∧ AddsTo W chain v k))
  | [], u, _ => by simp [addChain, AddsTo]
  | g :: gs, u, hk => by
    unfold addChain AddsTo
    by_cases h : (W.graphOf v == some g) = true
    · simp [h, List.takeWhile_cons]
    · simp only [h, Bool.false_eq_true, if_false]
      have hk' : ∀ g', g' ∈ gs → (u.add g v).HasKey g' :=
        fun g' hg' => hasKey_add.mpr (hk g' (List.mem_cons_of_mem _ hg'))
      rw [addChain_has gs (u.add g v) hk', has_add]
      have hg : u.HasKey g := hk g List.mem_cons_self
      have hb : (!(W.graphOf v == some g)) = true := by simpa using h
      simp only [List.takeWhile_cons, hb, if_true, List.mem_cons, AddsTo]
      constructor
      · rintro ((h1 | ⟨rfl, rfl, _⟩) | ⟨rfl, h2⟩)
        · exact Or.inl h1
        · exact Or.inr ⟨rfl, Or.inl rfl⟩
        · exact Or.inr ⟨rfl, Or.inr h2⟩
      · rintro (h1 | ⟨rfl, (rfl | h2)⟩)
        · exact Or.inl (Or.inl h1)
        · exact Or.inl (Or.inr ⟨rfl, rfl, hg⟩)
        · exact Or.inr ⟨rfl, h2⟩

theorem collectNode_eq (W : World) (sub : GId) (inner : List GId) (root : GId) (n : NodeT) (u : Usages) :
    collectNode W sub (sub :: (inner ++ [root])) n u
      = n.ins.foldl (fun u v => addChain W v (sub :: inner) u) u := by
  unfold collectNode
  have hd : (sub :: (inner ++ [root])).dropLast = sub :: inner := by
    rw [← List.cons_append, List.dropLast_concat]
  rw [hd]
  congr 1
  funext u v
  by_cases h : (W.graphOf v == some sub) = true
  · simp [h, addChain]
  · simp [h]

theorem foldl_addChain_keys {W : World} {chain : List GId} {k : GId} : ∀ (ins : List VId) (u : Usages),
    (ins.foldl (fun u v => addChain W v chain u) u).HasKey k ↔ u.HasKey k
  | [], u => by simp
  | v :: vs, u => by
    simp only [List.foldl_cons]
    rw [foldl_addChain_keys vs, addChain_keys]

theorem foldl_addChain_has {W : World} {chain : List GId} {k : GId} {x : VId} :
    ∀ (ins : List VId) (u : Usages), (∀ g, g ∈ chain → u.HasKey g) →
    ((ins.foldl (fun u v => addChain W v chain u) u).Has k x ↔
      u.Has k x ∨ (x ∈ ins ∧ AddsTo W chain x k))
  | [], u, _ => by simp
  | v :: vs, u, hk => by
    simp only [List.foldl_cons]
    have hk' : ∀ g, g ∈ chain → (addChain W v chain u).HasKey g :=
      fun g hg => (addChain_keys chain u).mpr (hk g hg)
    rw [foldl_addChain_has vs _ hk', addChain_has chain u hk]
    simp only [List.mem_cons]
    constructor
    · rintro ((h | ⟨rfl, h⟩) | ⟨h1, h2⟩)
      · exact Or.inl h
      · exact Or.inr ⟨Or.inl rfl, h⟩
      · exact Or.inr ⟨Or.inr h1, h2⟩
    · rintro (h | ⟨(rfl | h1), h2⟩)
      · exact Or.inl (Or.inl h)
      · exact Or.inl (Or.inr ⟨rfl, h2⟩)
      · exact Or.inr ⟨h1, h2⟩

/-- declarative reading of what processing the graph attribute `b` records: `inner` are the nested graphs
    enclosing `b` (innermost first, the analysed root excluded).  A value used by a node of a graph `c`
    reached from `b` is recorded for the graphs on the path from `c` outwards, up to (excluding) the graph
    that owns the value. -/
inductive CapG (W : World) : List GId → GraphT → GId → VId → Prop
  | here {inner : List GId} {b : GraphT} {n : NodeT} {k : GId} {v : VId} :
      n ∈ b.nodes → some v ∈ n.inputs → AddsTo W (b.gid :: inner) v k → CapG W inner b k v
  | deeper {inner : List GId} {b c : GraphT} {n : NodeT} {k : GId} {v : VId} :
      n ∈ b.nodes → c ∈ n.bodies → CapG W (b.gid :: inner) c k v → CapG W inner b k v

/-- what one node of a graph with id `sub` contributes -/
def CapNode (W : World) (chain : List GId) (n : NodeT) (k : GId) (v : VId) : Prop :=
  (some v ∈ n.inputs ∧ AddsTo W chain v k) ∨ ∃ c, c ∈ n.bodies ∧ CapG W chain c k v

theorem capG_iff {W : World} {inner : List GId} {b : GraphT} {k : GId} {v : VId} :
    CapG W inner b k v ↔ ∃ n, n ∈ b.nodes ∧ CapNode W (b.gid :: inner) n k v := by
  constructor
  · intro h
    cases h with
    | here hn hv ha => exact ⟨_, hn, Or.inl ⟨hv, ha⟩⟩
    | deeper hn hc h => exact ⟨_, hn, Or.inr ⟨_, hc, h⟩⟩
  · rintro ⟨n, hn, (⟨hv, ha⟩ | ⟨c, hc, h⟩)⟩
    · exact CapG.here hn hv ha
    · exact CapG.deeper hn hc h

mutual
  theorem procN_spec (W : World) (root : GId) (k : GId) (x : VId) :
      ∀ (n : NodeT) (inner : List GId) (u : Usages), (∀ g, g ∈ inner → u.HasKey g) →
      (((procN W (inner ++ [root]) u n).Has k x ↔ u.Has k x ∨ ∃ b, b ∈ n.bodies ∧ CapG W inner b k x) ∧
       (∀ g, (procN W (inner ++ [root]) u n).HasKey g ↔ u.HasKey g ∨ ∃ b, b ∈ n.bodies ∧ NestedIn b g))
    | .mk ins outs bs, inner, u, hk => by
      rw [procN]
      exact procGs_spec W root k x bs inner u hk
  theorem procGs_spec (W : World) (root : GId) (k : GId) (x : VId) :
      ∀ (bs : List GraphT) (inner : List GId) (u : Usages), (∀ g, g ∈ inner → u.HasKey g) →
      (((procGs W (inner ++ [root]) u bs).Has k x ↔ u.Has k x ∨ ∃ b, b ∈ bs ∧ CapG W inner b k x) ∧
       (∀ g, (procGs W (inner ++ [root]) u bs).HasKey g ↔ u.HasKey g ∨ ∃ b, b ∈ bs ∧ NestedIn b g))
    | [], inner, u, hk => by simp [procGs]
    | b :: bs, inner, u, hk => by
      rw [procGs]
      have h1 := procG_spec W root k x b inner u hk
      have hk' : ∀ g, g ∈ inner → (procG W (inner ++ [root]) u b).HasKey g :=
        fun g hg => (h1.2 g).mpr (Or.inl (hk g hg))
      have h2 := procGs_spec W root k x bs inner _ hk'
      constructor
      · rw [h2.1, h1.1]
        simp only [List.mem_cons]
        constructor
        · rintro ((h | h) | ⟨c, hc, h⟩)
          · exact Or.inl h
          · exact Or.inr ⟨b, Or.inl rfl, h⟩
          · exact Or.inr ⟨c, Or.inr hc, h⟩
        · rintro (h | ⟨c, (rfl | hc), h⟩)
          · exact Or.inl (Or.inl h)
          · exact Or.inl (Or.inr h)
          · exact Or.inr ⟨c, hc, h⟩
      · intro g
        rw [h2.2 g, h1.2 g]
        simp only [List.mem_cons]
        constructor
        · rintro ((h | h) | ⟨c, hc, h⟩)
          · exact Or.inl h
          · exact Or.inr ⟨b, Or.inl rfl, h⟩
          · exact Or.inr ⟨c, Or.inr hc, h⟩
        · rintro (h | ⟨c, (rfl | hc), h⟩)
          · exact Or.inl (Or.inl h)
          · exact Or.inl (Or.inr h)
          · exact Or.inr ⟨c, hc, h⟩
  theorem procG_spec (W : World) (root : GId) (k : GId) (x : VId) :
      ∀ (b : GraphT) (inner : List GId) (u : Usages), (∀ g, g ∈ inner → u.HasKey g) →
      (((procG W (inner ++ [root]) u b).Has k x ↔ u.Has k x ∨ CapG W inner b k x) ∧
       (∀ g, (procG W (inner ++ [root]) u b).HasKey g ↔ u.HasKey g ∨ NestedIn b g))
    | .mk gid i w o ns, inner, u, hk => by
      rw [procG]
      have hk' : ∀ g, g ∈ gid :: inner → (u.addKey gid).HasKey g := by
        intro g hg
        rcases List.mem_cons.mp hg with rfl | hg
        · exact hasKey_addKey.mpr (Or.inr rfl)
        · exact hasKey_addKey.mpr (Or.inl (hk g hg))
      have h := procNs_spec W root k x ns gid inner (u.addKey gid) hk'
      constructor
      · rw [h.1, has_addKey, capG_iff]
        simp
      · intro g
        rw [h.2 g, hasKey_addKey]
        constructor
        · rintro ((h | rfl) | ⟨n, hn, c, hc, h⟩)
          · exact Or.inl h
          · exact Or.inr (NestedIn.self (b := .mk g i w o ns))
          · exact Or.inr (NestedIn.deeper (b := .mk gid i w o ns) hn hc h)
        · rintro (h | h)
          · exact Or.inl (Or.inl h)
          · cases h with
            | self => exact Or.inl (Or.inr rfl)
            | deeper hn hc h => exact Or.inr ⟨_, hn, _, hc, h⟩
  theorem procNs_spec (W : World) (root : GId) (k : GId) (x : VId) :
      ∀ (ns : List NodeT) (sub : GId) (inner : List GId) (u : Usages),
      (∀ g, g ∈ sub :: inner → u.HasKey g) →
      (((procNs W sub (sub :: (inner ++ [root])) u ns).Has k x ↔
          u.Has k x ∨ ∃ n, n ∈ ns ∧ CapNode W (sub :: inner) n k x) ∧
       (∀ g, (procNs W sub (sub :: (inner ++ [root])) u ns).HasKey g ↔
          u.HasKey g ∨ ∃ n, n ∈ ns ∧ ∃ c, c ∈ n.bodies ∧ NestedIn c g))
    | [], sub, inner, u, hk => by simp [procNs]
    | n :: ns, sub, inner, u, hk => by
      rw [procNs, collectNode_eq]
      have hc1 := foldl_addChain_has (W := W) (k := k) (x := x) n.ins u hk
      have hck : ∀ g, (n.ins.foldl (fun u v => addChain W v (sub :: inner) u) u).HasKey g ↔ u.HasKey g :=
        fun g => foldl_addChain_keys n.ins u
      have hk1 : ∀ g, g ∈ sub :: inner →
          (n.ins.foldl (fun u v => addChain W v (sub :: inner) u) u).HasKey g :=
        fun g hg => (hck g).mpr (hk g hg)
      have h1 := procN_spec W root k x n (sub :: inner) _ hk1
      rw [List.cons_append] at h1
      have hk2 : ∀ g, g ∈ sub :: inner →
          (procN W (sub :: (inner ++ [root]))
            (n.ins.foldl (fun u v => addChain W v (sub :: inner) u) u) n).HasKey g :=
        fun g hg => (h1.2 g).mpr (Or.inl (hk1 g hg))
      have h2 := procNs_spec W root k x ns sub inner _ hk2
      constructor
      · rw [h2.1, h1.1, hc1]
        simp only [List.mem_cons, CapNode, mem_ins]
        constructor
        · rintro (((h | h) | h) | ⟨m, hm, h⟩)
          · exact Or.inl h
          · exact Or.inr ⟨n, Or.inl rfl, Or.inl h⟩
          · exact Or.inr ⟨n, Or.inl rfl, Or.inr h⟩
          · exact Or.inr ⟨m, Or.inr hm, h⟩
        · rintro (h | ⟨m, (rfl | hm), h⟩)
          · exact Or.inl (Or.inl (Or.inl h))
          · rcases h with h | h
            · exact Or.inl (Or.inl (Or.inr h))
            · exact Or.inl (Or.inr h)
          · exact Or.inr ⟨m, hm, h⟩
      · intro g
        rw [h2.2 g, h1.2 g, hck g]
        simp only [List.mem_cons]
        constructor
        · rintro ((h | h) | ⟨m, hm, h⟩)
          · exact Or.inl h
          · exact Or.inr ⟨n, Or.inl rfl, h⟩
          · exact Or.inr ⟨m, Or.inr hm, h⟩
        · rintro (h | ⟨m, (rfl | hm), h⟩)
          · exact Or.inl (Or.inl h)
          · exact Or.inl (Or.inr h)
          · exact Or.inr ⟨m, hm, h⟩
end

theorem mem_get {u : Usages} {k : GId} {x : VId} : x ∈ u.get k ↔ u.Has k x := by
  unfold Usages.get Usages.Has
  cases u.lookup k <;> simp

theorem foldl_procN_spec (W : World) (root : GId) (k : GId) (x : VId) :
    ∀ (ns : List NodeT) (u : Usages),
    (((ns.foldl (fun u n => procN W [root] u n) u).Has k x ↔
        u.Has k x ∨ ∃ n, n ∈ ns ∧ ∃ b, b ∈ n.bodies ∧ CapG W [] b k x) ∧
     (∀ g, (ns.foldl (fun u n => procN W [root] u n) u).HasKey g ↔
        u.HasKey g ∨ ∃ n, n ∈ ns ∧ ∃ b, b ∈ n.bodies ∧ NestedIn b g))
  | [], u => by simp
  | n :: ns, u => by
    simp only [List.foldl_cons]
    have h1 := procN_spec W root k x n [] u (by intro g hg; cases hg)
    simp only [List.nil_append] at h1
    have h2 := foldl_procN_spec W root k x ns (procN W [root] u n)
    constructor
    · rw [h2.1, h1.1]
      simp only [List.mem_cons]
      constructor
      · rintro ((h | h) | ⟨m, hm, h⟩)
        · exact Or.inl h
        · exact Or.inr ⟨n, Or.inl rfl, h⟩
        · exact Or.inr ⟨m, Or.inr hm, h⟩
      · rintro (h | ⟨m, (rfl | hm), h⟩)
        · exact Or.inl (Or.inl h)
        · exact Or.inl (Or.inr h)
        · exact Or.inr ⟨m, hm, h⟩
    · intro g
      rw [h2.2 g, h1.2 g]
      simp only [List.mem_cons]
      constructor
      · rintro ((h | h) | ⟨m, hm, h⟩)
        · exact Or.inl h
        · exact Or.inr ⟨n, Or.inl rfl, h⟩
        · exact Or.inr ⟨m, Or.inr hm, h⟩
      · rintro (h | ⟨m, (rfl | hm), h⟩)
        · exact Or.inl (Or.inl h)
        · exact Or.inl (Or.inr h)
        · exact Or.inr ⟨m, hm, h⟩

/-! ## reading `CapG` as "free variables of a nested graph" -/

/-- `s` is `b` or a graph nested in `b` at any depth -/
inductive SubG : GraphT → GraphT → Prop
  | self {b : GraphT} : SubG b b
  | deeper {b c s : GraphT} {n : NodeT} : n ∈ b.nodes → c ∈ n.bodies → SubG c s → SubG b s

/-- no graph of the subtree of `c` owns `v` -/
def NoOwn (W : World) (c : GraphT) (v : VId) : Prop := ∀ j, NestedIn c j → W.graphOf v ≠ some j

theorem addsTo_cons_of_ne {W : World} {g : GId} {chain : List GId} {v : VId} {k : GId}
    (hne : W.graphOf v ≠ some g) (h : AddsTo W chain v k) : AddsTo W (g :: chain) v k := by
  unfold AddsTo at *
  have : (!(W.graphOf v == some g)) = true := by simpa using hne
  simp only [List.takeWhile_cons, this, if_true]
  exact List.mem_cons_of_mem _ h

theorem addsTo_self {W : World} {g : GId} {chain : List GId} {v : VId}
    (hne : W.graphOf v ≠ some g) : AddsTo W (g :: chain) v g := by
  unfold AddsTo
  have : (!(W.graphOf v == some g)) = true := by simpa using hne
  simp only [List.takeWhile_cons, this, if_true]
  exact List.mem_cons_self

theorem addsTo_ne {W : World} {chain : List GId} {v : VId} {k : GId} (h : AddsTo W chain v k) :
    W.graphOf v ≠ some k := by
  unfold AddsTo at h
  induction chain with
  | nil => cases h
  | cons g t ih =>
    by_cases hg : (!(W.graphOf v == some g)) = true
    · simp only [List.takeWhile_cons, hg, if_true] at h
      rcases List.mem_cons.mp h with rfl | h'
      · simpa using hg
      · exact ih h'
    · simp [List.takeWhile_cons, hg] at h

theorem addsTo_mem {W : World} {chain : List GId} {v : VId} {k : GId} (h : AddsTo W chain v k) :
    k ∈ chain := (List.takeWhile_sublist _).subset h

mutual
  /-- completeness: a value used in `c` or deeper and owned by no graph of the subtree of `c` is recorded
      for `c` and for every enclosing graph up to the owner -/
  theorem capG_of_used (W : World) (v : VId) (k : GId) :
      ∀ (c : GraphT) (inner : List GId), UsedInG c v → NoOwn W c v → AddsTo W (c.gid :: inner) v k →
        CapG W inner c k v
    | .mk gid i w o ns, inner, hu, hno, hk => by
      cases hu with
      | node hn hun =>
        obtain ⟨n, hn', hc⟩ := capNs_of_used W v k ns (gid :: inner) ⟨_, hn, hun⟩
          (fun n hn b hb j hj => hno j (NestedIn.deeper (b := .mk gid i w o ns) hn hb hj)) hk
        exact capG_iff.mpr ⟨n, hn', hc⟩
  theorem capNs_of_used (W : World) (v : VId) (k : GId) :
      ∀ (ns : List NodeT) (chain : List GId), (∃ n, n ∈ ns ∧ UsedInN n v) →
        (∀ n, n ∈ ns → ∀ b, b ∈ n.bodies → NoOwn W b v) → AddsTo W chain v k →
        ∃ n, n ∈ ns ∧ CapNode W chain n k v
    | [], _, ⟨_, hn, _⟩, _, _ => by cases hn
    | n :: ns, chain, ⟨m, hm, hu⟩, hno, hk => by
      rcases List.mem_cons.mp hm with heq | hm'
      · have hu' : UsedInN n v := heq ▸ hu
        exact ⟨n, List.mem_cons_self,
          capN_of_used W v k n chain hu' (fun b hb => hno n List.mem_cons_self b hb) hk⟩
      · obtain ⟨n', hn', hc⟩ := capNs_of_used W v k ns chain ⟨m, hm', hu⟩
          (fun n hn => hno n (List.mem_cons_of_mem _ hn)) hk
        exact ⟨n', List.mem_cons_of_mem _ hn', hc⟩
  theorem capN_of_used (W : World) (v : VId) (k : GId) :
      ∀ (n : NodeT) (chain : List GId), UsedInN n v → (∀ b, b ∈ n.bodies → NoOwn W b v) →
        AddsTo W chain v k → CapNode W chain n k v
    | .mk ins outs bs, chain, hu, hno, hk => by
      cases hu with
      | direct hd => exact Or.inl ⟨hd, hk⟩
      | nested hb hub =>
        obtain ⟨c, hc, hcap⟩ := capGs_of_used W v k bs chain ⟨_, hb, hub⟩ hno hk
        exact Or.inr ⟨c, hc, hcap⟩
  theorem capGs_of_used (W : World) (v : VId) (k : GId) :
      ∀ (bs : List GraphT) (chain : List GId), (∃ b, b ∈ bs ∧ UsedInG b v) →
        (∀ b, b ∈ bs → NoOwn W b v) → AddsTo W chain v k → ∃ c, c ∈ bs ∧ CapG W chain c k v
    | [], _, ⟨_, hb, _⟩, _, _ => by cases hb
    | b :: bs, chain, ⟨c, hc, hu⟩, hno, hk => by
      rcases List.mem_cons.mp hc with heq | hc'
      · have hu' : UsedInG b v := heq ▸ hu
        have hself : W.graphOf v ≠ some b.gid := hno b List.mem_cons_self b.gid NestedIn.self
        exact ⟨b, List.mem_cons_self,
          capG_of_used W v k b chain hu' (hno b List.mem_cons_self) (addsTo_cons_of_ne hself hk)⟩
      · obtain ⟨c', hc'', hcap⟩ := capGs_of_used W v k bs chain ⟨c, hc', hu⟩
          (fun b hb => hno b (List.mem_cons_of_mem _ hb)) hk
        exact ⟨c', List.mem_cons_of_mem _ hc'', hcap⟩
end

/-- what is recorded below a nested graph is recorded at the top -/
theorem capG_lift {W : World} {b s : GraphT} (h : SubG b s) :
    ∃ path : List GId, ∀ (inner : List GId) (k : GId) (v : VId),
      CapG W (path ++ inner) s k v → CapG W inner b k v := by
  induction h with
  | self => exact ⟨[], fun _ _ _ h => h⟩
  | @deeper b c s n hn hc _ ih =>
    obtain ⟨path, hp⟩ := ih
    refine ⟨path ++ [b.gid], ?_⟩
    intro inner k v hcap
    rw [List.append_assoc] at hcap
    exact CapG.deeper hn hc (hp (b.gid :: inner) k v hcap)

theorem capG_used {W : World} {inner : List GId} {b : GraphT} {k : GId} {v : VId}
    (h : CapG W inner b k v) : UsedInG b v := by
  induction h with
  | here hn hv _ => exact UsedInG.node hn (UsedInN.direct hv)
  | deeper hn hc _ ih => exact UsedInG.node hn (UsedInN.nested hc ih)

/-- soundness: a recorded value is used in or below a graph with that id (or the id is one of the
    enclosing graphs), and the graph with that id does not own it -/
theorem capG_sound {W : World} {inner : List GId} {b : GraphT} {k : GId} {v : VId}
    (h : CapG W inner b k v) :
    (k ∈ inner ∨ ∃ s, SubG b s ∧ s.gid = k ∧ UsedInG s v) ∧ W.graphOf v ≠ some k := by
  induction h with
  | @here inner b n k v hn hv ha =>
    refine ⟨?_, addsTo_ne ha⟩
    rcases List.mem_cons.mp (addsTo_mem ha) with rfl | hk
    · exact Or.inr ⟨b, SubG.self, rfl, UsedInG.node hn (UsedInN.direct hv)⟩
    · exact Or.inl hk
  | @deeper inner b c n k v hn hc hcap ih =>
    refine ⟨?_, ih.2⟩
    rcases ih.1 with hk | ⟨s, hs, hk, hu⟩
    · rcases List.mem_cons.mp hk with rfl | hk
      · exact Or.inr ⟨b, SubG.self, rfl, UsedInG.node hn (UsedInN.nested hc (capG_used hcap))⟩
      · exact Or.inl hk
    · exact Or.inr ⟨s, SubG.deeper hn hc hs, hk, hu⟩

/-! ## soundness against the structural free variables, under scoping by owner -/

/-- no graph of the subtree of `s` (its own id included) owns `v` -/
def NoOwnIn (W : World) (s : GraphT) (v : VId) : Prop := ∀ j, j ∈ gidsG s → W.graphOf v ≠ some j

theorem scopedGsB_mem {W : World} {all chain : List GId} {bs : List GraphT} {c : GraphT}
    (h : scopedGsB W all chain bs = true) (hc : c ∈ bs) : scopedGB W all chain c = true := by
  induction bs with
  | nil => cases hc
  | cons a t ih =>
    rw [scopedGsB, Bool.and_eq_true] at h
    rcases List.mem_cons.mp hc with rfl | hc
    · exact h.1
    · exact ih h.2 hc

theorem scopedNsB_mem {W : World} {all chain : List GId} {ns : List NodeT} {n : NodeT}
    (h : scopedNsB W all chain ns = true) (hn : n ∈ ns) : scopedNB W all chain n = true := by
  induction ns with
  | nil => cases hn
  | cons a t ih =>
    rw [scopedNsB, Bool.and_eq_true] at h
    rcases List.mem_cons.mp hn with rfl | hn
    · exact h.1
    · exact ih h.2 hn

theorem gidsG_eq (b : GraphT) : gidsG b = b.gid :: gidsNs b.nodes := by
  cases b; simp [gidsG]

theorem scopedGB_ids {W : World} {all chain : List GId} {b : GraphT} (h : scopedGB W all chain b = true) :
    ∀ j, j ∈ gidsG b → ¬ j ∈ chain ∧ j ∈ all := by
  cases b with
  | mk gid i w o ns =>
    rw [scopedGB, Bool.and_eq_true] at h
    intro j hj
    have := List.all_eq_true.mp h.1 j (by rw [gidsG] at hj; exact hj)
    simpa using this

theorem scopedGB_nodes {W : World} {all chain : List GId} {b : GraphT} (h : scopedGB W all chain b = true) :
    scopedNsB W all (b.gid :: chain) b.nodes = true := by
  cases b with
  | mk gid i w o ns => rw [scopedGB, Bool.and_eq_true] at h; exact h.2

theorem gidsG_sub {b c : GraphT} {n : NodeT} (hn : n ∈ b.nodes) (hc : c ∈ n.bodies) :
    ∀ j, j ∈ gidsG c → j ∈ gidsG b := by
  intro j hj
  exact (mem_gidsG b j).mpr (NestedIn.deeper hn hc ((mem_gidsG c j).mp hj))

theorem self_mem_gidsG (b : GraphT) : b.gid ∈ gidsG b := (mem_gidsG b b.gid).mpr NestedIn.self

theorem addsTo_tail {W : World} {g : GId} {chain : List GId} {v : VId} {k : GId}
    (h : AddsTo W (g :: chain) v k) (hk : k ≠ g) : W.graphOf v ≠ some g ∧ AddsTo W chain v k := by
  unfold AddsTo at *
  by_cases hg : (!(W.graphOf v == some g)) = true
  · simp only [List.takeWhile_cons, hg, if_true] at h
    rcases List.mem_cons.mp h with rfl | h'
    · exact absurd rfl hk
    · exact ⟨by simpa using hg, h'⟩
  · simp [List.takeWhile_cons, hg] at h

/-- with non-repeating ids, an id of an enclosing graph is reached only after the whole path below passed -/
theorem capG_addsTo {W : World} {all : List GId} {inner : List GId} {b : GraphT} {k : GId} {v : VId}
    (h : CapG W inner b k v) (hs : scopedGB W all inner b = true) (hk : k ∈ inner) :
    AddsTo W (b.gid :: inner) v k := by
  induction h with
  | here _ _ ha => exact ha
  | @deeper inner b c n k v hn hc _ ih =>
    have hsn := scopedNsB_mem (scopedGB_nodes hs) hn
    have hsc : scopedGB W all (b.gid :: inner) c = true := by
      cases n with
      | mk ins outs bs =>
        rw [scopedNB, Bool.and_eq_true] at hsn
        exact scopedGsB_mem hsn.2 hc
    have h1 := ih hsc (List.mem_cons_of_mem _ hk)
    have hne : k ≠ c.gid := by
      intro e
      have := (scopedGB_ids hs c.gid (gidsG_sub hn hc _ (self_mem_gidsG c))).1
      exact this (e ▸ hk)
    exact (addsTo_tail h1 hne).2

theorem ownerOK_elim {W : World} {all chain : List GId} {v : VId} (h : ownerOKB W all chain v = true) :
    (∃ j, j ∈ chain ∧ W.graphOf v = some j) ∨ (∀ j, j ∈ all → W.graphOf v ≠ some j) := by
  unfold ownerOKB at h
  rw [Bool.or_eq_true] at h
  rcases h with h | h
  · left
    simp only [List.contains_eq_mem, decide_eq_true_eq, List.mem_map] at h
    obtain ⟨j, hj, e⟩ := h
    exact ⟨j, hj, e.symm⟩
  · right
    intro j hj e
    simp only [List.contains_eq_mem, Bool.not_eq_eq_eq_not, Bool.not_true, decide_eq_false_iff_not,
      List.mem_map, not_exists, not_and] at h
    exact h j hj e.symm

/-- the strengthened induction: where the owner can be, and for which graph the value is recorded -/
theorem capG_free {W : World} {all : List GId} {inner : List GId} {b : GraphT} {k : GId} {v : VId}
    (h : CapG W inner b k v) (hs : scopedGB W all inner b = true) :
    ((∃ j, (j ∈ gidsG b ∨ j ∈ inner) ∧ W.graphOf v = some j) ∨ (∀ j, j ∈ all → W.graphOf v ≠ some j)) ∧
    ((k ∈ inner ∧ NoOwnIn W b v) ∨ ∃ s, SubG b s ∧ s.gid = k ∧ UsedInG s v ∧ NoOwnIn W s v) := by
  have hkne := (capG_sound h).2
  induction h with
  | @here inner b n k v hn hv ha =>
    have hsn := scopedNsB_mem (scopedGB_nodes hs) hn
    have hown : ownerOKB W all (b.gid :: inner) v = true := by
      cases n with
      | mk ins outs bs =>
        rw [scopedNB, Bool.and_eq_true] at hsn
        exact List.all_eq_true.mp hsn.1 v (by simpa [List.mem_filterMap] using hv)
    have hloc := ownerOK_elim hown
    have hfact : (∃ j, (j ∈ gidsG b ∨ j ∈ inner) ∧ W.graphOf v = some j) ∨
        (∀ j, j ∈ all → W.graphOf v ≠ some j) := by
      rcases hloc with ⟨j, hj, e⟩ | h'
      · left
        rcases List.mem_cons.mp hj with rfl | hj
        · exact ⟨_, Or.inl (self_mem_gidsG b), e⟩
        · exact ⟨j, Or.inr hj, e⟩
      · exact Or.inr h'
    have hhead : W.graphOf v ≠ some b.gid := by
      intro e
      unfold AddsTo at ha
      have : (!(W.graphOf v == some b.gid)) = false := by simp [e]
      simp [List.takeWhile_cons, this] at ha
    have hno : NoOwnIn W b v := by
      intro j hj e
      have hjs := scopedGB_ids hs j hj
      rcases hloc with ⟨j', hj', e'⟩ | h'
      · rw [e] at e'
        cases e'
        rcases List.mem_cons.mp hj' with rfl | hj'
        · exact hhead e
        · exact hjs.1 hj'
      · exact h' j hjs.2 e
    refine ⟨hfact, ?_⟩
    rcases List.mem_cons.mp (addsTo_mem ha) with rfl | hk
    · exact Or.inr ⟨b, SubG.self, rfl, UsedInG.node hn (UsedInN.direct hv), hno⟩
    · exact Or.inl ⟨hk, hno⟩
  | @deeper inner b c n k v hn hc hcap ih =>
    have hsn := scopedNsB_mem (scopedGB_nodes hs) hn
    have hsc : scopedGB W all (b.gid :: inner) c = true := by
      cases n with
      | mk ins outs bs =>
        rw [scopedNB, Bool.and_eq_true] at hsn
        exact scopedGsB_mem hsn.2 hc
    obtain ⟨hfactc, hrec⟩ := ih hsc hkne
    have hsubc : ∀ j, j ∈ gidsG c → j ∈ gidsG b := gidsG_sub hn hc
    have hfact : (∃ j, (j ∈ gidsG b ∨ j ∈ inner) ∧ W.graphOf v = some j) ∨
        (∀ j, j ∈ all → W.graphOf v ≠ some j) := by
      rcases hfactc with ⟨j, hj, e⟩ | h'
      · left
        rcases hj with hj | hj
        · exact ⟨j, Or.inl (hsubc j hj), e⟩
        · rcases List.mem_cons.mp hj with rfl | hj
          · exact ⟨_, Or.inl (self_mem_gidsG b), e⟩
          · exact ⟨j, Or.inr hj, e⟩
      · exact Or.inr h'
    refine ⟨hfact, ?_⟩
    rcases hrec with ⟨hk, hnoc⟩ | ⟨s, hs', hk, hu, hnos⟩
    · -- `k` is `b` itself or above it: no graph of the subtree of `b` owns `v`
      have hhead : W.graphOf v ≠ some b.gid := by
        rcases List.mem_cons.mp hk with rfl | hk'
        · exact hkne
        · have hadd := capG_addsTo (CapG.deeper hn hc hcap) hs hk'
          have hne : k ≠ b.gid := by
            intro e
            exact (scopedGB_ids hs b.gid (self_mem_gidsG b)).1 (e ▸ hk')
          exact (addsTo_tail hadd hne).1
      have hno : NoOwnIn W b v := by
        intro j hj e
        have hjs := scopedGB_ids hs j hj
        rcases hfactc with ⟨j', hj', e'⟩ | h'
        · rw [e] at e'
          cases e'
          rcases hj' with hj' | hj'
          · exact hnoc j hj' e
          · rcases List.mem_cons.mp hj' with rfl | hj'
            · exact hhead e
            · exact hjs.1 hj'
        · exact h' j hjs.2 e
      rcases List.mem_cons.mp hk with rfl | hk'
      · exact Or.inr ⟨b, SubG.self, rfl, UsedInG.node hn (UsedInN.nested hc (capG_used hcap)), hno⟩
      · exact Or.inl ⟨hk', hno⟩
    · exact Or.inr ⟨s, SubG.deeper hn hc hs', hk, hu, hnos⟩

end IrVerif.Extract

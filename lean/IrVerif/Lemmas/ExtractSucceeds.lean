/-
Helper development for C18 (follow-up of round 3): when does the clone of the view SUCCEED.
`cloneG/cloneNs/cloneN/cloneGs` (keys of the cloner's value map) return as soon as the lexical free variables
of what is cloned are already keys of the map; the view's initializer dict is built as soon as no recorded
initializer is nameless.
-/
import IrVerif.Lemmas.ExtractClone
import IrVerif.Lemmas.ExtractScope
import IrVerif.Lemmas.ExtractEval
namespace IrVerif.Extract

mutual
  /-- the clone of a graph returns when every lexical free variable of the graph is a key of the value map -/
  theorem cloneG_of_free : ∀ (g : GraphT) (m : List VId), (∀ v, v ∈ freeG g → v ∈ m) →
      ∃ m', cloneG m g = .ok m'
    | .mk gid ins inits outs ns, m, h => by
      have hns : ∀ v, v ∈ freeNs ns → v ∈ m ++ ins ++ inits := by
        intro v hv
        by_cases hd : v ∈ ins ++ inits
        · rcases List.mem_append.mp hd with hd | hd
          · simp [hd]
          · simp [hd]
        · have : v ∈ freeG (.mk gid ins inits outs ns) := by
            rw [freeG, List.mem_filter]
            refine ⟨List.mem_append_left _ hv, ?_⟩
            simpa using hd
          have := h v this
          simp [this]
      obtain ⟨m1, h1, hsub, houts⟩ := cloneNs_of_free ns _ hns
      rw [cloneG, h1]
      simp only []
      have hall : outs.all (fun v => m1.contains v) = true := by
        rw [List.all_eq_true]
        intro o ho
        simp only [List.contains_eq_mem, decide_eq_true_eq]
        by_cases hot : o ∈ outsTop ns
        · exact houts o hot
        · by_cases hd : o ∈ ins ++ inits
          · apply hsub
            rcases List.mem_append.mp hd with hd | hd
            · simp [hd]
            · simp [hd]
          · have : o ∈ freeG (.mk gid ins inits outs ns) := by
              rw [freeG, List.mem_filter]
              refine ⟨List.mem_append_right _ ?_, ?_⟩
              · rw [List.mem_filter]; exact ⟨ho, by simpa using hot⟩
              · simpa using hd
            apply hsub
            have := h o this
            simp [this]
      rw [if_pos hall]
      exact ⟨m1, rfl⟩
  theorem cloneNs_of_free : ∀ (ns : List NodeT) (m : List VId), (∀ v, v ∈ freeNs ns → v ∈ m) →
      ∃ m', cloneNs m ns = .ok m' ∧ (∀ v, v ∈ m → v ∈ m') ∧ (∀ v, v ∈ outsTop ns → v ∈ m')
    | [], m, _ => ⟨m, by rw [cloneNs], fun _ h => h, fun v hv => by simp [outsTop] at hv⟩
    | n :: ns, m, h => by
      have hn : ∀ v, v ∈ freeN n → v ∈ m := fun v hv => h v (by rw [freeNs]; exact List.mem_append_left _ hv)
      obtain ⟨m1, h1, hsub1, hout1⟩ := cloneN_of_free n m hn
      have hrest : ∀ v, v ∈ freeNs ns → v ∈ m1 := by
        intro v hv
        by_cases ho : v ∈ n.outputs
        · exact hout1 v ho
        · apply hsub1
          apply h v
          rw [freeNs]
          apply List.mem_append_right
          rw [List.mem_filter]
          exact ⟨hv, by simpa using ho⟩
      obtain ⟨m2, h2, hsub2, hout2⟩ := cloneNs_of_free ns m1 hrest
      refine ⟨m2, ?_, fun v hv => hsub2 v (hsub1 v hv), ?_⟩
      · rw [cloneNs, h1]; exact h2
      · intro v hv
        rw [outsTop, List.mem_append] at hv
        rcases hv with hv | hv
        · exact hsub2 v (hout1 v hv)
        · exact hout2 v hv
  theorem cloneN_of_free : ∀ (n : NodeT) (m : List VId), (∀ v, v ∈ freeN n → v ∈ m) →
      ∃ m', cloneN m n = .ok m' ∧ (∀ v, v ∈ m → v ∈ m') ∧ (∀ v, v ∈ n.outputs → v ∈ m')
    | .mk ins outs bs, m, h => by
      have hin : (ins.filterMap id).all (fun v => m.contains v) = true := by
        rw [List.all_eq_true]
        intro v hv
        simp only [List.contains_eq_mem, decide_eq_true_eq]
        exact h v (by rw [freeN]; exact List.mem_append_left _ hv)
      have hbs : ∀ v, v ∈ freeGs bs → v ∈ m := fun v hv => h v (by rw [freeN]; exact List.mem_append_right _ hv)
      obtain ⟨m1, h1, hsub1⟩ := cloneGs_of_free bs m hbs
      refine ⟨m1 ++ outs, ?_, fun v hv => List.mem_append_left _ (hsub1 v hv), fun v hv => ?_⟩
      · rw [cloneN, if_pos hin, h1]
      · simp only [NodeT.outputs_mk] at hv
        exact List.mem_append_right _ hv
  theorem cloneGs_of_free : ∀ (gs : List GraphT) (m : List VId), (∀ v, v ∈ freeGs gs → v ∈ m) →
      ∃ m', cloneGs m gs = .ok m' ∧ (∀ v, v ∈ m → v ∈ m')
    | [], m, _ => ⟨m, by rw [cloneGs], fun _ h => h⟩
    | g :: gs, m, h => by
      have hg : ∀ v, v ∈ freeG g → v ∈ m := fun v hv => h v (by rw [freeGs]; exact List.mem_append_left _ hv)
      obtain ⟨m1, h1⟩ := cloneG_of_free g m hg
      have hsub1 := (cloneG_spec g m m1 h1).1
      have hrest : ∀ v, v ∈ freeGs gs → v ∈ m1 :=
        fun v hv => hsub1 v (h v (by rw [freeGs]; exact List.mem_append_right _ hv))
      obtain ⟨m2, h2, hsub2⟩ := cloneGs_of_free gs m1 hrest
      exact ⟨m2, by rw [cloneGs, h1]; exact h2, fun v hv => hsub2 v (hsub1 v hv)⟩
end

/-- the view's initializer dict is built when no recorded initializer is nameless -/
theorem viewInits_ok {W : World} : ∀ (vs : List VId) (m : NameMap),
    (∀ v, v ∈ vs → (W.val v).name ≠ "") → ∃ im, viewInits W vs m = .ok im
  | [], m, _ => ⟨m, by rw [viewInits]⟩
  | v :: vs, m, h => by
    have hv : ((W.val v).name == "") = false := by simpa using h v List.mem_cons_self
    rw [viewInits]
    simp only [hv]
    exact viewInits_ok vs _ (fun u hu => h u (List.mem_cons_of_mem _ hu))

/-- `viewInits` can only raise `initNoName`, and only at a nameless value -/
theorem viewInits_err_named {W : World} : ∀ (vs : List VId) (m : NameMap) (e : Err),
    viewInits W vs m = .error e → e = .initNoName ∧ ∃ v, v ∈ vs ∧ (W.val v).name = ""
  | [], m, e, h => by rw [viewInits] at h; cases h
  | v :: vs, m, e, h => by
    rw [viewInits] at h
    split at h
    · rename_i hnm
      cases h
      exact ⟨rfl, v, List.mem_cons_self, by simpa using hnm⟩
    · obtain ⟨h1, u, hu, hn⟩ := viewInits_err_named vs _ e h
      exact ⟨h1, u, List.mem_cons_of_mem _ hu, hn⟩

/-- the top-level node loop of the clone of the view, over a suffix `l` of the source list `g` filtered by
    `keep`: it returns when the map already holds what the kept nodes of `l` read from before `l` -/
theorem cloneNs_filter_ok {W : World} {p : GId} (keep : NId → Bool) (good : VId → Prop) :
    ∀ (l : List NId) (m : List VId),
      TopoSorted W p l →
      (∀ n, n ∈ l → keep n = true → ∀ u, u ∈ freeN (W.nodeD n) → Needs W p n u) →
      (∀ n, n ∈ l → keep n = true → ∀ u, Needs W p n u → good u) →
      (∀ u, good u → u ∈ m ∨ ∃ k, keep k = true ∧ k ∈ l ∧ u ∈ (W.nodeD k).outputs) →
      ∃ m', cloneNs m ((l.filter keep).map W.nodeD) = .ok m' ∧ (∀ v, v ∈ m → v ∈ m') ∧
        (∀ k, k ∈ l → keep k = true → ∀ o, o ∈ (W.nodeD k).outputs → o ∈ m')
  | [], m, _, _, _, _ => ⟨m, by simp [cloneNs], fun _ h => h, fun k hk => by cases hk⟩
  | a :: l, m, hs, hfree, hneed, hgood => by
    by_cases hk : keep a = true
    · -- the head is kept: everything it reads is already in the map
      have hin : ∀ u, u ∈ freeN (W.nodeD a) → u ∈ m := by
        intro u hu
        have hN := hfree a List.mem_cons_self hk u hu
        rcases hgood u (hneed a List.mem_cons_self hk u hN) with h' | ⟨k, _, hkl, hko⟩
        · exact h'
        · exact absurd hko (hs.1 u hN k hkl)
      obtain ⟨m1, h1, hsub1, hout1⟩ := cloneN_of_free (W.nodeD a) m hin
      obtain ⟨m2, h2, hsub2, hout2⟩ := cloneNs_filter_ok keep good l m1 hs.2
        (fun n hn => hfree n (List.mem_cons_of_mem _ hn))
        (fun n hn => hneed n (List.mem_cons_of_mem _ hn))
        (by
          intro u hu
          rcases hgood u hu with h' | ⟨k, hkk, hkl, hko⟩
          · exact Or.inl (hsub1 u h')
          · rcases List.mem_cons.mp hkl with rfl | hkl
            · exact Or.inl (hout1 u hko)
            · exact Or.inr ⟨k, hkk, hkl, hko⟩)
      refine ⟨m2, ?_, fun v hv => hsub2 v (hsub1 v hv), ?_⟩
      · rw [List.filter_cons_of_pos hk, List.map_cons, cloneNs, h1]; exact h2
      · intro k hkl hkk o ho
        rcases List.mem_cons.mp hkl with rfl | hkl
        · exact hsub2 o (hout1 o ho)
        · exact hout2 k hkl hkk o ho
    · obtain ⟨m2, h2, hsub2, hout2⟩ := cloneNs_filter_ok keep good l m hs.2
        (fun n hn => hfree n (List.mem_cons_of_mem _ hn))
        (fun n hn => hneed n (List.mem_cons_of_mem _ hn))
        (by
          intro u hu
          rcases hgood u hu with h' | ⟨k, hkk, hkl, hko⟩
          · exact Or.inl h'
          · rcases List.mem_cons.mp hkl with rfl | hkl
            · exact absurd hkk hk
            · exact Or.inr ⟨k, hkk, hkl, hko⟩)
      refine ⟨m2, ?_, hsub2, ?_⟩
      · rw [List.filter_cons_of_neg hk]; exact h2
      · intro k hkl hkk o ho
        rcases List.mem_cons.mp hkl with rfl | hkl
        · exact absurd hkk hk
        · exact hout2 k hkl hkk o ho

/-! ## the clone stage with ownership checks against the clone stage without -/

/-- `r` (with ownership checks) against `r0` (without): same keys when `r` returns, same error unless `r` is
    the ownership error -/
def OwnRel (r : Except Err CSt) (r0 : Except Err (List VId)) : Prop :=
  match r with
  | .ok s' => r0 = .ok s'.m
  | .error e => e = .cloneOwned ∨ r0 = .error e

mutual
  theorem cloneGO_rel : ∀ (g : GraphT) (s : CSt), OwnRel (cloneGO s g) (cloneG s.m g)
    | .mk gid ins inits outs ns, s => by
      have ih := cloneNsO_rel ns { s with m := s.m ++ ins ++ inits }
      rw [cloneGO, cloneG]
      simp only []
      cases h : cloneNsO { s with m := s.m ++ ins ++ inits } ns with
      | error e =>
        rw [h] at ih
        simp only [OwnRel] at ih ⊢
        rcases ih with ih | ih
        · exact Or.inl ih
        · right; rw [ih]
      | ok s2 =>
        rw [h] at ih
        simp only [OwnRel] at ih
        rw [ih]
        simp only []
        by_cases hall : outs.all (fun v => s2.m.contains v) = true
        · rw [if_pos hall, if_pos hall]
          split
          · exact Or.inl rfl
          · rfl
        · rw [if_neg hall, if_neg hall]
          exact Or.inr rfl
  theorem cloneNsO_rel : ∀ (ns : List NodeT) (s : CSt), OwnRel (cloneNsO s ns) (cloneNs s.m ns)
    | [], s => by rw [cloneNsO, cloneNs]; rfl
    | n :: ns, s => by
      have ih := cloneNO_rel n s
      rw [cloneNsO, cloneNs]
      cases h : cloneNO s n with
      | error e =>
        rw [h] at ih
        simp only [OwnRel] at ih ⊢
        rcases ih with ih | ih
        · exact Or.inl ih
        · right; rw [ih]
      | ok s1 =>
        rw [h] at ih
        simp only [OwnRel] at ih
        rw [ih]
        exact cloneNsO_rel ns s1
  theorem cloneNO_rel : ∀ (n : NodeT) (s : CSt), OwnRel (cloneNO s n) (cloneN s.m n)
    | .mk ins outs bs, s => by
      have ih := cloneGsO_rel bs s
      rw [cloneNO, cloneN]
      by_cases hin : (ins.filterMap id).all (fun v => s.m.contains v) = true
      · rw [if_pos hin, if_pos hin]
        cases h : cloneGsO s bs with
        | error e =>
          rw [h] at ih
          simp only [OwnRel] at ih ⊢
          rcases ih with ih | ih
          · exact Or.inl ih
          · right; rw [ih]
        | ok s1 =>
          rw [h] at ih
          simp only [OwnRel] at ih
          rw [ih]
          rfl
      · rw [if_neg hin, if_neg hin]
        exact Or.inr rfl
  theorem cloneGsO_rel : ∀ (gs : List GraphT) (s : CSt), OwnRel (cloneGsO s gs) (cloneGs s.m gs)
    | [], s => by rw [cloneGsO, cloneGs]; rfl
    | g :: gs, s => by
      have ih := cloneGO_rel g s
      rw [cloneGsO, cloneGs]
      cases h : cloneGO s g with
      | error e =>
        rw [h] at ih
        simp only [OwnRel] at ih ⊢
        rcases ih with ih | ih
        · exact Or.inl ih
        · right; rw [ih]
      | ok s1 =>
        rw [h] at ih
        simp only [OwnRel] at ih
        rw [ih]
        exact cloneGsO_rel gs s1
end

end IrVerif.Extract

import IrVerif.Lemmas.ScopeSerdeBridgeSub5
/-!
The C02 bridge WITH nested graphs, part 6: the full abstractions agree with the ones of `ScopeSerdeBridge` on
graphs without nested graphs (`absGFull_eq_absG`, `absIRFull_eq_absIR`, `GOKFull_eq_GOK`).
-/
namespace IrVerif.Bridge
open IrVerif.Proto IrVerif.Serde

/-! ## proto side -/

theorem subsAttr_leaf (a : AttrP) (h : hasGraphAttr a = false) : subsAttr a = [] := by
  cases a <;> first | (simp [hasGraphAttr] at h; done) | simp [subsAttr]

theorem subsAttrs_leaf : ∀ as : List AttrP, as.all (fun a => !hasGraphAttr a) = true → subsAttrs as = []
  | [], _ => by simp [subsAttrs]
  | a :: as, h => by
    simp only [List.all_cons, Bool.and_eq_true, Bool.not_eq_true'] at h
    simp [subsAttrs, subsAttr_leaf a h.1, subsAttrs_leaf as (by simpa using h.2)]

theorem absNsFull_eq : ∀ ns : List NodeP, ns.all (fun n => n.attrs.all fun a => !hasGraphAttr a) = true →
    absNsFull ns = ns.map absN
  | [], _ => by simp [absNsFull]
  | n :: ns, h => by
    simp only [List.all_cons, Bool.and_eq_true] at h
    cases n with
    | mk inputs outputs name opType domain overload doc attrs metadata devcfgs =>
      simp only [absNsFull, absNFull, List.map_cons, absN, absNsFull_eq ns h.2]
      rw [subsAttrs_leaf attrs h.1]
      rfl

/-- on graphs without nested graphs `absGFull` is `absG` -/
theorem absGFull_eq_absG (p : GraphP) (h : noSubgraphs p = true) : absGFull p = absG p := by
  cases p with
  | mk name doc nodes inits inputs outputs vis quant metadata =>
    simp only [noSubgraphs] at h
    simp only [absGFull, absG, absNsFull_eq nodes h]
    rfl

/-! ## IR side -/

theorem leaf_ir (x : IRAttr) (h : irHasGraph x = false) :
    cellsAttr x = [] ∧ nnAttr x = 0 ∧ ngAttr x = 0 ∧ okAttr [] x = true ∧
      ∀ B k nn ng, treeAttr B k nn ng x = [] := by
  cases x <;> first | (simp [irHasGraph] at h; done) | simp [cellsAttr, nnAttr, ngAttr, treeAttr, okAttr]

theorem okAttr_leaf (lens : List Nat) (x : IRAttr) (h : irHasGraph x = false) : okAttr lens x = true := by
  cases x <;> first | (simp [irHasGraph] at h; done) | simp [okAttr]

theorem leaf_attrs : ∀ as : List IRAttr, as.all (fun a => !irHasGraph a) = true →
    cellsAttrs as = [] ∧ nnAttrs as = 0 ∧ ngAttrs as = 0 ∧ (∀ lens, okAttrs lens as = true) ∧
      ∀ B k nn ng, treeAttrs B k nn ng as = []
  | [], _ => by simp [cellsAttrs, nnAttrs, ngAttrs, treeAttrs, okAttrs]
  | a :: as, h => by
    simp only [List.all_cons, Bool.and_eq_true, Bool.not_eq_true'] at h
    obtain ⟨a1, a2, a3, _, a5⟩ := leaf_ir a h.1
    obtain ⟨b1, b2, b3, b4, b5⟩ := leaf_attrs as (by simpa using h.2)
    refine ⟨by simp [cellsAttrs, a1, b1], by simp [nnAttrs, a2, b2], by simp [ngAttrs, a3, b3], ?_, ?_⟩
    · intro lens; simp [okAttrs, okAttr_leaf lens a h.1, b4 lens]
    · intro B k nn ng; simp [treeAttrs, a5, b5]

theorem getD_singleton_zero (u : Nat) : ([0] : List Nat).getD u 0 = 0 := by
  cases u <;> simp [List.getD]

theorem absInsB_zero (ins : List (Option Ref)) : absInsB [0] ins = absIns ins := by
  simp only [absInsB, absIns]
  apply List.map_congr_left
  intro r _
  cases r with
  | none => rfl
  | some r =>
    simp only [Option.map_some, refId]
    rw [getD_singleton_zero, Nat.zero_add]

theorem absOutsB_zero : ∀ (outs : List (Option Nat)) (k : Nat), absOutsB 0 k outs = absOuts k outs
  | [], _ => rfl
  | some j :: r, k => by simp [absOutsB, absOuts, absOutsB_zero r k]
  | none :: r, k => by simp [absOutsB, absOuts, absOutsB_zero r (k + 1)]

theorem absGOutsB_zero : ∀ (os : List IRGOut) (k : Nat), absGOutsB 0 k os = absGOuts k os
  | [], _ => rfl
  | .tbl i :: r, k => by simp [absGOutsB, absGOuts, absGOutsB_zero r k]
  | .dangling _ :: r, k => by simp [absGOutsB, absGOuts, absGOutsB_zero r (k + 1)]

theorem nodes_flat : ∀ (ns : List IRNode) (k nid : Nat),
    ns.all (fun n => (attrsOf n).all fun a => !irHasGraph a) = true →
    cellsNodes ns = List.replicate (numNoneNodes ns) blankCell ∧ nnNodes ns = ns.length ∧ ngNodes ns = 0 ∧
      treeNodes [0] k nid 0 ns = absNodes k nid ns
  | [], _, _, _ => by simp [cellsNodes, numNoneNodes, nnNodes, ngNodes, treeNodes, absNodes]
  | n :: ns, k, nid, h => by
    simp only [List.all_cons, Bool.and_eq_true] at h
    cases n with
    | mk domain opType overload name doc ins outs attrs mprops devcfgs =>
      obtain ⟨a1, a2, a3, _, a5⟩ := leaf_attrs attrs h.1
      obtain ⟨b1, b2, b3, b4⟩ := nodes_flat ns (k + numNone outs) (nid + 1) h.2
      refine ⟨?_, ?_, ?_, ?_⟩
      · simp only [cellsNodes, cellsNode, a1, b1, numNoneNodes, IRNode.outputs, List.append_nil]
        rw [List.replicate_append_replicate]
      · simp [nnNodes, nnNode, a2, b2]; omega
      · simp [ngNodes, ngNode, a3, b3]
      · simp only [treeNodes, treeNode, absNodes, cellsNode, a1, a2, a3, a5, nnNode, ngNode, List.append_nil,
          List.length_replicate, Nat.add_zero, Nat.zero_add, List.headD_cons, absInsB_zero, absOutsB_zero,
          IRNode.inputs, IRNode.outputs, b4]

/-- on IR graphs without nested graphs `absIRFull` is `absIR` -/
theorem absIRFull_eq_absIR (g : IRGraph) (h : noSubIR g = true) : absIRFull g = absIR g := by
  cases g with
  | mk tbl inputs inits nodes outs name doc opsets mprops =>
    simp only [noSubIR, IRGraph.nodes] at h
    obtain ⟨b1, _, b3, b4⟩ := nodes_flat nodes tbl.length 0 h
    simp only [absIRFull, absIR, cellsG, treeG, b1, b3, IRGraph.table, IRGraph.nodes, IRGraph.outputs,
      IRGraph.inputs, IRGraph.initializers, Nat.zero_add, Nat.add_zero, b4, absGOutsB_zero, List.length_replicate]
    simp

/-! ## the side condition -/

theorem refOKF_single (n : Nat) (o : Option Ref) : refOKF [n] o = refOK n o := by
  cases o with
  | none => rfl
  | some r =>
    obtain ⟨u, i⟩ := r
    cases u with
    | zero => simp [refOKF, refOK]
    | succ u => simp [refOKF, refOK, List.getD]

theorem okNodes_flat (n : Nat) : ∀ ns : List IRNode,
    ns.all (fun x => (attrsOf x).all fun a => !irHasGraph a) = true →
    okNodes [n] ns = ns.all (fun x => x.inputs.all (refOK n) && x.outputs.all (outOK n))
  | [], _ => by simp [okNodes]
  | x :: xs, h => by
    simp only [List.all_cons, Bool.and_eq_true] at h
    cases x with
    | mk domain opType overload name doc ins outs attrs mprops devcfgs =>
      have ha := (leaf_attrs attrs h.1).2.2.2.1 [n]
      have e : ins.all (refOKF [n]) = ins.all (refOK n) := by
        congr 1; funext o; exact refOKF_single n o
      simp only [okNodes, okNode, ha, e, okNodes_flat n xs h.2, List.all_cons, List.headD_cons, Bool.and_true,
        IRNode.inputs, IRNode.outputs]

/-- on IR graphs without nested graphs `GOKFull` is `GOK` -/
theorem GOKFull_eq_GOK (g : IRGraph) (h : noSubIR g = true) : GOKFull g = GOK g := by
  cases g with
  | mk tbl inputs inits nodes outs name doc opsets mprops =>
    simp only [noSubIR, IRGraph.nodes] at h
    simp only [GOKFull, okG, GOK, okNodes_flat tbl.length nodes h, IRGraph.table, IRGraph.nodes, IRGraph.outputs,
      IRGraph.inputs, IRGraph.initializers]
    rfl

end IrVerif.Bridge

/-
C15 part B, ill-scoped models: the values *recorded* in one scope (`recScopes`) are listed in the order in which
NameFixPass records them, so "unique names are kept" and "the first holder keeps the name" hold on these lists
**without the scoping rule**.  `Lemmas/NamesRec.lean` tracks the recorded lists by membership only (enough for
pairwise different names); here the same induction is run on the concrete lists (`recVals`), so that the
order-aware component `FirstB` of `ScopeOK` comes out for the very lists of `recScopes`.
-/
import IrVerif.Lemmas.NamesRec
namespace IrVerif.Names

theorem recVals_nil (S V : List Nat) : recVals S V [] = V := by simp [recVals]

theorem recVals_snoc_in {S V A : List Nat} {v : Nat} (h : v ∈ S) : recVals S V (A ++ [v]) = recVals S V A := by
  simp [recVals, List.filter_append, h]

theorem recVals_snoc_out {S V A : List Nat} {v : Nat} (h : v ∉ S) :
    recVals S V (A ++ [v]) = recVals S V A ++ [v] := by
  simp [recVals, List.filter_append, h]

theorem recVals_all_seen {S V vs : List Nat} (h : ∀ x ∈ vs, x ∈ S) : recVals S V vs = V := by
  have : vs.filter (fun v => !S.contains v) = [] := by
    rw [List.filter_eq_nil_iff]
    intro x hx
    simp [h x hx]
  unfold recVals
  rw [this, List.append_nil]

theorem recVals_split4 (S V a b m d : List Nat) :
    recVals S V (a ++ b ++ m ++ d)
      = (V ++ a.filter (fun v => !S.contains v) ++ b.filter (fun v => !S.contains v))
          ++ m.filter (fun v => !S.contains v) ++ d.filter (fun v => !S.contains v) := by
  simp [recVals, List.filter_append, List.append_assoc]

/-- a run of `_process_value` steps without the scoping rule, on the concrete recorded list: `A` = what this level
has processed so far (everything in `S ++ A` is seen), `vs` = what comes now -/
theorem processValues_rec {c : Cfg} (hc : c.OK) : ∀ (vs : List Nat) {st : FixSt} {V S A : List Nat},
    TInv c st → Good c st (recVals S V A) → (∀ x, x ∈ st.seen ↔ x ∈ S ++ A) → (∀ v ∈ vs, c.C v) →
    Lvl c st (processValues st vs) (recVals S V (A ++ vs)) (S ++ (A ++ vs))
      ∧ (processValues st vs).vstack.tail = st.vstack.tail
  | [], st, V, S, A, inv, good, hS, _ => by
    rw [List.append_nil]
    exact ⟨⟨inv, good, hS, Frame.refl st⟩, rfl⟩
  | v :: vs, st, V, S, A, inv, good, hS, hC => by
    have pv := processValue_PV hc inv (hC v List.mem_cons_self)
    have e : processValues st (v :: vs) = processValues (processValue st v) vs := by simp [processValues]
    rw [e]
    have g1 : Good c (processValue st v) (recVals S V (A ++ [v])) := by
      by_cases hv : v ∈ st.seen
      · rw [pv.noop hv]
        by_cases hvS : v ∈ S
        · rw [recVals_snoc_in hvS]; exact good
        · have hvA : v ∈ A := (List.mem_append.mp ((hS v).mp hv)).resolve_left hvS
          have hvR : v ∈ recVals S V A := mem_recVals.mpr (Or.inr ⟨hvA, hvS⟩)
          rw [recVals_snoc_out hvS]
          refine good.congr ?_ ?_
          · intro x
            simp only [List.mem_append, List.mem_singleton]
            exact ⟨fun h => h.elim id (fun e => e ▸ hvR), Or.inl⟩
          · intro x hx u hu
            have hxR : x ∈ recVals S V A := by
              simp only [List.mem_append, List.mem_singleton] at hx
              exact hx.elim id (fun e => e ▸ hvR)
            rw [before_append_mem _ hxR]; exact Or.inl hu
      · have hvS : v ∉ S := fun h => hv ((hS v).mpr (List.mem_append_left _ h))
        rw [recVals_snoc_out hvS]
        exact processValue_Good hc inv good (hC v List.mem_cons_self) (fun h => absurd h hv)
    have hS1 : ∀ x, x ∈ (processValue st v).seen ↔ x ∈ S ++ (A ++ [v]) := by
      intro x; rw [pv.seen_iff x, hS x]; simp [or_assoc]
    obtain ⟨l, t⟩ := processValues_rec hc vs pv.inv g1 hS1 (fun u hu => hC u (List.mem_cons_of_mem _ hu))
    have e2 : A ++ [v] ++ vs = A ++ v :: vs := by simp
    rw [e2] at l
    exact ⟨⟨l.inv, l.good, l.seenEq, pv.frame.trans l.frame⟩, t.trans pv.tail⟩

theorem enterGraph_rec {c : Cfg} (hc : c.OK) (iv : Nat → List Nat) (hiv : ∀ g u, u ∈ iv g ↔ c.io u = some g)
    {st : FixSt} {V S : List Nat} (inv : TInv c st) (good : Good c st V) (hS : ∀ x, x ∈ st.seen ↔ x ∈ S)
    (g : Nat) (isG : Bool) (ins outs bouts : List Nat)
    (hC1 : ∀ v ∈ ins ++ outs ++ bouts, c.C v) (hC2 : isG = true → ∀ u, c.io u = some g → c.C u) :
    Lvl c st (enterGraph st g isG ins outs bouts) (recVals S V (gvals iv g isG ins outs bouts))
        (S ++ gvals iv g isG ins outs bouts)
      ∧ (enterGraph st g isG ins outs bouts).vstack.tail = st.vstack := by
  rw [enterGraph_eq inv.nr]
  generalize hst0 : pushScope st = st0
  have e0 : VEq st st0 := by subst hst0; exact ⟨rfl, rfl, rfl, rfl, rfl, rfl, rfl⟩
  have etop : topOf st0.vstack = topOf st.vstack := by subst hst0; rfl
  have etail : st0.vstack.tail = st.vstack := by subst hst0; rfl
  have inv0 : TInv c st0 := inv.of_VEq e0
  have good0 : Good c st0 (recVals S V []) := by rw [recVals_nil]; exact good.of_VEq e0 etop
  have hS0 : ∀ x, x ∈ st0.seen ↔ x ∈ S ++ [] := by rw [e0.seen, List.append_nil]; exact hS
  have hg : ∀ v, v ∈ gvals iv g isG ins outs bouts ↔ (v ∈ ins ∨ v ∈ outs ∨ (isG = true ∧ v ∈ iv g) ∨ v ∈ bouts) := by
    intro v; unfold gvals; cases isG <;> simp
  obtain ⟨l1, t1⟩ := processValues_rec hc ins inv0 good0 hS0
    (fun v hv => hC1 v (List.mem_append_left _ (List.mem_append_left _ hv)))
  rw [List.nil_append] at l1
  obtain ⟨l2, t2⟩ := processValues_rec hc outs l1.inv l1.good l1.seenEq
    (fun v hv => hC1 v (List.mem_append_left _ (List.mem_append_right _ hv)))
  -- initializers (a snapshot read now), uniformly for both cases of `isG`
  have step3 : ∃ X : List Nat, (∀ x, x ∈ X ↔ (isG = true ∧ x ∈ iv g)) ∧
      Lvl c (processValues (processValues st0 ins) outs)
        (if isG = true then
          processValues (processValues (processValues st0 ins) outs)
            (((processValues (processValues st0 ins) outs).dicts g).map (·.2))
        else processValues (processValues st0 ins) outs) (recVals S V (ins ++ outs ++ X)) (S ++ (ins ++ outs ++ X))
      ∧ (if isG = true then
          processValues (processValues (processValues st0 ins) outs)
            (((processValues (processValues st0 ins) outs).dicts g).map (·.2))
        else processValues (processValues st0 ins) outs).vstack.tail = (processValues (processValues st0 ins) outs).vstack.tail := by
    cases isG with
    | false =>
      refine ⟨[], fun x => by simp, ?_, rfl⟩
      simp only [Bool.false_eq_true, if_false, List.append_nil]
      exact ⟨l2.inv, l2.good, l2.seenEq, Frame.refl _⟩
    | true =>
      simp only [if_true]
      have hdict : ∀ u, u ∈ ((processValues (processValues st0 ins) outs).dicts g).map (·.2) ↔ u ∈ iv g := by
        intro u
        rw [l2.inv.ok.mem_iff g u, hiv g u, l2.inv.io]
      obtain ⟨l3, t3⟩ := processValues_rec hc (((processValues (processValues st0 ins) outs).dicts g).map (·.2))
        l2.inv l2.good l2.seenEq (fun v hv => hC2 rfl v ((hiv g v).mp ((hdict v).mp hv)))
      exact ⟨_, fun x => by rw [hdict x]; simp, l3, t3⟩
  obtain ⟨X, hX, l3, t3⟩ := step3
  obtain ⟨l4, t4⟩ := processValues_rec hc bouts l3.inv l3.good l3.seenEq
    (fun v hv => hC1 v (List.mem_append_right _ hv))
  have hY : ∀ x, x ∈ X.filter (fun v => !S.contains v) ↔ x ∈ (if isG = true then iv g else []).filter (fun v => !S.contains v) := by
    intro x
    simp only [List.mem_filter, hX x]
    cases isG <;> simp
  have hlist : recVals S V (gvals iv g isG ins outs bouts)
      = (V ++ ins.filter (fun v => !S.contains v) ++ outs.filter (fun v => !S.contains v))
          ++ (if isG = true then iv g else []).filter (fun v => !S.contains v) ++ bouts.filter (fun v => !S.contains v) := by
    unfold gvals
    exact recVals_split4 S V ins outs _ bouts
  have hmemS : ∀ x, x ∈ S ++ (ins ++ outs ++ X ++ bouts) ↔ x ∈ S ++ gvals iv g isG ins outs bouts := by
    intro x; simp only [List.mem_append, hg x, hX x, or_assoc]
  refine ⟨⟨l4.inv, l4.good.congr ?_ ?_, fun x => (l4.seenEq x).trans (hmemS x),
    (Frame.of_VEq e0).trans (l1.frame.trans (l2.frame.trans (l3.frame.trans l4.frame)))⟩, ?_⟩
  · intro x
    rw [mem_recVals, mem_recVals]
    simp only [List.mem_append, hg x, hX x, or_assoc]
  · -- the initializers were visited in dictionary order at that moment; different initializers of one graph
    -- had different names, so their relative order does not matter
    intro x _ u hu
    rw [recVals_split4] at hu
    rw [hlist]
    rcases before_seg hY hu with h | ⟨h1, h2, h3⟩
    · exact Or.inl h
    · have h1' := (hX u).mp (List.mem_filter.mp h1).1
      have h2' := (hX x).mp (List.mem_filter.mp h2).1
      exact Or.inr (fun e => h3 (hc.inj g u x ((hiv g u).mp h1'.2) ((hiv g x).mp h2'.2) e))
  · rw [t4, t3, t2, t1, etail]

/-- **the induction over the traversal without the scoping rule, on the concrete recorded lists** -/
theorem runTr_rec {c : Cfg} (hc : c.OK) (iv : Nat → List Nat) (hiv : ∀ g u, u ∈ iv g ↔ c.io u = some g) :
    ∀ (t : Tr) {st : FixSt} {V S : List Nat}, TInv c st → Good c st V →
      (∀ x, x ∈ st.seen ↔ x ∈ S) → HC c t →
      Lvl c st (runTr t st) (bodyVisR iv t S V) (seenAfter iv t S)
        ∧ (runTr t st).vstack.tail = st.vstack.tail
        ∧ ∀ L ∈ recScopes iv t S V, ScopeOK c (runTr t st) L := by
  intro t
  induction t with
  | nil =>
    intro st V S inv good hS _
    exact ⟨⟨inv, good, hS, Frame.refl st⟩, rfl, fun L hL => by simp [recScopes] at hL⟩
  | node n ins outs subs rest ihs ihr =>
    intro st V S inv good hS hC
    obtain ⟨hC1, hCs, hCr⟩ := hC.node
    simp only [runTr, visitNode, bodyVisR, seenAfter, recScopes]
    obtain ⟨e1, ev1⟩ := fixNodeName_VEq (st := st) n
    have inv1 := inv.of_VEq e1
    have good1 : Good c (fixNodeName st n) (recVals S V []) := by
      rw [recVals_nil]; exact good.of_VEq e1 (by rw [ev1])
    have hS1 : ∀ x, x ∈ (fixNodeName st n).seen ↔ x ∈ S ++ [] := by
      rw [e1.seen, List.append_nil]; exact hS
    obtain ⟨l2, t2⟩ := processValues_rec hc (nodeVals ins outs) inv1 good1 hS1 hC1
    rw [List.nil_append] at l2
    obtain ⟨l3, t3, s3⟩ := ihs l2.inv l2.good l2.seenEq hCs
    obtain ⟨l4, t4, s4⟩ := ihr l3.inv l3.good l3.seenEq hCr
    refine ⟨⟨l4.inv, l4.good, l4.seenEq, (Frame.of_VEq e1).trans (l2.frame.trans (l3.frame.trans l4.frame))⟩, ?_, ?_⟩
    · rw [t4, t3, t2, ev1]
    · intro L hL
      rcases List.mem_append.mp hL with hL | hL
      · exact (s3 L hL).frame l4.frame
      · exact s4 L hL
  | graph g isG ins outs body rest ihb ihr =>
    intro st V S inv good hS hC
    obtain ⟨hC1, hC2, hCb, hCr⟩ := hC.graph
    simp only [runTr, bodyVisR, seenAfter, recScopes]
    obtain ⟨l1, t1⟩ := enterGraph_rec hc iv hiv inv good hS g isG ins outs (bodyOuts body) hC1 hC2
    -- entered again by the nested iterator: everything is seen already
    obtain ⟨l2, t2⟩ := enterGraph_rec hc iv hiv l1.inv l1.good l1.seenEq g isG ins outs (bodyOuts body) hC1 hC2
    have good2 : Good c (enterGraph (enterGraph st g isG ins outs (bodyOuts body)) g isG ins outs (bodyOuts body))
        (recVals S V (gvals iv g isG ins outs (bodyOuts body))) := by
      have := l2.good
      rw [recVals_all_seen (fun x hx => List.mem_append_right _ hx)] at this
      exact this
    have hS2 : ∀ x, x ∈ (enterGraph (enterGraph st g isG ins outs (bodyOuts body)) g isG ins outs (bodyOuts body)).seen ↔ x ∈ S ++ gvals iv g isG ins outs (bodyOuts body) := by
      intro x; rw [l2.seenEq x]; simp only [List.mem_append]; exact ⟨fun h => h.elim id Or.inr, Or.inl⟩
    obtain ⟨l3, t3, s3⟩ := ihb l2.inv good2 hS2 hCb
    obtain ⟨e4, ev4⟩ := exitGraph_VEq l3.inv.nr
    have inv4 := l3.inv.of_VEq e4
    obtain ⟨e5, ev5⟩ := exitGraph_VEq inv4.nr
    have inv5 := inv4.of_VEq e5
    have e35 := e4.trans e5
    have hstk : (exitGraph (exitGraph (runTr body (enterGraph (enterGraph st g isG ins outs (bodyOuts body)) g isG ins outs (bodyOuts body))))).vstack = st.vstack := by
      rw [ev5, ev4, t3, t2, t1]
    have fr05 : Frame st (exitGraph (exitGraph (runTr body (enterGraph (enterGraph st g isG ins outs (bodyOuts body)) g isG ins outs (bodyOuts body))))) :=
      l1.frame.trans (l2.frame.trans (l3.frame.trans (Frame.of_VEq e35)))
    have good5 : Good c (exitGraph (exitGraph (runTr body (enterGraph (enterGraph st g isG ins outs (bodyOuts body)) g isG ins outs (bodyOuts body))))) V :=
      { toScopeOK := good.toScopeOK.frame fr05
        top_iff := fun s => by
          rw [hstk, good.top_iff s]
          constructor
          · rintro ⟨u, hu, hs⟩; exact ⟨u, hu, by rw [fr05.names u (good.seen u hu).1]; exact hs⟩
          · rintro ⟨u, hu, hs⟩; exact ⟨u, hu, by rw [← fr05.names u (good.seen u hu).1]; exact hs⟩ }
    have hS5 : ∀ x, x ∈ (exitGraph (exitGraph (runTr body (enterGraph (enterGraph st g isG ins outs (bodyOuts body)) g isG ins outs (bodyOuts body))))).seen
        ↔ x ∈ seenAfter iv body (S ++ gvals iv g isG ins outs (bodyOuts body)) := by
      rw [e35.seen]; exact l3.seenEq
    obtain ⟨l6, t6, s6⟩ := ihr inv5 good5 hS5 hCr
    refine ⟨⟨l6.inv, l6.good, l6.seenEq, fr05.trans l6.frame⟩, ?_, ?_⟩
    · rw [t6, hstk]
    · intro L hL
      rcases List.mem_cons.mp hL with rfl | hL
      · exact ((l3.good.toScopeOK).of_VEq e35).frame l6.frame
      · rcases List.mem_append.mp hL with hL | hL
        · exact ((s3 L hL).of_VEq e35).frame l6.frame
        · exact s6 L hL

/-! ### one call, the whole pass -/

/-- one `_fix_graph_names` call, **no scoping hypothesis**: the full per-list postcondition (pairwise different
non-empty names, unique names kept, first holder keeps) on every list of recorded values -/
theorem fixTop_recOrd {w : World} {t : Top} (hok : InitsOk w) (hcl : Closed w.initOf t)
    (iv : Nat → List Nat) (hiv : ∀ g u, u ∈ iv g ↔ w.initOf u = some g) :
    ∀ L ∈ recScopes iv t.tr [] [], ScopeOK (topCfg w t) (fixTop w t) L := by
  have hc := topCfg_OK hok hcl
  obtain ⟨hC1, hC2, hCb, _⟩ := (topCfg_HC w t).graph
  have good0 : Good (topCfg w t) (topInit w t) [] :=
    { inj := fun a ha => by simp at ha, seen := fun u hu => by simp at hu, kept := fun v hv => by simp at hv
      first := FirstB.nil _ _
      top_iff := fun s => by simp [topInit, topOf] }
  obtain ⟨l1, _⟩ := enterGraph_rec hc iv hiv (topInit_TInv t hok) good0 (S := []) (fun x => by simp [topInit])
    t.gid t.isGraph t.ins t.outs (bodyOuts t.body) hC1 hC2
  obtain ⟨l2, _, s2⟩ := runTr_rec hc iv hiv t.body l1.inv l1.good l1.seenEq hCb
  obtain ⟨e3, _⟩ := exitGraph_VEq l2.inv.nr
  rw [fixTop_eq]
  intro L hL
  simp only [Top.tr, recScopes, List.append_nil, List.mem_cons] at hL
  rcases hL with rfl | hL
  · exact l2.good.toScopeOK.of_VEq e3
  · exact (s2 L hL).of_VEq e3

/-- the whole pass, **no scoping hypothesis**: on every list of recorded values unique names are kept and the first
holder of a name keeps it (names compared with those of the input world) -/
theorem fixModel_recOrd (iv : Nat → List Nat) : ∀ (tops : List Top) (w : World), InitsOk w →
    (∀ g u, u ∈ iv g ↔ w.initOf u = some g) →
    (∀ t ∈ tops, Closed w.initOf t ∧ (allNodes t.body).Nodup) →
    tops.Pairwise (TopDisj w.initOf) →
    ∀ t ∈ tops, ∀ L ∈ recScopes iv t.tr [] [],
      KeptOn w.vname (fixModel w tops).1.vname L ∧ FirstB w.vname (fixModel w tops).1.vname L
  | [], _, _, _, _, _ => fun t ht => by simp at ht
  | t :: ts, w, h, hiv, hyp, hdisj => by
    obtain ⟨hcl, hnd⟩ := hyp t List.mem_cons_self
    have inv := fixTop_TInv h hcl
    rw [fixModel_cons inv.nr]
    have hio : (fixTop w t).toWorld.initOf = w.initOf := inv.io
    rw [List.pairwise_cons] at hdisj
    have hyp' : ∀ t' ∈ ts, Closed (fixTop w t).toWorld.initOf t' ∧ (allNodes t'.body).Nodup :=
      fun t' ht' => by rw [hio]; exact hyp t' (List.mem_cons_of_mem _ ht')
    obtain ⟨fv, _⟩ := fixModel_frame ts (fixTop w t).toWorld inv.ok hyp'
    intro t0 ht0 L hL
    rcases List.mem_cons.mp ht0 with rfl | ht0
    · have sc := fixTop_recOrd h hcl iv hiv L hL
      have hsub := ((fixTop_rec h hcl iv hiv).1 L hL).2
      have e : ∀ x ∈ L, (fixModel (fixTop w t0).toWorld ts).1.vname x = (fixTop w t0).vname x :=
        fun x hx => fv x (fun t' ht' => by rw [hio]; exact (hdisj.1 t' ht').1 x (hsub x hx))
      constructor
      · intro v hv h1 h2
        show (fixModel (fixTop w t0).toWorld ts).1.vname v = w.vname v
        rw [e v hv]; exact sc.kept v hv h1 h2
      · exact sc.first.fin_eq e
    · have ih := fixModel_recOrd iv ts (fixTop w t).toWorld inv.ok (fun g u => by rw [hio]; exact hiv g u) hyp'
        (by rw [hio]; exact hdisj.2) t0 ht0 L hL
      have hcl0 := (hyp t0 (List.mem_cons_of_mem _ ht0)).1
      have hsub := ((fixTop_rec h hcl0 iv hiv).1 L hL).2
      have e : ∀ x ∈ L, (fixTop w t).vname x = w.vname x :=
        fun x hx => inv.outside x (fun hc => (hdisj.1 t0 ht0).1 x hc (hsub x hx))
      constructor
      · intro v hv h1 h2
        have := ih.1 v hv (by rw [e v hv]; exact h1) (fun u hu huv => by rw [e u hu, e v hv]; exact h2 u hu huv)
        show (fixModel (fixTop w t).toWorld ts).1.vname v = w.vname v
        rw [this]; exact e v hv
      · exact ih.2.orig_eq (fun x hx => (e x hx).symm)

end IrVerif.Names

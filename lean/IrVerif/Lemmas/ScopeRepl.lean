/-
Reloadable IR models: the certificate `replG` re-runs the scope discipline of the deserializer over an
IR model (tables of the model's own values, equality checks instead of allocations).  It holds of
everything the deserializer builds (placeholders for dangling names, fresh values for unproduced graph
outputs, duplicate input names, shadowing included) and of every `Serializable` model, and it is what
the round trip needs.
-/
import IrVerif.Lemmas.ScopeRTMain
namespace IrVerif.Scope

/-! ### tables of source values and their images -/

/-- the scope table of the second run: the table of source values, renamed -/
def mapT (A : Assoc) (T : Table) : Table := T.map fun e => (e.1, sig A e.2)

/-- every value bound in `T` has an image -/
def TblIn (A : Assoc) (T : Table) : Prop := ∀ e ∈ T, e.2 ∈ A.map (·.1)

theorem lookup_mapT (A : Assoc) (T : Table) (x : Name) : (mapT A T).lookup x = (T.lookup x).map (sig A) := by
  induction T with
  | nil => rfl
  | cons e T ih =>
    obtain ⟨k, v⟩ := e
    simp only [mapT, List.map_cons, List.lookup_cons]
    split
    · rfl
    · exact ih

theorem resolve_mapT (A : Assoc) (x : Name) : ∀ (Ts : List Table),
    resolve x (Ts.map (mapT A)) = (resolve x Ts).map (sig A)
  | [] => rfl
  | T :: Ts => by
    simp only [List.map_cons, resolve, lookup_mapT]
    cases T.lookup x with
    | some v => rfl
    | none => exact resolve_mapT A x Ts

theorem mapT_extend {A : Assoc} (B : Assoc) {T : Table} (h : TblIn A T) : mapT (A ++ B) T = mapT A T := by
  apply List.map_congr_left
  intro e he
  rw [sig_append_of_mem (h e he)]

theorem mapT_cons (A : Assoc) (k : Name) (v : Nat) (T : Table) : mapT A ((k, v) :: T) = (k, sig A v) :: mapT A T := rfl

theorem TblIn.append {A : Assoc} (B : Assoc) {T : Table} (h : TblIn A T) : TblIn (A ++ B) T :=
  fun e he => mem_keys_append (h e he)

theorem TblIn.cons {A : Assoc} {T : Table} {k : Name} {v : Nat} (h : TblIn A T) (hv : v ∈ A.map (·.1)) :
    TblIn A ((k, v) :: T) := fun e he => by
  simp only [List.mem_cons] at he
  rcases he with rfl | he
  · exact hv
  · exact h e he

theorem lookup_mem_tbl {T : Table} {x : Name} {v : Nat} (h : T.lookup x = some v) : (x, v) ∈ T := by
  induction T with
  | nil => simp at h
  | cons e T ih =>
    obtain ⟨k, u⟩ := e
    simp only [List.lookup_cons] at h
    split at h
    · rename_i hk
      have : x = k := by simpa using hk
      simp only [Option.some.injEq] at h
      subst this; subst h; simp
    · exact List.mem_cons_of_mem _ (ih h)

theorem TblIn.lookup {A : Assoc} {T : Table} (h : TblIn A T) {x : Name} {v : Nat} (hl : T.lookup x = some v) :
    v ∈ A.map (·.1) := h _ (lookup_mem_tbl hl)

/-! ### the certificate -/

/-- result of one phase of the certificate: the scope afterwards, the values the phase introduced (in the
    order in which a deserializer run creates them), and the conditions -/
structure RR where
  tbl : Table
  new : List Nat
  ok : Prop

/-- `{v.name: v for v in inputs}`, newest first -/
def tblIns (V : Nat → ValueS) (ins : List Nat) : Table := (ins.map fun v => (nm V v, v)).reverse

/-- the initializer dict: a key bound in the scope (a graph input) must be bound to this value; any
    other key introduces the value.  Keyed by its non-empty name, with a tensor; an initializer of its
    own that is not a graph output has a type and a shape (it would receive them from its tensor). -/
def replInits (V : Nat → ValueS) (gouts : List Nat) : Table → List (Name × Nat) → RR
  | T, [] => ⟨T, [], True⟩
  | T, (k, v) :: r =>
    match T.lookup k with
    | some u =>
      ⟨(replInits V gouts T r).tbl, (replInits V gouts T r).new,
        ((V v).name = some k ∧ k ≠ "" ∧ (V v).const ≠ none) ∧ u = v ∧ (replInits V gouts T r).ok⟩
    | none =>
      ⟨(replInits V gouts ((k, v) :: T) r).tbl, v :: (replInits V gouts ((k, v) :: T) r).new,
        ((V v).name = some k ∧ k ≠ "" ∧ (V v).const ≠ none) ∧
        (v ∉ gouts → (V v).info.ty ≠ none ∧ (V v).info.sh ≠ none) ∧ (replInits V gouts ((k, v) :: T) r).ok⟩

/-- declaring the (live) node outputs of a graph: a non-empty name must be unbound -/
def replDecl (V : Nat → ValueS) : Table → List Nat → RR
  | T, [] => ⟨T, [], True⟩
  | T, v :: r =>
    if nameTruthy (V v).name then
      ⟨(replDecl V ((nm V v, v) :: T) r).tbl, v :: (replDecl V ((nm V v, v) :: T) r).new,
        T.lookup (nm V v) = none ∧ (replDecl V ((nm V v, v) :: T) r).ok⟩
    else
      ⟨(replDecl V T r).tbl, (replDecl V T r).new, (V v).name ≠ none ∧ (replDecl V T r).ok⟩

/-- the inputs of a node: a name bound in the scope stack must be bound to this value (innermost first);
    an unbound name introduces the value (a placeholder) in the current scope -/
def replRes (V : Nat → ValueS) (outer : List Table) : Table → List (Option Nat) → RR
  | T, [] => ⟨T, [], True⟩
  | T, none :: r => replRes V outer T r
  | T, some v :: r =>
    match resolve (nm V v) (T :: outer) with
    | some u =>
      ⟨(replRes V outer T r).tbl, (replRes V outer T r).new,
        nameTruthy (V v).name = true ∧ u = v ∧ (replRes V outer T r).ok⟩
    | none =>
      ⟨(replRes V outer ((nm V v, v) :: T) r).tbl, v :: (replRes V outer ((nm V v, v) :: T) r).new,
        nameTruthy (V v).name = true ∧ (replRes V outer ((nm V v, v) :: T) r).ok⟩

/-- graph outputs: a name bound in the graph's own scope must be bound to this value; an unbound name
    introduces the value (which is not entered into the scope) -/
def replOuts (V : Nat → ValueS) (T : Table) : List Nat → RR
  | [] => ⟨T, [], True⟩
  | v :: r =>
    match T.lookup (nm V v) with
    | some u => ⟨T, (replOuts V T r).new, (V v).name ≠ none ∧ u = v ∧ (replOuts V T r).ok⟩
    | none => ⟨T, v :: (replOuts V T r).new, (V v).name ≠ none ∧ (replOuts V T r).ok⟩

mutual
/-- the certificate of a graph nested in the scopes `outer` -/
def replG (V : Nat → ValueS) (outer : List Table) : GraphT → RR
  | .mk _ ins inits nodes outs =>
    ⟨[],
      ins ++ (replInits V outs (tblIns V ins) inits).new ++
        (replDecl V (replInits V outs (tblIns V ins) inits).tbl (nodes.flatMap (liveOuts V))).new ++
        (replNs V outer (replDecl V (replInits V outs (tblIns V ins) inits).tbl (nodes.flatMap (liveOuts V))).tbl nodes).new ++
        (replOuts V (replNs V outer (replDecl V (replInits V outs (tblIns V ins) inits).tbl
          (nodes.flatMap (liveOuts V))).tbl nodes).tbl outs).new,
      (∀ v ∈ ins, (V v).name ≠ none) ∧ (inits.map (·.1)).Nodup ∧
        (replInits V outs (tblIns V ins) inits).ok ∧
        (replDecl V (replInits V outs (tblIns V ins) inits).tbl (nodes.flatMap (liveOuts V))).ok ∧
        (replNs V outer (replDecl V (replInits V outs (tblIns V ins) inits).tbl (nodes.flatMap (liveOuts V))).tbl nodes).ok ∧
        (replOuts V (replNs V outer (replDecl V (replInits V outs (tblIns V ins) inits).tbl
          (nodes.flatMap (liveOuts V))).tbl nodes).tbl outs).ok⟩
def replNs (V : Nat → ValueS) (outer : List Table) : Table → List NodeT → RR
  | T, [] => ⟨T, [], True⟩
  | T, n :: ns =>
    ⟨(replNs V outer (replN V outer T n).tbl ns).tbl,
      (replN V outer T n).new ++ (replNs V outer (replN V outer T n).tbl ns).new,
      (replN V outer T n).ok ∧ (replNs V outer (replN V outer T n).tbl ns).ok⟩
def replN (V : Nat → ValueS) (outer : List Table) : Table → NodeT → RR
  | T, .mk _ _ ins outs subs =>
    ⟨(replRes V outer T ins).tbl,
      (replRes V outer T ins).new ++ (stripTrailing V outs).filter (fun v => !nameTruthy (V v).name) ++
        (replGs V ((replRes V outer T ins).tbl :: outer) subs).new,
      (replRes V outer T ins).ok ∧ (∀ v ∈ stripTrailing V outs, (V v).name ≠ none) ∧
        (∀ v ∈ stripTrailing V outs, nameTruthy (V v).name = true →
          (replRes V outer T ins).tbl.lookup (nm V v) = some v) ∧
        (replGs V ((replRes V outer T ins).tbl :: outer) subs).ok⟩
def replGs (V : Nat → ValueS) (scopes : List Table) : List GraphT → RR
  | [] => ⟨[], [], True⟩
  | g :: gs => ⟨[], (replG V scopes g).new ++ (replGs V scopes gs).new, (replG V scopes g).ok ∧ (replGs V scopes gs).ok⟩
end

/-- **Reloadable**: the model is what a deserializer run produces from the names it carries — every
    reference resolves, innermost scope first, to the value it refers to, or refers to a value that is
    introduced at that point (placeholder, unproduced graph output); every introduced value is
    introduced once. -/
def Reloadable (w : World) : Prop :=
  (replG w.st.vals [] w.root).ok ∧ (replG w.st.vals [] w.root).new.Nodup

end IrVerif.Scope

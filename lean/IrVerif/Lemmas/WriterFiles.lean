/-
C09 helper development: file images.  Writes of tensors with pairwise disjoint byte ranges commute:
the image after any set of writes is determined pointwise (`Spec`), hence equals the serial image.
-/
import IrVerif.Lemmas.WriterLog
namespace IrVerif.Writer

/-- byte `k` of a file image (zero beyond the end) -/
def getB (f : List Nat) (k : Nat) : Nat := f[k]?.getD 0

theorem writeAt_nil (f : List Nat) (off : Nat) : writeAt f off [] = f := by simp [writeAt]

theorem writeAt_length (f : List Nat) (off : Nat) (d : List Nat) (hd : d ≠ []) :
    (writeAt f off d).length = max f.length (off + d.length) := by
  have : d.isEmpty = false := by cases d <;> simp at hd ⊢
  simp only [writeAt, this, Bool.false_eq_true, if_false, List.length_append, List.length_take,
    List.length_drop, List.length_replicate]
  omega

theorem getD_append_zeros (f : List Nat) (m k : Nat) :
    (f ++ List.replicate m 0)[k]?.getD 0 = f[k]?.getD 0 := by
  by_cases h2 : k < f.length
  · rw [List.getElem?_append_left h2]
  · rw [List.getElem?_append_right (by omega), List.getElem?_eq_none (l := f) (by omega)]
    simp only [List.getElem?_replicate]
    split <;> rfl

theorem writeAt_getB (f : List Nat) (off : Nat) (d : List Nat) (k : Nat) (hd : d ≠ []) :
    getB (writeAt f off d) k =
      if off ≤ k ∧ k < off + d.length then d[k - off]?.getD 0 else getB f k := by
  have : d.isEmpty = false := by cases d <;> simp at hd ⊢
  simp only [writeAt, this, Bool.false_eq_true, if_false, getB]
  by_cases h1 : k < off
  · have hc : ¬ (off ≤ k ∧ k < off + d.length) := by omega
    simp only [hc, if_false]
    rw [List.append_assoc, List.getElem?_append_left (by simp; omega)]
    rw [List.getElem?_take_of_lt h1]
    exact getD_append_zeros f _ k
  · by_cases h3 : k < off + d.length
    · have hc : off ≤ k ∧ k < off + d.length := by omega
      simp only [hc, and_self, if_true]
      rw [List.append_assoc, List.getElem?_append_right (by simp; omega)]
      rw [List.getElem?_append_left (by simp; omega)]
      congr 2
      simp; omega
    · have hc : ¬ (off ≤ k ∧ k < off + d.length) := by omega
      simp only [hc, if_false]
      rw [List.getElem?_append_right (by simp; omega)]
      simp only [List.length_append, List.length_take, List.length_replicate, List.getElem?_drop]
      have e : off + d.length + (k - (min off (f.length + (off + d.length - f.length)) + d.length)) = k := by
        omega
      rw [e]
      exact getD_append_zeros f _ k


theorem writeTask_eq (cfg : Cfg) (fs : List (List Nat)) (i : Nat) :
    writeTask cfg fs i =
      fs.set (cfg.file i) (writeAt (fs.getD (cfg.file i) []) (cfg.off i) (cfg.data i)) := rfl

/-- byte `k` of file `φ` lies in the range of tensor `i` -/
def covers (cfg : Cfg) (i φ k : Nat) : Prop :=
  cfg.file i = φ ∧ cfg.off i ≤ k ∧ k < cfg.off i + (cfg.data i).length

/-- what C07 proves of the offsets computed by `_compute_external_data_info`: the byte ranges of
    different tensors in one file are disjoint; every tensor goes to an existing file -/
structure Layout (cfg : Cfg) : Prop where
  file_lt : ∀ i, i < cfg.n → cfg.file i < cfg.files.length
  disjoint : ∀ i j, i < cfg.n → j < cfg.n → i ≠ j → cfg.file i = cfg.file j →
    cfg.off i + (cfg.data i).length ≤ cfg.off j ∨ cfg.off j + (cfg.data j).length ≤ cfg.off i

/-- pointwise description of the file images after exactly the tensors in `W` have been written
    (in any order) -/
structure Spec (cfg : Cfg) (W : Nat → Prop) (F : List (List Nat)) : Prop where
  nfiles : F.length = cfg.files.length
  cov : ∀ i φ k, W i → covers cfg i φ k →
    getB (F.getD φ []) k = (cfg.data i)[k - cfg.off i]?.getD 0
  unc : ∀ φ k, (∀ i, W i → ¬ covers cfg i φ k) →
    getB (F.getD φ []) k = getB (cfg.files.getD φ []) k
  len_ge0 : ∀ φ, (cfg.files.getD φ []).length ≤ (F.getD φ []).length
  len_ge : ∀ i, W i → cfg.data i ≠ [] →
    cfg.off i + (cfg.data i).length ≤ (F.getD (cfg.file i) []).length
  len_eq : ∀ φ, (F.getD φ []).length = (cfg.files.getD φ []).length ∨
    ∃ i, W i ∧ cfg.file i = φ ∧ cfg.data i ≠ [] ∧
      (F.getD φ []).length = cfg.off i + (cfg.data i).length

theorem Spec_congr {cfg : Cfg} {W W' : Nat → Prop} {F : List (List Nat)} (hW : ∀ i, W i ↔ W' i)
    (h : Spec cfg W F) : Spec cfg W' F := by
  refine ⟨h.nfiles, fun i φ k hi => h.cov i φ k ((hW i).2 hi),
    fun φ k hn => h.unc φ k (fun i hi => hn i ((hW i).1 hi)), h.len_ge0,
    fun i hi => h.len_ge i ((hW i).2 hi), fun φ => ?_⟩
  rcases h.len_eq φ with h1 | ⟨i, hi, h2⟩
  · exact Or.inl h1
  · exact Or.inr ⟨i, (hW i).1 hi, h2⟩

theorem Spec_init (cfg : Cfg) : Spec cfg (fun _ => False) cfg.files :=
  ⟨rfl, fun _ _ _ h => h.elim, fun _ _ _ => rfl, fun _ => Nat.le_refl _, fun _ h => h.elim,
    fun _ => Or.inl rfl⟩

theorem getD_set_list (F : List (List Nat)) (a φ : Nat) (x : List Nat) (ha : a < F.length) :
    (F.set a x).getD φ [] = if φ = a then x else F.getD φ [] := by
  simp only [List.getD_eq_getElem?_getD, List.getElem?_set]
  by_cases h : a = φ
  · subst h; simp [ha]
  · have : ¬ φ = a := fun e => h e.symm
    simp [h, this]

theorem Spec_write {cfg : Cfg} (lay : Layout cfg) {W : Nat → Prop} {F : List (List Nat)}
    (h : Spec cfg W F) (hW : ∀ j, W j → j < cfg.n) {i : Nat} (hi : i < cfg.n) (hni : ¬ W i) :
    Spec cfg (fun j => W j ∨ j = i) (writeTask cfg F i) := by
  have hfl : cfg.file i < F.length := by rw [h.nfiles]; exact lay.file_lt i hi
  rw [writeTask_eq]
  by_cases hd : cfg.data i = []
  · -- nothing is written
    have hsame : ∀ φ, (F.set (cfg.file i) (writeAt (F.getD (cfg.file i) []) (cfg.off i) (cfg.data i))).getD φ []
        = F.getD φ [] := by
      intro φ
      rw [getD_set_list _ _ _ _ hfl, hd, writeAt_nil]
      split
      · rename_i e; rw [e]
      · rfl
    have hnc : ∀ φ k, ¬ covers cfg i φ k := by
      intro φ k hc; have := hc.2.2; have h1 := hc.2.1; rw [hd] at this; simp at this; omega
    refine ⟨by simp [h.nfiles], ?_, ?_, ?_, ?_, ?_⟩
    · intro j φ k hj hc
      rw [hsame]
      rcases hj with hj | rfl
      · exact h.cov j φ k hj hc
      · exact absurd hc (hnc φ k)
    · intro φ k hn
      rw [hsame]
      exact h.unc φ k (fun j hj => hn j (Or.inl hj))
    · intro φ; rw [hsame]; exact h.len_ge0 φ
    · intro j hj hdj
      rw [hsame]
      rcases hj with hj | rfl
      · exact h.len_ge j hj hdj
      · exact absurd hd hdj
    · intro φ
      rw [hsame]
      rcases h.len_eq φ with h1 | ⟨j, hj, h2⟩
      · exact Or.inl h1
      · exact Or.inr ⟨j, Or.inl hj, h2⟩
  · have hget : ∀ φ, (F.set (cfg.file i) (writeAt (F.getD (cfg.file i) []) (cfg.off i) (cfg.data i))).getD φ []
        = if φ = cfg.file i then writeAt (F.getD (cfg.file i) []) (cfg.off i) (cfg.data i)
          else F.getD φ [] := fun φ => getD_set_list _ _ _ _ hfl
    refine ⟨by simp [h.nfiles], ?_, ?_, ?_, ?_, ?_⟩
    · intro j φ k hj hc
      rw [hget]
      rcases hj with hj | rfl
      · have hji : j ≠ i := fun e => hni (e ▸ hj)
        split
        · rename_i e
          rw [writeAt_getB _ _ _ _ hd]
          have hdis := lay.disjoint j i (hW j hj) hi hji (by rw [hc.1, e])
          have h2 := hc.2
          have : ¬ (cfg.off i ≤ k ∧ k < cfg.off i + (cfg.data i).length) := by omega
          simp only [this, if_false]
          rw [← e]; exact h.cov j φ k hj hc
        · exact h.cov j φ k hj hc
      · have e : φ = cfg.file j := hc.1.symm
        simp only [e, if_true]
        rw [writeAt_getB _ _ _ _ hd]
        simp only [hc.2, and_self, if_true]
    · intro φ k hn
      rw [hget]
      split
      · rename_i e
        rw [writeAt_getB _ _ _ _ hd]
        have : ¬ (cfg.off i ≤ k ∧ k < cfg.off i + (cfg.data i).length) := by
          intro hr; exact hn i (Or.inr rfl) ⟨e.symm, hr⟩
        simp only [this, if_false]
        rw [← e]; exact h.unc φ k (fun j hj => hn j (Or.inl hj))
      · exact h.unc φ k (fun j hj => hn j (Or.inl hj))
    · intro φ
      rw [hget]
      split
      · rename_i e
        rw [writeAt_length _ _ _ hd, ← e]
        have := h.len_ge0 φ; omega
      · exact h.len_ge0 φ
    · intro j hj hdj
      rw [hget]
      rcases hj with hj | rfl
      · split
        · rename_i e
          rw [writeAt_length _ _ _ hd, ← e]
          have := h.len_ge j hj hdj; omega
        · exact h.len_ge j hj hdj
      · simp only [if_true]
        rw [writeAt_length _ _ _ hd]; omega
    · intro φ
      rw [hget]
      split
      · rename_i e
        rw [writeAt_length _ _ _ hd, ← e]
        by_cases hmax : cfg.off i + (cfg.data i).length ≤ (F.getD φ []).length
        · rcases h.len_eq φ with h1 | ⟨j, hj, h2, h3, h4⟩
          · exact Or.inl (by omega)
          · exact Or.inr ⟨j, Or.inl hj, h2, h3, by omega⟩
        · exact Or.inr ⟨i, Or.inr rfl, e.symm, hd, by omega⟩
      · rcases h.len_eq φ with h1 | ⟨j, hj, h2⟩
        · exact Or.inl h1
        · exact Or.inr ⟨j, Or.inl hj, h2⟩

theorem Spec_ext {cfg : Cfg} {W : Nat → Prop} {F F' : List (List Nat)} (h : Spec cfg W F)
    (h' : Spec cfg W F') : F = F' := by
  have hlen : ∀ {G G' : List (List Nat)}, Spec cfg W G → Spec cfg W G' → ∀ φ,
      (G.getD φ []).length ≤ (G'.getD φ []).length := by
    intro G G' g g' φ
    rcases g.len_eq φ with h1 | ⟨i, hi, h2, h3, h4⟩
    · rw [h1]; exact g'.len_ge0 φ
    · rw [h4, ← h2]; exact g'.len_ge i hi h3
  apply List.ext_getElem (by rw [h.nfiles, h'.nfiles])
  intro φ h1 h2
  have e1 : F.getD φ [] = F[φ] := by simp [h1]
  have e2 : F'.getD φ [] = F'[φ] := by simp [h2]
  have hl : F[φ].length = F'[φ].length := by
    have a := hlen h h' φ; have b := hlen h' h φ
    rw [e1, e2] at a b; omega
  apply List.ext_getElem hl
  intro k hk hk'
  have g1 : getB F[φ] k = F[φ][k] := by simp [getB, hk]
  have g2 : getB F'[φ] k = F'[φ][k] := by simp [getB, hk']
  rw [← g1, ← g2, ← e1, ← e2]
  by_cases hc : ∃ i, W i ∧ covers cfg i φ k
  · obtain ⟨i, hi, hc⟩ := hc
    rw [h.cov i φ k hi hc, h'.cov i φ k hi hc]
  · have hn : ∀ i, W i → ¬ covers cfg i φ k := fun i hi hcv => hc ⟨i, hi, hcv⟩
    rw [h.unc φ k hn, h'.unc φ k hn]

theorem serial_spec {cfg : Cfg} (lay : Layout cfg) : ∀ m, m ≤ cfg.n →
    Spec cfg (fun j => j < m) ((List.range m).foldl (writeTask cfg) cfg.files)
  | 0, _ => Spec_congr (fun i => ⟨False.elim, fun h => absurd h (Nat.not_lt_zero i)⟩) (Spec_init cfg)
  | m + 1, hm => by
      rw [List.range_succ, List.foldl_append]
      have ih := serial_spec lay m (by omega)
      have := Spec_write lay ih (fun j hj => by omega) (i := m) (by omega) (by simp)
      exact Spec_congr (by intro j; constructor <;> intro h <;> omega) this


/-! ### the serial writer starts from an empty file -/

/-- the same configuration with every file initially empty: the serial writer opens the file "wb"
    and relies on `seek` past the end leaving zero holes (external_data.py 575-586) -/
def cfgEmpty (cfg : Cfg) : Cfg := { cfg with files := cfg.files.map (fun _ => []) }

/-- the parallel writer's starting image (605-606 `truncate(total_size)`): all zeros and not longer
    than the largest end of a tensor (an empty file — serial shard writers — qualifies) -/
structure Prealloc (cfg : Cfg) : Prop where
  zeros : ∀ φ k, getB (cfg.files.getD φ []) k = 0
  tight : ∀ φ, (cfg.files.getD φ []).length = 0 ∨ ∃ i, i < cfg.n ∧ cfg.file i = φ ∧ cfg.data i ≠ [] ∧
    (cfg.files.getD φ []).length = cfg.off i + (cfg.data i).length

theorem getD_map_nil (fs : List (List Nat)) (φ : Nat) : (fs.map (fun _ => ([] : List Nat))).getD φ [] = [] := by
  simp only [List.getD_eq_getElem?_getD, List.getElem?_map]
  cases fs[φ]? <;> rfl

/-- writing the same disjoint ranges into empty files (zero-filled gaps) gives the same images as
    writing them into the zero-preallocated files -/
theorem serial_from_empty {cfg : Cfg} (lay : Layout cfg) (pre : Prealloc cfg) :
    serialFiles cfg = serialFiles (cfgEmpty cfg) := by
  have lay0 : Layout (cfgEmpty cfg) :=
    ⟨fun i hi => by
      show cfg.file i < (cfg.files.map (fun _ => ([] : List Nat))).length
      simp; exact lay.file_lt i hi, lay.disjoint⟩
  have h := serial_spec lay cfg.n (Nat.le_refl _)
  have h0 := serial_spec lay0 cfg.n (Nat.le_refl _)
  have e0 : serialFiles (cfgEmpty cfg) =
      (List.range cfg.n).foldl (writeTask (cfgEmpty cfg)) (cfgEmpty cfg).files := rfl
  have e1 : serialFiles cfg = (List.range cfg.n).foldl (writeTask cfg) cfg.files := rfl
  rw [e0, e1]
  generalize (List.range cfg.n).foldl (writeTask (cfgEmpty cfg)) (cfgEmpty cfg).files = F0 at h0
  refine Spec_ext h ⟨?_, h0.cov, ?_, ?_, h0.len_ge, ?_⟩
  · have := h0.nfiles; simpa [cfgEmpty] using this
  · intro φ k hn
    rw [pre.zeros φ k]
    have := h0.unc φ k hn
    rw [this]; show getB ((cfg.files.map (fun _ => [])).getD φ []) k = 0
    rw [getD_map_nil]; rfl
  · intro φ
    rcases pre.tight φ with e | ⟨i, hi, hf, hd, e⟩
    · omega
    · rw [e, ← hf]
      have h3 : cfg.off i + (cfg.data i).length ≤ (F0.getD (cfg.file i) []).length := h0.len_ge i hi hd
      exact h3
  · intro φ
    rcases h0.len_eq φ with e | ⟨i, hi, hf, hd, e⟩
    · have e' : (F0.getD φ []).length = 0 := by
        rw [e]; show ((cfg.files.map (fun _ => [])).getD φ []).length = 0
        rw [getD_map_nil]; rfl
      rcases pre.tight φ with e2 | ⟨i, hi, hf, hd, e2⟩
      · left; omega
      · exfalso
        have h3 : cfg.off i + (cfg.data i).length ≤ (F0.getD (cfg.file i) []).length := h0.len_ge i hi hd
        rw [hf] at h3
        have : 0 < (cfg.data i).length := by
          cases hdd : cfg.data i with
          | nil => exact absurd hdd hd
          | cons a b => simp
        omega
    · exact Or.inr ⟨i, hi, hf, hd, e⟩

/-! ### the image along a concurrent run -/

/-- the bytes of this tensor have been written -/
def written : Pc → Bool
  | .bRel true | .done true => true
  | _ => false

def writtenP (s : State) (k : Nat) : Prop := ∃ p, s.tasks[k]? = some p ∧ written p = true

theorem writtenP_set {s s' : State} {i : Nat} {p x : Pc} (hi : s.tasks[i]? = some p)
    (ht : s'.tasks = s.tasks.set i x) (hpx : written x = written p) (k : Nat) :
    writtenP s' k ↔ writtenP s k := by
  have hlt := getElem?_lt hi
  unfold writtenP
  rw [ht]
  by_cases e : i = k
  · subst e
    have h1 : (s.tasks.set i x)[i]? = some x := by simp [hlt]
    constructor
    · rintro ⟨q, hq, hc⟩; rw [h1] at hq; cases hq; exact ⟨p, hi, by rw [← hpx]; exact hc⟩
    · rintro ⟨q, hq, hc⟩; rw [hi] at hq; cases hq; exact ⟨x, h1, by rw [hpx]; exact hc⟩
  · simp only [List.getElem?_set, e, if_false]

theorem writtenP_finish {cfg : Cfg} {s : State} (hs : SInv cfg s) {i : Nat} {p : Pc} (ok : Bool)
    (hi : s.tasks[i]? = some p) (hp : act p = true) (hw : written p = ok) (k : Nat) :
    writtenP (finishTask cfg s i ok) k ↔ writtenP s k := by
  have hlt := getElem?_lt hi
  have hpd : p ≠ .done true := act_ne_done hp
  rcases finishTask_cases cfg s i ok with ⟨rfl, hn, e⟩ | ⟨_, e⟩ <;> rw [e]
  · have hnext := hs.next_notStarted hi hpd hn
    have h1 := writtenP_set (s := s) (s' := { s with tasks := s.tasks.set i (.done true) })
      (x := .done true) hi rfl (by rw [hw]; rfl) k
    have h2 := writtenP_set (s := { s with tasks := s.tasks.set i (.done true) })
      (s' := { s with tasks := (s.tasks.set i (.done true)).set (i + 1) .tAcq })
      (i := i + 1) (p := .notStarted) (x := .tAcq)
      (by simp only [List.getElem?_set]; simp; exact hnext) rfl rfl k
    exact h2.trans h1
  · exact writtenP_set (s := s) (x := .done ok) hi rfl (by rw [hw]; cases ok <;> rfl) k

theorem writtenP_wake {s : State} (k : Nat) :
    writtenP { s with tasks := s.tasks.map wake } k ↔ writtenP s k := by
  unfold writtenP
  simp only [List.getElem?_map, Option.map_eq_some_iff]
  constructor
  · rintro ⟨p, ⟨q, hq, rfl⟩, hp⟩; exact ⟨q, hq, by cases q <;> simp_all [wake, written]⟩
  · rintro ⟨q, hq, hp⟩; exact ⟨wake q, ⟨q, hq, rfl⟩, by cases q <;> simp_all [wake, written]⟩

def FInv (cfg : Cfg) (s : State) : Prop := Spec cfg (writtenP s) s.files

theorem FInv_init (cfg : Cfg) : FInv cfg (init cfg) := by
  refine Spec_congr (fun i => ⟨False.elim, ?_⟩) (Spec_init cfg)
  rintro ⟨p, hp, hw⟩
  simp [init, List.getElem?_replicate] at hp
  rw [← hp.2] at hw; simp [written] at hw

theorem FInv_step {cfg : Cfg} (wf : WF cfg) (lay : Layout cfg) {s s' : State} {l : Label}
    (hs : SInv cfg s) (h : FInv cfg s) (hst : StepRel cfg s l s') : FInv cfg s' := by
  have frame : ∀ {s' : State}, s'.files = s.files → (∀ k, writtenP s' k ↔ writtenP s k) →
      FInv cfg s' := by
    intro s' hf hc
    unfold FInv; rw [hf]
    exact Spec_congr (fun k => (hc k).symm) h
  cases hst with
  | submit c k hm hk => exact frame rfl (fun _ => Iff.rfl)
  | collect c j ok hm hj hf =>
      unfold collectOne
      cases ok
      · cases cfg.mode <;> exact frame rfl (fun _ => Iff.rfl)
      · simp only [if_true]; split <;> exact frame rfl (fun _ => Iff.rfl)
  | join c e hm he => exact frame rfl (fun _ => Iff.rfl)
  | take j q hq hidle =>
      have hj : j ∈ s.queue := by simp [hq]
      exact frame rfl (writtenP_set (hs.start_notStarted wf hj) rfl rfl)
  | exit hq hsd hidle => exact frame rfl (fun _ => Iff.rfl)
  | cbAcq i hi hl => exact frame rfl (writtenP_set hi rfl rfl)
  | cbFail i hi hf =>
      refine frame (by simp) (fun k => ?_)
      exact writtenP_finish (s := { s with log := s.log ++ [i], cbLock := false, tLocks := s.tLocks.set (cfg.obj i) false })
        (SInv_congr hs rfl rfl (by simp) rfl rfl) false hi rfl rfl k
  | cbOk i hi hf => exact frame rfl (writtenP_set hi rfl rfl)
  | tAcq i hi hl => exact frame rfl (writtenP_set hi rfl rfl)
  | bTry i p hi hp' =>
      rcases budgetTry_cases cfg s i with ⟨_, _, e⟩ | ⟨_, _, e⟩ | ⟨_, _, e⟩ | ⟨_, _, e⟩ <;> rw [e] <;>
        exact frame rfl (writtenP_set hi rfl (by rcases hp' with rfl | rfl <;> rfl))
  | writeFail i hi hf => exact frame rfl (writtenP_set hi rfl rfl)
  | writeOk i hi hf =>
      have hlt := getElem?_lt hi
      have hil : i < cfg.n := by rw [← hs.tasks_len]; exact hlt
      have hni : ¬ writtenP s i := by
        rintro ⟨p, hp, hw⟩; rw [hi] at hp; cases hp; simp [written] at hw
      have hW : ∀ j, writtenP s j → j < cfg.n := by
        rintro j ⟨p, hp, _⟩; rw [← hs.tasks_len]; exact getElem?_lt hp
      have := Spec_write lay h hW hil hni
      unfold FInv
      refine Spec_congr (fun k => ?_) this
      unfold writtenP
      by_cases e : i = k
      · subst e
        have h1 : (s.tasks.set i (.bRel true))[i]? = some (.bRel true) := by simp [hlt]
        exact ⟨fun _ => ⟨_, h1, rfl⟩, fun _ => Or.inr rfl⟩
      · have e3 : ¬ k = i := fun e' => e e'.symm
        simp only [List.getElem?_set, e, if_false, e3, or_false]
  | bRel i ok hi =>
      unfold budgetRelease
      refine frame (by simp) (fun k => ?_)
      rw [writtenP_finish (p := .bRel ok) _ ok (by simp [hi, wake]) rfl (by cases ok <;> rfl) k]
      · exact writtenP_wake (s := s) k
      · exact SInv_congr (s := { s with tasks := s.tasks.map wake }) (SInv_wake hs) rfl rfl
          (by simp) rfl rfl

end IrVerif.Writer

/-
C14 (deepening): flag honesty, measures and idempotence of IdentityElimination, CSE,
LiftSubgraphInitializers on C05's pass models.  Core Lean only.
-/
import IrVerif.Model.PassFlags2
import IrVerif.Lemmas.PassFlags
namespace IrVerif.PassFlags
open IrVerif.Sem IrVerif.Passes

/-! ## the empty substitution -/

mutual
theorem substG_nil : ∀ g : Graph, substG [] g = g
  | .mk inputs outputs inits nodes => by simp only [substG, substNodes_nil nodes]
theorem substNodes_nil : ∀ ns : List Node, substNodes [] ns = ns
  | [] => rfl
  | n :: ns => by simp only [substNodes, substN_nil n, substNodes_nil ns]
theorem substN_nil : ∀ n : Node, substN [] n = n
  | .mk op attrs ins outs bodies => by simp only [substN, substIns_nil', substBodies_nil bodies]
theorem substBodies_nil : ∀ bs : List Graph, substBodies [] bs = bs
  | [] => rfl
  | b :: bs => by simp only [substBodies, substG_nil b, substBodies_nil bs]
end

/-! ## IdentityElimination -/

mutual
theorem ieG_cnt0 (ii : List VId) : ∀ g : Graph, ieCntG ii [] g = 0 → ieG ii [] g = g
  | .mk inputs outputs inits nodes, h => by
    simp only [ieCntG] at h
    simp only [ieG, ieNodes_cnt0 ii _ outputs nodes h]
theorem ieNodes_cnt0 (ii loc : List VId) : ∀ (outs : List VId) (ns : List Node),
    ieCntNodes ii loc [] outs ns = 0 → ieNodes ii loc [] outs ns = ⟨ns, outs, []⟩
  | _, [], _ => rfl
  | outs, .mk op attrs ins nouts bodies :: ns, h => by
    simp only [ieCntNodes, substIns_nil'] at h
    simp only [ieNodes, substIns_nil']
    split at h
    · next x y hc =>
      simp only [hc]
      split at h
      · next hk =>
        simp only [hk, if_true]
        rw [ieNodes_cnt0 ii loc outs ns (by omega), ieBodies_cnt0 ii bodies (by omega)]
      · omega
    · next hc =>
      simp only [hc]
      rw [ieNodes_cnt0 ii loc outs ns (by omega), ieBodies_cnt0 ii bodies (by omega)]
theorem ieBodies_cnt0 (ii : List VId) : ∀ bs : List Graph, ieCntBodies ii [] bs = 0 → ieBodies ii [] bs = bs
  | [], _ => rfl
  | b :: bs, h => by
    simp only [ieCntBodies] at h
    simp only [ieBodies, ieG_cnt0 ii b (by omega), ieBodies_cnt0 ii bs (by omega)]
end

mutual
theorem ieG_nodes (ii : List VId) : ∀ (σ : Subst) (g : Graph),
    nodesG (ieG ii σ g) + ieCntG ii σ g ≤ nodesG g
  | σ, .mk inputs outputs inits nodes => by
    simp only [ieG, nodesG, ieCntG]
    exact ieNodes_nodes ii _ σ outputs nodes
theorem ieNodes_nodes (ii loc : List VId) : ∀ (σ : Subst) (outs : List VId) (ns : List Node),
    nodesNodes (ieNodes ii loc σ outs ns).nodes + ieCntNodes ii loc σ outs ns ≤ nodesNodes ns
  | _, _, [] => Nat.le_refl _
  | σ, outs, .mk op attrs ins nouts bodies :: ns => by
    have ihb := ieBodies_nodes ii σ bodies
    cases hc : ieCandidate op (substIns σ ins) nouts with
    | none =>
      have ih := ieNodes_nodes ii loc σ outs ns
      simp only [ieNodes, ieCntNodes, hc, nodesNodes]; omega
    | some p =>
      obtain ⟨x, y⟩ := p
      by_cases hk : (outs.contains y && (ii.contains x || !loc.contains x || outs.contains x)) = true
      · have ih := ieNodes_nodes ii loc σ outs ns
        simp only [ieNodes, ieCntNodes, hc, hk, if_true, nodesNodes]; omega
      · have ih := ieNodes_nodes ii loc ((y, x) :: σ) (outs.map (fun o => if o = y then x else o)) ns
        simp only [ieNodes, ieCntNodes, hc, hk, Bool.false_eq_true, if_false, nodesNodes]; omega
theorem ieBodies_nodes (ii : List VId) : ∀ (σ : Subst) (bs : List Graph),
    nodesBodies (ieBodies ii σ bs) + ieCntBodies ii σ bs ≤ nodesBodies bs
  | _, [] => Nat.le_refl _
  | σ, b :: bs => by
    have := ieG_nodes ii σ b
    have := ieBodies_nodes ii σ bs
    simp only [ieBodies, nodesBodies, ieCntBodies]; omega
end

theorem ie_funcs_nodes (ii : List VId) : ∀ fs : List Graph,
    ((fs.map (ieG ii [])).map nodesG).sum + (fs.map (ieCntG ii [])).sum ≤ (fs.map nodesG).sum
  | [] => Nat.le_refl _
  | f :: fs => by
    have := ieG_nodes ii [] f
    have := ie_funcs_nodes ii fs
    simp only [List.map_cons, List.sum_cons]; omega

/-! ## CSE -/

theorem cseNodes_cnt0 (limit : Nat) (gins : List VId) : ∀ (ns tbl : List Node) (outs : List VId),
    cseCnt limit gins tbl [] outs ns = 0 → cseNodes limit gins tbl [] outs ns = ⟨ns, outs, []⟩
  | [], _, _, _ => rfl
  | .mk op attrs ins nouts bodies :: ns, tbl, outs, h => by
    simp only [cseCnt, substIns_nil', substBodies_nil] at h
    simp only [cseNodes, substIns_nil', substBodies_nil]
    split at h
    · next hs =>
      simp only [hs, if_true]
      rw [cseNodes_cnt0 limit gins ns tbl outs h]
    · next hs =>
      simp only [hs]
      split at h
      · omega
      · next hf =>
        simp only [hf, Bool.false_eq_true, if_false]
        rw [cseNodes_cnt0 limit gins ns _ outs h]

/-- exact accounting of the top-level node list: one node leaves per elimination, one enters per
    inserted Identity -/
theorem cseNodes_length (limit : Nat) (gins : List VId) : ∀ (ns tbl : List Node) (σ : Subst) (outs : List VId),
    (cseNodes limit gins tbl σ outs ns).nodes.length + cseCnt limit gins tbl σ outs ns =
      ns.length + cseIns limit gins tbl σ outs ns
  | [], _, _, _ => rfl
  | .mk op attrs ins nouts bodies :: ns, tbl, σ, outs => by
    by_cases hs : cseSkip limit op attrs bodies = true
    · have ih := cseNodes_length limit gins ns tbl σ outs
      simp only [cseNodes, cseCnt, cseIns, hs, if_true, List.length_cons]; omega
    · cases hf : tbl.find? (fun n1 => cseKeyMatch n1 (.mk op attrs (substIns σ ins) nouts (substBodies σ bodies))) with
      | some n1 =>
        have ih := cseNodes_length limit gins ns tbl (nouts.zip n1.outs ++ σ)
          (cseFixOuts gins (nouts.zip n1.outs) [] [] outs).1
        simp only [cseNodes, cseCnt, cseIns, hs, Bool.false_eq_true, if_false, hf, List.length_append, List.length_cons]; omega
      | none =>
        have ih := cseNodes_length limit gins ns
          (tbl ++ [.mk op attrs (substIns σ ins) nouts (substBodies σ bodies)]) σ outs
        simp only [cseNodes, cseCnt, cseIns, hs, Bool.false_eq_true, if_false, hf, List.length_cons]; omega

/-! ## LiftSubgraphInitializers -/

theorem filter_of_not_nil {α : Type} (p : α → Bool) : ∀ l : List α,
    l.filter (fun a => !p a) = [] → l.filter p = l
  | [], _ => rfl
  | a :: l, h => by
    simp only [List.filter_cons] at h ⊢
    cases hp : p a
    · simp [hp] at h
    · simp only [hp, Bool.not_true, Bool.false_eq_true, if_false, if_true] at h ⊢
      rw [filter_of_not_nil p l h]

theorem filter_len_split {α : Type} (p : α → Bool) : ∀ l : List α,
    (l.filter p).length + (l.filter (fun a => !p a)).length = l.length
  | [] => rfl
  | a :: l => by
    have := filter_len_split p l
    simp only [List.filter_cons]
    cases hp : p a <;> simp <;> omega

theorem filter_not_filter {α : Type} (p : α → Bool) (l : List α) :
    (l.filter p).filter (fun a => !p a) = [] := by
  rw [List.filter_eq_nil_iff]
  intro a ha
  simp [(List.mem_filter.1 ha).2]

mutual
theorem lsiG_nil : ∀ g : Graph, (lsiG g).2 = [] → (lsiG g).1 = g
  | .mk inputs outputs inits nodes, h => by
    simp only [lsiG, List.append_eq_nil_iff] at h
    simp only [lsiG, lsiNodes_nil nodes h.2,
      filter_of_not_nil (fun p : VId × Tensor => inputs.contains p.1 || outputs.contains p.1) inits h.1]
theorem lsiNodes_nil : ∀ ns : List Node, (lsiNodes ns).2 = [] → (lsiNodes ns).1 = ns
  | [], _ => rfl
  | .mk op attrs ins outs bodies :: ns, h => by
    simp only [lsiNodes, List.append_eq_nil_iff] at h
    simp only [lsiNodes, lsiBodies_nil bodies h.1, lsiNodes_nil ns h.2]
theorem lsiBodies_nil : ∀ bs : List Graph, (lsiBodies bs).2 = [] → (lsiBodies bs).1 = bs
  | [], _ => rfl
  | b :: bs, h => by
    simp only [lsiBodies, List.append_eq_nil_iff] at h
    simp only [lsiBodies, lsiG_nil b h.1, lsiBodies_nil bs h.2]
end

mutual
theorem lsiG_inits : ∀ g : Graph, initsG (lsiG g).1 + (lsiG g).2.length = initsG g
  | .mk inputs outputs inits nodes => by
    have h1 := filter_len_split (fun p : VId × Tensor => inputs.contains p.1 || outputs.contains p.1) inits
    have h2 := lsiNodes_inits nodes
    simp only [lsiG, initsG, List.length_append]; omega
theorem lsiNodes_inits : ∀ ns : List Node, initsNodes (lsiNodes ns).1 + (lsiNodes ns).2.length = initsNodes ns
  | [] => rfl
  | .mk op attrs ins outs bodies :: ns => by
    have h1 := lsiBodies_inits bodies
    have h2 := lsiNodes_inits ns
    simp only [lsiNodes, initsNodes, List.length_append]; omega
theorem lsiBodies_inits : ∀ bs : List Graph, initsBodies (lsiBodies bs).1 + (lsiBodies bs).2.length = initsBodies bs
  | [] => rfl
  | b :: bs => by
    have h1 := lsiG_inits b
    have h2 := lsiBodies_inits bs
    simp only [lsiBodies, initsBodies, List.length_append]; omega
end

mutual
theorem lsiG_idem : ∀ g : Graph, lsiG (lsiG g).1 = ((lsiG g).1, [])
  | .mk inputs outputs inits nodes => by
    have h1 := filter_not_filter (fun p : VId × Tensor => inputs.contains p.1 || outputs.contains p.1) inits
    have h2 : (inits.filter (fun p => inputs.contains p.1 || outputs.contains p.1)).filter
        (fun p => inputs.contains p.1 || outputs.contains p.1) =
        inits.filter (fun p => inputs.contains p.1 || outputs.contains p.1) := by
      rw [List.filter_filter]; simp only [Bool.and_self]
    simp only [lsiG, lsiNodes_idem nodes, h1, h2, List.append_nil]
theorem lsiNodes_idem : ∀ ns : List Node, lsiNodes (lsiNodes ns).1 = ((lsiNodes ns).1, [])
  | [] => rfl
  | .mk op attrs ins outs bodies :: ns => by
    simp only [lsiNodes, lsiBodies_idem bodies, lsiNodes_idem ns, List.append_nil]
theorem lsiBodies_idem : ∀ bs : List Graph, lsiBodies (lsiBodies bs).1 = ((lsiBodies bs).1, [])
  | [] => rfl
  | b :: bs => by
    simp only [lsiBodies, lsiG_idem b, lsiBodies_idem bs, List.append_nil]
end

end IrVerif.PassFlags

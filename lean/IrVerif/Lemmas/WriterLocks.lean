/-
C09 helper development: the budget / callback-lock / tensor-lock invariant `LInv`
(every lock word and budget counter equals a weighted sum over the program counters).
-/
import IrVerif.Lemmas.WriterInv
namespace IrVerif.Writer

/-- the thread holds a budget reservation (between a successful `acquire` and `release`) -/
def holds : Pc → Bool
  | .write | .bRel _ => true
  | _ => false

/-- inside `with tensor_write_locks[id(tensor)]` -/
def inT : Pc → Bool
  | .cbAcq | .cbBody | .bAcq | .waiting | .woken | .write | .bRel _ => true
  | _ => false

def fReg (cfg : Cfg) (i : Nat) (p : Pc) : Nat :=
  if holds p = true ∧ cfg.size i ≤ cfg.capacity then cfg.size i else 0
def fOver (cfg : Cfg) (i : Nat) (p : Pc) : Nat :=
  if holds p = true ∧ cfg.size i > cfg.capacity then 1 else 0
def fCb (_ : Nat) (p : Pc) : Nat := if p = .cbBody then 1 else 0
def fT (cfg : Cfg) (o : Nat) (i : Nat) (p : Pc) : Nat :=
  if inT p = true ∧ cfg.obj i = o then 1 else 0

/-- a weight that ignores not-yet-started, just-started and finished tensors and wake-ups -/
structure Quiet (f : Nat → Pc → Nat) : Prop where
  ns : ∀ i, f i .notStarted = 0
  ca : ∀ i, f i .tAcq = 0
  dn : ∀ i b, f i (.done b) = 0
  wk : ∀ i p, f i (wake p) = f i p

theorem quiet_fReg (cfg : Cfg) : Quiet (fReg cfg) :=
  ⟨by simp [fReg, holds], by simp [fReg, holds], by simp [fReg, holds],
   by intro i p; cases p <;> simp [fReg, holds, wake]⟩
theorem quiet_fOver (cfg : Cfg) : Quiet (fOver cfg) :=
  ⟨by simp [fOver, holds], by simp [fOver, holds], by simp [fOver, holds],
   by intro i p; cases p <;> simp [fOver, holds, wake]⟩
theorem quiet_fCb : Quiet fCb :=
  ⟨by simp [fCb], by simp [fCb], by simp [fCb], by intro i p; cases p <;> simp [fCb, wake]⟩
theorem quiet_fT (cfg : Cfg) (o : Nat) : Quiet (fT cfg o) :=
  ⟨by simp [fT, inT], by simp [fT, inT], by simp [fT, inT],
   by intro i p; cases p <;> simp [fT, inT, wake]⟩

theorem wsum_finish {f : Nat → Pc → Nat} (qf : Quiet f) {cfg : Cfg} {s : State} (h : SInv cfg s)
    {i : Nat} {p : Pc} (ok : Bool) (hi : s.tasks[i]? = some p) (hpd : p ≠ .done true) :
    wsum f 0 (finishTask cfg s i ok).tasks + f i p = wsum f 0 s.tasks := by
  have hlt := getElem?_lt hi
  rcases finishTask_cases cfg s i ok with ⟨rfl, hn, e⟩ | ⟨_, e⟩
  · rw [e]
    have hnext := h.next_notStarted hi hpd hn
    have h1 := wsum_set0 f s.tasks i p (.done true) hi
    have h2 := wsum_set0 f (s.tasks.set i (.done true)) (i + 1) .notStarted .tAcq
      (by simp only [List.getElem?_set]; simp; exact hnext)
    simp only [qf.ns, qf.ca, qf.dn] at h1 h2 ⊢
    omega
  · rw [e]
    have h1 := wsum_set0 f s.tasks i p (.done ok) hi
    simp only [qf.dn] at h1 ⊢
    omega

theorem SInv.start_notStarted {cfg : Cfg} (wf : WF cfg) {s : State} (h : SInv cfg s) {j : Nat}
    (hj : j ∈ s.queue) : s.tasks[cfg.jobStarts.getD j 0]? = some .notStarted := by
  have hpj := h.q_pending j hj
  have hjl : j < cfg.nJobs := by rw [← h.futs_len]; exact getElem?_lt hpj
  have hlt : cfg.jobStarts.getD j 0 < s.tasks.length := by rw [h.tasks_len]; exact wf.start_lt j hjl
  obtain ⟨q, hq⟩ : ∃ q, s.tasks[cfg.jobStarts.getD j 0]? = some q := ⟨_, List.getElem?_eq_getElem hlt⟩
  by_cases hqn : q = .notStarted
  · rw [hq, hqn]
  · have := h.started _ q hq hqn
    rw [wf.start_job j hjl] at this
    exact absurd hpj this

theorem wsum_take {f : Nat → Pc → Nat} (qf : Quiet f) {cfg : Cfg} (wf : WF cfg) {s : State}
    (h : SInv cfg s) {j : Nat} (hj : j ∈ s.queue) :
    wsum f 0 (s.tasks.set (cfg.jobStarts.getD j 0) .tAcq) = wsum f 0 s.tasks := by
  have := wsum_set0 f s.tasks _ .notStarted .tAcq (h.start_notStarted wf hj)
  simp only [qf.ns, qf.ca] at this
  omega

theorem wsum_wake {f : Nat → Pc → Nat} (qf : Quiet f) (l : List Pc) :
    wsum f 0 (l.map wake) = wsum f 0 l := wsum_map f wake qf.wk l 0

structure LInv (cfg : Cfg) (s : State) : Prop where
  reg : s.inFlight = wsum (fReg cfg) 0 s.tasks
  over : (if s.oversized then 1 else 0) = wsum (fOver cfg) 0 s.tasks
  le : s.inFlight ≤ cfg.capacity
  cb : (if s.cbLock then 1 else 0) = wsum fCb 0 s.tasks
  tl : ∀ o, o < cfg.nObjs → (if s.tLocks.getD o false then 1 else 0) = wsum (fT cfg o) 0 s.tasks

theorem LInv_init (cfg : Cfg) : LInv cfg (init cfg) := by
  refine ⟨?_, ?_, by simp [init], ?_, ?_⟩
  · simp [init]; rw [wsum_replicate]; exact (quiet_fReg cfg).ns
  · simp [init]; rw [wsum_replicate]; exact (quiet_fOver cfg).ns
  · simp [init]; rw [wsum_replicate]; exact quiet_fCb.ns
  · intro o ho
    simp [init, ho]; rw [wsum_replicate]; exact (quiet_fT cfg o).ns

@[simp] theorem finishTask_inFlight (cfg : Cfg) (s : State) (i : Nat) (ok : Bool) :
    (finishTask cfg s i ok).inFlight = s.inFlight := by unfold finishTask; split <;> rfl
@[simp] theorem finishTask_oversized (cfg : Cfg) (s : State) (i : Nat) (ok : Bool) :
    (finishTask cfg s i ok).oversized = s.oversized := by unfold finishTask; split <;> rfl
@[simp] theorem finishTask_cbLock (cfg : Cfg) (s : State) (i : Nat) (ok : Bool) :
    (finishTask cfg s i ok).cbLock = s.cbLock := by unfold finishTask; split <;> rfl
@[simp] theorem finishTask_tLocks (cfg : Cfg) (s : State) (i : Nat) (ok : Bool) :
    (finishTask cfg s i ok).tLocks = s.tLocks := by unfold finishTask; split <;> rfl
@[simp] theorem finishTask_log (cfg : Cfg) (s : State) (i : Nat) (ok : Bool) :
    (finishTask cfg s i ok).log = s.log := by unfold finishTask; split <;> rfl
@[simp] theorem finishTask_files (cfg : Cfg) (s : State) (i : Nat) (ok : Bool) :
    (finishTask cfg s i ok).files = s.files := by unfold finishTask; split <;> rfl
@[simp] theorem finishTask_queue (cfg : Cfg) (s : State) (i : Nat) (ok : Bool) :
    (finishTask cfg s i ok).queue = s.queue := by unfold finishTask; split <;> rfl
@[simp] theorem finishTask_main (cfg : Cfg) (s : State) (i : Nat) (ok : Bool) :
    (finishTask cfg s i ok).main = s.main := by unfold finishTask; split <;> rfl
@[simp] theorem finishTask_shutdown (cfg : Cfg) (s : State) (i : Nat) (ok : Bool) :
    (finishTask cfg s i ok).shutdown = s.shutdown := by unfold finishTask; split <;> rfl
@[simp] theorem finishTask_collected (cfg : Cfg) (s : State) (i : Nat) (ok : Bool) :
    (finishTask cfg s i ok).collected = s.collected := by unfold finishTask; split <;> rfl
@[simp] theorem finishTask_exited (cfg : Cfg) (s : State) (i : Nat) (ok : Bool) :
    (finishTask cfg s i ok).exited = s.exited := by unfold finishTask; split <;> rfl

/-- generic step: for every quiet weight the sum changes as if task `i` went from `p` to `x` -/
theorem LInv_gen {cfg : Cfg} {s s' : State} (hl : LInv cfg s) {i : Nat} {p x : Pc}
    (hw : ∀ f, Quiet f → wsum f 0 s'.tasks + f i p = wsum f 0 s.tasks + f i x)
    (hreg : s'.inFlight + fReg cfg i p = s.inFlight + fReg cfg i x)
    (hle : s'.inFlight ≤ cfg.capacity)
    (hover : (if s'.oversized then 1 else 0) + fOver cfg i p = (if s.oversized then 1 else 0) + fOver cfg i x)
    (hcb : (if s'.cbLock then 1 else 0) + fCb i p = (if s.cbLock then 1 else 0) + fCb i x)
    (htl : ∀ o, o < cfg.nObjs → (if s'.tLocks.getD o false then 1 else 0) + fT cfg o i p
        = (if s.tLocks.getD o false then 1 else 0) + fT cfg o i x) :
    LInv cfg s' := by
  refine ⟨?_, ?_, hle, ?_, ?_⟩
  · have := hw (fReg cfg) (quiet_fReg cfg); have := hl.reg; omega
  · have := hw (fOver cfg) (quiet_fOver cfg); have := hl.over; omega
  · have := hw fCb quiet_fCb; have := hl.cb; omega
  · intro o ho
    have := hw (fT cfg o) (quiet_fT cfg o); have := hl.tl o ho; have := htl o ho; omega

theorem getD_set_bool (l : List Bool) (i o : Nat) (b : Bool) (hi : i < l.length) :
    (l.set i b).getD o false = if o = i then b else l.getD o false := by
  simp only [List.getD_eq_getElem?_getD, List.getElem?_set]
  by_cases h : i = o
  · subst h; simp [hi]
  · have : ¬ o = i := fun e => h e.symm
    simp [h, this]

theorem LInv_step {cfg : Cfg} (wf : WF cfg) {s s' : State} {l : Label} (hs : SInv cfg s)
    (hl : LInv cfg s) (h : StepRel cfg s l s') : LInv cfg s' := by
  cases h with
  | submit c k hm hk => exact ⟨hl.reg, hl.over, hl.le, hl.cb, hl.tl⟩
  | collect c j ok hm hj hf =>
      unfold collectOne
      cases ok
      · cases cfg.mode <;> exact ⟨hl.reg, hl.over, hl.le, hl.cb, hl.tl⟩
      · simp only [if_true]; split <;> exact ⟨hl.reg, hl.over, hl.le, hl.cb, hl.tl⟩
  | join c e hm he => exact ⟨hl.reg, hl.over, hl.le, hl.cb, hl.tl⟩
  | take j q hq hidle =>
      have hj : j ∈ s.queue := by simp [hq]
      refine LInv_gen (i := 0) (p := .notStarted) (x := .notStarted) hl
        (fun f qf => by
          have := wsum_take qf wf hs hj
          show wsum f 0 (s.tasks.set _ _) + _ = _
          omega) rfl hl.le rfl rfl (fun _ _ => rfl)
  | exit hq hsd hidle => exact ⟨hl.reg, hl.over, hl.le, hl.cb, hl.tl⟩
  | cbAcq i hi hlk =>
      refine LInv_gen (i := i) (p := .cbAcq) (x := .cbBody) hl
        (fun f _ => wsum_set0 f s.tasks i _ _ hi) (by simp [fReg, holds]) hl.le
        (by simp [fOver, holds]) (by simp [fCb, hlk]) (fun o _ => by simp [fT, inT])
  | cbFail i hi hf =>
      have hcb := hl.cb
      have hge := wsum_ge0 fCb s.tasks i _ hi
      have hil : i < cfg.n := by rw [← hs.tasks_len]; exact getElem?_lt hi
      have hol : cfg.obj i < s.tLocks.length := by rw [hs.locks_len]; exact wf.obj_lt i hil
      have hgeT := wsum_ge0 (fT cfg (cfg.obj i)) s.tasks i _ hi
      have htl := hl.tl (cfg.obj i) (wf.obj_lt i hil)
      refine LInv_gen (i := i) (p := .cbBody) (x := .done false) hl
        (fun f qf => by
          have := wsum_finish qf (s := { s with log := s.log ++ [i], cbLock := false
                                                tLocks := s.tLocks.set (cfg.obj i) false })
            (SInv_congr hs rfl rfl (by simp) rfl rfl) false hi (by simp)
          simp only [qf.dn]; exact this)
        (by simp [fReg, holds]) (by simpa using hl.le) (by simp [fOver, holds]) ?_
        (fun o _ => ?_)
      · cases hc : s.cbLock <;> simp [fCb, hc] at hcb hge ⊢
        omega
      · simp only [finishTask_tLocks, getD_set_bool _ _ _ _ hol, fT, inT]
        by_cases ho : o = cfg.obj i
        · subst ho
          simp [fT, inT] at hgeT
          simp only [List.getD_eq_getElem?_getD] at htl
          cases hlk : s.tLocks[cfg.obj i]?.getD false <;> simp [hlk] at htl ⊢ <;> omega
        · have : ¬ cfg.obj i = o := fun e => ho e.symm
          simp [ho, this]
  | cbOk i hi hf =>
      have hcb := hl.cb
      have hge := wsum_ge0 fCb s.tasks i _ hi
      refine LInv_gen (i := i) (p := .cbBody) (x := .bAcq) hl
        (fun f _ => wsum_set0 f s.tasks i _ _ hi) (by simp [fReg, holds]) hl.le
        (by simp [fOver, holds]) ?_ (fun o _ => by simp [fT, inT])
      cases hc : s.cbLock <;> simp [fCb, hc] at hcb hge ⊢
      omega
  | tAcq i hi hlk =>
      have hil : i < cfg.n := by rw [← hs.tasks_len]; exact getElem?_lt hi
      have hol : cfg.obj i < s.tLocks.length := by rw [hs.locks_len]; exact wf.obj_lt i hil
      refine LInv_gen (i := i) (p := .tAcq) (x := .cbAcq) hl
        (fun f _ => wsum_set0 f s.tasks i _ _ hi) (by simp [fReg, holds]) hl.le
        (by simp [fOver, holds]) (by simp [fCb]) (fun o _ => ?_)
      simp only [getD_set_bool _ _ _ _ hol, fT, inT]
      by_cases ho : o = cfg.obj i
      · subst ho; simp only [List.getD_eq_getElem?_getD] at hlk; simp [hlk]
      · have : ¬ cfg.obj i = o := fun e => ho e.symm
        simp [ho, this]
  | bTry i p hi hp =>
      rcases budgetTry_cases cfg s i with ⟨h1, h2, e⟩ | ⟨h1, h2, e⟩ | ⟨h1, h2, e⟩ | ⟨h1, h2, e⟩ <;> rw [e]
      · rcases hp with rfl | rfl <;>
        exact LInv_gen (i := i) (x := .waiting) hl
          (fun f _ => wsum_set0 f s.tasks i _ _ hi) (by simp [fReg, holds]) hl.le
          (by simp [fOver, holds]) (by simp [fCb]) (fun o _ => by simp [fT, inT])
      · have h3 : ¬ cfg.size i ≤ cfg.capacity := by omega
        rcases hp with rfl | rfl <;>
        exact LInv_gen (i := i) (x := .write) hl
          (fun f _ => wsum_set0 f s.tasks i _ _ hi) (by simp [fReg, holds, h3]) hl.le
          (by simp [fOver, holds, h1, h2]) (by simp [fCb]) (fun o _ => by simp [fT, inT])
      · have h3 : ¬ cfg.size i > cfg.capacity := by omega
        rcases hp with rfl | rfl <;>
        exact LInv_gen (i := i) (x := .write) hl
          (fun f _ => wsum_set0 f s.tasks i _ _ hi) (by simp [fReg, holds, h1]) (by simpa using h2)
          (by simp [fOver, holds, h3]) (by simp [fCb]) (fun o _ => by simp [fT, inT])
      · rcases hp with rfl | rfl <;>
        exact LInv_gen (i := i) (x := .waiting) hl
          (fun f _ => wsum_set0 f s.tasks i _ _ hi) (by simp [fReg, holds]) hl.le
          (by simp [fOver, holds]) (by simp [fCb]) (fun o _ => by simp [fT, inT])
  | writeFail i hi hf =>
      refine LInv_gen (i := i) (p := .write) (x := .bRel false) hl
        (fun f _ => wsum_set0 f s.tasks i _ _ hi) (by simp [fReg, holds]) hl.le
        (by simp [fOver, holds]) (by simp [fCb]) (fun o _ => by simp [fT, inT])
  | writeOk i hi hf =>
      refine LInv_gen (i := i) (p := .write) (x := .bRel true) hl
        (fun f _ => wsum_set0 f s.tasks i _ _ hi) (by simp [fReg, holds]) hl.le
        (by simp [fOver, holds]) (by simp [fCb]) (fun o _ => by simp [fT, inT])
  | bRel i ok hi =>
      have hil : i < cfg.n := by rw [← hs.tasks_len]; exact getElem?_lt hi
      have hol : cfg.obj i < s.tLocks.length := by rw [hs.locks_len]; exact wf.obj_lt i hil
      have hgeR := wsum_ge0 (fReg cfg) s.tasks i _ hi
      have hgeO := wsum_ge0 (fOver cfg) s.tasks i _ hi
      have hgeT := wsum_ge0 (fT cfg (cfg.obj i)) s.tasks i _ hi
      have hreg := hl.reg
      have hover := hl.over
      have htl := hl.tl (cfg.obj i) (wf.obj_lt i hil)
      have hle := hl.le
      unfold budgetRelease
      refine LInv_gen (i := i) (p := .bRel ok) (x := .done ok) hl
        (fun f qf => ?_) ?_ ?_ ?_ ?_ (fun o _ => ?_)
      · simp only [qf.dn, Nat.add_zero]
        rw [wsum_finish qf (p := .bRel ok) _ ok _ (by simp)]
        · simp [wsum_wake qf]
        · exact SInv_congr (s := { s with tasks := s.tasks.map wake }) (SInv_wake hs) rfl rfl
            (by simp) rfl rfl
        · simp [hi, wake]
      · simp only [finishTask_inFlight]
        split
        · rename_i hgt
          have : ¬ cfg.size i ≤ cfg.capacity := by omega
          simp [fReg, holds, this]
        · rename_i hgt
          have : cfg.size i ≤ cfg.capacity := by omega
          simp [fReg, holds, this] at hgeR ⊢
          omega
      · simp only [finishTask_inFlight]
        split <;> omega
      · simp only [finishTask_oversized]
        split
        · rename_i hgt
          simp [fOver, holds, hgt] at hgeO ⊢
          cases hov : s.oversized <;> simp [hov] at hover ⊢
          omega
        · rename_i hgt
          simp [fOver, holds, hgt]
      · simp only [finishTask_cbLock]
        simp [fCb]
      · simp only [finishTask_tLocks, getD_set_bool _ _ _ _ hol, fT, inT]
        by_cases ho : o = cfg.obj i
        · subst ho
          simp [fT, inT] at hgeT
          simp only [List.getD_eq_getElem?_getD] at htl
          cases hlk : s.tLocks[cfg.obj i]?.getD false <;> simp [hlk] at htl ⊢ <;> omega
        · have : ¬ cfg.obj i = o := fun e => ho e.symm
          simp [ho, this]

end IrVerif.Writer

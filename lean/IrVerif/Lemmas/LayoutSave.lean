/-
Helper lemmas for C07: the save as an effect sequence (snapshot, steps, finally-restore).
Core Lean only.
-/
import IrVerif.Lemmas.LayoutNames
namespace IrVerif.Layout

theorem assignAll_not_mem (st : Store) (ps : List (Nat × Option Nat)) (v : Nat)
    (h : ∀ p ∈ ps, p.1 ≠ v) : assignAll st ps v = st v := by
  induction ps generalizing st with
  | nil => rfl
  | cons p ps ih =>
    obtain ⟨w, t⟩ := p
    simp only [assignAll]
    rw [ih _ (fun q hq => h q (List.mem_cons_of_mem _ hq))]
    have : w ≠ v := h (w, t) (List.mem_cons_self ..)
    simp [Store.set, Ne.symm this]

theorem assignAll_saved (st0 st : Store) (vs : List Nat) (v : Nat) (hv : v ∈ vs) :
    assignAll st (vs.map fun w => (w, st0 w)) v = st0 v := by
  induction vs generalizing st with
  | nil => simp at hv
  | cons w rest ih =>
    simp only [List.map_cons, assignAll]
    by_cases hr : v ∈ rest
    · exact ih _ hr
    · have hvw : v = w := by
        rcases List.mem_cons.mp hv with h | h
        · exact h
        · exact absurd h hr
      subst hvw
      rw [assignAll_not_mem]
      · simp [Store.set]
      · intro p hp
        simp only [List.mem_map] at hp
        obtain ⟨u, hu, rfl⟩ := hp
        intro h; exact hr (h ▸ hu)

/-- a cell no step assigns keeps its tensor -/
theorem execSteps_untouched (st : Store) (steps : List Step) (v : Nat)
    (h : ∀ t, Step.assign v t ∉ steps) : execSteps st steps v = st v := by
  induction steps generalizing st with
  | nil => rfl
  | cons s rest ih =>
    cases s with
    | point ph =>
      simp only [execSteps]
      exact ih _ (fun t ht => h t (List.mem_cons_of_mem _ ht))
    | assign w t =>
      simp only [execSteps]
      rw [ih _ (fun t' ht => h t' (List.mem_cons_of_mem _ ht))]
      have : w ≠ v := by
        intro e; subst e; exact h t (List.mem_cons_self ..)
      simp [Store.set, Ne.symm this]

/-- when every assignment to a cell stores that cell's new tensor `fresh + cell`, an assigned
    cell holds it afterwards -/
theorem execSteps_assigned (fresh : Nat) (st : Store) (steps : List Step) (v : Nat)
    (hu : ∀ w t, Step.assign w t ∈ steps → t = some (fresh + w))
    (hv : ∃ t, Step.assign v t ∈ steps) : execSteps st steps v = some (fresh + v) := by
  induction steps generalizing st with
  | nil => obtain ⟨t, h⟩ := hv; simp at h
  | cons s rest ih =>
    have hu' : ∀ w t, Step.assign w t ∈ rest → t = some (fresh + w) :=
      fun w t h => hu w t (List.mem_cons_of_mem _ h)
    by_cases hr : ∃ t', Step.assign v t' ∈ rest
    · cases s with
      | point ph => exact ih _ hu' hr
      | assign w t => exact ih _ hu' hr
    · obtain ⟨t, ht⟩ := hv
      rcases List.mem_cons.mp ht with h | h
      · subst h
        simp only [execSteps]
        rw [execSteps_untouched _ _ _ (fun t' ht' => hr ⟨t', ht'⟩)]
        have := hu v t (List.mem_cons_self ..)
        simp [Store.set, this]
      · exact absurd ⟨t, h⟩ hr

theorem stLoadSteps_memStB_eq (thr : Int) (v : Init) : stLoadSteps.memStB thr v = memSt thr v := rfl

/-- the assignments of the safetensors collection loop -/
theorem mem_stLoadSteps (thr : Int) (fresh b : Nat) (vs : List Init) (k : Nat) (t : Option Nat) :
    Step.assign k t ∈ stLoadSteps thr fresh b vs ↔
      ∃ j, ∃ h : j < vs.length, k = b + j ∧ memSt thr vs[j] = true ∧ t = some (fresh + k) := by
  induction vs generalizing b with
  | nil => simp [stLoadSteps]
  | cons v rest ih =>
    simp only [stLoadSteps, List.mem_append, ih, stLoadSteps_memStB_eq]
    constructor
    · rintro (h | ⟨j, hj, rfl, hm, ht⟩)
      · by_cases hm : memSt thr v = true
        · simp only [hm, if_true, List.mem_cons, List.not_mem_nil, or_false, reduceCtorEq,
            false_or, Step.assign.injEq] at h
          exact ⟨0, by simp, by simpa using h.1, by simpa using hm, by rw [h.2, h.1]⟩
        · simp [hm] at h
      · exact ⟨j + 1, by simpa using hj, by omega, by simpa using hm, by rw [ht]⟩
    · rintro ⟨j, hj, rfl, hm, ht⟩
      cases j with
      | zero =>
        left
        have : memSt thr v = true := by simpa using hm
        simp [this, ht]
      | succ j =>
        right
        exact ⟨j, by simpa using hj, by omega, by simpa using hm, by rw [ht]⟩

/-- assignments of the raw-backend program -/
theorem mem_rawPlan (vs : List Init) (thr : Int) (fresh : Nat) (k : Nat) (t : Option Nat) :
    Step.assign k t ∈ (rawPlan vs thr fresh).prog ↔
      (k ∈ (splitRaw thr vs).1 ∨ k ∈ (splitRaw thr vs).2) ∧ t = some (fresh + k) := by
  simp only [rawPlan, List.mem_append, List.mem_map, List.mem_cons, List.not_mem_nil, or_false,
    reduceCtorEq, false_or, and_false, exists_false, Step.assign.injEq]
  constructor
  · rintro (⟨a, ha, rfl, rfl⟩ | ⟨a, ha, rfl, rfl⟩)
    · exact ⟨Or.inl ha, rfl⟩
    · exact ⟨Or.inr ha, rfl⟩
  · rintro ⟨h | h, rfl⟩
    · exact Or.inl ⟨k, h, rfl, rfl⟩
    · exact Or.inr ⟨k, h, rfl, rfl⟩

/-- assignments of the safetensors program -/
theorem mem_stPlan (vs : List Init) (thr : Int) (fresh : Nat) (k : Nat) (t : Option Nat) :
    Step.assign k t ∈ (stPlan vs thr fresh).prog ↔
      (k ∈ (splitSt thr vs).1 ∨ k ∈ (splitSt thr vs).2) ∧ t = some (fresh + k) := by
  have hmemlist : ∀ k, k ∈ (splitSt thr vs).2 ↔ ∃ j, ∃ h : j < vs.length, k = 0 + j ∧ memSt thr vs[j] = true := by
    intro k; unfold splitSt; rw [splitStGo_eq]; exact splitBy_mem_snd _ _ 0 vs k
  simp only [stPlan, List.mem_append, List.mem_map, List.mem_cons, List.not_mem_nil, or_false,
    mem_stLoadSteps, reduceCtorEq, false_or, and_false, exists_false, Step.assign.injEq]
  constructor
  · rintro ((⟨j, hj, rfl, hm, ht⟩ | ⟨a, ha, rfl, rfl⟩))
    · exact ⟨Or.inr ((hmemlist _).mpr ⟨j, hj, rfl, hm⟩), ht⟩
    · exact ⟨Or.inl ha, rfl⟩
  · rintro ⟨h | h, rfl⟩
    · exact Or.inr ⟨k, h, rfl, rfl⟩
    · obtain ⟨j, hj, hk, hm⟩ := (hmemlist k).mp h
      exact Or.inl ⟨j, hj, hk, hm, rfl⟩

end IrVerif.Layout

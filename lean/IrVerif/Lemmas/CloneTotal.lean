/-
Total-correctness simulation of the cloner by the scope walker (Model/Clone.lean, `wGraph`):
whenever the walker answers `ok`, `clone_graph` returns, and whenever it answers `err e`,
`clone_graph` ends with exactly the error `e`.  The invariant `TInv` relates the cloner state to the
walker's four lists; it also says that the value map is a bijection between the source values it
binds and the value cells the cloner created.
-/
import IrVerif.Lemmas.Clone
import IrVerif.Lemmas.CloneSim
namespace IrVerif.Clone
namespace Total

/-! ### the invariant -/

/-- what is known of one binding `source value ↦ clone` -/
def ValImg (w0 : World) (s : St) (A : Sc) (p : Nat × Nat) : Prop :=
  w0.length ≤ p.2 ∧ ∃ vs0 vs', w0[p.1]? = some (.val vs0) ∧ s.w[p.2]? = some (.val vs') ∧
    vs'.name = vs0.name ∧ vs'.graph.isSome = A.owned.contains p.1 ∧
    vs'.producer.isSome = A.produced.contains p.1 ∧ (∀ x, vs'.graph = some x → x < s.w.length)

structure TInv (w0 : World) (s : St) (A : Sc) : Prop where
  len : w0.length ≤ s.w.length
  old : ∀ (i : Nat) (c0 : Cell), w0[i]? = some c0 → ∃ c, s.w[i]? = some c ∧ c.eraseUses = c0.eraseUses
  keys : s.vm.map (·.1) = A.bound
  nodup : A.bound.Nodup
  pend : s.pend = A.pend
  vals : ∀ p ∈ s.vm, ValImg w0 s A p
  inj : ∀ p ∈ s.vm, ∀ q ∈ s.vm, p.2 = q.2 → p = q
  onto : ∀ (i : Nat) (vs : ValueS), w0.length ≤ i → s.w[i]? = some (.val vs) → ∃ p ∈ s.vm, p.2 = i
  sub : ∀ v, v ∈ A.owned ∨ v ∈ A.produced → v ∈ A.bound

/-- `s'` extends `s`: the value map only gains bindings, the heap does not shrink, node cells that
    existed are untouched -/
structure TExt (s s' : St) : Prop where
  vm : ∃ ext, s'.vm = ext ++ s.vm
  len : s.w.length ≤ s'.w.length
  nodes : ∀ (i : Nat) (ns : NodeS), s.w[i]? = some (.node ns) → s'.w[i]? = some (.node ns)

theorem TExt.refl (s : St) : TExt s s := ⟨⟨[], rfl⟩, Nat.le_refl _, fun _ _ h => h⟩

theorem TExt.trans {a b c : St} (h1 : TExt a b) (h2 : TExt b c) : TExt a c := by
  obtain ⟨e1, he1⟩ := h1.vm
  obtain ⟨e2, he2⟩ := h2.vm
  exact ⟨⟨e2 ++ e1, by rw [he2, he1, List.append_assoc]⟩, Nat.le_trans h1.len h2.len,
    fun i ns h => h2.nodes i ns (h1.nodes i ns h)⟩

/-- `m` run from `s` agrees with the walker's verdict -/
def Sim {α γ : Type} (m : M α) (s : St) (r : WRes γ) (Q : α → St → γ → Prop) : Prop :=
  match r with
  | .ok c => ∃ a s', m s = (.ok a, s') ∧ Q a s' c
  | .err e => (m s).1 = .error e
  | .irregular _ => True

theorem Sim.of_eq {α γ : Type} {m m' : M α} {s s' : St} {r : WRes γ} {Q : α → St → γ → Prop}
    (h : m s = m' s') (hs : Sim m' s' r Q) : Sim m s r Q := by
  cases r with
  | ok c => obtain ⟨a, s1, h1, h2⟩ := hs; exact ⟨a, s1, by rw [h, h1], h2⟩
  | err e => show (m s).1 = _; rw [h]; exact hs
  | irregular why => trivial

theorem Sim.bind {α β γ δ : Type} {m : M α} {k : α → M β} {s : St} {x : WRes γ} {f : γ → WRes δ}
    {Q : α → St → γ → Prop} {R : β → St → δ → Prop}
    (hm : Sim m s x Q) (hk : ∀ a s' c, Q a s' c → Sim (k a) s' (f c) R) :
    Sim (m >>= k) s (x.bind f) R := by
  cases x with
  | ok c =>
    obtain ⟨a, s', hms, hq⟩ := hm
    have e : (m >>= k) s = k a s' := by
      show M.bind m k s = _
      unfold M.bind
      rw [hms]
    exact Sim.of_eq e (hk a s' c hq)
  | err e =>
    have h1 : (m s).1 = .error e := hm
    show ((M.bind m k) s).1 = .error e
    unfold M.bind
    rcases hms : m s with ⟨r, s'⟩
    rw [hms] at h1
    simp only at h1
    subst h1
    rfl
  | irregular why => trivial

theorem Sim.mono {α γ : Type} {m : M α} {s : St} {x : WRes γ} {Q R : α → St → γ → Prop}
    (hm : Sim m s x Q) (h : ∀ a s' c, Q a s' c → R a s' c) : Sim m s x R := by
  cases x with
  | ok c => obtain ⟨a, s', hms, hq⟩ := hm; exact ⟨a, s', hms, h a s' c hq⟩
  | err e => exact hm
  | irregular why => trivial

theorem Sim.pure {α γ : Type} {a : α} {s : St} {c : γ} {Q : α → St → γ → Prop} (h : Q a s c) :
    Sim (Pure.pure a : M α) s (.ok c) Q := ⟨a, s, rfl, h⟩

macro "wbind " h:term " with " a:ident s1:ident c:ident hq:ident : tactic =>
  `(tactic| (refine Sim.bind $h ?_; intro $a $s1 $c $hq))

/-! ### reading source cells -/

theorem eraseUses_val {c : Cell} {vs0 : ValueS} (h : c.eraseUses = (Cell.val vs0).eraseUses) :
    ∃ vs, c = .val vs ∧ { vs with uses := [] } = { vs0 with uses := [] } := by
  cases c <;> simp [Cell.eraseUses] at h
  next vs => exact ⟨vs, rfl, by cases vs; cases vs0; simp_all⟩

theorem eraseUses_other {c c0 : Cell} (h : c.eraseUses = c0.eraseUses) (hn : ∀ v, c0 ≠ .val v) :
    c = c0 := by
  cases c0 with
  | val v => exact absurd rfl (hn v)
  | _ => cases c <;> simp [Cell.eraseUses] at h <;> simp [h]

section
variable {w0 : World}

theorem TInv.src {s : St} {A : Sc} (hT : TInv w0 s A) {i : Nat} {c0 : Cell} (h : w0[i]? = some c0)
    (hn : ∀ v, c0 ≠ .val v) : s.w[i]? = some c0 := by
  obtain ⟨c, h1, h2⟩ := hT.old i c0 h
  rw [eraseUses_other h2 hn] at h1
  exact h1

theorem TInv.srcVal {s : St} {A : Sc} (hT : TInv w0 s A) {i : Nat} {vs0 : ValueS}
    (h : w0[i]? = some (.val vs0)) :
    ∃ vs, s.w[i]? = some (.val vs) ∧ { vs with uses := [] } = { vs0 with uses := [] } := by
  obtain ⟨c, h1, h2⟩ := hT.old i _ h
  obtain ⟨vs, rfl, h3⟩ := eraseUses_val h2
  exact ⟨vs, h1, h3⟩

theorem sim_readVal {s : St} {A : Sc} (hT : TInv w0 s A) (v : Nat) :
    Sim (readVal v) s (wVal w0 v) (fun vs s' vs0 => s' = s ∧ s.w[v]? = some (.val vs) ∧
      w0[v]? = some (.val vs0) ∧ { vs with uses := [] } = { vs0 with uses := [] }) := by
  unfold wVal wCell
  cases h : w0[v]? with
  | none => trivial
  | some c0 =>
    cases c0 with
    | val vs0 =>
      obtain ⟨vs, h1, h2⟩ := hT.srcVal h
      exact ⟨vs, s, by simp [readVal, h1], rfl, h1, rfl, h2⟩
    | node x => have := hT.src h (by intro v hv; cases hv); simp [Sim, WRes.bind, readVal, this]
    | graph x => have := hT.src h (by intro v hv; cases hv); simp [Sim, WRes.bind, readVal, this]
    | type x => have := hT.src h (by intro v hv; cases hv); simp [Sim, WRes.bind, readVal, this]
    | shape x => have := hT.src h (by intro v hv; cases hv); simp [Sim, WRes.bind, readVal, this]
    | dict x => have := hT.src h (by intro v hv; cases hv); simp [Sim, WRes.bind, readVal, this]
    | attr x => have := hT.src h (by intro v hv; cases hv); simp [Sim, WRes.bind, readVal, this]
    | func x => have := hT.src h (by intro v hv; cases hv); simp [Sim, WRes.bind, readVal, this]
    | model x => have := hT.src h (by intro v hv; cases hv); simp [Sim, WRes.bind, readVal, this]
    | tensor x => have := hT.src h (by intro v hv; cases hv); simp [Sim, WRes.bind, readVal, this]

theorem sim_readNode {s : St} {A : Sc} (hT : TInv w0 s A) (i : Nat) :
    Sim (readNode i) s (wNodeCell w0 i) (fun x s' x0 => s' = s ∧ x = x0 ∧ s.w[i]? = some (.node x) ∧
      w0[i]? = some (.node x0)) := by
  unfold wNodeCell wCell
  cases h : w0[i]? with
  | none => trivial
  | some c0 =>
    cases c0 with
    | val x => obtain ⟨vs, h1, _⟩ := hT.srcVal h; simp [Sim, WRes.bind, readNode, h1]
    | node x => have := hT.src h (by intro v hv; cases hv); exact ⟨x, s, by simp [readNode, this], rfl, rfl, this, rfl⟩
    | graph x => have := hT.src h (by intro v hv; cases hv); simp [Sim, WRes.bind, readNode, this]
    | type x => have := hT.src h (by intro v hv; cases hv); simp [Sim, WRes.bind, readNode, this]
    | shape x => have := hT.src h (by intro v hv; cases hv); simp [Sim, WRes.bind, readNode, this]
    | dict x => have := hT.src h (by intro v hv; cases hv); simp [Sim, WRes.bind, readNode, this]
    | attr x => have := hT.src h (by intro v hv; cases hv); simp [Sim, WRes.bind, readNode, this]
    | func x => have := hT.src h (by intro v hv; cases hv); simp [Sim, WRes.bind, readNode, this]
    | model x => have := hT.src h (by intro v hv; cases hv); simp [Sim, WRes.bind, readNode, this]
    | tensor x => have := hT.src h (by intro v hv; cases hv); simp [Sim, WRes.bind, readNode, this]

theorem sim_readGraph {s : St} {A : Sc} (hT : TInv w0 s A) (i : Nat) :
    Sim (readGraph i) s (wGraphCell w0 i) (fun x s' x0 => s' = s ∧ x = x0 ∧ s.w[i]? = some (.graph x) ∧
      w0[i]? = some (.graph x0)) := by
  unfold wGraphCell wCell
  cases h : w0[i]? with
  | none => trivial
  | some c0 =>
    cases c0 with
    | val x => obtain ⟨vs, h1, _⟩ := hT.srcVal h; simp [Sim, WRes.bind, readGraph, h1]
    | node x => have := hT.src h (by intro v hv; cases hv); simp [Sim, WRes.bind, readGraph, this]
    | graph x => have := hT.src h (by intro v hv; cases hv); exact ⟨x, s, by simp [readGraph, this], rfl, rfl, this, rfl⟩
    | type x => have := hT.src h (by intro v hv; cases hv); simp [Sim, WRes.bind, readGraph, this]
    | shape x => have := hT.src h (by intro v hv; cases hv); simp [Sim, WRes.bind, readGraph, this]
    | dict x => have := hT.src h (by intro v hv; cases hv); simp [Sim, WRes.bind, readGraph, this]
    | attr x => have := hT.src h (by intro v hv; cases hv); simp [Sim, WRes.bind, readGraph, this]
    | func x => have := hT.src h (by intro v hv; cases hv); simp [Sim, WRes.bind, readGraph, this]
    | model x => have := hT.src h (by intro v hv; cases hv); simp [Sim, WRes.bind, readGraph, this]
    | tensor x => have := hT.src h (by intro v hv; cases hv); simp [Sim, WRes.bind, readGraph, this]

theorem sim_readAttr {s : St} {A : Sc} (hT : TInv w0 s A) (i : Nat) :
    Sim (readAttr i) s (wAttrCell w0 i) (fun x s' x0 => s' = s ∧ x = x0 ∧ s.w[i]? = some (.attr x) ∧
      w0[i]? = some (.attr x0)) := by
  unfold wAttrCell wCell
  cases h : w0[i]? with
  | none => trivial
  | some c0 =>
    cases c0 with
    | val x => obtain ⟨vs, h1, _⟩ := hT.srcVal h; simp [Sim, WRes.bind, readAttr, h1]
    | node x => have := hT.src h (by intro v hv; cases hv); simp [Sim, WRes.bind, readAttr, this]
    | graph x => have := hT.src h (by intro v hv; cases hv); simp [Sim, WRes.bind, readAttr, this]
    | type x => have := hT.src h (by intro v hv; cases hv); simp [Sim, WRes.bind, readAttr, this]
    | shape x => have := hT.src h (by intro v hv; cases hv); simp [Sim, WRes.bind, readAttr, this]
    | dict x => have := hT.src h (by intro v hv; cases hv); simp [Sim, WRes.bind, readAttr, this]
    | attr x => have := hT.src h (by intro v hv; cases hv); exact ⟨x, s, by simp [readAttr, this], rfl, rfl, this, rfl⟩
    | func x => have := hT.src h (by intro v hv; cases hv); simp [Sim, WRes.bind, readAttr, this]
    | model x => have := hT.src h (by intro v hv; cases hv); simp [Sim, WRes.bind, readAttr, this]
    | tensor x => have := hT.src h (by intro v hv; cases hv); simp [Sim, WRes.bind, readAttr, this]

theorem sim_readDict {s : St} {A : Sc} (hT : TInv w0 s A) (i : Nat) :
    Sim (readDict i) s (wDict w0 i) (fun x s' _ => s' = s ∧ s.w[i]? = some (.dict x)) := by
  unfold wDict wCell
  cases h : w0[i]? with
  | none => trivial
  | some c0 =>
    cases c0 with
    | val x => obtain ⟨vs, h1, _⟩ := hT.srcVal h; simp [Sim, WRes.bind, readDict, h1]
    | node x => have := hT.src h (by intro v hv; cases hv); simp [Sim, WRes.bind, readDict, this]
    | graph x => have := hT.src h (by intro v hv; cases hv); simp [Sim, WRes.bind, readDict, this]
    | type x => have := hT.src h (by intro v hv; cases hv); simp [Sim, WRes.bind, readDict, this]
    | shape x => have := hT.src h (by intro v hv; cases hv); simp [Sim, WRes.bind, readDict, this]
    | dict x => have := hT.src h (by intro v hv; cases hv); exact ⟨x, s, by simp [readDict, this], rfl, this⟩
    | attr x => have := hT.src h (by intro v hv; cases hv); simp [Sim, WRes.bind, readDict, this]
    | func x => have := hT.src h (by intro v hv; cases hv); simp [Sim, WRes.bind, readDict, this]
    | model x => have := hT.src h (by intro v hv; cases hv); simp [Sim, WRes.bind, readDict, this]
    | tensor x => have := hT.src h (by intro v hv; cases hv); simp [Sim, WRes.bind, readDict, this]

theorem sim_readShape {s : St} {A : Sc} (hT : TInv w0 s A) (i : Nat) :
    Sim (readShape i) s (wShape w0 i) (fun x s' _ => s' = s ∧ s.w[i]? = some (.shape x)) := by
  unfold wShape wCell
  cases h : w0[i]? with
  | none => trivial
  | some c0 =>
    cases c0 with
    | val x => obtain ⟨vs, h1, _⟩ := hT.srcVal h; simp [Sim, WRes.bind, readShape, h1]
    | node x => have := hT.src h (by intro v hv; cases hv); simp [Sim, WRes.bind, readShape, this]
    | graph x => have := hT.src h (by intro v hv; cases hv); simp [Sim, WRes.bind, readShape, this]
    | type x => have := hT.src h (by intro v hv; cases hv); simp [Sim, WRes.bind, readShape, this]
    | shape x => have := hT.src h (by intro v hv; cases hv); exact ⟨x, s, by simp [readShape, this], rfl, this⟩
    | dict x => have := hT.src h (by intro v hv; cases hv); simp [Sim, WRes.bind, readShape, this]
    | attr x => have := hT.src h (by intro v hv; cases hv); simp [Sim, WRes.bind, readShape, this]
    | func x => have := hT.src h (by intro v hv; cases hv); simp [Sim, WRes.bind, readShape, this]
    | model x => have := hT.src h (by intro v hv; cases hv); simp [Sim, WRes.bind, readShape, this]
    | tensor x => have := hT.src h (by intro v hv; cases hv); simp [Sim, WRes.bind, readShape, this]

theorem sim_readType {s : St} {A : Sc} (hT : TInv w0 s A) (i : Nat) :
    Sim (readType i) s (wType w0 i) (fun x s' _ => s' = s ∧ s.w[i]? = some (.type x)) := by
  unfold wType wCell
  cases h : w0[i]? with
  | none => trivial
  | some c0 =>
    cases c0 with
    | val x => obtain ⟨vs, h1, _⟩ := hT.srcVal h; simp [Sim, WRes.bind, readType, h1]
    | node x => have := hT.src h (by intro v hv; cases hv); simp [Sim, WRes.bind, readType, this]
    | graph x => have := hT.src h (by intro v hv; cases hv); simp [Sim, WRes.bind, readType, this]
    | type x => have := hT.src h (by intro v hv; cases hv); exact ⟨x, s, by simp [readType, this], rfl, this⟩
    | shape x => have := hT.src h (by intro v hv; cases hv); simp [Sim, WRes.bind, readType, this]
    | dict x => have := hT.src h (by intro v hv; cases hv); simp [Sim, WRes.bind, readType, this]
    | attr x => have := hT.src h (by intro v hv; cases hv); simp [Sim, WRes.bind, readType, this]
    | func x => have := hT.src h (by intro v hv; cases hv); simp [Sim, WRes.bind, readType, this]
    | model x => have := hT.src h (by intro v hv; cases hv); simp [Sim, WRes.bind, readType, this]
    | tensor x => have := hT.src h (by intro v hv; cases hv); simp [Sim, WRes.bind, readType, this]

/-! ### allocation -/

theorem WRes.bind_ok {γ : Type} (x : WRes γ) : x.bind WRes.ok = x := by cases x <;> rfl

theorem WRes.ok_bind {γ δ : Type} (a : γ) (f : γ → WRes δ) : (WRes.ok a).bind f = f a := rfl

/-- a concrete step that has no counterpart in the walker and cannot fail -/
theorem Sim.step {α β δ : Type} {m : M α} {k : α → M β} {s : St} {r : WRes δ} {R : β → St → δ → Prop}
    (a : α) (s' : St) (hm : m s = (.ok a, s')) (hk : Sim (k a) s' r R) : Sim (m >>= k) s r R := by
  have e : (m >>= k) s = k a s' := by
    show M.bind m k s = _
    unfold M.bind
    rw [hm]
  exact Sim.of_eq e hk

/-- sequencing when the walker has nothing more to do -/
theorem Sim.bindLast {α β γ : Type} {m : M α} {k : α → M β} {s : St} {x : WRes γ}
    {Q : α → St → γ → Prop} {R : β → St → γ → Prop}
    (hm : Sim m s x Q) (hk : ∀ a s' c, Q a s' c → Sim (k a) s' (.ok c) R) :
    Sim (m >>= k) s x R := by
  have := Sim.bind (f := WRes.ok) hm hk
  rwa [WRes.bind_ok] at this

theorem getElem?_append_new {w : World} {c : Cell} : (w ++ [c])[w.length]? = some c := by
  simp

theorem TInv.allocOther {s : St} {A : Sc} (hT : TInv w0 s A) {c : Cell} (hc : ∀ v, c ≠ .val v) :
    TInv w0 { s with w := s.w ++ [c] } A := by
  refine ⟨?_, ?_, hT.keys, hT.nodup, hT.pend, ?_, hT.inj, ?_, hT.sub⟩
  · have := hT.len; simp; omega
  · intro i c0 h
    obtain ⟨c1, h1, h2⟩ := hT.old i c0 h
    exact ⟨c1, by simp only; rw [List.getElem?_append_left (lt_of_getElem? h1)]; exact h1, h2⟩
  · intro p hp
    obtain ⟨h1, vs0, vs', a, b, c1, d, e, f⟩ := hT.vals p hp
    refine ⟨h1, vs0, vs', a, ?_, c1, d, e, ?_⟩
    · simp only; rw [List.getElem?_append_left (lt_of_getElem? b)]; exact b
    · intro x hx; have := f x hx; simp; omega
  · intro i vs hi h
    simp only at h
    rcases Nat.lt_or_ge i s.w.length with hlt | hge
    · rw [List.getElem?_append_left hlt] at h
      exact hT.onto i vs hi h
    · rcases Nat.eq_or_lt_of_le hge with heq | hgt
      · rw [← heq, getElem?_append_new] at h
        cases h
        exact absurd rfl (hc vs)
      · rw [List.getElem?_eq_none (by simp; omega)] at h; cases h

theorem TExt.alloc (s : St) (c : Cell) : TExt s { s with w := s.w ++ [c] } :=
  ⟨⟨[], rfl⟩, by simp, fun i ns h => by
    simp only; rw [List.getElem?_append_left (lt_of_getElem? h)]; exact h⟩

/-- the postcondition of the steps that leave the value map alone -/
def Keep (w0 : World) (A : Sc) (s s' : St) : Prop := TInv w0 s' A ∧ TExt s s' ∧ s'.vm = s.vm

theorem Keep.refl {s : St} {A : Sc} (hT : TInv w0 s A) : Keep w0 A s s := ⟨hT, TExt.refl s, rfl⟩

theorem Keep.trans {A : Sc} {a b c : St} (h1 : Keep w0 A a b) (h2 : Keep w0 A b c) : Keep w0 A a c :=
  ⟨h2.1, h1.2.1.trans h2.2.1, h2.2.2.trans h1.2.2⟩

theorem Keep.alloc {s : St} {A : Sc} (hT : TInv w0 s A) {c : Cell} (hc : ∀ v, c ≠ .val v) :
    Keep w0 A s { s with w := s.w ++ [c] } := ⟨hT.allocOther hc, TExt.alloc s c, rfl⟩

theorem sim_copyShape {s : St} {A : Sc} (hT : TInv w0 s A) (o : Option Nat) :
    Sim (copyShape o) s (wOptShape w0 o) (fun _ s' _ => Keep w0 A s s') := by
  cases o with
  | none => exact Sim.pure (Keep.refl hT)
  | some sh =>
    unfold copyShape wOptShape
    refine Sim.bindLast (sim_readShape hT sh) ?_
    intro ss s1 _ hq
    obtain ⟨rfl, _⟩ := hq
    refine Sim.step (m := alloc _) _ _ rfl ?_
    exact Sim.pure (Keep.alloc hT (by intro v hv; cases hv))

theorem sim_copyType {s : St} {A : Sc} (hT : TInv w0 s A) (o : Option Nat) :
    Sim (copyType o) s (wOptType w0 o) (fun _ s' _ => Keep w0 A s s') := by
  cases o with
  | none => exact Sim.pure (Keep.refl hT)
  | some t =>
    unfold copyType wOptType
    refine Sim.bindLast (sim_readType hT t) ?_
    intro ss s1 _ hq
    obtain ⟨rfl, _⟩ := hq
    refine Sim.step (m := alloc _) _ _ rfl ?_
    exact Sim.pure (Keep.alloc hT (by intro v hv; cases hv))

theorem sim_copyProps {s : St} {A : Sc} (hT : TInv w0 s A) (d : Nat) :
    Sim (copyProps d) s (wDict w0 d) (fun _ s' _ => Keep w0 A s s') := by
  unfold copyProps
  refine Sim.bindLast (sim_readDict hT d) ?_
  intro ss s1 _ hq
  obtain ⟨rfl, _⟩ := hq
  exact ⟨_, _, rfl, Keep.alloc hT (by intro v hv; cases hv)⟩

theorem sim_copyMeta {s : St} {A : Sc} (hT : TInv w0 s A) (d : Nat) :
    Sim (copyMeta d) s (wDict w0 d) (fun _ s' _ => Keep w0 A s s') := by
  unfold copyMeta
  refine Sim.bindLast (sim_readDict hT d) ?_
  intro ss s1 _ hq
  obtain ⟨rfl, _⟩ := hq
  exact ⟨_, _, rfl, Keep.alloc hT (by intro v hv; cases hv)⟩

/-! ### binding a new value -/

theorem TInv.lt_of_mem {s : St} {A : Sc} (hT : TInv w0 s A) {p : Nat × Nat} (hp : p ∈ s.vm) :
    p.2 < s.w.length := by
  obtain ⟨_, _, _, _, b, _⟩ := hT.vals p hp
  exact lt_of_getElem? b

theorem TInv.bindNew {s : St} {A : Sc} (hT : TInv w0 s A) {v : Nat} {vs0 c : ValueS}
    (hv0 : w0[v]? = some (.val vs0)) (hvb : v ∉ A.bound) (hname : c.name = vs0.name)
    (hg : c.graph = none) (hp : c.producer = none) (pend' : List Nat) :
    TInv w0 { s with w := s.w ++ [.val c], vm := (v, s.w.length) :: s.vm, pend := pend' }
      { A with bound := v :: A.bound, pend := pend' } := by
  have hnot : ∀ x, x ∈ A.owned ∨ x ∈ A.produced → x ≠ v := fun x hx hxv => hvb (hxv ▸ hT.sub x hx)
  refine ⟨?_, ?_, ?_, ?_, rfl, ?_, ?_, ?_, ?_⟩
  · have := hT.len; simp; omega
  · intro i c0 h
    obtain ⟨c1, h1, h2⟩ := hT.old i c0 h
    exact ⟨c1, by simp only; rw [List.getElem?_append_left (lt_of_getElem? h1)]; exact h1, h2⟩
  · simp [hT.keys]
  · exact List.nodup_cons.mpr ⟨hvb, hT.nodup⟩
  · intro p hp'
    rcases List.mem_cons.mp hp' with h1 | h1
    · subst h1
      refine ⟨hT.len, vs0, c, hv0, by simp, hname, ?_, ?_, ?_⟩
      · rw [hg]; simp
        intro h; exact hnot v (.inl h) rfl
      · rw [hp]; simp
        intro h; exact hnot v (.inr h) rfl
      · intro x hx; rw [hg] at hx; cases hx
    · obtain ⟨h2, vs1, vs', a, b, c1, d, e, f⟩ := hT.vals p h1
      refine ⟨h2, vs1, vs', a, ?_, c1, d, e, ?_⟩
      · simp only; rw [List.getElem?_append_left (lt_of_getElem? b)]; exact b
      · intro x hx; have := f x hx; simp; omega
  · intro p hp' q hq' hpq
    rcases List.mem_cons.mp hp' with h1 | h1 <;> rcases List.mem_cons.mp hq' with h2 | h2
    · rw [h1, h2]
    · subst h1; have := hT.lt_of_mem h2; simp only at hpq; omega
    · subst h2; have := hT.lt_of_mem h1; simp only at hpq; omega
    · exact hT.inj p h1 q h2 hpq
  · intro i vs hi h
    simp only at h
    rcases Nat.lt_or_ge i s.w.length with hlt | hge
    · rw [List.getElem?_append_left hlt] at h
      obtain ⟨p, hp1, hp2⟩ := hT.onto i vs hi h
      exact ⟨p, List.mem_cons_of_mem _ hp1, hp2⟩
    · rcases Nat.eq_or_lt_of_le hge with heq | hgt
      · exact ⟨(v, s.w.length), List.mem_cons_self, heq⟩
      · rw [List.getElem?_eq_none (by simp; omega)] at h; cases h
  · intro x hx
    exact List.mem_cons_of_mem _ (hT.sub x hx)

theorem TExt.bindNew (s : St) (c : Cell) (v : Nat) (pend' : List Nat) :
    TExt s { s with w := s.w ++ [c], vm := (v, s.w.length) :: s.vm, pend := pend' } :=
  ⟨⟨[(v, s.w.length)], rfl⟩, by simp, fun i ns h => by
    simp only; rw [List.getElem?_append_left (lt_of_getElem? h)]; exact h⟩

theorem lookup_isSome_iff {l : List (Nat × Nat)} {v : Nat} : (l.lookup v).isSome ↔ v ∈ l.map (·.1) := by
  induction l with
  | nil => simp
  | cons p ps ih =>
    rw [List.lookup_cons]
    by_cases h : v = p.1
    · subst h; simp
    · have : (v == p.1) = false := by simpa using h
      rw [this]
      simp only [List.map_cons, List.mem_cons]
      rw [ih]
      constructor
      · exact fun h' => .inr h'
      · rintro (h' | h')
        · exact absurd h' h
        · exact h'

theorem TInv.lookup_none {s : St} {A : Sc} (hT : TInv w0 s A) {v : Nat} (h : A.bound.contains v = false) :
    s.vm.lookup v = none := by
  cases hl : s.vm.lookup v with
  | none => rfl
  | some b =>
    have : v ∈ s.vm.map (·.1) := lookup_isSome_iff.mp (by rw [hl]; rfl)
    rw [hT.keys] at this
    have : A.bound.contains v = true := by simpa using this
    rw [h] at this; cases this

theorem TInv.lookup_some {s : St} {A : Sc} (hT : TInv w0 s A) {v : Nat} (h : A.bound.contains v = true) :
    ∃ b, s.vm.lookup v = some b := by
  have : v ∈ s.vm.map (·.1) := by rw [hT.keys]; simpa using h
  exact Option.isSome_iff_exists.mp (lookup_isSome_iff.mpr this)

/-- the fields of a source value as read now are those of the initial heap -/
theorem fields_of_erase {vs vs0 : ValueS} (h : { vs with uses := [] } = { vs0 with uses := [] }) :
    vs.name = vs0.name ∧ vs.shape = vs0.shape ∧ vs.type = vs0.type ∧ vs.props = vs0.props ∧
      vs.mstore = vs0.mstore := by
  cases vs; cases vs0; simp_all

/-- the postcondition of the steps that bind values: the invariant for the walker's new state -/
def Step (w0 : World) (s : St) (s' : St) (A' : Sc) : Prop := TInv w0 s' A' ∧ TExt s s'

theorem sim_cloneOrGetValue {s : St} {A : Sc} (hT : TInv w0 s A) (v : Nat) :
    Sim (cloneOrGetValue v) s (wCloneOrGet w0 v A)
      (fun r s' A' => Step w0 s s' A' ∧ s'.vm.lookup v = some r) := by
  unfold cloneOrGetValue wCloneOrGet
  cases hb : A.bound.contains v with
  | true =>
    obtain ⟨b, hlk⟩ := hT.lookup_some hb
    simp only [if_true]
    refine Sim.step (m := vmGet v) (some b) s (by simp [vmGet, hlk]) ?_
    exact Sim.pure ⟨⟨hT, TExt.refl s⟩, hlk⟩
  | false =>
    have hlk := hT.lookup_none hb
    simp only [Bool.false_eq_true, if_false]
    refine Sim.step (m := vmGet v) none s (by simp [vmGet, hlk]) ?_
    simp only
    wbind (sim_readVal hT v) with vs s1 vs0 hq
    obtain ⟨rfl, hvs, hv0, herase⟩ := hq
    obtain ⟨e1, e2, e3, e4, e5⟩ := fields_of_erase herase
    rw [← e2, ← e3, ← e4, ← e5]
    wbind (sim_copyShape hT vs.shape) with sh s2 u2 hq2
    wbind (sim_copyType hq2.1 vs.type) with ty s3 u3 hq3
    wbind (sim_copyProps hq3.1 vs.props) with pr s4 u4 hq4
    wbind (sim_copyMeta hq4.1 vs.mstore) with me s5 u5 hq5
    have hk := hq2.trans (hq3.trans (hq4.trans hq5))
    refine Sim.step (m := alloc _) _ _ rfl ?_
    refine Sim.step (m := vmSet v _) () _ rfl ?_
    refine Sim.pure ⟨⟨?_, ?_⟩, ?_⟩
    · have hvb : v ∉ A.bound := by simpa using hb
      have := hk.1.bindNew (c := ValueS.mk vs.name vs.doc none none [] none false false false ty sh
        vs.const pr me) hv0 hvb e1 rfl rfl s5.pend
      have hp : A.pend = s5.pend := hk.1.pend.symm
      simpa [hp] using this
    · exact hk.2.1.trans (by simpa using TExt.bindNew s5 _ v s5.pend)
    · simp [List.lookup_cons]

/-! ### lists -/

theorem lookup_ext {ext l : List (Nat × Nat)} {v b : Nat} (hn : ((ext ++ l).map (·.1)).Nodup)
    (h : l.lookup v = some b) : (ext ++ l).lookup v = some b := by
  induction ext with
  | nil => exact h
  | cons p ps ih =>
    rcases p with ⟨pa, pb⟩
    simp only [List.cons_append, List.map_cons, List.nodup_cons] at hn
    rw [List.cons_append, List.lookup_cons]
    have hv : v ∈ (ps ++ l).map (·.1) := by
      have : v ∈ l.map (·.1) := lookup_isSome_iff.mp (by rw [h]; rfl)
      simp only [List.map_append, List.mem_append]
      exact .inr this
    have : (v == pa) = false := by
      simp only [beq_eq_false_iff_ne]
      intro hvp; rw [hvp] at hv; exact hn.1 hv
    rw [this]
    exact ih hn.2

theorem TInv.lookup_stable {s s' : St} {A' : Sc} (hT' : TInv w0 s' A') (hE : TExt s s') {v b : Nat}
    (h : s.vm.lookup v = some b) : s'.vm.lookup v = some b := by
  obtain ⟨ext, he⟩ := hE.vm
  rw [he]
  apply lookup_ext _ h
  rw [← he, hT'.keys]
  exact hT'.nodup

theorem sim_mapM' {α β : Type} {f : α → M β} {wf : α → Sc → WRes Sc} {P : α → β → St → Prop}
    (I : St → Prop) (hI : ∀ s s', I s → TExt s s' → I s')
    (stable : ∀ a b s s' A', P a b s → TInv w0 s' A' → TExt s s' → P a b s')
    (hf : ∀ a s A, TInv w0 s A → I s → Sim (f a) s (wf a A) (fun b s' A' => Step w0 s s' A' ∧ P a b s')) :
    ∀ (l : List α) (s : St) (A : Sc), TInv w0 s A → I s →
      Sim (mapM' f l) s (wFold wf l A)
        (fun bs s' A' => Step w0 s s' A' ∧ All2 (fun a b => P a b s') l bs)
  | [], s, A, hT, _ => Sim.pure ⟨⟨hT, TExt.refl s⟩, .nil⟩
  | a :: as, s, A, hT, hIs => by
    unfold mapM' wFold
    wbind (hf a s A hT hIs) with b s1 A1 hq
    refine Sim.bindLast (sim_mapM' I hI stable hf as s1 A1 hq.1.1 (hI s s1 hIs hq.1.2)) ?_
    intro bs s2 A2 hq2
    refine Sim.pure ⟨⟨hq2.1.1, hq.1.2.trans hq2.1.2⟩, .cons ?_ hq2.2⟩
    exact stable a b s1 s2 A2 hq.2 hq2.1.1 hq2.1.2

theorem forall₂_stable {α β : Type} {P : α → β → St → Prop} {s s' : St} {A' : Sc}
    (stable : ∀ a b s s' A', P a b s → TInv w0 s' A' → TExt s s' → P a b s')
    (hT' : TInv w0 s' A') (hE : TExt s s') {l : List α} {bs : List β}
    (h : All2 (fun a b => P a b s) l bs) : All2 (fun a b => P a b s') l bs := by
  induction h with
  | nil => exact .nil
  | cons h1 _ ih => exact .cons (stable _ _ _ _ _ h1 hT' hE) ih

/-- the binding of a source value, as a stable fact -/
def Bound (v r : Nat) (s : St) : Prop := s.vm.lookup v = some r

theorem Bound.stable {a b : Nat} {s s' : St} {A' : Sc} (h : Bound a b s) (hT' : TInv w0 s' A')
    (hE : TExt s s') : Bound a b s' := hT'.lookup_stable hE h

/-! ### node inputs -/

def resolve (s : St) (o : Option Nat) : Option Nat := o.map fun v => (s.vm.lookup v).getD v

theorem mapInputsPure_walk {allow : Bool} {s : St} {A : Sc} (hT : TInv w0 s A) :
    ∀ l : List (Option Nat), match wMapInputs allow A l with
      | .ok _ => mapInputsPure allow s l = .ok (l.map (resolve s))
      | .err e => mapInputsPure allow s l = .error e
      | .irregular _ => True
  | [] => rfl
  | none :: rest => by
    have ih := mapInputsPure_walk (allow := allow) hT rest
    unfold wMapInputs mapInputsPure
    cases h : wMapInputs allow A rest with
    | ok u => rw [h] at ih; simp only at ih ⊢; rw [ih]; rfl
    | err e => rw [h] at ih; simp only at ih ⊢; rw [ih]; rfl
    | irregular why => trivial
  | some v :: rest => by
    have ih := mapInputsPure_walk (allow := allow) hT rest
    unfold wMapInputs mapInputsPure
    cases hb : A.bound.contains v with
    | true =>
      obtain ⟨b, hlk⟩ := hT.lookup_some hb
      simp only [if_true, hlk]
      cases h : wMapInputs allow A rest with
      | ok u => rw [h] at ih; simp only at ih ⊢; rw [ih]; simp [Except.map, resolve, hlk]
      | err e => rw [h] at ih; simp only at ih ⊢; rw [ih]; rfl
      | irregular why => trivial
    | false =>
      have hlk := hT.lookup_none hb
      simp only [Bool.false_eq_true, if_false, hlk]
      cases allow with
      | false => simp
      | true =>
        simp only [if_true]
        rw [hT.pend]
        cases hp : A.pend.contains v with
        | true => simp
        | false =>
          simp only [Bool.false_eq_true, if_false]
          cases h : wMapInputs true A rest with
          | ok u => rw [h] at ih; simp only at ih ⊢; rw [ih]; simp [Except.map, resolve, hlk]
          | err e => rw [h] at ih; simp only at ih ⊢; rw [ih]; rfl
          | irregular why => trivial

theorem sim_mapInputs {allow : Bool} {s : St} {A : Sc} (hT : TInv w0 s A) (l : List (Option Nat)) :
    Sim (mapInputs allow l) s (wMapInputs allow A l)
      (fun r s' _ => s' = s ∧ r = l.map (resolve s)) := by
  have := mapInputsPure_walk (allow := allow) hT l
  cases h : wMapInputs allow A l with
  | ok u => rw [h] at this; exact ⟨_, s, by rw [mapInputs_eq_pure, this], rfl, rfl⟩
  | err e => rw [h] at this; show (mapInputs allow l s).1 = _; rw [mapInputs_eq_pure, this]
  | irregular why => trivial

/-! ### node outputs -/

theorem sim_cloneOutput {s : St} {A : Sc} (hT : TInv w0 s A) (i o : Nat) :
    Sim (cloneOutput i o) s (wOutput w0 o A) (fun r s' A' => Step w0 s s' A' ∧ Bound o r s') := by
  unfold cloneOutput wOutput
  wbind (sim_readVal hT o) with vs s1 vs0 hq
  obtain ⟨rfl, hvs, hv0, herase⟩ := hq
  obtain ⟨e1, e2, e3, e4, e5⟩ := fields_of_erase herase
  rw [← e2, ← e3, ← e4, ← e5]
  wbind (sim_copyShape hT vs.shape) with sh s2 u2 hq2
  wbind (sim_copyType hq2.1 vs.type) with ty s3 u3 hq3
  wbind (sim_copyProps hq3.1 vs.props) with pr s4 u4 hq4
  wbind (sim_copyMeta hq4.1 vs.mstore) with me s5 u5 hq5
  have hk := hq2.trans (hq3.trans (hq4.trans hq5))
  cases hb : A.bound.contains o with
  | true => simp only [if_true]; trivial
  | false =>
    simp only [Bool.false_eq_true, if_false]
    refine Sim.step (m := alloc _) _ _ rfl ?_
    refine Sim.step (m := vmSet o _) () _ rfl ?_
    refine Sim.step (m := pendDiscard o) () _ rfl ?_
    refine Sim.pure ⟨⟨?_, ?_⟩, ?_⟩
    · have hvb : o ∉ A.bound := by simpa using hb
      have := hk.1.bindNew (c := ValueS.mk vs.name vs.doc none (some i) [] none false false false ty sh
        vs.const pr me) hv0 hvb e1 rfl rfl (s5.pend.filter (· != o))
      have hp : A.pend = s5.pend := hk.1.pend.symm
      simpa [hp] using this
    · exact hk.2.1.trans (by simpa using TExt.bindNew s5 _ o (s5.pend.filter (· != o)))
    · simp [Bound, List.lookup_cons]

theorem sim_cloneOutputs :
    ∀ (os : List Nat) (i : Nat) (s : St) (A : Sc), TInv w0 s A →
      Sim (cloneOutputs i os) s (wFold (wOutput w0) os A)
        (fun rs s' A' => Step w0 s s' A' ∧ All2 (fun o r => Bound o r s') os rs)
  | [], i, s, A, hT => by unfold cloneOutputs; exact Sim.pure ⟨⟨hT, TExt.refl s⟩, .nil⟩
  | o :: os, i, s, A, hT => by
    unfold cloneOutputs wFold
    wbind (sim_cloneOutput hT i o) with r s1 A1 hq
    refine Sim.bindLast (sim_cloneOutputs os (i + 1) s1 A1 hq.1.1) ?_
    intro rs s2 A2 hq2
    exact Sim.pure ⟨⟨hq2.1.1, hq.1.2.trans hq2.1.2⟩, .cons (hq.2.stable hq2.1.1 hq2.1.2) hq2.2⟩

/-! ### attributes -/

theorem sim_cloneAttr {rec : Nat → M Nat} {recW : Nat → Sc → WRes Sc}
    (hrec : ∀ g s A, TInv w0 s A → Sim (rec g) s (recW g A) (fun _ s' A' => Step w0 s s' A'))
    {s : St} {A : Sc} (hT : TInv w0 s A) (key : String) (a : Nat) :
    Sim (cloneAttr rec key a) s (wAttr w0 recW a A) (fun _ s' A' => Step w0 s s' A') := by
  unfold cloneAttr wAttr
  wbind (sim_readAttr hT a) with as s1 as0 hq
  obtain ⟨rfl, rfl, _, _⟩ := hq
  cases hv : as.v with
  | plain p => exact Sim.pure ⟨hT, TExt.refl _⟩
  | ref p => exact Sim.pure ⟨hT, TExt.refl _⟩
  | graph g =>
    simp only
    refine Sim.bindLast (hrec g s1 A hT) ?_
    intro g' s2 A2 hq2
    refine Sim.step (m := alloc _) _ _ rfl ?_
    exact Sim.pure ⟨hq2.1.allocOther (by intro v hv; cases hv), hq2.2.trans (TExt.alloc _ _)⟩
  | graphs gs =>
    simp only
    refine Sim.bindLast (sim_mapM' (P := fun _ _ _ => True) (fun _ => True) (fun _ _ _ _ => trivial)
      (fun _ _ _ _ _ _ _ _ => trivial)
      (fun g s A hT _ => (hrec g s A hT).mono (fun _ _ _ h => ⟨h, trivial⟩)) gs s1 A hT trivial) ?_
    intro gs' s2 A2 hq2
    refine Sim.step (m := alloc _) _ _ rfl ?_
    exact Sim.pure ⟨hq2.1.1.allocOther (by intro v hv; cases hv), hq2.1.2.trans (TExt.alloc _ _)⟩

/-! ### the new node -/

/-- a freshly cloned node: a node cell that no graph owns yet, whose outputs are the clones of the
    source node's outputs -/
def NodeImg (w0 : World) (lo : Nat) (n n' : Nat) (s : St) : Prop :=
  ∃ ns0 ns', w0[n]? = some (.node ns0) ∧ s.w[n']? = some (.node ns') ∧ ns'.graph = none ∧
    lo ≤ n' ∧ All2 (fun o o' => Bound o o' s) ns0.outputs ns'.outputs

theorem all2_bound_stable {s s' : St} {A' : Sc} (hT' : TInv w0 s' A') (hE : TExt s s') :
    ∀ {l l' : List Nat}, All2 (fun o o' => Bound o o' s) l l' → All2 (fun o o' => Bound o o' s') l l'
  | _, _, .nil => .nil
  | _, _, .cons h t => .cons (h.stable hT' hE) (all2_bound_stable hT' hE t)

theorem NodeImg.stable {lo : Nat} (n n' : Nat) (s s' : St) (A' : Sc) (h : NodeImg w0 lo n n' s)
    (hT' : TInv w0 s' A') (hE : TExt s s') : NodeImg w0 lo n n' s' := by
  obtain ⟨ns0, ns', a, b, c, d, e⟩ := h
  exact ⟨ns0, ns', a, hE.nodes _ _ b, c, d, all2_bound_stable hT' hE e⟩

theorem TInv.setVal {s : St} {A A' : Sc} (hT : TInv w0 s A) {r : Nat} {vs vs' : ValueS}
    (hr : s.w[r]? = some (.val vs)) (hnew : w0.length ≤ r)
    (hb : A'.bound = A.bound) (hp : A'.pend = A.pend)
    (hsub : ∀ v, v ∈ A'.owned ∨ v ∈ A'.produced → v ∈ A'.bound)
    (hname : vs'.name = vs.name)
    (hother : ∀ p ∈ s.vm, p.2 ≠ r → A'.owned.contains p.1 = A.owned.contains p.1 ∧
      A'.produced.contains p.1 = A.produced.contains p.1)
    (hself : ∀ p ∈ s.vm, p.2 = r → vs'.graph.isSome = A'.owned.contains p.1 ∧
      vs'.producer.isSome = A'.produced.contains p.1 ∧ ∀ x, vs'.graph = some x → x < s.w.length) :
    TInv w0 { s with w := s.w.set r (.val vs') } A' := by
  have hlt := lt_of_getElem? hr
  refine ⟨by simpa using hT.len, ?_, by rw [hb]; exact hT.keys, by rw [hb]; exact hT.nodup,
    by rw [hp]; exact hT.pend, ?_, hT.inj, ?_, hsub⟩
  · intro i c0 h
    obtain ⟨c1, h1, h2⟩ := hT.old i c0 h
    have : r ≠ i := by have := lt_of_getElem? h; omega
    exact ⟨c1, by simp only; rw [List.getElem?_set_ne this]; exact h1, h2⟩
  · intro p hp'
    obtain ⟨h2, vs1, vs2, a, b, c1, d, e, f⟩ := hT.vals p hp'
    by_cases hpr : p.2 = r
    · obtain ⟨g1, g2, g3⟩ := hself p hp' hpr
      rw [hpr] at b
      rw [hr] at b
      cases b
      refine ⟨h2, vs1, vs', a, by simp only; rw [hpr, List.getElem?_set_self hlt], hname.trans c1, g1, g2, ?_⟩
      intro x hx; simpa using g3 x hx
    · obtain ⟨g1, g2⟩ := hother p hp' hpr
      refine ⟨h2, vs1, vs2, a, ?_, c1, by rw [g1]; exact d, by rw [g2]; exact e, ?_⟩
      · simp only; rw [List.getElem?_set_ne (fun h => hpr h.symm)]; exact b
      · intro x hx; simpa using f x hx
  · intro i vs1 hi h
    simp only at h
    by_cases hir : r = i
    · subst hir
      exact hT.onto r vs hi hr
    · rw [List.getElem?_set_ne hir] at h
      exact hT.onto i vs1 hi h

theorem TExt.setVal {s : St} {r : Nat} {vs : ValueS} (hr : s.w[r]? = some (.val vs)) (c : ValueS) :
    TExt s { s with w := s.w.set r (.val c) } :=
  ⟨⟨[], rfl⟩, by simp, fun i ns h => by
    have : r ≠ i := by intro e; subst e; rw [hr] at h; cases h
    simp only; rw [List.getElem?_set_ne this]; exact h⟩

theorem TInv.pair_unique {s : St} {A : Sc} (hT : TInv w0 s A) {p q : Nat × Nat} (hp : p ∈ s.vm)
    (hq : q ∈ s.vm) (h : p.1 = q.1) : p = q := by
  have hn : (s.vm.map (·.1)).Nodup := by rw [hT.keys]; exact hT.nodup
  have key : ∀ (l : List (Nat × Nat)), (l.map (·.1)).Nodup → p ∈ l → q ∈ l → p = q := by
    intro l
    induction l with
    | nil => intro _ hp; cases hp
    | cons x xs ih =>
      intro hn hp hq
      simp only [List.map_cons, List.nodup_cons] at hn
      rcases List.mem_cons.mp hp with h1 | h1 <;> rcases List.mem_cons.mp hq with h2 | h2
      · rw [h1, h2]
      · subst h1; exact absurd (List.mem_map.mpr ⟨q, h2, h.symm⟩) hn.1
      · subst h2; exact absurd (List.mem_map.mpr ⟨p, h1, h⟩) hn.1
      · exact ih hn.2 h1 h2
  exact key _ hn hp hq

theorem Bound.mem {v r : Nat} {s : St} (h : Bound v r s) : (v, r) ∈ s.vm := mem_of_lookup h

theorem forM'_cons_ok {α : Type} {f : α → M Unit} {a : α} {as : List α} {s s1 : St}
    (h : f a s = (.ok (), s1)) : forM' f (a :: as) s = forM' f as s1 := by
  show M.bind (f a) _ s = _
  unfold M.bind
  rw [h]

theorem forM'_cons_err {α : Type} {f : α → M Unit} {a : α} {as : List α} {s s1 : St} {e : Err}
    (h : f a s = (.error e, s1)) : forM' f (a :: as) s = (.error e, s1) := by
  show M.bind (f a) _ s = _
  unfold M.bind
  rw [h]

theorem setProducer_eq (n' : Nat) {r : Nat} {s : St} {vs : ValueS} (h : s.w[r]? = some (.val vs)) :
    setProducer n' r s = (.ok (), { s with w := s.w.set r (.val { vs with producer := some n' }) }) := by
  show M.bind (readVal r) _ s = _
  simp [M.bind, readVal, h, setCell]

/-- `for v in outs: v._producer = node` -/
theorem sim_setProducers (n' : Nat) :
    ∀ (os rs : List Nat) (s : St) (A : Sc), TInv w0 s A → All2 (fun o r => Bound o r s) os rs →
      ∃ s', forM' (setProducer n') rs s = (.ok (), s') ∧
        TInv w0 s' { A with produced := os.reverse ++ A.produced } ∧ TExt s s' ∧ s'.vm = s.vm
  | [], [], s, A, hT, _ => ⟨s, rfl, by simpa using hT, TExt.refl s, rfl⟩
  | o :: os, r :: rs, s, A, hT, .cons h t => by
    have hmem := h.mem
    obtain ⟨hnew, vs0, vs, a, b, c1, d, e, f⟩ := hT.vals _ hmem
    simp only at hnew b d e f
    have hT1 : TInv w0 { s with w := s.w.set r (.val { vs with producer := some n' }) }
        { A with produced := o :: A.produced } := by
      refine hT.setVal b hnew rfl rfl ?_ rfl ?_ ?_
      · intro v hv
        rcases hv with hv | hv
        · exact hT.sub v (.inl hv)
        · rcases List.mem_cons.mp hv with hv | hv
          · rw [hv]
            have : o ∈ s.vm.map (·.1) := List.mem_map.mpr ⟨(o, r), hmem, rfl⟩
            rw [hT.keys] at this
            exact this
          · exact hT.sub v (.inr hv)
      · intro p hp hpr
        refine ⟨rfl, ?_⟩
        have : p.1 ≠ o := by
          intro hpo
          have := hT.pair_unique hp hmem hpo
          rw [this] at hpr
          exact hpr rfl
        simp [this]
      · intro p hp hpr
        have : p = (o, r) := hT.inj p hp _ hmem hpr
        subst this
        exact ⟨d, by simp, f⟩
    have hE1 : TExt s { s with w := s.w.set r (.val { vs with producer := some n' }) } := TExt.setVal b _
    have t' : All2 (fun o r => Bound o r { s with w := s.w.set r (.val { vs with producer := some n' }) }) os rs := by
      exact all2_bound_stable hT1 hE1 t
    obtain ⟨s', h1, h2, h3, h4⟩ := sim_setProducers n' os rs _ _ hT1 t'
    refine ⟨s', ?_, ?_, hE1.trans h3, h4⟩
    · rw [forM'_cons_ok (setProducer_eq n' b)]
      exact h1
    · simpa [List.reverse_cons, List.append_assoc] using h2

/-! ### usage records -/

theorem TInv.setUses {s : St} {A : Sc} (hT : TInv w0 s A) {v : Nat} {vs : ValueS}
    (hv : s.w[v]? = some (.val vs)) (us : List (Nat × Nat)) :
    TInv w0 { s with w := s.w.set v (.val { vs with uses := us }) } A := by
  have hlt := lt_of_getElem? hv
  refine ⟨by simpa using hT.len, ?_, hT.keys, hT.nodup, hT.pend, ?_, hT.inj, ?_, hT.sub⟩
  · intro i c0 h
    obtain ⟨c1, h1, h2⟩ := hT.old i c0 h
    by_cases hvi : v = i
    · subst hvi
      rw [hv] at h1
      cases h1
      exact ⟨.val { vs with uses := us }, by simp only; rw [List.getElem?_set_self hlt], h2⟩
    · exact ⟨c1, by simp only; rw [List.getElem?_set_ne hvi]; exact h1, h2⟩
  · intro p hp'
    obtain ⟨h2, vs1, vs2, a, b, c1, d, e, f⟩ := hT.vals p hp'
    by_cases hpr : p.2 = v
    · rw [hpr, hv] at b
      cases b
      exact ⟨h2, vs1, { vs with uses := us }, a, by simp only; rw [hpr, List.getElem?_set_self hlt], c1, d, e,
        fun x hx => by simpa using f x hx⟩
    · refine ⟨h2, vs1, vs2, a, ?_, c1, d, e, fun x hx => by simpa using f x hx⟩
      simp only; rw [List.getElem?_set_ne (fun h => hpr h.symm)]; exact b
  · intro i vs1 hi h
    simp only at h
    by_cases hir : v = i
    · subst hir
      exact hT.onto v vs hi hv
    · rw [List.getElem?_set_ne hir] at h
      exact hT.onto i vs1 hi h

theorem addUse_eq (n i : Nat) {v : Nat} {s : St} {vs : ValueS} (h : s.w[v]? = some (.val vs)) :
    addUse v n i s = (.ok (), { s with w := s.w.set v (.val { vs with uses := if vs.uses.contains (n, i) then vs.uses else vs.uses ++ [(n, i)] }) }) := by
  show M.bind (readVal v) _ s = _
  simp [M.bind, readVal, h, setCell]

theorem Keep.setUses {s : St} {A : Sc} (hT : TInv w0 s A) {v : Nat} {vs : ValueS}
    (hv : s.w[v]? = some (.val vs)) (us : List (Nat × Nat)) :
    Keep w0 A s { s with w := s.w.set v (.val { vs with uses := us }) } :=
  ⟨hT.setUses hv us, TExt.setVal hv _, rfl⟩

theorem sim_addUses (n' : Nat) {s0 : St} {A0 : Sc} (hT0 : TInv w0 s0 A0) :
    ∀ (l : List (Option Nat)) (i : Nat) (s : St) (A : Sc), TInv w0 s A → TExt s0 s →
      Sim (addUses n' i (l.map (resolve s0))) s (wPassthrough w0 A0 l) (fun _ s' _ => Keep w0 A s s')
  | [], i, s, A, hT, _ => Sim.pure (Keep.refl hT)
  | none :: rest, i, s, A, hT, hE => by
    simp only [List.map_cons, resolve, Option.map_none]
    unfold addUses wPassthrough
    exact sim_addUses n' hT0 rest (i + 1) s A hT hE
  | some v :: rest, i, s, A, hT, hE => by
    simp only [List.map_cons, resolve, Option.map_some]
    unfold addUses wPassthrough
    cases hb : A0.bound.contains v with
    | true =>
      obtain ⟨b, hlk⟩ := hT0.lookup_some hb
      simp only [if_true, hlk, Option.getD_some]
      have hmem0 : (v, b) ∈ s0.vm := mem_of_lookup hlk
      have hmem : (v, b) ∈ s.vm := by
        obtain ⟨ext, he⟩ := hE.vm
        rw [he]; exact List.mem_append_right _ hmem0
      obtain ⟨_, vs0, vs, _, hb', _⟩ := hT.vals _ hmem
      refine Sim.step (m := addUse b n' i) () _ (addUse_eq n' i hb') ?_
      have hk := Keep.setUses hT hb' (if vs.uses.contains (n', i) then vs.uses else vs.uses ++ [(n', i)])
      exact (sim_addUses n' hT0 rest (i + 1) _ A hk.1 (hE.trans hk.2.1)).mono
        (fun _ _ _ h => hk.trans h)
    | false =>
      have hlk := hT0.lookup_none hb
      simp only [Bool.false_eq_true, if_false, hlk, Option.getD_none]
      have hadd : Sim (addUse v n' i) s (wVal w0 v) (fun _ s' _ => Keep w0 A s s') := by
        unfold addUse
        refine Sim.bindLast (sim_readVal hT v) ?_
        intro vs s1 vs0 hq
        obtain ⟨rfl, hvs, _, _⟩ := hq
        exact ⟨(), _, rfl, Keep.setUses hT hvs _⟩
      wbind hadd with u s1 c hq
      exact (sim_addUses n' hT0 rest (i + 1) s1 A hq.1 (hE.trans hq.2.1)).mono
        (fun _ _ _ h => hq.trans h)

/-! ### `clone_node` -/

theorem TInv.lookup_isNone {s : St} {A : Sc} (hT : TInv w0 s A) (v : Nat) :
    (s.vm.lookup v).isNone = !A.bound.contains v := by
  cases hb : A.bound.contains v with
  | true => obtain ⟨b, hlk⟩ := hT.lookup_some hb; rw [hlk]; rfl
  | false => rw [hT.lookup_none hb]; rfl

theorem sim_checkSpecs {allow : Bool} {s : St} {A : Sc} (hT : TInv w0 s A) (ns : NodeS) :
    Sim (checkSpecs allow ns s.vm) s
      (if !allow && ns.dev.any (fun c => c.specs.any fun sp => match sp.value with
          | none => false
          | some v => !ns.inputs.contains (some v) && !ns.outputs.contains v && !A.bound.contains v)
        then WRes.err (.raised "sharding spec targets an outer-scope value") else WRes.ok ())
      (fun _ s' _ => s' = s) := by
  have heq : (fun (c : DevCfg) => c.specs.any (specOuter ns s.vm)) =
      (fun (c : DevCfg) => c.specs.any fun sp => match sp.value with
          | none => false
          | some v => !ns.inputs.contains (some v) && !ns.outputs.contains v && !A.bound.contains v) := by
    funext c
    congr 1
    funext sp
    unfold specOuter
    cases sp.value with
    | none => rfl
    | some v => simp only [hT.lookup_isNone v]
  unfold checkSpecs
  rw [heq]
  split
  · rfl
  · exact ⟨(), s, rfl, rfl⟩

theorem TInv.setCreated {s : St} {A : Sc} (hT : TInv w0 s A) (cr : List Nat) :
    TInv w0 { s with created := cr } A :=
  ⟨hT.len, hT.old, hT.keys, hT.nodup, hT.pend, hT.vals, hT.inj, hT.onto, hT.sub⟩

theorem allocNode_eq (c : NodeS) (s : St) :
    allocNode c s = (.ok s.w.length, { s with w := s.w ++ [.node c], created := s.created ++ [s.w.length] }) := rfl

theorem sim_cloneNode {allow : Bool} {rec : Nat → M Nat} {recW : Nat → Sc → WRes Sc}
    (hrec : ∀ g s A, TInv w0 s A → Sim (rec g) s (recW g A) (fun _ s' A' => Step w0 s s' A'))
    {s : St} {A : Sc} (hT : TInv w0 s A) (n : Nat) :
    Sim (cloneNode allow rec n) s (wNode w0 allow recW n A)
      (fun n' s' A' => Step w0 s s' A' ∧ NodeImg w0 s.w.length n n' s') := by
  unfold cloneNode wNode
  wbind (sim_readNode hT n) with ns s1 ns0 hq
  obtain ⟨rfl, rfl, _, hn0⟩ := hq
  wbind (sim_mapInputs (allow := allow) hT ns.inputs) with ins s2 u hq2
  obtain ⟨rfl, rfl⟩ := hq2
  wbind (sim_mapM' (P := fun _ _ _ => True) (fun _ => True) (fun _ _ _ _ => trivial)
    (fun _ _ _ _ _ _ _ _ => trivial)
    (fun (ka : String × Nat) s A hT _ => (sim_cloneAttr hrec hT ka.1 ka.2).mono (fun _ _ _ h => ⟨h, trivial⟩))
    ns.attrs s2 A hT trivial) with attrs s3 A1 hq3
  wbind (sim_copyProps hq3.1.1 ns.props) with pr s4 u4 hq4
  wbind (sim_copyMeta hq4.1 ns.mstore) with me s5 u5 hq5
  wbind (sim_cloneOutputs ns.outputs 0 s5 A1 hq5.1) with outs s6 A2 hq6
  have hE16 : TExt s2 s6 := hq3.1.2.trans (hq4.2.1.trans (hq5.2.1.trans hq6.1.2))
  -- sharding specs on outer-scope values
  refine Sim.step (m := getVm) s6.vm s6 rfl ?_
  wbind (sim_checkSpecs (allow := allow) hq6.1.1 ns) with u0 s6x c0 hq6x
  subst s6x
  -- the node cell
  refine Sim.step (m := allocNode _) _ _ (allocNode_eq _ s6) ?_
  generalize hc : (NodeS.mk ns.name ns.doc ns.domain ns.opType ns.overload ns.version
    (ns.inputs.map (resolve s2)) outs (dictOf attrs) none
    (remapDev (ioMap ns.inputs (ns.inputs.map (resolve s2)) ns.outputs outs ++ s6.vm) ns.dev) pr me) = c
  have hT7 := (hq6.1.1.allocOther (c := .node c) (by intro v hv; cases hv)).setCreated (s6.created ++ [s6.w.length])
  have hE7 := TExt.alloc s6 (.node c)
  have hE7' : TExt s6 { s6 with w := s6.w ++ [.node c], created := s6.created ++ [s6.w.length] } :=
    ⟨hE7.vm, hE7.len, hE7.nodes⟩
  have houts7 := all2_bound_stable hT7 hE7' hq6.2
  obtain ⟨s8, h8, hT8, hE8, hvm8⟩ := sim_setProducers s6.w.length ns.outputs outs _ _ hT7 houts7
  refine Sim.step (m := forM' (setProducer s6.w.length) outs) () s8 h8 ?_
  wbind (sim_addUses s6.w.length hT ns.inputs 0 s8 _ hT8 (hE16.trans (hE7'.trans hE8))) with u9 s9 c9 hq9
  have hE69 : TExt s6 s9 := hE7'.trans (hE8.trans hq9.2.1)
  refine Sim.pure ⟨⟨hq9.1, hE16.trans hE69⟩, ?_⟩
  refine ⟨ns, c, hn0, ?_, by rw [← hc], hE16.len, ?_⟩
  · exact hq9.2.1.nodes _ _ (hE8.nodes _ _ (by simp))
  · rw [← hc]
    exact all2_bound_stable hq9.1 (hE8.trans hq9.2.1) houts7

/-! ### small pieces of `_clone_graph` -/

theorem sim_allOutputs {s : St} {A : Sc} (hT : TInv w0 s A) :
    ∀ l : List Nat, Sim (allOutputs l) s (wAllOutputs w0 l) (fun r s' r0 => s' = s ∧ r = r0)
  | [] => Sim.pure ⟨rfl, rfl⟩
  | n :: ns => by
    unfold allOutputs wAllOutputs
    wbind (sim_readNode hT n) with x s1 x0 hq
    obtain ⟨rfl, rfl, _, _⟩ := hq
    wbind (sim_allOutputs hT ns) with r s2 r0 hq2
    obtain ⟨rfl, rfl⟩ := hq2
    exact Sim.pure ⟨rfl, rfl⟩

theorem TInv.setPend {s : St} {A : Sc} (hT : TInv w0 s A) (pd : List Nat) :
    TInv w0 { s with pend := pd } { A with pend := pd } :=
  ⟨hT.len, hT.old, hT.keys, hT.nodup, rfl, hT.vals, hT.inj, hT.onto, hT.sub⟩

theorem sim_getMapped {s : St} {A : Sc} (hT : TInv w0 s A) :
    ∀ l : List Nat, Sim (mapM' getMapped l) s
      (wAll (fun v => if A.bound.contains v then WRes.ok () else .err (.raised "graph output is not in the value map")) l)
      (fun r s' _ => s' = s ∧ All2 (fun v b => Bound v b s) l r)
  | [] => Sim.pure ⟨rfl, .nil⟩
  | v :: vs => by
    unfold mapM' wAll
    cases hb : A.bound.contains v with
    | true =>
      obtain ⟨b, hlk⟩ := hT.lookup_some hb
      simp only [if_true]
      refine Sim.step (m := getMapped v) b s ?_ ?_
      · unfold getMapped
        show M.bind (vmGet v) _ s = _
        simp [M.bind, vmGet, hlk, pure, M.pure]
      · show Sim _ s (wAll _ vs) _
        refine Sim.bindLast (sim_getMapped hT vs) ?_
        intro r s1 _ hq
        obtain ⟨rfl, hr⟩ := hq
        exact Sim.pure ⟨rfl, .cons hlk hr⟩
    | false =>
      have hlk := hT.lookup_none hb
      simp only [Bool.false_eq_true, if_false]
      show ((M.bind (getMapped v) _) s).1 = _
      have : getMapped v s = (.error (.raised "graph output is not in the value map"), s) := by
        unfold getMapped
        show M.bind (vmGet v) _ s = _
        simp [M.bind, vmGet, hlk, raise, fail]
      unfold M.bind
      rw [this]

/-! ### read-only loops -/

theorem wAll_ok {α : Type} {f : α → WRes Unit} : ∀ {l : List α}, wAll f l = .ok () → ∀ a ∈ l, f a = .ok ()
  | [], _, a, ha => by cases ha
  | x :: xs, h, a, ha => by
    unfold wAll at h
    cases hx : f x with
    | ok u =>
      rw [hx] at h
      rcases List.mem_cons.mp ha with h1 | h1
      · subst h1; exact hx
      · exact wAll_ok (l := xs) h a h1
    | err e => rw [hx] at h; cases h
    | irregular w => rw [hx] at h; cases h

/-- a loop of checks that do not change the state, against the walker's loop over the sources -/
theorem forM'_readonly {α β : Type} {f : β → M Unit} {wf : α → WRes Unit} {s : St} :
    ∀ {l : List α} {l' : List β},
      All2 (fun a b => match wf a with
        | .ok _ => f b s = (.ok (), s)
        | .err e => f b s = (.error e, s)
        | .irregular _ => True) l l' →
      match wAll wf l with
      | .ok _ => forM' f l' s = (.ok (), s)
      | .err e => forM' f l' s = (.error e, s)
      | .irregular _ => True
  | _, _, .nil => rfl
  | _, _, .cons (a := a) (b := b) (as := as) (bs := bs) h t => by
    have ih := forM'_readonly (f := f) (wf := wf) (s := s) t
    unfold wAll
    cases hx : wf a with
    | ok u =>
      rw [hx] at h
      simp only [WRes.bind]
      rw [forM'_cons_ok h]
      exact ih
    | err e =>
      rw [hx] at h
      simp only [WRes.bind]
      exact forM'_cons_err h
    | irregular w => trivial

theorem sim_of_readonly {α β : Type} {f : β → M Unit} {wf : α → WRes Unit} {s : St} {l : List α} {l' : List β}
    (h : All2 (fun a b => match wf a with
        | .ok _ => f b s = (.ok (), s)
        | .err e => f b s = (.error e, s)
        | .irregular _ => True) l l') :
    Sim (forM' f l') s (wAll wf l) (fun _ s' _ => s' = s ∧ ∀ a ∈ l, wf a = .ok ()) := by
  have := forM'_readonly h
  cases hx : wAll wf l with
  | ok u => rw [hx] at this; exact ⟨(), s, this, rfl, wAll_ok (by cases u; exact hx)⟩
  | err e => rw [hx] at this; show (forM' f l' s).1 = _; rw [this]
  | irregular w => trivial

theorem all2_imp {α β : Type} {R S : α → β → Prop} (h : ∀ a b, R a b → S a b) :
    ∀ {l : List α} {l' : List β}, All2 R l l' → All2 S l l'
  | _, _, .nil => .nil
  | _, _, .cons r t => .cons (h _ _ r) (all2_imp h t)

theorem all2_mem_left {α β : Type} {R : α → β → Prop} :
    ∀ {l : List α} {l' : List β}, All2 R l l' → ∀ b ∈ l', ∃ a ∈ l, R a b
  | _, _, .nil, b, hb => by cases hb
  | _, _, .cons r t, b, hb => by
    rcases List.mem_cons.mp hb with h | h
    · subst h; exact ⟨_, List.mem_cons_self, r⟩
    · obtain ⟨a, ha, hr⟩ := all2_mem_left t b h
      exact ⟨a, List.mem_cons_of_mem _ ha, hr⟩

/-! ### inside `Graph(...)` -/

/-- `g'` is the graph being constructed, `mine` the source values whose clones it owns already -/
structure GInv (w0 : World) (s : St) (A : Sc) (g' : Nat) (mine : List Nat) : Prop where
  t : TInv w0 s { A with owned := A.owned ++ mine }
  mineOwn : ∀ p ∈ s.vm, ∀ vs', s.w[p.2]? = some (.val vs') →
    (mine.contains p.1 = true → vs'.graph = some g') ∧ (mine.contains p.1 = false → vs'.graph ≠ some g')
  disj : ∀ v ∈ mine, A.owned.contains v = false
  glt : g' < s.w.length

theorem contains_append_eq (l m : List Nat) (v : Nat) :
    (l ++ m).contains v = (l.contains v || m.contains v) := by
  rw [Bool.eq_iff_iff]; simp

/-- what the checks of the containers see of the clone `b` of the source value `v` -/
theorem GInv.facts {s : St} {A : Sc} {g' : Nat} {mine : List Nat} (hG : GInv w0 s A g' mine) {v b : Nat}
    (h : Bound v b s) :
    ∃ vs0 vs', w0[v]? = some (.val vs0) ∧ s.w[b]? = some (.val vs') ∧ vs'.name = vs0.name ∧
      (vs'.graph.isSome && vs'.graph != some g') = A.owned.contains v ∧
      vs'.producer.isSome = A.produced.contains v := by
  have hmem := h.mem
  obtain ⟨_, vs0, vs', a, b', c1, d, e, f⟩ := hG.t.vals _ hmem
  simp only at a b' d e
  obtain ⟨m1, m2⟩ := hG.mineOwn _ hmem vs' b'
  simp only at m1 m2
  refine ⟨vs0, vs', a, b', c1, ?_, e⟩
  cases hm : mine.contains v with
  | true =>
    rw [m1 hm, hG.disj v (by simpa using hm)]
    simp
  | false =>
    have hne := m2 hm
    rw [contains_append_eq, hm, Bool.or_false] at d
    rw [← d]
    have : (vs'.graph != some g') = true := by simpa using hne
    rw [this, Bool.and_true]

theorem checkInput_eq {s : St} {g' b : Nat} {vs' : ValueS} (hb : s.w[b]? = some (.val vs')) :
    checkInput g' b s = (if vs'.graph.isSome && vs'.graph != some g' then
        (.error (.raised "input owned by a different graph"), s)
      else if vs'.producer.isSome then (.error (.raised "input is produced by a node"), s) else (.ok (), s)) := by
  unfold checkInput
  show M.bind (readVal b) _ s = _
  simp only [M.bind, readVal, hb]
  split
  · rfl
  · split <;> rfl

theorem checkOwned_eq {s : St} {g' b : Nat} {vs' : ValueS} (hb : s.w[b]? = some (.val vs')) :
    checkOwned g' b s = (if vs'.graph.isSome && vs'.graph != some g' then
        (.error (.raised "value owned by a different graph"), s) else (.ok (), s)) := by
  unfold checkOwned
  show M.bind (readVal b) _ s = _
  simp only [M.bind, readVal, hb]
  split <;> rfl

theorem checkNamed_eq {s : St} {b : Nat} {vs' : ValueS} (hb : s.w[b]? = some (.val vs')) :
    checkNamed b s = (if vs'.name.isNone then (.error (.unsupported "unnamed value (name authority)"), s)
      else (.ok (), s)) := by
  unfold checkNamed
  show M.bind (readVal b) _ s = _
  simp only [M.bind, readVal, hb]
  split <;> rfl

theorem wName_of {v : Nat} {vs0 : ValueS} (h : w0[v]? = some (.val vs0)) : wName w0 v = vs0.name := by
  simp [wName, h]

theorem GInv.checkInputs {s : St} {A : Sc} {g' : Nat} {mine : List Nat} (hG : GInv w0 s A g' mine)
    {l l' : List Nat} (h : All2 (fun v b => Bound v b s) l l') :
    Sim (forM' (checkInput g') l') s
      (wAll (fun v => if A.owned.contains v then WRes.err (.raised "input owned by a different graph")
        else if A.produced.contains v then .err (.raised "input is produced by a node") else .ok ()) l)
      (fun _ s' _ => s' = s ∧ ∀ v ∈ l, A.owned.contains v = false) := by
  refine (sim_of_readonly (f := checkInput g') ?_).mono (fun _ _ _ hq => ⟨hq.1, fun v hv => ?_⟩)
  rotate_left
  · have := hq.2 v hv
    cases ho : A.owned.contains v with
    | true => rw [ho] at this; simp at this
    | false => rfl
  refine all2_imp ?_ h
  intro v b hb
  obtain ⟨vs0, vs', _, b', _, d, e⟩ := hG.facts hb
  rw [checkInput_eq b', d, e]
  cases A.owned.contains v <;> cases A.produced.contains v <;> simp

theorem GInv.checkOwneds {s : St} {A : Sc} {g' : Nat} {mine : List Nat} (hG : GInv w0 s A g' mine)
    {l l' : List Nat} (h : All2 (fun v b => Bound v b s) l l') :
    Sim (forM' (checkOwned g') l') s
      (wAll (fun v => if A.owned.contains v then WRes.err (.raised "value owned by a different graph")
        else .ok ()) l)
      (fun _ s' _ => s' = s ∧ ∀ v ∈ l, A.owned.contains v = false) := by
  refine (sim_of_readonly (f := checkOwned g') ?_).mono (fun _ _ _ hq => ⟨hq.1, fun v hv => ?_⟩)
  rotate_left
  · have := hq.2 v hv
    cases ho : A.owned.contains v with
    | true => rw [ho] at this; simp at this
    | false => rfl
  refine all2_imp ?_ h
  intro v b hb
  obtain ⟨vs0, vs', _, b', _, d, e⟩ := hG.facts hb
  rw [checkOwned_eq b', d]
  cases A.owned.contains v <;> simp

theorem GInv.checkNameds {s : St} {A : Sc} {g' : Nat} {mine : List Nat} (hG : GInv w0 s A g' mine)
    {l l' : List Nat} (h : All2 (fun v b => Bound v b s) l l') :
    Sim (forM' checkNamed l') s
      (wAll (fun v => if (wName w0 v).isNone then WRes.err (.unsupported "unnamed value (name authority)")
        else .ok ()) l)
      (fun _ s' _ => s' = s) := by
  refine (sim_of_readonly (f := checkNamed) ?_).mono (fun _ _ _ hq => hq.1)
  refine all2_imp ?_ h
  intro v b hb
  obtain ⟨vs0, vs', a, b', c1, _, _⟩ := hG.facts hb
  rw [checkNamed_eq b', wName_of a, c1]
  cases vs0.name <;> simp

theorem setValueOwner_eq {s : St} {g' b : Nat} {vs' : ValueS} (f : ValueS → ValueS)
    (hb : s.w[b]? = some (.val vs')) :
    setValueOwner g' f b s = (.ok (), { s with w := s.w.set b (.val (f { vs' with graph := some g' })) }) := by
  unfold setValueOwner
  show M.bind (readVal b) _ s = _
  simp [M.bind, readVal, hb, setCell]

theorem GInv.setOwners {A : Sc} {g' : Nat} (f : ValueS → ValueS)
    (hf : ∀ x, (f x).name = x.name ∧ (f x).graph = x.graph ∧ (f x).producer = x.producer) :
    ∀ (l l' : List Nat) (s : St) (mine : List Nat), GInv w0 s A g' mine →
      All2 (fun v b => Bound v b s) l l' → (∀ v ∈ l, A.owned.contains v = false) →
      ∃ s', forM' (setValueOwner g' f) l' s = (.ok (), s') ∧ GInv w0 s' A g' (l.reverse ++ mine) ∧
        TExt s s' ∧ s'.vm = s.vm
  | [], [], s, mine, hG, _, _ => ⟨s, rfl, by simpa using hG, TExt.refl s, rfl⟩
  | v :: l, b :: l', s, mine, hG, .cons h t, hown => by
    have hmem := h.mem
    obtain ⟨hnew, vs0, vs', a, hb, c1, d, e, fx⟩ := hG.t.vals _ hmem
    simp only at hnew a hb d e fx
    obtain ⟨f1, f2, f3⟩ := hf { vs' with graph := some g' }
    have hvb : v ∈ A.bound := by
      have : v ∈ s.vm.map (·.1) := List.mem_map.mpr ⟨(v, b), hmem, rfl⟩
      rw [hG.t.keys] at this
      exact this
    have hne : ∀ p ∈ s.vm, p.2 ≠ b → p.1 ≠ v := by
      intro p hp hpb hpv
      have := hG.t.pair_unique hp hmem hpv
      rw [this] at hpb
      exact hpb rfl
    have hT1 : TInv w0 { s with w := s.w.set b (.val (f { vs' with graph := some g' })) }
        { A with owned := A.owned ++ (v :: mine) } := by
      refine hG.t.setVal hb hnew rfl rfl ?_ f1 ?_ ?_
      · intro x hx
        rcases hx with hx | hx
        · rcases List.mem_append.mp hx with hx | hx
          · exact hG.t.sub x (.inl (List.mem_append_left _ hx))
          · rcases List.mem_cons.mp hx with hx | hx
            · rw [hx]; exact hvb
            · exact hG.t.sub x (.inl (List.mem_append_right _ hx))
        · exact hG.t.sub x (.inr hx)
      · intro p hp hpb
        refine ⟨?_, rfl⟩
        have := hne p hp hpb
        rw [contains_append_eq, contains_append_eq]
        simp [this]
      · intro p hp hpb
        have : p = (v, b) := hG.t.inj p hp _ hmem hpb
        subst this
        refine ⟨?_, by rw [f3]; exact e, ?_⟩
        · rw [f2, contains_append_eq]; simp
        · intro x hx
          rw [f2] at hx
          cases hx
          simpa using hG.glt
    have hE1 := TExt.setVal hb (f { vs' with graph := some g' })
    have hG1 : GInv w0 { s with w := s.w.set b (.val (f { vs' with graph := some g' })) } A g' (v :: mine) := by
      refine ⟨hT1, ?_, ?_, by simpa using hG.glt⟩
      · intro p hp vs2 h2
        simp only at h2
        by_cases hpb : p.2 = b
        · have : p = (v, b) := hG.t.inj p hp _ hmem hpb
          subst this
          rw [List.getElem?_set_self (lt_of_getElem? hb)] at h2
          cases h2
          exact ⟨fun _ => f2, fun hc => by simp at hc⟩
        · rw [List.getElem?_set_ne (fun h => hpb h.symm)] at h2
          obtain ⟨m1, m2⟩ := hG.mineOwn p hp vs2 h2
          have := hne p hp hpb
          refine ⟨fun hc => m1 ?_, fun hc => m2 ?_⟩
          · simpa [this] using hc
          · simpa [this] using hc
      · intro x hx
        rcases List.mem_cons.mp hx with hx | hx
        · rw [hx]; exact hown v List.mem_cons_self
        · exact hG.disj x hx
    obtain ⟨s', h1, h2, h3, h4⟩ := GInv.setOwners f hf l l' _ (v :: mine) hG1
      (all2_bound_stable hT1 hE1 t) (fun x hx => hown x (List.mem_cons_of_mem _ hx))
    refine ⟨s', ?_, ?_, hE1.trans h3, h4⟩
    · rw [forM'_cons_ok (setValueOwner_eq f hb)]
      exact h1
    · simpa [List.reverse_cons, List.append_assoc] using h2

/-! ### the initializer dictionary -/

def nameOf (w0 : World) (v : Nat) : String := (wName w0 v).getD ""

/-- what `{init.name: init for init in initializers}` builds, read off the source names -/
def entFold (w0 : World) : List (String × Nat) → List Nat → List Nat → List (String × Nat)
  | acc, v :: l, b :: l' => entFold w0 (dictSet acc (nameOf w0 v) b) l l'
  | acc, _, _ => acc

theorem sim_initEntries {s : St} :
    ∀ {l l' : List Nat}, All2 (fun v b => ∃ vs', s.w[b]? = some (.val vs') ∧ vs'.name = wName w0 v) l l' →
      ∀ acc, Sim (initEntries acc l') s
        (wAll (fun v => match wName w0 v with
          | none => WRes.err (.raised "initializer without a name")
          | some _ => .ok ()) l)
        (fun r s' _ => s' = s ∧ r = entFold w0 acc l l' ∧ ∀ v ∈ l, (wName w0 v).isSome)
  | _, _, .nil, acc => Sim.pure ⟨rfl, rfl, fun _ h => by cases h⟩
  | _, _, .cons (a := v) (b := b) (as := l) (bs := l') h t, acc => by
    obtain ⟨vs', hb, hname⟩ := h
    unfold initEntries wAll
    refine Sim.step (m := readVal b) vs' s (by simp [readVal, hb]) ?_
    rw [hname]
    cases hn : wName w0 v with
    | none =>
      show ((raise _ : M _) s).1 = _
      rfl
    | some nm =>
      simp only [WRes.bind]
      have := sim_initEntries t (dictSet acc nm b)
      refine this.mono ?_
      intro r s' _ hq
      refine ⟨hq.1, ?_, ?_⟩
      · rw [hq.2.1]
        simp [entFold, nameOf, hn]
      · intro x hx
        rcases List.mem_cons.mp hx with h1 | h1
        · rw [h1, hn]; rfl
        · exact hq.2.2 x h1

theorem dictSet_fresh {β : Type} (acc : List (String × β)) (k : String) (v : β)
    (h : ∀ e ∈ acc, e.1 ≠ k) : dictSet acc k v = acc ++ [(k, v)] := by
  unfold dictSet
  have : acc.any (fun e => e.1 == k) = false := by
    rw [List.any_eq_false]
    intro e he
    simpa using h e he
  rw [this]
  rfl

theorem distinct_cons {a : String} {as : List String} (h : distinct (a :: as) = true) :
    a ∉ as ∧ distinct as = true := by
  unfold distinct at h
  rw [Bool.and_eq_true] at h
  exact ⟨by simpa using h.1, h.2⟩

theorem entFold_eq {R : Nat → Nat → Prop} :
    ∀ {l l' : List Nat}, All2 R l l' → ∀ acc : List (String × Nat),
      distinct (l.map (nameOf w0)) = true → (∀ e ∈ acc, e.1 ∉ l.map (nameOf w0)) →
      entFold w0 acc l l' = acc ++ (l.map (nameOf w0)).zip l'
  | _, _, .nil, acc, _, _ => by simp [entFold]
  | _, _, .cons (a := v) (b := b) (as := l) (bs := l') _ t, acc, hd, hacc => by
    simp only [List.map_cons] at hd hacc
    obtain ⟨hv, hd'⟩ := distinct_cons hd
    unfold entFold
    rw [dictSet_fresh acc (nameOf w0 v) b (fun e he heq => hacc e he (by rw [heq]; exact List.mem_cons_self))]
    rw [entFold_eq t _ hd']
    · simp [List.append_assoc]
    · intro e he hmem
      rcases List.mem_append.mp he with h1 | h1
      · exact hacc e h1 (List.mem_cons_of_mem _ hmem)
      · simp at h1
        rw [h1] at hmem
        exact hv hmem

theorem all2_zip_names {R : Nat → Nat → Prop} (f : Nat → String) :
    ∀ {l l' : List Nat}, All2 R l l' → All2 (fun v (e : String × Nat) => e.1 = f v ∧ R v e.2) l ((l.map f).zip l')
  | _, _, .nil => .nil
  | _, _, .cons h t => .cons ⟨rfl, h⟩ (all2_zip_names f t)

theorem all2_zip_snd {R : Nat → Nat → Prop} (f : Nat → String) :
    ∀ {l l' : List Nat}, All2 R l l' → ((l.map f).zip l').map (·.2) = l'
  | _, _, .nil => rfl
  | _, _, .cons _ t => by simp [all2_zip_snd f t]

theorem checkInitEntry_eq {s : St} {e : String × Nat} {vs' : ValueS} (hb : s.w[e.2]? = some (.val vs')) :
    checkInitEntry e s = (if e.1 = "" then (.error (.raised "initializer with an empty name"), s)
      else if vs'.producer.isSome then (.error (.raised "initializer produced by a node"), s) else (.ok (), s)) := by
  unfold checkInitEntry
  show M.bind (readVal e.2) _ s = _
  simp only [M.bind, readVal, hb]
  split
  · rfl
  · split <;> rfl

theorem GInv.checkInitEntries {s : St} {A : Sc} {g' : Nat} {mine : List Nat} (hG : GInv w0 s A g' mine)
    {l l' : List Nat} (h : All2 (fun v b => Bound v b s) l l')
    (hnamed : ∀ v ∈ l, (wName w0 v).isSome) :
    Sim (forM' checkInitEntry ((l.map (nameOf w0)).zip l')) s
      (wAll (fun v => if wName w0 v = some "" then WRes.err (.raised "initializer with an empty name")
        else if A.produced.contains v then .err (.raised "initializer produced by a node") else .ok ()) l)
      (fun _ s' _ => s' = s) := by
  refine (sim_of_readonly (f := checkInitEntry) ?_).mono (fun _ _ _ hq => hq.1)
  have h2 := all2_zip_names (nameOf w0) h
  -- membership is needed for `hnamed`
  have key : ∀ {l l' : List Nat} {es : List (String × Nat)}, (∀ v ∈ l, (wName w0 v).isSome) →
      All2 (fun v (e : String × Nat) => e.1 = nameOf w0 v ∧ Bound v e.2 s) l es →
      All2 (fun v (e : String × Nat) =>
        match (if wName w0 v = some "" then WRes.err (.raised "initializer with an empty name")
          else if A.produced.contains v then .err (.raised "initializer produced by a node") else .ok ()) with
        | .ok _ => checkInitEntry e s = (.ok (), s)
        | .err er => checkInitEntry e s = (.error er, s)
        | .irregular _ => True) l es := by
    intro l _ es hn hh
    induction hh with
    | nil => exact .nil
    | cons hr _ ih =>
      refine .cons ?_ (ih (fun v hv => hn v (List.mem_cons_of_mem _ hv)))
      obtain ⟨he1, he2⟩ := hr
      obtain ⟨vs0, vs', a, b', c1, _, e⟩ := hG.facts he2
      obtain ⟨nm, hnm⟩ := Option.isSome_iff_exists.mp (hn _ List.mem_cons_self)
      rw [checkInitEntry_eq b', he1, e]
      simp only [nameOf, hnm, Option.getD_some]
      by_cases hq : nm = ""
      · subst hq; simp
      · have : ¬ (some nm = some "") := by simpa using hq
        simp only [hq, this, if_false]
        cases A.produced.contains _ <;> simp
  exact key (l' := l') hnamed h2

/-! ### the nodes of the new graph -/

def NodeOut (w0 : World) (n n' : Nat) (s : St) : Prop :=
  ∃ ns0 ns', w0[n]? = some (.node ns0) ∧ s.w[n']? = some (.node ns') ∧ w0.length ≤ n' ∧
    All2 (fun o o' => Bound o o' s) ns0.outputs ns'.outputs

theorem TInv.setNode {s : St} {A : Sc} (hT : TInv w0 s A) {k : Nat} {x : NodeS} (hk : s.w[k]? = some (.node x))
    (hnew : w0.length ≤ k) (y : NodeS) : TInv w0 { s with w := s.w.set k (.node y) } A := by
  have hne : ∀ {i : Nat} {vs : ValueS}, s.w[i]? = some (.val vs) → k ≠ i := by
    intro i vs h e; subst e; rw [hk] at h; cases h
  refine ⟨by simpa using hT.len, ?_, hT.keys, hT.nodup, hT.pend, ?_, hT.inj, ?_, hT.sub⟩
  · intro i c0 h
    obtain ⟨c1, h1, h2⟩ := hT.old i c0 h
    have : k ≠ i := by have := lt_of_getElem? h; omega
    exact ⟨c1, by simp only; rw [List.getElem?_set_ne this]; exact h1, h2⟩
  · intro p hp'
    obtain ⟨h2, vs1, vs2, a, b, c1, d, e, f⟩ := hT.vals p hp'
    refine ⟨h2, vs1, vs2, a, ?_, c1, d, e, fun x hx => by simpa using f x hx⟩
    simp only; rw [List.getElem?_set_ne (hne b)]; exact b
  · intro i vs1 hi h
    simp only at h
    by_cases hki : k = i
    · subst hki
      rw [List.getElem?_set_self (lt_of_getElem? hk)] at h
      cases h
    · rw [List.getElem?_set_ne hki] at h
      exact hT.onto i vs1 hi h

theorem GInv.setNode {s : St} {A : Sc} {g' : Nat} {mine : List Nat} (hG : GInv w0 s A g' mine) {k : Nat}
    {x : NodeS} (hk : s.w[k]? = some (.node x)) (hnew : w0.length ≤ k) (y : NodeS) :
    GInv w0 { s with w := s.w.set k (.node y) } A g' mine := by
  refine ⟨hG.t.setNode hk hnew y, ?_, hG.disj, by simpa using hG.glt⟩
  intro p hp vs' h
  simp only at h
  by_cases hkp : k = p.2
  · rw [← hkp, List.getElem?_set_self (lt_of_getElem? hk)] at h
    cases h
  · rw [List.getElem?_set_ne hkp] at h
    exact hG.mineOwn p hp vs' h

theorem NodeOut.setNode {n n' : Nat} {s : St} (h : NodeOut w0 n n' s) {k : Nat} {x : NodeS}
    (hk : s.w[k]? = some (.node x)) (gg : Option Nat) :
    NodeOut w0 n n' { s with w := s.w.set k (.node { x with graph := gg }) } := by
  obtain ⟨ns0, ns', a, b, c, d⟩ := h
  by_cases hkn : k = n'
  · subst hkn
    rw [hk] at b
    cases b
    exact ⟨ns0, { x with graph := gg }, a, by simp only; rw [List.getElem?_set_self (lt_of_getElem? hk)], c, d⟩
  · exact ⟨ns0, ns', a, by simp only; rw [List.getElem?_set_ne hkn]; exact b, c, d⟩

theorem checkNodeFree_ok {s : St} {g' n' : Nat} {ns' : NodeS} (h : s.w[n']? = some (.node ns'))
    (hg : ns'.graph = none) : checkNodeFree g' n' s = (.ok (), s) := by
  unfold checkNodeFree
  show M.bind (readNode n') _ s = _
  simp [M.bind, readNode, h, hg, pure, M.pure]

theorem checkNodeFrees_ok {s : St} {g' lo : Nat} :
    ∀ {l l' : List Nat}, All2 (fun n n' => NodeImg w0 lo n n' s) l l' → forM' (checkNodeFree g') l' s = (.ok (), s)
  | _, _, .nil => rfl
  | _, _, .cons h t => by
    obtain ⟨_, ns', _, b, c, _⟩ := h
    rw [forM'_cons_ok (checkNodeFree_ok b c)]
    exact checkNodeFrees_ok t

theorem wNodeCell_of {n : Nat} {ns0 : NodeS} (h : w0[n]? = some (.node ns0)) : wNodeCell w0 n = .ok ns0 := by
  simp [wNodeCell, wCell, h, WRes.bind]

theorem GInv.setNodeGraphs {A : Sc} {g' : Nat} {mine : List Nat} :
    ∀ {l l' : List Nat} (s : St), GInv w0 s A g' mine → All2 (fun n n' => NodeOut w0 n n' s) l l' →
      Sim (forM' (setNodeGraph g') l') s
        (wAll (fun n => (wNodeCell w0 n).bind fun ns =>
          wAll (fun o => if (wName w0 o).isNone then WRes.err (.unsupported "unnamed value (name authority)")
            else .ok ()) ns.outputs) l)
        (fun _ s' _ => GInv w0 s' A g' mine ∧ s'.vm = s.vm ∧ s'.w.length = s.w.length ∧
          ∀ i, i ∉ l' → s'.w[i]? = s.w[i]?)
  | _, _, s, hG, .nil => Sim.pure ⟨hG, rfl, rfl, fun _ _ => rfl⟩
  | _, _, s, hG, .cons (a := n) (b := n') (as := l) (bs := l') h t => by
    obtain ⟨ns0, ns', a, b, c, d⟩ := h
    unfold forM' wAll
    rw [wNodeCell_of a]
    simp only [WRes.bind]
    have hstep : Sim (setNodeGraph g' n') s
        (wAll (fun o => if (wName w0 o).isNone then WRes.err (.unsupported "unnamed value (name authority)")
            else .ok ()) ns0.outputs)
        (fun _ s' _ => s' = { s with w := s.w.set n' (.node { ns' with graph := some g' }) }) := by
      unfold setNodeGraph
      refine Sim.step (m := readNode n') ns' s (by simp [readNode, b]) ?_
      refine Sim.bindLast (hG.checkNameds d) ?_
      intro _ s1 _ hq
      subst hq
      exact ⟨(), _, rfl, rfl⟩
    wbind hstep with u s1 c1 hq
    subst hq
    have hG1 := hG.setNode b c { ns' with graph := some g' }
    have t1 : All2 (fun m m' => NodeOut w0 m m' { s with w := s.w.set n' (.node { ns' with graph := some g' }) }) l l' :=
      all2_imp (fun _ _ h => h.setNode b (some g')) t
    refine (GInv.setNodeGraphs _ hG1 t1).mono ?_
    intro _ s2 _ hq
    obtain ⟨q1, q2, q3, q4⟩ := hq
    refine ⟨q1, q2, by rw [q3]; simp, ?_⟩
    intro i hi
    have hi' : i ∉ l' := fun h => hi (List.mem_cons_of_mem _ h)
    have hin : n' ≠ i := fun h => hi (h ▸ List.mem_cons_self)
    rw [q4 i hi']
    simp only
    rw [List.getElem?_set_ne hin]

theorem TInv.congr {s : St} {A A' : Sc} (hT : TInv w0 s A) (hb : A'.bound = A.bound) (hp : A'.pend = A.pend)
    (ho : ∀ v, A'.owned.contains v = A.owned.contains v)
    (hpr : ∀ v, A'.produced.contains v = A.produced.contains v) : TInv w0 s A' := by
  refine ⟨hT.len, hT.old, by rw [hb]; exact hT.keys, by rw [hb]; exact hT.nodup, by rw [hp]; exact hT.pend,
    ?_, hT.inj, hT.onto, ?_⟩
  · intro p hp'
    obtain ⟨h2, vs1, vs2, a, b, c1, d, e, f⟩ := hT.vals p hp'
    exact ⟨h2, vs1, vs2, a, b, c1, by rw [ho]; exact d, by rw [hpr]; exact e, f⟩
  · intro v hv
    rw [hb]
    apply hT.sub
    rcases hv with hv | hv
    · left
      have : A'.owned.contains v = true := by simpa using hv
      rw [ho] at this
      simpa using this
    · right
      have : A'.produced.contains v = true := by simpa using hv
      rw [hpr] at this
      simpa using this

/-! ### `Graph(...)` -/

theorem filterMap_named {l : List Nat} (h : ∀ v ∈ l, (wName w0 v).isSome) :
    l.filterMap (wName w0) = l.map (nameOf w0) := by
  induction l with
  | nil => rfl
  | cons v l ih =>
    obtain ⟨nm, hnm⟩ := Option.isSome_iff_exists.mp (h v List.mem_cons_self)
    simp only [List.filterMap_cons, hnm, List.map_cons, nameOf, Option.getD_some]
    rw [ih (fun x hx => h x (List.mem_cons_of_mem _ hx))]

theorem bound_of_vm {s s' : St} (h : s'.vm = s.vm) {l l' : List Nat}
    (hb : All2 (fun v b => Bound v b s) l l') : All2 (fun v b => Bound v b s') l l' :=
  all2_imp (fun _ _ hx => by unfold Bound at *; rw [h]; exact hx) hb

theorem mine_contains (o i u n : List Nat) (v : Nat) :
    (o ++ i ++ u ++ n).contains v = (o ++ (n.reverse ++ (u.reverse ++ (i.reverse ++ [])))).contains v := by
  rw [Bool.eq_iff_iff]
  simp only [List.contains_iff_mem, List.mem_append, List.mem_reverse, List.append_nil]
  constructor
  · rintro (((h | h) | h) | h) <;> simp [h]
  · rintro (h | h | h | h) <;> simp [h]

theorem sim_mkGraph {s : St} {A : Sc} (hT : TInv w0 s A) (gs : GraphS) {lo : Nat} (hlo : w0.length ≤ lo)
    {inputs outputs nodes inits : List Nat}
    (hin : All2 (fun v b => Bound v b s) gs.inputs inputs)
    (hout : All2 (fun v b => Bound v b s) gs.outputs outputs)
    (hinit : All2 (fun v b => Bound v b s) (gs.inits.map (·.2)) inits)
    (hnodes : All2 (fun n n' => NodeImg w0 lo n n' s) gs.nodes nodes) :
    Sim (mkGraph gs inputs outputs nodes inits) s (wMkGraph w0 gs A)
      (fun _ s' A' => TInv w0 s' A' ∧ s'.vm = s.vm ∧ s.w.length ≤ s'.w.length ∧
        ∀ i ns, s.w[i]? = some (.node ns) → i ∉ nodes → s'.w[i]? = some (.node ns)) := by
  unfold mkGraph wMkGraph
  dsimp only
  -- the initializer dictionary
  have hfacts : All2 (fun v b => ∃ vs', s.w[b]? = some (.val vs') ∧ vs'.name = wName w0 v)
      (gs.inits.map (·.2)) inits := by
    refine all2_imp ?_ hinit
    intro v b hb
    obtain ⟨_, vs0, vs', a, b', c1, _⟩ := hT.vals _ hb.mem
    exact ⟨vs', b', by rw [wName_of a]; exact c1⟩
  wbind (sim_initEntries hfacts []) with entries s1 u hq
  obtain ⟨rfl, rfl, hnamed⟩ := hq
  cases hd : distinct ((gs.inits.map (·.2)).filterMap (wName w0)) with
  | false => simp only [Bool.false_eq_true, if_false]; trivial
  | true =>
    simp only [if_true, WRes.ok_bind]
    rw [filterMap_named hnamed] at hd
    rw [entFold_eq hinit [] hd (fun e he => by cases he), List.nil_append]
    rw [all2_zip_snd (nameOf w0) hinit]
    wbind (sim_copyProps hT gs.props) with pr s2 u2 hq2
    wbind (sim_copyMeta hq2.1 gs.mstore) with me s3 u3 hq3
    have hk := hq2.trans hq3
    refine Sim.step (m := alloc _) _ _ rfl ?_
    generalize hgc : (Cell.graph (GraphS.mk gs.name gs.doc inputs outputs
      ((List.map (nameOf w0) (gs.inits.map (·.2))).zip inits) nodes gs.opsets pr me false)) = gc
    have hgcv : ∀ v, gc ≠ .val v := by intro v hv; rw [← hgc] at hv; cases hv
    have hT4 := hk.1.allocOther (c := gc) hgcv
    have hE4 : TExt s1 { s3 with w := s3.w ++ [gc] } := hk.2.1.trans (TExt.alloc s3 gc)
    have hvm4 : ({ s3 with w := s3.w ++ [gc] } : St).vm = s1.vm := hk.2.2
    have hG0 : GInv w0 { s3 with w := s3.w ++ [gc] } A s3.w.length [] := by
      refine ⟨hT4.congr rfl rfl (fun v => by simp) (fun _ => rfl), ?_, (fun v hv => by cases hv), by simp⟩
      intro p hp vs' h
      refine ⟨fun hc => by simp at hc, fun _ hg => ?_⟩
      obtain ⟨_, _, vs2, _, b, _, _, _, f⟩ := hk.1.vals p hp
      simp only at h
      rw [List.getElem?_append_left (lt_of_getElem? b), b] at h
      cases h
      have := f _ hg
      omega
    have hin4 := bound_of_vm hvm4 hin
    have hout4 := bound_of_vm hvm4 hout
    have hinit4 := bound_of_vm hvm4 hinit
    -- inputs
    wbind (hG0.checkInputs hin4) with u4 s4 c4 hq4
    obtain ⟨rfl, hown1⟩ := hq4
    obtain ⟨s5, e5, hG5, hE5, hvm5⟩ := GInv.setOwners (fun v => { v with isIn := true })
      (fun x => ⟨rfl, rfl, rfl⟩) gs.inputs inputs _ [] hG0 hin4 hown1
    refine Sim.step (m := forM' (setValueOwner s3.w.length fun v => { v with isIn := true }) inputs) () s5 e5 ?_
    -- outputs
    wbind (hG5.checkOwneds (bound_of_vm hvm5 hout4)) with u5 s5' c5 hq5
    obtain ⟨rfl, hown2⟩ := hq5
    obtain ⟨s6, e6, hG6, hE6, hvm6⟩ := GInv.setOwners (fun v => { v with isOut := true })
      (fun x => ⟨rfl, rfl, rfl⟩) gs.outputs outputs _ _ hG5 (bound_of_vm hvm5 hout4) hown2
    refine Sim.step (m := forM' (setValueOwner s3.w.length fun v => { v with isOut := true }) outputs) () s6 e6 ?_
    -- initializers
    have hvm64 : s6.vm = ({ s3 with w := s3.w ++ [gc] } : St).vm := hvm6.trans hvm5
    wbind (hG6.checkOwneds (bound_of_vm hvm64 hinit4)) with u6 s6' c6 hq6
    obtain ⟨rfl, hown3⟩ := hq6
    obtain ⟨s7, e7, hG7, hE7, hvm7⟩ := GInv.setOwners (fun v => { v with isInit := true })
      (fun x => ⟨rfl, rfl, rfl⟩) (gs.inits.map (·.2)) inits _ _ hG6 (bound_of_vm hvm64 hinit4) hown3
    refine Sim.step (m := forM' (setValueOwner s3.w.length fun v => { v with isInit := true }) inits) () s7 e7 ?_
    have hvm74 : s7.vm = ({ s3 with w := s3.w ++ [gc] } : St).vm := hvm7.trans hvm64
    wbind (hG7.checkInitEntries (bound_of_vm hvm74 hinit4) hnamed) with u7 s7x c7 hq7
    subst s7x
    wbind (hG7.checkNameds (bound_of_vm hvm74 hin4)) with u8 s7y c8 hq8
    subst s7y
    -- nodes
    have hE17 : TExt s1 s7 := hE4.trans (hE5.trans (hE6.trans hE7))
    have hnodes7 : All2 (fun n n' => NodeImg w0 lo n n' s7) gs.nodes nodes :=
      all2_imp (fun n n' h => NodeImg.stable n n' s1 s7 _ h hG7.t hE17) hnodes
    refine Sim.step (m := forM' (checkNodeFree s3.w.length) nodes) () s7 (checkNodeFrees_ok hnodes7) ?_
    have hno : All2 (fun n n' => NodeOut w0 n n' s7) gs.nodes nodes :=
      all2_imp (fun n n' h => by
        obtain ⟨ns0, ns', a, b, _, d, e⟩ := h
        exact ⟨ns0, ns', a, b, Nat.le_trans hlo d, e⟩) hnodes7
    wbind (hG7.setNodeGraphs s7 hno) with u9 s9 c9 hq9
    obtain ⟨hG9, hvm9, hlen9, hsame9⟩ := hq9
    refine Sim.pure ⟨?_, ?_, ?_, ?_⟩
    · exact hG9.t.congr rfl rfl (fun v => mine_contains _ _ _ _ v) (fun _ => rfl)
    · rw [hvm9, hvm74, hvm4]
    · rw [hlen9]; exact hE17.len
    · intro i ns hi hni
      rw [hsame9 i hni]
      exact hE17.nodes i ns hi

/-! ### `_clone_graph`, `clone_graph`, the entry point -/

theorem TExt.setPend (s : St) (pd : List Nat) : TExt s { s with pend := pd } :=
  ⟨⟨[], rfl⟩, Nat.le_refl _, fun _ _ h => h⟩

theorem sim_cloneGraphStep {allow : Bool} {rec : Nat → M Nat} {recW : Nat → Sc → WRes Sc}
    (hrec : ∀ g s A, TInv w0 s A → Sim (rec g) s (recW g A) (fun _ s' A' => Step w0 s s' A'))
    {s : St} {A : Sc} (hT : TInv w0 s A) (g : Nat) :
    Sim (cloneGraphStep allow rec g) s (wGraphStep w0 allow recW g A) (fun _ s' A' => Step w0 s s' A') := by
  unfold cloneGraphStep wGraphStep
  wbind (sim_readGraph hT g) with gs s1 gs0 hq
  obtain ⟨rfl, rfl, _, _⟩ := hq
  wbind (sim_mapM' (P := fun v b s => Bound v b s) (fun _ => True) (fun _ _ _ _ => trivial)
    (fun _ _ _ _ _ h hT' hE => h.stable hT' hE)
    (fun v s A hT _ => sim_cloneOrGetValue hT v) gs.inputs s1 A hT trivial) with inputs s2 A1 hq2
  wbind (sim_mapM' (P := fun v b s => Bound v b s) (fun _ => True) (fun _ _ _ _ => trivial)
    (fun _ _ _ _ _ h hT' hE => h.stable hT' hE)
    (fun v s A hT _ => sim_cloneOrGetValue hT v) (gs.inits.map (·.2)) s2 A1 hq2.1.1 trivial) with inits s3 A2 hq3
  wbind (sim_allOutputs hq3.1.1 gs.nodes) with outs s3x outs0 hq3x
  obtain ⟨rfl, rfl⟩ := hq3x
  refine Sim.step (m := pendAdd outs) () { s3x with pend := s3x.pend ++ outs } rfl ?_
  have hT3 : TInv w0 { s3x with pend := s3x.pend ++ outs } { A2 with pend := A2.pend ++ outs } := by
    have := hq3.1.1.setPend (s3x.pend ++ outs)
    have hp : s3x.pend = A2.pend := hq3.1.1.pend
    rw [hp] at this ⊢
    exact this
  have hE13 : TExt s1 { s3x with pend := s3x.pend ++ outs } :=
    hq2.1.2.trans (hq3.1.2.trans (TExt.setPend s3x _))
  wbind (sim_mapM' (P := fun n n' s => NodeImg w0 s1.w.length n n' s) (fun s => s1.w.length ≤ s.w.length)
    (fun _ _ h hE => Nat.le_trans h hE.len)
    (fun n n' s s' A' h hT' hE => NodeImg.stable n n' s s' A' h hT' hE)
    (fun n s A hT hI => (sim_cloneNode hrec hT n).mono (fun n' s' A' hq => by
      obtain ⟨q1, ns0, ns', a, b, c, d, e⟩ := hq
      exact ⟨q1, ns0, ns', a, b, c, Nat.le_trans hI d, e⟩))
    gs.nodes _ _ hT3 hE13.len) with nodes s4 A4 hq4
  have hE14 : TExt s1 s4 := hE13.trans hq4.1.2
  wbind (sim_getMapped hq4.1.1 gs.outputs) with outputs s4x u4 hq5
  obtain ⟨rfl, hout⟩ := hq5
  have hin4 := all2_bound_stable hq4.1.1 (hq3.1.2.trans ((TExt.setPend s3x _).trans hq4.1.2)) hq2.2
  have hinit4 := all2_bound_stable hq4.1.1 ((TExt.setPend s3x _).trans hq4.1.2) hq3.2
  refine (sim_mkGraph hq4.1.1 gs hT.len hin4 hout hinit4 hq4.2).mono ?_
  intro g' s5 A5 hq6
  obtain ⟨hT5, hvm5, hlen5, hnodes5⟩ := hq6
  refine ⟨hT5, ?_, Nat.le_trans hE14.len hlen5, ?_⟩
  · obtain ⟨ext, he⟩ := hE14.vm
    exact ⟨ext, by rw [hvm5, he]⟩
  · intro i ns hi
    apply hnodes5 i ns (hE14.nodes i ns hi)
    intro hmem
    obtain ⟨n, _, _, _, _, _, _, d, _⟩ := all2_mem_left hq4.2 i hmem
    have := lt_of_getElem? hi
    omega

theorem sim_guarded {body : M Nat} {s : St} {r : WRes Sc} {Q : Nat → St → Sc → Prop}
    (h : Sim body s r Q) : Sim (guarded body) s r Q := by
  cases r with
  | ok c =>
    obtain ⟨a, s', h1, h2⟩ := h
    exact ⟨a, s', by simp [guarded, onError, h1], h2⟩
  | err e =>
    have h1 : (body s).1 = .error e := h
    show (guarded body s).1 = _
    unfold guarded onError
    rcases hb : body s with ⟨x, s'⟩
    rw [hb] at h1
    simp only at h1
    subst h1
    rfl
  | irregular why => trivial

theorem sim_cloneGraph (allow : Bool) :
    ∀ (fuel g : Nat) (s : St) (A : Sc), TInv w0 s A →
      Sim (cloneGraph allow fuel g) s (wGraph w0 allow fuel g A) (fun _ s' A' => Step w0 s s' A')
  | 0, g, s, A, _ => by
    show ((fail Err.fuel : M Nat) s).1 = _
    rfl
  | f + 1, g, s, A, hT => by
    show Sim (guarded (cloneGraphStep allow (cloneGraph allow f) g)) s
      (wGraphStep w0 allow (wGraph w0 allow f) g A) _
    exact sim_guarded (sim_cloneGraphStep (fun g s A hT => sim_cloneGraph allow f g s A hT) hT g)

theorem TInv.init (w : World) : TInv w { w := w } {} := by
  refine ⟨Nat.le_refl _, fun i c0 h => ⟨c0, h, rfl⟩, rfl, List.nodup_nil, rfl, (fun p hp => by cases hp),
    (fun p hp => by cases hp), ?_, (fun v hv => by rcases hv with h | h <;> cases h)⟩
  intro i vs hi h
  simp only at h
  rw [List.getElem?_eq_none hi] at h
  cases h

/-- the walker's verdict decides the outcome of `Graph.clone` / `GraphView.clone` -/
theorem graphClone_verdict (fuel : Nat) (allow : Bool) (w : World) (g : Nat) :
    match cloneVerdict fuel allow w g with
    | .ok A => ∃ g' s', cloneGraph allow fuel g { w := w } = (.ok g', s') ∧
        run (graphClone fuel allow g) w = (.ok g', s'.w) ∧ TInv w s' A
    | .err e => (run (graphClone fuel allow g) w).1 = .error e
    | .irregular _ => True := by
  have h := sim_cloneGraph (w0 := w) allow fuel g { w := w } {} (TInv.init w)
  have e0 : ({ w := w, vm := [], pend := [], created := [] } : St) = { w := w } := rfl
  unfold cloneVerdict
  cases hv : wGraph w allow fuel g {} with
  | ok A =>
    rw [hv] at h
    obtain ⟨g', s', h1, h2, _⟩ := h
    refine ⟨g', s', h1, ?_, h2⟩
    simp only [run, graphClone, withFreshMap, e0, h1]
  | err e =>
    rw [hv] at h
    have h1 : (cloneGraph allow fuel g { w := w }).1 = .error e := h
    simp only [run, graphClone, withFreshMap, e0]
    rcases hc : cloneGraph allow fuel g { w := w } with ⟨x, s'⟩
    rw [hc] at h1
    simp only at h1 ⊢
    exact h1
  | irregular why => trivial

/-! ### `Function.clone` -/

theorem sim_readFunc {s : St} {A : Sc} (hT : TInv w0 s A) (i : Nat) :
    Sim (readFunc i) s (wFuncCell w0 i) (fun x s' x0 => s' = s ∧ x = x0) := by
  unfold wFuncCell wCell
  cases h : w0[i]? with
  | none => trivial
  | some c0 =>
    cases c0 with
    | val x => obtain ⟨vs, h1, _⟩ := hT.srcVal h; simp [Sim, WRes.bind, readFunc, h1]
    | func x => have := hT.src h (by intro v hv; cases hv); exact ⟨x, s, by simp [readFunc, this], rfl, rfl⟩
    | node x => have := hT.src h (by intro v hv; cases hv); simp [Sim, WRes.bind, readFunc, this]
    | graph x => have := hT.src h (by intro v hv; cases hv); simp [Sim, WRes.bind, readFunc, this]
    | type x => have := hT.src h (by intro v hv; cases hv); simp [Sim, WRes.bind, readFunc, this]
    | shape x => have := hT.src h (by intro v hv; cases hv); simp [Sim, WRes.bind, readFunc, this]
    | dict x => have := hT.src h (by intro v hv; cases hv); simp [Sim, WRes.bind, readFunc, this]
    | attr x => have := hT.src h (by intro v hv; cases hv); simp [Sim, WRes.bind, readFunc, this]
    | model x => have := hT.src h (by intro v hv; cases hv); simp [Sim, WRes.bind, readFunc, this]
    | tensor x => have := hT.src h (by intro v hv; cases hv); simp [Sim, WRes.bind, readFunc, this]

theorem run_withFreshMap_fst {α : Type} (m : M α) (w : World) :
    (run (withFreshMap m) w).1 = (m { w := w }).1 := by
  simp only [run, withFreshMap]

/-- the walker's verdict decides the outcome of `Function.clone` -/
theorem funcClone_verdict (fuel : Nat) (w : World) (f : Nat) :
    match funcVerdict fuel w f with
    | .ok _ => ∃ f' w', run (funcClone fuel f) w = (.ok f', w')
    | .err e => (run (funcClone fuel f) w).1 = .error e
    | .irregular _ => True := by
  have hrec : ∀ g s A, TInv w s A → Sim (cloneGraph false fuel g) s (wGraph w false fuel g A)
      (fun _ s' A' => Step w s s' A') := fun g s A hT => sim_cloneGraph false fuel g s A hT
  have hbody : Sim (do
        let fs ← readFunc f
        let g' ← cloneGraph false fuel fs.graph
        let attrs ← mapM' (fun ka => do
            let as ← readAttr ka.2
            cloneAttr (cloneGraph false fuel) as.name ka.2) fs.attrs
        alloc (.func { domain := fs.domain, name := fs.name, overload := fs.overload, graph := g',
                       attrs := dictOf attrs })) { w := w } (funcVerdict fuel w f) (fun _ _ _ => True) := by
    unfold funcVerdict
    wbind (sim_readFunc (TInv.init w) f) with fs s1 fs0 hq
    obtain ⟨rfl, rfl⟩ := hq
    wbind (hrec fs.graph _ _ (TInv.init w)) with g' s2 A1 hq2
    refine Sim.bindLast (sim_mapM' (P := fun _ _ _ => True) (fun _ => True) (fun _ _ _ _ => trivial)
      (fun _ _ _ _ _ _ _ _ => trivial)
      (fun (ka : String × Nat) s A hT _ => by
        wbind (sim_readAttr hT ka.2) with as s3 as0 hq3
        obtain ⟨rfl, rfl, _, _⟩ := hq3
        exact (sim_cloneAttr hrec hT as.name ka.2).mono (fun _ _ _ h => ⟨h, trivial⟩))
      fs.attrs s2 A1 hq2.1 trivial) ?_
    intro attrs s3 A3 _
    exact ⟨_, _, rfl, trivial⟩
  have e0 : ({ w := w, vm := [], pend := [], created := [] } : St) = { w := w } := rfl
  cases hv : funcVerdict fuel w f with
  | ok A =>
    rw [hv] at hbody
    obtain ⟨f', s', h1, _⟩ := hbody
    refine ⟨f', s'.w, ?_⟩
    simp only [run, funcClone, withFreshMap]
    rw [e0, h1]
  | err e =>
    rw [hv] at hbody
    unfold funcClone
    rw [run_withFreshMap_fst]
    exact hbody
  | irregular why => trivial

end
end Total
end IrVerif.Clone

/-
Locality of the remaining stream of the recursive iterator: it depends on the attributes of a node
only if that node is still to be resumed / yielded.  Runs of the innermost frames of a stack.
-/
import IrVerif.Lemmas.TraversalRun
namespace IrVerif.LinkedSet

/-- two worlds that differ at most in the attributes of node `v0` -/
structure AgreeOff (v0 : Nat) (w w' : TWorld) : Prop where
  sets : w'.sets = w.sets
  recf : w'.recf = w.recf
  dict : ∀ v, v ≠ v0 → w'.dictOf v = w.dictOf v

theorem AgreeOff.setOf {v0 : Nat} {w w' : TWorld} (h : AgreeOff v0 w w') (g : Nat) : w'.setOf g = w.setOf g := by
  simp [TWorld.setOf, h.sets]

theorem AgreeOff.recurse {v0 : Nat} {w w' : TWorld} (h : AgreeOff v0 w w') (v : Nat) : w'.recurse v = w.recurse v := by
  simp [TWorld.recurse, h.recf]

theorem AgreeOff.visit {v0 : Nat} {w w' : TWorld} (h : AgreeOff v0 w w') (d : Dir) (v : Nat) (hv : v ≠ v0) :
    w'.visit d v = w.visit d v := by
  simp [TWorld.visit, h.dict v hv]

theorem agreeOff_setAttr (w : TWorld) (v k : Nat) (a : AVal) : AgreeOff v w (w.setAttr v k a) :=
  ⟨rfl, rfl, fun v' hv' => dictOf_setDict_other' w v v' _ hv'⟩
where
  dictOf_setDict_other' (w : TWorld) (v v' : Nat) (dct : PyDict) (h : v' ≠ v) :
      (w.setDict v dct).dictOf v' = w.dictOf v' := by
    have : (v' == v) = false := by simpa using h
    simp [TWorld.setDict, TWorld.dictOf, List.lookup, this]

theorem flatMap_congr' {α β : Type} {f g : α → List β} : ∀ (l : List α), (∀ x ∈ l, f x = g x) → l.flatMap f = l.flatMap g
  | [], _ => rfl
  | x :: l, h => by
      simp only [List.flatMap_cons]
      rw [h x (by simp), flatMap_congr' l (fun y hy => h y (by simp [hy]))]

theorem agreeOff_delAttr (w : TWorld) (v k : Nat) : AgreeOff v w (w.delAttr v k).1 := by
  simp only [TWorld.delAttr]
  split
  · exact ⟨rfl, rfl, fun v' hv' => agreeOff_setAttr.dictOf_setDict_other' w v v' _ hv'⟩
  · exact ⟨rfl, rfl, fun _ _ => rfl⟩

theorem mem_tAfter {V : Nat → List Out} {w : TWorld} {d : Dir} {v h : Nat} {o : Out}
    (hr : w.recurse v = true) (hh : h ∈ w.visit d v) (ho : o ∈ V h) : o ∈ tAfter V w d v := by
  simp only [tAfter, hr, if_true, List.mem_append, List.mem_flatMap]
  exact Or.inr ⟨h, hh, ho⟩

theorem mem_tLoop_yield {V : Nat → List Out} {w : TWorld} {d : Dir} {g v : Nat} {nodes : List Nat}
    (hv : v ∈ nodes) : Out.yield g v ∈ tLoop V w d g nodes := by
  simp only [tLoop, List.mem_append, List.mem_flatMap]
  exact Or.inl ⟨v, hv, by simp⟩

theorem mem_tLoop_after {V : Nat → List Out} {w : TWorld} {d : Dir} {g v : Nat} {nodes : List Nat} {o : Out}
    (hv : v ∈ nodes) (ho : o ∈ tAfter V w d v) : o ∈ tLoop V w d g nodes := by
  simp only [tLoop, List.mem_append, List.mem_flatMap]
  exact Or.inl ⟨v, hv, by simp [ho]⟩

theorem tAfter_congr {V V' : Nat → List Out} {v0 : Nat} {w w' : TWorld} (h : AgreeOff v0 w w') (d : Dir) (v : Nat)
    (hv : v ≠ v0) (hV : w.recurse v = true → ∀ h ∈ w.visit d v, V' h = V h) :
    tAfter V' w' d v = tAfter V w d v := by
  simp only [tAfter, h.recf, h.recurse, h.visit d v hv]
  congr 1
  split
  · rename_i hr
    exact flatMap_congr' _ (fun x hx => hV hr x hx)
  · rfl

theorem tLoop_congr {V V' : Nat → List Out} {v0 : Nat} {w w' : TWorld} (h : AgreeOff v0 w w') (d : Dir) (g : Nat)
    (nodes : List Nat) (hn : ∀ v ∈ nodes, v ≠ v0 ∧ (w.recurse v = true → ∀ h ∈ w.visit d v, V' h = V h)) :
    tLoop V' w' d g nodes = tLoop V w d g nodes := by
  simp only [tLoop]
  congr 1
  apply flatMap_congr'
  intro v hv
  rw [tAfter_congr h d v (hn v hv).1 (hn v hv).2]

/-- a complete visit does not depend on the attributes of a node it does not yield -/
theorem tVisit_local {v0 : Nat} {w w' : TWorld} (h : AgreeOff v0 w w') (d : Dir) :
    ∀ (k g : Nat), (∀ g', Out.yield g' v0 ∉ tVisit w d k g) → tVisit w' d k g = tVisit w d k g
  | 0, _, _ => rfl
  | k + 1, g, hno => by
      simp only [tVisit, h.setOf]
      congr 2
      apply tLoop_congr h
      intro v hv
      have hin : ∀ o, o ∈ tLoop (tVisit w d k) w d g (rest (w.setOf g) d .notStarted) → o ∈ tVisit w d (k + 1) g := by
        intro o ho; simp [tVisit, ho]
      refine ⟨?_, ?_⟩
      · rintro rfl
        exact hno g (hin _ (mem_tLoop_yield hv))
      · intro hr h' hh'
        apply tVisit_local h d k h'
        intro g' hy
        exact hno g' (hin _ (mem_tLoop_after hv (mem_tAfter hr hh' hy)))

/-- what a frame still produces does not depend on the attributes of a node that the frame is not
    going to resume or yield, at its own level or in a subgraph it is going to visit -/
theorem tFrameSpec_local {v0 : Nat} {w w' : TWorld} (h : AgreeOff v0 w w') (d : Dir) (k : Nat) (fr : TFrame)
    (hown : v0 ∉ fr.ownNodes w d)
    (hno : ∀ g', Out.yield g' v0 ∉ tFrameSpec (tVisit w d k) w d fr) :
    tFrameSpec (tVisit w' d k) w' d fr = tFrameSpec (tVisit w d k) w d fr := by
  have hsub : ∀ g, (∀ o ∈ tVisit w d k g, o ∈ tFrameSpec (tVisit w d k) w d fr) →
      tVisit w' d k g = tVisit w d k g :=
    fun g hg => tVisit_local h d k g (fun g' hy => hno g' (hg _ hy))
  have hloop : tLoop (tVisit w' d k) w' d fr.g (rest (w'.setOf fr.g) d fr.c) =
      tLoop (tVisit w d k) w d fr.g (rest (w.setOf fr.g) d fr.c) := by
    rw [h.setOf]
    apply tLoop_congr h
    intro v hv
    refine ⟨?_, ?_⟩
    · rintro rfl; exact hown (by simp [TFrame.ownNodes, hv])
    · intro hr h' hh'
      apply hsub
      intro o ho
      simp only [tFrameSpec, List.mem_append]
      exact Or.inr (mem_tLoop_after hv (mem_tAfter hr hh' ho))
  unfold tFrameSpec
  rw [hloop]
  congr 2
  cases hm : fr.mode with
  | loop => rfl
  | last v =>
    simp only
    have hv : v ≠ v0 := by rintro rfl; exact hown (by simp [TFrame.ownNodes, hm])
    apply tAfter_congr h d v hv
    intro hr h' hh'
    apply hsub
    intro o ho
    simp only [tFrameSpec, hm, List.mem_append]
    exact Or.inl (Or.inl (mem_tAfter hr hh' ho))
  | expand v it ps =>
    simp only
    have hv : v ≠ v0 := by rintro rfl; exact hown (by simp [TFrame.ownNodes, hm])
    rw [h.dict v hv]
    congr 1
    · apply flatMap_congr'
      intro h' hh'
      apply hsub
      intro o ho
      simp only [tFrameSpec, hm, List.mem_append, List.mem_flatMap]
      exact Or.inl (Or.inl (Or.inl ⟨h', hh', ho⟩))
    · apply flatMap_congr'
      intro e he
      apply flatMap_congr'
      intro h' hh'
      apply hsub
      intro o ho
      simp only [tFrameSpec, hm, List.mem_append, List.mem_flatMap]
      exact Or.inl (Or.inl (Or.inr ⟨e, he, h', hh', ho⟩))

/-! ### the innermost frames of a stack -/

/-- what the frames `top` produce until control returns to the frames `below` them -/
def tPrefixSpec (V : Nat → List Out) (w : TWorld) (d : Dir) (below : List TFrame) : List TFrame → List Out
  | [] => []
  | fr :: t => tFrameSpec V w d fr ++ tPop (t ++ below) fr.g ++ tPrefixSpec V w d below t

theorem tsteps_prefix {w : TWorld} {d : Dir} (hw : TWorldWF w) (ha : w.acyclic d = true) (below : List TFrame) :
    ∀ (top : List TFrame), TStackOK w top → (∀ fr ∈ top, fr.synced w = true) →
      TSteps w d (top ++ below) (tPrefixSpec (tVisit w d (w.sets.length + 1)) w d below top) below
  | [], _, _ => .refl _
  | fr :: t, ok, hs => by
      have hV : ∀ h', w.hgt d h' < w.sets.length + 1 →
          tVisit w d (w.sets.length + 1) h' = Out.enter h' :: tBody w d (w.sets.length + 1) h' :=
        fun h' _ => tVisit_eq w d _ h' (by omega)
      have all : ∀ h', w.hgt d h' < w.sets.length + 1 := fun h' => Nat.lt_succ_of_le (thgt_le w d h')
      have s1 := tsteps_frame (P := fun h' => w.hgt d h' < w.sets.length + 1) hw hV
        (fun h fr' rest hh => tsteps_visit hw ha _ h fr' rest hh) _
        fr (t ++ below) (Nat.lt_succ_self _) (ok fr (by simp)) (hs fr (by simp))
        ⟨fun _ _ _ h' _ => all h', fun _ _ _ _ => ⟨fun h' _ => all h', fun _ _ h' _ => all h'⟩,
         fun _ _ _ h' _ => all h'⟩
      have s2 := tsteps_prefix hw ha below t (fun x hx => ok x (by simp [hx])) (fun x hx => hs x (by simp [hx]))
      have := s1.trans s2
      simpa [tPrefixSpec, List.append_assoc] using this

end IrVerif.LinkedSet

/-
C15 part B+: the induction over the traversal for an arbitrary name generator (`runTrX gen`), the analogue of
`Lemmas/NamesScope.lean`.  New with respect to the default generator: the no-exception argument needs the scoping
rule (`VisH`: every already-seen initializer of the graph of a value that is about to be named is visible), which
is derived from `scopedB` of the part of the tree that is still to be walked (`Pend`: the graphs entered later).
-/
import IrVerif.Lemmas.NamesGenStep
namespace IrVerif.Names

variable {gen : NameGen}

/-- names of values that were already seen do not change -/
structure FrameX (st st' : FixStX) : Prop where
  names : ∀ u ∈ st.seen, st'.vname u = st.vname u
  seen : ∀ u ∈ st.seen, u ∈ st'.seen

theorem FrameX.refl (st : FixStX) : FrameX st st := ⟨fun _ _ => rfl, fun _ h => h⟩
theorem FrameX.trans {a b c : FixStX} (h1 : FrameX a b) (h2 : FrameX b c) : FrameX a c :=
  ⟨fun u hu => (h2.names u (h1.seen u hu)).trans (h1.names u hu), fun u hu => h2.seen u (h1.seen u hu)⟩

theorem ScopeOKX.frame {c : Cfg} {st st' : FixStX} {L : List Nat} (h : ScopeOKX c st L) (f : FrameX st st') :
    ScopeOKX c st' L := by
  have e : ∀ u ∈ L, st'.vname u = st.vname u := fun u hu => f.names u (h.seen u hu).1
  refine ⟨?_, ?_, ?_, ?_⟩
  · intro a ha b hb hab; rw [e a ha, e b hb]; exact h.inj a ha b hb hab
  · intro u hu; rw [e u hu]; exact ⟨f.seen u (h.seen u hu).1, (h.seen u hu).2⟩
  · intro v hv h1 h2; rw [e v hv]; exact h.kept v hv h1 h2
  · exact h.first.fin_eq e

theorem ScopeOKX.congr {c : Cfg} {st : FixStX} {L L' : List Nat} (h : ScopeOKX c st L) (e : ∀ x, x ∈ L' ↔ x ∈ L)
    (ho : ∀ v ∈ L', ∀ u ∈ before v L, u ∈ before v L' ∨ c.orig u ≠ c.orig v) :
    ScopeOKX c st L' :=
  ⟨fun a ha b hb => h.inj a ((e a).mp ha) b ((e b).mp hb), fun u hu => h.seen u ((e u).mp hu),
   fun v hv h1 h2 => h.kept v ((e v).mp hv) h1 (fun u hu => h2 u ((e u).mpr hu)),
   h.first.transfer (fun v hv => (e v).mp hv) ho⟩

theorem GoodX.congr {c : Cfg} {st : FixStX} {V V' : List Nat} (h : GoodX c st V) (e : ∀ x, x ∈ V' ↔ x ∈ V)
    (ho : ∀ v ∈ V', ∀ u ∈ before v V, u ∈ before v V' ∨ c.orig u ≠ c.orig v) :
    GoodX c st V' :=
  { toScopeOKX := h.toScopeOKX.congr e ho
    top_iff := fun s => (h.top_iff s).trans
      ⟨fun ⟨u, hu, hs⟩ => ⟨u, (e u).mpr hu, hs⟩, fun ⟨u, hu, hs⟩ => ⟨u, (e u).mp hu, hs⟩⟩ }

theorem PVG.frame {c : Cfg} {st st' : FixStX} {v : Nat} (h : PVG c st v st') : FrameX st st' := by
  refine ⟨?_, fun u hu => (h.seen_iff u).mpr (Or.inl hu)⟩
  intro u hu
  by_cases huv : u = v
  · subst huv; rw [h.noop hu]
  · exact h.others u huv

theorem PVG.tail {c : Cfg} {st st' : FixStX} {v : Nat} (h : PVG c st v st') : st'.vstack.tail = st.vstack.tail := by
  by_cases hv : v ∈ st.seen
  · rw [h.noop hv]
  · obtain ⟨n, _, _, _, e, _⟩ := h.fresh hv
    rw [e]; rfl

/-- the visibility hypothesis for a list of values about to be processed: every already-seen initializer of the
graph of a not yet seen value of the list is visible -/
def VisH (c : Cfg) (vs S V : List Nat) : Prop :=
  ∀ v ∈ vs, v ∉ S → ∀ g u, c.io v = some g → c.io u = some g → u ∈ S → u ∈ V

theorem VisH.ext {c : Cfg} {vs vs' S V : List Nat} (E : List Nat) (h : VisH c vs S V) (hs : ∀ v ∈ vs', v ∈ vs) :
    VisH c vs' (S ++ E) (V ++ E) := by
  intro v hv hnS g u h1 h2 hu
  simp only [List.mem_append, not_or] at hnS hu ⊢
  rcases hu with hu | hu
  · exact Or.inl (h v (hs v hv) hnS.1 g u h1 h2 hu)
  · exact Or.inr hu

/-- one `_process_value` under the scoping rule -/
theorem processValueX_Good (hgen : gen.NonEmpty) {c : Cfg} (hc : c.OK) {st : FixStX} (inv : TInvG c st) {V : List Nat}
    (good : GoodX c st V) {v : Nat} (hC : c.C v) (hsc : v ∈ st.seen → v ∈ V) (hvis : VisAt c st V v) :
    GoodX c (processValueX gen st v) (V ++ [v]) := by
  have pv := processValueX_PVG hgen hc inv good hC hvis
  by_cases hv : v ∈ st.seen
  · rw [pv.noop hv]
    refine good.congr (fun x => by simp only [List.mem_append, List.mem_singleton]; exact ⟨fun h => h.elim id (fun e => e ▸ hsc hv), Or.inl⟩) ?_
    intro x hx u hu
    have hxV : x ∈ V := (List.mem_append.mp hx).elim id (fun e => by simp at e; exact e ▸ hsc hv)
    rw [before_append_mem _ hxV]; exact Or.inl hu
  · obtain ⟨n, hn, hnne, hntop, hstk, hnres, hnkeep⟩ := pv.fresh hv
    have hvV : v ∉ V := fun h => hv (good.seen v h).1
    have hoth : ∀ u ∈ V, (processValueX gen st v).vname u = st.vname u :=
      fun u hu => pv.others u (fun e => hvV (e ▸ hu))
    have htop : topOf (processValueX gen st v).vstack = n :: topOf st.vstack := by rw [hstk]; rfl
    have hnew : truthy (c.orig v) = true → (∀ u ∈ V, c.orig u ≠ c.orig v) → (processValueX gen st v).vname v = c.orig v := by
      intro h1 h2
      have horig : st.vname v = c.orig v := inv.unseen v hv
      obtain ⟨s, hs, hsne⟩ := truthy_iff.mp h1
      have hs' : st.vname v = some s := horig.trans hs
      have hnot : s ∉ topOf st.vstack := by
        intro hin
        obtain ⟨u, hu, hus⟩ := (good.top_iff s).mp hin
        rcases inv.j1 u with h | ⟨s', e1, e2⟩
        · exact h2 u hu (by rw [← h, hus, hs])
        · rw [hus] at e1; cases e1
          exact e2 (hc.res v s hC hs hsne)
      rw [hn, hnkeep s hs' hsne hnot, hs]
    refine { inj := ?_, seen := ?_, kept := ?_, first := ?_, top_iff := ?_ }
    · have key : ∀ a ∈ V, (processValueX gen st v).vname a ≠ (processValueX gen st v).vname v := by
        intro a ha e
        rw [hoth a ha, hn] at e
        exact hntop ((good.top_iff n).mpr ⟨a, ha, e⟩)
      intro a ha b hb hab
      simp only [List.mem_append, List.mem_singleton] at ha hb
      rcases ha with ha | rfl <;> rcases hb with hb | rfl
      · rw [hoth a ha, hoth b hb]; exact good.inj a ha b hb hab
      · exact key a ha
      · exact fun e => key b hb e.symm
      · exact absurd rfl hab
    · intro u hu
      simp only [List.mem_append, List.mem_singleton] at hu
      rcases hu with hu | rfl
      · rw [hoth u hu]; exact ⟨(pv.seen_iff u).mpr (Or.inl (good.seen u hu).1), (good.seen u hu).2⟩
      · exact ⟨(pv.seen_iff u).mpr (Or.inr rfl), truthy_iff.mpr ⟨n, hn, hnne⟩⟩
    · intro x hx h1 h2
      simp only [List.mem_append, List.mem_singleton] at hx
      rcases hx with hx | rfl
      · rw [hoth x hx]
        exact good.kept x hx h1 (fun u hu => h2 u (List.mem_append_left _ hu))
      · exact hnew h1 (fun u hu => h2 u (List.mem_append_left _ hu) (fun e => hvV (e ▸ hu)))
    · exact (good.first.fin_eq hoth).snoc hvV hnew
    · intro s
      rw [htop, List.mem_cons]
      simp only [List.mem_append, List.mem_singleton]
      constructor
      · rintro (rfl | h)
        · exact ⟨v, Or.inr rfl, hn⟩
        · obtain ⟨u, hu, hus⟩ := (good.top_iff s).mp h
          exact ⟨u, Or.inl hu, by rw [hoth u hu]; exact hus⟩
      · rintro ⟨u, hu | rfl, hus⟩
        · exact Or.inr ((good.top_iff s).mpr ⟨u, hu, by rw [← hoth u hu]; exact hus⟩)
        · rw [hn] at hus; exact Or.inl (Option.some.inj hus).symm

/-- what a run of steps on one level guarantees -/
structure LvlX (c : Cfg) (st st' : FixStX) (V' : List Nat) (S' : List Nat) : Prop where
  inv : TInvG c st'
  good : GoodX c st' V'
  seenEq : ∀ x, x ∈ st'.seen ↔ x ∈ S'
  frame : FrameX st st'

theorem processValuesX_Lvl (hgen : gen.NonEmpty) {c : Cfg} (hc : c.OK) : ∀ (vs : List Nat) {st : FixStX} {V S : List Nat},
    TInvG c st → GoodX c st V → (∀ x, x ∈ st.seen ↔ x ∈ S) → (∀ v ∈ vs, c.C v) →
    (∀ v ∈ vs, v ∈ S → v ∈ V) → VisH c vs S V →
    LvlX c st (processValuesX gen st vs) (V ++ vs) (S ++ vs) ∧ (processValuesX gen st vs).vstack.tail = st.vstack.tail
  | [], st, V, S, inv, good, hS, _, _, _ => by
    simp only [processValuesX, List.foldl_nil, List.append_nil]
    exact ⟨⟨inv, good, hS, FrameX.refl st⟩, trivial⟩
  | v :: vs, st, V, S, inv, good, hS, hC, hsc, hvis => by
    have hva : VisAt c st V v := fun hv g u h1 h2 hus =>
      hvis v List.mem_cons_self (fun h => hv ((hS v).mpr h)) g u h1 h2 ((hS u).mp hus)
    have pv := processValueX_PVG hgen hc inv good (hC v List.mem_cons_self) hva
    have g1 := processValueX_Good hgen hc inv good (hC v List.mem_cons_self)
      (fun h => hsc v List.mem_cons_self ((hS v).mp h)) hva
    have hS1 : ∀ x, x ∈ (processValueX gen st v).seen ↔ x ∈ S ++ [v] := by
      intro x; rw [pv.seen_iff x, hS x]; simp
    have ih := processValuesX_Lvl hgen hc vs pv.inv g1 hS1 (fun u hu => hC u (List.mem_cons_of_mem _ hu))
      (fun u hu h => by
        simp only [List.mem_append, List.mem_singleton] at h ⊢
        rcases h with h | h
        · exact Or.inl (hsc u (List.mem_cons_of_mem _ hu) h)
        · exact Or.inr h)
      (hvis.ext [v] (fun u hu => List.mem_cons_of_mem _ hu))
    have e : processValuesX gen st (v :: vs) = processValuesX gen (processValueX gen st v) vs := by
      simp [processValuesX]
    rw [e]
    refine ⟨⟨ih.1.inv, ?_, ?_, pv.frame.trans ih.1.frame⟩, ih.2.trans pv.tail⟩
    · simpa [List.append_assoc] using ih.1.good
    · simpa [List.append_assoc] using ih.1.seenEq


/-! ### steps that do not touch values -/

/-- two states that agree on everything values are concerned with -/
structure VEqX (st st' : FixStX) : Prop where
  vname : st'.vname = st.vname
  initOf : st'.initOf = st.initOf
  dicts : st'.dicts = st.dicts
  seen : st'.seen = st.seen
  vcnt : st'.vcnt = st.vcnt
  resV : st'.resV = st.resV
  raised : st'.raised = st.raised
  frozen : st'.frozen = st.frozen
  constOf : st'.constOf = st.constOf

theorem TInvG.of_VEqX {c : Cfg} {st st' : FixStX} (h : TInvG c st) (e : VEqX st st') : TInvG c st' :=
  ⟨e.raised ▸ h.nr, h.ok.of_eq e.vname e.initOf e.dicts, e.initOf ▸ h.io, e.resV ▸ h.res,
   fun u => by rw [e.vname]; exact h.j1 u, fun u hu => by rw [e.vname]; exact h.unseen u (e.seen ▸ hu),
   fun u hu => by rw [e.vname]; exact h.outside u hu, fun v t => by rw [e.frozen, e.constOf]; exact h.nofz v t⟩

theorem ScopeOKX.of_VEqX {c : Cfg} {st st' : FixStX} {L : List Nat} (h : ScopeOKX c st L) (e : VEqX st st') :
    ScopeOKX c st' L :=
  ⟨fun a ha b hb hab => by rw [e.vname]; exact h.inj a ha b hb hab,
   fun u hu => by rw [e.vname, e.seen]; exact h.seen u hu,
   fun v hv h1 h2 => by rw [e.vname]; exact h.kept v hv h1 h2,
   by rw [e.vname]; exact h.first⟩

theorem GoodX.of_VEqX {c : Cfg} {st st' : FixStX} {V : List Nat} (h : GoodX c st V) (e : VEqX st st')
    (et : topOf st'.vstack = topOf st.vstack) : GoodX c st' V :=
  { toScopeOKX := h.toScopeOKX.of_VEqX e
    top_iff := fun s => by rw [et, e.vname]; exact h.top_iff s }

theorem FrameX.of_VEqX {st st' : FixStX} (e : VEqX st st') : FrameX st st' :=
  ⟨fun u _ => by rw [e.vname], fun u hu => by rw [e.seen]; exact hu⟩

theorem fixNodeNameX_VEq {st : FixStX} (n : Nat) :
    VEqX st (fixNodeNameX gen st n) ∧ (fixNodeNameX gen st n).vstack = st.vstack := by
  unfold fixNodeNameX
  split
  · exact ⟨⟨rfl, rfl, rfl, rfl, rfl, rfl, rfl, rfl, rfl⟩, rfl⟩
  · dsimp only
    split
    · exact ⟨⟨rfl, rfl, rfl, rfl, rfl, rfl, rfl, rfl, rfl⟩, rfl⟩
    · split <;> exact ⟨⟨rfl, rfl, rfl, rfl, rfl, rfl, rfl, rfl, rfl⟩, rfl⟩

/-! ### entering a graph -/

/-- the push of `enter_graph` -/
def pushScopeX (st : FixStX) : FixStX :=
  { st with vstack := topOf st.vstack :: st.vstack, nstack := [] :: st.nstack }

theorem enterGraphX_eq {st : FixStX} (h : st.raised = false) (g : Nat) (isG : Bool) (ins outs bouts : List Nat) :
    enterGraphX gen st g isG ins outs bouts =
      processValuesX gen
        (if isG = true then
          processValuesX gen (processValuesX gen (processValuesX gen (pushScopeX st) ins) outs)
            (((processValuesX gen (processValuesX gen (pushScopeX st) ins) outs).dicts g).map (·.2))
        else processValuesX gen (processValuesX gen (pushScopeX st) ins) outs) bouts := by
  unfold enterGraphX
  rw [if_neg (by simp [h])]
  rfl

theorem enterGraphX_Lvl (hgen : gen.NonEmpty) {c : Cfg} (hc : c.OK) (iv : Nat → List Nat) (hiv : ∀ g u, u ∈ iv g ↔ c.io u = some g)
    {st : FixStX} {V S : List Nat} (inv : TInvG c st) (good : GoodX c st V) (hS : ∀ x, x ∈ st.seen ↔ x ∈ S)
    (g : Nat) (isG : Bool) (ins outs bouts : List Nat)
    (hC1 : ∀ v ∈ ins ++ outs ++ bouts, c.C v) (hC2 : isG = true → ∀ u, c.io u = some g → c.C u)
    (hsc : ∀ v ∈ gvals iv g isG ins outs bouts, v ∈ S → v ∈ V) (hvis : VisH c (gvals iv g isG ins outs bouts) S V) :
    LvlX c st (enterGraphX gen st g isG ins outs bouts) (V ++ gvals iv g isG ins outs bouts) (S ++ gvals iv g isG ins outs bouts)
    ∧ (enterGraphX gen st g isG ins outs bouts).vstack.tail = st.vstack := by
  rw [enterGraphX_eq inv.nr]
  -- the push
  generalize hst0 : pushScopeX st = st0
  have e0 : VEqX st st0 := by subst hst0; exact ⟨rfl, rfl, rfl, rfl, rfl, rfl, rfl, rfl, rfl⟩
  have etop : topOf st0.vstack = topOf st.vstack := by subst hst0; rfl
  have etail : st0.vstack.tail = st.vstack := by subst hst0; rfl
  have inv0 : TInvG c st0 := inv.of_VEqX e0
  have good0 : GoodX c st0 V := good.of_VEqX e0 etop
  have hS0 : ∀ x, x ∈ st0.seen ↔ x ∈ S := by rw [e0.seen]; exact hS
  have hg : ∀ v, v ∈ gvals iv g isG ins outs bouts ↔ (v ∈ ins ∨ v ∈ outs ∨ (isG = true ∧ v ∈ iv g) ∨ v ∈ bouts) := by
    intro v; unfold gvals; cases isG <;> simp
  -- inputs
  obtain ⟨l1, t1⟩ := processValuesX_Lvl hgen hc ins inv0 good0 hS0
    (fun v hv => hC1 v (List.mem_append_left _ (List.mem_append_left _ hv)))
    (fun v hv h => hsc v ((hg v).mpr (Or.inl hv)) h)
    (fun v hv => hvis v ((hg v).mpr (Or.inl hv)))
  -- outputs
  obtain ⟨l2, t2⟩ := processValuesX_Lvl hgen hc outs l1.inv l1.good l1.seenEq
    (fun v hv => hC1 v (List.mem_append_left _ (List.mem_append_right _ hv)))
    (fun v hv h => by
      simp only [List.mem_append] at h ⊢
      exact h.elim (fun h => Or.inl (hsc v ((hg v).mpr (Or.inr (Or.inl hv))) h)) Or.inr)
    (hvis.ext ins (fun v hv => (hg v).mpr (Or.inr (Or.inl hv))))
  -- initializers (a snapshot read now), uniformly for both cases of `isG`
  have step3 : ∃ X : List Nat, (∀ x, x ∈ X ↔ (isG = true ∧ x ∈ iv g)) ∧
      LvlX c (processValuesX gen (processValuesX gen st0 ins) outs)
        (if isG = true then
          processValuesX gen (processValuesX gen (processValuesX gen st0 ins) outs)
            (((processValuesX gen (processValuesX gen st0 ins) outs).dicts g).map (·.2))
        else processValuesX gen (processValuesX gen st0 ins) outs) (V ++ ins ++ outs ++ X) (S ++ ins ++ outs ++ X)
      ∧ (if isG = true then
          processValuesX gen (processValuesX gen (processValuesX gen st0 ins) outs)
            (((processValuesX gen (processValuesX gen st0 ins) outs).dicts g).map (·.2))
        else processValuesX gen (processValuesX gen st0 ins) outs).vstack.tail = (processValuesX gen (processValuesX gen st0 ins) outs).vstack.tail := by
    cases isG with
    | false =>
      refine ⟨[], fun x => by simp, ?_, rfl⟩
      simp only [Bool.false_eq_true, if_false, List.append_nil]
      exact ⟨l2.inv, l2.good, l2.seenEq, FrameX.refl _⟩
    | true =>
      simp only [if_true]
      have hdict : ∀ u, u ∈ ((processValuesX gen (processValuesX gen st0 ins) outs).dicts g).map (·.2) ↔ u ∈ iv g := by
        intro u
        rw [l2.inv.ok.mem_iff g u, hiv g u, l2.inv.io]
      obtain ⟨l3, t3⟩ := processValuesX_Lvl hgen hc (((processValuesX gen (processValuesX gen st0 ins) outs).dicts g).map (·.2))
        l2.inv l2.good l2.seenEq (fun v hv => hC2 rfl v ((hiv g v).mp ((hdict v).mp hv)))
        (fun v hv h => by
          simp only [List.mem_append] at h ⊢
          rcases h with (h | h) | h
          · exact Or.inl (Or.inl (hsc v ((hg v).mpr (Or.inr (Or.inr (Or.inl ⟨rfl, (hdict v).mp hv⟩)))) h))
          · exact Or.inl (Or.inr h)
          · exact Or.inr h)
        (by
          have := hvis.ext (ins ++ outs) (vs' := ((processValuesX gen (processValuesX gen st0 ins) outs).dicts g).map (·.2))
            (fun v hv => (hg v).mpr (Or.inr (Or.inr (Or.inl ⟨rfl, (hdict v).mp hv⟩))))
          simpa [List.append_assoc] using this)
      exact ⟨_, fun x => by rw [hdict x]; simp, l3, t3⟩
  obtain ⟨X, hX, l3, t3⟩ := step3
  -- the outputs of the graph's own nodes
  obtain ⟨l4, t4⟩ := processValuesX_Lvl hgen hc bouts l3.inv l3.good l3.seenEq
    (fun v hv => hC1 v (List.mem_append_right _ hv))
    (fun v hv h => by
      simp only [List.mem_append] at h ⊢
      rcases h with ((h | h) | h) | h
      · exact Or.inl (Or.inl (Or.inl (hsc v ((hg v).mpr (Or.inr (Or.inr (Or.inr hv)))) h)))
      · exact Or.inl (Or.inl (Or.inr h))
      · exact Or.inl (Or.inr h)
      · exact Or.inr h)
    (by
      have := hvis.ext (ins ++ outs ++ X) (vs' := bouts) (fun v hv => (hg v).mpr (Or.inr (Or.inr (Or.inr hv))))
      simpa [List.append_assoc] using this)
  have hY : ∀ x, x ∈ X ↔ x ∈ (if isG = true then iv g else []) := by
    intro x; rw [hX x]; cases isG <;> simp
  have hlist : V ++ gvals iv g isG ins outs bouts = (V ++ ins ++ outs) ++ (if isG = true then iv g else []) ++ bouts := by
    simp [gvals, List.append_assoc]
  refine ⟨⟨l4.inv, l4.good.congr ?_ ?_, ?_, (FrameX.of_VEqX e0).trans (l1.frame.trans (l2.frame.trans (l3.frame.trans l4.frame)))⟩, ?_⟩
  · intro x; simp only [List.mem_append, hg x, hX x, or_assoc]
  · -- the initializers were visited in dictionary order at that moment; different initializers of one graph
    -- had different names, so their relative order does not matter
    intro x _ u hu
    rw [hlist]
    rcases before_seg hY hu with h | ⟨h1, h2, h3⟩
    · exact Or.inl h
    · exact Or.inr (fun e => h3 (hc.inj g u x ((hiv g u).mp ((hX u).mp h1).2) ((hiv g x).mp ((hX x).mp h2).2) e))
  · intro x; rw [l4.seenEq x]; simp only [List.mem_append, hg x, hX x, or_assoc]
  · rw [t4, t3, t2, t1, etail]

/-! ### leaving a graph; the traversal -/

theorem exitGraphX_eq {st : FixStX} (h : st.raised = false) :
    exitGraphX st = { st with vstack := st.vstack.tail, nstack := st.nstack.tail } := by
  unfold exitGraphX
  rw [if_neg (by simp [h])]

theorem exitGraphX_VEq {st : FixStX} (h : st.raised = false) :
    VEqX st (exitGraphX st) ∧ (exitGraphX st).vstack = st.vstack.tail := by
  rw [exitGraphX_eq h]
  exact ⟨⟨rfl, rfl, rfl, rfl, rfl, rfl, rfl, rfl, rfl⟩, rfl⟩

theorem VEqX.trans {a b c : FixStX} (h1 : VEqX a b) (h2 : VEqX b c) : VEqX a c :=
  ⟨h2.vname.trans h1.vname, h2.initOf.trans h1.initOf, h2.dicts.trans h1.dicts, h2.seen.trans h1.seen,
   h2.vcnt.trans h1.vcnt, h2.resV.trans h1.resV, h2.raised.trans h1.raised, h2.frozen.trans h1.frozen, h2.constOf.trans h1.constOf⟩


/-- what the induction knows about the part of the tree that is walked *after* `t`: `Pend g` = the graph `g` is
entered later; `vis` = an initializer of a pending graph that has been seen by the end of `t` is visible then;
`cov` = the graph of every initializer not yet seen is under `t` or pending -/
structure Fut (c : Cfg) (iv : Nat → List Nat) (t : Tr) (S V : List Nat) (Pend : Nat → Prop) : Prop where
  vis : ∀ g, Pend g → ∀ u, c.io u = some g → u ∈ seenAfter iv t S → u ∈ bodyVis t V
  cov : ∀ v, c.C v → v ∉ S → ∀ g, c.io v = some g → g ∈ graphsOf t ∨ Pend g

/-- the visibility hypothesis of the naming step, from the scoping rule of what is still to be walked -/
theorem Fut.visH {c : Cfg} {iv : Nat → List Nat} (hiv : ∀ g u, u ∈ iv g ↔ c.io u = some g) {t : Tr} {S V : List Nat}
    {Pend : Nat → Prop} (f : Fut c iv t S V Pend) (hsc : scopedB iv t S V = true) (vs : List Nat) (hC : ∀ v ∈ vs, c.C v) :
    VisH c vs S V := by
  intro v hv hnS g u h1 h2 hu
  rcases f.cov v (hC v hv) hnS g h1 with hg | hg
  · exact scoped_graph_vis iv t S V g u hsc hg ((hiv g u).mpr h2) hu
  · exact scoped_vis_back iv t S V u hsc hu (f.vis g hg u h2 (seenAfter_mono iv t S u hu))

/-- **the induction over the traversal** for an arbitrary generator: under the scoping rule every step keeps the
invariant (in particular nothing raises), and every graph that is left satisfies the postcondition on its list of
visible values. -/
theorem runTrX_Lvl (hgen : gen.NonEmpty) {c : Cfg} (hc : c.OK) (iv : Nat → List Nat) (hiv : ∀ g u, u ∈ iv g ↔ c.io u = some g) :
    ∀ (t : Tr) {st : FixStX} {V S : List Nat} {Pend : Nat → Prop}, TInvG c st → GoodX c st V → (∀ x, x ∈ st.seen ↔ x ∈ S) →
      HC c t → scopedB iv t S V = true → Fut c iv t S V Pend →
      LvlX c st (runTrX gen t st) (bodyVis t V) (seenAfter iv t S)
      ∧ (runTrX gen t st).vstack.tail = st.vstack.tail
      ∧ ∀ L ∈ allScopes iv t V, ScopeOKX c (runTrX gen t st) L := by
  intro t
  induction t with
  | nil =>
    intro st V S Pend inv good hS _ _ _
    exact ⟨⟨inv, good, hS, FrameX.refl st⟩, rfl, fun L hL => by simp [allScopes] at hL⟩
  | node n ins outs subs rest ihs ihr =>
    intro st V S Pend inv good hS hC hsc0 fut
    obtain ⟨hC1, hCs, hCr⟩ := hC.node
    have hsc := hsc0
    simp only [scopedB, Bool.and_eq_true] at hsc
    obtain ⟨⟨hsc1, hsc2⟩, hsc3⟩ := hsc
    have hvis0 := fut.visH hiv hsc0 (nodeVals ins outs) hC1
    -- what the two recursive calls know about their futures
    have fut1 : Fut c iv subs (S ++ nodeVals ins outs) (V ++ nodeVals ins outs) (fun g => Pend g ∨ g ∈ graphsOf rest) := by
      constructor
      · intro g hg u hu hin
        rcases hg with hg | hg
        · have := fut.vis g hg u hu (by simp only [seenAfter]; exact seenAfter_mono iv rest _ u hin)
          simp only [bodyVis] at this
          exact scoped_vis_back iv rest _ _ u hsc3 hin this
        · exact scoped_graph_vis iv rest _ _ g u hsc3 hg ((hiv g u).mpr hu) hin
      · intro v hCv hnS g hg
        have hnS' : v ∉ S := fun h => hnS (List.mem_append_left _ h)
        rcases fut.cov v hCv hnS' g hg with h | h
        · simp only [graphsOf, List.mem_append] at h
          rcases h with h | h
          · exact Or.inl h
          · exact Or.inr (Or.inr h)
        · exact Or.inr (Or.inl h)
    have fut2 : Fut c iv rest (seenAfter iv subs (S ++ nodeVals ins outs)) (bodyVis subs (V ++ nodeVals ins outs)) Pend := by
      constructor
      · intro g hg u hu hin
        have := fut.vis g hg u hu (by simpa only [seenAfter] using hin)
        simpa only [bodyVis] using this
      · intro v hCv hnS g hg
        have hnS' : v ∉ S := fun h => hnS (seenAfter_mono iv subs _ v (List.mem_append_left _ h))
        rcases fut.cov v hCv hnS' g hg with h | h
        · simp only [graphsOf, List.mem_append] at h
          rcases h with h | h
          · exact absurd (graph_inits_seen iv subs _ g v h ((hiv g v).mpr hg)) hnS
          · exact Or.inl h
        · exact Or.inr h
    simp only [runTrX, visitNodeX, bodyVis, seenAfter, allScopes]
    -- the node's name, then its values
    obtain ⟨e1, ev1⟩ := fixNodeNameX_VEq (gen := gen) (st := st) n
    have inv1 := inv.of_VEqX e1
    have good1 : GoodX c (fixNodeNameX gen st n) V := good.of_VEqX e1 (by rw [ev1])
    have hS1 : ∀ x, x ∈ (fixNodeNameX gen st n).seen ↔ x ∈ S := by rw [e1.seen]; exact hS
    obtain ⟨l2, t2⟩ := processValuesX_Lvl hgen hc (nodeVals ins outs) inv1 good1 hS1 hC1 (all_imp hsc1) hvis0
    -- the graphs held by the node, then the following nodes
    obtain ⟨l3, t3, s3⟩ := ihs l2.inv l2.good l2.seenEq hCs hsc2 fut1
    obtain ⟨l4, t4, s4⟩ := ihr l3.inv l3.good l3.seenEq hCr hsc3 fut2
    refine ⟨⟨l4.inv, l4.good, l4.seenEq, (FrameX.of_VEqX e1).trans (l2.frame.trans (l3.frame.trans l4.frame))⟩, ?_, ?_⟩
    · rw [t4, t3, t2, ev1]
    · intro L hL
      rcases List.mem_append.mp hL with hL | hL
      · exact (s3 L hL).frame l4.frame
      · exact s4 L hL
  | graph g isG ins outs body rest ihb ihr =>
    intro st V S Pend inv good hS hC hsc0 fut
    obtain ⟨hC1, hC2, hCb, hCr⟩ := hC.graph
    have hsc := hsc0
    simp only [scopedB, Bool.and_eq_true] at hsc
    obtain ⟨⟨hsc1, hsc2⟩, hsc3⟩ := hsc
    have hCg : ∀ v ∈ gvals iv g isG ins outs (bodyOuts body), c.C v := by
      intro v hv
      rcases gvals_mem hv with h | ⟨hG, h⟩
      · exact hC1 v h
      · exact hC2 hG v ((hiv g v).mp h)
    have hvis0 := fut.visH hiv hsc0 (gvals iv g isG ins outs (bodyOuts body)) hCg
    have hown : ∀ v g', c.io v = some g' → g' ∈ (if isG = true then [g] else []) → v ∈ gvals iv g isG ins outs (bodyOuts body) := by
      intro v g' hv hg'
      cases isG with
      | false => simp at hg'
      | true =>
        simp only [if_true, List.mem_singleton] at hg'
        subst hg'
        exact iv_sub_gvals ((hiv g' v).mpr hv)
    have fut1 : Fut c iv body (S ++ gvals iv g isG ins outs (bodyOuts body)) (V ++ gvals iv g isG ins outs (bodyOuts body))
        (fun g' => Pend g' ∨ g' ∈ graphsOf rest) := by
      constructor
      · intro g' hg u hu hin
        apply bodyVis_mono body _ u
        apply List.mem_append_left
        rcases hg with hg | hg
        · have := fut.vis g' hg u hu (by simp only [seenAfter]; exact seenAfter_mono iv rest _ u hin)
          simp only [bodyVis] at this
          exact scoped_vis_back iv rest _ _ u hsc3 hin this
        · exact scoped_graph_vis iv rest _ _ g' u hsc3 hg ((hiv g' u).mpr hu) hin
      · intro v hCv hnS g' hg
        have hnS' : v ∉ S := fun h => hnS (List.mem_append_left _ h)
        rcases fut.cov v hCv hnS' g' hg with h | h
        · simp only [graphsOf, List.mem_append] at h
          rcases h with h | h | h
          · exact absurd (List.mem_append_right _ (hown v g' hg h)) hnS
          · exact Or.inl h
          · exact Or.inr (Or.inr h)
        · exact Or.inr (Or.inl h)
    have fut2 : Fut c iv rest (seenAfter iv body (S ++ gvals iv g isG ins outs (bodyOuts body))) V Pend := by
      constructor
      · intro g' hg u hu hin
        have := fut.vis g' hg u hu (by simpa only [seenAfter] using hin)
        simpa only [bodyVis] using this
      · intro v hCv hnS g' hg
        have hnS' : v ∉ S := fun h => hnS (seenAfter_mono iv body _ v (List.mem_append_left _ h))
        rcases fut.cov v hCv hnS' g' hg with h | h
        · simp only [graphsOf, List.mem_append] at h
          rcases h with h | h | h
          · exact absurd (seenAfter_mono iv body _ v (List.mem_append_right _ (hown v g' hg h))) hnS
          · exact absurd (graph_inits_seen iv body _ g' v h ((hiv g' v).mpr hg)) hnS
          · exact Or.inl h
        · exact Or.inr h
    simp only [runTrX, bodyVis, seenAfter, allScopes]
    -- entered by `_iterate_subgraphs` ...
    obtain ⟨l1, t1⟩ := enterGraphX_Lvl hgen hc iv hiv inv good hS g isG ins outs (bodyOuts body) hC1 hC2 (all_imp hsc1) hvis0
    -- ... and again by the nested iterator: everything is seen already
    obtain ⟨l2, t2⟩ := enterGraphX_Lvl hgen hc iv hiv l1.inv l1.good l1.seenEq g isG ins outs (bodyOuts body) hC1 hC2
      (fun v hv _ => List.mem_append_right _ hv) (fun v hv hn => absurd (List.mem_append_right _ hv) hn)
    have good2 : GoodX c (enterGraphX gen (enterGraphX gen st g isG ins outs (bodyOuts body)) g isG ins outs (bodyOuts body)) (V ++ gvals iv g isG ins outs (bodyOuts body)) :=
      l2.good.congr (fun x => by simp only [List.mem_append]; exact ⟨Or.inl, fun h => h.elim id Or.inr⟩)
        (fun x hx u hu => by rw [before_append_mem _ hx] at hu; exact Or.inl hu)
    have hS2 : ∀ x, x ∈ (enterGraphX gen (enterGraphX gen st g isG ins outs (bodyOuts body)) g isG ins outs (bodyOuts body)).seen ↔ x ∈ S ++ gvals iv g isG ins outs (bodyOuts body) := by
      intro x; rw [l2.seenEq x]; simp only [List.mem_append]; exact ⟨fun h => h.elim id Or.inr, Or.inl⟩
    -- the body
    obtain ⟨l3, t3, s3⟩ := ihb l2.inv good2 hS2 hCb hsc2 fut1
    -- left twice
    obtain ⟨e4, ev4⟩ := exitGraphX_VEq l3.inv.nr
    have inv4 := l3.inv.of_VEqX e4
    obtain ⟨e5, ev5⟩ := exitGraphX_VEq inv4.nr
    have inv5 := inv4.of_VEqX e5
    have e35 := e4.trans e5
    have hstk : (exitGraphX (exitGraphX (runTrX gen body (enterGraphX gen (enterGraphX gen st g isG ins outs (bodyOuts body)) g isG ins outs (bodyOuts body))))).vstack = st.vstack := by
      rw [ev5, ev4, t3, t2, t1]
    have fr05 : FrameX st (exitGraphX (exitGraphX (runTrX gen body (enterGraphX gen (enterGraphX gen st g isG ins outs (bodyOuts body)) g isG ins outs (bodyOuts body))))) :=
      l1.frame.trans (l2.frame.trans (l3.frame.trans (FrameX.of_VEqX e35)))
    have good5 : GoodX c (exitGraphX (exitGraphX (runTrX gen body (enterGraphX gen (enterGraphX gen st g isG ins outs (bodyOuts body)) g isG ins outs (bodyOuts body))))) V :=
      { toScopeOKX := good.toScopeOKX.frame fr05
        top_iff := fun s => by
          rw [hstk, good.top_iff s]
          constructor
          · rintro ⟨u, hu, hs⟩; exact ⟨u, hu, by rw [fr05.names u (good.seen u hu).1]; exact hs⟩
          · rintro ⟨u, hu, hs⟩; exact ⟨u, hu, by rw [← fr05.names u (good.seen u hu).1]; exact hs⟩ }
    have hS5 : ∀ x, x ∈ (exitGraphX (exitGraphX (runTrX gen body (enterGraphX gen (enterGraphX gen st g isG ins outs (bodyOuts body)) g isG ins outs (bodyOuts body))))).seen
        ↔ x ∈ seenAfter iv body (S ++ gvals iv g isG ins outs (bodyOuts body)) := by
      rw [e35.seen]; exact l3.seenEq
    -- the following sibling graphs
    obtain ⟨l6, t6, s6⟩ := ihr inv5 good5 hS5 hCr hsc3 fut2
    refine ⟨⟨l6.inv, l6.good, l6.seenEq, fr05.trans l6.frame⟩, ?_, ?_⟩
    · rw [t6, hstk]
    · intro L hL
      rcases List.mem_cons.mp hL with rfl | hL
      · exact ((l3.good.toScopeOKX).of_VEqX e35).frame l6.frame
      · rcases List.mem_append.mp hL with hL | hL
        · exact ((s3 L hL).of_VEqX e35).frame l6.frame
        · exact s6 L hL

end IrVerif.Names

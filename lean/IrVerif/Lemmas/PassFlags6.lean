/-
C14 (deepening): RemoveUnusedFunctionsPass applied to its own result removes nothing.
-/
import IrVerif.Model.PassFlags2
namespace IrVerif.PassFlags

/-- total number of nodes of the functions that are not yet used -/
def fnRest : List (Nat × List Nat) → List Nat → Nat
  | [], _ => 0
  | f :: fs, used => (if used.contains f.1 then 0 else f.2.length) + fnRest fs used

theorem fnRest_cons_le (k : Nat) : ∀ (funcs : List (Nat × List Nat)) (used : List Nat),
    fnRest funcs (k :: used) ≤ fnRest funcs used
  | [], _ => Nat.le_refl _
  | (k', b') :: funcs, used => by
    have ih := fnRest_cons_le k funcs used
    simp only [fnRest, List.contains_cons]
    by_cases h1 : used.contains k' = true
    · simp only [h1, Bool.or_true, if_true]; omega
    · simp only [Bool.not_eq_true] at h1
      simp only [h1, Bool.or_false, Bool.false_eq_true, if_false]
      split <;> omega

theorem fnRest_drop (k : Nat) (body : List Nat) : ∀ (funcs : List (Nat × List Nat)) (used : List Nat),
    funcs.lookup k = some body → used.contains k = false →
    body.length + fnRest funcs (k :: used) ≤ fnRest funcs used
  | [], _, h, _ => by simp at h
  | (k', b') :: funcs, used, h, hu => by
    simp only [List.lookup_cons] at h
    by_cases hk : (k == k') = true
    · have e : k = k' := by simpa using hk
      subst e
      simp only [hk, Option.some.injEq] at h
      subst h
      have := fnRest_cons_le k funcs used
      simp only [fnRest, List.contains_cons, beq_self_eq_true, Bool.true_or, if_true, hu, Bool.false_eq_true,
        if_false]
      omega
    · simp only [Bool.not_eq_true] at hk
      simp only [hk] at h
      have ih := fnRest_drop k body funcs used h hu
      have hk' : (k' == k) = false := by
        simp only [beq_eq_false_iff_ne, ne_eq] at hk ⊢
        exact fun e => hk e.symm
      simp only [fnRest, List.contains_cons, hk', Bool.false_or]
      omega

/-- with enough fuel the result does not depend on the fuel -/
theorem fnVisit_fuel (funcs : List (Nat × List Nat)) : ∀ (f1 f2 : Nat) (work used : List Nat),
    work.length + fnRest funcs used ≤ f1 → work.length + fnRest funcs used ≤ f2 →
    fnVisit funcs f1 work used = fnVisit funcs f2 work used
  | f1, f2, [], used, _, _ => by
    cases f1 <;> cases f2 <;> simp [fnVisit]
  | 0, _, k :: work, used, h, _ => by simp at h
  | _ + 1, 0, k :: work, used, _, h => by simp at h
  | a + 1, b + 1, k :: work, used, h1, h2 => by
    simp only [List.length_cons] at h1 h2
    simp only [fnVisit]
    cases hl : funcs.lookup k with
    | none => exact fnVisit_fuel funcs a b work used (by omega) (by omega)
    | some body =>
      by_cases hu : used.contains k = true
      · simp only [hu, if_true]
        exact fnVisit_fuel funcs a b work used (by omega) (by omega)
      · simp only [hu, Bool.false_eq_true, if_false]
        have hd := fnRest_drop k body funcs used hl (by simpa using hu)
        exact fnVisit_fuel funcs a b (body ++ work) (k :: used)
          (by simp only [List.length_append]; omega) (by simp only [List.length_append]; omega)

theorem fnVisit_mono (funcs : List (Nat × List Nat)) : ∀ (fuel : Nat) (work used : List Nat) (x : Nat),
    x ∈ used → x ∈ fnVisit funcs fuel work used
  | 0, _, _, _, h => by simpa [fnVisit] using h
  | _ + 1, [], _, _, h => by simpa [fnVisit] using h
  | fuel + 1, k :: work, used, x, h => by
    simp only [fnVisit]
    cases hl : funcs.lookup k with
    | none => exact fnVisit_mono funcs fuel work used x h
    | some body =>
      by_cases hu : used.contains k = true
      · simp only [hu, if_true]; exact fnVisit_mono funcs fuel work used x h
      · simp only [hu, Bool.false_eq_true, if_false]
        exact fnVisit_mono funcs fuel (body ++ work) (k :: used) x (List.mem_cons_of_mem _ h)

theorem lookup_filter_key (p : Nat → Bool) (k : Nat) : ∀ funcs : List (Nat × List Nat),
    (funcs.filter (fun f => p f.1)).lookup k = if p k then funcs.lookup k else none
  | [] => by simp
  | (k', b') :: funcs => by
    have ih := lookup_filter_key p k funcs
    simp only [List.filter_cons]
    by_cases hp : p k' = true
    · simp only [hp, if_true, List.lookup_cons]
      by_cases hk : (k == k') = true
      · have e : k = k' := by simpa using hk
        subst e
        simp only [beq_self_eq_true, hp, if_true]
      · simp only [Bool.not_eq_true] at hk
        simp only [hk, ih]
    · simp only [hp, Bool.false_eq_true, if_false, List.lookup_cons, ih]
      by_cases hk : (k == k') = true
      · have e : k = k' := by simpa using hk
        subst e
        simp only [beq_self_eq_true, hp, Bool.false_eq_true, if_false]
      · simp only [Bool.not_eq_true] at hk
        simp only [hk]

/-- a run all of whose used functions survive the filter is the same run on the filtered table -/
theorem fnVisit_filter (funcs : List (Nat × List Nat)) (U : List Nat) : ∀ (fuel : Nat) (work used : List Nat),
    (∀ x ∈ fnVisit funcs fuel work used, x ∈ U) →
    fnVisit (funcs.filter (fun f => U.contains f.1)) fuel work used = fnVisit funcs fuel work used
  | 0, _, _, _ => by simp [fnVisit]
  | _ + 1, [], _, _ => by simp [fnVisit]
  | fuel + 1, k :: work, used, h => by
    simp only [fnVisit] at h ⊢
    rw [lookup_filter_key (fun x => U.contains x) k funcs]
    cases hl : funcs.lookup k with
    | none =>
      simp only [hl] at h
      simp only [ite_self]
      exact fnVisit_filter funcs U fuel work used h
    | some body =>
      simp only [hl] at h
      by_cases hu : used.contains k = true
      · simp only [hu, if_true] at h ⊢
        have ih := fnVisit_filter funcs U fuel work used h
        split <;> simp only [hu, if_true, ih]
      · simp only [hu, Bool.false_eq_true, if_false] at h ⊢
        have hk : U.contains k = true := by
          have := h k (fnVisit_mono funcs fuel (body ++ work) (k :: used) k List.mem_cons_self)
          simpa using this
        simp only [hk, if_true, hu, Bool.false_eq_true, if_false]
        exact fnVisit_filter funcs U fuel (body ++ work) (k :: used) h

theorem sum_filter_le (p : Nat × List Nat → Bool) : ∀ funcs : List (Nat × List Nat),
    ((funcs.filter p).map (fun f => f.2.length)).sum ≤ (funcs.map (fun f => f.2.length)).sum
  | [] => Nat.le_refl _
  | f :: funcs => by
    have := sum_filter_le p funcs
    simp only [List.filter_cons]
    split <;> simp only [List.map_cons, List.sum_cons] <;> omega

theorem fnRest_nil : ∀ funcs : List (Nat × List Nat), fnRest funcs [] = (funcs.map (fun f => f.2.length)).sum
  | [] => rfl
  | f :: funcs => by simp [fnRest, fnRest_nil funcs]

/-- the functions that survive are exactly the used ones of the result -/
theorem fnUsed_filtered (s : FnSt) :
    fnUsed { s with funcs := s.funcs.filter (fun f => (fnUsed s).contains f.1) } = fnUsed s := by
  generalize hU : fnUsed s = U
  have hle := sum_filter_le (fun f => U.contains f.1) s.funcs
  have h1 : fnUsed { s with funcs := s.funcs.filter (fun f => U.contains f.1) } =
      fnVisit (s.funcs.filter (fun f => U.contains f.1))
        (s.main.length + (s.funcs.map (fun f => f.2.length)).sum) s.main [] := by
    simp only [fnUsed]
    apply fnVisit_fuel
    · rw [fnRest_nil]; exact Nat.le_refl _
    · rw [fnRest_nil]; omega
  rw [h1]
  simp only [fnUsed] at hU
  have := fnVisit_filter s.funcs U (s.main.length + (s.funcs.map (fun f => f.2.length)).sum) s.main []
    (fun x hx => by rw [hU] at hx; exact hx)
  rw [this, hU]

end IrVerif.PassFlags

import IrVerif.Lemmas.SerdeFields
import IrVerif.Model.SerdeWide
/-! C02 deepening: `fold` removes only what `deserialize` never reads — leaf lemmas and the
congruence of the graph phases in the `value_info` table. -/
namespace IrVerif.Serde
open IrVerif.Proto

/-! ### value_info lookups -/

/-- predicates that only look at the key -/
theorem findLast?_dedupLastBy_g {α : Type} (key : α → String) (g : String → Bool) (vs : List α) :
    findLast? (fun w => g (key w)) (dedupLastBy key vs) = findLast? (fun w => g (key w)) vs := by
  induction vs with
  | nil => rfl
  | cons v vs ih =>
    simp only [dedupLastBy]
    split
    · rename_i hany
      rw [ih]
      simp only [findLast?]
      cases hf : findLast? (fun w => g (key w)) vs with
      | some y => rfl
      | none =>
        by_cases hv : g (key v) = true
        · exfalso
          obtain ⟨w, hw, hwn⟩ := List.any_eq_true.1 hany
          simp only [decide_eq_true_eq] at hwn
          obtain ⟨b, hb⟩ := findLast?_isSome_of_mem (p := fun w => g (key w)) hw
            (by simp [hwn, hv])
          simp [hf] at hb
        · simp [hv]
    · simp only [findLast?]
      rw [ih]

theorem findLast?_filter_g {α : Type} (key : α → String) (g : String → Bool) (f : α → Bool)
    (h : ∀ v : α, g (key v) = true → f v = true) (l : List α) :
    findLast? (fun w => g (key w)) (l.filter f) = findLast? (fun w => g (key w)) l := by
  induction l with
  | nil => rfl
  | cons v vs ih =>
    by_cases hf : f v = true
    · simp only [List.filter_cons, hf, if_true, findLast?, ih]
    · have hv : ¬ g (key v) = true := fun hn => hf (h v hn)
      simp only [List.filter_cons, hf, Bool.false_eq_true, if_false, ih, findLast?, hv]
      cases findLast? (fun w => g (key w)) vs <;> simp

theorem findLast?_dedupLastBy {α : Type} (key : α → String) (n : String) (vs : List α) :
    findLast? (fun w => decide (key w = n)) (dedupLastBy key vs)
      = findLast? (fun w => decide (key w = n)) vs :=
  findLast?_dedupLastBy_g key (fun k => decide (k = n)) vs

theorem findLast?_filter_key {α : Type} (key : α → String) (f : α → Bool) (n : String)
    (h : ∀ v : α, key v = n → f v = true) (l : List α) :
    findLast? (fun w => decide (key w = n)) (l.filter f) = findLast? (fun w => decide (key w = n)) l :=
  findLast?_filter_g key (fun k => decide (k = n)) f (fun v hv => h v (by simpa using hv)) l

theorem findVI_dedupLastVI (vs : List ValueInfoP) (n : String) :
    findVI (dedupLastVI vs) n = findVI vs n :=
  findLast?_dedupLastBy (fun v : ValueInfoP => v.name) n vs

theorem findVI_filter (f : ValueInfoP → Bool) (n : String) (h : ∀ v : ValueInfoP, v.name = n → f v = true)
    (l : List ValueInfoP) : findVI (l.filter f) n = findVI l n :=
  findLast?_filter_key (fun v : ValueInfoP => v.name) f n h l

theorem dedupLastBy_of_nodup {α : Type} (key : α → String) {l : List α} (h : (l.map key).Nodup) :
    dedupLastBy key l = l := by
  induction l with
  | nil => rfl
  | cons v vs ih =>
    simp only [List.map_cons, List.nodup_cons] at h
    have : vs.any (fun w => decide (key w = key v)) = false := by
      rw [Bool.eq_false_iff]
      intro hc
      obtain ⟨w, hw, hwn⟩ := List.any_eq_true.1 hc
      simp only [decide_eq_true_eq] at hwn
      exact h.1 (by rw [← hwn]; exact List.mem_map_of_mem hw)
    simp only [dedupLastBy, this, Bool.false_eq_true, if_false, ih h.2]

theorem findVI_foldVIs (I : List String) (vis : List ValueInfoP) {n : String} (hn : n ∉ I) :
    findVI (foldVIs I vis) n = findVI vis n := by
  unfold foldVIs
  rw [findVI_filter _ n _ (dedupLastVI vis), findVI_dedupLastVI]
  intro v hv
  simp [hv, hn]

/-! ### external entries -/

theorem extGet_foldExternal (es : List Entry) {k : String} (hk : k ∈ extKeys) :
    extGet (foldExternal es) k = extGet es k := by
  unfold extGet foldExternal
  rw [findLast?_filter_key (fun e : Entry => e.key) _ k _ _, findLast?_dedupLastBy (fun e : Entry => e.key) k es]
  intro e he
  simp [he, hk]

theorem desTensor_foldTensor (t : TensorP) : desTensor (foldTensor t) = desTensor t := by
  unfold foldTensor
  split
  · rename_i hloc
    have e1 := extGet_foldExternal t.externalData (k := "location") (by simp [extKeys])
    have e2 := extGet_foldExternal t.externalData (k := "offset") (by simp [extKeys])
    have e3 := extGet_foldExternal t.externalData (k := "length") (by simp [extKeys])
    have e4 := extGet_foldExternal t.externalData (k := "checksum") (by simp [extKeys])
    simp only [desTensor, hloc, if_true, extNat, e1, e2, e3, e4]
  · rfl

theorem desTensors_foldTensor (ts : List TensorP) : desTensors (ts.map foldTensor) = desTensors ts := by
  induction ts with
  | nil => rfl
  | cons t ts ih => simp only [List.map_cons, desTensors, desTensor_foldTensor, ih]

/-! ### opset dictionaries -/

theorem dictByKey_keys_nodup {α : Type} (key : α → String) :
    ∀ (l acc : List α), (acc.map key).Nodup → ((dictByKey key acc l).map key).Nodup := by
  intro l
  induction l with
  | nil => intro acc h; exact h
  | cons x xs ih =>
    intro acc h
    simp only [dictByKey]
    apply ih
    split
    · have : (acc.map fun y => if key y = key x then x else y).map key = acc.map key := by
        rw [List.map_map]
        apply List.map_congr_left
        intro y _
        simp only [Function.comp]
        split
        · rename_i hy; exact hy.symm
        · rfl
      rw [this]; exact h
    · rename_i hany
      rw [List.map_append, List.map_singleton]
      rw [List.nodup_append]
      refine ⟨h, by simp, ?_⟩
      intro a ha b hb hab
      simp only [List.mem_singleton] at hb
      apply hany
      obtain ⟨y, hy, hyk⟩ := List.mem_map.1 ha
      exact List.any_eq_true.2 ⟨y, hy, by simp [hyk, hab, hb]⟩

theorem opsetDict_idem (os : List OpsetP) : opsetDict (opsetDict os) = opsetDict os := by
  unfold opsetDict
  exact dictByKey_nodup (fun o : OpsetP => o.domain) _
    (dictByKey_keys_nodup (fun o : OpsetP => o.domain) os [] List.nodup_nil)

/-! ### the graph phases read `value_info` only for names that are not yet in the table -/

theorem newValue_congr {vis vis' : List ValueInfoP} (q : List AnnotP) {n : String}
    (h : findVI vis n = findVI vis' n) : newValue vis q n = newValue vis' q n := by
  simp only [newValue, h]

theorem newInitValue_congr {vis vis' : List ValueInfoP} (q : List AnnotP) (t : IRTensor) (dt : Int)
    (h : findVI vis t.name = findVI vis' t.name) : newInitValue vis q t dt = newInitValue vis' q t dt := by
  simp only [newInitValue, h]

theorem lookupLast_none_not_mem {names : List String} {n : String} (h : lookupLast names n = none) :
    n ∉ names := by
  intro hm
  have := lookupLast_isSome hm
  simp [h] at this

theorem tableNames_listSet_const (tbl : List IRValue) (i : Nat) (t : IRTensor) :
    tableNames (listSet tbl i { tbl.getD i (IRValue.blank "") with const := some t }) = tableNames tbl := by
  induction tbl generalizing i with
  | nil => rfl
  | cons v vs ih =>
    cases i with
    | zero => simp [listSet, tableNames]
    | succ j =>
      have := ih j
      simp only [tableNames, listSet, List.map_cons, List.getD_cons_succ] at this ⊢
      rw [this]

/-- `S`: names whose `value_info` entries may differ between `vis` and `vis'`; they are all in the
table already, so they are never looked up. -/
def VisAgree (S : List String) (vis vis' : List ValueInfoP) : Prop :=
  ∀ n, n ∉ S → findVI vis n = findVI vis' n

theorem desInitializers_congr {S : List String} {vis vis' : List ValueInfoP} (hv : VisAgree S vis vis')
    (q : List AnnotP) : ∀ (ts : List IRTensor) (tbl : List IRValue), (∀ s ∈ S, s ∈ tableNames tbl) →
    desInitializers vis q ts tbl = desInitializers vis' q ts tbl
  | [], _, _ => rfl
  | t :: ts, tbl, hS => by
    simp only [desInitializers]
    split
    · exact desInitializers_congr hv q ts tbl hS
    · cases hdt : t.dtype with
      | error e => rfl
      | ok dt =>
        simp only [bind, Except.bind]
        cases hl : lookupLast (tableNames tbl) t.name with
        | some i =>
          simp only []
          rw [desInitializers_congr hv q ts _ (by rw [tableNames_listSet_const]; exact hS)]
        | none =>
          simp only []
          have hn : t.name ∉ S := fun hm => lookupLast_none_not_mem hl (hS _ hm)
          rw [newInitValue_congr q t dt (hv _ hn)]
          cases newInitValue vis' q t dt with
          | error e => rfl
          | ok v =>
            simp only []
            rw [desInitializers_congr hv q ts _ (by
              intro s hs; rw [tableNames_append]; exact List.mem_append_left _ (hS s hs))]

theorem bind_eq_ok {ε α β : Type} {x : Except ε α} {f : α → Except ε β} {b : β}
    (h : (x >>= f) = .ok b) : ∃ a, x = .ok a ∧ f a = .ok b := by
  cases x with
  | error e => simp [bind, Except.bind] at h
  | ok a => exact ⟨a, rfl, h⟩

theorem desInitializers_names (vis : List ValueInfoP) (q : List AnnotP) :
    ∀ (ts : List IRTensor) (tbl tbl' : List IRValue) (is : List Nat),
    desInitializers vis q ts tbl = .ok (tbl', is) → ∀ s ∈ tableNames tbl, s ∈ tableNames tbl'
  | [], tbl, tbl', is, h => by
    simp only [desInitializers, Except.ok.injEq, Prod.mk.injEq] at h
    rw [← h.1]; exact fun s hs => hs
  | t :: ts, tbl, tbl', is, h => by
    simp only [desInitializers] at h
    split at h
    · exact desInitializers_names vis q ts tbl tbl' is h
    · obtain ⟨dt, _, h⟩ := bind_eq_ok h
      split at h
      · obtain ⟨⟨t2, is2⟩, hr, h⟩ := bind_eq_ok h
        simp only [Except.ok.injEq, Prod.mk.injEq] at h
        have := desInitializers_names vis q ts _ t2 is2 hr
        rw [tableNames_listSet_const] at this
        rw [← h.1]; exact this
      · obtain ⟨v, _, h⟩ := bind_eq_ok h
        obtain ⟨⟨t2, is2⟩, hr, h⟩ := bind_eq_ok h
        simp only [Except.ok.injEq, Prod.mk.injEq] at h
        have := desInitializers_names vis q ts _ t2 is2 hr
        rw [← h.1]
        intro s hs
        exact this s (by rw [tableNames_append]; exact List.mem_append_left _ hs)

theorem declareOutputs_congr {S : List String} {vis vis' : List ValueInfoP} (hv : VisAgree S vis vis')
    (q : List AnnotP) : ∀ (ns : List String) (tbl : List IRValue), (∀ s ∈ S, s ∈ tableNames tbl) →
    declareOutputs vis q ns tbl = declareOutputs vis' q ns tbl
  | [], _, _ => rfl
  | n :: ns, tbl, hS => by
    simp only [declareOutputs]
    split
    · exact declareOutputs_congr hv q ns tbl hS
    · cases hl : lookupLast (tableNames tbl) n with
      | some i => rfl
      | none =>
        simp only []
        have hn : n ∉ S := fun hm => lookupLast_none_not_mem hl (hS _ hm)
        rw [newValue_congr q (hv _ hn)]
        cases newValue vis' q n with
        | error e => rfl
        | ok v =>
          simp only [bind, Except.bind]
          exact declareOutputs_congr hv q ns _ (by
            intro s hs; rw [tableNames_append]; exact List.mem_append_left _ (hS s hs))

theorem declareOutputs_names (vis : List ValueInfoP) (q : List AnnotP) :
    ∀ (ns : List String) (tbl tbl' : List IRValue),
    declareOutputs vis q ns tbl = .ok tbl' → ∀ s ∈ tableNames tbl, s ∈ tableNames tbl'
  | [], tbl, tbl', h => by
    simp only [declareOutputs, Except.ok.injEq] at h
    rw [← h]; exact fun s hs => hs
  | n :: ns, tbl, tbl', h => by
    simp only [declareOutputs] at h
    split at h
    · exact declareOutputs_names vis q ns tbl tbl' h
    · split at h
      · cases h
      · obtain ⟨v, _, h⟩ := bind_eq_ok h
        intro s hs
        exact declareOutputs_names vis q ns _ tbl' h s
          (by rw [tableNames_append]; exact List.mem_append_left _ hs)

theorem declareAll_congr {S : List String} {vis vis' : List ValueInfoP} (hv : VisAgree S vis vis')
    (q : List AnnotP) : ∀ (nodes : List NodeP) (tbl : List IRValue), (∀ s ∈ S, s ∈ tableNames tbl) →
    declareAll vis q nodes tbl = declareAll vis' q nodes tbl
  | [], _, _ => rfl
  | n :: ns, tbl, hS => by
    simp only [declareAll]
    rw [declareOutputs_congr hv q n.outputs tbl hS]
    cases hd : declareOutputs vis' q n.outputs tbl with
    | error e => rfl
    | ok tbl' =>
      simp only [bind, Except.bind]
      have hd' : declareOutputs vis q n.outputs tbl = .ok tbl' := by
        rw [declareOutputs_congr hv q n.outputs tbl hS]; exact hd
      exact declareAll_congr hv q ns tbl'
        (fun s hs => declareOutputs_names vis q n.outputs tbl tbl' hd' s (hS s hs))

theorem declareAll_names (vis : List ValueInfoP) (q : List AnnotP) :
    ∀ (nodes : List NodeP) (tbl tbl' : List IRValue),
    declareAll vis q nodes tbl = .ok tbl' → ∀ s ∈ tableNames tbl, s ∈ tableNames tbl'
  | [], tbl, tbl', h => by
    simp only [declareAll, Except.ok.injEq] at h
    rw [← h]; exact fun s hs => hs
  | n :: ns, tbl, tbl', h => by
    simp only [declareAll] at h
    obtain ⟨t1, hd, h⟩ := bind_eq_ok h
    intro s hs
    exact declareAll_names vis q ns t1 tbl' h s (declareOutputs_names vis q n.outputs tbl t1 hd s hs)

theorem resolve_none_lookup {sc : List String} {outer : Scopes} {n : String}
    (h : resolve (sc :: outer) n = none) : lookupLast sc n = none := by
  simp only [resolve] at h
  cases hl : lookupLast sc n with
  | none => rfl
  | some i => simp [hl] at h

theorem desNodeInputs_congr {S : List String} {vis vis' : List ValueInfoP} (hv : VisAgree S vis vis')
    (outer : Scopes) (q : List AnnotP) : ∀ (ns : List String) (tbl : List IRValue),
    (∀ s ∈ S, s ∈ tableNames tbl) →
    desNodeInputs outer vis q ns tbl = desNodeInputs outer vis' q ns tbl
  | [], _, _ => rfl
  | n :: ns, tbl, hS => by
    simp only [desNodeInputs]
    split
    · rw [desNodeInputs_congr hv outer q ns tbl hS]
    · cases hr : resolve (tableNames tbl :: outer) n with
      | some r =>
        simp only []
        rw [desNodeInputs_congr hv outer q ns tbl hS]
      | none =>
        simp only []
        have hn : n ∉ S := fun hm => lookupLast_none_not_mem (resolve_none_lookup hr) (hS _ hm)
        rw [newValue_congr q (hv _ hn)]
        cases newValue vis' q n with
        | error e => rfl
        | ok v =>
          simp only [bind, Except.bind]
          rw [desNodeInputs_congr hv outer q ns _ (by
            intro s hs; rw [tableNames_append]; exact List.mem_append_left _ (hS s hs))]

theorem desNodeInputs_names (outer : Scopes) (vis : List ValueInfoP) (q : List AnnotP) :
    ∀ (ns : List String) (tbl tbl' : List IRValue) (rs : List (Option Ref)),
    desNodeInputs outer vis q ns tbl = .ok (rs, tbl') → ∀ s ∈ tableNames tbl, s ∈ tableNames tbl'
  | [], tbl, tbl', rs, h => by
    simp only [desNodeInputs, Except.ok.injEq, Prod.mk.injEq] at h
    rw [← h.2]; exact fun s hs => hs
  | n :: ns, tbl, tbl', rs, h => by
    simp only [desNodeInputs] at h
    split at h
    · obtain ⟨⟨r1, t1⟩, hr, h⟩ := bind_eq_ok h
      simp only [Except.ok.injEq, Prod.mk.injEq] at h
      rw [← h.2]; exact desNodeInputs_names outer vis q ns tbl t1 r1 hr
    · split at h
      · obtain ⟨⟨r1, t1⟩, hr, h⟩ := bind_eq_ok h
        simp only [Except.ok.injEq, Prod.mk.injEq] at h
        rw [← h.2]; exact desNodeInputs_names outer vis q ns tbl t1 r1 hr
      · obtain ⟨v, _, h⟩ := bind_eq_ok h
        obtain ⟨⟨r1, t1⟩, hr, h⟩ := bind_eq_ok h
        simp only [Except.ok.injEq, Prod.mk.injEq] at h
        rw [← h.2]
        intro s hs
        exact desNodeInputs_names outer vis q ns _ t1 r1 hr s
          (by rw [tableNames_append]; exact List.mem_append_left _ hs)

end IrVerif.Serde

/-
`heapq` (Model/Heap.lean): `_siftdown` / `_siftup` re-establish the heap invariant and keep the multiset of entries.

`HeapFrom s h`: every relation `h[(j-1)/2] <= h[j]` whose parent index is at least `s` holds (`isHeap` = `HeapFrom 0`;
what `heapify` maintains while it walks `reversed(range(n//2))`).  CPython's `_siftup` first moves the smaller child up
until a leaf is reached (`siftupLoop`: invariant `InvA`, the list -- with the duplicate left in the hole -- is a heap
from `s`, resp. from `s+1` while the hole is still at `s`), then bubbles the new item up with `_siftdown`
(`siftdownLoop`: invariant `InvB`, the classical 'heap with a hole').  Multisets are tracked as `List.count`.
-/
import IrVerif.Model.Heap

namespace IrVerif.Sort.Heap

theorem getD_set (h : List Nat) (i j v : Nat) :
    (h.set i v).getD j 0 = if i = j ∧ i < h.length then v else h.getD j 0 := by
  simp only [List.getD_eq_getElem?_getD, List.getElem?_set]
  by_cases hij : i = j
  · subst hij
    by_cases hl : i < h.length
    · simp [hl]
    · have : h[i]? = none := List.getElem?_eq_none (by omega)
      simp [hl]
  · simp [hij]

theorem getD_set_ne (h : List Nat) {i j : Nat} (v : Nat) (hij : i ≠ j) : (h.set i v).getD j 0 = h.getD j 0 := by
  rw [getD_set]; simp [hij]

theorem getD_set_self (h : List Nat) {i : Nat} (v : Nat) (hi : i < h.length) : (h.set i v).getD i 0 = v := by
  rw [getD_set]; simp [hi]

/-- additive form of `List.count_set` -/
theorem count_set_add : ∀ (h : List Nat) (i v a : Nat), i < h.length →
    (h.set i v).count a + (if h.getD i 0 = a then 1 else 0) = h.count a + (if v = a then 1 else 0)
  | [], _, _, _, hi => by simp at hi
  | x :: t, 0, v, a, _ => by
    simp only [List.set_cons_zero, List.count_cons, List.getD_cons_zero, beq_iff_eq]
    omega
  | x :: t, i + 1, v, a, hi => by
    have := count_set_add t i v a (by simpa using hi)
    simp only [List.set_cons_succ, List.count_cons, List.getD_cons_succ, beq_iff_eq]
    omega

def HeapFrom (s : Nat) (h : List Nat) : Prop :=
  ∀ j, j < h.length → j ≠ 0 → s ≤ (j - 1) / 2 → h.getD ((j - 1) / 2) 0 ≤ h.getD j 0

theorem isHeap_iff (h : List Nat) : isHeap h = true ↔ HeapFrom 0 h := by
  unfold isHeap HeapFrom
  simp only [List.all_eq_true, List.mem_range, Bool.or_eq_true, beq_iff_eq, decide_eq_true_eq]
  constructor
  · intro hh j hj h0 _
    rcases hh j hj with h1 | h1
    · exact absurd h1 h0
    · exact h1
  · intro hh j hj
    by_cases h0 : j = 0
    · exact Or.inl h0
    · exact Or.inr (hh j hj h0 (Nat.zero_le _))

/-- `p` lies in the subtree rooted at `s` -/
inductive Desc (s : Nat) : Nat → Prop
  | refl : Desc s s
  | child {p q : Nat} : Desc s p → (q = 2 * p + 1 ∨ q = 2 * p + 2) → Desc s q

theorem Desc.le {s p : Nat} (h : Desc s p) : s ≤ p := by
  induction h with
  | refl => exact Nat.le_refl _
  | child _ hq ih => omega

theorem Desc.parent {s p : Nat} (h : Desc s p) (hne : p ≠ s) : Desc s ((p - 1) / 2) := by
  cases h with
  | refl => exact absurd rfl hne
  | child hp hq =>
    rename_i p'
    have : (p - 1) / 2 = p' := by omega
    rw [this]; exact hp

theorem desc_zero : ∀ n : Nat, Desc 0 n := by
  intro n
  induction n using Nat.strongRecOn with
  | _ n ih =>
    by_cases h0 : n = 0
    · subst h0; exact Desc.refl
    · exact Desc.child (ih ((n - 1) / 2) (by omega)) (by omega)

/-! ## `_siftdown`: bubble the new item up -/

structure InvB (s v : Nat) (h : List Nat) (p : Nat) : Prop where
  lt : p < h.length
  desc : Desc s p
  b1 : ∀ j, j < h.length → j ≠ 0 → s ≤ (j - 1) / 2 → j ≠ p → (j - 1) / 2 ≠ p → h.getD ((j - 1) / 2) 0 ≤ h.getD j 0
  b2 : ∀ c, c < h.length → c ≠ 0 → (c - 1) / 2 = p → v ≤ h.getD c 0
  b3 : p ≠ s → ∀ c, c < h.length → c ≠ 0 → (c - 1) / 2 = p → h.getD ((p - 1) / 2) 0 ≤ h.getD c 0

theorem InvB.final {s v : Nat} {h : List Nat} {p : Nat} (inv : InvB s v h p)
    (hend : p = s ∨ ¬ v < h.getD ((p - 1) / 2) 0) : HeapFrom s (h.set p v) := by
  intro j hj h0 hs
  rw [List.length_set] at hj
  by_cases hjp : j = p
  · subst hjp
    rw [getD_set_self h v hj, getD_set_ne h v (by omega)]
    rcases hend with he | he
    · omega
    · omega
  · by_cases hpp : (j - 1) / 2 = p
    · rw [getD_set_ne h v (Ne.symm hjp), hpp, getD_set_self h v inv.lt]
      exact inv.b2 j hj h0 hpp
    · rw [getD_set_ne h v (Ne.symm hjp), getD_set_ne h v (Ne.symm hpp)]
      exact inv.b1 j hj h0 hs hjp hpp

theorem InvB.step {s v : Nat} {h : List Nat} {p : Nat} (inv : InvB s v h p) (hps : p ≠ s)
    (hlt : v < h.getD ((p - 1) / 2) 0) : InvB s v (h.set p (h.getD ((p - 1) / 2) 0)) ((p - 1) / 2) := by
  have hsp := inv.desc.le
  have hq := (inv.desc.parent hps).le
  have hp0 : p ≠ 0 := by omega
  have hqp : (p - 1) / 2 < p := by omega
  refine ⟨by rw [List.length_set]; have := inv.lt; omega, inv.desc.parent hps, ?_, ?_, ?_⟩
  · intro j hj h0 hs hjq hpq
    rw [List.length_set] at hj
    by_cases hjp : j = p
    · exact absurd (by rw [hjp]) hpq
    · by_cases hpp : (j - 1) / 2 = p
      · rw [hpp, getD_set_self h _ inv.lt, getD_set_ne h _ (Ne.symm hjp)]
        exact inv.b3 hps j hj h0 hpp
      · rw [getD_set_ne h _ (Ne.symm hjp), getD_set_ne h _ (Ne.symm hpp)]
        exact inv.b1 j hj h0 hs hjp hpp
  · intro c hc h0 hcq
    rw [List.length_set] at hc
    by_cases hcp : c = p
    · rw [hcp, getD_set_self h _ inv.lt]; omega
    · rw [getD_set_ne h _ (Ne.symm hcp)]
      have := inv.b1 c hc h0 (by omega) hcp (by omega)
      rw [hcq] at this
      omega
  · intro hqs c hc h0 hcq
    rw [List.length_set] at hc
    have hq0 : (p - 1) / 2 ≠ 0 := by have := (inv.desc.parent hps).le; omega
    have hgq : h.getD (((p - 1) / 2 - 1) / 2) 0 ≤ h.getD ((p - 1) / 2) 0 :=
      inv.b1 ((p - 1) / 2) (by have := inv.lt; omega) hq0 ((inv.desc.parent hps).parent hqs).le (by omega) (by omega)
    rw [getD_set_ne h _ (by omega : p ≠ ((p - 1) / 2 - 1) / 2)]
    by_cases hcp : c = p
    · rw [hcp, getD_set_self h _ inv.lt]; exact hgq
    · rw [getD_set_ne h _ (Ne.symm hcp)]
      have := inv.b1 c hc h0 (by omega) hcp (by omega)
      rw [hcq] at this
      omega

theorem count_move (h : List Nat) {p c : Nat} (v a : Nat) (hp : p < h.length) (hc : c < h.length) (hne : p ≠ c) :
    ((h.set p (h.getD c 0)).set c v).count a = (h.set p v).count a := by
  have e1 := count_set_add (h.set p (h.getD c 0)) c v a (by rw [List.length_set]; exact hc)
  have e2 := count_set_add h p (h.getD c 0) a hp
  have e3 := count_set_add h p v a hp
  rw [getD_set_ne h _ hne] at e1
  omega

theorem siftdownLoop_spec (s v : Nat) : ∀ (f : Nat) (h : List Nat) (p : Nat), InvB s v h p → p ≤ f →
    HeapFrom s ((siftdownLoop v s f h p).1.set (siftdownLoop v s f h p).2 v) ∧
    (∀ a, ((siftdownLoop v s f h p).1.set (siftdownLoop v s f h p).2 v).count a = (h.set p v).count a) ∧
    ((siftdownLoop v s f h p).1.set (siftdownLoop v s f h p).2 v).length = h.length
  | 0, h, p, inv, hf => by
    have hp : p = 0 := by omega
    have hs : s = 0 := by have := inv.desc.le; omega
    simp only [siftdownLoop]
    exact ⟨inv.final (Or.inl (by omega)), by simp, by simp⟩
  | f + 1, h, p, inv, hf => by
    unfold siftdownLoop
    by_cases hps : p > s
    · simp only [hps, if_true]
      by_cases hlt : v < h.getD ((p - 1) / 2) 0
      · simp only [hlt, if_true]
        have inv' := inv.step (by omega) hlt
        have ih := siftdownLoop_spec s v f _ _ inv' (by omega)
        refine ⟨ih.1, fun a => ?_, ?_⟩
        · rw [ih.2.1 a]
          exact count_move h v a inv.lt (by have := inv.lt; omega) (by omega)
        · rw [ih.2.2, List.length_set]
      · simp only [hlt, if_false]
        exact ⟨inv.final (Or.inr hlt), by simp, by simp⟩
    · simp only [hps, if_false]
      have := inv.desc.le
      exact ⟨inv.final (Or.inl (by omega)), by simp, by simp⟩

theorem siftdown_spec {s : Nat} {h : List Nat} {p : Nat} (inv : InvB s (h.getD p 0) h p) :
    HeapFrom s (siftdown h s p) ∧ (∀ a, (siftdown h s p).count a = h.count a) ∧ (siftdown h s p).length = h.length := by
  have hs := siftdownLoop_spec s (h.getD p 0) h.length h p inv (by have := inv.lt; omega)
  unfold siftdown
  refine ⟨hs.1, fun a => ?_, hs.2.2⟩
  rw [hs.2.1 a]
  have := count_set_add h p (h.getD p 0) a inv.lt
  omega

/-! ## `_siftup`: move the smaller child up until a leaf, then `_siftdown` -/

structure InvA (s : Nat) (h : List Nat) (p : Nat) : Prop where
  lt : p < h.length
  desc : Desc s p
  heap : HeapFrom (if p = s then s + 1 else s) h

/-- the child `_siftup` selects -/
def pick (h : List Nat) (p : Nat) : Nat :=
  if 2 * p + 1 + 1 < h.length && !(h.getD (2 * p + 1) 0 < h.getD (2 * p + 1 + 1) 0) then 2 * p + 1 + 1 else 2 * p + 1

theorem pick_eq (h : List Nat) (p : Nat) : pick h p =
    if 2 * p + 1 + 1 < h.length ∧ ¬ (h.getD (2 * p + 1) 0 < h.getD (2 * p + 1 + 1) 0) then 2 * p + 1 + 1 else 2 * p + 1 := by
  unfold pick
  generalize h.getD (2 * p + 1) 0 = a
  generalize h.getD (2 * p + 1 + 1) 0 = b
  by_cases c1 : 2 * p + 1 + 1 < h.length <;> by_cases c2 : a < b <;> simp [c1, c2]

theorem InvA.step {s : Nat} {h : List Nat} {p : Nat} (inv : InvA s h p) (hc : 2 * p + 1 < h.length) :
    InvA s (h.set p (h.getD (pick h p) 0)) (pick h p) ∧ p < pick h p ∧ pick h p < h.length := by
  have hsp := inv.desc.le
  have hpe := pick_eq h p
  have hpk : (pick h p = 2 * p + 1 ∨ pick h p = 2 * p + 2) ∧ pick h p < h.length := by
    rw [hpe]; split <;> omega
  have hmin : ∀ j, j < h.length → j ≠ 0 → (j - 1) / 2 = p → h.getD (pick h p) 0 ≤ h.getD j 0 := by
    intro j hj h0 hjp
    have hj2 : j = 2 * p + 1 ∨ j = 2 * p + 1 + 1 := by omega
    rw [hpe]; split
    · rename_i hh
      rcases hj2 with e | e
      · subst e; omega
      · subst e; exact Nat.le_refl _
    · rename_i hh
      rcases hj2 with e | e
      · subst e; exact Nat.le_refl _
      · subst e
        have : h.getD (2 * p + 1) 0 < h.getD (2 * p + 1 + 1) 0 := by
          apply Classical.byContradiction; intro hn; exact hh ⟨hj, hn⟩
        omega
  refine ⟨⟨by rw [List.length_set]; exact hpk.2, Desc.child inv.desc hpk.1, ?_⟩, by omega, hpk.2⟩
  have hcs : pick h p ≠ s := by omega
  simp only [hcs, if_false]
  intro j hj h0 hs
  rw [List.length_set] at hj
  by_cases hjp : j = p
  · -- the relation above the hole: only required when p is not the root of the subtree
    have hps : p ≠ s := by omega
    have hh := inv.heap; simp only [hps, if_false] at hh
    rw [hjp, getD_set_self h _ inv.lt, getD_set_ne h _ (by omega : p ≠ (p - 1) / 2)]
    have h1 := hh p inv.lt (by omega) (by rw [hjp] at hs; exact hs)
    have h2 := hh (pick h p) hpk.2 (by omega) (by omega)
    have : (pick h p - 1) / 2 = p := by omega
    rw [this] at h2
    omega
  · by_cases hpp : (j - 1) / 2 = p
    · rw [hpp, getD_set_self h _ inv.lt, getD_set_ne h _ (Ne.symm hjp)]
      exact hmin j hj h0 hpp
    · rw [getD_set_ne h _ (Ne.symm hjp), getD_set_ne h _ (Ne.symm hpp)]
      have hh := inv.heap
      by_cases hps : p = s
      · simp only [hps, if_true] at hh
        exact hh j hj h0 (by omega)
      · simp only [hps, if_false] at hh
        exact hh j hj h0 hs

theorem siftupLoop_spec (s v : Nat) : ∀ (f : Nat) (h : List Nat) (p : Nat), InvA s h p → h.length - p ≤ f →
    InvA s (siftupLoop h.length f h p).1 (siftupLoop h.length f h p).2 ∧
    ¬ 2 * (siftupLoop h.length f h p).2 + 1 < h.length ∧
    (∀ a, ((siftupLoop h.length f h p).1.set (siftupLoop h.length f h p).2 v).count a = (h.set p v).count a) ∧
    (siftupLoop h.length f h p).1.length = h.length
  | 0, h, p, inv, hf => by have := inv.lt; omega
  | f + 1, h, p, inv, hf => by
    unfold siftupLoop
    by_cases hc : 2 * p + 1 < h.length
    · simp only [hc, if_true]
      have hst := inv.step hc
      have hpk : (if 2 * p + 1 + 1 < h.length && !(h.getD (2 * p + 1) 0 < h.getD (2 * p + 1 + 1) 0) then 2 * p + 1 + 1
          else 2 * p + 1) = pick h p := rfl
      rw [hpk]
      have ih := siftupLoop_spec s v f (h.set p (h.getD (pick h p) 0)) (pick h p) hst.1
        (by rw [List.length_set]; omega)
      rw [List.length_set] at ih
      refine ⟨ih.1, ih.2.1, fun a => ?_, ih.2.2.2⟩
      rw [ih.2.2.1 a]
      exact count_move h v a inv.lt hst.2.2 (by omega)
    · simp only [hc, if_false]
      exact ⟨inv, by simp, by simp, by simp⟩

theorem siftup_spec {h : List Nat} {pos : Nat} (hpos : pos < h.length) (hh : HeapFrom (pos + 1) h) :
    HeapFrom pos (siftup h pos) ∧ (∀ a, (siftup h pos).count a = h.count a) ∧ (siftup h pos).length = h.length := by
  have inv0 : InvA pos h pos := ⟨hpos, Desc.refl, by simpa using hh⟩
  have hA := siftupLoop_spec pos (h.getD pos 0) h.length h pos inv0 (by omega)
  unfold siftup
  generalize siftupLoop h.length h.length h pos = r at hA
  obtain ⟨invA, hleaf, hcnt, hlen⟩ := hA
  have hleafc : ∀ c, c < h.length → c ≠ 0 → (c - 1) / 2 = r.2 → False := by intro c hc h0 hcp; omega
  have hr2 : r.2 < r.1.length := invA.lt
  have invB : InvB pos ((r.1.set r.2 (h.getD pos 0)).getD r.2 0) (r.1.set r.2 (h.getD pos 0)) r.2 := by
    refine ⟨by rw [List.length_set]; exact hr2, invA.desc, ?_, ?_, ?_⟩
    · intro j hj h0 hs hjp hpp
      rw [List.length_set] at hj
      rw [getD_set_ne _ _ (Ne.symm hjp), getD_set_ne _ _ (Ne.symm hpp)]
      have hhp := invA.heap
      by_cases hps : r.2 = pos
      · simp only [hps, if_true] at hhp
        exact hhp j hj h0 (by omega)
      · simp only [hps, if_false] at hhp
        exact hhp j hj h0 hs
    · intro c hc h0 hcp
      rw [List.length_set, hlen] at hc
      exact absurd hcp (fun e => hleafc c hc h0 e)
    · intro _ c hc h0 hcp
      rw [List.length_set, hlen] at hc
      exact absurd hcp (fun e => hleafc c hc h0 e)
  have hB := siftdown_spec invB
  refine ⟨hB.1, fun a => ?_, by rw [hB.2.2, List.length_set, hlen]⟩
  rw [hB.2.1 a, hcnt a]
  have := count_set_add h pos (h.getD pos 0) a hpos
  omega

/-! ## `heapify`, `heappush`, `heappop` -/

theorem heapify_aux : ∀ (k : Nat) (x : List Nat), k ≤ x.length / 2 → HeapFrom k x →
    HeapFrom 0 ((List.range k).reverse.foldl siftup x) ∧
    (∀ a, ((List.range k).reverse.foldl siftup x).count a = x.count a) ∧
    ((List.range k).reverse.foldl siftup x).length = x.length
  | 0, x, _, hh => by simpa using hh
  | k + 1, x, hk, hh => by
    rw [List.range_succ, List.reverse_append, List.reverse_singleton, List.singleton_append, List.foldl_cons]
    have hs := siftup_spec (h := x) (pos := k) (by omega) hh
    have ih := heapify_aux k (siftup x k) (by rw [hs.2.2]; omega) hs.1
    exact ⟨ih.1, fun a => by rw [ih.2.1 a, hs.2.1 a], by rw [ih.2.2, hs.2.2]⟩

theorem heapify_spec (x : List Nat) :
    HeapFrom 0 (heapify x) ∧ (∀ a, (heapify x).count a = x.count a) ∧ (heapify x).length = x.length := by
  unfold heapify
  refine heapify_aux (x.length / 2) x (Nat.le_refl _) ?_
  intro j hj h0 hs
  omega

theorem getD_append_left (h : List Nat) (x : Nat) {j : Nat} (hj : j < h.length) : (h ++ [x]).getD j 0 = h.getD j 0 := by
  simp [List.getD_eq_getElem?_getD, List.getElem?_append_left hj]

theorem heappush_spec {h : List Nat} (x : Nat) (hh : HeapFrom 0 h) :
    HeapFrom 0 (heappush h x) ∧ (∀ a, (heappush h x).count a = (x :: h).count a) ∧
    (heappush h x).length = h.length + 1 := by
  have hlen : (h ++ [x]).length = h.length + 1 := by simp
  have inv : InvB 0 ((h ++ [x]).getD h.length 0) (h ++ [x]) h.length := by
    refine ⟨by omega, desc_zero _, ?_, ?_, ?_⟩
    · intro j hj h0 _ hjp hpp
      have hj' : j < h.length := by omega
      rw [getD_append_left h x hj', getD_append_left h x (by omega)]
      exact hh j hj' h0 (Nat.zero_le _)
    · intro c hc h0 hcp; omega
    · intro _ c hc h0 hcp; omega
  have hs := siftdown_spec inv
  unfold heappush
  refine ⟨hs.1, fun a => ?_, by rw [hs.2.2, hlen]⟩
  rw [hs.2.1 a]
  simp only [List.count_append, List.count_cons, List.count_nil, beq_iff_eq]
  omega

theorem heappop_spec {h : List Nat} (hh : HeapFrom 0 h) (hne : h ≠ []) :
    ∃ m, (heappop h).1 = some m ∧ HeapFrom 0 (heappop h).2 ∧ (∀ a, (m :: (heappop h).2).count a = h.count a) := by
  obtain ⟨l, last, rfl⟩ : ∃ l last, h = l ++ [last] := ⟨h.dropLast, h.getLast hne, (List.dropLast_concat_getLast hne).symm⟩
  unfold heappop
  simp only [List.getLast?_append, List.getLast?_singleton, Option.some_or, List.dropLast_concat]
  by_cases hl : l = []
  · subst hl
    refine ⟨last, by simp, ?_, by simp⟩
    simp only [List.isEmpty_nil, if_true]
    intro j hj; simp at hj
  · have hle : l.isEmpty = false := by simpa using hl
    have hpos : 0 < l.length := List.length_pos_iff.mpr hl
    simp only [hle, Bool.false_eq_true, if_false]
    have h1 : HeapFrom 1 (l.set 0 last) := by
      intro j hj h0 hs
      rw [List.length_set] at hj
      rw [getD_set_ne _ _ (by omega : 0 ≠ (j - 1) / 2), getD_set_ne _ _ (Ne.symm h0)]
      have := hh j (by simp; omega) h0 (Nat.zero_le _)
      rwa [getD_append_left l last hj, getD_append_left l last (by omega)] at this
    have hs := siftup_spec (h := l.set 0 last) (pos := 0) (by rw [List.length_set]; exact hpos) h1
    refine ⟨l.getD 0 0, rfl, hs.1, fun a => ?_⟩
    have := count_set_add l 0 last a hpos
    simp only [List.count_cons, hs.2.1 a, List.count_append, List.count_nil, beq_iff_eq]
    omega

/-! ## the root is a minimum; refinement of the abstract priority queue -/

theorem root_le {h : List Nat} (hh : HeapFrom 0 h) : ∀ i, i < h.length → h.getD 0 0 ≤ h.getD i 0 := by
  intro i
  induction i using Nat.strongRecOn with
  | _ i ih =>
    intro hi
    by_cases h0 : i = 0
    · subst h0; exact Nat.le_refl _
    · have hp : (i - 1) / 2 < i := by omega
      exact Nat.le_trans (ih _ hp (by omega)) (hh i hi h0 (Nat.zero_le _))

theorem heappop_fst {h : List Nat} (hne : h ≠ []) : (heappop h).1 = some (h.getD 0 0) := by
  obtain ⟨l, last, rfl⟩ : ∃ l last, h = l ++ [last] := ⟨h.dropLast, h.getLast hne, (List.dropLast_concat_getLast hne).symm⟩
  unfold heappop
  simp only [List.getLast?_append, List.getLast?_singleton, Option.some_or, List.dropLast_concat]
  cases l with
  | nil => simp
  | cons a t => simp

theorem mem_of_count_eq {h q : List Nat} (hc : ∀ a, h.count a = q.count a) {m : Nat} (hm : m ∈ h) : m ∈ q := by
  have := List.count_pos_iff.2 hm
  rw [hc m] at this
  exact List.count_pos_iff.1 this

/-- `heappop` on a heap: the popped key is in the heap, below every key; the rest is a heap holding the other keys -/
theorem heappop_min {h : List Nat} (hh : HeapFrom 0 h) (hne : h ≠ []) :
    ∃ m, (heappop h).1 = some m ∧ m ∈ h ∧ (∀ x ∈ h, m ≤ x) ∧ HeapFrom 0 (heappop h).2 ∧
      (∀ a, (m :: (heappop h).2).count a = h.count a) := by
  obtain ⟨m, h1, h2, h3⟩ := heappop_spec hh hne
  have hm : m = h.getD 0 0 := by rw [heappop_fst hne] at h1; exact (Option.some.inj h1).symm
  have hpos : 0 < h.length := List.length_pos_iff.mpr hne
  refine ⟨m, h1, ?_, ?_, h2, h3⟩
  · rw [hm, List.getD_eq_getElem?_getD, List.getElem?_eq_getElem hpos]; simp
  · intro x hx
    obtain ⟨i, hi, rfl⟩ := List.getElem_of_mem hx
    have := root_le hh i hi
    rw [hm]
    simpa [List.getD_eq_getElem?_getD, List.getElem?_eq_getElem hi] using this

theorem minOf_spec : ∀ (q : List Nat), q ≠ [] → ∃ m, minOf q = some m ∧ m ∈ q ∧ ∀ x ∈ q, m ≤ x
  | [], h => absurd rfl h
  | x :: xs, _ => by
    by_cases hx : xs = []
    · subst hx; exact ⟨x, by simp [minOf], by simp, by simp⟩
    · obtain ⟨m, h1, h2, h3⟩ := minOf_spec xs hx
      refine ⟨if x ≤ m then x else m, by simp [minOf, h1], ?_, ?_⟩
      · split
        · simp
        · exact List.mem_cons_of_mem _ h2
      · intro y hy
        rcases List.mem_cons.1 hy with rfl | hy
        · split <;> omega
        · have := h3 y hy
          split <;> omega

theorem minOf_eq {q : List Nat} {m : Nat} (hm : m ∈ q) (hle : ∀ x ∈ q, m ≤ x) : minOf q = some m := by
  obtain ⟨m', h1, h2, h3⟩ := minOf_spec q (List.ne_nil_of_mem hm)
  have : m' = m := Nat.le_antisymm (h3 m hm) (hle m' h2)
  rw [h1, this]

theorem eq_nil_of_count {h q : List Nat} (hc : ∀ a, h.count a = q.count a) (hq : q = []) : h = [] := by
  subst hq
  cases h with
  | nil => rfl
  | cons a t => have := hc a; simp at this

/-- a binary heap and a list holding the same keys answer every sequence of pushes and pops alike -/
theorem run_refines : ∀ (ops : List (Option Nat)) (h q : List Nat), HeapFrom 0 h → (∀ a, h.count a = q.count a) →
    runHeap h ops = runAbs q ops
  | [], _, _, _, _ => rfl
  | some v :: os, h, q, hh, hc => by
    have hs := heappush_spec v hh
    simp only [runHeap, runAbs]
    exact run_refines os _ _ hs.1 (fun a => by rw [hs.2.1 a, List.count_cons, List.count_cons, hc a])
  | none :: os, h, q, hh, hc => by
    simp only [runHeap, runAbs]
    by_cases hne : h = []
    · have hq : q = [] := eq_nil_of_count (fun a => (hc a).symm) hne
      subst hne; subst hq
      simp only [heappop, absPop, minOf, List.getLast?_nil]
      rw [run_refines os [] [] hh hc]
    · obtain ⟨m, h1, h2, h3, h4, h5⟩ := heappop_min hh hne
      have hmq : m ∈ q := mem_of_count_eq hc h2
      have hmin : minOf q = some m := minOf_eq hmq (fun x hx => h3 x (mem_of_count_eq (fun a => (hc a).symm) hx))
      have hrest : ∀ a, (heappop h).2.count a = (q.erase m).count a := by
        intro a
        have e1 := h5 a
        have e2 := (List.perm_iff_count.1 (List.perm_cons_erase hmq)) a
        rw [List.count_cons] at e1 e2
        rw [hc a] at e1
        omega
      have habs : absPop q = (some m, q.erase m) := by simp [absPop, hmin]
      rw [h1, habs, run_refines os _ _ h4 hrest]

/-- popping `k <= len` times from the abstract queue: the keys come out in increasing order, each is in the queue -/
theorem runAbs_pops : ∀ (k : Nat) (q : List Nat), k ≤ q.length →
    ∃ l : List Nat, runAbs q (List.replicate k none) = l.map some ∧ l.Pairwise (· ≤ ·) ∧ (∀ x ∈ l, x ∈ q) ∧
      l.length = k
  | 0, _, _ => ⟨[], rfl, List.Pairwise.nil, by simp, rfl⟩
  | k + 1, q, hk => by
    have hne : q ≠ [] := by intro e; subst e; simp at hk
    obtain ⟨m, h1, h2, h3⟩ := minOf_spec q hne
    have habs : absPop q = (some m, q.erase m) := by simp [absPop, h1]
    obtain ⟨l, e1, e2, e3, e4⟩ := runAbs_pops k (q.erase m) (by rw [List.length_erase_of_mem h2]; omega)
    refine ⟨m :: l, ?_, ?_, ?_, by simp [e4]⟩
    · simp only [List.replicate_succ, runAbs, habs, e1, List.map_cons]
    · exact List.pairwise_cons.2 ⟨fun x hx => h3 x (List.mem_of_mem_erase (e3 x hx)), e2⟩
    · intro x hx
      rcases List.mem_cons.1 hx with rfl | hx
      · exact h2
      · exact List.mem_of_mem_erase (e3 x hx)

end IrVerif.Sort.Heap

/-
C15 part B: from one `_fix_graph_names` call to the whole pass (`fixModel`: main graph, then every
function), for models whose top-level graphs do not share values or nodes.
-/
import IrVerif.Lemmas.NamesIdem
namespace IrVerif.Names

/-- the values the call for `t` can meet -/
def TopC (io : Nat → Option Nat) (t : Top) (u : Nat) : Prop :=
  u ∈ mentioned t.tr ∨ ∃ g ∈ graphsOf t.tr, io u = some g

/-- two top-level graphs share neither values (initializers included) nor nodes -/
def TopDisj (io : Nat → Option Nat) (a b : Top) : Prop :=
  (∀ u, TopC io a u → ¬ TopC io b u) ∧ (∀ n ∈ allNodes a.body, n ∉ allNodes b.body)

theorem bodyVis_mem : ∀ (t : Tr) (V : List Nat) (x : Nat), x ∈ bodyVis t V → x ∈ V ∨ x ∈ mentioned t := by
  intro t
  induction t with
  | nil => intro V x h; exact Or.inl h
  | node n ins outs subs rest ihs ihr =>
    intro V x h
    simp only [bodyVis] at h
    simp only [mentioned, List.mem_append]
    rcases ihr _ x h with h | h
    · rcases ihs _ x h with h | h
      · rcases List.mem_append.mp h with h | h
        · exact Or.inl h
        · exact Or.inr (Or.inl h)
      · exact Or.inr (Or.inr (Or.inl h))
    · exact Or.inr (Or.inr (Or.inr h))
  | graph g isG ins outs body rest _ ihr =>
    intro V x h
    simp only [bodyVis] at h
    simp only [mentioned, List.mem_append]
    rcases ihr _ x h with h | h
    · exact Or.inl h
    · exact Or.inr (Or.inr (Or.inr h))

theorem gvals_mem {iv : Nat → List Nat} {g : Nat} {isG : Bool} {ins outs bouts : List Nat} {x : Nat}
    (h : x ∈ gvals iv g isG ins outs bouts) : x ∈ ins ++ outs ++ bouts ∨ (isG = true ∧ x ∈ iv g) := by
  unfold gvals at h
  cases isG
  · simp only [Bool.false_eq_true, if_false, List.append_nil, List.mem_append] at h
    simp only [List.mem_append, Bool.false_eq_true, false_and, or_false]
    exact h
  · simp only [if_true, List.mem_append] at h
    simp only [List.mem_append, true_and]
    rcases h with ((h | h) | h) | h
    · exact Or.inl (Or.inl (Or.inl h))
    · exact Or.inl (Or.inl (Or.inr h))
    · exact Or.inr h
    · exact Or.inl (Or.inr h)

theorem allScopes_mem (iv : Nat → List Nat) : ∀ (t : Tr) (V : List Nat) (L : List Nat), L ∈ allScopes iv t V →
    ∀ x ∈ L, x ∈ V ∨ x ∈ mentioned t ∨ ∃ g ∈ graphsOf t, x ∈ iv g := by
  intro t
  induction t with
  | nil => intro V L h; simp [allScopes] at h
  | node n ins outs subs rest ihs ihr =>
    intro V L h x hx
    simp only [allScopes, List.mem_append] at h
    simp only [mentioned, graphsOf, List.mem_append]
    rcases h with h | h
    · rcases ihs _ L h x hx with h | h | ⟨g, hg, h⟩
      · rcases List.mem_append.mp h with h | h
        · exact Or.inl h
        · exact Or.inr (Or.inl (Or.inl h))
      · exact Or.inr (Or.inl (Or.inr (Or.inl h)))
      · exact Or.inr (Or.inr ⟨g, Or.inl hg, h⟩)
    · rcases ihr _ L h x hx with h | h | ⟨g, hg, h⟩
      · rcases bodyVis_mem subs _ x h with h | h
        · rcases List.mem_append.mp h with h | h
          · exact Or.inl h
          · exact Or.inr (Or.inl (Or.inl h))
        · exact Or.inr (Or.inl (Or.inr (Or.inl h)))
      · exact Or.inr (Or.inl (Or.inr (Or.inr h)))
      · exact Or.inr (Or.inr ⟨g, Or.inr hg, h⟩)
  | graph g isG ins outs body rest ihb ihr =>
    intro V L h x hx
    simp only [allScopes, List.mem_cons, List.mem_append] at h
    simp only [mentioned, graphsOf, List.mem_append]
    have hgv : ∀ y, y ∈ V ++ gvals iv g isG ins outs (bodyOuts body) →
        y ∈ V ∨ ((y ∈ ins ∨ y ∈ outs) ∨ y ∈ mentioned body ∨ y ∈ mentioned rest)
          ∨ ∃ g', (g' ∈ (if isG = true then [g] else []) ∨ g' ∈ graphsOf body ∨ g' ∈ graphsOf rest) ∧ y ∈ iv g' := by
      intro y hy
      rcases List.mem_append.mp hy with hy | hy
      · exact Or.inl hy
      · rcases gvals_mem hy with hy | ⟨hG, hy⟩
        · rcases List.mem_append.mp hy with hy | hy
          · exact Or.inr (Or.inl (Or.inl (List.mem_append.mp hy)))
          · exact Or.inr (Or.inl (Or.inr (Or.inl (bodyOuts_sub_mentioned body y hy))))
        · exact Or.inr (Or.inr ⟨g, Or.inl (by simp [hG]), hy⟩)
    rcases h with rfl | h | h
    · rcases bodyVis_mem body _ x hx with h | h
      · exact hgv x h
      · exact Or.inr (Or.inl (Or.inr (Or.inl h)))
    · rcases ihb _ L h x hx with h | h | ⟨g', hg, h⟩
      · exact hgv x h
      · exact Or.inr (Or.inl (Or.inr (Or.inl h)))
      · exact Or.inr (Or.inr ⟨g', Or.inr (Or.inl hg), h⟩)
    · rcases ihr _ L h x hx with h | h | ⟨g', hg, h⟩
      · exact Or.inl h
      · exact Or.inr (Or.inl (Or.inr (Or.inr h)))
      · exact Or.inr (Or.inr ⟨g', Or.inr (Or.inr hg), h⟩)

theorem scope_sub_TopC {io : Nat → Option Nat} {iv : Nat → List Nat} (hiv : ∀ g u, u ∈ iv g ↔ io u = some g)
    {t : Top} {L : List Nat} (hL : L ∈ allScopes iv t.tr []) : ∀ x ∈ L, TopC io t x := by
  intro x hx
  rcases allScopes_mem iv t.tr [] L hL x hx with h | h | ⟨g, hg, h⟩
  · simp at h
  · exact Or.inl h
  · exact Or.inr ⟨g, hg, (hiv g x).mp h⟩

theorem InjT.of_eq {f f' : Nat → Option String} {L : List Nat} (h : InjT f L) (e : ∀ x ∈ L, f' x = f x) : InjT f' L :=
  ⟨fun a ha b hb hab => by rw [e a ha, e b hb]; exact h.inj a ha b hb hab, fun a ha => by rw [e a ha]; exact h.named a ha⟩

/-! ### the whole pass -/

theorem fixModel_cons {w : World} {t : Top} {ts : List Top} (h : (fixTop w t).raised = false) :
    fixModel w (t :: ts) = ((fixModel (fixTop w t).toWorld ts).1,
      (fixTop w t).modified || (fixModel (fixTop w t).toWorld ts).2.1, (fixModel (fixTop w t).toWorld ts).2.2) := by
  simp [fixModel, h]

theorem fixModel_total : ∀ (tops : List Top) (w : World), InitsOk w → (∀ t ∈ tops, Closed w.initOf t) →
    (fixModel w tops).2.2 = false ∧ InitsOk (fixModel w tops).1 ∧ (fixModel w tops).1.initOf = w.initOf
  | [], w, h, _ => ⟨rfl, h, rfl⟩
  | t :: ts, w, h, hcl => by
    have inv := fixTop_TInv h (hcl t List.mem_cons_self)
    rw [fixModel_cons inv.nr]
    have hio : (fixTop w t).toWorld.initOf = w.initOf := inv.io
    obtain ⟨a, b, c⟩ := fixModel_total ts (fixTop w t).toWorld inv.ok
      (fun t' ht' => by rw [hio]; exact hcl t' (List.mem_cons_of_mem _ ht'))
    exact ⟨a, b, c.trans hio⟩

/-- values and nodes that no top-level graph can meet keep their names -/
theorem fixModel_frame : ∀ (tops : List Top) (w : World), InitsOk w →
    (∀ t ∈ tops, Closed w.initOf t ∧ (allNodes t.body).Nodup) →
    (∀ u, (∀ t ∈ tops, ¬ TopC w.initOf t u) → (fixModel w tops).1.vname u = w.vname u)
    ∧ (∀ m, (∀ t ∈ tops, m ∉ allNodes t.body) → (fixModel w tops).1.nname m = w.nname m)
  | [], w, _, _ => ⟨fun _ _ => rfl, fun _ _ => rfl⟩
  | t :: ts, w, h, hyp => by
    have inv := fixTop_TInv h (hyp t List.mem_cons_self).1
    rw [fixModel_cons inv.nr]
    have hio : (fixTop w t).toWorld.initOf = w.initOf := inv.io
    obtain ⟨a, b⟩ := fixModel_frame ts (fixTop w t).toWorld inv.ok
      (fun t' ht' => by rw [hio]; exact hyp t' (List.mem_cons_of_mem _ ht'))
    constructor
    · intro u hu
      show (fixModel (fixTop w t).toWorld ts).1.vname u = w.vname u
      rw [a u (fun t' ht' => by rw [hio]; exact hu t' (List.mem_cons_of_mem _ ht'))]
      exact inv.outside u (hu t List.mem_cons_self)
    · intro m hm
      show (fixModel (fixTop w t).toWorld ts).1.nname m = w.nname m
      rw [b m (fun t' ht' => hm t' (List.mem_cons_of_mem _ ht'))]
      exact (fixTop_nodes inv.nr (hyp t List.mem_cons_self).2).2 m (hm t List.mem_cons_self)

/-- kept-if-unique on a list, between two name tables -/
def KeptOn (f f' : Nat → Option String) (L : List Nat) : Prop :=
  ∀ v ∈ L, truthy (f v) = true → (∀ u ∈ L, u ≠ v → f u ≠ f v) → f' v = f v

theorem fixModel_post (iv : Nat → List Nat) : ∀ (tops : List Top) (w : World), InitsOk w →
    (∀ g u, u ∈ iv g ↔ w.initOf u = some g) →
    (∀ t ∈ tops, Closed w.initOf t ∧ scopedB iv t.tr [] [] = true ∧ (allNodes t.body).Nodup) →
    tops.Pairwise (TopDisj w.initOf) →
    ∀ t ∈ tops,
      (∀ L ∈ allScopes iv t.tr [], InjT (fixModel w tops).1.vname L ∧ KeptOn w.vname (fixModel w tops).1.vname L)
      ∧ (∀ L ∈ allNodeScopes t.tr, InjT (fixModel w tops).1.nname L ∧ KeptOn w.nname (fixModel w tops).1.nname L)
  | [], _, _, _, _, _ => fun t ht => by simp at ht
  | t :: ts, w, h, hiv, hyp, hdisj => by
    obtain ⟨hcl, hsc, hnd⟩ := hyp t List.mem_cons_self
    have inv := fixTop_TInv h hcl
    rw [fixModel_cons inv.nr]
    have hio : (fixTop w t).toWorld.initOf = w.initOf := inv.io
    rw [List.pairwise_cons] at hdisj
    have hyp' : ∀ t' ∈ ts, Closed (fixTop w t).toWorld.initOf t' ∧ scopedB iv t'.tr [] [] = true ∧ (allNodes t'.body).Nodup :=
      fun t' ht' => by rw [hio]; exact hyp t' (List.mem_cons_of_mem _ ht')
    obtain ⟨fv, fn⟩ := fixModel_frame ts (fixTop w t).toWorld inv.ok (fun t' ht' => ⟨(hyp' t' ht').1, (hyp' t' ht').2.2⟩)
    intro t0 ht0
    rcases List.mem_cons.mp ht0 with rfl | ht0
    · -- the head: established by its own call, untouched afterwards
      have sc := fixTop_scopes h hcl iv hiv hsc
      have nd := fixTop_nodes inv.nr hnd
      constructor
      · intro L hL
        have hsub := scope_sub_TopC hiv hL
        have e : ∀ x ∈ L, (fixModel (fixTop w t0).toWorld ts).1.vname x = (fixTop w t0).vname x :=
          fun x hx => fv x (fun t' ht' => by rw [hio]; exact (hdisj.1 t' ht').1 x (hsub x hx))
        refine ⟨(⟨(sc L hL).inj, fun a ha => ((sc L hL).seen a ha).2⟩ : InjT (fixTop w t0).vname L).of_eq e, ?_⟩
        intro v hv h1 h2
        show (fixModel (fixTop w t0).toWorld ts).1.vname v = w.vname v
        rw [e v hv]; exact (sc L hL).kept v hv h1 h2
      · intro L hL
        have hsub : ∀ m ∈ L, m ∈ allNodes t0.body := by
          intro m hm
          have := allNodeScopes_sub t0.tr L hL m hm
          simpa [Top.tr, allNodes] using this
        have e : ∀ m ∈ L, (fixModel (fixTop w t0).toWorld ts).1.nname m = (fixTop w t0).nname m :=
          fun m hm => fn m (fun t' ht' => (hdisj.1 t' ht').2 m (hsub m hm))
        refine ⟨(⟨(nd.1 L hL).inj, (nd.1 L hL).named⟩ : InjT (fixTop w t0).nname L).of_eq e, ?_⟩
        intro n hn h1 h2
        show (fixModel (fixTop w t0).toWorld ts).1.nname n = w.nname n
        rw [e n hn]; exact (nd.1 L hL).kept n hn h1 h2
    · -- a later top: by induction, its values were not touched by the head's call
      have ih := fixModel_post iv ts (fixTop w t).toWorld inv.ok (fun g u => by rw [hio]; exact hiv g u) hyp'
        (by rw [hio]; exact hdisj.2) t0 ht0
      constructor
      · intro L hL
        obtain ⟨i1, k1⟩ := ih.1 L hL
        have hsub := scope_sub_TopC hiv hL
        have e : ∀ x ∈ L, (fixTop w t).vname x = w.vname x :=
          fun x hx => inv.outside x (fun hc => (hdisj.1 t0 ht0).1 x hc (hsub x hx))
        refine ⟨i1, ?_⟩
        intro v hv h1 h2
        have := k1 v hv (by rw [e v hv]; exact h1) (fun u hu huv => by rw [e u hu, e v hv]; exact h2 u hu huv)
        show (fixModel (fixTop w t).toWorld ts).1.vname v = w.vname v
        rw [this]; exact e v hv
      · intro L hL
        obtain ⟨i1, k1⟩ := ih.2 L hL
        have hsub : ∀ m ∈ L, m ∈ allNodes t0.body := by
          intro m hm
          have := allNodeScopes_sub t0.tr L hL m hm
          simpa [Top.tr, allNodes] using this
        have e : ∀ m ∈ L, (fixTop w t).nname m = w.nname m :=
          fun m hm => (fixTop_nodes inv.nr hnd).2 m (fun hc => (hdisj.1 t0 ht0).2 m hc (hsub m hm))
        refine ⟨i1, ?_⟩
        intro n hn h1 h2
        have := k1 n hn (by rw [e n hn]; exact h1) (fun u hu hun => by rw [e u hu, e n hn]; exact h2 u hu hun)
        show (fixModel (fixTop w t).toWorld ts).1.nname n = w.nname n
        rw [this]; exact e n hn

/-- first-holder-keeps through the whole pass (same induction as `fixModel_post`) -/
theorem fixModel_first (iv : Nat → List Nat) : ∀ (tops : List Top) (w : World), InitsOk w →
    (∀ g u, u ∈ iv g ↔ w.initOf u = some g) →
    (∀ t ∈ tops, Closed w.initOf t ∧ scopedB iv t.tr [] [] = true ∧ (allNodes t.body).Nodup) →
    tops.Pairwise (TopDisj w.initOf) →
    ∀ t ∈ tops,
      (∀ L ∈ allScopes iv t.tr [], FirstB w.vname (fixModel w tops).1.vname L)
      ∧ (∀ L ∈ allNodeScopes t.tr, FirstB w.nname (fixModel w tops).1.nname L)
  | [], _, _, _, _, _ => fun t ht => by simp at ht
  | t :: ts, w, h, hiv, hyp, hdisj => by
    obtain ⟨hcl, hsc, hnd⟩ := hyp t List.mem_cons_self
    have inv := fixTop_TInv h hcl
    rw [fixModel_cons inv.nr]
    have hio : (fixTop w t).toWorld.initOf = w.initOf := inv.io
    rw [List.pairwise_cons] at hdisj
    have hyp' : ∀ t' ∈ ts, Closed (fixTop w t).toWorld.initOf t' ∧ scopedB iv t'.tr [] [] = true ∧ (allNodes t'.body).Nodup :=
      fun t' ht' => by rw [hio]; exact hyp t' (List.mem_cons_of_mem _ ht')
    obtain ⟨fv, fn⟩ := fixModel_frame ts (fixTop w t).toWorld inv.ok (fun t' ht' => ⟨(hyp' t' ht').1, (hyp' t' ht').2.2⟩)
    intro t0 ht0
    rcases List.mem_cons.mp ht0 with rfl | ht0
    · have sc := fixTop_scopes h hcl iv hiv hsc
      have nd := fixTop_nodes inv.nr hnd
      constructor
      · intro L hL
        have hsub := scope_sub_TopC hiv hL
        exact (sc L hL).first.fin_eq
          (fun x hx => fv x (fun t' ht' => by rw [hio]; exact (hdisj.1 t' ht').1 x (hsub x hx)))
      · intro L hL
        have hsub : ∀ m ∈ L, m ∈ allNodes t0.body := by
          intro m hm
          have := allNodeScopes_sub t0.tr L hL m hm
          simpa [Top.tr, allNodes] using this
        exact (nd.1 L hL).first.fin_eq (fun m hm => fn m (fun t' ht' => (hdisj.1 t' ht').2 m (hsub m hm)))
    · have ih := fixModel_first iv ts (fixTop w t).toWorld inv.ok (fun g u => by rw [hio]; exact hiv g u) hyp'
        (by rw [hio]; exact hdisj.2) t0 ht0
      constructor
      · intro L hL
        have hsub := scope_sub_TopC hiv hL
        exact (ih.1 L hL).orig_eq
          (fun x hx => (inv.outside x (fun hc => (hdisj.1 t0 ht0).1 x hc (hsub x hx))).symm)
      · intro L hL
        have hsub : ∀ m ∈ L, m ∈ allNodes t0.body := by
          intro m hm
          have := allNodeScopes_sub t0.tr L hL m hm
          simpa [Top.tr, allNodes] using this
        exact (ih.2 L hL).orig_eq
          (fun m hm => ((fixTop_nodes inv.nr hnd).2 m (fun hc => (hdisj.1 t0 ht0).2 m hc (hsub m hm))).symm)

/-- the first element of `A` that satisfies `p` -/
theorem exists_first {α : Type} (p : α → Prop) : ∀ (A : List α), (∃ u ∈ A, p u) →
    ∃ A1 a A2, A = A1 ++ a :: A2 ∧ p a ∧ ∀ u ∈ A1, ¬ p u
  | [], h => by obtain ⟨u, hu, _⟩ := h; simp at hu
  | x :: xs, h => by
    by_cases hx : p x
    · exact ⟨[], x, xs, rfl, hx, fun u hu => by simp at hu⟩
    · obtain ⟨u, hu, hpu⟩ := h
      have : ∃ u ∈ xs, p u := by
        rcases List.mem_cons.mp hu with e | e
        · exact absurd (e ▸ hpu) hx
        · exact ⟨u, e, hpu⟩
      obtain ⟨A1, a, A2, e, ha, hn⟩ := exists_first p xs this
      refine ⟨x :: A1, a, A2, by rw [e]; rfl, ha, ?_⟩
      intro u hu
      rcases List.mem_cons.mp hu with e | e
      · exact e ▸ hx
      · exact hn u e

/-- from "injective on `L`" and "first holder keeps": exactly the later holders of a name lose it -/
theorem first_exact {orig fin : Nat → Option String} {L : List Nat} (hf : FirstB orig fin L)
    (hinj : ∀ a ∈ L, ∀ b ∈ L, a ≠ b → fin a ≠ fin b) (A : List Nat) (v : Nat) (B : List Nat) (e : L = A ++ v :: B)
    (ht : truthy (orig v) = true) :
    ((∀ u ∈ A, orig u ≠ orig v) → fin v = orig v)
    ∧ (v ∉ A → (∃ u ∈ A, orig u = orig v) → fin v ≠ orig v) := by
  refine ⟨hf.split A v B e ht, ?_⟩
  intro hv hex
  obtain ⟨A1, a, A2, eA, ha, hn⟩ := exists_first (fun u => orig u = orig v) A hex
  have hav : a ≠ v := fun h => hv (by rw [eA, ← h]; simp)
  have keep : fin a = orig a := by
    refine hf.split A1 a (A2 ++ v :: B) (by rw [e, eA]; simp) (by rw [ha]; exact ht) ?_
    intro u hu; rw [ha]; exact hn u hu
  intro hfv
  refine hinj a (by rw [e, eA]; simp) v (by rw [e]; simp) hav ?_
  rw [keep, ha, hfv]


/-- node names through the whole pass, **without** the scoping rule -/
theorem fixModel_nodes : ∀ (tops : List Top) (w : World), InitsOk w →
    (∀ t ∈ tops, Closed w.initOf t ∧ (allNodes t.body).Nodup) →
    tops.Pairwise (fun a b => ∀ n ∈ allNodes a.body, n ∉ allNodes b.body) →
    ∀ t ∈ tops, ∀ L ∈ allNodeScopes t.tr,
      InjT (fixModel w tops).1.nname L ∧ KeptOn w.nname (fixModel w tops).1.nname L ∧ FirstB w.nname (fixModel w tops).1.nname L
  | [], _, _, _, _ => fun t ht => by simp at ht
  | t :: ts, w, h, hyp, hdisj => by
    obtain ⟨hcl, hnd⟩ := hyp t List.mem_cons_self
    have inv := fixTop_TInv h hcl
    rw [fixModel_cons inv.nr]
    have hio : (fixTop w t).toWorld.initOf = w.initOf := inv.io
    rw [List.pairwise_cons] at hdisj
    have hyp' : ∀ t' ∈ ts, Closed (fixTop w t).toWorld.initOf t' ∧ (allNodes t'.body).Nodup :=
      fun t' ht' => by rw [hio]; exact hyp t' (List.mem_cons_of_mem _ ht')
    obtain ⟨_, fn⟩ := fixModel_frame ts (fixTop w t).toWorld inv.ok hyp'
    have nd := fixTop_nodes inv.nr hnd
    intro t0 ht0 L hL
    have hsub : ∀ m ∈ L, m ∈ allNodes t0.body := by
      intro m hm
      have := allNodeScopes_sub t0.tr L hL m hm
      simpa [Top.tr, allNodes] using this
    rcases List.mem_cons.mp ht0 with rfl | ht0
    · have e : ∀ m ∈ L, (fixModel (fixTop w t0).toWorld ts).1.nname m = (fixTop w t0).nname m :=
        fun m hm => fn m (fun t' ht' => hdisj.1 t' ht' m (hsub m hm))
      refine ⟨(⟨(nd.1 L hL).inj, (nd.1 L hL).named⟩ : InjT (fixTop w t0).nname L).of_eq e, ?_, (nd.1 L hL).first.fin_eq e⟩
      intro n hn h1 h2
      show (fixModel (fixTop w t0).toWorld ts).1.nname n = w.nname n
      rw [e n hn]; exact (nd.1 L hL).kept n hn h1 h2
    · obtain ⟨i1, k1, f1⟩ := fixModel_nodes ts (fixTop w t).toWorld inv.ok hyp' hdisj.2 t0 ht0 L hL
      have e : ∀ m ∈ L, (fixTop w t).nname m = w.nname m :=
        fun m hm => nd.2 m (fun hc => hdisj.1 t0 ht0 m hc (hsub m hm))
      refine ⟨i1, ?_, f1.orig_eq (fun m hm => (e m hm).symm)⟩
      intro n hn h1 h2
      have := k1 n hn (by rw [e n hn]; exact h1) (fun u hu hun => by rw [e u hu, e n hn]; exact h2 u hu hun)
      show (fixModel (fixTop w t).toWorld ts).1.nname n = w.nname n
      rw [this]; exact e n hn

end IrVerif.Names

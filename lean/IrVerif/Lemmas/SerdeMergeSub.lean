import IrVerif.Lemmas.SerdeMergeMutual
/-! C02 deepening, E3: functions, models, and `WFproto p -> merge p = p`. -/
namespace IrVerif.Serde
open IrVerif.Proto

theorem declareAll_mergeNodes (vis : List ValueInfoP) (q : List AnnotP) :
    ∀ (nodes : List NodeP) (tbl : List IRValue),
    declareAll vis q (mergeNodes nodes) tbl = declareAll vis q nodes tbl
  | [], _ => rfl
  | n :: ns, tbl => by
    simp only [mergeNodes, declareAll, mergeNode_outputs]
    cases declareOutputs vis q n.outputs tbl with
    | error e => rfl
    | ok t1 => simp only [bind, Except.bind]; exact declareAll_mergeNodes vis q ns t1

theorem desFunction_merge (ver : Int) (f : FunctionP) (h : wfFunction ver (mergeFunction f) = true) :
    desFunction (mergeFunction f) = desFunction f := by
  simp only [wfFunction, Bool.and_eq_true, mergeFunction, nodeOutNames_mergeNodes] at h
  obtain ⟨⟨⟨⟨⟨⟨⟨⟨⟨⟨⟨⟨h1, _⟩, _⟩, _⟩, h5⟩, _⟩, h7⟩, _⟩, _⟩, _⟩, _⟩, h12⟩, _⟩ := h
  have hnd := nodupStr_iff.1 h1
  rw [List.nodup_append] at hnd
  obtain ⟨_, hndO, hdis⟩ := hnd
  have hI := functionInputs_eq f.valueInfo h7 f.inputs
  have hNI : tableNames (f.inputs.map (newValueT f.valueInfo [])) = f.inputs := by
    simp [tableNames, List.map_map, Function.comp_def]
  have hC := declareAll_spec f.valueInfo [] h7 f.nodes (f.inputs.map (newValueT f.valueInfo []))
    (by intro n hn hm; rw [hNI] at hm; exact hdis n hm n hn rfl) hndO
  have hN : tableNames (f.inputs.map (newValueT f.valueInfo [])
      ++ (nodeOutNames f.nodes).map (newValueT f.valueInfo [])) = f.inputs ++ nodeOutNames f.nodes := by
    simp [tableNames, List.map_map, Function.comp_def]
  have hM := desNodes_merge [] f.valueInfo [] f.nodes
    (f.inputs.map (newValueT f.valueInfo []) ++ (nodeOutNames f.nodes).map (newValueT f.valueInfo []))
    (by rw [hN]; exact h12)
  simp only [desFunction, mergeFunction, declareAll_mergeNodes, hI, hC, hM, bind, Except.bind,
    desAttrs_merge [] f.attrProtos h5]
  rfl

theorem desFunctions_merge (ver : Int) : ∀ fs : List FunctionP,
    (fs.map mergeFunction).all (wfFunction ver) = true →
    desFunctions (fs.map mergeFunction) = desFunctions fs
  | [], _ => rfl
  | f :: fs, h => by
    simp only [List.map_cons, List.all_cons, Bool.and_eq_true] at h
    simp only [List.map_cons, desFunctions, desFunction_merge ver f h.1, desFunctions_merge ver fs h.2]

theorem mergeGraph_fields (g : GraphP) :
    (mergeGraph g).inputs = g.inputs ∧ (mergeGraph g).initializers = g.initializers ∧
    nodeOutNames (mergeGraph g).nodes = nodeOutNames g.nodes ∧
    (mergeGraph g).valueInfo = mergeVIs (g.initializers.map (·.name) ++ nodeOutNames g.nodes)
      (g.inputs.map (·.name)) (g.outputs.map (·.name)) g.valueInfo := by
  cases g
  exact ⟨rfl, rfl, nodeOutNames_mergeNodes _, rfl⟩

/-- `desModel_merge` from exactly what it uses: the merged graph and functions are well formed and, below IR
version 10, no graph output that the graph declares has a name of the experimental form (the dropped
`value_info` entries name such outputs; the experimental decoding must not read them) -/
theorem desModel_merge' (m : ModelP) (hg : wfGraph [] (mergeGraph m.graph) = true)
    (hf : (m.functions.map mergeFunction).all (wfFunction m.irVersion) = true)
    (hout : m.irVersion ≥ 10 ∨ ∀ n ∈ m.graph.outputs.map (·.name),
      n ∈ m.graph.initializers.map (·.name) ++ nodeOutNames m.graph.nodes → parseExperimentalName n = none) :
    desModel (mergeModel m) = desModel m := by
  obtain ⟨e1, e2, e3, e4⟩ := mergeGraph_fields m.graph
  simp only [desModel, mergeModel, desGraph_merge [] m.graph hg, desFunctions_merge m.irVersion m.functions hf]
  by_cases hlt : m.irVersion < 10
  · have hplain : ∀ n ∈ m.graph.outputs.map (·.name),
        n ∈ m.graph.initializers.map (·.name) ++ nodeOutNames m.graph.nodes → parseExperimentalName n = none := by
      rcases hout with h10 | h
      · omega
      · exact h
    have key : ∀ d nm vn, findLast? (fun e => e.1 = vn) (experimentalFor (mergeGraph m.graph).valueInfo d nm)
        = findLast? (fun e => e.1 = vn) (experimentalFor m.graph.valueInfo d nm) := by
      intro d nm vn
      rw [findLast?_experimentalFor, findLast?_experimentalFor, e4]
      congr 1
      unfold mergeVIs
      apply findLast?_filter_g (fun v : ValueInfoP => v.name)
        (fun k => decide (parseExperimentalName k = some (d, nm, vn)))
      intro v hv
      simp only [decide_eq_true_eq] at hv
      by_cases ho : v.name ∈ m.graph.outputs.map (·.name)
      · by_cases hd : v.name ∈ m.graph.initializers.map (·.name) ++ nodeOutNames m.graph.nodes
        · rw [hplain _ ho hd] at hv
          cases hv
        · simp [hd]
      · simp [ho]
    have key2 := applyExperimentalAll_congr key
    simp only [hlt, if_true, key2]
  · simp only [hlt, if_false]

theorem desModel_merge (m : ModelP) (h : wfModel (mergeModel m) = true) :
    desModel (mergeModel m) = desModel m := by
  simp only [wfModel, Bool.and_eq_true, Bool.or_eq_true, decide_eq_true_eq, mergeModel] at h
  obtain ⟨⟨⟨⟨⟨⟨hg, hf⟩, _⟩, _⟩, _⟩, _⟩, hexp⟩ := h
  obtain ⟨e1, e2, e3, e4⟩ := mergeGraph_fields m.graph
  refine desModel_merge' m hg hf ?_
  rcases hexp with h10 | hexp
  · exact Or.inl (by simpa using h10)
  · right
    intro n _ hd
    rw [e1, e2, e3] at hexp
    have hs : n ∈ scopeNames (m.graph.inputs.map (·.name)) (m.graph.initializers.map (·.name))
        (nodeOutNames m.graph.nodes) := by
      by_cases hi : n ∈ m.graph.inputs.map (·.name)
      · exact mem_scopeNames.2 (Or.inl hi)
      · rcases List.mem_append.1 hd with hd | hd
        · exact mem_scopeNames.2 (Or.inr (Or.inl ⟨hd, hi⟩))
        · exact mem_scopeNames.2 (Or.inr (Or.inr hd))
    have := List.all_eq_true.1 hexp n hs
    simpa using this

/-! ### `WFproto p -> merge p = p` -/

theorem mergeOutVI_of_none {D I : List String} {vis : List ValueInfoP} {vo : ValueInfoP}
    (h : findVI vis vo.name = none) : mergeOutVI D I vis vo = vo := by
  unfold mergeOutVI
  split
  · rw [h]
  · rfl

mutual
theorem mergeAttr_of_wf (scopes : Scopes) : ∀ a : AttrP, wfAttr scopes a = true → mergeAttr a = a
  | .ref .., _ => rfl
  | .int .., _ => rfl
  | .float .., _ => rfl
  | .string .., _ => rfl
  | .ints .., _ => rfl
  | .floats .., _ => rfl
  | .strings .., _ => rfl
  | .tensor .., _ => rfl
  | .tensors .., _ => rfl
  | .graph n d g, h => by
    simp only [wfAttr] at h
    simp only [mergeAttr, mergeGraph_of_wf scopes g h]
  | .graphs n d gs, h => by
    simp only [wfAttr] at h
    simp only [mergeAttr, mergeGraphs_of_wf scopes gs h]
  | .typeProto .., _ => rfl
  | .typeProtos .., _ => rfl
  | .undefined .., _ => rfl
  | .sparse .., _ => rfl
  | .unknown .., _ => rfl

theorem mergeGraphs_of_wf (scopes : Scopes) : ∀ gs : List GraphP, wfGraphs scopes gs = true →
    mergeGraphs gs = gs
  | [], _ => rfl
  | g :: gs, h => by
    simp only [wfGraphs, Bool.and_eq_true] at h
    simp only [mergeGraphs, mergeGraph_of_wf scopes g h.1, mergeGraphs_of_wf scopes gs h.2]

theorem mergeAttrs_of_wf (scopes : Scopes) : ∀ as : List AttrP, wfAttrs scopes as = true →
    mergeAttrs as = as
  | [], _ => rfl
  | a :: as, h => by
    simp only [wfAttrs, Bool.and_eq_true] at h
    simp only [mergeAttrs, mergeAttr_of_wf scopes a h.1, mergeAttrs_of_wf scopes as h.2]

theorem mergeNode_of_wf (scopes : Scopes) : ∀ n : NodeP, wfNode scopes n = true → mergeNode n = n
  | .mk inputs outputs name opType domain overload doc attrs metadata devcfgs, h => by
    simp only [wfNode, Bool.and_eq_true] at h
    simp only [mergeNode, mergeAttrs_of_wf scopes attrs h.1.1.2]

theorem mergeNodes_of_wf (scopes : Scopes) : ∀ ns : List NodeP, wfNodes scopes ns = true →
    mergeNodes ns = ns
  | [], _ => rfl
  | n :: ns, h => by
    simp only [wfNodes, Bool.and_eq_true] at h
    simp only [mergeNodes, mergeNode_of_wf scopes n h.1, mergeNodes_of_wf scopes ns h.2]

theorem mergeGraph_of_wf (outer : Scopes) : ∀ g : GraphP, wfGraph outer g = true → mergeGraph g = g
  | .mk name doc nodes inits inputs outputs vis quant md, h => by
    obtain ⟨hw, hwn⟩ := graphWF_of_wf outer name doc nodes inits inputs outputs vis quant md h
    have hnone : ∀ vo ∈ outputs, findVI vis vo.name = none := by
      intro vo hvo
      rw [findVI_none_iff]
      intro hm
      obtain ⟨vi, hvi, hvin⟩ := List.mem_map.1 hm
      exact (hw.visNotIO vi hvi).2 (by rw [hvin]; exact List.mem_map_of_mem hvo)
    have e1 : outputs.map (mergeOutVI (inits.map (·.name) ++ nodeOutNames nodes) (inputs.map (·.name)) vis)
        = outputs := by
      have hid : ∀ vo ∈ outputs, mergeOutVI (inits.map (·.name) ++ nodeOutNames nodes)
          (inputs.map (·.name)) vis vo = id vo := fun vo hvo => mergeOutVI_of_none (hnone vo hvo)
      rw [List.map_congr_left hid, List.map_id]
    have e2 : mergeVIs (inits.map (·.name) ++ nodeOutNames nodes) (inputs.map (·.name))
        (outputs.map (·.name)) vis = vis := by
      unfold mergeVIs
      rw [List.filter_eq_self]
      intro vi hvi
      have : (outputs.map (·.name)).contains vi.name = false := by
        simpa using (hw.visNotIO vi hvi).2
      simp only [this, Bool.false_and, Bool.not_false]
    simp only [mergeGraph, mergeNodes_of_wf _ nodes hwn, e1, e2]
end

theorem mergeFunction_of_wf (ver : Int) (f : FunctionP) (h : wfFunction ver f = true) :
    mergeFunction f = f := by
  simp only [wfFunction, Bool.and_eq_true] at h
  obtain ⟨⟨⟨⟨⟨⟨⟨⟨⟨⟨⟨⟨_, _⟩, _⟩, _⟩, hattrs⟩, _⟩, _⟩, _⟩, _⟩, _⟩, _⟩, hnodes⟩, _⟩ := h
  have e1 := mergeNodes_of_wf _ f.nodes hnodes
  have e2 := mergeAttrs_of_wf _ f.attrProtos hattrs
  cases f
  simp only [mergeFunction] at e1 e2 ⊢
  simp only [e1, e2]

theorem map_mergeFunction_of_wf (ver : Int) : ∀ fs : List FunctionP, fs.all (wfFunction ver) = true →
    fs.map mergeFunction = fs
  | [], _ => rfl
  | f :: fs, h => by
    simp only [List.all_cons, Bool.and_eq_true] at h
    simp only [List.map_cons, mergeFunction_of_wf ver f h.1, map_mergeFunction_of_wf ver fs h.2]

theorem mergeModel_of_wf (m : ModelP) (h : wfModel m = true) : mergeModel m = m := by
  simp only [wfModel, Bool.and_eq_true] at h
  obtain ⟨⟨⟨⟨⟨⟨hg, hf⟩, _⟩, _⟩, _⟩, _⟩, _⟩ := h
  have e1 := mergeGraph_of_wf [] m.graph hg
  have e2 := map_mergeFunction_of_wf m.irVersion m.functions hf
  cases m
  simp only [mergeModel] at e1 e2 ⊢
  simp only [e1, e2]

theorem canonModel_of_wf (m : ModelP) (h : wfModel m = true) : canonModel m = m := by
  unfold canonModel
  rw [foldModel_of_wf m h, mergeModel_of_wf m h]

/-- the inputs of the canonical pre-form are the inputs of the model's graph -/
theorem canonModel_inputs (m : ModelP) : (canonModel m).graph.inputs = m.graph.inputs := by
  simp only [canonModel, mergeModel, foldModel, (mergeGraph_fields _).1, foldGraph_inputs]

theorem desModel_canon (m : ModelP) (h : wfModel (canonModel m) = true) :
    desModel (canonModel m) = desModel m := by
  have hp := inputsPlain_of_wf _ h
  unfold canonModel at h ⊢
  rw [desModel_merge _ h]
  apply desModel_fold
  rcases hp with hp | hp
  · exact Or.inl (by simpa [canonModel, mergeModel, foldModel] using hp)
  · right
    simpa [inputsPlain, canonModel_inputs] using hp

end IrVerif.Serde

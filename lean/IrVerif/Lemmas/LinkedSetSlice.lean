/-
Tuple slicing (`pySlice`): every selected position is inside the list, so the slice is exactly
`[L[start + j * step] | j < count]` with `slice.indices` normalisation.
-/
import IrVerif.Model.LinkedSet
namespace IrVerif.LinkedSet

theorem sliceClip_bounds (n : Nat) (k x : Int) :
    (0 < k → 0 ≤ sliceClip n k x ∧ sliceClip n k x ≤ n) ∧
    (k < 0 → -1 ≤ sliceClip n k x ∧ sliceClip n k x ≤ (n : Int) - 1) := by
  unfold sliceClip
  constructor <;> intro hk <;> (repeat' split) <;> omega

theorem sliceStart_bounds (n : Nat) (k : Int) (st : Option Int) :
    (0 < k → 0 ≤ sliceStart n k st ∧ sliceStart n k st ≤ n) ∧
    (k < 0 → -1 ≤ sliceStart n k st ∧ sliceStart n k st ≤ (n : Int) - 1) := by
  cases st with
  | none => simp only [sliceStart]; constructor <;> intro hk <;> split <;> omega
  | some x => exact sliceClip_bounds n k x

theorem sliceStop_bounds (n : Nat) (k : Int) (sp : Option Int) :
    (0 < k → 0 ≤ sliceStop n k sp ∧ sliceStop n k sp ≤ n) ∧
    (k < 0 → -1 ≤ sliceStop n k sp ∧ sliceStop n k sp ≤ (n : Int) - 1) := by
  cases sp with
  | none => simp only [sliceStop]; constructor <;> intro hk <;> split <;> omega
  | some x => exact sliceClip_bounds n k x

/-- `j ≤ x / k` and `0 < k` give `j * k ≤ x` -/
theorem mul_le_of_le_div {x k : Int} {j : Nat} (hk : 0 < k) (hx : 0 ≤ x) (hj : (j : Int) ≤ x / k) :
    (j : Int) * k ≤ x := by
  have h1 : (j : Int) * k ≤ (x / k) * k := Int.mul_le_mul_of_nonneg_right hj (Int.le_of_lt hk)
  have h2 : (x / k) * k ≤ x := Int.ediv_mul_le x (Int.ne_of_gt hk)
  exact Int.le_trans h1 h2

/-- every position the slice selects lies inside the sequence -/
theorem slice_inRange (n : Nat) (st sp : Option Int) (k : Int) (hk : k ≠ 0) (j : Nat)
    (hj : j < sliceCount (sliceStart n k st) (sliceStop n k sp) k) :
    0 ≤ sliceStart n k st + j * k ∧ sliceStart n k st + j * k < n := by
  have ha := sliceStart_bounds n k st
  have hb := sliceStop_bounds n k sp
  generalize sliceStart n k st = a at *
  generalize sliceStop n k sp = b at *
  unfold sliceCount at hj
  by_cases hneg : k < 0
  · simp only [hneg, if_true] at hj
    obtain ⟨ha1, ha2⟩ := ha.2 hneg
    obtain ⟨hb1, _⟩ := hb.2 hneg
    split at hj
    · rename_i hba
      have hq : (j : Int) ≤ (a - b - 1) / (-k) := by
        have h0 : 0 ≤ (a - b - 1) / (-k) := Int.ediv_nonneg (by omega) (by omega)
        omega
      have := mul_le_of_le_div (by omega : 0 < -k) (by omega) hq
      have e : (j : Int) * -k = -((j : Int) * k) := by rw [Int.mul_neg]
      have hjk : (j : Int) * k ≤ 0 := by
        have : 0 ≤ (j : Int) * -k := Int.mul_nonneg (by omega) (by omega)
        omega
      omega
    · omega
  · have hpos : 0 < k := by omega
    simp only [hneg, if_false] at hj
    obtain ⟨ha1, _⟩ := ha.1 hpos
    obtain ⟨_, hb2⟩ := hb.1 hpos
    split at hj
    · rename_i hab
      have hq : (j : Int) ≤ (b - a - 1) / k := by
        have h0 : 0 ≤ (b - a - 1) / k := Int.ediv_nonneg (by omega) (by omega)
        omega
      have := mul_le_of_le_div hpos (by omega) hq
      have : 0 ≤ (j : Int) * k := Int.mul_nonneg (by omega) (by omega)
      omega
    · omega

/-- **the slice is `[L[start + j * step] | j < count]`**: nothing is dropped, the length is the
    count of `slice.indices`, element `j` is the element at position `start + j * step` -/
theorem pySlice_spec (L : List Nat) (st sp step : Option Int) :
    (pySlice L st sp step = none ↔ step = some 0) ∧
    ∀ a k cnt, sliceIndices L.length st sp step = some (a, k, cnt) →
      ∃ res, pySlice L st sp step = some res ∧ res.length = cnt ∧
        ∀ j, j < cnt → res[j]? = L[(a + j * k).toNat]? ∧ (a + j * k).toNat < L.length := by
  constructor
  · unfold pySlice sliceIndices
    cases step with
    | none => simp
    | some k =>
      by_cases hk : k = 0 <;> simp [hk]
  · intro a k cnt h
    have hk : k ≠ 0 ∧ a = sliceStart L.length k st ∧
        cnt = sliceCount (sliceStart L.length k st) (sliceStop L.length k sp) k := by
      unfold sliceIndices at h
      simp only at h
      split at h
      · cases h
      · rename_i hk0
        simp only [Option.some.injEq, Prod.mk.injEq] at h
        obtain ⟨rfl, rfl, rfl⟩ := h
        exact ⟨hk0, rfl, rfl⟩
    obtain ⟨hk0, rfl, rfl⟩ := hk
    have inr := slice_inRange L.length st sp k hk0
    generalize sliceStart L.length k st = a at *
    generalize sliceCount a (sliceStop L.length k sp) k = cnt at *
    have key : ∀ (m : Nat), m ≤ cnt →
        ((List.range m).filterMap fun (i : Nat) => L[(a + (i : Int) * k).toNat]?) =
        (List.range m).map fun (i : Nat) => L[(a + (i : Int) * k).toNat]?.getD 0 := by
      intro m
      induction m with
      | zero => intro _; rfl
      | succ m ih =>
        intro hm
        rw [List.range_succ, List.filterMap_append, List.map_append, ih (by omega)]
        congr 1
        obtain ⟨h0, h1⟩ := inr m (by omega)
        have hlt : (a + (m : Int) * k).toNat < L.length := by omega
        simp [List.getElem?_eq_getElem hlt]
    refine ⟨(List.range cnt).filterMap fun (i : Nat) => L[(a + (i : Int) * k).toNat]?, by simp only [pySlice, h], ?_, ?_⟩
    · rw [key cnt (Nat.le_refl _)]; simp
    · intro j hj
      obtain ⟨h0, h1⟩ := inr j hj
      have hlt : (a + (j : Int) * k).toNat < L.length := by omega
      refine ⟨?_, hlt⟩
      rw [key cnt (Nat.le_refl _)]
      simp [hj, List.getElem?_eq_getElem hlt]

end IrVerif.LinkedSet

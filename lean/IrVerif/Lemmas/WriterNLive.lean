/-
C09 helper development (general model): all invariants together, enabledness of running pool
threads, progress.
-/
import IrVerif.Lemmas.WriterNJobs
namespace IrVerif.WriterN

/-- no step ever un-creates a pool -/
theorem owner_step {cfg : Cfg} {s s' : State} {l : Label} (hst : StepRel cfg s l s') (q0 : Nat) :
    (s'.pl q0).owner = (s.pl q0).owner ∨ (s'.pl q0).owner ≠ .notCreated := by
  have set1 : ∀ {q : Nat} {P P' : PoolSt}, s.pools[q]? = some P →
      (P'.owner = P.owner ∨ P'.owner ≠ .notCreated) →
      ((s.pools.set q P').getD q0 default).owner = (s.pl q0).owner ∨
      ((s.pools.set q P').getD q0 default).owner ≠ .notCreated := by
    intro q P P' hP hnc
    rw [pl_upd hP]; split
    · rename_i e; subst e
      rcases hnc with h | h
      · left; rw [h, pl_of_get hP]
      · exact Or.inr h
    · exact Or.inl rfl
  cases hst with
  | submit q c k j P hP hk hj => exact set1 hP (Or.inr (by simp only; split <;> simp))
  | collect q c j ok P hP hm hjj hf =>
      unfold collectOne
      cases ok
      · simp only [Bool.false_eq_true, if_false]; split <;> exact set1 hP (Or.inr (by simp))
      · simp only [if_true]; split
        · exact set1 hP (Or.inr (by simp))
        · exact set1 hP (Or.inl rfl)
  | joinRoot q c e P hP hm hex hpar => exact set1 hP (Or.inr (by simp))
  | joinSub q c e P jp hP hm hex hpar =>
      simp only [State.pl]; rw [addIdle_owner]; exact set1 hP (Or.inr (by simp))
  | takeSerial q j rest P hP hq hidle hsub =>
      exact set1 (P' := { P with queue := rest, idle := P.idle - 1 }) hP (Or.inl rfl)
  | takeSub q j rest P q' hP hq hidle hsub =>
      simp only [State.pl]; rw [createPool_get]; split
      · exact Or.inr (by simp)
      · exact set1 (P' := { P with queue := rest, idle := P.idle - 1 }) hP (Or.inl rfl)
  | exit q P hP hq hsd hidle =>
      exact set1 (P' := { P with idle := P.idle - 1, exited := P.exited + 1 }) hP (Or.inl rfl)
  | cbAcqIn i hi hl => exact Or.inl rfl
  | cbAcq i hi hl => exact Or.inl rfl
  | cbFail i hi hf => exact Or.inl (finishTask_pl _ i false q0).2
  | cbOk i hi hf => exact Or.inl rfl
  | tAcq i hi hl => exact Or.inl rfl
  | bTry i p hi hp' =>
      rcases budgetTry_cases cfg s i with ⟨_, _, e⟩ | ⟨_, _, e⟩ | ⟨_, _, e⟩ | ⟨_, _, e⟩ <;> rw [e] <;>
        exact Or.inl rfl
  | writeFail i hi hf => exact Or.inl rfl
  | writeOk i hi hf => exact Or.inl rfl
  | bRel i ok hi => unfold budgetRelease; exact Or.inl (finishTask_pl _ i ok q0).2

structure Inv (cfg : Cfg) (st : State) : Prop where
  s : SInv cfg st
  l : LInv cfg st
  p : PInv cfg st
  w : WInv cfg st
  j : JInv cfg st
  c : CInv cfg st
  root : (st.pl 0).owner ≠ .notCreated

theorem reachable_Inv {cfg : Cfg} (wf : WF cfg) {s : State} (h : Reachable cfg s) : Inv cfg s := by
  induction h with
  | init =>
      refine ⟨SInv_init wf, LInv_init cfg, PInv_init wf, WInv_init cfg, JInv_init cfg, CInv_init cfg, ?_⟩
      rw [init_pl]; simp [wf.pools_pos, initPool]
  | step l _ hst ih =>
      have hr := stepRel_of_step hst
      refine ⟨SInv_step wf ih.s hr, LInv_step wf ih.s ih.l hr, PInv_step wf ih.s ih.p hr,
        WInv_step ih.w hr, JInv_step wf ih.s ih.j hr, CInv_step wf ih.s ih.p ih.c hr, ?_⟩
      rcases owner_step hr 0 with e | e
      · rw [e]; exact ih.root
      · exact e


def free : Pc → Bool
  | .cbBody | .bAcq | .woken | .write | .bRel _ => true
  | _ => false

theorem stepTask_free {cfg : Cfg} {s : State} {i : Nat} {p : Pc} (hi : s.tasks[i]? = some p)
    (hp : free p = true) : (stepTask cfg s i).isSome = true := by
  unfold stepTask
  rw [hi]
  cases p <;> simp [free] at hp ⊢
  · split <;> simp
  · split <;> simp

/-- if any tensor is in progress then some `task` label is enabled -/
theorem active_enabled {cfg : Cfg} (wf : WF cfg) {s : State} (h : Inv cfg s) {i : Nat} {p : Pc}
    (hi : s.tasks[i]? = some p) (hp : act p = true) : ∃ k, (stepTask cfg s k).isSome = true := by
  by_cases hE : ∃ (k : Nat) (q : Pc), s.tasks[k]? = some q ∧ free q = true
  · obtain ⟨k, q, hk, hq⟩ := hE
    exact ⟨k, stepTask_free hk hq⟩
  have hnf : ∀ (k : Nat) (q : Pc), s.tasks[k]? = some q → free q = false := by
    intro k q hk
    cases hq : free q
    · rfl
    · exact absurd ⟨k, q, hk, hq⟩ hE
  have hcb : wsum fCb 0 s.tasks = 0 := wsum_eq_zero _ _ _ (by
    intro k q hk; have := hnf k q hk
    cases q <;> simp [free] at this <;> simp [fCb])
  have hcbF : s.cbLock = false := by
    have := h.l.cb; rw [hcb] at this
    cases hc : s.cbLock <;> simp [hc] at this ⊢
  -- somebody about to take the (free) callback lock can run
  by_cases hE2 : ∃ k : Nat, s.tasks[k]? = some .cbAcq
  · obtain ⟨k, hk⟩ := hE2
    exact ⟨k, by unfold stepTask; rw [hk]; simp [hcbF]⟩
  have hnc : ∀ k : Nat, s.tasks[k]? ≠ some .cbAcq := fun k hk => hE2 ⟨k, hk⟩
  -- then nobody holds an inner callback lock: somebody waiting for one can run
  by_cases hE3 : ∃ k : Nat, s.tasks[k]? = some .cbAcqIn
  · obtain ⟨k, hk⟩ := hE3
    have hkl : k < cfg.n := by rw [← h.s.tasks_len]; exact getElem?_lt hk
    have hI : wsum (fIn cfg (cfg.poolOf k)) 0 s.tasks = 0 := wsum_eq_zero _ _ _ (by
      intro k' q hk'; have h1 := hnf k' q hk'; have h2 := hnc k'
      cases q <;> simp [free] at h1 <;> simp [fIn, inIn]
      exact absurd hk' h2)
    have := h.l.cin (cfg.poolOf k) (wf.poolOf_lt hkl); rw [hI] at this
    refine ⟨k, ?_⟩
    unfold stepTask; rw [hk]
    simp only [List.getD_eq_getElem?_getD] at this ⊢
    cases hc : s.cbIn[cfg.poolOf k]?.getD false <;> simp [hc] at this ⊢
  have hni : ∀ k : Nat, s.tasks[k]? ≠ some .cbAcqIn := fun k hk => hE3 ⟨k, hk⟩
  have hreg : wsum (fReg cfg) 0 s.tasks = 0 := wsum_eq_zero _ _ _ (by
    intro k q hk; have := hnf k q hk
    cases q <;> simp [free] at this <;> simp [fReg, holds])
  have hover : wsum (fOver cfg) 0 s.tasks = 0 := wsum_eq_zero _ _ _ (by
    intro k q hk; have := hnf k q hk
    cases q <;> simp [free] at this <;> simp [fOver, holds])
  have hinf : s.inFlight = 0 := by rw [h.l.reg]; exact hreg
  have hov : s.oversized = false := by
    have := h.l.over; rw [hover] at this
    cases ho : s.oversized <;> simp [ho] at this ⊢
  have hnw : ∀ k : Nat, s.tasks[k]? ≠ some .waiting := by
    intro k hk
    have := h.w k hk
    by_cases hc : cfg.size k > cfg.capacity
    · have := this.1 hc; rw [hov] at this; simp at this
    · have := this.2 (by omega); omega
  have hil : i < cfg.n := by rw [← h.s.tasks_len]; exact getElem?_lt hi
  refine ⟨i, ?_⟩
  have hfp := hnf i p hi
  unfold stepTask
  rw [hi]
  cases p <;> simp [free] at hfp <;> simp at hp
  · -- tAcq: nobody is inside a tensor section (all of its program counters have been excluded)
    have hT : wsum (fT cfg (cfg.obj i)) 0 s.tasks = 0 := wsum_eq_zero _ _ _ (by
      intro k q hk; have h1 := hnf k q hk; have h2 := hnw k; have h3 := hnc k; have h4 := hni k
      cases q <;> simp [free] at h1 <;> simp [fT, inT]
      · exact absurd hk h4
      · exact absurd hk h3
      · exact absurd hk h2)
    have := h.l.tl (cfg.obj i) (wf.obj_lt i hil); rw [hT] at this
    simp only [List.getD_eq_getElem?_getD] at this ⊢
    cases hc : s.tLocks[cfg.obj i]?.getD false <;> simp [hc] at this ⊢
  · exact absurd hi (hni i)
  · exact absurd hi (hnc i)
  · exact absurd hi (hnw i)

theorem wsum_pos_exists {α : Type} (f : Nat → α → Nat) : ∀ (l : List α) (k : Nat), 0 < wsum f k l →
    ∃ i a, l[i]? = some a ∧ 0 < f (k + i) a
  | [], _, h => by simp [wsum] at h
  | a :: as, k, h => by
      by_cases h0 : 0 < f k a
      · exact ⟨0, a, by simp, by simpa using h0⟩
      · have : 0 < wsum f (k + 1) as := by simp only [wsum] at h; omega
        obtain ⟨i, b, hi, hb⟩ := wsum_pos_exists f as (k + 1) this
        refine ⟨i + 1, b, by simpa using hi, ?_⟩
        have e : k + 1 + i = k + (i + 1) := by omega
        rw [← e]; exact hb

/-- a duplicate-free sub-collection that is shorter than the (duplicate-free) whole misses an element -/
theorem exists_mem_not_mem : ∀ (m l : List Nat), m.Nodup → l.Nodup → (∀ x ∈ l, x ∈ m) →
    l.length < m.length → ∃ x, x ∈ m ∧ x ∉ l
  | [], l, _, _, _, h => by simp at h
  | a :: m', l, hm, hl, hsub, hlen => by
      by_cases ha : a ∈ l
      · have hm' := (List.nodup_cons.1 hm)
        have hlen' : (l.erase a).length = l.length - 1 := List.length_erase_of_mem ha
        have hpos : 0 < l.length := List.length_pos_of_mem ha
        obtain ⟨x, hx, hxn⟩ := exists_mem_not_mem m' (l.erase a) hm'.2 (hl.erase a) (by
          intro x hx
          have hx' := (List.Nodup.mem_erase_iff hl).1 hx
          have := hsub x hx'.2
          simp at this
          rcases this with rfl | this
          · exact absurd rfl hx'.1
          · exact this) (by simp at hlen; omega)
        refine ⟨x, by simp [hx], fun hxl => hxn ?_⟩
        exact (List.Nodup.mem_erase_iff hl).2 ⟨fun e => hm'.1 (e ▸ hx), hxl⟩
      · exact ⟨a, by simp, ha⟩

theorem no_act_sum {cfg : Cfg} {s : State}
    (h : ∀ (i : Nat) (p : Pc), s.tasks[i]? = some p → act p = false) (q : Nat) :
    wsum (fActQ cfg q) 0 s.tasks = 0 :=
  wsum_eq_zero _ _ _ (by intro k p hk; simp [fActQ, h k p hk])

theorem parentPool_lt {cfg : Cfg} (wf : WF cfg) {q q' : Nat} (hq' : q' < cfg.nPools)
    (h : parentPool cfg q' = some q) : q < q' := by
  simp only [parentPool, Option.map_eq_some_iff] at h
  obtain ⟨jp, hjp, rfl⟩ := h
  obtain ⟨hjl, hsub⟩ := wf.parent_sub q' jp hq' hjp
  exact (wf.sub_pool jp q' hjl hsub).2.2

/-- with no tensor in progress, the owner of any live pool — or somebody below it — can run -/
theorem owner_progress {cfg : Cfg} (wf : WF cfg) {s : State} (h : Inv cfg s)
    (hna : ∀ (i : Nat) (p : Pc), s.tasks[i]? = some p → act p = false) :
    ∀ (m q : Nat), cfg.nPools - q ≤ m → ownAct (s.pl q).owner = true →
      ∃ l, (step cfg s l).isSome = true
  | 0, q, hm, ho => by
      have : q < s.pools.length := pl_lt_of_owner (by intro e; rw [e] at ho; simp [ownAct] at ho)
      rw [h.s.pools_len] at this; omega
  | m + 1, q, hm, ho => by
      have hql : q < s.pools.length := pl_lt_of_owner (by intro e; rw [e] at ho; simp [ownAct] at ho)
      have hqn : q < cfg.nPools := by rw [← h.s.pools_len]; exact hql
      have hget : s.pools[q]? = some (s.pl q) := by
        simp [State.pl, List.getD_eq_getElem?_getD, hql]
      have hnc : (s.pl q).owner ≠ .notCreated := by intro e; rw [e] at ho; simp [ownAct] at ho
      have hpool := h.p.pool q hnc
      rw [no_act_sum hna] at hpool
      -- a live sub pool owned from here: descend
      by_cases hO : 0 < wsum (fOwnQ cfg q) 0 s.pools
      · obtain ⟨q', P', hP', hpos⟩ := wsum_pos_exists _ _ _ hO
        simp only [Nat.zero_add, fOwnQ] at hpos
        split at hpos
        · rename_i hc
          have hq'n : q' < cfg.nPools := by rw [← h.s.pools_len]; exact getElem?_lt hP'
          have hlt := parentPool_lt wf hq'n hc.2
          exact owner_progress wf h hna m q' (by omega) (by rw [pl_of_get hP']; exact hc.1)
        · omega
      have hO0 : wsum (fOwnQ cfg q) 0 s.pools = 0 := by omega
      rw [hO0] at hpool
      have take_or_exit : (s.pl q).idle > 0 → ((s.pl q).queue ≠ [] ∨ (s.pl q).shutdown = true) →
          ∃ l, (step cfg s l).isSome = true := by
        intro hidle hqs
        cases hq : (s.pl q).queue with
        | nil =>
            rcases hqs with hqs | hqs
            · exact absurd hq hqs
            · exact ⟨.exit q, by simp [step, stepExit, hget, hq, hqs, hidle]⟩
        | cons j rest =>
            refine ⟨.take q, ?_⟩
            have : (s.pl q).idle ≠ 0 := by omega
            simp only [step, stepTake, hget, hq, this, if_false]
            split <;> simp
      cases hown : (s.pl q).owner with
      | notCreated => exact absurd hown hnc
      | closed e => rw [hown] at ho; simp [ownAct] at ho
      | submit k =>
          have hk := h.p.sub_lt q k hown
          refine ⟨.owner q 0, ?_⟩
          simp only [step, stepOwner, hget, hown]
          rw [List.getElem?_eq_getElem hk]; simp
      | join e =>
          have hsd : (s.pl q).shutdown = true := (h.p.sd_main q).2 ⟨e, Or.inl hown⟩
          by_cases hex : (s.pl q).exited = (cfg.pool q).size
          · refine ⟨.owner q 0, ?_⟩
            simp only [step, stepOwner, hget, hown, hex, if_true]
            split <;> simp
          · exact take_or_exit (by omega) (Or.inr hsd)
      | collect =>
          have hsd : (s.pl q).shutdown = false := by
            cases hsd : (s.pl q).shutdown
            · rfl
            · obtain ⟨e, he | he⟩ := (h.p.sd_main q).1 hsd <;> simp [hown] at he
          have hex : (s.pl q).exited = 0 := by
            rcases Nat.eq_zero_or_pos (s.pl q).exited with h0 | h0
            · exact h0
            · have := h.p.exited_sd q h0; simp [hsd] at this
          have hidle : (s.pl q).idle > 0 := by have := wf.size_pos q hqn; omega
          by_cases hq' : (s.pl q).queue ≠ []
          · exact take_or_exit hidle (Or.inl hq')
          have hq : (s.pl q).queue = [] := by
            cases hh : (s.pl q).queue with
            | nil => rfl
            | cons a b => exact absurd (by rw [hh]; simp) hq'
          -- every job of this pool is completed
          have hdone : ∀ j, j ∈ (cfg.pool q).jobs → (futDone s j).isSome = true := by
            intro j hj
            obtain ⟨hjl, hjp, _⟩ := wf.job_pool q j hj
            have hjf : j < s.futs.length := by rw [h.s.futs_len]; exact hjl
            obtain ⟨k, hk⟩ := List.getElem?_of_mem hj
            unfold futDone
            rw [List.getElem?_eq_getElem hjf]
            cases hf : s.futs[j] with
            | ok => rfl
            | err => rfl
            | pending =>
                have := h.j.pend_q q k j (by simp [nsub, hown]; exact getElem?_lt hk) hk
                  (by rw [List.getElem?_eq_getElem hjf, hf])
                rw [hq] at this; simp at this
            | running =>
                rcases h.j.run_act j (by rw [List.getElem?_eq_getElem hjf, hf]) with
                  ⟨i, p, _, hi, hp⟩ | ⟨q', hsub, hact⟩
                · rw [hna i p hi] at hp; simp at hp
                · exfalso
                  obtain ⟨hq'l, hpar, _⟩ := wf.sub_pool j q' hjl hsub
                  have hq'len : q' < s.pools.length := by rw [h.s.pools_len]; exact hq'l
                  have hg : s.pools[q']? = some (s.pl q') := by
                    simp [State.pl, List.getD_eq_getElem?_getD, hq'len]
                  have := wsum_ge0 (fOwnQ cfg q) s.pools q' _ hg
                  simp [fOwnQ, hact, parentPool, hpar, hjp] at this
                  omega
            | cancelled =>
                have := h.j.canc_sd j (by rw [List.getElem?_eq_getElem hjf, hf])
                rw [hjp, hsd] at this; simp at this
          have hlen := h.c.len q hown
          cases hmode : (cfg.pool q).asCompleted with
          | true =>
              obtain ⟨j, hj, hjn⟩ := exists_mem_not_mem _ _ (wf.jobs_nodup q) (h.c.nodup q)
                (h.c.mem q) hlen
              refine ⟨.owner q j, ?_⟩
              have hc : (s.pl q).collected.contains j = false := by simpa using hjn
              have hc2 : (cfg.pool q).jobs.contains j = true := by simpa using hj
              have := hdone j hj
              simp only [step, stepOwner, hget, hown, hmode, if_true, hc, hc2]
              simp [Option.isSome_map, this]
          | false =>
              refine ⟨.owner q 0, ?_⟩
              have hj := List.getElem?_eq_getElem hlen
              have := hdone _ (List.getElem_mem hlen)
              simp only [step, stepOwner, hget, hown, hmode, hj]
              simp [Option.isSome_map, this]

theorem progress {cfg : Cfg} (wf : WF cfg) {s : State} (h : Inv cfg s) (hnt : terminal s = false) :
    ∃ l, (step cfg s l).isSome = true := by
  by_cases hA : ∃ (i : Nat) (p : Pc), s.tasks[i]? = some p ∧ act p = true
  · obtain ⟨i, p, hi, hp⟩ := hA
    obtain ⟨k, hk⟩ := active_enabled wf h hi hp
    exact ⟨.task k, hk⟩
  have hna : ∀ (i : Nat) (p : Pc), s.tasks[i]? = some p → act p = false := by
    intro i p hi
    cases hp : act p
    · rfl
    · exact absurd ⟨i, p, hi, hp⟩ hA
  refine owner_progress wf h hna cfg.nPools 0 (by omega) ?_
  have hr := h.root
  simp only [terminal] at hnt
  change (match (s.pl 0).owner with | .closed _ => true | _ => false) = false at hnt
  cases ho : (s.pl 0).owner with
  | notCreated => exact absurd ho hr
  | closed e => rw [ho] at hnt; simp at hnt
  | submit k => rfl
  | collect => rfl
  | join e => rfl


/-! ### termination variant -/

def pcW (n : Nat) : Pc → Nat
  | .notStarted => 11 + (n + 1)
  | .tAcq => 10 + (n + 1)
  | .cbAcqIn => 9 + (n + 1)
  | .cbAcq => 8 + (n + 1)
  | .cbBody => 7 + (n + 1)
  | .bAcq => 6 + (n + 1)
  | .woken => 5 + (n + 1)
  | .waiting => 4 + (n + 1)
  | .write => 3 + (n + 1)
  | .bRel _ => 2 + (n + 1)
  | .done _ => 0

/-- weight of a pool: what its owner still has to do, plus its idle threads (each may still exit) -/
def poolW (cfg : Cfg) (q : Nat) (P : PoolSt) : Nat :=
  P.idle +
  match P.owner with
  | .notCreated => 2 * (cfg.pool q).jobs.length + 6 + (cfg.pool q).size
  | .submit k => ((cfg.pool q).jobs.length - k) + (cfg.pool q).jobs.length + 4
  | .collect => ((cfg.pool q).jobs.length - P.collected.length) + 3
  | .join _ => 2
  | .closed _ => 0

def variant (cfg : Cfg) (s : State) : Nat :=
  wsum (poolW cfg) 0 s.pools + wsum (fun _ p => pcW cfg.n p) 0 s.tasks

theorem wsum_map_le {α : Type} (f : Nat → α → Nat) (g : α → α) (hg : ∀ i p, f i (g p) ≤ f i p + 1) :
    ∀ (l : List α) (k : Nat), wsum f k (l.map g) ≤ wsum f k l + l.length
  | [], _ => by simp [wsum]
  | q :: qs, k => by
      have := wsum_map_le f g hg qs (k + 1)
      have := hg k q
      simp only [List.map_cons, wsum, List.length_cons]; omega

theorem pcW_act {n : Nat} {p : Pc} (h : act p = true) : n + 3 ≤ pcW n p := by
  cases p <;> simp at h <;> simp [pcW] <;> omega

theorem pcW_firstPc (cfg : Cfg) (q : Nat) : pcW cfg.n (firstPc cfg q) < pcW cfg.n .notStarted := by
  simp [firstPc, pcW]

theorem pcW_afterT (cfg : Cfg) (q : Nat) : pcW cfg.n (afterT cfg q) < pcW cfg.n .tAcq := by
  unfold afterT; split <;> simp [pcW]

theorem poolW_addIdle {cfg : Cfg} (ps : List PoolSt) (q : Nat) :
    wsum (poolW cfg) 0 (addIdle ps q) ≤ wsum (poolW cfg) 0 ps + 1 := by
  unfold addIdle
  by_cases h : q < ps.length
  · have := wsum_set0 (poolW cfg) ps q (ps.getD q default)
      { ps.getD q default with idle := (ps.getD q default).idle + 1 }
      (by simp [List.getD_eq_getElem?_getD, h])
    simp only [poolW] at this ⊢
    omega
  · rw [List.set_eq_of_length_le (by omega)]; omega

theorem variant_finish {cfg : Cfg} {s : State} (hs : SInv cfg s) {i : Nat} {p : Pc} (ok : Bool)
    (hi : s.tasks[i]? = some p) (hp : act p = true) :
    variant cfg (finishTask cfg s i ok) + pcW cfg.n p ≤ variant cfg s + 1 := by
  have hpd : p ≠ .done true := by intro e; subst e; simp at hp
  unfold variant
  rcases finishTask_cases cfg s i ok with ⟨rfl, hn, e⟩ | ⟨_, e⟩
  · rw [e]
    have hnext := hs.next_notStarted hi hpd hn
    have h1 : wsum (fun _ p => pcW cfg.n p) 0 (s.tasks.set i (.done true)) + pcW cfg.n p
        = wsum (fun _ p => pcW cfg.n p) 0 s.tasks + pcW cfg.n (.done true) :=
      wsum_set0 (fun _ p => pcW cfg.n p) s.tasks i p (.done true) hi
    have h2 : wsum (fun _ p => pcW cfg.n p) 0
          ((s.tasks.set i (.done true)).set (i + 1) (firstPc cfg (cfg.poolOf i))) + pcW cfg.n .notStarted
        = wsum (fun _ p => pcW cfg.n p) 0 (s.tasks.set i (.done true)) + pcW cfg.n (firstPc cfg (cfg.poolOf i)) :=
      wsum_set0 (fun _ p => pcW cfg.n p) (s.tasks.set i (.done true)) (i + 1)
        .notStarted _ (by simp only [List.getElem?_set]; simp; exact hnext)
    have h3 := pcW_firstPc cfg (cfg.poolOf i)
    have h4 : pcW cfg.n (.done true) = 0 := rfl
    simp only
    omega
  · rw [e]
    have h1 : wsum (fun _ p => pcW cfg.n p) 0 (s.tasks.set i (.done ok)) + pcW cfg.n p
        = wsum (fun _ p => pcW cfg.n p) 0 s.tasks + pcW cfg.n (.done ok) :=
      wsum_set0 (fun _ p => pcW cfg.n p) s.tasks i p (.done ok) hi
    have h4 : pcW cfg.n (.done ok) = 0 := rfl
    have h5 := poolW_addIdle (cfg := cfg) s.pools (cfg.poolOf i)
    simp only
    omega

theorem variant_decreases {cfg : Cfg} (wf : WF cfg) {s s' : State} {l : Label} (h : Inv cfg s)
    (hst : StepRel cfg s l s') : variant cfg s' < variant cfg s := by
  have hset : ∀ {i : Nat} {p x : Pc}, s.tasks[i]? = some p → pcW cfg.n x < pcW cfg.n p →
      wsum (fun _ p => pcW cfg.n p) 0 (s.tasks.set i x) < wsum (fun _ p => pcW cfg.n p) 0 s.tasks := by
    intro i p x hi hlt
    have : wsum (fun _ p => pcW cfg.n p) 0 (s.tasks.set i x) + pcW cfg.n p
        = wsum (fun _ p => pcW cfg.n p) 0 s.tasks + pcW cfg.n x :=
      wsum_set0 (fun _ p => pcW cfg.n p) s.tasks i p x hi
    omega
  have pset : ∀ {q : Nat} {P : PoolSt} (P' : PoolSt), s.pools[q]? = some P →
      wsum (poolW cfg) 0 (s.pools.set q P') + poolW cfg q P = wsum (poolW cfg) 0 s.pools + poolW cfg q P' :=
    fun P' hP => wsum_set0 (poolW cfg) s.pools _ _ P' hP
  cases hst with
  | submit q c k j P hP hk hj =>
      have hklt := getElem?_lt hj
      have := pset ({ P with
        queue := P.queue ++ [j]
        owner := if k + 1 < (cfg.pool q).jobs.length then .submit (k + 1) else .collect } : PoolSt) hP
      simp only [variant]
      by_cases hk1 : k + 1 < (cfg.pool q).jobs.length
      · simp only [poolW, hk, hk1, if_true] at this ⊢; omega
      · simp only [poolW, hk, hk1, if_false] at this ⊢; omega
  | collect q c j ok P hP hm hjj hf =>
      have hlen := h.c.len q (by rw [pl_of_get hP]; exact hm)
      rw [pl_of_get hP] at hlen
      unfold collectOne
      cases ok
      · simp only [Bool.false_eq_true, if_false]
        split
        · have := pset { P with collected := j :: P.collected, shutdown := true
                                owner := .join true, queue := [] } hP
          simp only [variant, poolW, hm] at this ⊢; omega
        · have := pset { P with collected := j :: P.collected, shutdown := true, owner := .join true } hP
          simp only [variant, poolW, hm] at this ⊢; omega
      · simp only [if_true]
        split
        · have := pset { P with collected := j :: P.collected, shutdown := true, owner := .join false } hP
          simp only [variant, poolW, hm] at this ⊢; omega
        · have := pset { P with collected := j :: P.collected } hP
          simp only [variant, poolW, hm, List.length_cons] at this ⊢; omega
  | joinRoot q c e P hP hm hex hpar =>
      have := pset { P with owner := .closed e } hP
      simp only [variant, poolW, hm] at this ⊢; omega
  | joinSub q c e P jp hP hm hex hpar =>
      have := pset { P with owner := .closed e } hP
      have h5 := poolW_addIdle (cfg := cfg) (s.pools.set q { P with owner := .closed e }) (cfg.jobc jp).pool
      simp only [variant, poolW, hm] at this h5 ⊢; omega
  | takeSerial q j rest P hP hq hidle hsub =>
      have hj : j ∈ (s.pl q).queue := by rw [pl_of_get hP, hq]; simp
      have h1 := hset (h.s.start_notStarted wf hj hsub) (pcW_firstPc cfg q)
      have := pset { P with queue := rest, idle := P.idle - 1 } hP
      simp only [variant, poolW] at this ⊢; omega
  | takeSub q j rest P q' hP hq hidle hsub =>
      obtain ⟨_, _, hpj, hpool, hjl, hncP, _, _⟩ := take_facts wf h.s hP hq
      obtain ⟨hq'l, hpar, hlt⟩ := wf.sub_pool j q' hjl hsub
      have hqq : q' ≠ q := by rw [hpool] at hlt; omega
      have hfr : (s.pl q').owner = .notCreated := by
        cases ho : (s.pl q').owner with
        | notCreated => rfl
        | _ => exact absurd hpj (h.s.created q' j hpar (by rw [ho]; simp))
      obtain ⟨hf1, _, _, _⟩ := h.p.fresh0 q' hfr
      have hq'len : q' < (s.pools.set q { P with queue := rest, idle := P.idle - 1 }).length := by
        simp [h.s.pools_len]; exact hq'l
      have hget : (s.pools.set q { P with queue := rest, idle := P.idle - 1 })[q']? = some (s.pl q') := by
        have := pl_upd (P' := { P with queue := rest, idle := P.idle - 1 }) hP q'
        simp only [hqq, if_false] at this
        rw [List.getD_eq_getElem?_getD] at this
        rw [List.getElem?_eq_getElem hq'len] at this ⊢
        simp at this; rw [this]
      have h1 := pset { P with queue := rest, idle := P.idle - 1 } hP
      have h2 := wsum_set0 (poolW cfg) (s.pools.set q { P with queue := rest, idle := P.idle - 1 }) q'
        (s.pl q') { (s.pools.set q { P with queue := rest, idle := P.idle - 1 }).getD q' default with
          owner := .submit 0, idle := (cfg.pool q').size } hget
      simp only [variant, createPool]
      simp only [poolW, hfr, hf1] at h1 h2 ⊢
      omega
  | exit q P hP hq hsd hidle =>
      have := pset { P with idle := P.idle - 1, exited := P.exited + 1 } hP
      simp only [variant, poolW] at this ⊢; omega
  | cbAcqIn i hi hl =>
      have := hset (x := .cbAcq) hi (by simp [pcW]); simp only [variant]; omega
  | cbAcq i hi hl =>
      have := hset (x := .cbBody) hi (by simp [pcW]); simp only [variant]; omega
  | cbFail i hi hf =>
      have := variant_finish (s := { s with log := s.log ++ [i], cbLock := false
                                            cbIn := if (cfg.pool (cfg.poolOf i)).innerCb
                                              then s.cbIn.set (cfg.poolOf i) false else s.cbIn
                                            tLocks := s.tLocks.set (cfg.obj i) false })
        (SInv_congr h.s rfl rfl (by simp) rfl (by simp only; split <;> simp) (fun _ => rfl) (fun _ => rfl))
        false hi rfl
      have h3 := pcW_act (n := cfg.n) (p := .cbBody) rfl
      simp only [variant] at this ⊢
      omega
  | cbOk i hi hf =>
      have := hset (x := .bAcq) hi (by simp [pcW]); simp only [variant]; omega
  | tAcq i hi hl =>
      have := hset (x := afterT cfg (cfg.poolOf i)) hi (pcW_afterT cfg _); simp only [variant]; omega
  | bTry i p hi hp' =>
      rcases budgetTry_cases cfg s i with ⟨_, _, e⟩ | ⟨_, _, e⟩ | ⟨_, _, e⟩ | ⟨_, _, e⟩ <;> rw [e]
      · have := hset (x := .waiting) hi (by rcases hp' with rfl | rfl <;> simp [pcW])
        simp only [variant]; omega
      · have := hset (x := .write) hi (by rcases hp' with rfl | rfl <;> simp [pcW])
        simp only [variant]; omega
      · have := hset (x := .write) hi (by rcases hp' with rfl | rfl <;> simp [pcW])
        simp only [variant]; omega
      · have := hset (x := .waiting) hi (by rcases hp' with rfl | rfl <;> simp [pcW])
        simp only [variant]; omega
  | writeFail i hi hf =>
      have := hset (x := .bRel false) hi (by simp [pcW]); simp only [variant]; omega
  | writeOk i hi hf =>
      have := hset (x := .bRel true) hi (by simp [pcW]); simp only [variant]; omega
  | bRel i ok hi =>
      unfold budgetRelease
      have hs0 : SInv cfg { s with oversized := if cfg.size i > cfg.capacity then false else s.oversized
                                   inFlight := if cfg.size i > cfg.capacity then s.inFlight else s.inFlight - cfg.size i
                                   tasks := s.tasks.map wake
                                   tLocks := s.tLocks.set (cfg.obj i) false } :=
        SInv_congr (s := { s with tasks := s.tasks.map wake }) (SInv_wake h.s) rfl rfl (by simp) rfl rfl
          (fun _ => rfl) (fun _ => rfl)
      have := variant_finish hs0 (i := i) (p := .bRel ok) ok (by simp [hi, wake]) rfl
      have hw := wsum_map_le (fun _ p => pcW cfg.n p) wake
        (by intro _ p; cases p <;> simp [wake, pcW] <;> omega) s.tasks 0
      have hlen := h.s.tasks_len
      have h3 : pcW cfg.n (.bRel ok) = 2 + (cfg.n + 1) := rfl
      simp only [variant] at this ⊢
      omega

end IrVerif.WriterN

/-
An invariant of the extension state of `Model/ScopeExt.lean`: every value a sharding spec was RESOLVED to is an
allocated value of the model that carries a non-empty name (so serializing that spec never raises for lack of a
value or of a name, and writes the name the proto had).
-/
import IrVerif.Lemmas.ScopeExt
import IrVerif.Lemmas.ScopeTree
import IrVerif.Lemmas.ScopeModel
namespace IrVerif.Scope

/-- every resolved sharding value is allocated and named -/
def DevsOK (st : Store) (x : Ext) : Prop :=
  ∀ n d, d ∈ x.devs n → ∀ s ∈ d.specs, ∀ v, s.1 = ShardV.val v →
    v < st.nv ∧ ∃ t, t ≠ "" ∧ (st.vals v).name = some t

theorem DevsOK.keep {st st' : Store} {x x' : Ext} (h : DevsOK st x) (hd : x'.devs = x.devs) (hle : st.nv ≤ st'.nv)
    (hn : ∀ v, v < st.nv → (st'.vals v).name = (st.vals v).name) : DevsOK st' x' := by
  intro n d hdm s hs v hv
  rw [hd] at hdm
  obtain ⟨hlt, t, ht, hnm⟩ := h n d hdm s hs v hv
  exact ⟨Nat.lt_of_lt_of_le hlt hle, t, ht, by rw [hn v hlt]; exact hnm⟩

/-! ### the helpers leave the device configurations alone -/

theorem Ext.merge_devs (x : Ext) (v : Nat) (es : SS) : (x.merge v es).devs = x.devs := by
  unfold Ext.merge
  split <;> rfl

theorem Ext.annotate_devs (x : Ext) (qt : List (Name × SS)) (v : Nat) (n : Name) : (x.annotate qt v n).devs = x.devs := by
  unfold Ext.annotate
  split <;> rfl

theorem Ext.newNamed_devs (x : Ext) (vt : List (Name × Info × SS)) (qt : List (Name × SS)) (v : Nat) (n : Name) :
    (x.newNamed vt qt v n).devs = x.devs := by
  unfold Ext.newNamed
  split
  · rw [Ext.annotate_devs, Ext.merge_devs]
  · rw [Ext.annotate_devs]

theorem deserInputsE_devs (qt : List (Name × SS)) : ∀ (is : List VInfoE) (st : Store) (x : Ext),
    (deserInputsE st x qt is).2.1.devs = x.devs
  | [], _, _ => rfl
  | i :: is, st, x => by
    simp only [deserInputsE]
    rw [deserInputsE_devs qt is, Ext.annotate_devs, Ext.merge_devs]

theorem deserInitsE_devs (vt : List (Name × Info × SS)) (qt : List (Name × SS)) :
    ∀ (ts : List TensorP) (st : Store) (x : Ext) (tbl : Table), (deserInitsE st x tbl vt qt ts).2.1.devs = x.devs
  | [], _, _, _ => rfl
  | t :: ts, st, x, tbl => by
    simp only [deserInitsE]
    by_cases hn : t.name = ""
    · simp only [hn, if_true]
      exact deserInitsE_devs vt qt ts st x tbl
    · simp only [hn, if_false]
      cases hl : tbl.lookup t.name with
      | some v =>
        simp only
        exact deserInitsE_devs vt qt ts _ x tbl
      | none =>
        simp only
        rw [deserInitsE_devs vt qt ts, Ext.newNamed_devs]

theorem declareOutputsE_devs (vt : List (Name × Info × SS)) (qt : List (Name × SS)) :
    ∀ (ns : List Name) (st : Store) (x : Ext) (tbl : Table) (st' : Store) (x' : Ext) (tbl' : Table),
      declareOutputsE st x tbl vt qt ns = .ok (st', x', tbl') → x'.devs = x.devs
  | [], st, x, tbl, st', x', tbl', h => by
    simp only [declareOutputsE, Except.ok.injEq, Prod.mk.injEq] at h
    rw [← h.2.1]
  | n :: ns, st, x, tbl, st', x', tbl', h => by
    simp only [declareOutputsE] at h
    by_cases hn : n = ""
    · simp only [hn, if_true] at h
      exact declareOutputsE_devs vt qt ns st x tbl st' x' tbl' h
    · simp only [hn, if_false] at h
      cases hl : tbl.lookup n with
      | some v => simp [hl] at h
      | none =>
        simp only [hl] at h
        rw [declareOutputsE_devs vt qt ns _ _ _ st' x' tbl' h, Ext.newNamed_devs]

theorem declareNodesE_devs (vt : List (Name × Info × SS)) (qt : List (Name × SS)) :
    ∀ (ns : List NodeE) (st : Store) (x : Ext) (tbl : Table) (st' : Store) (x' : Ext) (tbl' : Table),
      declareNodesE st x tbl vt qt ns = .ok (st', x', tbl') → x'.devs = x.devs
  | [], st, x, tbl, st', x', tbl', h => by
    simp only [declareNodesE, Except.ok.injEq, Prod.mk.injEq] at h
    rw [← h.2.1]
  | n :: ns, st, x, tbl, st', x', tbl', h => by
    simp only [declareNodesE] at h
    split at h
    · simp at h
    · rename_i st1 x1 tbl1 h1
      rw [declareNodesE_devs vt qt ns st1 x1 tbl1 st' x' tbl' h, declareOutputsE_devs vt qt _ _ _ _ _ _ _ h1]

theorem resolveInputsE_devs (outer : List Table) (vt : List (Name × Info × SS)) (qt : List (Name × SS)) :
    ∀ (ns : List Name) (st : Store) (x : Ext) (top : Table), (resolveInputsE st x top outer vt qt ns).2.1.devs = x.devs
  | [], _, _, _ => rfl
  | n :: ns, st, x, top => by
    simp only [resolveInputsE]
    by_cases hn : n = ""
    · simp only [hn, if_true]
      exact resolveInputsE_devs outer vt qt ns st x top
    · simp only [hn, if_false]
      cases hl : resolve n (top :: outer) with
      | some v =>
        simp only
        exact resolveInputsE_devs outer vt qt ns st x top
      | none =>
        simp only
        rw [resolveInputsE_devs outer vt qt ns, Ext.newNamed_devs]

theorem deserOutputsE_devs (tbl : Table) : ∀ (os : List VInfoE) (st : Store) (x : Ext),
    (deserOutputsE st x tbl os).2.1.devs = x.devs
  | [], _, _ => rfl
  | o :: os, st, x => by
    simp only [deserOutputsE]
    cases hl : tbl.lookup o.name with
    | some v =>
      simp only
      rw [deserOutputsE_devs tbl os, Ext.merge_devs]
    | none =>
      simp only
      rw [deserOutputsE_devs tbl os, Ext.merge_devs]

/-! ### resolved sharding values -/

theorem resolveShard_val {scopes : List Table} {n : Name} {v : Nat} (h : resolveShard scopes n = ShardV.val v) :
    n ≠ "" ∧ ∃ t ∈ scopes, (n, v) ∈ t := by
  unfold resolveShard at h
  split at h
  · simp at h
  · rename_i hn
    split at h
    · rename_i w hw
      simp only [ShardV.val.injEq] at h
      subst h
      exact ⟨hn, resolve_mem n scopes w hw⟩
    · simp at h

theorem TreeNamedKeep {st st' : Store} {ts : List Table} (h : ∀ t ∈ ts, Named st t) (hl : TablesLt st ts)
    (hn : ∀ v, v < st.nv → (st'.vals v).name = (st.vals v).name) : ∀ t ∈ ts, Named st' t :=
  fun t ht => (h t ht).keep (hl t ht) hn

/-! ### the mutual induction -/

mutual
theorem deserGraphE_devsOK :
    ∀ (p : GraphE) (st : Store) (x : Ext) (outer : List Table) (st' : Store) (x' : Ext) (g : GraphT),
      Fresh st → TablesLt st outer → (∀ t ∈ outer, Named st t) → DevsOK st x →
      deserGraphE st x outer p = .ok (st', x', g) → DevsOK st' x'
  | .mk inputs inits vinfo nodes outputs quant, st, x, outer, st', x', g, hf, ho, hno, hd, h => by
    simp only [deserGraphE] at h
    -- inputs
    obtain ⟨i1, i2⟩ := deserInputsE_erase (quantTable quant) inputs st x
    have dI := deserInputsE_devs (quantTable quant) inputs st x
    obtain ⟨q1, _, _⟩ := deserInputs_spec st (inputs.map VInfoE.erase)
    have ok1 := inputTable_ok st (inputs.map VInfoE.erase)
    have n1 := deserInputs_named (inputs.map VInfoE.erase) st
    rw [← i1] at q1 ok1 n1
    rw [← i2] at ok1 n1
    generalize deserInputsE st x (quantTable quant) inputs = rI at h dI q1 ok1 n1
    obtain ⟨st1, x1, ins⟩ := rI
    simp only at h dI q1 ok1 n1
    have f1 := q1.fresh hf
    -- initializers
    obtain ⟨j1, j2, j3⟩ := deserInitsE_erase (vinfoTableE vinfo) (quantTable quant) inits st1 x1
      (inputTable (inputs.map VInfoE.erase) ins)
    have dA := deserInitsE_devs (vinfoTableE vinfo) (quantTable quant) inits st1 x1
      (inputTable (inputs.map VInfoE.erase) ins)
    obtain ⟨q2, ok2, _, _⟩ := deserInits_spec (eraseVT (vinfoTableE vinfo)) inits st1
      (inputTable (inputs.map VInfoE.erase) ins) st.nv ok1 q1.nv_le
    have n2 := deserInits_named (eraseVT (vinfoTableE vinfo)) inits st1 _ n1 ok1.lt
    rw [← j1] at q2 ok2 n2
    rw [← j2] at ok2 n2
    generalize deserInitsE st1 x1 (inputTable (inputs.map VInfoE.erase) ins) (vinfoTableE vinfo) (quantTable quant)
      inits = rA at h dA q2 ok2 n2
    obtain ⟨st2, x2, tbl2, initVals⟩ := rA
    simp only at h dA q2 ok2 n2
    have f2 := q2.fresh f1
    have le2 : st.nv ≤ st2.nv := Nat.le_trans q1.nv_le q2.nv_le
    split at h
    · simp at h
    · rename_i st3 x3 tbl3 h3
      have d3 := declareNodesE_devs _ _ _ _ _ _ _ _ _ h3
      have e3 := declareNodesE_erase (vinfoTableE vinfo) (quantTable quant) nodes st2 x2 tbl2
      rw [h3] at e3
      simp only [dropX] at e3
      obtain ⟨q3, ok3, _, _, _⟩ := declareNodes_spec _ _ st2 tbl2 st.nv st3 tbl3 ok2 le2 e3.symm
      have f3 := q3.fresh f2
      have n3 := declareNodes_named _ _ st2 tbl2 st3 tbl3 n2 ok2.lt e3.symm
      have le3 : st.nv ≤ st3.nv := Nat.le_trans le2 q3.nv_le
      have nm13 : ∀ v, v < st.nv → (st3.vals v).name = (st.vals v).name := fun v hv => by
        rw [q3.names v (Nat.lt_of_lt_of_le hv le2), q2.names v (Nat.lt_of_lt_of_le hv q1.nv_le), q1.names v hv]
      have hd3 : DevsOK st3 x3 := hd.keep (by rw [d3, dA, dI]) le3 nm13
      split at h
      · simp at h
      · rename_i st4 x4 tbl4 ns h4
        have e4 := deserNodesE_erase nodes st3 x3 tbl3 outer (vinfoTableE vinfo) (quantTable quant)
        rw [h4] at e4
        simp only [dropX] at e4
        obtain ⟨f4, m4, ok4, _⟩ := deserNodes_struct _ st3 tbl3 outer _ st.nv st4 tbl4 ns f3 ok3 (ho.mono le3) le3 e4.symm
        obtain ⟨hd4, _⟩ := deserNodesE_devsOK nodes st3 x3 tbl3 outer (vinfoTableE vinfo) (quantTable quant) st.nv st4 x4
          tbl4 ns f3 ok3 (ho.mono le3) le3 n3 (TreeNamedKeep hno ho nm13) hd3 h4
        -- outputs and the graph object
        obtain ⟨o1, o2⟩ := deserOutputsE_erase tbl4 outputs st4 x4
        have dO := deserOutputsE_devs tbl4 outputs st4 x4
        obtain ⟨q5, _⟩ := deserOutputs_spec tbl4 (outputs.map VInfoE.erase) st4 st.nv ok4
        rw [← o1] at q5
        generalize deserOutputsE st4 x4 tbl4 outputs = rO at h dO q5
        obtain ⟨st5, x5, outs⟩ := rO
        simp only [Except.ok.injEq, Prod.mk.injEq] at h dO q5
        obtain ⟨rfl, rfl, _⟩ := h
        obtain ⟨c1, _, _⟩ := mkGraph_fst_counters st5 ins outs ns initVals
        refine hd4.keep dO (by rw [c1]; exact q5.nv_le) (fun v hv => ?_)
        rw [mkGraph_cell]
        exact q5.names v hv
theorem deserNodesE_devsOK :
    ∀ (ns : List NodeE) (st : Store) (x : Ext) (top : Table) (outer : List Table) (vt : List (Name × Info × SS))
      (qt : List (Name × SS)) (b : Nat) (st' : Store) (x' : Ext) (top' : Table) (nts : List NodeT),
      Fresh st → TblOK st b top → TablesLt st outer → b ≤ st.nv → Named st top → (∀ t ∈ outer, Named st t) →
      DevsOK st x → deserNodesE st x top outer vt qt ns = .ok (st', x', top', nts) →
      DevsOK st' x' ∧ Named st' top'
  | [], st, x, top, outer, vt, qt, b, st', x', top', nts, _, _, _, _, hn, _, hd, h => by
    simp only [deserNodesE, Except.ok.injEq, Prod.mk.injEq] at h
    obtain ⟨rfl, rfl, rfl, _⟩ := h
    exact ⟨hd, hn⟩
  | n :: ns, st, x, top, outer, vt, qt, b, st', x', top', nts, hf, hok, ho, hb, hn, hno, hd, h => by
    simp only [deserNodesE] at h
    split at h
    · simp at h
    · rename_i st1 x1 top1 nt h1
      split at h
      · simp at h
      · rename_i st2 x2 top2 nts' h2
        simp only [Except.ok.injEq, Prod.mk.injEq] at h
        obtain ⟨rfl, rfl, rfl, _⟩ := h
        have e1 := deserNodeE_erase n st x top outer vt qt
        rw [h1] at e1
        simp only [dropX] at e1
        obtain ⟨f1, m1, ok1, _⟩ := deserNode_struct _ st top outer _ b st1 top1 nt hf hok ho hb e1.symm
        obtain ⟨hd1, n1⟩ := deserNodeE_devsOK n st x top outer vt qt b st1 x1 top1 nt hf hok ho hb hn hno hd h1
        exact deserNodesE_devsOK ns st1 x1 top1 outer vt qt b st2 x2 top2 nts' f1 ok1 (ho.mono m1.nv_le)
          (Nat.le_trans hb m1.nv_le) n1 (TreeNamedKeep hno ho m1.names) hd1 h2
theorem deserNodeE_devsOK :
    ∀ (n : NodeE) (st : Store) (x : Ext) (top : Table) (outer : List Table) (vt : List (Name × Info × SS))
      (qt : List (Name × SS)) (b : Nat) (st' : Store) (x' : Ext) (top' : Table) (nt : NodeT),
      Fresh st → TblOK st b top → TablesLt st outer → b ≤ st.nv → Named st top → (∀ t ∈ outer, Named st t) →
      DevsOK st x → deserNodeE st x top outer vt qt n = .ok (st', x', top', nt) →
      DevsOK st' x' ∧ Named st' top'
  | .mk inputs outputs devs subs, st, x, top, outer, vt, qt, b, st', x', top', nt, hf, hok, ho, hb, hn, hno, hd, h => by
    simp only [deserNodeE] at h
    obtain ⟨k1, k2, _⟩ := resolveInputsE_erase outer vt qt inputs st x top
    have dR := resolveInputsE_devs outer vt qt inputs st x top
    obtain ⟨q1, ok1, _, _⟩ := resolveInputs_spec outer (eraseVT vt) inputs st top b hok ho hb
    have n1 := resolveInputs_named outer (eraseVT vt) inputs st top hn hok.lt
    rw [← k1] at q1 ok1 n1
    rw [← k2] at ok1 n1
    generalize resolveInputsE st x top outer vt qt inputs = rR at h dR q1 ok1 n1
    obtain ⟨st1, x1, top1, ins⟩ := rR
    simp only at h dR q1 ok1 n1
    have f1 := q1.fresh hf
    split at h
    · simp at h
    · rename_i st2 outs h2
      obtain ⟨q2, _, _, _, _⟩ := lookupOutputs_spec _ outputs _ _ _ h2
      have f2 := q2.fresh f1
      have hts : TablesLt st2 (top1 :: outer) :=
        TablesLt.cons (ok1.lt.mono q2.nv_le) (ho.mono (Nat.le_trans q1.nv_le q2.nv_le))
      have nm02 : ∀ v, v < st.nv → (st2.vals v).name = (st.vals v).name := fun v hv => by
        rw [q2.names v (Nat.lt_of_lt_of_le hv q1.nv_le), q1.names v hv]
      have hns2 : ∀ t ∈ top1 :: outer, Named st2 t := by
        intro t ht
        simp only [List.mem_cons] at ht
        rcases ht with rfl | ht
        · exact n1.keep ok1.lt q2.names
        · exact (hno t ht).keep (ho t ht) nm02
      have hd2 : DevsOK st2 x1 := hd.keep dR (Nat.le_trans q1.nv_le q2.nv_le) nm02
      split at h
      · simp at h
      · rename_i st3 x3 gs h3
        simp only [Except.ok.injEq, Prod.mk.injEq] at h
        obtain ⟨rfl, rfl, rfl, _⟩ := h
        have e3 := deserSubsE_erase subs st2 x1 (top1 :: outer)
        rw [h3] at e3
        simp only [dropX] at e3
        obtain ⟨_, m3⟩ := deserSubs_struct _ st2 _ st3 gs f2 hts e3.symm
        have hd3 := deserSubsE_devsOK subs st2 x1 (top1 :: outer) st3 x3 gs f2 hts hns2 hd2 h3
        have hk := mkNode_keeps st3 ins outs gs
        have hnv : (mkNode st3 ins outs gs).1.nv = st3.nv := mkNode_fst_nv st3 ins outs gs
        refine ⟨?_, ?_⟩
        · -- the device configurations of this node, and those recorded before
          intro nid d hdm s hs v hv
          simp only [Ext.setDevs] at hdm
          split at hdm
          · -- this node: resolved against `top1 :: outer` at `st1`
            simp only [List.mem_map] at hdm
            obtain ⟨dp, _, rfl⟩ := hdm
            simp only [deserDevR, List.mem_map] at hs
            obtain ⟨sp, _, rfl⟩ := hs
            obtain ⟨hne, t, ht, hm⟩ := resolveShard_val hv
            have hlt2 : v < st2.nv := hts t ht _ hm
            have hnm2 : (st2.vals v).name = some sp.1 := hns2 t ht _ hm
            refine ⟨by rw [hnv]; exact Nat.lt_of_lt_of_le hlt2 m3.nv_le, sp.1, hne, ?_⟩
            rw [(hk v).1, m3.names v hlt2]
            exact hnm2
          · obtain ⟨hlt, t, ht, hnm⟩ := hd3 nid d hdm s hs v hv
            exact ⟨by rw [hnv]; exact hlt, t, ht, by rw [(hk v).1]; exact hnm⟩
        · intro e he
          have hlt := ok1.lt e he
          rw [(hk e.2).1, m3.names e.2 (Nat.lt_of_lt_of_le hlt q2.nv_le), q2.names e.2 hlt]
          exact n1 e he
theorem deserSubsE_devsOK :
    ∀ (gs : List GraphE) (st : Store) (x : Ext) (scopes : List Table) (st' : Store) (x' : Ext) (gts : List GraphT),
      Fresh st → TablesLt st scopes → (∀ t ∈ scopes, Named st t) → DevsOK st x →
      deserSubsE st x scopes gs = .ok (st', x', gts) → DevsOK st' x'
  | [], st, x, scopes, st', x', gts, _, _, _, hd, h => by
    simp only [deserSubsE, Except.ok.injEq, Prod.mk.injEq] at h
    obtain ⟨rfl, rfl, _⟩ := h
    exact hd
  | g :: gs, st, x, scopes, st', x', gts, hf, hs, hns, hd, h => by
    simp only [deserSubsE] at h
    split at h
    · simp at h
    · rename_i st1 x1 gt h1
      split at h
      · simp at h
      · rename_i st2 x2 gts' h2
        simp only [Except.ok.injEq, Prod.mk.injEq] at h
        obtain ⟨rfl, rfl, _⟩ := h
        have e1 := deserGraphE_erase g st x scopes
        rw [h1] at e1
        simp only [dropX] at e1
        obtain ⟨f1, m1⟩ := deserGraph_struct _ st scopes st1 gt hf hs e1.symm
        have hd1 := deserGraphE_devsOK g st x scopes st1 x1 gt hf hs hns hd h1
        exact deserSubsE_devsOK gs st1 x1 scopes st2 x2 gts' f1 (hs.mono m1.nv_le) (TreeNamedKeep hns hs m1.names) hd1 h2
end

/-- what the extended deserializer returns: every resolved sharding value is an allocated, named value -/
theorem deserializeE_devsOK (p : GraphE) (w : WorldE) (h : deserializeE p = .ok w) : DevsOK w.st w.ext := by
  simp only [deserializeE] at h
  split at h
  · simp at h
  · rename_i st x g hg
    simp only [Except.ok.injEq] at h
    subst h
    exact deserGraphE_devsOK p {} {} [] st x g (fun _ _ => rfl) (fun _ ht => by simp at ht) (fun _ ht => by simp at ht)
      (fun _ _ hd => by simp [Ext.devs] at hd) hg

/-! ### functions and models -/

theorem deserFInputsE_devs (vt : List (Name × Info × SS)) : ∀ (ns : List Name) (st : Store) (x : Ext),
    (deserFInputsE st x vt ns).2.1.devs = x.devs
  | [], _, _ => rfl
  | n :: ns, st, x => by
    simp only [deserFInputsE]
    rw [deserFInputsE_devs vt ns, Ext.newNamed_devs]

theorem deserFunctionE_devsOK (f : FuncE) (st : Store) (x : Ext) (st' : Store) (x' : Ext) (g : GraphT)
    (hf : Fresh st) (hd : DevsOK st x) (h : deserFunctionE st x f = .ok (st', x', g)) : DevsOK st' x' := by
  simp only [deserFunctionE] at h
  obtain ⟨a, b⟩ := deserFInputsE_erase (vinfoTableE f.vinfo) f.inputs st x
  have dI := deserFInputsE_devs (vinfoTableE f.vinfo) f.inputs st x
  obtain ⟨hids, hnv1, hf1, _, keep1⟩ := deserFInputs_spec (eraseVT (vinfoTableE f.vinfo)) f.inputs st
  obtain ⟨hnl, _⟩ := deserFInputs_named (eraseVT (vinfoTableE f.vinfo)) f.inputs st
  have ok1 := finputTable_ok (eraseVT (vinfoTableE f.vinfo)) f.inputs st
  have f1 := hf1 hf
  rw [← a] at hnv1 f1 keep1 hnl ok1
  rw [← b] at hnl ok1
  generalize deserFInputsE st x (vinfoTableE f.vinfo) f.inputs = r1 at h dI hnv1 f1 keep1 hnl ok1
  obtain ⟨st1, x1, ins⟩ := r1
  simp only at h dI hnv1 f1 keep1 hnl ok1
  have n1 : Named st1 (finputTable f.inputs ins) := by
    intro e he
    simp only [finputTable, List.mem_reverse] at he
    exact zip_map_eq (fun v => (st1.vals v).name) some f.inputs ins hnl e he
  have le1 : st.nv ≤ st1.nv := by rw [hnv1]; omega
  split at h
  · simp at h
  · rename_i st2 x2 tbl2 h2
    have d2 := declareNodesE_devs _ _ _ _ _ _ _ _ _ h2
    have e2 := declareNodesE_erase (vinfoTableE f.vinfo) [] f.nodes st1 x1 (finputTable f.inputs ins)
    rw [h2] at e2
    simp only [dropX] at e2
    obtain ⟨q3, ok3, _, _, _⟩ := declareNodes_spec _ _ st1 _ st.nv st2 tbl2 ok1 le1 e2.symm
    have f2 := q3.fresh f1
    have n2 := declareNodes_named _ _ st1 _ st2 tbl2 n1 ok1.lt e2.symm
    have le2 : st.nv ≤ st2.nv := Nat.le_trans le1 q3.nv_le
    have hd2 : DevsOK st2 x2 := hd.keep (by rw [d2, dI]) le2
      (fun v hv => by rw [q3.names v (Nat.lt_of_lt_of_le hv le1), keep1 v hv])
    have hol : TablesLt st2 [] := fun _ ht => by simp at ht
    split at h
    · simp at h
    · rename_i st3 x3 tbl3 ns h3
      obtain ⟨hd3, _⟩ := deserNodesE_devsOK f.nodes st2 x2 tbl2 [] (vinfoTableE f.vinfo) [] st.nv st3 x3 tbl3 ns f2 ok3 hol
        le2 n2 (fun _ ht => by simp at ht) hd2 h3
      split at h
      · simp at h
      · rename_i outs _
        simp only [Except.ok.injEq, Prod.mk.injEq] at h
        obtain ⟨rfl, rfl, _⟩ := h
        obtain ⟨c1, _, _⟩ := mkGraph_fst_counters st3 ins outs ns []
        refine hd3.keep rfl (by rw [c1]; exact Nat.le_refl _) (fun v _ => ?_)
        rw [mkGraph_cell]

theorem deserFuncsE_devsOK : ∀ (fs : List FuncE) (st : Store) (x : Ext) (d : List (FId × GraphT)) (st' : Store) (x' : Ext)
    (d' : List (FId × GraphT)), Fresh st → DevsOK st x → deserFuncsE st x d fs = .ok (st', x', d') → DevsOK st' x'
  | [], st, x, d, st', x', d', _, hd, h => by
    simp only [deserFuncsE, Except.ok.injEq, Prod.mk.injEq] at h
    obtain ⟨rfl, rfl, _⟩ := h
    exact hd
  | f :: fs, st, x, d, st', x', d', hf, hd, h => by
    simp only [deserFuncsE] at h
    split at h
    · simp at h
    · rename_i st1 x1 g h1
      have e1 := deserFunctionE_erase f st x
      rw [h1] at e1
      simp only [dropX] at e1
      obtain ⟨f1, _, _, _⟩ := deserFunction_frame f.erase st st1 g hf e1.symm
      exact deserFuncsE_devsOK fs st1 x1 _ st' x' d' f1 (deserFunctionE_devsOK f st x st1 x1 g hf hd h1) h

/-- models with functions: every resolved sharding value (in the main graph and in the function bodies) is an
    allocated, named value -/
theorem deserializeME_devsOK (p : ModelE) (w : MWorldE) (h : deserializeME p = .ok w) : DevsOK w.st w.ext := by
  simp only [deserializeME] at h
  split at h
  · simp at h
  · rename_i st x g hg
    split at h
    · simp at h
    · rename_i st1 x1 fs hfs
      simp only [Except.ok.injEq] at h
      subst h
      have e1 := deserGraphE_erase p.graph {} {} []
      rw [hg] at e1
      simp only [dropX] at e1
      obtain ⟨f0, _⟩ := deserGraph_struct _ {} [] st g (fun _ _ => rfl) (fun _ ht => by simp at ht) e1.symm
      have hd0 := deserGraphE_devsOK p.graph {} {} [] st x g (fun _ _ => rfl) (fun _ ht => by simp at ht)
        (fun _ ht => by simp at ht) (fun _ _ hd => by simp at hd) hg
      exact deserFuncsE_devsOK p.funcs st x [] st1 x1 fs f0 hd0 hfs

end IrVerif.Scope

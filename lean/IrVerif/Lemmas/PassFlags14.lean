/-
C14 (second deepening): the measure of CSE decreases in every modifying round on a well-formed model; a pure
pass with an invariant, an honest flag and a measure stops within measure + 1 rounds.
-/
import IrVerif.Lemmas.PassFlags13
import IrVerif.Model.PassInfra
import Mathlib.Tactic.Linarith
namespace IrVerif.PassFlags
open IrVerif.Sem IrVerif.Passes

theorem ssa_noFwd_of_valid (m : Model) (hv : validModel m = true) :
    ssaNodes m.graph.nodes = true ∧ noFwdNodes m.graph.nodes = true := by
  simp only [validModel, Bool.and_eq_true] at hv
  have hg := hv.1
  simp only [validG, Bool.and_eq_true] at hg
  cases hm : m.graph with
  | mk inputs outputs inits nodes =>
    rw [hm] at hg
    simp only [ssaG, noFwdG, Bool.and_eq_true] at hg
    exact ⟨hg.1.1.1.2, hg.1.2⟩

/-- a round of CSE all of whose rewrites are stalled makes the total Identity-chain depth grow by their number -/
theorem cseModel_depth (limit : Nat) (m : Model) (hv : validModel m = true)
    (hall : cseCount limit m ≤ cseStalled limit m) :
    cseDepth m + cseCount limit m ≤ cseDepth (cseModel limit m) := by
  obtain ⟨hs, hf⟩ := ssa_noFwd_of_valid m hv
  cases m with
  | mk g fs =>
    cases g with
    | mk inputs outputs inits nodes =>
      simp only [Graph.nodes] at hs hf
      simp only [cseCount, cseStalled, Graph.inputs, Graph.outputs, Graph.nodes] at hall
      simp only [cseDepth, cseCount, cseModel, Graph.inputs, Graph.outputs, Graph.nodes]
      exact cseNodes_depth limit inputs nodes [] [] outputs [] [] hs hf (fun p hp => by cases hp)
        (fun n1 h1 => by cases h1) (fun v => by simp [Subst.app]) (fun n1 h1 => by cases h1) hall

theorem cube_step (a W : Nat) (h : a + 1 ≤ W) : a * (a * a + 1) + a * a < W * (W * W + 1) := by
  have h1 : (a + 1) * ((a + 1) * (a + 1) + 1) ≤ W * (W * W + 1) :=
    Nat.mul_le_mul h (Nat.add_le_add_right (Nat.mul_le_mul h h) 1)
  nlinarith [h1]

/-- the measure of CSE strictly decreases in every modifying round on a well-formed model -/
theorem cseMu_decreases (limit : Nat) (m : Model) (hv : validModel m = true)
    (hcnt : cseCount limit m ≠ 0)
    (hw : cseW (cseModel limit m).graph.nodes + cseCount limit m ≤ cseW m.graph.nodes + cseStalled limit m)
    (hsc : cseStalled limit m ≤ cseCount limit m) :
    cseMu (cseModel limit m) < cseMu m := by
  have hd := cseDepth_le m
  have hd' := cseDepth_le (cseModel limit m)
  simp only [cseMu]
  by_cases hlt : cseW (cseModel limit m).graph.nodes < cseW m.graph.nodes
  · have := cube_step _ _ hlt
    omega
  · have heq : cseW (cseModel limit m).graph.nodes = cseW m.graph.nodes := by omega
    have hall : cseCount limit m ≤ cseStalled limit m := by omega
    have := cseModel_depth limit m hv hall
    rw [heq] at hd' ⊢
    omega

end IrVerif.PassFlags

namespace IrVerif.PassInfra

/-- a pure pass `f` with an invariant, an honest flag and a measure that decreases when the flag is up (both under
    the invariant): a PassManager with `early_stop` executes at most measure + 1 rounds and, given more steps than
    the measure, ends in a state that satisfies the invariant and that the pass maps to itself reporting `False` -/
theorem pure_rounds_inv {S : Type} (f : S → S) (flag : S → Bool) (μ : S → Nat) (Inv : S → Prop)
    (hinv : ∀ s, Inv s → Inv (f s)) (hhon : ∀ s, Inv s → flag s = false → f s = s)
    (hdec : ∀ s, Inv s → flag s = true → μ (f s) < μ s) :
    ∀ (n : Nat) (s : S) (m : ModelId) (acc : Bool), Inv s →
      (mgrLoop (fun s m => (f s, Except.ok ⟨m, flag s⟩)) true n s m acc).2.2.length ≤ μ s + 1 ∧
      ∀ s' r fl, μ s < n →
        mgrLoop (fun s m => (f s, Except.ok ⟨m, flag s⟩)) true n s m acc = (s', .ok r, fl) →
        f s' = s' ∧ flag s' = false ∧ Inv s'
  | 0, s, m, acc, _ => by
    simp only [mgrLoop, List.length_nil]
    exact ⟨by omega, fun s' r fl hn _ => by omega⟩
  | n + 1, s, m, acc, hi => by
    simp only [mgrLoop]
    cases hfl : flag s with
    | false =>
      simp only [Bool.not_false, Bool.and_self, if_true, List.length_cons, List.length_nil]
      refine ⟨by omega, fun s' r fl _ h => ?_⟩
      simp only [Prod.mk.injEq] at h
      have e := hhon s hi hfl
      rw [← h.1, e]
      exact ⟨e, hfl, hi⟩
    | true =>
      simp only [Bool.not_true, Bool.false_and, Bool.false_eq_true, if_false, List.length_cons]
      have ih := pure_rounds_inv f flag μ Inv hinv hhon hdec n (f s) m (acc || true) (hinv s hi)
      have hlt := hdec s hi hfl
      refine ⟨by have := ih.1; omega, fun s' r fl hn h => ?_⟩
      simp only [Prod.mk.injEq] at h
      obtain ⟨ha, hb, _⟩ := h
      exact ih.2 s' r _ (by omega) (by rw [← ha, ← hb])

end IrVerif.PassInfra

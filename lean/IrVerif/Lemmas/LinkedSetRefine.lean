/-
Refinement of concrete cursors to the abstract list-with-gaps cursors, for the two primitive
transitions (`rmv`: a present value is removed; `lnkS`: an absent value is linked in).
-/
import IrVerif.Lemmas.LinkedSetScan
namespace IrVerif.LinkedSet

/-- index of node `t` counted from the front; the root counts as "past the end" -/
def posF (bs : List Nat) (t : Nat) : Nat := bs.idxOf t
/-- number of boxes up to and including node `t`; the root counts as 0 -/
def posR (bs : List Nat) (t : Nat) : Nat := if t = 0 then 0 else bs.idxOf t + 1

/-- abstract cursor computed from the box list (ghost) -/
def acur (s : LSet) (bs : List Nat) (d : Dir) (c : Cursor) : Spec.ACur :=
  match c with
  | .done => .done
  | c =>
    match d with
    | .fwd => if c.pos = 0 ∨ c.pos ∈ bs then .att (posR bs c.pos)
              else .gap (posF bs (tg s .fwd (nx s c.pos)))
    | .rev => if c.pos = 0 ∨ c.pos ∈ bs then .att (posF bs c.pos)
              else .gap (posR bs (tg s .rev (pv s c.pos)))

/-! ### index arithmetic on duplicate-free lists -/

theorem eq_of_idxOf_mid {l1 l2 : List Nat} {n x : Nat} (e : (l1 ++ n :: l2).idxOf x = l1.length) :
    x = n := by
  rw [List.idxOf_append] at e
  by_cases h1 : x ∈ l1
  · have := List.idxOf_lt_length_of_mem h1
    simp only [h1, if_true] at e; omega
  · simp only [h1, if_false, List.idxOf_cons] at e
    by_cases hx : n = x
    · exact hx.symm
    · have : (n == x) = false := by simp [hx]
      simp [this] at e

theorem posF_rmv {l1 l2 : List Nat} {n t : Nat} (hnd : (l1 ++ n :: l2).Nodup)
    (h0 : 0 ∉ l1 ++ n :: l2) (ht : t = 0 ∨ t ∈ l1 ++ n :: l2) :
    posF (l1 ++ l2) (if t = n then headOr 0 l2 else t) =
      if l1.length < posF (l1 ++ n :: l2) t then posF (l1 ++ n :: l2) t - 1 else posF (l1 ++ n :: l2) t := by
  unfold posF
  have hn1 : n ∉ l1 := by grind
  have hn2 : n ∉ l2 := by grind
  by_cases htn : t = n
  · subst htn
    simp only [if_true, idxOf_mid hn1, Nat.lt_irrefl, if_false]
    cases l2 with
    | nil => simp only [headOr_nil, List.append_nil]; exact List.idxOf_eq_length (by grind)
    | cons q l2 => simp only [headOr_cons]; exact idxOf_mid (by grind)
  · simp only [htn, if_false]
    by_cases h1 : t ∈ l1
    · have e1 : (l1 ++ l2).idxOf t = l1.idxOf t := by rw [List.idxOf_append]; simp [h1]
      have e2 : (l1 ++ n :: l2).idxOf t = l1.idxOf t := by rw [List.idxOf_append]; simp [h1]
      have := List.idxOf_lt_length_of_mem h1
      rw [e1, e2]; split <;> omega
    · have e1 : (l1 ++ l2).idxOf t = l2.idxOf t + l1.length := by rw [List.idxOf_append]; simp [h1]
      have e2 : (l1 ++ n :: l2).idxOf t = l2.idxOf t + 1 + l1.length := by
        rw [List.idxOf_append]; simp only [h1, if_false, List.idxOf_cons]
        have : (n == t) = false := by simp; exact fun e => htn e.symm
        simp [this]
      rw [e1, e2]; split <;> omega

theorem lastOr_posR : ∀ (l1 : List Nat) (r : List Nat), (l1 ++ r).Nodup → 0 ∉ l1 →
    posR (l1 ++ r) (lastOr 0 l1) = l1.length := by
  intro l1 r hnd h0
  rcases List.eq_nil_or_concat l1 with rfl | ⟨A, x, rfl⟩
  · simp [posR]
  · have hx : x ≠ 0 := by rintro rfl; simp at h0
    simp only [List.concat_eq_append] at *
    rw [lastOr_append_singleton]
    unfold posR
    simp only [hx, if_false, List.append_assoc, List.singleton_append, List.length_append,
      List.length_singleton]
    rw [idxOf_mid (by grind)]

theorem posR_rmv {l1 l2 : List Nat} {n t : Nat} (hnd : (l1 ++ n :: l2).Nodup)
    (h0 : 0 ∉ l1 ++ n :: l2) (ht : t = 0 ∨ t ∈ l1 ++ n :: l2) :
    posR (l1 ++ l2) (if t = n then lastOr 0 l1 else t) =
      if l1.length < posR (l1 ++ n :: l2) t then posR (l1 ++ n :: l2) t - 1 else posR (l1 ++ n :: l2) t := by
  have hn1 : n ∉ l1 := by grind
  have hn0 : n ≠ 0 := by grind
  by_cases htn : t = n
  · subst htn
    simp only [if_true]
    rw [lastOr_posR l1 l2 (by grind) (by grind)]
    simp [posR, hn0, idxOf_mid hn1]
  · simp only [htn, if_false]
    unfold posR
    by_cases ht0 : t = 0
    · simp [ht0]
    · simp only [ht0, if_false]
      by_cases h1 : t ∈ l1
      · have e1 : (l1 ++ l2).idxOf t = l1.idxOf t := by rw [List.idxOf_append]; simp [h1]
        have e2 : (l1 ++ n :: l2).idxOf t = l1.idxOf t := by rw [List.idxOf_append]; simp [h1]
        have := List.idxOf_lt_length_of_mem h1
        rw [e1, e2]; split <;> omega
      · have e1 : (l1 ++ l2).idxOf t = l2.idxOf t + l1.length := by rw [List.idxOf_append]; simp [h1]
        have e2 : (l1 ++ n :: l2).idxOf t = l2.idxOf t + 1 + l1.length := by
          rw [List.idxOf_append]; simp only [h1, if_false, List.idxOf_cons]
          have : (n == t) = false := by simp; exact fun e => htn e.symm
          simp [this]
        rw [e1, e2]; split <;> omega

theorem posF_ins {l1 l2 : List Nat} {m t : Nat} (hm : m ∉ l1 ++ l2) (hm0 : m ≠ 0)
    (_h0 : 0 ∉ l1 ++ l2) (ht : t = 0 ∨ t ∈ l1 ++ l2) :
    posF (l1 ++ m :: l2) t =
      if l1.length ≤ posF (l1 ++ l2) t then posF (l1 ++ l2) t + 1 else posF (l1 ++ l2) t := by
  unfold posF
  have htm : t ≠ m := by grind
  by_cases h1 : t ∈ l1
  · have e1 : (l1 ++ l2).idxOf t = l1.idxOf t := by rw [List.idxOf_append]; simp [h1]
    have e2 : (l1 ++ m :: l2).idxOf t = l1.idxOf t := by rw [List.idxOf_append]; simp [h1]
    have := List.idxOf_lt_length_of_mem h1
    rw [e1, e2]; split <;> omega
  · have e1 : (l1 ++ l2).idxOf t = l2.idxOf t + l1.length := by rw [List.idxOf_append]; simp [h1]
    have e2 : (l1 ++ m :: l2).idxOf t = l2.idxOf t + 1 + l1.length := by
      rw [List.idxOf_append]; simp only [h1, if_false, List.idxOf_cons]
      have : (m == t) = false := by simp; exact fun e => htm e.symm
      simp [this]
    rw [e1, e2]; split <;> omega

theorem posR_ins {l1 l2 : List Nat} {m t : Nat} (hm : m ∉ l1 ++ l2) (hm0 : m ≠ 0)
    (h0 : 0 ∉ l1 ++ l2) (ht : t = 0 ∨ t ∈ l1 ++ l2) :
    posR (l1 ++ m :: l2) t =
      if l1.length < posR (l1 ++ l2) t then posR (l1 ++ l2) t + 1 else posR (l1 ++ l2) t := by
  unfold posR
  by_cases ht0 : t = 0
  · simp [ht0]
  · simp only [ht0, if_false]
    have := posF_ins hm hm0 h0 ht
    unfold posF at this
    rw [this]; split <;> split <;> omega

/-! ### resolution through tombstones is stable under the primitive transitions -/

theorem hop_rmv {s : LSet} {l1 l2 : List Nat} {n v : Nat} (h : Inv s (l1 ++ n :: l2)) (d : Dir)
    {x : Nat} (hx : x ≠ 0) (hxb : x ∉ l1 ++ l2) : hop (rmv s n v) d x = hop s d x := by
  obtain ⟨hp, hq, _, _⟩ := h.around
  have hpm := lastOr_mem l1 0
  have hqm := headOr_mem l2 0
  cases d with
  | fwd =>
    show nx (er s n) x = nx s x
    rw [nx_er, hp]
    have : x ≠ lastOr 0 l1 := by simp only [List.mem_cons] at hpm; grind
    simp [this]
  | rev =>
    show pv (er s n) x = pv s x
    rw [pv_er, hq]
    have : x ≠ headOr 0 l2 := by simp only [List.mem_append, List.mem_singleton] at hqm; grind
    simp [this]

theorem hop_node_rmv {s : LSet} {l1 l2 : List Nat} {n : Nat} (h : Inv s (l1 ++ n :: l2)) (d : Dir) :
    IsNode (l1 ++ l2) (hop s d n) := by
  obtain ⟨hp, hq, _, _⟩ := h.around
  have hpm := lastOr_mem l1 0
  have hqm := headOr_mem l2 0
  cases d with
  | fwd => simp only [hop, hq, IsNode]; simp only [List.mem_append, List.mem_singleton] at hqm; grind
  | rev => simp only [hop, hp, IsNode]; simp only [List.mem_cons] at hpm; grind

theorem Tgt_rmv {s : LSet} {l1 l2 : List Nat} {n v : Nat} (h : Inv s (l1 ++ n :: l2)) (d : Dir)
    {x t : Nat} (ht : Tgt s (l1 ++ n :: l2) d x t) : x < size s →
    Tgt (rmv s n v) (l1 ++ l2) d x (if t = n then hop s d n else t) := by
  have hn0 : n ≠ 0 := by have := (h.live n (by simp)).1; omega
  have hnd := h.nodup
  induction ht with
  | root => intro _; simp only [Ne.symm hn0, if_false]; exact .root
  | @live x hx =>
    intro _
    by_cases hxn : x = n
    · subst hxn
      simp only [if_true]
      have hnb : x ∉ l1 ++ l2 := by grind
      refine .hop hn0 hnb ?_
      rw [hop_rmv h d hn0 hnb]
      exact Tgt.of_node (hop_node_rmv h d)
    · simp only [hxn, if_false]
      exact .live (by grind)
  | @hop x t hx0 hxb _ ih =>
    intro hx
    have hxb' : x ∉ l1 ++ l2 := by grind
    refine .hop hx0 hxb' ?_
    rw [hop_rmv h d hx0 hxb']
    exact ih (h.hop_lt d hx)

theorem hop_lnk {s : LSet} {l1 l2 : List Nat} {v : Nat} (h : Inv s (l1 ++ l2)) (d : Dir)
    {x : Nat} (hx : x ≠ 0) (hxb : x ∉ l1 ++ l2) (hxs : x < size s) :
    hop (lnkS s (lastOr 0 l1) v) d x = hop s d x := by
  have hpm := lastOr_mem l1 0
  have hqm := headOr_mem l2 0
  have hplt : lastOr 0 l1 < size s := h.lastOr_lt
  have hqlt : headOr 0 l2 < size s := h.headOr_lt
  have hq : nx s (lastOr 0 l1) = headOr 0 l2 := by
    have hl := h.links
    cases l2 with
    | nil => simpa using (Links_into l1 0 0 [] (by simpa using hl)).1
    | cons q l2 => simpa using (Links_into l1 0 q (l2 ++ [0]) (by simpa using hl)).1
  cases d with
  | fwd =>
    show nx (lnkS s _ v) x = nx s x
    rw [nx_lnkS, nx_lnk _ _ _ _ hplt]
    have h1 : x ≠ size s := by omega
    have h2 : x ≠ lastOr 0 l1 := by simp only [List.mem_cons] at hpm; grind
    simp [h1, h2]
  | rev =>
    show pv (lnkS s _ v) x = pv s x
    rw [pv_lnkS, pv_lnk _ _ _ _ hplt (by rw [hq]; exact hqlt), hq]
    have h1 : x ≠ size s := by omega
    have h2 : x ≠ headOr 0 l2 := by simp only [List.mem_append, List.mem_singleton] at hqm; grind
    simp [h1, h2]

theorem Tgt_lnk {s : LSet} {l1 l2 : List Nat} {v : Nat} (h : Inv s (l1 ++ l2)) (d : Dir)
    {x t : Nat} (ht : Tgt s (l1 ++ l2) d x t) : x < size s →
    Tgt (lnkS s (lastOr 0 l1) v) (l1 ++ size s :: l2) d x t := by
  induction ht with
  | root => intro _; exact .root
  | @live x hx => intro _; exact .live (by grind)
  | @hop x t hx0 hxb _ ih =>
    intro hx
    have hxb' : x ∉ l1 ++ size s :: l2 := by
      have : x ≠ size s := by omega
      grind
    refine .hop hx0 hxb' ?_
    rw [hop_lnk h d hx0 hxb hx]
    exact ih (h.hop_lt d hx)

/-! ### the abstract cursor follows `Spec.curRemove` / `Spec.curInsert` -/

theorem acur_rmv {s : LSet} {l1 l2 : List Nat} {n v : Nat} (h : Inv s (l1 ++ n :: l2))
    (hv : val s n = some v) (d : Dir) (c : Cursor) (hp : c.pos < size s) :
    acur (rmv s n v) (l1 ++ l2) d c =
      Spec.curRemove d l1.length (acur s (l1 ++ n :: l2) d c) := by
  have h' := inv_rmv h hv
  have hnd := h.nodup
  have h0 := h.zero_notin
  have hn0 : n ≠ 0 := by grind
  have hn1 : n ∉ l1 := by grind
  have hsz : size (rmv s n v) = size s := by show size (er s n) = _; simp
  obtain ⟨hpn, hqn, _, _⟩ := h.around
  by_cases hcd : c = .done
  · subst hcd; cases d <;> simp [acur, Spec.curRemove]
  have hnode : c.pos = 0 ∨ c.pos ∈ l1 ++ n :: l2 ∨ (c.pos ≠ 0 ∧ c.pos ∉ l1 ++ n :: l2) := by grind
  cases d with
  | fwd =>
    have e1 : acur (rmv s n v) (l1 ++ l2) .fwd c =
        if c.pos = 0 ∨ c.pos ∈ l1 ++ l2 then .att (posR (l1 ++ l2) c.pos)
        else .gap (posF (l1 ++ l2) (tg (rmv s n v) .fwd (nx (rmv s n v) c.pos))) := by
      cases c <;> simp_all [acur]
    have e2 : acur s (l1 ++ n :: l2) .fwd c =
        if c.pos = 0 ∨ c.pos ∈ l1 ++ n :: l2 then .att (posR (l1 ++ n :: l2) c.pos)
        else .gap (posF (l1 ++ n :: l2) (tg s .fwd (nx s c.pos))) := by
      cases c <;> simp_all [acur]
    rw [e1, e2]
    by_cases hb : c.pos = 0 ∨ c.pos ∈ l1 ++ n :: l2
    · by_cases hbn : c.pos = n
      · -- the cursor's own box is erased: it becomes a gap cursor
        have hnb : n ∉ l1 ++ l2 := by grind
        have : ¬ (c.pos = 0 ∨ c.pos ∈ l1 ++ l2) := by rw [hbn]; grind
        rw [if_neg this, if_pos hb, hbn]
        have hx : nx (rmv s n v) n = headOr 0 l2 := by
          have := hop_rmv (v := v) h .fwd hn0 hnb
          simp only [hop] at this; rw [this, hqn]
        have hq' : IsNode (l1 ++ l2) (headOr 0 l2) := by
          have := hop_node_rmv h .fwd; simpa [hop, hqn] using this
        have hqlt : headOr 0 l2 < size (rmv s n v) := by
          rw [hsz]; have : Inv s ((l1 ++ [n]) ++ l2) := by simpa using h
          exact this.headOr_lt
        rw [hx, h'.tg_eq hqlt (Tgt.of_node hq')]
        have := posF_rmv (t := n) hnd h0 (by simp)
        simp only [if_true] at this
        rw [this]
        have hk : posR (l1 ++ n :: l2) n = l1.length + 1 := by simp [posR, hn0, idxOf_mid hn1]
        have hk2 : posF (l1 ++ n :: l2) n = l1.length := by simp [posF, idxOf_mid hn1]
        simp [Spec.curRemove, hk, hk2]
      · have hb' : c.pos = 0 ∨ c.pos ∈ l1 ++ l2 := by grind
        rw [if_pos hb', if_pos hb]
        have := posR_rmv (t := c.pos) hnd h0 hb
        simp only [hbn, if_false] at this
        rw [this]
        have hne : l1.length + 1 ≠ posR (l1 ++ n :: l2) c.pos := by
          unfold posR
          by_cases hc0 : c.pos = 0
          · simp [hc0]
          · simp only [hc0, if_false]
            intro e
            exact hbn (eq_of_idxOf_mid (l1 := l1) (l2 := l2) (by omega))
        simp only [Spec.curRemove, hne, if_false]
        split <;> rfl
    · have hb' : ¬ (c.pos = 0 ∨ c.pos ∈ l1 ++ l2) := by grind
      rw [if_neg hb', if_neg hb]
      have hc0 : c.pos ≠ 0 := by grind
      have hcb : c.pos ∉ l1 ++ l2 := by grind
      have hx : nx (rmv s n v) c.pos = nx s c.pos := by
        have := hop_rmv (v := v) h .fwd hc0 hcb; simpa [hop] using this
      have hlt : nx s c.pos < size s := (h.bound _ hp).1
      have ht := h.tg_spec .fwd hlt
      have ht' := Tgt_rmv (v := v) h .fwd ht hlt
      rw [hx, h'.tg_eq (by rw [hsz]; exact hlt) ht']
      simp only [hop, hqn]
      rw [posF_rmv hnd h0 ht.node]
      simp only [Spec.curRemove]
      split <;> rfl
  | rev =>
    have e1 : acur (rmv s n v) (l1 ++ l2) .rev c =
        if c.pos = 0 ∨ c.pos ∈ l1 ++ l2 then .att (posF (l1 ++ l2) c.pos)
        else .gap (posR (l1 ++ l2) (tg (rmv s n v) .rev (pv (rmv s n v) c.pos))) := by
      cases c <;> simp_all [acur]
    have e2 : acur s (l1 ++ n :: l2) .rev c =
        if c.pos = 0 ∨ c.pos ∈ l1 ++ n :: l2 then .att (posF (l1 ++ n :: l2) c.pos)
        else .gap (posR (l1 ++ n :: l2) (tg s .rev (pv s c.pos))) := by
      cases c <;> simp_all [acur]
    rw [e1, e2]
    by_cases hb : c.pos = 0 ∨ c.pos ∈ l1 ++ n :: l2
    · by_cases hbn : c.pos = n
      · have hnb : n ∉ l1 ++ l2 := by grind
        have : ¬ (c.pos = 0 ∨ c.pos ∈ l1 ++ l2) := by rw [hbn]; grind
        rw [if_neg this, if_pos hb, hbn]
        have hx : pv (rmv s n v) n = lastOr 0 l1 := by
          have := hop_rmv (v := v) h .rev hn0 hnb
          simp only [hop] at this; rw [this, hpn]
        have hq' : IsNode (l1 ++ l2) (lastOr 0 l1) := by
          have := hop_node_rmv h .rev; simpa [hop, hpn] using this
        have hqlt : lastOr 0 l1 < size (rmv s n v) := by
          rw [hsz]; exact h.lastOr_lt
        rw [hx, h'.tg_eq hqlt (Tgt.of_node hq')]
        have := posR_rmv (t := n) hnd h0 (by simp)
        simp only [if_true] at this
        rw [this]
        have hk : posR (l1 ++ n :: l2) n = l1.length + 1 := by simp [posR, hn0, idxOf_mid hn1]
        have hk2 : posF (l1 ++ n :: l2) n = l1.length := by simp [posF, idxOf_mid hn1]
        simp [Spec.curRemove, hk, hk2]
      · have hb' : c.pos = 0 ∨ c.pos ∈ l1 ++ l2 := by grind
        rw [if_pos hb', if_pos hb]
        have := posF_rmv (t := c.pos) hnd h0 hb
        simp only [hbn, if_false] at this
        rw [this]
        have hne : l1.length ≠ posF (l1 ++ n :: l2) c.pos := by
          unfold posF
          intro e
          exact hbn (eq_of_idxOf_mid e.symm)
        simp only [Spec.curRemove, hne, if_false]
        split <;> rfl
    · have hb' : ¬ (c.pos = 0 ∨ c.pos ∈ l1 ++ l2) := by grind
      rw [if_neg hb', if_neg hb]
      have hc0 : c.pos ≠ 0 := by grind
      have hcb : c.pos ∉ l1 ++ l2 := by grind
      have hx : pv (rmv s n v) c.pos = pv s c.pos := by
        have := hop_rmv (v := v) h .rev hc0 hcb; simpa [hop] using this
      have hlt : pv s c.pos < size s := (h.bound _ hp).2.1
      have ht := h.tg_spec .rev hlt
      have ht' := Tgt_rmv (v := v) h .rev ht hlt
      rw [hx, h'.tg_eq (by rw [hsz]; exact hlt) ht']
      simp only [hop, hpn]
      rw [posR_rmv hnd h0 ht.node]
      simp only [Spec.curRemove]
      split <;> rfl

theorem acur_lnk {s : LSet} {l1 l2 : List Nat} {v : Nat} (h : Inv s (l1 ++ l2))
    (hv : ∀ b ∈ l1 ++ l2, val s b ≠ some v) (d : Dir) (c : Cursor) (hp : c.pos < size s) :
    acur (lnkS s (lastOr 0 l1) v) (l1 ++ size s :: l2) d c =
      Spec.curInsert d l1.length (acur s (l1 ++ l2) d c) := by
  have h' : Inv (lnkS s (lastOr 0 l1) v) (l1 ++ size s :: l2) := by
    have := inv_lnk h hv; rwa [linkNew_eq] at this
  have h0 := h.zero_notin
  have hm : size s ∉ l1 ++ l2 := by
    intro hc; have := (h.live _ hc).2.1; omega
  have hm0 : size s ≠ 0 := by have := h.size_pos; omega
  have hsz : size (lnkS s (lastOr 0 l1) v) = size s + 1 := by rw [size_lnkS]; simp
  by_cases hcd : c = .done
  · subst hcd; cases d <;> simp [acur, Spec.curInsert]
  have hcm : c.pos ≠ size s := by omega
  cases d with
  | fwd =>
    have e1 : acur (lnkS s (lastOr 0 l1) v) (l1 ++ size s :: l2) .fwd c =
        if c.pos = 0 ∨ c.pos ∈ l1 ++ size s :: l2 then .att (posR (l1 ++ size s :: l2) c.pos)
        else .gap (posF (l1 ++ size s :: l2)
          (tg (lnkS s (lastOr 0 l1) v) .fwd (nx (lnkS s (lastOr 0 l1) v) c.pos))) := by
      cases c <;> simp_all [acur]
    have e2 : acur s (l1 ++ l2) .fwd c =
        if c.pos = 0 ∨ c.pos ∈ l1 ++ l2 then .att (posR (l1 ++ l2) c.pos)
        else .gap (posF (l1 ++ l2) (tg s .fwd (nx s c.pos))) := by
      cases c <;> simp_all [acur]
    rw [e1, e2]
    by_cases hb : c.pos = 0 ∨ c.pos ∈ l1 ++ l2
    · have hb' : c.pos = 0 ∨ c.pos ∈ l1 ++ size s :: l2 := by grind
      rw [if_pos hb', if_pos hb, posR_ins hm hm0 h0 hb]
      simp only [Spec.curInsert]
      split <;> rfl
    · have hb' : ¬ (c.pos = 0 ∨ c.pos ∈ l1 ++ size s :: l2) := by grind
      rw [if_neg hb', if_neg hb]
      have hc0 : c.pos ≠ 0 := by grind
      have hcb : c.pos ∉ l1 ++ l2 := by grind
      have hx : nx (lnkS s (lastOr 0 l1) v) c.pos = nx s c.pos := by
        have := hop_lnk (v := v) h .fwd hc0 hcb hp; simpa [hop] using this
      have hlt : nx s c.pos < size s := (h.bound _ hp).1
      have ht := h.tg_spec .fwd hlt
      have ht' := Tgt_lnk (v := v) h .fwd ht hlt
      rw [hx, h'.tg_eq (by rw [hsz]; omega) ht', posF_ins hm hm0 h0 ht.node]
      simp only [Spec.curInsert]
      split <;> rfl
  | rev =>
    have e1 : acur (lnkS s (lastOr 0 l1) v) (l1 ++ size s :: l2) .rev c =
        if c.pos = 0 ∨ c.pos ∈ l1 ++ size s :: l2 then .att (posF (l1 ++ size s :: l2) c.pos)
        else .gap (posR (l1 ++ size s :: l2)
          (tg (lnkS s (lastOr 0 l1) v) .rev (pv (lnkS s (lastOr 0 l1) v) c.pos))) := by
      cases c <;> simp_all [acur]
    have e2 : acur s (l1 ++ l2) .rev c =
        if c.pos = 0 ∨ c.pos ∈ l1 ++ l2 then .att (posF (l1 ++ l2) c.pos)
        else .gap (posR (l1 ++ l2) (tg s .rev (pv s c.pos))) := by
      cases c <;> simp_all [acur]
    rw [e1, e2]
    by_cases hb : c.pos = 0 ∨ c.pos ∈ l1 ++ l2
    · have hb' : c.pos = 0 ∨ c.pos ∈ l1 ++ size s :: l2 := by grind
      rw [if_pos hb', if_pos hb, posF_ins hm hm0 h0 hb]
      simp only [Spec.curInsert]
      split <;> rfl
    · have hb' : ¬ (c.pos = 0 ∨ c.pos ∈ l1 ++ size s :: l2) := by grind
      rw [if_neg hb', if_neg hb]
      have hc0 : c.pos ≠ 0 := by grind
      have hcb : c.pos ∉ l1 ++ l2 := by grind
      have hx : pv (lnkS s (lastOr 0 l1) v) c.pos = pv s c.pos := by
        have := hop_lnk (v := v) h .rev hc0 hcb hp; simpa [hop] using this
      have hlt : pv s c.pos < size s := (h.bound _ hp).2.1
      have ht := h.tg_spec .rev hlt
      have ht' := Tgt_lnk (v := v) h .rev ht hlt
      rw [hx, h'.tg_eq (by rw [hsz]; omega) ht', posR_ins hm hm0 h0 ht.node]
      simp only [Spec.curInsert]
      split <;> rfl

end IrVerif.LinkedSet

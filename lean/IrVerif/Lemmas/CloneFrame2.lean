/-
Frame lemma for the extended editing alphabet `IrVerif.Clone.Edit2` (graph inputs, initializer
mapping, sort, insert_before/after, replace_all_uses_with, resize_inputs/outputs, model.functions):
with the extended separation (`CellOutX true`: also the users of a value, the outputs of a node, the
inputs and initializers of a graph do not lead into the protected region `B`), an edit whose
arguments are outside `B` leaves every cell of `B` as it was and re-establishes the separation.
-/
import IrVerif.Lemmas.CloneFrame
namespace IrVerif.Clone

section
variable {strict : Bool} {B : Nat → Prop} {wB : World}

def ArgsOut2 (B : Nat → Prop) (e : Edit2) : Prop := ∀ a ∈ e.args, ¬ B a

theorem mem_of_lookupS {β : Type} {k : String} {x : β} :
    ∀ {l : List (String × β)}, l.lookup k = some x → (k, x) ∈ l
  | [], h => by simp at h
  | (a, b) :: ps, h => by
    rw [List.lookup_cons] at h
    by_cases hka : k = a
    · subst hka
      simp at h
      subst h
      exact List.mem_cons_self
    · have : (k == a) = false := by simpa using hka
      rw [this] at h
      exact List.mem_cons_of_mem _ (mem_of_lookupS h)

theorem fforM'_good {f : α → M Unit} :
    ∀ (l : List α) (s : St), FInv true strict B wB s →
      (∀ a ∈ l, ∀ s1, FInv true strict B wB s1 → FGoodAt true strict B wB (f a) s1 (fun _ _ => True)) →
      FGoodAt true strict B wB (forM' f l) s (fun _ _ => True)
  | [], s, hI, _ => FGoodAt.pure hI trivial
  | a :: as, s, hI, hf => by
    unfold forM'
    fbind (hf a List.mem_cons_self s hI) with x s1 hI1 hl1 hq1
    exact fforM'_good as s1 hI1 (fun b hb => hf b (List.mem_cons_of_mem _ hb))

theorem funsetOwner_good {s : St} (g : Nat) (clear : ValueS → ValueS) (v : Nat)
    (hI : FInv true strict B wB s) (hv : ¬ B v)
    (hclear : ∀ x, CellOutX true strict B (.val x) → CellOutX true strict B (.val (clear x))) :
    FGoodAt true strict B wB (unsetOwner g clear v) s (fun _ _ => True) := by
  unfold unsetOwner
  fbind (FGoodAt.readVal hI) with vs s1 hI1 hl1 hq1
  obtain ⟨rfl, h⟩ := hq1
  split
  · exact FGoodAt.unsupported hI1
  · have hc := hclear vs (hI1.sep v (.val vs) hv h)
    refine FGoodAt.set hI1 hv ?_
    split
    · exact hc
    · obtain ⟨a1, a2, a3, a4, _, a6⟩ := hc
      exact ⟨a1, a2, a3, a4, trivial, a6⟩

theorem fgetWorld_good {s : St} (hI : FInv true strict B wB s) :
    FGoodAt true strict B wB getWorld s (fun _ s1 => s1 = s) :=
  ⟨hI, Nat.le_refl _, fun _ _ => rfl⟩

theorem fliftE_good {α : Type} {s : St} (x : Except Err α) (hI : FInv true strict B wB s) :
    FGoodAt true strict B wB (liftE x) s (fun _ s1 => s1 = s) := by
  cases x with
  | ok a => exact FGoodAt.pure hI rfl
  | error e => exact FGoodAt.fail hI

theorem fassertOwner_good {s : St} (g v : Nat) (hI : FInv true strict B wB s) :
    FGoodAt true strict B wB (assertOwner g v) s (fun _ _ => True) := by
  unfold assertOwner
  fbind (FGoodAt.readVal hI) with vs s1 hI1 hl1 hq1
  split
  · exact FGoodAt.unsupported hI1
  · exact FGoodAt.pure hI1 trivial

theorem frenameIfUnnamed_good {s : St} (v : Nat) (key : String) (vs : ValueS)
    (hI : FInv true strict B wB s) (hv : ¬ B v) :
    FGoodAt true strict B wB (renameIfUnnamed v key vs) s (fun _ _ => True) := by
  unfold renameIfUnnamed
  split
  · exact applyEdit0_frame (.setName v (some key)) hI (by
      intro a ha; simp [Edit.args] at ha; subst ha; exact hv)
  · exact FGoodAt.pure hI trivial

theorem funsetOldInit_good {s : St} (g : Nat) (key : String)
    (hI : FInv true strict B wB s) (hg : ¬ B g) :
    FGoodAt true strict B wB (unsetOldInit g key) s (fun _ _ => True) := by
  unfold unsetOldInit
  fbind (FGoodAt.readGraph hI) with gs s1 hI1 hl1 hq1
  obtain ⟨rfl, hgs⟩ := hq1
  obtain ⟨go, gp, gm, gx⟩ := hI1.sep g (.graph gs) hg hgs
  split
  · next old hold =>
    have hoB : ¬ B old := (gx rfl).2 _ (mem_of_lookupS hold)
    exact funsetOwner_good g _ old hI1 hoB (fun x hx => hx)
  · exact FGoodAt.pure hI1 trivial

theorem fsetInitFinish_good {s : St} (g : Nat) (key : String) (v : Nat)
    (hI : FInv true strict B wB s) (hg : ¬ B g) (hv : ¬ B v) :
    FGoodAt true strict B wB (setInitFinish g key v) s (fun _ _ => True) := by
  unfold setInitFinish
  fbind (FGoodAt.readVal hI) with vs2 s6 hI6 hl6 hq6
  obtain ⟨rfl, hvs2⟩ := hq6
  split
  · exact FGoodAt.raise hI6
  · obtain ⟨a1, a2, a3, a4, _, a6⟩ := hI6.sep v (.val vs2) hv hvs2
    fbind (FGoodAt.set hI6 hv (show CellOutX true strict B
      (.val { vs2 with isInit := true, graph := some g }) from ⟨a1, a2, a3, a4, hg, a6⟩))
      with u2 s7 hI7 hl7 hq7
    fbind (FGoodAt.readGraph hI7) with gs3 s8 hI8 hl8 hq8
    obtain ⟨rfl, hgs3⟩ := hq8
    obtain ⟨go3, gp3, gm3, gx3⟩ := hI8.sep g (.graph gs3) hg hgs3
    refine FGoodAt.set hI8 hg (show CellOutX true strict B
      (.graph { gs3 with inits := dictSet gs3.inits key v }) from
      ⟨go3, gp3, gm3, fun hu => ⟨(gx3 hu).1, fun e he => ?_⟩⟩)
    rcases mem_dictSet he with h1 | h1
    · exact (gx3 hu).2 e h1
    · rw [h1]; exact hv

theorem fsetInitCore_good {s : St} (g : Nat) (key : String) (v : Nat)
    (hI : FInv true strict B wB s) (hg : ¬ B g) (hv : ¬ B v) :
    FGoodAt true strict B wB (setInitCore g key v) s (fun _ _ => True) := by
  unfold setInitCore
  fbind (FGoodAt.readGraph hI) with gs s1 hI1 hl1 hq1
  split
  · exact FGoodAt.unsupported hI1
  · fbind (FGoodAt.readVal hI1) with vs s2 hI2 hl2 hq2
    split
    · exact FGoodAt.raise hI2
    · split
      · exact FGoodAt.raise hI2
      · split
        · exact FGoodAt.raise hI2
        · split
          · exact FGoodAt.raise hI2
          · fbind (frenameIfUnnamed_good v key vs hI2 hv) with u0 s3 hI3 hl3 hq3
            fbind (funsetOldInit_good g key hI3 hg) with u1 s4 hI4 hl4 hq4
            exact fsetInitFinish_good g key v hI4 hg hv

theorem funsetOutput_good {s : St} (g v : Nat) (still : Bool)
    (hI : FInv true strict B wB s) (hv : ¬ B v) :
    FGoodAt true strict B wB (unsetOutput g v still) s (fun _ _ => True) := by
  unfold unsetOutput
  split
  · exact fassertOwner_good g v hI
  · exact funsetOwner_good g _ v hI hv (fun x hx => hx)

theorem fsetOutputAt_good {s : St} (g i r : Nat)
    (hI : FInv true strict B wB s) (hg : ¬ B g) (hr : ¬ B r) :
    FGoodAt true strict B wB (setOutputAt g i r) s (fun _ _ => True) := by
  unfold setOutputAt
  fbind (FGoodAt.readVal hI) with rs s1 hI1 hl1 hq1
  obtain ⟨rfl, hrs⟩ := hq1
  split
  · exact FGoodAt.raise hI1
  · obtain ⟨a1, a2, a3, a4, _, a6⟩ := hI1.sep r (.val rs) hr hrs
    fbind (FGoodAt.set hI1 hr (show CellOutX true strict B
      (.val { rs with isOut := true, graph := some g }) from ⟨a1, a2, a3, a4, hg, a6⟩))
      with u2 s2 hI2 hl2 hq2
    fbind (FGoodAt.readGraph hI2) with gs s3 hI3 hl3 hq3
    obtain ⟨rfl, hgs⟩ := hq3
    obtain ⟨go, gp, gm, gx⟩ := hI3.sep g (.graph gs) hg hgs
    refine FGoodAt.set hI3 hg (show CellOutX true strict B
      (.graph { gs with outputs := gs.outputs.set i r }) from ⟨fun x hx => ?_, gp, gm, gx⟩)
    rcases List.mem_or_eq_of_mem_set hx with h1 | h1
    · exact go x h1
    · rw [h1]; exact hr

theorem freplaceOutputAt_good {s : St} (g v r i : Nat)
    (hI : FInv true strict B wB s) (hg : ¬ B g) (hv : ¬ B v) (hr : ¬ B r) :
    FGoodAt true strict B wB (replaceOutputAt g v r i) s (fun _ _ => True) := by
  unfold replaceOutputAt
  fbind (FGoodAt.readGraph hI) with gs s1 hI1 hl1 hq1
  fbind (FGoodAt.readVal hI1) with rs s2 hI2 hl2 hq2
  split
  · exact FGoodAt.raise hI2
  · fbind (funsetOutput_good g v _ hI2 hv) with u0 s3 hI3 hl3 hq3
    exact fsetOutputAt_good g i r hI3 hg hr

theorem freplaceOutputs_good (g v r : Nat) (hg : ¬ B g) (hv : ¬ B v) (hr : ¬ B r) :
    ∀ (l : List Nat) (s : St), FInv true strict B wB s →
      FGoodAt true strict B wB (replaceOutputs g v r l) s (fun _ _ => True)
  | [], s, hI => by unfold replaceOutputs; exact FGoodAt.pure hI trivial
  | i :: is, s, hI => by
    unfold replaceOutputs
    fbind (FGoodAt.readGraph hI) with gs s1 hI1 hl1 hq1
    split
    · fbind (freplaceOutputAt_good g v r i hI1 hg hv hr) with u0 s2 hI2 hl2 hq2
      exact freplaceOutputs_good g v r hg hv hr is s2 hI2
    · exact freplaceOutputs_good g v r hg hv hr is s1 hI1

theorem frauwOutputs_good {s : St} (v r : Nat) (outs : Bool)
    (hI : FInv true strict B wB s) (hv : ¬ B v) (hr : ¬ B r) :
    FGoodAt true strict B wB (rauwOutputs v r outs) s (fun _ _ => True) := by
  unfold rauwOutputs
  fbind (FGoodAt.readVal hI) with vs s1 hI1 hl1 hq1
  obtain ⟨rfl, hvs⟩ := hq1
  obtain ⟨_, _, _, _, a5, _⟩ := hI1.sep v (.val vs) hv hvs
  split
  · split
    · exact FGoodAt.unsupported hI1
    · next g hgq =>
      rw [hgq] at a5
      split
      · exact FGoodAt.raise hI1
      · fbind (FGoodAt.readGraph hI1) with gs s2 hI2 hl2 hq2
        exact freplaceOutputs_good g v r a5 hv hr _ s2 hI2
  · exact FGoodAt.pure hI1 trivial

theorem finsertNode_good {s : St} (after : Bool) (g anchor n : Nat)
    (hI : FInv true strict B wB s) (hg : ¬ B g) (hn : ¬ B n) :
    FGoodAt true strict B wB (insertNode after g anchor n) s (fun _ _ => True) := by
  unfold insertNode
  fbind (FGoodAt.readGraph hI) with gs s1 hI1 hl1 hq1
  split
  · exact FGoodAt.unsupported hI1
  · fbind (FGoodAt.readNode hI1) with as s2 hI2 hl2 hq2
    split
    · exact FGoodAt.raise hI2
    · fbind (fgetWorld_good hI2) with w s2' hI2' hl2' hq2'
      fbind (fliftE_good (nodeAddable w g n) hI2') with x s2'' hI2 hl2'' hq2''
      · fbind (FGoodAt.readNode hI2) with ns s3 hI3 hl3 hq3
        obtain ⟨rfl, hns⟩ := hq3
        fbind (FGoodAt.set hI3 hn (show CellOutX true strict B (.node { ns with graph := some g }) from
          hI3.sep n (.node ns) hn hns)) with u0 s4 hI4 hl4 hq4
        fbind (FGoodAt.readGraph hI4) with gs2 s5 hI5 hl5 hq5
        obtain ⟨rfl, hgs2⟩ := hq5
        split
        · exact FGoodAt.set hI5 hg (show CellOutX true strict B (.graph { gs2 with nodes := _ }) from
            hI5.sep g (.graph gs2) hg hgs2)
        · exact FGoodAt.raise hI5

theorem fclearProducer_good {s : St} (v : Nat) (hI : FInv true strict B wB s) (hv : ¬ B v) :
    FGoodAt true strict B wB (clearProducer v) s (fun _ _ => True) := by
  unfold clearProducer
  fbind (FGoodAt.readVal hI) with vs s1 hI1 hl1 hq1
  obtain ⟨rfl, hvs⟩ := hq1
  exact FGoodAt.set hI1 hv (show CellOutX true strict B (.val { vs with producer := none, index := none }) from
    hI1.sep v (.val vs) hv hvs)

theorem fcheckNoUses_good {s : St} (v : Nat) (hI : FInv true strict B wB s) :
    FGoodAt true strict B wB (checkNoUses v) s (fun _ _ => True) := by
  unfold checkNoUses
  fbind (FGoodAt.readVal hI) with vs s1 hI1 hl1 hq1
  split
  · exact FGoodAt.pure hI1 trivial
  · exact FGoodAt.raise hI1

theorem fdropShardingOf_good {s : St} (n v : Nat) (hI : FInv true strict B wB s) (hn : ¬ B n) :
    FGoodAt true strict B wB (dropShardingOf n v) s (fun _ _ => True) := by
  unfold dropShardingOf
  fbind (FGoodAt.readNode hI) with ns s1 hI1 hl1 hq1
  obtain ⟨rfl, hns⟩ := hq1
  obtain ⟨a1, a2, a3, a4⟩ := hI1.sep n (.node ns) hn hns
  refine FGoodAt.set hI1 hn ?_
  unfold dropSharding
  split
  · exact ⟨a1, a2, a3, a4⟩
  · exact ⟨a1, a2, a3, a4⟩

theorem applyEdit2_frame (e : Edit2) {s : St} (hI : FInv true strict B wB s) (ha : ArgsOut2 B e) :
    FGoodAt true strict B wB (applyEdit2 e) s (fun _ _ => True) := by
  cases e with
  | base e => exact applyEdit_frame e hI ha
  | appendInput g v =>
    have hg : ¬ B g := ha g (by simp [Edit2.args])
    have hv : ¬ B v := ha v (by simp [Edit2.args])
    unfold applyEdit2
    fbind (FGoodAt.readGraph hI) with gs s1 hI1 hl1 hq1
    obtain ⟨rfl, hgs⟩ := hq1
    obtain ⟨go, gp, gm, gx⟩ := hI1.sep g (.graph gs) hg hgs
    split
    · exact FGoodAt.unsupported hI1
    · fbind (FGoodAt.readVal hI1) with vs s2 hI2 hl2 hq2
      obtain ⟨rfl, hvs⟩ := hq2
      obtain ⟨a1, a2, a3, a4, _, a6⟩ := hI2.sep v (.val vs) hv hvs
      split
      · exact FGoodAt.raise hI2
      · split
        · exact FGoodAt.raise hI2
        · fbind (FGoodAt.set hI2 hv (show CellOutX true strict B
            (.val { vs with isIn := true, graph := some g }) from ⟨a1, a2, a3, a4, hg, a6⟩))
            with u0 s3 hI3 hl3 hq3
          refine FGoodAt.set hI3 hg (show CellOutX true strict B
            (.graph { gs with inputs := gs.inputs ++ [v] }) from
            ⟨go, gp, gm, fun hu => ⟨fun x hx => ?_, (gx hu).2⟩⟩)
          rcases List.mem_append.mp hx with h1 | h1
          · exact (gx hu).1 x h1
          · simp at h1; subst h1; exact hv
  | popInput g =>
    have hg : ¬ B g := ha g (by simp [Edit2.args])
    unfold applyEdit2
    fbind (FGoodAt.readGraph hI) with gs s1 hI1 hl1 hq1
    obtain ⟨rfl, hgs⟩ := hq1
    obtain ⟨go, gp, gm, gx⟩ := hI1.sep g (.graph gs) hg hgs
    split
    · exact FGoodAt.unsupported hI1
    · split
      · exact FGoodAt.raise hI1
      · next v hv =>
        have hvB : ¬ B v := (gx rfl).1 v (List.mem_of_getLast? hv)
        have hdrop : CellOutX true strict B (.graph { gs with inputs := gs.inputs.dropLast }) :=
          ⟨go, gp, gm, fun hu => ⟨fun x hx => (gx hu).1 x (List.dropLast_subset _ hx), (gx hu).2⟩⟩
        fbind (FGoodAt.set hI1 hg hdrop) with u s2 hI2 hl2 hq2
        split
        · exact fassertOwner_good g v hI2
        · exact funsetOwner_good g _ v hI2 hvB (fun x hx => hx)
  | setInit g key v =>
    exact fsetInitCore_good g key v hI (ha g (by simp [Edit2.args])) (ha v (by simp [Edit2.args]))
  | delInit g key =>
    have hg : ¬ B g := ha g (by simp [Edit2.args])
    unfold applyEdit2
    fbind (FGoodAt.readGraph hI) with gs s1 hI1 hl1 hq1
    obtain ⟨rfl, hgs⟩ := hq1
    obtain ⟨go, gp, gm, gx⟩ := hI1.sep g (.graph gs) hg hgs
    split
    · exact FGoodAt.unsupported hI1
    · split
      · exact FGoodAt.raise hI1
      · next v hv =>
        have hvB : ¬ B v := (gx rfl).2 _ (mem_of_lookupS hv)
        fbind (funsetOwner_good g _ v hI1 hvB (fun x hx => hx)) with u0 s2 hI2 hl2 hq2
        fbind (FGoodAt.readGraph hI2) with gs2 s3 hI3 hl3 hq3
        obtain ⟨rfl, hgs2⟩ := hq3
        obtain ⟨go2, gp2, gm2, gx2⟩ := hI3.sep g (.graph gs2) hg hgs2
        exact FGoodAt.set hI3 hg (show CellOutX true strict B
          (.graph { gs2 with inits := dictErase gs2.inits key }) from
          ⟨go2, gp2, gm2, fun hu => ⟨(gx2 hu).1, fun e he => (gx2 hu).2 e (List.mem_filter.mp he).1⟩⟩)
  | registerInit g v =>
    have hg : ¬ B g := ha g (by simp [Edit2.args])
    have hv : ¬ B v := ha v (by simp [Edit2.args])
    unfold applyEdit2
    fbind (FGoodAt.readGraph hI) with gs s1 hI1 hl1 hq1
    fbind (FGoodAt.readVal hI1) with vs s2 hI2 hl2 hq2
    split
    · exact FGoodAt.raise hI2
    · split
      · exact FGoodAt.raise hI2
      · split
        · exact FGoodAt.raise hI2
        · split
          · exact FGoodAt.raise hI2
          · exact fsetInitCore_good g _ v hI2 hg hv
  | sort g =>
    have hg : ¬ B g := ha g (by simp [Edit2.args])
    unfold applyEdit2
    fbind (FGoodAt.readGraph hI) with gs s1 hI1 hl1 hq1
    obtain ⟨rfl, hgs⟩ := hq1
    fbind (fgetWorld_good hI1) with w s2 hI2 hl2 hq2
    subst hq2
    fbind (fliftE_good (sortOrder w g gs) hI2) with order s3 hI3 hl3 hq3
    subst hq3
    exact FGoodAt.set hI3 hg (show CellOutX true strict B (.graph { gs with nodes := order }) from
      hI3.sep g (.graph gs) hg hgs)
  | insertBefore g anchor n =>
    exact finsertNode_good false g anchor n hI (ha g (by simp [Edit2.args])) (ha n (by simp [Edit2.args]))
  | insertAfter g anchor n =>
    exact finsertNode_good true g anchor n hI (ha g (by simp [Edit2.args])) (ha n (by simp [Edit2.args]))
  | replaceAllUses v r outs =>
    have hv : ¬ B v := ha v (by simp [Edit2.args])
    have hr : ¬ B r := ha r (by simp [Edit2.args])
    unfold applyEdit2
    fbind (frauwOutputs_good v r outs hI hv hr) with u0 s1 hI1 hl1 hq1
    fbind (FGoodAt.readVal hI1) with vs s2 hI2 hl2 hq2
    obtain ⟨rfl, hvs⟩ := hq2
    obtain ⟨_, _, _, _, _, _, a7⟩ := hI2.sep v (.val vs) hv hvs
    refine fforM'_good _ _ hI2 ?_
    intro u hu s3 hI3
    refine applyEdit0_frame (.replaceInput u.1 u.2 (some r)) hI3 ?_
    intro a haa
    simp [Edit.args] at haa
    rcases haa with rfl | rfl
    · exact a7 rfl u hu
    · exact hr
  | resizeInputs n k =>
    have hn : ¬ B n := ha n (by simp [Edit2.args])
    unfold applyEdit2
    fbind (FGoodAt.readNode hI) with ns s1 hI1 hl1 hq1
    obtain ⟨rfl, hns⟩ := hq1
    obtain ⟨a1, a2, a3, a4⟩ := hI1.sep n (.node ns) hn hns
    split
    · exact FGoodAt.pure hI1 trivial
    · split
      · have hloop : FGoodAt true strict B wB
            (forM' (fun i => applyEdit0 (.replaceInput n i none)) ((List.range ns.inputs.length).drop k))
            s1 (fun _ _ => True) := by
          refine fforM'_good _ _ hI1 ?_
          intro i _ s3 hI3
          refine applyEdit0_frame (.replaceInput n i none) hI3 ?_
          intro a haa
          simp [Edit.args] at haa
          subst haa
          exact hn
        fbind hloop with u0 s2 hI2 hl2 hq2
        fbind (FGoodAt.readNode hI2) with ns2 s3 hI3 hl3 hq3
        obtain ⟨rfl, hns2⟩ := hq3
        obtain ⟨b1, b2, b3, b4⟩ := hI3.sep n (.node ns2) hn hns2
        exact FGoodAt.set hI3 hn (show CellOutX true strict B (.node { ns2 with inputs := ns2.inputs.take k }) from
          ⟨fun hs x hx => b1 hs x (List.mem_of_mem_take hx), b2, b3, b4⟩)
      · refine FGoodAt.set hI1 hn (show CellOutX true strict B
          (.node { ns with inputs := ns.inputs ++ List.replicate (k - ns.inputs.length) none }) from
          ⟨fun hs x hx => ?_, a2, a3, a4⟩)
        rcases List.mem_append.mp hx with h1 | h1
        · exact a1 hs x h1
        · simp at h1
  | resizeOutputs n k =>
    have hn : ¬ B n := ha n (by simp [Edit2.args])
    unfold applyEdit2
    fbind (FGoodAt.readNode hI) with ns s1 hI1 hl1 hq1
    obtain ⟨rfl, hns⟩ := hq1
    obtain ⟨a1, a2, a3, a4⟩ := hI1.sep n (.node ns) hn hns
    split
    · exact FGoodAt.pure hI1 trivial
    · split
      · have hrem : ∀ x ∈ ns.outputs.drop k, ¬ B x := fun x hx => a4 rfl x (List.mem_of_mem_drop hx)
        fbind (fforM'_good (f := checkNoUses) _ _ hI1 (fun x _ s3 hI3 => fcheckNoUses_good x hI3))
          with u0 s2 hI2 hl2 hq2
        fbind (fforM'_good (f := clearProducer) _ _ hI2 (fun x hx s3 hI3 => fclearProducer_good x hI3 (hrem x hx)))
          with u1 s3 hI3 hl3 hq3
        fbind (FGoodAt.readNode hI3) with ns2 s4 hI4 hl4 hq4
        obtain ⟨rfl, hns2⟩ := hq4
        obtain ⟨b1, b2, b3, b4⟩ := hI4.sep n (.node ns2) hn hns2
        fbind (FGoodAt.set hI4 hn (show CellOutX true strict B (.node { ns2 with outputs := ns2.outputs.take k }) from
          ⟨b1, b2, b3, fun hu x hx => b4 hu x (List.mem_of_mem_take hx)⟩)) with u2 s5 hI5 hl5 hq5
        exact fforM'_good (f := dropShardingOf n) _ _ hI5 (fun x _ s6 hI6 => fdropShardingOf_good n x hI6 hn)
      · fbind (fmkOutputs_good n (k - ns.outputs.length) ns.outputs.length s1 hI1) with outs s2 hI2 hl2 houts
        fbind (FGoodAt.readNode hI2) with ns2 s3 hI3 hl3 hq3
        obtain ⟨rfl, hns2⟩ := hq3
        obtain ⟨b1, b2, b3, b4⟩ := hI3.sep n (.node ns2) hn hns2
        refine FGoodAt.set hI3 hn (show CellOutX true strict B (.node { ns2 with outputs := ns2.outputs ++ outs }) from
          ⟨b1, b2, b3, fun hu x hx => ?_⟩)
        rcases List.mem_append.mp hx with h1 | h1
        · exact b4 hu x h1
        · exact houts x h1
  | putFunc m idx f =>
    have hm : ¬ B m := ha m (by simp [Edit2.args])
    unfold applyEdit2
    fbind (FGoodAt.readModel hI) with ms s1 hI1 hl1 hq1
    obtain ⟨rfl, hms⟩ := hq1
    have hmo := hI1.sep m (.model ms) hm hms
    fbind (FGoodAt.readFunc hI1) with fs s2 hI2 hl2 hq2
    split
    · exact FGoodAt.set hI2 hm (show CellOutX true strict B (.model { ms with funcs := _ }) from hmo)
    · split
      · exact FGoodAt.set hI2 hm (show CellOutX true strict B (.model { ms with funcs := _ }) from hmo)
      · exact FGoodAt.unsupported hI2
  | delFunc m i =>
    have hm : ¬ B m := ha m (by simp [Edit2.args])
    unfold applyEdit2
    fbind (FGoodAt.readModel hI) with ms s1 hI1 hl1 hq1
    obtain ⟨rfl, hms⟩ := hq1
    have hmo := hI1.sep m (.model ms) hm hms
    split
    · exact FGoodAt.set hI1 hm (show CellOutX true strict B (.model { ms with funcs := _ }) from hmo)
    · exact FGoodAt.raise hI1

end
end IrVerif.Clone

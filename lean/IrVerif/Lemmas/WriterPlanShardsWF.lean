/-
C09: the configuration `planSharded` (concurrent shard drivers, some of which run an inner parallel
writer) built from the arguments of a save is well formed (`WF`).
-/
import IrVerif.Lemmas.WriterPlanWF
namespace IrVerif.WriterN
open IrVerif.Layout (Info computeInfos computeInfosFrom)

section
variable (al : Option Nat) (athr : Nat) (S wps : Nat)

/-- does the driver of this shard run `_write_parallel`? -/
def isSub (wps : Nat) (sh : List TSpec) : Bool := decide (1 < wps ∧ 1 < sh.length)

def totalLen (shards : List (List TSpec)) : Nat := (shards.map List.length).sum

/-- the shard loop, one shape for both branches -/
theorem planShards_cons (j st np nj : Nat) (sh : List TSpec) (rest : List (List TSpec)) :
    planShards al athr S wps j st np nj (sh :: rest) =
      { tensors := placeFile al athr j (fun k => if isSub wps sh then S + nj + k else j) sh ++
          (planShards al athr S wps (j + 1) (st + sh.length) (if isSub wps sh then np + 1 else np)
            (if isSub wps sh then nj + sh.length else nj) rest).tensors
        outer := ⟨0, st, if isSub wps sh then some (1 + np) else none⟩ ::
          (planShards al athr S wps (j + 1) (st + sh.length) (if isSub wps sh then np + 1 else np)
            (if isSub wps sh then nj + sh.length else nj) rest).outer
        inner := (if isSub wps sh then (List.range sh.length).map (fun k => (⟨1 + np, st + k, none⟩ : JobCfg))
            else []) ++
          (planShards al athr S wps (j + 1) (st + sh.length) (if isSub wps sh then np + 1 else np)
            (if isSub wps sh then nj + sh.length else nj) rest).inner
        pools := (if isSub wps sh then
            [(⟨wps, true, (List.range sh.length).map (fun k => S + nj + k), true, some j⟩ : PoolCfg)] else []) ++
          (planShards al athr S wps (j + 1) (st + sh.length) (if isSub wps sh then np + 1 else np)
            (if isSub wps sh then nj + sh.length else nj) rest).pools
        files := (if isSub wps sh then preallocImage al athr sh else openWb []) ::
          (planShards al athr S wps (j + 1) (st + sh.length) (if isSub wps sh then np + 1 else np)
            (if isSub wps sh then nj + sh.length else nj) rest).files } := by
  simp only [planShards, isSub]
  split
  · rename_i h; simp [h]
  · rename_i h; simp [h]


/-- parameters of the recursive call -/
def npN (wps np : Nat) (sh : List TSpec) : Nat := if isSub wps sh then np + 1 else np
def njN (wps nj : Nat) (sh : List TSpec) : Nat := if isSub wps sh then nj + sh.length else nj

theorem ps_tensors (j st np nj : Nat) (sh : List TSpec) (rest : List (List TSpec)) :
    (planShards al athr S wps j st np nj (sh :: rest)).tensors =
      placeFile al athr j (fun k => if isSub wps sh then S + nj + k else j) sh ++
        (planShards al athr S wps (j + 1) (st + sh.length) (npN wps np sh) (njN wps nj sh) rest).tensors := by
  rw [planShards_cons]; rfl

theorem ps_outer (j st np nj : Nat) (sh : List TSpec) (rest : List (List TSpec)) :
    (planShards al athr S wps j st np nj (sh :: rest)).outer =
      ⟨0, st, if isSub wps sh then some (1 + np) else none⟩ ::
        (planShards al athr S wps (j + 1) (st + sh.length) (npN wps np sh) (njN wps nj sh) rest).outer := by
  rw [planShards_cons]; rfl

theorem ps_inner (j st np nj : Nat) (sh : List TSpec) (rest : List (List TSpec)) :
    (planShards al athr S wps j st np nj (sh :: rest)).inner =
      (if isSub wps sh then (List.range sh.length).map (fun k => (⟨1 + np, st + k, none⟩ : JobCfg)) else []) ++
        (planShards al athr S wps (j + 1) (st + sh.length) (npN wps np sh) (njN wps nj sh) rest).inner := by
  rw [planShards_cons]; rfl

theorem ps_pools (j st np nj : Nat) (sh : List TSpec) (rest : List (List TSpec)) :
    (planShards al athr S wps j st np nj (sh :: rest)).pools =
      (if isSub wps sh then
        [(⟨wps, true, (List.range sh.length).map (fun k => S + nj + k), true, some j⟩ : PoolCfg)] else []) ++
        (planShards al athr S wps (j + 1) (st + sh.length) (npN wps np sh) (njN wps nj sh) rest).pools := by
  rw [planShards_cons]; rfl

/-- number of inner jobs / pools contributed by the first shard -/
def innerLen (wps : Nat) (sh : List TSpec) : Nat := if isSub wps sh then sh.length else 0
def poolLen (wps : Nat) (sh : List TSpec) : Nat := if isSub wps sh then 1 else 0

theorem ps_inner_length (j st np nj : Nat) (sh : List TSpec) (rest : List (List TSpec)) :
    (planShards al athr S wps j st np nj (sh :: rest)).inner.length = innerLen wps sh +
      (planShards al athr S wps (j + 1) (st + sh.length) (npN wps np sh) (njN wps nj sh) rest).inner.length := by
  rw [ps_inner]; simp only [List.length_append, innerLen]
  split <;> simp

theorem ps_pools_length (j st np nj : Nat) (sh : List TSpec) (rest : List (List TSpec)) :
    (planShards al athr S wps j st np nj (sh :: rest)).pools.length = poolLen wps sh +
      (planShards al athr S wps (j + 1) (st + sh.length) (npN wps np sh) (njN wps nj sh) rest).pools.length := by
  rw [ps_pools]; simp only [List.length_append, poolLen]
  split <;> simp

theorem njN_eq (nj : Nat) (sh : List TSpec) : njN wps nj sh = nj + innerLen wps sh := by
  simp only [njN, innerLen]; split <;> simp

theorem npN_eq (np : Nat) (sh : List TSpec) : npN wps np sh = np + poolLen wps sh := by
  simp only [npN, poolLen]; split <;> simp

theorem ps_lengths : ∀ (shards : List (List TSpec)) (j st np nj : Nat),
    (planShards al athr S wps j st np nj shards).outer.length = shards.length ∧
    (planShards al athr S wps j st np nj shards).tensors.length = totalLen shards
  | [], _, _, _, _ => by simp [planShards, totalLen]
  | sh :: rest, j, st, np, nj => by
      have ih := ps_lengths rest (j + 1) (st + sh.length) (npN wps np sh) (njN wps nj sh)
      rw [ps_outer, ps_tensors]
      simp [placeFile_length, ih.1, ih.2, totalLen]

theorem append_get {α : Type} {l1 l2 : List α} {i : Nat} {x : α} (h : (l1 ++ l2)[i]? = some x) :
    (i < l1.length ∧ l1[i]? = some x) ∨ (l1.length ≤ i ∧ l2[i - l1.length]? = some x) := by
  rw [List.getElem?_append] at h
  by_cases hlt : i < l1.length
  · left; rw [if_pos hlt] at h; exact ⟨hlt, h⟩
  · right; rw [if_neg hlt] at h; exact ⟨Nat.le_of_not_gt hlt, h⟩

/-- the tensors of the first shard -/
theorem seg_get {j nj : Nat} {sh : List TSpec} {i : Nat} {t : Tensor}
    (h : (placeFile al athr j (fun k => if isSub wps sh then S + nj + k else j) sh)[i]? = some t) :
    i < sh.length ∧ t.job = (if isSub wps sh then S + nj + i else j) ∧ ∃ x ∈ sh, t.obj = x.obj := by
  have hlt : i < sh.length := by
    have := getElem?_lt h; rwa [placeFile_length] at this
  obtain ⟨h1, x, h2, h3⟩ := placeZip_get j _ _ sh 0 i t h
  refine ⟨hlt, by simpa using h1, x, List.mem_of_getElem? h2, h3⟩

/-- job ids used by the tensors: shard indices of serial shards, or inner job ids -/
theorem ps_job_range : ∀ (shards : List (List TSpec)) (j st np nj i : Nat) (t : Tensor),
    (planShards al athr S wps j st np nj shards).tensors[i]? = some t →
      (j ≤ t.job ∧ t.job < j + shards.length) ∨
      (S + nj ≤ t.job ∧ t.job < S + nj + (planShards al athr S wps j st np nj shards).inner.length)
  | [], _, _, _, _, _, _, h => by simp [planShards] at h
  | sh :: rest, j, st, np, nj, i, t, h => by
      rw [ps_tensors] at h
      rw [ps_inner_length]
      rcases append_get h with ⟨_, h⟩ | ⟨_, h⟩
      · obtain ⟨hlt, hj, _⟩ := seg_get al athr S wps h
        by_cases hs : isSub wps sh = true
        · right; simp only [hs, if_true] at hj; simp only [innerLen, hs, if_true]; omega
        · left; simp only [hs] at hj; simp at hj; simp only [List.length_cons]; omega
      · rcases ps_job_range rest _ _ _ _ _ t h with h1 | h1
        · left; simp only [List.length_cons]; omega
        · right; have e := njN_eq wps nj sh; omega

theorem ps_obj : ∀ (shards : List (List TSpec)) (j st np nj : Nat),
    ∀ t ∈ (planShards al athr S wps j st np nj shards).tensors, ∃ x ∈ shards.flatten, t.obj = x.obj
  | [], _, _, _, _ => by intro t h; simp [planShards] at h
  | sh :: rest, j, st, np, nj => by
      intro t h
      rw [ps_tensors, List.mem_append] at h
      rcases h with h | h
      · obtain ⟨i, hi, rfl⟩ := List.mem_iff_getElem.1 h
        obtain ⟨_, _, x, hx, e⟩ := seg_get al athr S wps (List.getElem?_eq_getElem hi)
        exact ⟨x, by simp [hx], e⟩
      · obtain ⟨x, hx, e⟩ := ps_obj rest _ _ _ _ t h
        exact ⟨x, by simp [hx], e⟩


/-- tensor `pos` is the first one of job `id` -/
def FirstAt (ts : List Tensor) (pos id : Nat) : Prop :=
  (∃ t, ts[pos]? = some t ∧ t.job = id) ∧ ∀ i t, i < pos → ts[i]? = some t → t.job ≠ id

theorem firstAt_left {l1 l2 : List Tensor} {pos id : Nat} (h : FirstAt l1 pos id) :
    FirstAt (l1 ++ l2) pos id := by
  obtain ⟨⟨t, ht, hj⟩, hf⟩ := h
  have hlt := getElem?_lt ht
  refine ⟨⟨t, by rw [List.getElem?_append_left hlt]; exact ht, hj⟩, fun i t' hi ht' => ?_⟩
  rw [List.getElem?_append_left (by omega)] at ht'
  exact hf i t' hi ht'

theorem firstAt_right {l1 l2 : List Tensor} {pos id : Nat} (h1 : ∀ t ∈ l1, t.job ≠ id)
    (h : FirstAt l2 pos id) : FirstAt (l1 ++ l2) (l1.length + pos) id := by
  obtain ⟨⟨t, ht, hj⟩, hf⟩ := h
  refine ⟨⟨t, by rw [List.getElem?_append_right (by omega)]; simpa using ht, hj⟩, fun i t' hi ht' => ?_⟩
  rcases append_get ht' with ⟨_, h'⟩ | ⟨hge, h'⟩
  · exact h1 t' (List.mem_of_getElem? h')
  · exact hf (i - l1.length) t' (by omega) h'

/-- existence of the tensors of the first shard -/
theorem seg_exists (j nj : Nat) (sh : List TSpec) {i : Nat} (hi : i < sh.length) :
    ∃ t, (placeFile al athr j (fun k => if isSub wps sh then S + nj + k else j) sh)[i]? = some t ∧
      t.job = (if isSub wps sh then S + nj + i else j) := by
  have hlt : i < (placeFile al athr j (fun k => if isSub wps sh then S + nj + k else j) sh).length := by
    rw [placeFile_length]; exact hi
  refine ⟨_, List.getElem?_eq_getElem hlt, ?_⟩
  exact (seg_get al athr S wps (List.getElem?_eq_getElem hlt)).2.1

/-- job ids of the first shard's tensors -/
theorem seg_jobs {j nj : Nat} {sh : List TSpec} :
    ∀ t ∈ placeFile al athr j (fun k => if isSub wps sh then S + nj + k else j) sh,
      (isSub wps sh = false ∧ t.job = j) ∨
      (isSub wps sh = true ∧ S + nj ≤ t.job ∧ t.job < S + nj + sh.length) := by
  intro t ht
  obtain ⟨i, hi⟩ := List.mem_iff_getElem?.1 ht
  obtain ⟨hlt, hj, _⟩ := seg_get al athr S wps hi
  by_cases hs : isSub wps sh = true
  · right; simp only [hs, if_true] at hj; exact ⟨hs, by omega, by omega⟩
  · left; simp only [hs] at hj; exact ⟨by simpa using hs, by simpa using hj⟩

theorem totalLen_cons (sh : List TSpec) (rest : List (List TSpec)) :
    totalLen (sh :: rest) = sh.length + totalLen rest := by simp [totalLen]

/-- **inner jobs** (jobs of the shards' own writers) -/
theorem ps_inner_jobs : ∀ (shards : List (List TSpec)) (j st np nj : Nat),
    j + shards.length ≤ S → ∀ b jb, (planShards al athr S wps j st np nj shards).inner[b]? = some jb →
      jb.sub = none ∧ np < jb.pool ∧
      jb.pool ≤ np + (planShards al athr S wps j st np nj shards).pools.length ∧
      (∃ p, (planShards al athr S wps j st np nj shards).pools[jb.pool - 1 - np]? = some p ∧
        (S + nj + b) ∈ p.jobs) ∧
      st ≤ jb.start ∧ jb.start < st + totalLen shards ∧
      FirstAt (planShards al athr S wps j st np nj shards).tensors (jb.start - st) (S + nj + b)
  | [], _, _, _, _, _, _, _, h => by simp [planShards] at h
  | sh :: rest, j, st, np, nj, hS, b, jb, h => by
      rw [ps_inner] at h
      rw [ps_pools_length, ps_pools, ps_tensors, totalLen_cons]
      have hS' : j + 1 + rest.length ≤ S := by simp only [List.length_cons] at hS; omega
      rcases append_get h with ⟨hb, h⟩ | ⟨hb, h⟩
      · -- a job of the first shard's writer
        cases hs : isSub wps sh
        · simp [hs] at hb
        · simp only [hs, if_true, List.length_map, List.length_range] at hb h ⊢
          simp only [List.getElem?_map, List.getElem?_range hb, Option.map_some, Option.some.injEq] at h
          subst h
          obtain ⟨t, ht, hj⟩ := seg_exists al athr S wps j nj sh hb
          simp only [hs, if_true] at ht hj
          refine ⟨rfl, by simp only; omega, by simp only [poolLen, hs, if_true]; omega,
            ⟨_, by simp only [show 1 + np - 1 - np = 0 by omega]; rfl, ?_⟩, by simp only; omega,
            by simp only; omega, ?_⟩
          · simp only [List.mem_map, List.mem_range]; exact ⟨b, hb, rfl⟩
          · simp only [show st + b - st = b by omega]
            refine firstAt_left ⟨⟨t, ht, hj⟩, fun i t' hi ht' => ?_⟩
            have := (seg_get al athr S wps (sh := sh) (nj := nj) (j := j)
              (by simpa only [hs, if_true] using ht')).2.1
            simp only [hs, if_true] at this; omega
      · -- a job of a later shard
        have hlen : (if isSub wps sh then (List.range sh.length).map
            (fun k => (⟨1 + np, st + k, none⟩ : JobCfg)) else []).length = innerLen wps sh := by
          simp only [innerLen]; split <;> simp
        rw [hlen] at hb h
        obtain ⟨h1, h2, h3, ⟨p, hp, hmem⟩, h5, h6, h7⟩ :=
          ps_inner_jobs rest (j + 1) (st + sh.length) (npN wps np sh) (njN wps nj sh) hS' _ jb h
        have eN := njN_eq wps nj sh
        have eP := npN_eq wps np sh
        have hpl : (if isSub wps sh then
            [(⟨wps, true, (List.range sh.length).map (fun k => S + nj + k), true, some j⟩ : PoolCfg)]
            else []).length = poolLen wps sh := by
          simp only [poolLen]; split <;> simp
        have hid : S + njN wps nj sh + (b - innerLen wps sh) = S + nj + b := by omega
        refine ⟨h1, by omega, by omega, ⟨p, ?_, by rw [← hid]; exact hmem⟩, by omega, by omega, ?_⟩
        · rw [List.getElem?_append_right (by rw [hpl]; omega), hpl]
          rw [show jb.pool - 1 - np - poolLen wps sh = jb.pool - 1 - npN wps np sh by omega]
          exact hp
        · rw [hid] at h7
          have hpos : jb.start - st = (placeFile al athr j
              (fun k => if isSub wps sh then S + nj + k else j) sh).length + (jb.start - (st + sh.length)) := by
            rw [placeFile_length]; omega
          rw [hpos]
          refine firstAt_right (fun t ht => ?_) h7
          rcases seg_jobs al athr S wps t ht with ⟨_, e⟩ | ⟨hs, e1, e2⟩
          · simp only [List.length_cons] at hS; omega
          · have : innerLen wps sh = sh.length := by simp [innerLen, hs]
            omega


theorem headInner_length (st np : Nat) (sh : List TSpec) :
    (if isSub wps sh then (List.range sh.length).map
      (fun k => (⟨1 + np, st + k, none⟩ : JobCfg)) else []).length = innerLen wps sh := by
  simp only [innerLen]; split <;> simp

theorem headPools_length (j nj : Nat) (sh : List TSpec) :
    (if isSub wps sh then
      [(⟨wps, true, (List.range sh.length).map (fun k => S + nj + k), true, some j⟩ : PoolCfg)]
      else []).length = poolLen wps sh := by
  simp only [poolLen]; split <;> simp

/-- **inner pools** -/
theorem ps_inner_pools : ∀ (shards : List (List TSpec)) (j st np nj : Nat),
    ∀ c p, (planShards al athr S wps j st np nj shards).pools[c]? = some p →
      p.size = wps ∧ 0 < p.jobs.length ∧ p.jobs.Nodup ∧
      (∃ a jb, p.parent = some (j + a) ∧
        (planShards al athr S wps j st np nj shards).outer[a]? = some jb ∧ jb.sub = some (1 + np + c)) ∧
      ∀ jid ∈ p.jobs, S + nj ≤ jid ∧
        jid < S + nj + (planShards al athr S wps j st np nj shards).inner.length ∧
        ∃ jb, (planShards al athr S wps j st np nj shards).inner[jid - S - nj]? = some jb ∧
          jb.pool = 1 + np + c
  | [], _, _, _, _, _, _, h => by simp [planShards] at h
  | sh :: rest, j, st, np, nj, c, p, h => by
      rw [ps_pools] at h
      rw [ps_outer, ps_inner_length, ps_inner]
      rcases append_get h with ⟨hc, h⟩ | ⟨hc, h⟩
      · by_cases hs : isSub wps sh = true
        · simp only [hs, if_true, List.length_singleton] at hc h ⊢
          have hc0 : c = 0 := by omega
          subst hc0
          simp only [List.getElem?_cons_zero, Option.some.injEq] at h
          subst h
          have hlen : 1 < sh.length := by
            simp only [isSub, decide_eq_true_eq] at hs; exact hs.2
          refine ⟨rfl, by simp; omega, ?_, ⟨0, _, rfl, rfl, rfl⟩, fun jid hj => ?_⟩
          · show List.Pairwise (· ≠ ·) _
            rw [List.pairwise_map]
            exact (List.nodup_range (n := sh.length)).imp (fun h e => h (by omega))
          · simp only [List.mem_map, List.mem_range] at hj
            obtain ⟨k, hk, rfl⟩ := hj
            refine ⟨by omega, by simp only [innerLen, hs, if_true]; omega, ⟨1 + np, st + k, none⟩, ?_, rfl⟩
            rw [List.getElem?_append_left (by simp; omega)]
            simp [show S + nj + k - S - nj = k by omega, List.getElem?_range hk]
        · simp [hs] at hc
      · rw [headPools_length] at hc h
        obtain ⟨h1, h2, h3, ⟨a, jb, h4, h5, h6⟩, h7⟩ :=
          ps_inner_pools rest (j + 1) (st + sh.length) (npN wps np sh) (njN wps nj sh) _ p h
        have eN := njN_eq wps nj sh
        have eP := npN_eq wps np sh
        refine ⟨h1, h2, h3, ⟨a + 1, jb, by rw [h4]; congr 1; omega, by simpa using h5,
          by rw [h6]; congr 1; omega⟩, fun jid hj => ?_⟩
        obtain ⟨g1, g2, jb', g3, g4⟩ := h7 jid hj
        refine ⟨by omega, by omega, jb', ?_, by rw [g4]; omega⟩
        rw [List.getElem?_append_right (by rw [headInner_length]; omega), headInner_length]
        rw [show jid - S - nj - innerLen wps sh = jid - S - njN wps nj sh by omega]
        exact g3

/-- **outer jobs** (one per shard) -/
theorem ps_outer_jobs : ∀ (shards : List (List TSpec)) (j st np nj : Nat),
    (∀ sh ∈ shards, sh ≠ []) → j + shards.length ≤ S →
    ∀ a jb, (planShards al athr S wps j st np nj shards).outer[a]? = some jb →
      jb.pool = 0 ∧ st ≤ jb.start ∧ jb.start < st + totalLen shards ∧
      (jb.sub = none →
        FirstAt (planShards al athr S wps j st np nj shards).tensors (jb.start - st) (j + a)) ∧
      (∀ q', jb.sub = some q' → np < q' ∧
        q' ≤ np + (planShards al athr S wps j st np nj shards).pools.length ∧
        ∃ p, (planShards al athr S wps j st np nj shards).pools[q' - 1 - np]? = some p ∧
          p.parent = some (j + a))
  | [], _, _, _, _, _, _, _, _, h => by simp [planShards] at h
  | sh :: rest, j, st, np, nj, hne, hS, a, jb, h => by
      rw [ps_outer] at h
      rw [ps_tensors, ps_pools_length, ps_pools, totalLen_cons]
      have hpos : 0 < sh.length := List.length_pos_iff.2 (hne sh (List.mem_cons_self ..))
      have hS' : j + 1 + rest.length ≤ S := by simp only [List.length_cons] at hS; omega
      cases a with
      | zero =>
          simp only [List.getElem?_cons_zero, Option.some.injEq] at h
          subst h
          refine ⟨rfl, Nat.le_refl _, by simp only; omega, fun hsub => ?_, fun q' hq => ?_⟩
          · have hs : ¬ isSub wps sh = true := by
              intro hs; simp only [hs, if_true] at hsub; cases hsub
            obtain ⟨t, ht, hj⟩ := seg_exists al athr S wps j nj sh hpos
            simp only [hs] at hj
            simp only [Nat.sub_self, Nat.add_zero]
            exact firstAt_left ⟨⟨t, ht, by simpa using hj⟩, fun i _ hi _ => absurd hi (Nat.not_lt_zero i)⟩
          · by_cases hs : isSub wps sh = true
            · simp only [hs, if_true, Option.some.injEq] at hq
              subst hq
              simp only [hs, if_true, poolLen]
              refine ⟨by omega, by omega, _, by simp only [show 1 + np - 1 - np = 0 by omega]; rfl, rfl⟩
            · simp only [hs] at hq; simp at hq
      | succ a =>
          simp only [List.getElem?_cons_succ] at h
          have hal : a < rest.length := by
            have := getElem?_lt h
            rwa [(ps_lengths al athr S wps rest _ _ _ _).1] at this
          obtain ⟨h1, h2, h3, h4, h5⟩ :=
            ps_outer_jobs rest (j + 1) (st + sh.length) (npN wps np sh) (njN wps nj sh)
              (fun x hx => hne x (List.mem_cons_of_mem _ hx)) hS' a jb h
          have eN := njN_eq wps nj sh
          have eP := npN_eq wps np sh
          refine ⟨h1, by omega, by omega, fun hsub => ?_, fun q' hq => ?_⟩
          · have h7 := h4 hsub
            rw [show j + 1 + a = j + (a + 1) by omega] at h7
            have hp : jb.start - st = (placeFile al athr j
                (fun k => if isSub wps sh then S + nj + k else j) sh).length + (jb.start - (st + sh.length)) := by
              rw [placeFile_length]; omega
            rw [hp]
            refine firstAt_right (fun t ht => ?_) h7
            rcases seg_jobs al athr S wps t ht with ⟨_, e⟩ | ⟨_, e1, _⟩
            · omega
            · omega
          · obtain ⟨g1, g2, p, g3, g4⟩ := h5 q' hq
            refine ⟨by omega, by omega, p, ?_, by rw [g4]; congr 1; omega⟩
            rw [List.getElem?_append_right (by rw [headPools_length]; omega), headPools_length]
            rw [show q' - 1 - np - poolLen wps sh = q' - 1 - npN wps np sh by omega]
            exact g3

/-- a tensor whose job is a shard index belongs to a serially written shard -/
theorem ps_serial : ∀ (shards : List (List TSpec)) (j st np nj : Nat), j + shards.length ≤ S →
    ∀ (i : Nat) (t : Tensor), (planShards al athr S wps j st np nj shards).tensors[i]? = some t →
      t.job < j + shards.length →
      ∃ jb, (planShards al athr S wps j st np nj shards).outer[t.job - j]? = some jb ∧ jb.sub = none
  | [], _, _, _, _, _, _, _, h, _ => by simp [planShards] at h
  | sh :: rest, j, st, np, nj, hS, i, t, h, hlt => by
      rw [ps_tensors] at h
      rw [ps_outer]
      have hS' : j + 1 + rest.length ≤ S := by simp only [List.length_cons] at hS; omega
      simp only [List.length_cons] at hlt hS
      rcases append_get h with ⟨_, h⟩ | ⟨_, h⟩
      · rcases seg_jobs al athr S wps t (List.mem_of_getElem? h) with ⟨hs, e⟩ | ⟨_, e1, _⟩
        · refine ⟨_, by rw [e, Nat.sub_self]; rfl, ?_⟩
          simp [hs]
        · omega
      · rcases ps_job_range al athr S wps rest _ _ _ _ _ t h with ⟨g1, g2⟩ | ⟨g1, _⟩
        · obtain ⟨jb, hj, hsub⟩ := ps_serial rest (j + 1) (st + sh.length) (npN wps np sh) (njN wps nj sh)
            hS' _ t h (by omega)
          refine ⟨jb, ?_, hsub⟩
          rw [show t.job - j = (t.job - (j + 1)) + 1 by omega, List.getElem?_cons_succ]
          exact hj
        · have eN := njN_eq wps nj sh; omega

/-- the tensors of a job are contiguous -/
theorem ps_contig : ∀ (shards : List (List TSpec)) (j st np nj : Nat), j + shards.length ≤ S →
    ∀ (i k : Nat) (ti tk : Tensor), i < k → (planShards al athr S wps j st np nj shards).tensors[i]? = some ti →
      (planShards al athr S wps j st np nj shards).tensors[k]? = some tk → tk.job = ti.job →
      ∃ t', (planShards al athr S wps j st np nj shards).tensors[i + 1]? = some t' ∧ t'.job = ti.job
  | [], _, _, _, _, _, _, _, _, _, _, h, _, _ => by simp [planShards] at h
  | sh :: rest, j, st, np, nj, hS, i, k, ti, tk, hik, hi, hk, he => by
      rw [ps_tensors] at hi hk ⊢
      have hS' : j + 1 + rest.length ≤ S := by simp only [List.length_cons] at hS; omega
      simp only [List.length_cons] at hS
      have eN := njN_eq wps nj sh
      rcases append_get hk with ⟨hkl, hk⟩ | ⟨hkl, hk⟩
      · -- both in the first shard
        rw [List.getElem?_append_left (by omega)] at hi
        obtain ⟨hk1, hk2, _⟩ := seg_get al athr S wps hk
        obtain ⟨hi1, hi2, _⟩ := seg_get al athr S wps hi
        by_cases hs : isSub wps sh = true
        · simp only [hs, if_true] at hk2 hi2; omega
        · obtain ⟨t', ht', hj'⟩ := seg_exists al athr S wps j nj sh (i := i + 1) (by omega)
          refine ⟨t', by rw [List.getElem?_append_left (by omega)]; exact ht', ?_⟩
          simp only [hs] at hj' hi2; simp at hj' hi2; omega
      · rcases append_get hi with ⟨hil, hi⟩ | ⟨hil, hi⟩
        · -- i in the first shard, k in a later one: different jobs
          exfalso
          rcases seg_jobs al athr S wps ti (List.mem_of_getElem? hi) with ⟨_, e⟩ | ⟨hs, e1, e2⟩ <;>
            rcases ps_job_range al athr S wps rest _ _ _ _ _ tk hk with ⟨g1, g2⟩ | ⟨g1, g2⟩
          · omega
          · omega
          · omega
          · have : innerLen wps sh = sh.length := by simp [innerLen, hs]
            omega
        · obtain ⟨t', ht', hj'⟩ := ps_contig rest (j + 1) (st + sh.length) (npN wps np sh) (njN wps nj sh)
            hS' _ _ ti tk (by omega) hi hk he
          refine ⟨t', ?_, hj'⟩
          rw [List.getElem?_append_right (by omega)]
          rw [show i + 1 - (placeFile al athr j (fun k => if isSub wps sh then S + nj + k else j) sh).length =
            i - (placeFile al athr j (fun k => if isSub wps sh then S + nj + k else j) sh).length + 1 by omega]
          exact ht'


theorem getD_of_get? {α : Type} [Inhabited α] {l : List α} {i : Nat} {x : α} (h : l[i]? = some x) :
    l.getD i default = x := by simp [List.getD_eq_getElem?_getD, h]

theorem get?_of_lt {α : Type} {l : List α} {i : Nat} (h : i < l.length) : ∃ x, l[i]? = some x :=
  ⟨l[i], List.getElem?_eq_getElem h⟩

/-- the configuration assembled from the shard loop is well formed -/
theorem wf_of_parts (sw nObjs cap : Nat) (shards : List (List TSpec)) (hS : S = shards.length)
    (hsw : 0 < sw) (hwps : 0 < wps) (hS0 : 0 < S) (hne : ∀ sh ∈ shards, sh ≠ [])
    (hobj : ∀ x ∈ shards.flatten, x.obj < nObjs) :
    WF { capacity := cap, nObjs := nObjs
         tensors := (planShards al athr S wps 0 0 0 0 shards).tensors
         pools := ⟨sw, false, List.range S, false, none⟩ :: (planShards al athr S wps 0 0 0 0 shards).pools
         jobs := (planShards al athr S wps 0 0 0 0 shards).outer ++ (planShards al athr S wps 0 0 0 0 shards).inner
         files := (planShards al athr S wps 0 0 0 0 shards).files } := by
  have hSle : 0 + shards.length ≤ S := by omega
  have hlen := ps_lengths al athr S wps shards 0 0 0 0
  have T2 := ps_job_range al athr S wps shards 0 0 0 0
  have T2b := ps_obj al athr S wps shards 0 0 0 0
  have T3 := ps_outer_jobs al athr S wps shards 0 0 0 0 hne hSle
  have T4 := ps_serial al athr S wps shards 0 0 0 0 hSle
  have T5 := ps_inner_jobs al athr S wps shards 0 0 0 0 hSle
  have T6 := ps_inner_pools al athr S wps shards 0 0 0 0
  have T7 := ps_contig al athr S wps shards 0 0 0 0 hSle
  generalize planShards al athr S wps 0 0 0 0 shards = r at *
  obtain ⟨hol, htl⟩ := hlen
  generalize hcfg : ({ capacity := cap, nObjs := nObjs, tensors := r.tensors
                       pools := ⟨sw, false, List.range S, false, none⟩ :: r.pools
                       jobs := r.outer ++ r.inner, files := r.files } : Cfg) = cfg
  have hnP : cfg.nPools = 1 + r.pools.length := by subst hcfg; simp [Cfg.nPools]; omega
  have hnJ : cfg.nJobs = S + r.inner.length := by subst hcfg; simp [Cfg.nJobs, hol, hS]
  have hn : cfg.n = r.tensors.length := by subst hcfg; rfl
  have hnO : cfg.nObjs = nObjs := by subst hcfg; rfl
  have hp0 : cfg.pool 0 = ⟨sw, false, List.range S, false, none⟩ := by subst hcfg; simp [Cfg.pool]
  have hpS : ∀ c p, r.pools[c]? = some p → cfg.pool (c + 1) = p := by
    intro c p h; subst hcfg; simp [Cfg.pool, h]
  have hpB : ∀ c, r.pools.length ≤ c → cfg.pool (c + 1) = default := by
    intro c h; subst hcfg; simp [Cfg.pool, List.getElem?_eq_none h]
  have hjO : ∀ a jb, r.outer[a]? = some jb → cfg.jobc a = jb := by
    intro a jb h; subst hcfg
    simp [Cfg.jobc, List.getElem?_append_left (getElem?_lt h), h]
  have hjI : ∀ b jb, r.inner[b]? = some jb → cfg.jobc (S + b) = jb := by
    intro b jb h; subst hcfg
    show (r.outer ++ r.inner).getD (S + b) default = jb
    rw [List.getD_eq_getElem?_getD, List.getElem?_append_right (by omega)]
    rw [show S + b - r.outer.length = b by omega, h]; rfl
  have htj : ∀ i t, r.tensors[i]? = some t → cfg.job i = t.job ∧ cfg.obj i = t.obj := by
    intro i t h; subst hcfg; simp [Cfg.job, Cfg.obj, h]
  have hex : ∀ i, i < cfg.n → ∃ t, r.tensors[i]? = some t := fun i hi => get?_of_lt (by omega)
  -- a job id is an outer or an inner job
  have hjob : ∀ jid, jid < cfg.nJobs →
      (jid < S ∧ ∃ jb, r.outer[jid]? = some jb ∧ cfg.jobc jid = jb) ∨
      (S ≤ jid ∧ ∃ jb, r.inner[jid - S]? = some jb ∧ cfg.jobc jid = jb) := by
    intro jid hj
    by_cases h : jid < S
    · obtain ⟨jb, hjb⟩ := get?_of_lt (l := r.outer) (i := jid) (by omega)
      exact Or.inl ⟨h, jb, hjb, hjO _ _ hjb⟩
    · obtain ⟨jb, hjb⟩ := get?_of_lt (l := r.inner) (i := jid - S) (by omega)
      refine Or.inr ⟨by omega, jb, hjb, ?_⟩
      have := hjI _ _ hjb
      rwa [show S + (jid - S) = jid by omega] at this
  refine ⟨by omega, by rw [hp0], ?_, ?_, ?_, ?_, ?_, ?_, ?_, ?_, ?_, ?_, ?_, ?_, ?_, ?_, ?_⟩
  · -- nonroot
    intro q hq hq0
    obtain ⟨c, rfl⟩ : ∃ c, q = c + 1 := ⟨q - 1, by omega⟩
    obtain ⟨p, hp⟩ := get?_of_lt (l := r.pools) (i := c) (by omega)
    obtain ⟨_, _, _, ⟨a, jb, hpar, _, _⟩, _⟩ := T6 c p hp
    exact ⟨_, by rw [hpS c p hp]; exact hpar⟩
  · -- size_pos
    intro q hq
    cases q with
    | zero => rw [hp0]; exact hsw
    | succ c =>
        obtain ⟨p, hp⟩ := get?_of_lt (l := r.pools) (i := c) (by omega)
        rw [hpS c p hp, (T6 c p hp).1]; exact hwps
  · -- jobs_pos
    intro q hq
    cases q with
    | zero => rw [hp0]; simpa using hS0
    | succ c =>
        obtain ⟨p, hp⟩ := get?_of_lt (l := r.pools) (i := c) (by omega)
        rw [hpS c p hp]; exact (T6 c p hp).2.1
  · -- jobs_nodup
    intro q
    cases q with
    | zero => rw [hp0]; exact List.nodup_range
    | succ c =>
        by_cases hc : c < r.pools.length
        · obtain ⟨p, hp⟩ := get?_of_lt hc
          rw [hpS c p hp]; exact (T6 c p hp).2.2.1
        · rw [hpB c (by omega)]; exact List.nodup_nil
  · -- job_pool
    intro q jid hj
    cases q with
    | zero =>
        rw [hp0] at hj
        have hjl : jid < S := by simpa using hj
        obtain ⟨jb, hjb⟩ := get?_of_lt (l := r.outer) (i := jid) (by omega)
        rw [hjO _ _ hjb]
        exact ⟨by omega, (T3 _ _ hjb).1, by omega⟩
    | succ c =>
        by_cases hc : c < r.pools.length
        · obtain ⟨p, hp⟩ := get?_of_lt hc
          rw [hpS c p hp] at hj
          obtain ⟨g1, g2, jb, g3, g4⟩ := (T6 c p hp).2.2.2.2 jid hj
          have := hjI _ _ g3
          rw [show S + (jid - S - 0) = jid by omega] at this
          rw [this]
          exact ⟨by omega, by omega, by omega⟩
        · rw [hpB c (by omega)] at hj
          simp [show (default : PoolCfg).jobs = [] from rfl] at hj
  · -- pool_job
    intro jid hj
    rcases hjob jid hj with ⟨h1, jb, hjb, e⟩ | ⟨h1, jb, hjb, e⟩
    · rw [e, (T3 _ _ hjb).1, hp0]; simpa using h1
    · obtain ⟨_, g2, g3, ⟨p, hp, hmem⟩, _⟩ := T5 _ _ hjb
      rw [e]
      have : cfg.pool jb.pool = p := by
        have := hpS _ _ hp
        rwa [show jb.pool - 1 - 0 + 1 = jb.pool by omega] at this
      rw [this]
      rwa [show S + 0 + (jid - S) = jid by omega] at hmem
  · -- start_lt
    intro jid hj hsub
    rcases hjob jid hj with ⟨h1, jb, hjb, e⟩ | ⟨h1, jb, hjb, e⟩
    · rw [e]; have := (T3 _ _ hjb).2.2.1; omega
    · rw [e]; have := (T5 _ _ hjb).2.2.2.2.2.1; omega
  · -- start_job
    intro jid hj hsub
    rcases hjob jid hj with ⟨h1, jb, hjb, e⟩ | ⟨h1, jb, hjb, e⟩
    · rw [e] at hsub ⊢
      obtain ⟨⟨t, ht, hjt⟩, _⟩ := (T3 _ _ hjb).2.2.2.1 hsub
      rw [(htj _ _ (by simpa using ht)).1, hjt]; omega
    · rw [e]
      obtain ⟨⟨t, ht, hjt⟩, _⟩ := (T5 _ _ hjb).2.2.2.2.2.2
      rw [(htj _ _ (by simpa using ht)).1, hjt]; omega
  · -- start_first
    intro jid i hj hsub hi
    rcases hjob jid hj with ⟨h1, jb, hjb, e⟩ | ⟨h1, jb, hjb, e⟩
    · rw [e] at hsub hi
      obtain ⟨⟨t0, ht0, _⟩, hf⟩ := (T3 _ _ hjb).2.2.2.1 hsub
      obtain ⟨t, ht⟩ := get?_of_lt (l := r.tensors) (i := i) (by have := getElem?_lt ht0; omega)
      rw [(htj _ _ ht).1]
      have := hf i t (by omega) ht
      omega
    · rw [e] at hi
      obtain ⟨⟨t0, ht0, _⟩, hf⟩ := (T5 _ _ hjb).2.2.2.2.2.2
      obtain ⟨t, ht⟩ := get?_of_lt (l := r.tensors) (i := i) (by have := getElem?_lt ht0; omega)
      rw [(htj _ _ ht).1]
      have := hf i t (by omega) ht
      omega
  · -- job_lt
    intro i hi
    obtain ⟨t, ht⟩ := hex i hi
    rw [(htj _ _ ht).1]
    rcases T2 i t ht with h | h <;> omega
  · -- job_serial
    intro i hi
    obtain ⟨t, ht⟩ := hex i hi
    rw [(htj _ _ ht).1]
    rcases T2 i t ht with h | h
    · obtain ⟨jb, hjb, hsub⟩ := T4 i t ht (by omega)
      rw [hjO _ _ (by simpa using hjb)]; exact hsub
    · obtain ⟨jb, hjb⟩ := get?_of_lt (l := r.inner) (i := t.job - S) (by omega)
      have := hjI _ _ hjb
      rw [show S + (t.job - S) = t.job by omega] at this
      rw [this]; exact (T5 _ _ hjb).1
  · -- obj_lt
    intro i hi
    obtain ⟨t, ht⟩ := hex i hi
    rw [(htj _ _ ht).2, hnO]
    obtain ⟨x, hx, e⟩ := T2b t (List.mem_of_getElem? ht)
    rw [e]; exact hobj x hx
  · -- contig
    intro i k hik hk he
    obtain ⟨tk, htk⟩ := hex k hk
    obtain ⟨ti, hti⟩ := hex i (by omega)
    rw [(htj _ _ htk).1, (htj _ _ hti).1] at he
    obtain ⟨t', ht', hj'⟩ := T7 i k ti tk hik hti htk he
    rw [(htj _ _ ht').1, (htj _ _ hti).1]; exact hj'
  · -- sub_pool
    intro jid q' hj hsub
    rcases hjob jid hj with ⟨h1, jb, hjb, e⟩ | ⟨h1, jb, hjb, e⟩
    · rw [e] at hsub ⊢
      obtain ⟨g1, g2, p, hp, hpar⟩ := (T3 _ _ hjb).2.2.2.2 q' hsub
      have : cfg.pool q' = p := by
        have := hpS _ _ hp
        rwa [show q' - 1 - 0 + 1 = q' by omega] at this
      rw [this, (T3 _ _ hjb).1]
      exact ⟨by omega, by rw [hpar]; congr 1; omega, by omega⟩
    · rw [e, (T5 _ _ hjb).1] at hsub; cases hsub
  · -- parent_sub
    intro q jp hq hpar
    cases q with
    | zero => rw [hp0] at hpar; cases hpar
    | succ c =>
        obtain ⟨p, hp⟩ := get?_of_lt (l := r.pools) (i := c) (by omega)
        rw [hpS c p hp] at hpar
        obtain ⟨_, _, _, ⟨a, jb, hpa, hjb, hsub⟩, _⟩ := T6 c p hp
        rw [hpa] at hpar
        have : jp = a := by simp at hpar; omega
        subst this
        have hal := getElem?_lt hjb
        rw [hjO _ _ hjb]
        exact ⟨by omega, by rw [hsub]; congr 1; omega⟩

end

/-- **the pool tree of a sharded save is well formed** -/
theorem planSharded_wf (ts : List TSpec) (shards : List (List TSpec)) (al : Option Nat)
    (athr workers capacity : Nat) (hw : 0 < workers) (hS : 0 < shards.length)
    (hne : ∀ sh ∈ shards, sh ≠ []) (hfl : shards.flatten = ts) :
    WF (planSharded ts shards al athr workers capacity) := by
  unfold planSharded
  exact wf_of_parts al athr shards.length _ _ (nObjsOf ts) _ shards rfl (by omega) (by omega) hS hne
    (fun x hx => obj_lt_nObjsOf ts x (hfl ▸ hx))

end IrVerif.WriterN

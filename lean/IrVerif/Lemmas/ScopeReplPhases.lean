/-
Round trip of a reloadable model, phase by phase: what each helper of `deserGraph` does on the proto
written by the serializer, guided by the certificate `replG`.
-/
import IrVerif.Lemmas.ScopeRepl
namespace IrVerif.Scope

/-! ### phase 1: the scope of the graph inputs -/

theorem rt2_inputTable (V : Nat → ValueS) (A : Assoc) (ins ds : List Nat) (hl : ins.length = ds.length)
    (hnd : ins.Nodup) (hA : ∀ v ∈ ins, v ∉ A.map (·.1)) :
    inputTable (ins.map (viOf V)) ds = mapT (A ++ ins.zip ds) (tblIns V ins) := by
  have hs := sig_zip A ins ds hl hnd hA
  simp only [inputTable, tblIns, mapT, List.map_reverse, List.map_map]
  congr 1
  conv => lhs; rw [← hs]
  simp [List.zip_map', Function.comp, viOf]

theorem tblIn_tblIns (V : Nat → ValueS) (A : Assoc) (ins : List Nat) (h : ∀ v ∈ ins, v ∈ A.map (·.1)) :
    TblIn A (tblIns V ins) := by
  intro e he
  simp only [tblIns, List.mem_reverse, List.mem_map] at he
  obtain ⟨v, hv, rfl⟩ := he
  exact h v hv

/-! ### phase 2: initializers -/

theorem rt2_inits (V : Nat → ValueS) (vi : List (Name × Info)) (gouts : List Nat) :
    ∀ (mk : Name × Nat → TensorP) (its : List (Name × Nat)) (s : Store) (A : Assoc) (T : Table),
      (∀ kv ∈ its, (mk kv).name = kv.1) → RS V s A → TblIn A T → (replInits V gouts T its).ok →
      (its.map (·.2)).Nodup → (∀ v ∈ (replInits V gouts T its).new, v ∉ A.map (·.1)) →
      ∃ B : Assoc,
        (deserInits s (mapT A T) vi (its.map mk)).2.1 = mapT (A ++ B) (replInits V gouts T its).tbl ∧
        RS V (deserInits s (mapT A T) vi (its.map mk)).1 (A ++ B) ∧
        (deserInits s (mapT A T) vi (its.map mk)).2.2 = its.map (fun kv => sig (A ++ B) kv.2) ∧
        B.map (·.1) = (replInits V gouts T its).new ∧
        TblIn (A ++ B) (replInits V gouts T its).tbl ∧
        (∀ kv ∈ its, kv.2 ∈ (A ++ B).map (·.1)) ∧
        s.nv ≤ (deserInits s (mapT A T) vi (its.map mk)).1.nv ∧
        (∀ kv ∈ its, kv.2 ∈ (replInits V gouts T its).new →
          ((deserInits s (mapT A T) vi (its.map mk)).1.vals (sig (A ++ B) kv.2)).info = initInfo vi kv.1 (mk kv)) ∧
        (∀ kv ∈ its, ∃ t', ((deserInits s (mapT A T) vi (its.map mk)).1.vals (sig (A ++ B) kv.2)).const = some t' ∧
          t' < (deserInits s (mapT A T) vi (its.map mk)).1.nt ∧
          (deserInits s (mapT A T) vi (its.map mk)).1.tens t' =
            { name := some kv.1, data := (mk kv).data, ty := (mk kv).ty, sh := (mk kv).sh }) ∧
        (∀ d, d < s.nv → ((deserInits s (mapT A T) vi (its.map mk)).1.vals d).info = (s.vals d).info) ∧
        (∀ e ∈ B, s.nv ≤ e.2) ∧
        (∀ d, d < s.nv → (∀ kv ∈ its, sig (A ++ B) kv.2 ≠ d) →
          ((deserInits s (mapT A T) vi (its.map mk)).1.vals d).const = (s.vals d).const) ∧
        (∀ t, t < s.nt → (deserInits s (mapT A T) vi (its.map mk)).1.tens t = s.tens t) ∧
        s.nt ≤ (deserInits s (mapT A T) vi (its.map mk)).1.nt := by
  intro mk its
  induction its with
  | nil =>
    intro s A T _ h hT _ _ _
    exact ⟨[], by simp [deserInits, replInits], by simpa [deserInits] using h, by simp [deserInits],
      by simp [replInits], by simpa [replInits] using hT, by simp, by simp [deserInits], by simp, by simp,
      fun _ _ => rfl, by simp, fun _ _ _ => rfl, fun _ _ => rfl, Nat.le_refl _⟩
  | cons kv its ih =>
    obtain ⟨k, v⟩ := kv
    intro s A T hmk h hT hok hnd hnew
    have hname : (mk (k, v)).name = k := hmk (k, v) (by simp)
    generalize htp : mk (k, v) = tp at hname
    have hmk' : ∀ kv ∈ its, (mk kv).name = kv.1 := fun kv hkv => hmk kv (by simp [hkv])
    simp only [List.map_cons, List.nodup_cons] at hnd
    simp only [List.map_cons, htp]
    cases hl : T.lookup k with
    | some u =>
      -- the initializer of a value already in scope (a graph input)
      simp only [replInits, hl] at hok hnew ⊢
      obtain ⟨⟨hvn, hk, _⟩, huv, hokr⟩ := hok
      subst huv
      have hvA : u ∈ A.map (·.1) := hT.lookup hl
      have hl2 : (mapT A T).lookup k = some (sig A u) := by rw [lookup_mapT, hl]; rfl
      simp only [deserInits, hname, hk, if_false, hl2]
      have hlt := h.sig_lt hvA
      have h2 : RS V ((s.allocTensor { name := some k, data := tp.data, ty := tp.ty, sh := tp.sh }).1.modify (sig A u)
          fun c => { c with const := some s.nt }) A := by
        refine h.same_nv rfl (fun w => ?_)
        rw [modify_vals]
        split <;> rfl
      obtain ⟨B, e1, e2, e3, e4, e5, e6, e7, c1, c2, c3, c4, c5, c6, c7⟩ := ih _ A T hmk' h2 hT hokr hnd.2 hnew
      refine ⟨B, e1, e2, ?_, e4, e5, ?_, e7, ?_, ?_, ?_, c4, ?_, ?_, ?_⟩
      · simp only [List.map_cons, e3]
        rw [sig_append_of_mem hvA]
      · intro kv hkv
        simp only [List.mem_cons] at hkv
        rcases hkv with rfl | hkv
        · exact mem_keys_append hvA
        · exact e6 kv hkv
      · intro kv hkv hm
        simp only [List.mem_cons] at hkv
        rcases hkv with rfl | hkv
        · exact absurd (mem_keys_append (B := B) hvA) (by
            rw [List.map_append, List.mem_append, e4]
            rintro (h' | h')
            · exact hnew _ hm h'
            · exact hnew _ hm hvA)
        · exact c1 kv hkv hm
      · intro kv hkv
        simp only [List.mem_cons] at hkv
        rcases hkv with rfl | hkv
        · refine ⟨s.nt, ?_, ?_, ?_⟩
          · rw [sig_append_of_mem hvA]
            rw [c5 (sig A u) hlt (fun kv hkv heq => by
              rw [← sig_append_of_mem (B := B) hvA] at heq
              have := e2.sig_inj (e6 kv hkv) (mem_keys_append hvA) heq
              exact hnd.1 (this ▸ List.mem_map_of_mem hkv))]
            simp
          · have h1t : ((s.allocTensor { name := some k, data := tp.data, ty := tp.ty, sh := tp.sh }).1.modify (sig A u)
                fun c => { c with const := some s.nt }).nt = s.nt + 1 := rfl
            rw [h1t] at c7
            omega
          · rw [c6 s.nt (by simp [Store.allocTensor])]
            simp [Store.allocTensor, Store.modify, htp]
        · exact c2 kv hkv
      · intro d hd
        rw [c3 d hd, modify_vals]
        split <;> rfl
      · intro d hd hne
        have hne0 : sig A u ≠ d := by
          have := hne (k, u) (by simp)
          rwa [sig_append_of_mem hvA] at this
        rw [c5 d hd (fun kv hkv => hne kv (by simp [hkv])), modify_vals_ne _ _ _ (Ne.symm hne0)]
        rfl
      · intro t ht
        rw [c6 t (by simp [Store.allocTensor]; omega)]
        simp only [Store.allocTensor, Store.modify]
        have : t ≠ s.nt := by omega
        simp [this]
      · have : s.nt ≤ s.nt + 1 := by omega
        exact Nat.le_trans this c7
    | none =>
      -- a value of its own
      simp only [replInits, hl] at hok hnew ⊢
      obtain ⟨⟨hvn, hk, _⟩, _, hokr⟩ := hok
      have hvA : v ∉ A.map (·.1) := hnew v (by simp)
      have hl2 : (mapT A T).lookup k = none := by rw [lookup_mapT, hl]; rfl
      simp only [deserInits, hname, hk, if_false, hl2]
      have h1 : RS V (s.allocTensor { name := some k, data := tp.data, ty := tp.ty, sh := tp.sh }).1 A :=
        h.same_nv rfl (fun _ => rfl)
      have h3 : RS V (newInit (s.allocTensor { name := some k, data := tp.data, ty := tp.ty, sh := tp.sh }).1 vi tp s.nt)
          (A ++ [(v, s.nv)]) := by
        have h2 := h1.alloc v { name := some tp.name, info := tensorInfo tp.ty tp.sh, const := some s.nt } hvA
          (by simp [hname, hvn])
        unfold newInit
        split
        · refine h2.same_nv rfl (fun w => ?_)
          rw [modify_vals]
          split <;> rfl
        · exact h2
      have htbl : (k, s.nv) :: mapT A T = mapT (A ++ [(v, s.nv)]) ((k, v) :: T) := by
        rw [mapT_cons, sig_append_single hvA, mapT_extend _ hT]
      obtain ⟨nc1, nc2, nc3, nc4, nc5⟩ := newInit_cell
        (s.allocTensor { name := some k, data := tp.data, ty := tp.ty, sh := tp.sh }).1 vi tp s.nt
      have hnv3 := (newInit_quiet (s.allocTensor { name := some k, data := tp.data, ty := tp.ty, sh := tp.sh }).1 vi tp
        s.nt).2
      have h0 : (s.allocTensor { name := some k, data := tp.data, ty := tp.ty, sh := tp.sh }).1.nv = s.nv := rfl
      rw [htbl]
      have hT' : TblIn (A ++ [(v, s.nv)]) ((k, v) :: T) := (hT.append _).cons (by simp)
      obtain ⟨B, e1, e2, e3, e4, e5, e6, e7, c1, c2, c3, c4, c5, c6, c7⟩ := ih _ (A ++ [(v, s.nv)]) ((k, v) :: T) hmk' h3
        hT' hokr hnd.2
        (fun w hw hm => by
          simp only [List.map_append, List.map_cons, List.map_nil, List.mem_append, List.mem_singleton] at hm
          rcases hm with hm | rfl
          · exact hnew w (by simp [hw]) hm
          · -- `w` is the value of a later entry
            have : w ∈ its.map (·.2) := by
              have hsub : ∀ (T : Table) (l : List (Name × Nat)), ∀ x ∈ (replInits V gouts T l).new, x ∈ l.map (·.2) := by
                intro T l
                induction l generalizing T with
                | nil => intro x hx; simp [replInits] at hx
                | cons e l ihl =>
                  obtain ⟨k', v'⟩ := e
                  intro x hx
                  simp only [replInits] at hx
                  split at hx
                  · simp only [List.map_cons, List.mem_cons]
                    exact .inr (ihl _ x hx)
                  · simp only [List.mem_cons] at hx
                    simp only [List.map_cons, List.mem_cons]
                    rcases hx with rfl | hx
                    · exact .inl rfl
                    · exact .inr (ihl _ x hx)
              exact hsub _ _ w hw
            exact hnd.1 this)
      have hassoc : A ++ (v, s.nv) :: B = (A ++ [(v, s.nv)]) ++ B := by simp
      have hsigv : sig (A ++ [(v, s.nv)] ++ B) v = s.nv := by
        rw [sig_append_of_mem (by simp), sig_append_single hvA]
      refine ⟨(v, s.nv) :: B, ?_, ?_, ?_, ?_, ?_, ?_, ?_, ?_, ?_, ?_, ?_, ?_, ?_, ?_⟩
      · simpa [List.append_assoc] using e1
      · simpa [List.append_assoc] using e2
      · rw [hassoc, e3, hsigv]
      · simp [e4]
      · rw [hassoc]; exact e5
      · rw [hassoc]
        intro kv hkv
        simp only [List.mem_cons] at hkv
        rcases hkv with rfl | hkv
        · exact mem_keys_append (by simp)
        · exact e6 kv hkv
      · rw [hnv3, h0] at e7; omega
      · intro kv hkv hm
        rw [hassoc]
        simp only [List.mem_cons] at hkv
        rcases hkv with rfl | hkv
        · rw [hsigv, c3 s.nv (by rw [hnv3, h0]; omega), ← h0, nc1, hname, htp]
        · have hne : kv.2 ≠ v := fun e => hnd.1 (e ▸ List.mem_map_of_mem hkv)
          simp only [List.mem_cons, hne, false_or] at hm
          exact c1 kv hkv hm
      · intro kv hkv
        rw [hassoc]
        simp only [List.mem_cons] at hkv
        rcases hkv with rfl | hkv
        · refine ⟨s.nt, ?_, ?_, ?_⟩
          · rw [hsigv, c5 s.nv (by rw [hnv3, h0]; omega) (fun kv hkv heq => by
              have := e2.sig_inj (e6 kv hkv) (mem_keys_append (by simp)) (heq.trans hsigv.symm)
              exact hnd.1 (this ▸ List.mem_map_of_mem hkv)), ← h0, nc2]
          · have h1t : (s.allocTensor { name := some k, data := tp.data, ty := tp.ty, sh := tp.sh }).1.nt = s.nt + 1 := rfl
            have c7' := c7
            rw [nc5, h1t] at c7'
            omega
          · rw [c6 s.nt (by rw [nc5]; simp [Store.allocTensor]), nc4]
            simp [Store.allocTensor, htp]
        · exact c2 kv hkv
      · intro d hd
        rw [c3 d (by rw [hnv3, h0]; omega), nc3 d (by rw [h0]; omega)]
        rfl
      · intro e he
        simp only [List.mem_cons] at he
        rcases he with rfl | he
        · exact Nat.le_refl _
        · have := c4 e he; rw [hnv3, h0] at this; omega
      · intro d hd hne
        rw [hassoc] at hne
        rw [c5 d (by rw [hnv3, h0]; omega) (fun kv hkv => hne kv (by simp [hkv])), nc3 d (by rw [h0]; omega)]
        rfl
      · intro t ht
        rw [c6 t (by rw [nc5]; simp [Store.allocTensor]; omega), nc4]
        simp only [Store.allocTensor]
        have : t ≠ s.nt := by omega
        simp [this]
      · have h1t : (s.allocTensor { name := some k, data := tp.data, ty := tp.ty, sh := tp.sh }).1.nt = s.nt + 1 := rfl
        rw [nc5, h1t] at c7
        omega

/-! ### phase 3: declaring node outputs -/

theorem replDecl_append (V : Nat → ValueS) : ∀ (l1 l2 : List Nat) (T : Table),
    (replDecl V T (l1 ++ l2)).tbl = (replDecl V (replDecl V T l1).tbl l2).tbl ∧
    (replDecl V T (l1 ++ l2)).new = (replDecl V T l1).new ++ (replDecl V (replDecl V T l1).tbl l2).new ∧
    ((replDecl V T (l1 ++ l2)).ok ↔ (replDecl V T l1).ok ∧ (replDecl V (replDecl V T l1).tbl l2).ok) := by
  intro l1
  induction l1 with
  | nil => intro l2 T; simp [replDecl]
  | cons v r ih =>
    intro l2 T
    simp only [List.cons_append, replDecl]
    split
    · obtain ⟨a, b, c⟩ := ih l2 ((nm V v, v) :: T)
      exact ⟨a, by simp [b], by rw [c]; exact ⟨fun h => ⟨⟨h.1, h.2.1⟩, h.2.2⟩, fun h => ⟨h.1.1, h.1.2, h.2⟩⟩⟩
    · obtain ⟨a, b, c⟩ := ih l2 T
      exact ⟨a, b, by rw [c]; exact ⟨fun h => ⟨⟨h.1, h.2.1⟩, h.2.2⟩, fun h => ⟨h.1.1, h.1.2, h.2⟩⟩⟩

theorem rt2_declOuts (V : Nat → ValueS) (vi : List (Name × Info)) :
    ∀ (vs : List Nat) (s : Store) (A : Assoc) (T : Table),
      RS V s A → TblIn A T → (replDecl V T vs).ok → (replDecl V T vs).new.Nodup →
      (∀ v ∈ (replDecl V T vs).new, v ∉ A.map (·.1)) →
      ∃ (B : Assoc) (s' : Store),
        declareOutputs s (mapT A T) vi (vs.map (nm V)) = .ok (s', mapT (A ++ B) (replDecl V T vs).tbl) ∧
        RS V s' (A ++ B) ∧ B.map (·.1) = (replDecl V T vs).new ∧ TblIn (A ++ B) (replDecl V T vs).tbl ∧
        s.nv ≤ s'.nv ∧
        (∀ v ∈ (replDecl V T vs).new, (s'.vals (sig (A ++ B) v)).info = declInfo vi (nm V v)) ∧
        (∀ e ∈ B, s.nv ≤ e.2) := by
  intro vs
  induction vs with
  | nil =>
    intro s A T h hT _ _ _
    exact ⟨[], s, by simp [declareOutputs, replDecl], by simpa using h, by simp [replDecl],
      by simpa [replDecl] using hT, Nat.le_refl _, by simp [replDecl], by simp⟩
  | cons v rest ih =>
    intro s A T h hT hok hnd hnew
    simp only [List.map_cons, declareOutputs]
    by_cases ht : nameTruthy (V v).name = true
    · simp only [replDecl, ht, if_true] at hok hnd hnew ⊢
      obtain ⟨hl, hokr⟩ := hok
      obtain ⟨hvn, hne⟩ := name_some_of_truthy ht
      simp only [List.nodup_cons] at hnd
      have hvA : v ∉ A.map (·.1) := hnew v (by simp)
      have hl2 : (mapT A T).lookup (nm V v) = none := by rw [lookup_mapT, hl]; rfl
      simp only [hne, if_false, hl2]
      have h2 : RS V (newNamed s vi (nm V v)) (A ++ [(v, s.nv)]) := by
        have h1 := h.alloc v { name := some (nm V v) } hvA (by simp [hvn])
        unfold newNamed
        split
        · refine h1.same_nv rfl (fun w => ?_)
          rw [modify_vals]
          split <;> rfl
        · exact h1
      have htbl : (nm V v, s.nv) :: mapT A T = mapT (A ++ [(v, s.nv)]) ((nm V v, v) :: T) := by
        rw [mapT_cons, sig_append_single hvA, mapT_extend _ hT]
      rw [htbl]
      have hT' : TblIn (A ++ [(v, s.nv)]) ((nm V v, v) :: T) := (hT.append _).cons (by simp)
      obtain ⟨B, s', e1, e2, e3, e4, e5, e6, e7⟩ := ih (newNamed s vi (nm V v)) (A ++ [(v, s.nv)]) ((nm V v, v) :: T) h2
        hT' hokr hnd.2
        (fun w hw hm => by
          simp only [List.map_append, List.map_cons, List.map_nil, List.mem_append, List.mem_singleton] at hm
          rcases hm with hm | rfl
          · exact hnew w (by simp [hw]) hm
          · exact hnd.1 hw)
      have hq := (newNamed_quiet s vi (nm V v)).2
      have hassoc : A ++ (v, s.nv) :: B = (A ++ [(v, s.nv)]) ++ B := by simp
      refine ⟨(v, s.nv) :: B, s', ?_, ?_, ?_, ?_, ?_, ?_, ?_⟩
      · simpa [List.append_assoc] using e1
      · simpa [List.append_assoc] using e2
      · simp [e3]
      · rw [hassoc]; exact e4
      · omega
      · intro w hw
        rw [hassoc]
        simp only [List.mem_cons] at hw
        rcases hw with rfl | hw
        · rw [sig_append_of_mem (by simp), sig_append_single hvA]
          have pr := declareOutputs_prim (s.nv + 1) vi (rest.map (nm V)) _ _ s' _ (by omega) e1
          rw [(pr.cell s.nv (by omega)).1]
          exact newNamed_cell s vi (nm V w)
        · exact e6 w hw
      · intro e he
        simp only [List.mem_cons] at he
        rcases he with rfl | he
        · exact Nat.le_refl _
        · have := e7 e he; omega
    · have hfalse : nameTruthy (V v).name = false := by simpa using ht
      simp only [replDecl, hfalse] at hok hnd hnew ⊢
      simp only [Bool.false_eq_true, if_false] at hok hnd hnew ⊢
      obtain ⟨hvn, hnm⟩ := nameTruthy_false_of hok.1 ht
      simp only [hnm, if_true]
      exact ih s A T h hT hok.2 hnd hnew

theorem rt2_declNodes (V : Nat → ValueS) (vi : List (Name × Info)) :
    ∀ (nodes : List NodeT) (nps : List NodeP) (s : Store) (A : Assoc) (T : Table),
      nps.map NodeP.outputs = nodes.map (fun n => (liveOuts V n).map (nm V)) →
      RS V s A → TblIn A T → (replDecl V T (nodes.flatMap (liveOuts V))).ok →
      (replDecl V T (nodes.flatMap (liveOuts V))).new.Nodup →
      (∀ v ∈ (replDecl V T (nodes.flatMap (liveOuts V))).new, v ∉ A.map (·.1)) →
      ∃ (B : Assoc) (s' : Store),
        declareNodes s (mapT A T) vi nps = .ok (s', mapT (A ++ B) (replDecl V T (nodes.flatMap (liveOuts V))).tbl) ∧
        RS V s' (A ++ B) ∧ B.map (·.1) = (replDecl V T (nodes.flatMap (liveOuts V))).new ∧
        TblIn (A ++ B) (replDecl V T (nodes.flatMap (liveOuts V))).tbl ∧ s.nv ≤ s'.nv ∧
        (∀ v ∈ (replDecl V T (nodes.flatMap (liveOuts V))).new,
          (s'.vals (sig (A ++ B) v)).info = declInfo vi (nm V v)) ∧
        (∀ e ∈ B, s.nv ≤ e.2) := by
  intro nodes
  induction nodes with
  | nil =>
    intro nps s A T hmk h hT _ _ _
    have : nps = [] := by simpa using hmk
    subst this
    exact ⟨[], s, by simp [declareNodes, replDecl], by simpa using h, by simp [replDecl],
      by simpa [replDecl] using hT, Nat.le_refl _, by simp [replDecl], by simp⟩
  | cons n rest ih =>
    intro nps s A T hmk h hT hok hnd hnew
    cases nps with
    | nil => simp at hmk
    | cons np nps =>
    simp only [List.map_cons, List.cons.injEq] at hmk
    obtain ⟨hnp, hmk'⟩ := hmk
    simp only [List.flatMap_cons] at hok hnd hnew ⊢
    obtain ⟨at1, an1, ao1⟩ := replDecl_append V (liveOuts V n) (rest.flatMap (liveOuts V)) T
    rw [ao1] at hok
    rw [an1] at hnd hnew
    rw [List.nodup_append] at hnd
    obtain ⟨B1, s1, e1, r1, k1, t1, l1, i1, g1⟩ := rt2_declOuts V vi (liveOuts V n) s A T h hT hok.1 hnd.1
      (fun v hv => hnew v (by simp [hv]))
    simp only [declareNodes, hnp, e1]
    obtain ⟨B2, s2, e2, r2, k2, t2, l2, i2, g2⟩ := ih nps s1 (A ++ B1) (replDecl V T (liveOuts V n)).tbl hmk' r1 t1
      hok.2 hnd.2.1
      (fun v hv hm => by
        rw [List.map_append, List.mem_append, k1] at hm
        rcases hm with hm | hm
        · exact hnew v (by simp [hv]) hm
        · exact hnd.2.2 v hm v hv rfl)
    rw [at1, an1]
    refine ⟨B1 ++ B2, s2, ?_, ?_, ?_, ?_, Nat.le_trans l1 l2, ?_, ?_⟩
    · simpa [List.append_assoc] using e2
    · simpa [List.append_assoc] using r2
    · simp [k1, k2]
    · rw [← List.append_assoc]; exact t2
    · intro v hv
      rw [← List.append_assoc]
      simp only [List.mem_append] at hv
      rcases hv with hv | hv
      · have hmem : v ∈ (A ++ B1).map (·.1) := by
          rw [List.map_append, List.mem_append, k1]; exact .inr hv
        rw [sig_append_of_mem hmem]
        have pr := declareNodes_prim s1.nv vi nps s1 _ s2 _ (Nat.le_refl _) e2
        rw [(pr.cell _ (r1.sig_lt hmem)).1]
        exact i1 v hv
      · exact i2 v hv
    · intro e he
      simp only [List.mem_append] at he
      rcases he with he | he
      · exact g1 e he
      · exact Nat.le_trans l1 (g2 e he)

/-! ### phase 4: the inputs of one node -/

theorem maps_extend {A : Assoc} (B : Assoc) {Ts : List Table} (h : ∀ T ∈ Ts, TblIn A T) :
    Ts.map (mapT (A ++ B)) = Ts.map (mapT A) :=
  List.map_congr_left (fun T hT => mapT_extend B (h T hT))

theorem rt2_resolveInputs (V : Nat → ValueS) (vi : List (Name × Info)) (outer : List Table) :
    ∀ (ins : List (Option Nat)) (s : Store) (A : Assoc) (T : Table),
      RS V s A → TblIn A T → (∀ T' ∈ outer, TblIn A T') → (replRes V outer T ins).ok →
      (replRes V outer T ins).new.Nodup → (∀ v ∈ (replRes V outer T ins).new, v ∉ A.map (·.1)) →
      ∃ (B : Assoc) (s' : Store),
        resolveInputs s (mapT A T) (outer.map (mapT A)) vi (ins.map (inName V)) =
          (s', mapT (A ++ B) (replRes V outer T ins).tbl, ins.map (Option.map (sig (A ++ B)))) ∧
        RS V s' (A ++ B) ∧ B.map (·.1) = (replRes V outer T ins).new ∧
        TblIn (A ++ B) (replRes V outer T ins).tbl ∧ s.nv ≤ s'.nv ∧
        (∀ v, some v ∈ ins → v ∈ (A ++ B).map (·.1)) ∧ (∀ e ∈ B, s.nv ≤ e.2) := by
  intro ins
  induction ins with
  | nil =>
    intro s A T h hT _ _ _ _
    exact ⟨[], s, by simp [resolveInputs, replRes], by simpa using h, by simp [replRes],
      by simpa [replRes] using hT, Nat.le_refl _, by simp, by simp⟩
  | cons a rest ih =>
    intro s A T h hT hO hok hnd hnew
    cases a with
    | none =>
      simp only [replRes] at hok hnd hnew ⊢
      obtain ⟨B, s', e1, e2, e3, e4, e5, e6, e7⟩ := ih s A T h hT hO hok hnd hnew
      refine ⟨B, s', ?_, e2, e3, e4, e5, ?_, e7⟩
      · simp [resolveInputs, inName, e1]
      · intro v hv
        simp only [List.mem_cons] at hv
        rcases hv with hv | hv
        · cases hv
        · exact e6 v hv
    | some v =>
      have hres : resolve (nm V v) (mapT A T :: outer.map (mapT A)) = (resolve (nm V v) (T :: outer)).map (sig A) := by
        have := resolve_mapT A (nm V v) (T :: outer)
        simpa using this
      cases hr : resolve (nm V v) (T :: outer) with
      | some u =>
        simp only [replRes, hr] at hok hnd hnew ⊢
        obtain ⟨ht, huv, hokr⟩ := hok
        subst huv
        have hne := (name_some_of_truthy ht).2
        have hvA : u ∈ A.map (·.1) := by
          obtain ⟨T', hT', hm⟩ := resolve_mem _ _ _ hr
          simp only [List.mem_cons] at hT'
          rcases hT' with rfl | hT'
          · exact hT _ hm
          · exact hO T' hT' _ hm
        obtain ⟨B, s', e1, e2, e3, e4, e5, e6, e7⟩ := ih s A T h hT hO hokr hnd hnew
        refine ⟨B, s', ?_, e2, e3, e4, e5, ?_, e7⟩
        · simp only [List.map_cons, resolveInputs, inName, hne, if_false, hres, hr, Option.map_some, e1]
          rw [sig_append_of_mem hvA]
        · intro w hw
          simp only [List.mem_cons, Option.some.injEq] at hw
          rcases hw with rfl | hw
          · exact mem_keys_append hvA
          · exact e6 w hw
      | none =>
        simp only [replRes, hr] at hok hnd hnew ⊢
        obtain ⟨ht, hokr⟩ := hok
        obtain ⟨hvn, hne⟩ := name_some_of_truthy ht
        simp only [List.nodup_cons] at hnd
        have hvA : v ∉ A.map (·.1) := hnew v (by simp)
        have h2 : RS V (newNamed s vi (nm V v)) (A ++ [(v, s.nv)]) := by
          have h1 := h.alloc v { name := some (nm V v) } hvA (by simp [hvn])
          unfold newNamed
          split
          · refine h1.same_nv rfl (fun w => ?_)
            rw [modify_vals]
            split <;> rfl
          · exact h1
        have htbl : (nm V v, s.nv) :: mapT A T = mapT (A ++ [(v, s.nv)]) ((nm V v, v) :: T) := by
          rw [mapT_cons, sig_append_single hvA, mapT_extend _ hT]
        have hT' : TblIn (A ++ [(v, s.nv)]) ((nm V v, v) :: T) := (hT.append _).cons (by simp)
        have hO' : ∀ T' ∈ outer, TblIn (A ++ [(v, s.nv)]) T' := fun T' hT' => (hO T' hT').append _
        obtain ⟨B, s', e1, e2, e3, e4, e5, e6, e7⟩ := ih (newNamed s vi (nm V v)) (A ++ [(v, s.nv)]) ((nm V v, v) :: T) h2
          hT' hO' hokr hnd.2
          (fun w hw hm => by
            simp only [List.map_append, List.map_cons, List.map_nil, List.mem_append, List.mem_singleton] at hm
            rcases hm with hm | rfl
            · exact hnew w (by simp [hw]) hm
            · exact hnd.1 hw)
        have hq := (newNamed_quiet s vi (nm V v)).2
        have hassoc : A ++ (v, s.nv) :: B = (A ++ [(v, s.nv)]) ++ B := by simp
        rw [maps_extend [(v, s.nv)] hO] at e1
        refine ⟨(v, s.nv) :: B, s', ?_, ?_, ?_, ?_, ?_, ?_, ?_⟩
        · have hsigv : sig (A ++ [(v, s.nv)] ++ B) v = s.nv := by
            rw [sig_append_of_mem (by simp), sig_append_single hvA]
          simp only [List.map_cons, resolveInputs, inName, hne, if_false, hres, hr, Option.map_none, htbl, e1, hassoc,
            Option.map_some, hsigv]
        · simpa [List.append_assoc] using e2
        · simp [e3]
        · rw [hassoc]; exact e4
        · omega
        · intro w hw
          rw [hassoc]
          simp only [List.mem_cons, Option.some.injEq] at hw
          rcases hw with rfl | hw
          · exact mem_keys_append (by simp)
          · exact e6 w hw
        · intro e he
          simp only [List.mem_cons] at he
          rcases he with rfl | he
          · exact Nat.le_refl _
          · have := e7 e he; omega

/-! ### phase 5: graph outputs -/

theorem rt2_outputs (V : Nat → ValueS) :
    ∀ (outs : List Nat) (s : Store) (A : Assoc) (T : Table),
      RS V s A → TblIn A T → (replOuts V T outs).ok → (replOuts V T outs).new.Nodup →
      (∀ v ∈ (replOuts V T outs).new, v ∉ A.map (·.1)) →
      ∃ B : Assoc,
        (deserOutputs s (mapT A T) (outs.map (viOf V))).2 = outs.map (sig (A ++ B)) ∧
        RS V (deserOutputs s (mapT A T) (outs.map (viOf V))).1 (A ++ B) ∧
        B.map (·.1) = (replOuts V T outs).new ∧ (∀ v ∈ outs, v ∈ (A ++ B).map (·.1)) ∧
        s.nv ≤ (deserOutputs s (mapT A T) (outs.map (viOf V))).1.nv ∧ (∀ e ∈ B, s.nv ≤ e.2) ∧
        (∀ w, w < s.nv → (∀ v ∈ outs, sig (A ++ B) v ≠ w) →
          (deserOutputs s (mapT A T) (outs.map (viOf V))).1.vals w = s.vals w) ∧
        (∀ w, w < s.nv → ((deserOutputs s (mapT A T) (outs.map (viOf V))).1.vals w).const = (s.vals w).const) ∧
        (deserOutputs s (mapT A T) (outs.map (viOf V))).1.tens = s.tens ∧
        (deserOutputs s (mapT A T) (outs.map (viOf V))).1.nt = s.nt ∧
        (∀ v ∈ outs, ((deserOutputs s (mapT A T) (outs.map (viOf V))).1.vals (sig (A ++ B) v)).info = (V v).info.emit) := by
  intro outs
  induction outs with
  | nil =>
    intro s A T h _ _ _ _
    exact ⟨[], by simp [deserOutputs], by simpa [deserOutputs] using h, by simp [replOuts], by simp,
      by simp [deserOutputs], by simp, fun _ _ _ => rfl, fun _ _ => rfl, rfl, rfl, by simp⟩
  | cons v rest ih =>
    intro s A T h hT hok hnd hnew
    simp only [List.map_cons, deserOutputs]
    have hvn : (viOf V v).name = nm V v := rfl
    cases hl : T.lookup (nm V v) with
    | some u =>
      simp only [replOuts, hl] at hok hnd hnew ⊢
      obtain ⟨_, huv, hokr⟩ := hok
      subst huv
      have hvA : u ∈ A.map (·.1) := hT.lookup hl
      have hl2 : (mapT A T).lookup (nm V u) = some (sig A u) := by rw [lookup_mapT, hl]; rfl
      simp only [hvn, hl2]
      have hlt := h.sig_lt hvA
      have h1 : RS V (s.modify (sig A u) fun c => { c with info := (viOf V u).info }) A := by
        refine h.same_nv rfl (fun w => ?_)
        rw [modify_vals]
        split <;> rfl
      obtain ⟨B, e1, e2, e3, e4, e5, e6, e7, e8, e9, e10, e11⟩ := ih (s.modify (sig A u) fun c => { c with info := (viOf V u).info })
        A T h1 hT hokr hnd hnew
      refine ⟨B, ?_, e2, e3, ?_, e5, e6, ?_, ?_, e9, e10, ?_⟩
      · simp only [List.map_cons, e1, sig_append_of_mem hvA]
      · intro w hw
        simp only [List.mem_cons] at hw
        rcases hw with rfl | hw
        · exact mem_keys_append hvA
        · exact e4 w hw
      · intro w hw hne
        have hne0 : sig A u ≠ w := by
          have := hne u (by simp)
          rwa [sig_append_of_mem hvA] at this
        rw [e7 w (by simpa using hw) (fun x hx => hne x (by simp [hx])), modify_vals_ne _ _ _ (Ne.symm hne0)]
      · intro w hw
        rw [e8 w (by simpa using hw), modify_vals]
        split <;> rfl
      · intro w hw
        simp only [List.mem_cons] at hw
        by_cases hr : ∃ x ∈ rest, sig (A ++ B) x = sig (A ++ B) w
        · obtain ⟨x, hx, hsx⟩ := hr
          have hwk : w ∈ (A ++ B).map (·.1) := by
            rcases hw with rfl | hw
            · exact mem_keys_append hvA
            · exact e4 w hw
          have := e2.sig_inj (e4 x hx) hwk hsx
          subst this
          exact e11 x hx
        · have hne : ∀ x ∈ rest, sig (A ++ B) x ≠ sig (A ++ B) w := fun x hx heq => hr ⟨x, hx, heq⟩
          rcases hw with rfl | hw
          · rw [sig_append_of_mem hvA] at hne ⊢
            rw [e7 _ (by simpa using hlt) hne]
            simp [viOf]
          · exact absurd rfl (hne w hw)
    | none =>
      simp only [replOuts, hl] at hok hnd hnew ⊢
      obtain ⟨hn, hokr⟩ := hok
      simp only [List.nodup_cons] at hnd
      have hvA : v ∉ A.map (·.1) := hnew v (by simp)
      have hl2 : (mapT A T).lookup (nm V v) = none := by rw [lookup_mapT, hl]; rfl
      simp only [hvn, hl2]
      have h1 := h.alloc v { name := some (nm V v), info := (viOf V v).info } hvA
        (by simp [name_some_of_ne_none hn])
      have hT' : TblIn (A ++ [(v, s.nv)]) T := hT.append _
      have hm : mapT (A ++ [(v, s.nv)]) T = mapT A T := mapT_extend _ hT
      obtain ⟨B, e1, e2, e3, e4, e5, e6, e7, e8, e9, e10, e11⟩ := ih (s.alloc { name := some (nm V v), info := (viOf V v).info }).1
        (A ++ [(v, s.nv)]) T h1 hT' hokr hnd.2
        (fun w hw hm' => by
          simp only [List.map_append, List.map_cons, List.map_nil, List.mem_append, List.mem_singleton] at hm'
          rcases hm' with hm' | rfl
          · exact hnew w (by simp [hw]) hm'
          · exact hnd.1 hw)
      rw [hm] at e1 e2 e5 e7 e8 e9 e10 e11
      have hassoc : A ++ (v, s.nv) :: B = (A ++ [(v, s.nv)]) ++ B := by simp
      have hsigv : sig (A ++ [(v, s.nv)] ++ B) v = s.nv := by
        rw [sig_append_of_mem (by simp), sig_append_single hvA]
      refine ⟨(v, s.nv) :: B, ?_, ?_, ?_, ?_, ?_, ?_, ?_, ?_, ?_, ?_, ?_⟩
      · simp only [List.map_cons, alloc_snd, e1, hassoc, hsigv]
      · simpa [List.append_assoc] using e2
      · simp [e3]
      · rw [hassoc]
        intro w hw
        simp only [List.mem_cons] at hw
        rcases hw with rfl | hw
        · exact mem_keys_append (by simp)
        · exact e4 w hw
      · simp at e5; omega
      · intro e he
        simp only [List.mem_cons] at he
        rcases he with rfl | he
        · exact Nat.le_refl _
        · have := e6 e he; simp at this; omega
      · intro w hw hne
        rw [hassoc] at hne
        rw [e7 w (by simp; omega) (fun x hx => hne x (by simp [hx])), alloc_vals_lt _ _ hw]
      · intro w hw
        rw [e8 w (by simp; omega), alloc_vals_lt _ _ hw]
      · rw [e9]; rfl
      · rw [e10]; rfl
      · rw [hassoc]
        intro w hw
        simp only [List.mem_cons] at hw
        by_cases hr : ∃ x ∈ rest, sig (A ++ [(v, s.nv)] ++ B) x = sig (A ++ [(v, s.nv)] ++ B) w
        · obtain ⟨x, hx, hsx⟩ := hr
          have hwk : w ∈ (A ++ [(v, s.nv)] ++ B).map (·.1) := by
            rcases hw with rfl | hw
            · exact mem_keys_append (by simp)
            · exact e4 w hw
          have := e2.sig_inj (e4 x hx) hwk hsx
          subst this
          exact e11 x hx
        · have hne : ∀ x ∈ rest, sig (A ++ [(v, s.nv)] ++ B) x ≠ sig (A ++ [(v, s.nv)] ++ B) w :=
            fun x hx heq => hr ⟨x, hx, heq⟩
          rcases hw with rfl | hw
          · rw [hsigv] at hne ⊢
            rw [e7 _ (by simp) hne]
            simp [viOf]
          · exact absurd rfl (hne w hw)

end IrVerif.Scope

/-
The lock-step round trip of ONE FUNCTION in the extended model (`deserFunctionE` on the proto written by
`serFunctionE`): `rt2_func` (`Lemmas/ScopeFunc.lean`) redone with the extension state, on top of `rtE_nodes`
(`Lemmas/ScopeExtRT.lean`, with `annot = false`, `gouts = []`, no annotation table, no positional inputs).

What is specific to functions: the inputs are created BY NAME (`x.newNamed vt [] ...`), so the image of an input
carries the metadata of the value_info entry of its name; `serFInputsE` writes one entry per input that has
something to say, so entries may repeat, with equal content (`extF`: equally named inputs carry the same merged
metadata; `replF`: ... the same emitted information).
-/
import IrVerif.Lemmas.ScopeExtFuncDefs
import IrVerif.Lemmas.ScopeExtFuncDevDefs
namespace IrVerif.Scope

/-! ### the function inputs of the extended deserializer -/

theorem finputsE_nstep (vt : List (Name × Info × SS)) : ∀ (ns : List Name) (st : Store) (x : Ext), ExtFresh st x →
    NStep st (deserFInputsE st x vt ns).1 x (deserFInputsE st x vt ns).2.1 vt []
  | [], st, x, hf => NStep.same hf rfl (fun _ => rfl)
  | n :: ns, st, x, hf => by
    simp only [deserFInputsE]
    have h1 : NStep st (newNamed st (eraseVT vt) n) x (x.newNamed vt [] st.nv n) vt [] :=
      NStep.one vt [] n hf (newNamed_nv _ _ _) (newNamed_name_self _ _ _) (fun d hd => newNamed_name_lt _ _ _ d hd)
    exact h1.trans (finputsE_nstep vt ns _ _ h1.fresh)

theorem eraseVT_lookup (vt : List (Name × Info × SS)) (n : Name) :
    (eraseVT vt).lookup n = (vt.lookup n).map (·.1) := by
  induction vt with
  | nil => rfl
  | cons a r ih =>
    obtain ⟨k, i, m⟩ := a
    simp only [eraseVT, List.map_cons, List.lookup_cons] at ih ⊢
    split
    · rfl
    · exact ih

/-! ### the extended serializer of a function -/

theorem xserFInputs_ok (V : Nat → ValueS) (x : Ext) : ∀ (ins : List Nat) (ns : List Name) (vis : List VInfoE),
    serFInputsE V x ins = .ok (ns, vis) →
    ns = ins.map (nm V) ∧ (∀ v ∈ ins, (V v).name ≠ none) ∧
    ∀ e, e ∈ vis ↔ ∃ v ∈ ins, shouldCreateE (V v) (x.vmeta v) = true ∧ e = viOfE V x v := by
  intro ins
  induction ins with
  | nil =>
    intro ns vis h
    simp only [serFInputsE, Except.ok.injEq, Prod.mk.injEq] at h
    obtain ⟨rfl, rfl⟩ := h
    exact ⟨rfl, by simp, by simp⟩
  | cons v rest ih =>
    intro ns vis h
    simp only [serFInputsE] at h
    split at h
    · simp at h
    · rename_i n hn
      split at h
      · simp at h
      · rename_i ns' vis' hr
        simp only [Except.ok.injEq, Prod.mk.injEq] at h
        obtain ⟨rfl, rfl⟩ := h
        obtain ⟨a, b, c⟩ := ih ns' vis' hr
        have hnm : nm V v = n := nm_of_name hn
        have hvi : (⟨n, (V v).info.emit, ssSorted (x.vmeta v)⟩ : VInfoE) = viOfE V x v := by
          simp only [viOfE, hnm]
        refine ⟨by simp [a, hnm], fun w hw => ?_, fun e => ?_⟩
        · simp only [List.mem_cons] at hw
          rcases hw with rfl | hw
          · rw [hn]; simp
          · exact b w hw
        · by_cases hsc : shouldCreateE (V v) (x.vmeta v) = true
          · simp only [hsc, if_true, List.mem_cons, c e, hvi]
            constructor
            · rintro (rfl | ⟨u, hu, h1, h2⟩)
              · exact ⟨v, .inl rfl, hsc, rfl⟩
              · exact ⟨u, .inr hu, h1, h2⟩
            · rintro ⟨u, hu, h1, h2⟩
              rcases hu with rfl | hu
              · left; exact h2
              · exact .inr ⟨u, hu, h1, h2⟩
          · have hf : shouldCreateE (V v) (x.vmeta v) = false := by simpa using hsc
            simp only [hf, Bool.false_eq_true, if_false, c e]
            constructor
            · rintro ⟨u, hu, h1, h2⟩
              exact ⟨u, List.mem_cons_of_mem _ hu, h1, h2⟩
            · rintro ⟨u, hu, h1, h2⟩
              rcases List.mem_cons.mp hu with rfl | hu
              · rw [hf] at h1; cases h1
              · exact ⟨u, hu, h1, h2⟩

theorem xserFunction_inv {V : Nat → ValueS} {x : Ext} {td : TData} {ver : Option Int} {id : FId} {gid : Nat}
    {ins : List Nat} {inits : List (Name × Nat)} {nodes : List NodeT} {outs : List Nat} {fp : FuncE} {ws : Writes}
    (h : serFunctionE V x td ver (id, .mk gid ins inits nodes outs) = .ok (fp, ws)) :
    ∃ vis1 nps qs vis2, serFInputsE V x ins = .ok (ins.map (nm V), vis1) ∧
      serNodesE V x td ver false [] nodes = .ok (nps, qs, vis2, ws) ∧
      (∀ v ∈ outs, (V v).name ≠ none) ∧
      fp = ⟨id, ins.map (nm V), outs.map (nm V), vis1 ++ vis2, nps⟩ := by
  simp only [serFunctionE] at h
  split at h
  · simp at h
  · rename_i insN vis1 hi
    split at h
    · simp at h
    · rename_i outsN ho
      split at h
      · simp at h
      · rename_i nps qs vis2 ws' hn
        simp only [Except.ok.injEq, Prod.mk.injEq] at h
        obtain ⟨rfl, rfl⟩ := h
        have hi' := xliftS_ok hi
        have ho' := xliftS_ok ho
        have := (xserFInputs_ok V x ins insN vis1 hi').1
        subst this
        rw [(serOutNames_ok ho').1]
        exact ⟨vis1, nps, qs, vis2, hi', hn, (serOutNames_ok ho').2, rfl⟩

theorem shouldCreateE_congr {c c' : ValueS} {m m' : SS} (hi : c.info.emit = c'.info.emit) (hm : m = m')
    (hn : c.name = c'.name) : shouldCreateE c m = shouldCreateE c' m' := by
  have hp : c.info.present = c'.info.present := by rw [← present_emit, hi, present_emit]
  simp only [shouldCreateE, presentE, hp, hm, hn]

theorem shouldCreateE_false_present {c : ValueS} {m : SS} (h : shouldCreateE c m = false)
    (ht : nameTruthy c.name = true) : c.info.present = false := by
  simp only [shouldCreateE, presentE, ht, Bool.and_true, Bool.or_eq_false_iff] at h
  exact h.1

/-! ### the round trip of one function -/

set_option maxRecDepth 4000 in
theorem rtE_func (V : Nat → ValueS) (x : Ext) (td : TData) (ver : Option Int) (hwf : ExtWF x) :
    ∀ (id : FId) (g : GraphT) (s : Store) (xs : Ext) (A : Assoc) (fp : FuncE) (ws : Writes),
      serFunctionE V x td ver (id, g) = .ok (fp, ws) → (replF V g).ok → (replF V g).new.Nodup → extF V x g →
      (∀ v ∈ (replF V g).new, v ∉ A.map (·.1)) → RS V s A → Fresh s → ExtFresh s xs →
      ∃ (s' : Store) (x' : Ext) (g' : GraphT) (B : Assoc),
        deserFunctionE s xs fp = .ok (s', x', g') ∧ fp.id = id ∧ RS V s' (A ++ B) ∧ s.nv ≤ s'.nv ∧
        B.map (·.1) = (replF V g).new ∧ TreeRelG V (A ++ B) g g' ∧ Fresh s' ∧ Prim s.nv s s' ∧
        InfoOK2 V s' (A ++ B) (emitF V g) ∧ ConstOK2 V td s' (A ++ B) (allInitsG g) ∧
        ExtFresh s' x' ∧ XKeep s.nv xs x' ∧ (∀ e ∈ B, s.nv ≤ e.2) ∧
        MetaOKk x x' (A ++ B) (emitF V g) ∧ QuantOKk x x' (A ++ B) (emitQF V g) ∧
        s.nn ≤ s'.nn ∧ (∀ k, k < s.nn → x'.devs k = xs.devs k) ∧ DevTrF V x' s'.nn (A ++ B) g fp g'
  | id, .mk gid ins inits nodes outs, s, xs, A, fp, ws, hser, hok, hnd, hext, hnew, hrs, hfr, hxf => by
    obtain ⟨vis1, nps, qN, vis2, hi, hn, houts_n, rfl⟩ := xserFunction_inv hser
    simp only [replF] at hok hnd hnew ⊢
    simp only [extF] at hext
    obtain ⟨hinits, hins_n, hsame, okD, okN, hO⟩ := hok
    subst hinits
    obtain ⟨hsameM, hextN⟩ := hext
    generalize hrd : replDecl V (tblIns V ins) (nodes.flatMap (liveOuts V)) = rd at okD okN hO hnd hnew hextN ⊢
    generalize hrn : replNs V [] rd.tbl nodes = rn at okN hO hnd hnew ⊢
    rw [List.nodup_append] at hnd
    obtain ⟨hnd2, hndN, hdisjN⟩ := hnd
    rw [List.nodup_append] at hnd2
    obtain ⟨hndI, hndD, hdisjD⟩ := hnd2
    have newA : ∀ v, v ∈ ins ∨ v ∈ rd.new ∨ v ∈ rn.new → v ∉ A.map (·.1) := fun v hv => hnew v (by
      simp only [List.mem_append]
      rcases hv with hv | hv | hv
      · exact .inl (.inl hv)
      · exact .inl (.inr hv)
      · exact .inr hv)
    have okD' : (replDecl V (tblIns V ins) (nodes.flatMap (liveOuts V))).ok := by rw [hrd]; exact okD
    obtain ⟨hdnew, _, hdlook⟩ := replDecl_new V _ _ okD'
    have hdunb := replDecl_new_unbound V _ _ okD'
    rw [hrd] at hdnew hdlook hdunb
    obtain ⟨_, _, hvis1⟩ := xserFInputs_ok V x ins _ _ hi
    have hvis2 := fun e => mem_xserNodes_vi V x td ver false [] e nodes nps qN vis2 ws hn
    generalize hLdef : vis1 ++ vis2 = LE at *
    have hvi0 : eraseVT (vinfoTableE LE) = vinfoTable (LE.map VInfoE.erase) := eraseVT_vinfoTableE LE
    generalize hvi : eraseVT (vinfoTableE LE) = vi at hvi0
    -- phase 1: inputs
    obtain ⟨r1, hi1⟩ := rt2_finputs V vi ins s A hrs hndI (fun v hv => newA v (.inl hv)) hins_n
    obtain ⟨hids, hnv1, hf1, p1, _⟩ := deserFInputs_spec vi (ins.map (nm V)) s
    simp only [List.length_map] at hids hnv1
    have f1 := hf1 hfr
    have htbl1 : finputTable (ins.map (nm V)) (List.range' s.nv ins.length) =
        mapT (A ++ ins.zip (List.range' s.nv ins.length)) (tblIns V ins) := by
      rw [finputTable_eq]
      exact rt2_inputTable V A ins _ (by simp) hndI (fun v hv => newA v (.inl hv))
    have hk1 : (A ++ ins.zip (List.range' s.nv ins.length)).map (·.1) = A.map (·.1) ++ ins := by
      rw [List.map_append, keys_zip _ _ (by simp)]
    have hsig1 := sig_zip A ins (List.range' s.nv ins.length) (by simp) hndI (fun v hv => newA v (.inl hv))
    have hzge : ∀ e ∈ ins.zip (List.range' s.nv ins.length), s.nv ≤ e.2 := by
      intro e he
      have h2 := (List.of_mem_zip he).2
      rw [List.mem_range'_1] at h2
      exact h2.1
    -- phase 1, extended
    obtain ⟨eI1, eI2⟩ := deserFInputsE_erase (vinfoTableE LE) (ins.map (nm V)) s xs
    have nsI := finputsE_nstep (vinfoTableE LE) (ins.map (nm V)) s xs hxf
    rw [hvi] at eI1 eI2
    rw [hids] at eI2
    rw [eI1] at nsI
    generalize hx1 : (deserFInputsE s xs (vinfoTableE LE) (ins.map (nm V))).2.1 = x1 at nsI
    generalize hA1 : A ++ ins.zip (List.range' s.nv ins.length) = A1 at *
    generalize hs1 : (deserFInputs s vi (ins.map (nm V))).1 = s1 at *
    have hT1 : TblIn A1 (tblIns V ins) := tblIn_tblIns V A1 ins (fun v hv => by rw [hk1]; simp [hv])
    have hinsA1 : ∀ v ∈ ins, v ∈ A1.map (·.1) := fun v hv => by rw [hk1]; simp [hv]
    have le1 : s.nv ≤ s1.nv := nsI.le
    have hin1 : ∀ v ∈ ins, x1.vmeta (sig A1 v) = metaOf (vinfoTableE LE) (nm V v) ∧ x1.quant (sig A1 v) = none := by
      intro v hv
      have hm := hinsA1 v hv
      obtain ⟨i, _, _, hsv⟩ := sig_of_zip_range A1 ins s.nv hsig1 v hv
      obtain ⟨n, hn1, hn2, hn3⟩ := nsI.new (sig A1 v) (by omega) (r1.sig_lt hm)
      have hname : (V v).name = some n := by rw [← r1.sig_name hm]; exact hn1
      rw [nm_of_name hname]
      exact ⟨hn2, hn3⟩
    -- phase 3: declare the node outputs
    have h3 := rt2_declNodes V vi nodes (eraseNs nps) s1 A1 (tblIns V ins)
      (xserNodes_outputs V x td ver false [] nodes nps qN vis2 ws hn) r1 hT1
      okD' (by rw [hrd]; exact hndD)
      (by
        rw [hrd]
        intro v hv
        rw [hk1, List.mem_append]
        rintro (h | h)
        · exact newA v (.inr (.inl hv)) h
        · exact hdisjD v h v hv rfl)
    rw [hrd] at h3
    obtain ⟨B3, s3, e3, r3, k3, t3, l3, i3, g3⟩ := h3
    have p3 := declareNodes_prim s1.nv vi (eraseNs nps) s1 _ s3 _ (Nat.le_refl _) e3
    have f3 := declareNodes_fresh vi (eraseNs nps) _ _ _ _ e3 f1
    obtain ⟨x3, h3E, ns3⟩ := declE_bridge (vinfoTableE LE) [] nps s1 x1 _ s3 _ (by rw [hvi]; exact e3) nsI.fresh
    have hnotA1 : ∀ v, v ∈ rd.new → v ∉ A1.map (·.1) := by
      intro v hv
      rw [hk1, List.mem_append]
      rintro (h | h)
      · exact newA v (.inr (.inl hv)) h
      · exact hdisjD v h v hv rfl
    have hk3 : ∀ v, v ∈ (A1 ++ B3).map (·.1) ↔ v ∈ A.map (·.1) ∨ v ∈ ins ∨ v ∈ rd.new := by
      intro v
      rw [List.map_append, List.mem_append, hk1, List.mem_append, k3]
      constructor
      · rintro ((h | h) | h)
        · exact .inl h
        · exact .inr (.inl h)
        · exact .inr (.inr h)
      · rintro (h | h | h)
        · exact .inl (.inl h)
        · exact .inl (.inr h)
        · exact .inr h
    generalize hA3 : A1 ++ B3 = A3 at e3 r3 i3 t3 h3E hk3
    have hinsA3 : ∀ v ∈ ins, v ∈ A3.map (·.1) := fun v hv => (hk3 v).mpr (.inr (.inl hv))
    have hsig13 : ∀ v ∈ ins, sig A3 v = sig A1 v := fun v hv => by
      rw [← hA3]; exact sig_append_of_mem (hinsA1 v hv)
    have hIn3 : ∀ v ∈ ins, x3.vmeta (sig A3 v) = metaOf (vinfoTableE LE) (nm V v) ∧ x3.quant (sig A3 v) = none := by
      intro v hv
      have hlt := r1.sig_lt (hinsA1 v hv)
      rw [hsig13 v hv, ns3.vmeta _ hlt, ns3.quant _ hlt]
      exact hin1 v hv
    have hNew3 : ∀ v, v ∈ rd.new → x3.vmeta (sig A3 v) = metaOf (vinfoTableE LE) (nm V v) ∧
        x3.quant (sig A3 v) = none := by
      intro v hv
      have hm3 : v ∈ A3.map (·.1) := (hk3 v).mpr (.inr (.inr hv))
      have hB3 : v ∈ B3.map (·.1) := by rw [k3]; exact hv
      have hmem := sig_append_new (hnotA1 v hv) hB3
      rw [hA3] at hmem
      have hge := g3 _ hmem
      have hlt := r3.sig_lt hm3
      obtain ⟨n, hn1, hn2, hn3⟩ := ns3.new _ hge hlt
      have hname : (V v).name = some n := by rw [← r3.sig_name hm3]; exact hn1
      rw [nm_of_name hname]
      exact ⟨hn2, hn3⟩
    have hrdmem : ∀ e ∈ rd.tbl, (e.2 ∈ ins ∨ e.2 ∈ rd.new) ∧ e.1 = nm V e.2 := by
      intro e he
      have h1 := replDecl_tbl_mem V (nodes.flatMap (liveOuts V)) (tblIns V ins) e (by rw [hrd]; exact he)
      rw [hrd] at h1
      rcases h1 with h1 | ⟨h1, h1'⟩
      · simp only [tblIns, List.mem_reverse, List.mem_map] at h1
        obtain ⟨v, hv, rfl⟩ := h1
        exact ⟨.inl hv, rfl⟩
      · exact ⟨.inr h1, h1'⟩
    have hTQ3 : TblQ x3 A3 [] rd.tbl := by
      intro e he
      obtain ⟨h, _⟩ := hrdmem e he
      rcases h with h | h
      · exact (hIn3 _ h).2
      · exact (hNew3 _ h).2
    have hTM3 : TblM x3 A3 (vinfoTableE LE) [] rd.tbl := by
      intro e he _
      obtain ⟨h, hn'⟩ := hrdmem e he
      rw [hn']
      rcases h with h | h
      · exact (hIn3 _ h).1
      · exact (hNew3 _ h).1
    -- phase 4: the nodes
    have okN' : (replNs V [] rd.tbl nodes).ok := by rw [hrn]; exact okN
    have h4 := rtE_nodes V x td ver hwf nodes s3 x3 A3 rd.tbl [] false [] (vinfoTableE LE) [] [] nps qN vis2 ws hn okN'
      (by rw [hrn]; exact hndN) hextN
      (by
        rw [hrn]
        intro v hv hm
        rcases (hk3 v).mp hm with h | h | h
        · exact newA v (.inr (.inr hv)) h
        · exact hdisjN v (by simp [h]) v hv rfl
        · exact hdisjN v (by simp [h]) v hv rfl)
      t3 (fun _ hT => by simp at hT) r3 f3 ns3.fresh hTQ3 hTM3
    rw [hrn] at h4
    obtain ⟨s4, x4, nts, B4, e4, r4, l4, k4, t4, tr4, f4, p4, io4, co4, xf4, xk4, ge4, tq4, tm4, mo4, qo4, _, _, _, dt4⟩ := h4
    simp only [List.map_nil] at e4
    generalize hA4 : A3 ++ B4 = A4 at *
    -- phase 5: the outputs
    have e5 := rt2_foutputs A4 rn.tbl V outs (fun v hv => (hO v hv).2)
    have houtK : ∀ v ∈ outs, v ∈ A4.map (·.1) := fun v hv => t4.lookup (hO v hv).2
    have hrunE : deserFunctionE s xs ⟨id, ins.map (nm V), outs.map (nm V), LE, nps⟩ =
        .ok ((mkGraph s4 (List.range' s.nv ins.length) (outs.map (sig A4)) nts []).1, x4,
          (mkGraph s4 (List.range' s.nv ins.length) (outs.map (sig A4)) nts []).2) := by
      simp only [deserFunctionE, eI1, hx1, eI2, htbl1, h3E, e4, e5]
    obtain ⟨c1', c2', _⟩ := mkGraph_fst_counters s4 (List.range' s.nv ins.length) (outs.map (sig A4)) nts []
    have hcell := mkGraph_cell s4 (List.range' s.nv ins.length) (outs.map (sig A4)) nts []
    have hsnd6 := mkGraph_snd s4 (List.range' s.nv ins.length) (outs.map (sig A4)) nts []
    have p6 := mkGraph_prim s4.nv s4 (List.range' s.nv ins.length) (outs.map (sig A4)) nts []
    have l3' : s1.nv ≤ s3.nv := l3
    have hle14 : s1.nv ≤ s4.nv := Nat.le_trans l3 l4
    have hnvs1 : s1.nv = s.nv + ins.length := hnv1
    have f6 : Fresh (mkGraph s4 (List.range' s.nv ins.length) (outs.map (sig A4)) nts []).1 := by
      apply mkGraph_fresh _ _ _ _ _ f4
      · intro v hv
        rw [List.mem_range'_1] at hv
        omega
      · intro v hv
        simp only [List.mem_map] at hv
        obtain ⟨o, ho, rfl⟩ := hv
        exact r4.sig_lt (houtK o ho)
      · intro v hv; simp at hv
    generalize hmg : mkGraph s4 (List.range' s.nv ins.length) (outs.map (sig A4)) nts [] = mg at hrunE c1' c2' hcell hsnd6 p6 f6
    obtain ⟨s6, g6⟩ := mg
    simp only at c1' c2' hcell hsnd6 p6 f6 hrunE
    have hAfull : A ++ (ins.zip (List.range' s.nv ins.length) ++ B3 ++ B4) = A4 := by
      rw [← hA4, ← hA3, ← hA1]; simp [List.append_assoc]
    have r6 : RS V s6 A4 := r4.same_nv c1' (fun w => by rw [hcell])
    have h34 : ∀ v, v ∈ A3.map (·.1) → sig A4 v = sig A3 v := fun v hv => by
      rw [← hA4]; exact sig_append_of_mem hv
    have hA34 : ∀ v, v ∈ A3.map (·.1) → v ∈ A4.map (·.1) := fun v hv => by
      rw [← hA4]; exact mem_keys_append hv
    have hA13 : ∀ v, v ∈ A1.map (·.1) → v ∈ A3.map (·.1) := fun v hv => by
      rw [← hA3]; exact mem_keys_append hv
    have h14 : ∀ v, v ∈ A1.map (·.1) → sig A4 v = sig A1 v := fun v hv => by
      rw [h34 v (hA13 v hv), ← hA3]; exact sig_append_of_mem hv
    -- what a lookup in the function's value_info returns
    have hlive_new : ∀ (n : NodeT), n ∈ nodes → ∀ u ∈ n.outputs, nameTruthy (V u).name = true → u ∈ rd.new := by
      intro n hn' u hu0 hut
      rw [hdnew, List.mem_filter]
      refine ⟨?_, hut⟩
      simp only [List.mem_flatMap]
      obtain ⟨i, g, a', b, c⟩ := n
      exact ⟨_, hn', truthy_mem_stripTrailing V u b hu0 hut⟩
    have hsrcIn : ∀ a ∈ ins, nameTruthy (V a).name = true → ∀ e ∈ LE, e.name = nm V a →
        ∃ b ∈ ins, e = viOfE V x b ∧ shouldCreateE (V b) (x.vmeta b) = true ∧ (V b).name = (V a).name ∧
          (V b).info.emit = (V a).info.emit ∧ x.vmeta b = x.vmeta a := by
      intro a ha hta e he hname
      rw [← hLdef, List.mem_append] at he
      rcases he with he | he
      · rw [hvis1] at he
        obtain ⟨b, hb, hsc, rfl⟩ := he
        have hname' : nm V b = nm V a := hname
        have htb : nameTruthy (V b).name = true := by
          simp only [shouldCreateE, Bool.and_eq_true] at hsc; exact hsc.2
        have hnameq : (V b).name = (V a).name := by
          rw [(name_some_of_truthy htb).1, hname', (name_some_of_truthy hta).1]
        exact ⟨b, hb, rfl, hsc, hnameq, hsame b hb a ha htb hnameq, hsameM b hb a ha htb hnameq⟩
      · rw [hvis2] at he
        obtain ⟨n, hn', u, hu0, _, hsc, rfl⟩ := he
        have hname' : nm V u = nm V a := hname
        have hut : nameTruthy (V u).name = true := by
          simp only [shouldCreateE, Bool.and_eq_true] at hsc; exact hsc.2
        have hmem := hlive_new n hn' u hu0 hut
        exact absurd hname' (tblIns_lookup_none V ins _ (hdunb u hmem) a ha).symm
    have hsrcOut : ∀ v ∈ rd.new, ∀ e ∈ LE, e.name = nm V v →
        shouldCreateE (V v) (x.vmeta v) = true ∧ e = viOfE V x v := by
      intro v hv e he hname
      rw [← hLdef, List.mem_append] at he
      rcases he with he | he
      · rw [hvis1] at he
        obtain ⟨b, hb, _, rfl⟩ := he
        have hname' : nm V b = nm V v := hname
        exact absurd hname' (tblIns_lookup_none V ins _ (hdunb v hv) b hb)
      · rw [hvis2] at he
        obtain ⟨n, hn', u, hu0, _, hsc, rfl⟩ := he
        have hname' : nm V u = nm V v := hname
        have hut : nameTruthy (V u).name = true := by
          simp only [shouldCreateE, Bool.and_eq_true] at hsc; exact hsc.2
        have hmem := hlive_new n hn' u hu0 hut
        have h1 := hdlook u hmem
        have h2 := hdlook v hv
        rw [hname', h2] at h1
        have hEq : v = u := Option.some.inj h1
        rw [hEq]; exact ⟨hsc, rfl⟩
    have htruthyD : ∀ v ∈ rd.new, nameTruthy (V v).name = true := by
      intro v hv
      rw [hdnew, List.mem_filter] at hv; exact hv.2
    -- the table entry of a truthy-named input / of a named node output
    have hlookIn : ∀ a ∈ ins, nameTruthy (V a).name = true →
        (shouldCreateE (V a) (x.vmeta a) = true ∧
          (vinfoTableE LE).lookup (nm V a) = some ((V a).info.emit, ssSorted (x.vmeta a))) ∨
        (shouldCreateE (V a) (x.vmeta a) = false ∧ (vinfoTableE LE).lookup (nm V a) = none) := by
      intro a ha hta
      cases hsc : shouldCreateE (V a) (x.vmeta a) with
      | true =>
        left
        have hent : viOfE V x a ∈ LE := by
          rw [← hLdef, List.mem_append]
          left
          rw [hvis1]
          exact ⟨a, ha, hsc, rfl⟩
        refine ⟨rfl, vinfoTableE_lookup_some LE _ _ _ (fun e he hname => ?_) ⟨_, hent, rfl⟩⟩
        obtain ⟨b, _, rfl, _, _, hemit, hm⟩ := hsrcIn a ha hta e he hname
        exact ⟨hemit, by simp only [viOfE, hm]⟩
      | false =>
        right
        refine ⟨rfl, vinfoTableE_lookup_none LE _ (fun e he hname => ?_)⟩
        obtain ⟨b, _, _, hscb, hnameq, hemit, hm⟩ := hsrcIn a ha hta e he hname
        rw [shouldCreateE_congr hemit hm hnameq, hsc] at hscb
        cases hscb
    have hlookOut : ∀ v ∈ rd.new,
        (shouldCreateE (V v) (x.vmeta v) = true ∧
          (vinfoTableE LE).lookup (nm V v) = some ((V v).info.emit, ssSorted (x.vmeta v))) ∨
        (shouldCreateE (V v) (x.vmeta v) = false ∧ (vinfoTableE LE).lookup (nm V v) = none) := by
      intro v hv
      cases hsc : shouldCreateE (V v) (x.vmeta v) with
      | true =>
        left
        have hent : viOfE V x v ∈ LE := by
          rw [← hLdef, List.mem_append]
          right
          rw [hvis2]
          have hv' := hv
          rw [hdnew, List.mem_filter] at hv'
          obtain ⟨hvf, _⟩ := hv'
          simp only [List.mem_flatMap] at hvf
          obtain ⟨n, hn', hvn'⟩ := hvf
          obtain ⟨i, g, a, b, c⟩ := n
          exact ⟨_, hn', v, stripTrailing_sub V b v hvn', by simp, hsc, rfl⟩
        refine ⟨rfl, vinfoTableE_lookup_some LE _ _ _ (fun e he hname => ?_) ⟨_, hent, rfl⟩⟩
        obtain ⟨_, rfl⟩ := hsrcOut v hv e he hname
        exact ⟨rfl, rfl⟩
      | false =>
        right
        refine ⟨rfl, vinfoTableE_lookup_none LE _ (fun e he hname => ?_)⟩
        have := (hsrcOut v hv e he hname).1
        rw [hsc] at this; cases this
    have hviLook : ∀ n, vi.lookup n = ((vinfoTableE LE).lookup n).map (·.1) := by
      intro n; rw [← hvi]; exact eraseVT_lookup _ n
    -- metadata and information read back from a table entry
    have hmetaOfCase : ∀ v, nameTruthy (V v).name = true →
        ((shouldCreateE (V v) (x.vmeta v) = true ∧
          (vinfoTableE LE).lookup (nm V v) = some ((V v).info.emit, ssSorted (x.vmeta v))) ∨
        (shouldCreateE (V v) (x.vmeta v) = false ∧ (vinfoTableE LE).lookup (nm V v) = none)) →
        metaOf (vinfoTableE LE) (nm V v) = normM (x.vmeta v) ∧ declInfo vi (nm V v) = (V v).info.emit := by
      intro v ht hc
      rcases hc with ⟨_, hl⟩ | ⟨hsc, hl⟩
      · refine ⟨metaOf_of_lookup hl, ?_⟩
        have hlook : vi.lookup (nm V v) = some (V v).info.emit := by rw [hviLook, hl]; rfl
        simp only [declInfo, hlook]
      · refine ⟨?_, ?_⟩
        · rw [metaOf_of_none hl, shouldCreateE_false_meta hsc ht, normM_nil]
        · have hlook : vi.lookup (nm V v) = none := by rw [hviLook, hl]; rfl
          simp only [declInfo, hlook]
          exact (emit_of_not_present (shouldCreateE_false_present hsc ht)).symm
    have le3 : s.nv ≤ s3.nv := Nat.le_trans le1 l3
    have hgeB : ∀ e ∈ ins.zip (List.range' s.nv ins.length) ++ B3 ++ B4, s.nv ≤ e.2 := by
      intro e he
      simp only [List.mem_append] at he
      rcases he with (he | he) | he
      · exact hzge e he
      · exact Nat.le_trans le1 (g3 e he)
      · exact Nat.le_trans le3 (ge4 e he)
    have xk6 : XKeep s.nv xs x4 :=
      (nsI.keep.trans (ns3.keep.weaken le1)).trans (xk4.weaken le3)
    refine ⟨s6, x4, g6, ins.zip (List.range' s.nv ins.length) ++ B3 ++ B4, hrunE, trivial, by rw [hAfull]; exact r6, ?_, ?_, ?_,
      f6, ((p1.trans (p3.weaken (by omega))).trans (p4.weaken (by omega))).trans (p6.weaken (by omega)), ?_, ?_, ?_, xk6,
      hgeB, ?_, ?_, (deserFunctionE_devX _ s xs s6 x4 g6 hfr hrunE).2.2, (deserFunctionE_devX _ s xs s6 x4 g6 hfr hrunE).2.1,
      ?_⟩
    · rw [c1']; omega
    · simp only [List.map_append, keys_zip _ _ (show ins.length = (List.range' s.nv ins.length).length by simp), k3, k4]
    · rw [hAfull, hsnd6]
      simp only [TreeRelG]
      refine ⟨?_, fun v hv => hA34 v (hinsA3 v hv), ?_, fun kv hkv => by simp at hkv, ?_, trivial, houtK⟩
      · refine (Eq.trans (List.map_congr_left (fun v hv => ?_)) hsig1).symm
        exact h14 v (hinsA1 v hv)
      · simp [mkGraphInits, initDict]
      · exact TreeRelNs_setGraph V _ _ nodes nts tr4
    · rw [hAfull]
      intro v hv
      simp only [emitF, List.mem_append, List.mem_filter] at hv
      rcases hv with (⟨hv, ht⟩ | ⟨hv, ht⟩) | hv
      · -- a named function input
        have hm1 := hinsA1 v hv
        refine ⟨hA34 v (hinsA3 v hv), ?_⟩
        have hlt1 := r1.sig_lt hm1
        rw [h14 v hm1, hcell]
        show (s4.vals (sig A1 v)).info = _
        rw [(p4.cell _ (Nat.lt_of_lt_of_le hlt1 l3)).1, (p3.cell _ hlt1).1, hi1 v hv]
        exact (hmetaOfCase v ht (hlookIn v hv ht)).2
      · -- a named node output
        have hvl : v ∈ rd.new := by rw [hdnew, List.mem_filter]; exact ⟨hv, ht⟩
        have hm3 : v ∈ A3.map (·.1) := (hk3 v).mpr (.inr (.inr hvl))
        refine ⟨hA34 v hm3, ?_⟩
        rw [h34 v hm3, hcell]
        show (s4.vals (sig A3 v)).info = _
        rw [(p4.cell _ (r3.sig_lt hm3)).1, i3 v hvl]
        exact (hmetaOfCase v ht (hlookOut v hvl)).2
      · obtain ⟨hmem, hinfo⟩ := io4 v hv
        refine ⟨hmem, ?_⟩
        rw [hcell]
        exact hinfo
    · rw [hAfull]
      intro kv hkv
      simp only [allInitsG, List.nil_append] at hkv
      obtain ⟨hmem, hne, hc⟩ := co4 kv hkv
      refine ⟨hmem, hne, fun t ht => ?_⟩
      obtain ⟨t', h1, h2, h3, h4⟩ := hc t ht
      refine ⟨t', ?_, Nat.lt_of_lt_of_le h2 p6.nt_le, ?_, ?_⟩
      · rw [hcell]; exact h1
      · rw [p6.tens t' h2]; exact h3
      · simp only [Store.tdata] at h4 ⊢
        rw [p6.tens t' h2]; exact h4
    · intro d hd
      exact xf4 d (by rw [c1'] at hd; exact hd)
    · -- metadata of every emitted value
      rw [hAfull]
      intro v hv
      simp only [emitF, List.mem_append, List.mem_filter] at hv
      rcases hv with (⟨hv, ht⟩ | ⟨hv, ht⟩) | hv
      · have hm3 := hinsA3 v hv
        refine ⟨hA34 v hm3, ?_⟩
        rw [h34 v hm3, xk4.vmeta _ (r3.sig_lt hm3), (hIn3 v hv).1]
        exact (hmetaOfCase v ht (hlookIn v hv ht)).1
      · have hvl : v ∈ rd.new := by rw [hdnew, List.mem_filter]; exact ⟨hv, ht⟩
        have hm3 : v ∈ A3.map (·.1) := (hk3 v).mpr (.inr (.inr hvl))
        refine ⟨hA34 v hm3, ?_⟩
        rw [h34 v hm3, xk4.vmeta _ (r3.sig_lt hm3), (hNew3 v hvl).1]
        exact (hmetaOfCase v ht (hlookOut v hvl)).1
      · exact mo4 v hv
    · rw [hAfull]
      intro v hv
      simp only [emitQF] at hv
      exact qo4 v hv
    · -- the trace of the device configurations of the body
      rw [hAfull, hsnd6]
      simp only [DevTrF]
      rw [hrd, c2']
      exact DevTrNs_setGraph V x4 s4.nn A4 [] _ rd.tbl nodes nps nts dt4

end IrVerif.Scope

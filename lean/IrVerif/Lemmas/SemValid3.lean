/-
Lemmas/SemValid3.lean — CommonSubexpressionEliminationPass preserves `validModel`: a removed node's uses read the
kept node's outputs (defined earlier, in scope), its graph outputs are replaced by them or re-defined by Identity
nodes that stand where the removed node stood.
-/
import IrVerif.Lemmas.SemValid2
import IrVerif.Lemmas.SemCse
namespace IrVerif.Passes
open IrVerif.Sem IrVerif.PassFlags

/-! ## substitution of node inputs in a nest (`substBodies`) -/

mutual
theorem substG_defs (σ : Subst) : ∀ g : Graph, defsG (substG σ g) = defsG g
  | .mk inputs outputs inits nodes => by simp only [substG, defsG, substNodes_defs σ nodes]
theorem substNodes_defs (σ : Subst) : ∀ ns : List Node, defsNodes (substNodes σ ns) = defsNodes ns
  | [] => by simp [substNodes]
  | n :: ns => by simp only [substNodes, defsNodes, substN_defs σ n, substNodes_defs σ ns]
theorem substN_defs (σ : Subst) : ∀ n : Node, defsN (substN σ n) = defsN n
  | .mk op attrs ins outs bodies => by simp only [substN, defsN, substBodies_defs σ bodies]
theorem substBodies_defs (σ : Subst) : ∀ bs : List Graph, defsBodies (substBodies σ bs) = defsBodies bs
  | [] => by simp [substBodies]
  | b :: bs => by simp only [substBodies, defsBodies, substG_defs σ b, substBodies_defs σ bs]
end

theorem substNodes_outsTop (σ : Subst) : ∀ ns : List Node, outsTop (substNodes σ ns) = outsTop ns
  | [] => by simp [substNodes]
  | .mk op attrs ins outs bodies :: ns => by
    simp only [substNodes, substN, outsTop, Node.outs, substNodes_outsTop σ ns]

mutual
theorem substG_refs (σ : Subst) : ∀ (g : Graph) (w : VId), w ∈ refsG (substG σ g) → w ∈ refsG g ∨ ∃ p ∈ σ, p.2 = w
  | .mk inputs outputs inits nodes, w, h => by
    simp only [substG, refsG, List.mem_append] at h ⊢
    rcases h with h | h
    · exact Or.inl (Or.inl h)
    · exact (substNodes_refs σ nodes w h).imp Or.inr id
theorem substNodes_refs (σ : Subst) : ∀ (ns : List Node) (w : VId), w ∈ refsNodes (substNodes σ ns) →
    w ∈ refsNodes ns ∨ ∃ p ∈ σ, p.2 = w
  | [], w, h => by simp [substNodes, refsNodes] at h
  | n :: ns, w, h => by
    simp only [substNodes, refsNodes, List.mem_append] at h ⊢
    rcases h with h | h
    · exact (substN_refs σ n w h).imp Or.inl id
    · exact (substNodes_refs σ ns w h).imp Or.inr id
theorem substN_refs (σ : Subst) : ∀ (n : Node) (w : VId), w ∈ refsN (substN σ n) → w ∈ refsN n ∨ ∃ p ∈ σ, p.2 = w
  | .mk op attrs ins outs bodies, w, h => by
    simp only [substN, refsN, List.mem_append] at h ⊢
    rcases h with h | h
    · obtain ⟨v, hv, rfl⟩ := mem_substIns' h
      rcases Subst.app_cases σ v with h' | ⟨p, hp, _, h2⟩
      · rw [h']; exact Or.inl (Or.inl hv)
      · exact Or.inr ⟨p, hp, h2⟩
    · exact (substBodies_refs σ bodies w h).imp Or.inr id
theorem substBodies_refs (σ : Subst) : ∀ (bs : List Graph) (w : VId), w ∈ refsBodies (substBodies σ bs) →
    w ∈ refsBodies bs ∨ ∃ p ∈ σ, p.2 = w
  | [], w, h => by simp [substBodies, refsBodies] at h
  | b :: bs, w, h => by
    simp only [substBodies, refsBodies, List.mem_append] at h ⊢
    rcases h with h | h
    · exact (substG_refs σ b w h).imp Or.inl id
    · exact (substBodies_refs σ bs w h).imp Or.inr id
end

mutual
theorem substG_valid (σ : Subst) : ∀ (g : Graph) (D D' : List VId), ssaG g = true → closedG g = true →
    noFwdG g = true → scopedG D g = true → (∀ v ∈ D, σ.app v ∈ D') →
    (∀ p ∈ σ, p.1 ∉ defsG g ∧ p.2 ∉ defsG g) →
    ssaG (substG σ g) = true ∧ closedG (substG σ g) = true ∧ noFwdG (substG σ g) = true ∧
    scopedG D' (substG σ g) = true
  | .mk inputs outputs inits nodes, D, D', hs, hc, hf, hsc, hD, hσ => by
    simp only [ssaG, Bool.and_eq_true, nodupB_iff, disj_iff] at hs
    simp only [closedG, Bool.and_eq_true, List.all_eq_true, List.contains_eq_mem, decide_eq_true_eq] at hc
    simp only [noFwdG] at hf
    simp only [scopedG] at hsc
    simp only [defsG, List.mem_append, not_or] at hσ
    obtain ⟨k1, k2, k3, k4⟩ := substNodes_valid σ nodes (D ++ inputs ++ inits.map Prod.fst)
      (D' ++ inputs ++ inits.map Prod.fst) hs.2 hc.2 hf hsc
      (fun v hv => by
        simp only [List.mem_append] at hv ⊢
        rcases hv with (hv | hv) | hv
        · exact Or.inl (Or.inl (hD v hv))
        · rw [app_of_not_key (fun p hp h => (hσ p hp).1.1.1 (h ▸ hv))]; exact Or.inl (Or.inr hv)
        · rw [app_of_not_key (fun p hp h => (hσ p hp).1.1.2 (h ▸ hv))]; exact Or.inr hv)
      (fun p hp => ⟨(hσ p hp).1.2, (hσ p hp).2.2⟩)
    simp only [substG]
    refine ⟨?_, ?_, ?_, ?_⟩
    · simp only [ssaG, Bool.and_eq_true, nodupB_iff, disj_iff, substNodes_defs]
      exact ⟨hs.1, k1⟩
    · simp only [closedG, Bool.and_eq_true, List.all_eq_true, List.contains_eq_mem, decide_eq_true_eq,
        substNodes_outsTop]
      exact ⟨hc.1, k2⟩
    · simp only [noFwdG]; exact k3
    · simp only [scopedG]; exact k4
theorem substNodes_valid (σ : Subst) : ∀ (ns : List Node) (D D' : List VId), ssaNodes ns = true →
    closedNodes ns = true → noFwdNodes ns = true → scopedNodes D ns = true → (∀ v ∈ D, σ.app v ∈ D') →
    (∀ p ∈ σ, p.1 ∉ defsNodes ns ∧ p.2 ∉ defsNodes ns) →
    ssaNodes (substNodes σ ns) = true ∧ closedNodes (substNodes σ ns) = true ∧ noFwdNodes (substNodes σ ns) = true ∧
    scopedNodes D' (substNodes σ ns) = true
  | [], _, _, _, _, _, _, _, _ => by simp [substNodes, ssaNodes, closedNodes, noFwdNodes, scopedNodes]
  | .mk op attrs ins outs bodies :: ns, D, D', hs, hc, hf, hsc, hD, hσ => by
    simp only [ssaNodes, ssaN, Bool.and_eq_true, disj_iff, nodupB_iff] at hs
    simp only [closedNodes, closedN, Bool.and_eq_true] at hc
    simp only [noFwdNodes, noFwdN, Bool.and_eq_true, disj_iff, Node.ins, Node.outs, Node.bodies] at hf
    simp only [scopedNodes, scopedN, Bool.and_eq_true, List.all_eq_true, List.contains_eq_mem, decide_eq_true_eq,
      Node.ins, Node.outs] at hsc
    simp only [defsNodes, defsN, List.mem_append, not_or] at hσ
    obtain ⟨b1, b2, b3, b4⟩ := substBodies_valid σ bodies D D' hs.1.1.2 hc.1 hf.1.2 hsc.1.2 hD
      (fun p hp => ⟨(hσ p hp).1.1.2, (hσ p hp).2.1.2⟩)
    obtain ⟨k1, k2, k3, k4⟩ := substNodes_valid σ ns (D ++ outs) (D' ++ outs) hs.2 hc.2 hf.2 hsc.2
      (fun v hv => by
        simp only [List.mem_append] at hv ⊢
        rcases hv with hv | hv
        · exact Or.inl (hD v hv)
        · rw [app_of_not_key (fun p hp h => (hσ p hp).1.1.1 (h ▸ hv))]; exact Or.inr hv)
      (fun p hp => ⟨(hσ p hp).1.2, (hσ p hp).2.2⟩)
    simp only [substNodes, substN]
    refine ⟨?_, ?_, ?_, ?_⟩
    · simp only [ssaNodes, ssaN, Bool.and_eq_true, disj_iff, nodupB_iff, defsN, substBodies_defs, substNodes_defs]
      simp only [defsN] at hs
      exact ⟨⟨⟨hs.1.1.1, b1⟩, hs.1.2⟩, k1⟩
    · simp only [closedNodes, closedN, Bool.and_eq_true]; exact ⟨b2, k2⟩
    · simp only [noFwdNodes, noFwdN, Bool.and_eq_true, disj_iff, Node.ins, Node.outs, Node.bodies, defsNodes, defsN,
        substBodies_defs, substNodes_defs]
      simp only [defsNodes, defsN] at hf
      refine ⟨⟨⟨fun x hx hx' => ?_, fun x hx hx' => ?_⟩, b3⟩, k3⟩
      · obtain ⟨v, hv, rfl⟩ := mem_substIns' hx
        rcases Subst.app_cases σ v with h | ⟨p, hp, _, h2⟩
        · rw [h] at hx'; exact hf.1.1.1 v hv hx'
        · rw [← h2] at hx'
          simp only [List.mem_append] at hx'
          rcases hx' with (h | h) | h
          · exact (hσ p hp).2.1.1 h
          · exact (hσ p hp).2.1.2 h
          · exact (hσ p hp).2.2 h
      · rcases substBodies_refs σ bodies x hx with h | ⟨p, hp, h⟩
        · exact hf.1.1.2 x h hx'
        · rw [← h] at hx'
          simp only [List.mem_append] at hx'
          rcases hx' with h | h
          · exact (hσ p hp).2.1.1 h
          · exact (hσ p hp).2.2 h
    · simp only [scopedNodes, scopedN, Bool.and_eq_true, List.all_eq_true, List.contains_eq_mem, decide_eq_true_eq,
        Node.ins, Node.outs]
      refine ⟨⟨fun v hv => ?_, b4⟩, k4⟩
      obtain ⟨v0, hv0, rfl⟩ := mem_substIns' hv
      exact hD v0 (hsc.1.1 v0 hv0)
theorem substBodies_valid (σ : Subst) : ∀ (bs : List Graph) (D D' : List VId), ssaBodies bs = true →
    closedBodies bs = true → noFwdBodies bs = true → scopedBodies D bs = true → (∀ v ∈ D, σ.app v ∈ D') →
    (∀ p ∈ σ, p.1 ∉ defsBodies bs ∧ p.2 ∉ defsBodies bs) →
    ssaBodies (substBodies σ bs) = true ∧ closedBodies (substBodies σ bs) = true ∧
    noFwdBodies (substBodies σ bs) = true ∧ scopedBodies D' (substBodies σ bs) = true
  | [], _, _, _, _, _, _, _, _ => by simp [substBodies, ssaBodies, closedBodies, noFwdBodies, scopedBodies]
  | b :: bs, D, D', hs, hc, hf, hsc, hD, hσ => by
    simp only [ssaBodies, Bool.and_eq_true, disj_iff] at hs
    simp only [closedBodies, Bool.and_eq_true] at hc
    simp only [noFwdBodies, Bool.and_eq_true] at hf
    simp only [scopedBodies, Bool.and_eq_true] at hsc
    simp only [defsBodies, List.mem_append, not_or] at hσ
    obtain ⟨g1, g2, g3, g4⟩ := substG_valid σ b D D' hs.1.1 hc.1 hf.1 hsc.1 hD (fun p hp => ⟨(hσ p hp).1.1, (hσ p hp).2.1⟩)
    obtain ⟨k1, k2, k3, k4⟩ := substBodies_valid σ bs D D' hs.2 hc.2 hf.2 hsc.2 hD (fun p hp => ⟨(hσ p hp).1.2, (hσ p hp).2.2⟩)
    simp only [substBodies, ssaBodies, closedBodies, noFwdBodies, scopedBodies, Bool.and_eq_true, disj_iff,
      substG_defs, substBodies_defs]
    exact ⟨⟨⟨g1, hs.1.2⟩, k1⟩, ⟨g2, k2⟩, ⟨g3, k3⟩, ⟨g4, k4⟩⟩
end

/-! ## the Identity nodes that `cseFixOuts` makes -/

/-- every node is `Identity(z) = o` for a pair `(o, z)` -/
def IdPairs (pairs : List (VId × VId)) (ns : List Node) : Prop :=
  ∀ n ∈ ns, ∃ z o, n = identityNode z o ∧ pairs.lookup o = some z

theorem idPairs_wf {pairs : List (VId × VId)} : ∀ {ns : List Node}, IdPairs pairs ns → (outsTop ns).Nodup →
    defsNodes ns = outsTop ns ∧ (∀ w ∈ refsNodes ns, ∃ o, pairs.lookup o = some w) ∧
    (∀ o ∈ outsTop ns, ∃ z, pairs.lookup o = some z) ∧
    ((∀ w, (∃ o, pairs.lookup o = some w) → w ∉ outsTop ns) →
      ssaNodes ns = true ∧ closedNodes ns = true ∧ noFwdNodes ns = true) ∧
    (∀ D : List VId, (∀ w, (∃ o, pairs.lookup o = some w) → w ∈ D) → scopedNodes D ns = true)
  | [], _, _ => by simp [defsNodes, outsTop, refsNodes, ssaNodes, closedNodes, noFwdNodes, scopedNodes]
  | n :: ns, h, hnd => by
    obtain ⟨z, o, rfl, hl⟩ := h n (by simp)
    have h' : IdPairs pairs ns := fun m hm => h m (List.mem_cons_of_mem _ hm)
    simp only [outsTop, identityNode, Node.outs, List.singleton_append, List.nodup_cons] at hnd
    obtain ⟨i1, i2, i3, i4, i5⟩ := idPairs_wf h' hnd.2
    refine ⟨?_, ?_, ?_, ?_, ?_⟩
    · simp only [defsNodes, identityNode, defsN, defsBodies, List.append_nil, outsTop, Node.outs, i1]
    · intro w hw
      simp only [refsNodes, identityNode, refsN, refsBodies, List.append_nil, List.mem_append, List.filterMap_cons, id,
        List.filterMap_nil, List.mem_singleton] at hw
      rcases hw with hw | hw
      · exact ⟨o, hw ▸ hl⟩
      · exact i2 w hw
    · intro v hv
      simp only [outsTop, identityNode, Node.outs, List.mem_append, List.mem_singleton] at hv
      rcases hv with hv | hv
      · exact ⟨z, hv ▸ hl⟩
      · exact i3 v hv
    · intro hsep
      have hsep' : ∀ w, (∃ o, pairs.lookup o = some w) → w ∉ outsTop ns := fun w hw hm =>
        hsep w hw (by simp only [outsTop, List.mem_append]; exact Or.inr hm)
      obtain ⟨s1, s2, s3⟩ := i4 hsep'
      refine ⟨?_, ?_, ?_⟩
      · simp only [ssaNodes, identityNode, ssaN, nodupB, defsN, defsBodies, ssaBodies, Bool.and_eq_true, disj_iff,
          List.append_nil, List.mem_singleton]
        refine ⟨⟨⟨⟨by simp, by simp⟩, trivial⟩, ?_⟩, s1⟩
        intro v hv hv'
        subst hv
        rw [i1] at hv'
        exact hnd.1 hv'
      · simp only [closedNodes, identityNode, closedN, closedBodies, Bool.true_and]; exact s2
      · simp only [noFwdNodes, identityNode, noFwdN, noFwdBodies, Node.ins, Node.outs, Node.bodies, refsBodies,
          Bool.and_eq_true, disj_iff, List.not_mem_nil, false_imp_iff, implies_true, and_true, true_and]
        refine ⟨?_, s3⟩
        intro v hv hv'
        simp only [List.filterMap_cons, id, List.filterMap_nil, List.mem_singleton] at hv
        subst hv
        refine hsep v ⟨o, hl⟩ ?_
        simp only [defsNodes, defsN, defsBodies, List.append_nil, List.mem_append, List.mem_singleton, i1] at hv'
        simp only [outsTop, identityNode, Node.outs, List.mem_append, List.mem_singleton]
        exact hv'
    · intro D hD
      simp only [scopedNodes, identityNode, scopedN, scopedBodies, Node.ins, Node.outs, Bool.and_eq_true,
        List.all_eq_true, List.contains_eq_mem, decide_eq_true_eq, List.filterMap_cons, id, List.filterMap_nil,
        List.mem_singleton, forall_eq, and_true]
      exact ⟨hD z ⟨o, hl⟩, i5 _ (fun w hw => List.mem_append_left _ (hD w hw))⟩

/-- `cseFixOuts`: the new Identity nodes re-define distinct outputs of the removed node that `rep` does not know;
    every new output is an old output that the removed node did not produce, an output of the kept node, the
    output of one of the new Identity nodes, or a value `rep` already answered with (`Good`) -/
theorem cseFixOuts_wf (gins : List VId) (pairs : List (VId × VId)) : ∀ (todo : List VId) (rep : List (VId × VId))
    (done : List VId) (Good : VId → Prop), (∀ o w, rep.lookup o = some w → Good w) →
    IdPairs pairs (cseFixOuts gins pairs rep done todo).2 ∧
    (outsTop (cseFixOuts gins pairs rep done todo).2).Nodup ∧
    (∀ o ∈ outsTop (cseFixOuts gins pairs rep done todo).2, rep.lookup o = none) ∧
    (∀ o' ∈ (cseFixOuts gins pairs rep done todo).1, o' ∈ done ∨ Good o' ∨ (∃ o, pairs.lookup o = some o') ∨
      (o' ∈ todo ∧ pairs.lookup o' = none) ∨ o' ∈ outsTop (cseFixOuts gins pairs rep done todo).2)
  | [], rep, done, Good, _ => by
    simp only [cseFixOuts]
    exact ⟨fun n hn => by simp at hn, by simp [outsTop], fun o ho => by simp [outsTop] at ho, fun o' h => Or.inl h⟩
  | o :: rest, rep, done, Good, hrep => by
    rw [cseFixOuts]
    split
    · rename_i w hw
      obtain ⟨a, b, c, d⟩ := cseFixOuts_wf gins pairs rest rep (done ++ [w]) Good hrep
      refine ⟨a, b, c, fun o' ho' => ?_⟩
      rcases d o' ho' with h | h | h | h | h
      · rcases List.mem_append.1 h with h | h
        · exact Or.inl h
        · rw [List.mem_singleton] at h
          exact Or.inr (Or.inl (h ▸ hrep o w hw))
      · exact Or.inr (Or.inl h)
      · exact Or.inr (Or.inr (Or.inl h))
      · exact Or.inr (Or.inr (Or.inr (Or.inl ⟨List.mem_cons_of_mem _ h.1, h.2⟩)))
      · exact Or.inr (Or.inr (Or.inr (Or.inr h)))
    · rename_i hnone
      split
      · rename_i z hz
        split
        · -- an Identity node re-defines `o`
          obtain ⟨a, b, c, d⟩ := cseFixOuts_wf gins pairs rest ((o, o) :: rep) (done ++ [o]) (fun v => Good v ∨ v = o)
            (fun o1 w h => by
              by_cases h1 : o1 = o
              · subst h1
                simp only [List.lookup_cons, beq_self_eq_true, Option.some.injEq] at h
                exact Or.inr h.symm
              · rw [lookup_cons_ne' h1] at h
                exact Or.inl (hrep o1 w h))
          have hnot : o ∉ outsTop (cseFixOuts gins pairs ((o, o) :: rep) (done ++ [o]) rest).2 := by
            intro hm
            have := c o hm
            simp [List.lookup_cons] at this
          refine ⟨?_, ?_, ?_, ?_⟩
          · intro n hn
            rcases List.mem_cons.1 hn with hn | hn
            · exact ⟨z, o, hn, hz⟩
            · exact a n hn
          · simp only [outsTop, identityNode, Node.outs, List.singleton_append, List.nodup_cons]
            exact ⟨hnot, b⟩
          · intro o1 ho1
            simp only [outsTop, identityNode, Node.outs, List.mem_append, List.mem_singleton] at ho1
            rcases ho1 with ho1 | ho1
            · rw [ho1]; exact hnone
            · have := c o1 ho1
              by_cases h1 : o1 = o
              · exact absurd (h1 ▸ ho1) hnot
              · rwa [lookup_cons_ne' h1] at this
          · intro o' ho'
            simp only [outsTop, identityNode, Node.outs, List.mem_append, List.mem_singleton]
            rcases d o' ho' with h | h | h | h | h
            · rcases List.mem_append.1 h with h | h
              · exact Or.inl h
              · rw [List.mem_singleton] at h
                exact Or.inr (Or.inr (Or.inr (Or.inr (Or.inl h))))
            · rcases h with h | h
              · exact Or.inr (Or.inl h)
              · exact Or.inr (Or.inr (Or.inr (Or.inr (Or.inl h))))
            · exact Or.inr (Or.inr (Or.inl h))
            · exact Or.inr (Or.inr (Or.inr (Or.inl ⟨List.mem_cons_of_mem _ h.1, h.2⟩)))
            · exact Or.inr (Or.inr (Or.inr (Or.inr (Or.inr h))))
        · -- the output becomes the kept node's value
          obtain ⟨a, b, c, d⟩ := cseFixOuts_wf gins pairs rest ((o, z) :: rep) (done ++ [z])
            (fun v => Good v ∨ v = z)
            (fun o1 w h => by
              by_cases h1 : o1 = o
              · subst h1
                simp only [List.lookup_cons, beq_self_eq_true, Option.some.injEq] at h
                exact Or.inr h.symm
              · rw [lookup_cons_ne' h1] at h
                exact Or.inl (hrep o1 w h))
          refine ⟨a, b, ?_, ?_⟩
          · intro o1 ho1
            have := c o1 ho1
            by_cases h1 : o1 = o
            · subst h1; simp [List.lookup_cons] at this
            · rwa [lookup_cons_ne' h1] at this
          · intro o' ho'
            rcases d o' ho' with h | h | h | h | h
            · rcases List.mem_append.1 h with h | h
              · exact Or.inl h
              · rw [List.mem_singleton] at h
                exact Or.inr (Or.inr (Or.inl ⟨o, h ▸ hz⟩))
            · rcases h with h | h
              · exact Or.inr (Or.inl h)
              · exact Or.inr (Or.inr (Or.inl ⟨o, h ▸ hz⟩))
            · exact Or.inr (Or.inr (Or.inl h))
            · exact Or.inr (Or.inr (Or.inr (Or.inl ⟨List.mem_cons_of_mem _ h.1, h.2⟩)))
            · exact Or.inr (Or.inr (Or.inr (Or.inr h)))
      · rename_i hz
        obtain ⟨a, b, c, d⟩ := cseFixOuts_wf gins pairs rest rep (done ++ [o]) Good hrep
        refine ⟨a, b, c, fun o' ho' => ?_⟩
        rcases d o' ho' with h | h | h | h | h
        · rcases List.mem_append.1 h with h | h
          · exact Or.inl h
          · rw [List.mem_singleton] at h
            exact Or.inr (Or.inr (Or.inr (Or.inl ⟨h ▸ List.mem_cons_self, h ▸ hz⟩)))
        · exact Or.inr (Or.inl h)
        · exact Or.inr (Or.inr (Or.inl h))
        · exact Or.inr (Or.inr (Or.inr (Or.inl ⟨List.mem_cons_of_mem _ h.1, h.2⟩)))
        · exact Or.inr (Or.inr (Or.inr (Or.inr h)))

/-! ## the pass -/

theorem cseNodes_valid (limit : Nat) (gins : List VId) : ∀ (ns tbl : List Node) (σ : Subst) (outs D D' L' : List VId),
    ssaNodes ns = true → closedNodes ns = true → noFwdNodes ns = true → scopedNodes D ns = true →
    (∀ v ∈ D, σ.app v ∈ D') → (∀ p ∈ σ, p.1 ∉ defsNodes ns ∧ p.2 ∉ defsNodes ns) →
    (∀ n1 ∈ tbl, ∀ v ∈ n1.outs, v ∈ L' ∧ v ∉ defsNodes ns) → (∀ v ∈ L', v ∈ D') →
    (∀ o ∈ outs, o ∈ L' ∨ o ∈ outsTop ns) →
    ssaNodes (cseNodes limit gins tbl σ outs ns).nodes = true ∧ closedNodes (cseNodes limit gins tbl σ outs ns).nodes = true ∧
    noFwdNodes (cseNodes limit gins tbl σ outs ns).nodes = true ∧
    scopedNodes D' (cseNodes limit gins tbl σ outs ns).nodes = true ∧
    (∀ o ∈ (cseNodes limit gins tbl σ outs ns).outs, o ∈ L' ∨ o ∈ outsTop (cseNodes limit gins tbl σ outs ns).nodes) ∧
    (∀ v ∈ defsNodes (cseNodes limit gins tbl σ outs ns).nodes, v ∈ defsNodes ns)
  | [], _, _, outs, _, _, _, _, _, _, _, _, _, _, _, ho => by
    simp only [cseNodes, ssaNodes, closedNodes, noFwdNodes, scopedNodes, outsTop, List.not_mem_nil, or_false] at ho ⊢
    exact ⟨trivial, trivial, trivial, trivial, fun o h => ho o h, fun _ h => h⟩
  | .mk op attrs ins nouts bodies :: ns, tbl, σ, outs, D, D', L', hs, hc, hf, hsc, hD, hσ, htbl, hL, ho => by
    simp only [ssaNodes, ssaN, Bool.and_eq_true, disj_iff, nodupB_iff] at hs
    simp only [closedNodes, closedN, Bool.and_eq_true] at hc
    simp only [noFwdNodes, noFwdN, Bool.and_eq_true, disj_iff, Node.ins, Node.outs, Node.bodies] at hf
    simp only [scopedNodes, scopedN, Bool.and_eq_true, List.all_eq_true, List.contains_eq_mem, decide_eq_true_eq,
      Node.ins, Node.outs] at hsc
    have hσ' := hσ
    simp only [defsNodes, defsN, List.mem_append, not_or] at hσ
    -- the node is kept (with any dictionary whose entries are live)
    have keep : ∀ tbl' : List Node, (∀ n1 ∈ tbl', ∀ v ∈ n1.outs, v ∈ L' ++ nouts ∧ v ∉ defsNodes ns) →
        ssaNodes (Node.mk op attrs (substIns σ ins) nouts (substBodies σ bodies) :: (cseNodes limit gins tbl' σ outs ns).nodes) = true ∧
        closedNodes (Node.mk op attrs (substIns σ ins) nouts (substBodies σ bodies) :: (cseNodes limit gins tbl' σ outs ns).nodes) = true ∧
        noFwdNodes (Node.mk op attrs (substIns σ ins) nouts (substBodies σ bodies) :: (cseNodes limit gins tbl' σ outs ns).nodes) = true ∧
        scopedNodes D' (Node.mk op attrs (substIns σ ins) nouts (substBodies σ bodies) :: (cseNodes limit gins tbl' σ outs ns).nodes) = true ∧
        (∀ o ∈ (cseNodes limit gins tbl' σ outs ns).outs, o ∈ L' ∨
          o ∈ outsTop (Node.mk op attrs (substIns σ ins) nouts (substBodies σ bodies) :: (cseNodes limit gins tbl' σ outs ns).nodes)) ∧
        (∀ v ∈ defsNodes (Node.mk op attrs (substIns σ ins) nouts (substBodies σ bodies) :: (cseNodes limit gins tbl' σ outs ns).nodes),
          v ∈ defsNodes (Node.mk op attrs ins nouts bodies :: ns)) := by
      intro tbl' htbl'
      obtain ⟨b1, b2, b3, b4⟩ := substBodies_valid σ bodies D D' hs.1.1.2 hc.1 hf.1.2 hsc.1.2 hD
        (fun p hp => ⟨(hσ p hp).1.1.2, (hσ p hp).2.1.2⟩)
      obtain ⟨k1, k2, k3, k4, k5, k6⟩ := cseNodes_valid limit gins ns tbl' σ outs (D ++ nouts) (D' ++ nouts) (L' ++ nouts)
        hs.2 hc.2 hf.2 hsc.2
        (fun v hv => by
          simp only [List.mem_append] at hv ⊢
          rcases hv with hv | hv
          · exact Or.inl (hD v hv)
          · rw [app_of_not_key (fun p hp h => (hσ p hp).1.1.1 (h ▸ hv))]; exact Or.inr hv)
        (fun p hp => ⟨(hσ p hp).1.2, (hσ p hp).2.2⟩) htbl'
        (fun v hv => by simp only [List.mem_append] at hv ⊢; exact hv.imp (hL v) id)
        (fun o h => by
          have := ho o h
          simp only [outsTop, Node.outs, List.mem_append] at this ⊢
          rcases this with h | h | h
          · exact Or.inl (Or.inl h)
          · exact Or.inl (Or.inr h)
          · exact Or.inr h)
      have himg : ∀ x, (∃ v ∈ ins.filterMap id, x = σ.app v) ∨ (x ∈ refsBodies bodies ∨ ∃ p ∈ σ, p.2 = x) →
          (x ∈ ins.filterMap id ∨ x ∈ refsBodies bodies) ∨ ∃ p ∈ σ, p.2 = x := by
        rintro x (⟨v, hv, rfl⟩ | h | h)
        · rcases Subst.app_cases σ v with h' | ⟨p, hp, _, h2⟩
          · rw [h']; exact Or.inl (Or.inl hv)
          · exact Or.inr ⟨p, hp, h2⟩
        · exact Or.inl (Or.inr h)
        · exact Or.inr h
      refine ⟨?_, ?_, ?_, ?_, ?_, ?_⟩
      · simp only [ssaNodes, ssaN, Bool.and_eq_true, disj_iff, nodupB_iff, defsN, substBodies_defs]
        simp only [defsN] at hs
        exact ⟨⟨⟨hs.1.1.1, b1⟩, fun x hx hx' => hs.1.2 x hx (k6 x hx')⟩, k1⟩
      · simp only [closedNodes, closedN, Bool.and_eq_true]; exact ⟨b2, k2⟩
      · simp only [noFwdNodes, noFwdN, Bool.and_eq_true, disj_iff, Node.ins, Node.outs, Node.bodies, defsNodes, defsN,
          substBodies_defs]
        simp only [defsNodes, defsN] at hf
        refine ⟨⟨⟨fun x hx hx' => ?_, fun x hx hx' => ?_⟩, b3⟩, k3⟩
        · have hx'' : x ∈ nouts ++ defsBodies bodies ++ defsNodes ns := by
            simp only [List.mem_append] at hx' ⊢
            exact hx'.imp id (k6 x)
          rcases himg x (Or.inl (mem_substIns' hx)) with (h | h) | ⟨p, hp, h⟩
          · exact hf.1.1.1 x h hx''
          · -- cannot happen: `x` is an image of an input
            obtain ⟨v, hv, rfl⟩ := mem_substIns' hx
            rcases Subst.app_cases σ v with h' | ⟨p, hp, _, h2⟩
            · rw [h'] at hx''; exact hf.1.1.1 v hv hx''
            · rw [← h2] at hx''
              simp only [List.mem_append] at hx''
              rcases hx'' with (h3 | h3) | h3
              · exact (hσ p hp).2.1.1 h3
              · exact (hσ p hp).2.1.2 h3
              · exact (hσ p hp).2.2 h3
          · rw [← h] at hx''
            simp only [List.mem_append] at hx''
            rcases hx'' with (h3 | h3) | h3
            · exact (hσ p hp).2.1.1 h3
            · exact (hσ p hp).2.1.2 h3
            · exact (hσ p hp).2.2 h3
        · have hx'' : x ∈ nouts ++ defsNodes ns := by
            simp only [List.mem_append] at hx' ⊢
            exact hx'.imp id (k6 x)
          rcases substBodies_refs σ bodies x hx with h | ⟨p, hp, h⟩
          · exact hf.1.1.2 x h hx''
          · rw [← h] at hx''
            simp only [List.mem_append] at hx''
            rcases hx'' with h3 | h3
            · exact (hσ p hp).2.1.1 h3
            · exact (hσ p hp).2.2 h3
      · simp only [scopedNodes, scopedN, Bool.and_eq_true, List.all_eq_true, List.contains_eq_mem, decide_eq_true_eq,
          Node.ins, Node.outs]
        refine ⟨⟨fun v hv => ?_, b4⟩, k4⟩
        obtain ⟨v0, hv0, rfl⟩ := mem_substIns' hv
        exact hD v0 (hsc.1.1 v0 hv0)
      · intro o h
        have := k5 o h
        simp only [outsTop, Node.outs, List.mem_append] at this ⊢
        rcases this with (h | h) | h
        · exact Or.inl h
        · exact Or.inr (Or.inl h)
        · exact Or.inr (Or.inr h)
      · intro v hv
        simp only [defsNodes, defsN, substBodies_defs, List.mem_append] at hv ⊢
        exact hv.imp id (k6 v)
    have htbl0 : ∀ n1 ∈ tbl, ∀ v ∈ n1.outs, v ∈ L' ++ nouts ∧ v ∉ defsNodes ns := fun n1 h1 v hv =>
      ⟨List.mem_append_left _ (htbl n1 h1 v hv).1, fun h => (htbl n1 h1 v hv).2 (by
        simp only [defsNodes, List.mem_append]; exact Or.inr h)⟩
    simp only [cseNodes]
    split
    · exact keep tbl htbl0
    · rename_i hskip
      split
      · -- the node is removed: its uses read the outputs of `n1`
        rename_i n1 hfind
        have hskip' : cseSkip limit op attrs bodies = false := by simpa using hskip
        have hbod := cseSkip_false hskip'
        subst hbod
        have hn1 : n1 ∈ tbl := List.mem_of_find?_eq_some hfind
        have hkey := cseKeyMatch_spec (n1 := n1) (n := Node.mk op attrs (substIns σ ins) nouts (substBodies σ []))
          (by have := List.find?_some hfind; exact this)
        have hlen : nouts.length = n1.outs.length := hkey.2.1.symm
        have hn1o : ∀ v ∈ n1.outs, v ∈ L' ∧ v ∉ defsNodes (Node.mk op attrs ins nouts [] :: ns) := htbl n1 hn1
        have hpk : ∀ o z, (nouts.zip n1.outs).lookup o = some z → o ∈ nouts ∧ z ∈ n1.outs := by
          intro o z h
          obtain ⟨h1, h2⟩ := lookup_zip_some nouts n1.outs h
          exact ⟨h1, List.mem_of_getElem? h2⟩
        have hpn : ∀ o ∈ nouts, ∃ z, (nouts.zip n1.outs).lookup o = some z := fun o ho' =>
          lookup_zip_of_mem nouts n1.outs hlen ho'
        obtain ⟨fa, fb, _, fd⟩ := cseFixOuts_wf gins (nouts.zip n1.outs) outs [] [] (fun _ => False)
          (fun o w h => by simp at h)
        obtain ⟨i1, i2, i3, i4, i5⟩ := idPairs_wf fa fb
        have hval : ∀ w, (∃ o, (nouts.zip n1.outs).lookup o = some w) → w ∈ n1.outs := fun w ⟨o, h⟩ => (hpk o w h).2
        have hido : ∀ o ∈ outsTop (cseFixOuts gins (nouts.zip n1.outs) [] [] outs).2, o ∈ nouts := fun o h => by
          obtain ⟨z, hz⟩ := i3 o h
          exact (hpk o z hz).1
        obtain ⟨w1, w2, w3⟩ := i4 (fun w hw hm => (hn1o w (hval w hw)).2 (by
          simp only [defsNodes, defsN, defsBodies, List.append_nil, List.mem_append]; exact Or.inl (hido w hm)))
        have w4 := i5 D' (fun w hw => hL w (hn1o w (hval w hw)).1)
        obtain ⟨k1, k2, k3, k4, k5, k6⟩ := cseNodes_valid limit gins ns tbl (nouts.zip n1.outs ++ σ)
          (cseFixOuts gins (nouts.zip n1.outs) [] [] outs).1 (D ++ nouts)
          (D' ++ outsTop (cseFixOuts gins (nouts.zip n1.outs) [] [] outs).2)
          (L' ++ outsTop (cseFixOuts gins (nouts.zip n1.outs) [] [] outs).2) hs.2 hc.2 hf.2 hsc.2
          (fun v hv => by
            rw [Subst.app_append']
            cases hl : (nouts.zip n1.outs).lookup v with
            | some z => exact List.mem_append_left _ (hL z (hn1o z (hpk v z hl).2).1)
            | none =>
              rcases List.mem_append.1 hv with hv | hv
              · exact List.mem_append_left _ (hD v hv)
              · obtain ⟨z, hz⟩ := hpn v hv
                rw [hl] at hz; cases hz)
          (fun p hp => by
            rcases List.mem_append.1 hp with hp | hp
            · have h1 := (List.of_mem_zip hp).1
              have h2 := (List.of_mem_zip hp).2
              refine ⟨fun h => hs.1.2 p.1 (by simp only [defsN, List.mem_append]; exact Or.inl h1) h, fun h => ?_⟩
              exact (hn1o p.2 h2).2 (by simp only [defsNodes, List.mem_append]; exact Or.inr h)
            · exact ⟨(hσ p hp).1.2, (hσ p hp).2.2⟩)
          (fun n2 h2 v hv => ⟨List.mem_append_left _ (htbl n2 h2 v hv).1, fun h => (htbl n2 h2 v hv).2 (by
            simp only [defsNodes, List.mem_append]; exact Or.inr h)⟩)
          (fun v hv => by simp only [List.mem_append] at hv ⊢; exact hv.imp (hL v) id)
          (fun o' ho' => by
            rcases fd o' ho' with h | h | h | h | h
            · simp at h
            · exact absurd h id
            · exact Or.inl (List.mem_append_left _ (hn1o o' (hval o' h)).1)
            · have := ho o' h.1
              simp only [outsTop, Node.outs, List.mem_append] at this
              rcases this with h' | h' | h'
              · exact Or.inl (List.mem_append_left _ h')
              · obtain ⟨z, hz⟩ := hpn o' h'
                rw [h.2] at hz; cases hz
              · exact Or.inr h'
            · exact Or.inl (List.mem_append_right _ h))
        refine ⟨?_, ?_, ?_, ?_, ?_, ?_⟩
        · refine ssaNodes_append' _ _ (fun w hw hw' => ?_) w1 k1
          rw [i1] at hw
          exact hs.1.2 w (by simp only [defsN, List.mem_append]; exact Or.inl (hido w hw)) (k6 w hw')
        · rw [closedNodes_append', w2, k2]; rfl
        · refine noFwdNodes_append' _ _ (fun w hw hw' => ?_) w3 k3
          obtain ⟨o, hl⟩ := i2 w hw
          exact (hn1o w (hpk o w hl).2).2 (by simp only [defsNodes, List.mem_append]; exact Or.inr (k6 w hw'))
        · rw [scopedNodes_append', w4, k4]; rfl
        · intro o h
          rw [outsTop_append']
          have := k5 o h
          simp only [List.mem_append] at this ⊢
          rcases this with (h | h) | h
          · exact Or.inl h
          · exact Or.inr (Or.inl h)
          · exact Or.inr (Or.inr h)
        · intro v hv
          rw [defsNodes_append', List.mem_append, i1] at hv
          simp only [defsNodes, defsN, List.mem_append]
          rcases hv with hv | hv
          · exact Or.inl (Or.inl (hido v hv))
          · exact Or.inr (k6 v hv)
      · -- a new dictionary entry
        refine keep _ (fun n2 h2 v hv => ?_)
        rcases List.mem_append.1 h2 with h2 | h2
        · exact htbl0 n2 h2 v hv
        · rw [List.mem_singleton] at h2
          subst h2
          simp only [Node.outs] at hv
          exact ⟨List.mem_append_right _ hv, fun h => hs.1.2 v (by simp only [defsN, List.mem_append]; exact Or.inl hv) h⟩

theorem cseModel_valid (limit : Nat) (m : Model) (hv : validModel m = true) : validModel (cseModel limit m) = true := by
  obtain ⟨g, fs⟩ := m
  simp only [validModel, Bool.and_eq_true] at hv ⊢
  cases g with
  | mk inputs outputs inits nodes =>
    refine ⟨?_, hv.2⟩
    have hg := hv.1
    rw [validG_iff'] at hg ⊢
    obtain ⟨hs, hc, hf, hsc⟩ := hg
    simp only [ssaG, Bool.and_eq_true, nodupB_iff, disj_iff] at hs
    simp only [closedG, Bool.and_eq_true, List.all_eq_true, List.contains_eq_mem, decide_eq_true_eq] at hc
    simp only [noFwdG] at hf
    simp only [scopedG] at hsc
    obtain ⟨k1, k2, k3, k4, k5, k6⟩ := cseNodes_valid limit inputs nodes [] [] outputs ([] ++ inputs ++ inits.map Prod.fst)
      ([] ++ inputs ++ inits.map Prod.fst) (inputs ++ inits.map Prod.fst) hs.2 hc.2 hf hsc
      (fun v hv => by rw [Subst.app_nil]; exact hv) (fun p hp => by simp at hp) (fun n1 h => by simp at h)
      (fun v hv => by simpa using hv)
      (fun o ho => by
        have := hc.1 o ho
        simp only [List.mem_append] at this ⊢
        rcases this with (h | h) | h
        · exact Or.inl (Or.inl h)
        · exact Or.inl (Or.inr h)
        · exact Or.inr h)
    simp only [cseModel]
    refine ⟨?_, ?_, ?_, ?_⟩
    · simp only [ssaG, Bool.and_eq_true, nodupB_iff, disj_iff]
      exact ⟨⟨hs.1.1, fun x hx hx' => hs.1.2 x hx (k6 x hx')⟩, k1⟩
    · simp only [closedG, Bool.and_eq_true, List.all_eq_true, List.contains_eq_mem, decide_eq_true_eq]
      refine ⟨fun v hv => ?_, k2⟩
      rw [List.mem_append]
      exact k5 v hv
    · simp only [noFwdG]; exact k3
    · simp only [scopedG]; exact k4

end IrVerif.Passes

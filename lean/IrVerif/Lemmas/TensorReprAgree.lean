/-
Every legal representation answers dtype / shape / nbytes / numpy() / tobytes() / tofile() with the
logical tensor's data (the case analysis behind `C04_field_agree`).  Core Lean only.
-/
import IrVerif.Lemmas.TensorRepr
namespace IrVerif.TensorRepr
open IrVerif.Pack

variable {d : DType} {dims : List Nat} {bw : Nat} {xs : List Nat}

theorem not_true_false {b : Bool} (h : ¬ b = true) : b = false := by simpa using h

/-- storage units of a whole-byte type are the elements themselves -/
theorem units_eq (elems : List Nat)
    (hu : ∀ e ∈ elems, e < 256 ^ npItemBytes d) (hx : obsBits bw elems = xs)
    (hi : bw = 8 * npItemBytes d) : elems = xs := by
  rw [← hx]; symm
  apply obsBits_id
  intro e he
  have := hu e he
  rw [pow256] at this
  rw [hi]; exact this

theorem arrayBytes_ok (wf : WF d dims bw xs) (elems : List Nat)
    (hu : ∀ e ∈ elems, e < 256 ^ npItemBytes d) (hx : obsBits bw elems = xs) :
    arrayBytes d (npItemBytes d) elems = .ok (packLE bw xs) := by
  have F := facts d bw wf.hbw
  unfold arrayBytes packLE tobytes
  by_cases h4 : bw = 4
  · have h := F.pack4.mpr h4
    subst h4
    simp only [h, if_true, ← hx, obsBits]
    simpa using (pack4_map_mod elems).symm
  · have n4 := not_true_false (mt F.pack4.mp h4)
    by_cases h2 : bw = 2
    · have h := F.pack2.mpr h2
      subst h2
      simp only [n4, h, if_true, ← hx, obsBits]
      simpa using (pack2_map_mod elems).symm
    · have n2 := not_true_false (mt F.pack2.mp h2)
      have hi : bw = 8 * npItemBytes d := by
        rcases F.item with h | h | h
        · exact absurd h h2
        · exact absurd h h4
        · exact h
      have he := units_eq elems hu hx hi
      have h8 : bw / 8 = npItemBytes d := by omega
      simp [n4, n2, wf.hbw, h4, h2, he, h8, ← hi]

theorem agrees_array (wf : WF d dims bw xs) (elems : List Nat)
    (hu : ∀ e ∈ elems, e < 256 ^ npItemBytes d) (hx : obsBits bw elems = xs) :
    Agrees d dims bw xs (.array d dims elems) := by
  have htb := arrayBytes_ok wf elems hu hx
  exact { dtype := rfl, shape := rfl,
          nbytes := by simp [Rep.nbytes, Rep.dtype, Rep.shape, nbytesOf_ok wf.hbw],
          numpy := ⟨elems, rfl, hx⟩,
          tobytes := htb,
          tofile := by simp [Rep.tofile, Rep.tobytes, htb, Rep.wrote] }

theorem agrees_arrayMem (wf : WF d dims bw xs) (be nd : Bool) (hnb : (nd && be) = false)
    (h8 : 8 ≤ bw) (hc : be = true → d ≠ .complex64 ∧ d ≠ .complex128) : Agrees d dims bw xs (.arrayMem d dims (memOf (bw / 8) be xs) be nd) := by
  have F := facts d bw wf.hbw
  have hm8 : bw % 8 = 0 := by rcases F.range with h | h | h | h | h | h | h <;> omega
  have hw : 0 < bw / 8 := by omega
  have hlt : ∀ x ∈ xs, x < 256 ^ (bw / 8) := by
    intro x hx
    rw [pow256, show 8 * (bw / 8) = bw by omega]
    exact wf.range x hx
  have helems : arrayMemElems d (memOf (bw / 8) be xs) be nd = .ok xs := by
    have hn8 : ¬ bw < 8 := by omega
    simp only [arrayMemElems, hnb, Bool.false_eq_true, if_false, wf.hbw, hn8]
    cases be
    · have : memOf (bw / 8) false xs = xs.flatMap (leBytes (bw / 8)) := by simp [memOf]
      simp only [Bool.false_eq_true, if_false, this]
      exact fromBuffer_flatMap (bw / 8) hw xs hlt
    · have hnc : ¬ (d = .complex64 ∨ d = .complex128) := by
        have := hc rfl; intro h; rcases h with h | h
        · exact this.1 h
        · exact this.2 h
      simp only [if_true, hnc, if_false]
      rw [swapItems_memOf _ hw]
      exact fromBuffer_flatMap (bw / 8) hw xs hlt
  have hi : bw = 8 * npItemBytes d := by
    rcases F.item with h | h | h
    · omega
    · omega
    · exact h
  have hu : ∀ e ∈ xs, e < 256 ^ npItemBytes d := by
    intro e he
    rw [pow256, ← hi]; exact wf.range e he
  have htb : arrayMemBytes d (memOf (bw / 8) be xs) be nd = .ok (packLE bw xs) := by
    simp only [arrayMemBytes, helems]
    exact arrayBytes_ok wf xs hu (obsBits_id bw xs wf.range)
  exact { dtype := by simp [Rep.dtype, hnb], shape := rfl,
          nbytes := by simp [Rep.nbytes, Rep.dtype, Rep.shape, hnb, nbytesOf_ok wf.hbw],
          numpy := ⟨xs, helems, obsBits_id bw xs wf.range⟩,
          tobytes := htb,
          tofile := by simp [Rep.tofile, Rep.tobytes, htb, Rep.wrote] }

theorem torchBytes_ok (wf : WF d dims bw xs) (elems : List Nat) (ht : d.torchMapped = true)
    (hu : ∀ e ∈ elems, e < 256 ^ npItemBytes d) (hx : obsBits bw elems = xs) :
    torchBytes d elems = .ok (packLE bw xs) := by
  have F := facts d bw wf.hbw
  have h4 : bw ≠ 4 := F.torch ht
  unfold torchBytes packLE tobytes
  by_cases h2 : bw = 2
  · have h := F.pack2.mpr h2
    subst h2
    simp only [ht, h, if_true, ← hx, obsBits]
    simpa using (pack2_map_mod elems).symm
  · have n2 := not_true_false (mt F.pack2.mp h2)
    have hi : bw = 8 * npItemBytes d := by
      rcases F.item with h | h | h
      · exact absurd h h2
      · exact absurd h h4
      · exact h
    have he := units_eq elems hu hx hi
    simp [ht, n2, wf.hbw, h4, h2, he]

theorem agrees_torch (wf : WF d dims bw xs) (elems : List Nat) (ht : d.torchMapped = true)
    (hu : ∀ e ∈ elems, e < 256 ^ npItemBytes d) (hx : obsBits bw elems = xs) :
    Agrees d dims bw xs (.torch d dims elems) := by
  have htb := torchBytes_ok wf elems ht hu hx
  exact { dtype := by simp [Rep.dtype, ht], shape := rfl,
          nbytes := by simp [Rep.nbytes, Rep.dtype, Rep.shape, ht, nbytesOf_ok wf.hbw],
          numpy := ⟨elems, by simp [Rep.numpy, ht], hx⟩,
          tobytes := htb,
          tofile := by simp [Rep.tofile, Rep.tobytes, htb, Rep.wrote] }

theorem torchView_mid (wf : WF d dims bw xs) (pre elems post : List Nat)
    (hx : obsBits bw elems = xs) :
    torchView (pre ++ elems ++ post) pre.length (prod dims) = elems := by
  have hl : elems.length = prod dims := by
    rw [← wf.len, ← hx]; simp [obsBits]
  rw [← hl]; exact slice_mid pre elems post

theorem agrees_packed (wf : WF d dims bw xs) (hb : bw = 2 ∨ bw = 4) :
    Agrees d dims bw xs (.packed { dtype := d, dims := dims, raw := packLE bw xs }) := by
  have hlen : (packLE bw xs).length = nbytes (prod dims) bw := by
    rw [← wf.len]; apply packLE_length; omega
  have hv : Packed.valid { dtype := d, dims := dims, raw := packLE bw xs } = .ok () := by
    have : ¬ (bw ≠ 2 ∧ bw ≠ 4) := by omega
    simp [Packed.valid, wf.hbw, this, hlen]
  have htb : (Rep.packed { dtype := d, dims := dims, raw := packLE bw xs }).tobytes
      = .ok (packLE bw xs) := by
    simp [Rep.tobytes, Packed.tobytes, hv]
  exact { dtype := rfl, shape := rfl,
          nbytes := by simp [Rep.nbytes, Rep.dtype, Rep.shape, nbytesOf_ok wf.hbw],
          numpy := ⟨xs, by
            simp only [Rep.numpy, Packed.numpy, hv, wf.hbw, ← wf.len]
            rw [unpackBits_packLE hb xs wf.range], obsBits_id bw xs wf.range⟩,
          tobytes := htb,
          tofile := by simp [Rep.tofile, htb, Rep.wrote] }

theorem agrees_lazy (wf : WF d dims bw xs) (inner : Rep) (h : Agrees d dims bw xs inner) :
    Agrees d dims bw xs (.lazy d dims inner) :=
  { dtype := rfl, shape := rfl,
    nbytes := by simp [Rep.nbytes, Rep.dtype, Rep.shape, nbytesOf_ok wf.hbw],
    numpy := h.numpy, tobytes := h.tobytes, tofile := h.tofile }

/-! ### proto-backed -/

theorem proto_dtype {p : Proto} (hd : p.dataType = d.code) : p.dtype = .ok d := by
  simp [Proto.dtype, hd, ofCode_code]

theorem range_lt_256pow (wf : WF d dims bw xs) (h8 : bw % 8 = 0) : ∀ x ∈ xs, x < 256 ^ (bw / 8) := by
  intro x hx
  rw [pow256, show 8 * (bw / 8) = bw by omega]
  exact wf.range x hx

theorem reshape_ok (wf : WF d dims bw xs) : reshape xs (prod dims) = .ok xs := by
  simp [reshape, wf.len]

theorem agrees_of_proto (wf : WF d dims bw xs) (p : Proto) (hd : p.dataType = d.code)
    (hdims : p.dims = dims) (hnp : ∃ u, p.numpy = .ok u ∧ obsBits bw u = xs)
    (htb : p.tobytes = .ok (packLE bw xs)) : Agrees d dims bw xs (.proto p) :=
  { dtype := by simp [Rep.dtype, proto_dtype hd], shape := hdims,
    nbytes := by simp [Rep.nbytes, Rep.dtype, Rep.shape, proto_dtype hd, hdims, nbytesOf_ok wf.hbw],
    numpy := hnp, tobytes := htb,
    tofile := by simp [Rep.tofile, Rep.tobytes, htb, Rep.wrote] }

theorem agrees_protoRaw (wf : WF d dims bw xs) (p : Proto) (hd : p.dataType = d.code)
    (hdims : p.dims = dims) (hext : p.external = none) (hraw : p.rawData = some (packLE bw xs)) :
    Agrees d dims bw xs (.proto p) := by
  have F := facts d bw wf.hbw
  apply agrees_of_proto wf p hd hdims
  · refine ⟨xs, ?_, obsBits_id bw xs wf.range⟩
    simp only [Proto.numpy, proto_dtype hd, F.nundef, if_false, hext, Option.isSome_none,
      Bool.false_eq_true, hraw, wf.hbw, hdims, ← wf.len]
    by_cases h4 : bw = 4
    · subst h4
      simp [packLE, tobytes, unpack4_pack4 xs (by simpa using wf.range)]
    · by_cases h2 : bw = 2
      · subst h2
        simp [packLE, tobytes, unpack2_pack2 xs (by simpa using wf.range)]
      · have h8 : bw % 8 = 0 := by rcases F.range with h | h | h | h | h | h | h <;> omega
        have hw : 0 < bw / 8 := by rcases F.range with h | h | h | h | h | h | h <;> omega
        simp only [h4, h2, if_false, packLE, tobytes]
        rw [fromBuffer_flatMap (bw / 8) hw xs (range_lt_256pow wf h8)]
        simp [reshape]
  · simp [Proto.tobytes, hext, proto_dtype hd, F.nundef, F.nstr, hraw]

theorem packLE_eq_nil (hb : 2 ≤ bw) (hp : bw = 2 ∨ bw = 4 ∨ bw % 8 = 0) (h : packLE bw xs = []) :
    xs = [] := by
  have hl := packLE_length bw xs hp
  rw [h] at hl
  simp only [List.length_nil, nbytes] at hl
  have : xs.length = 0 := by
    rcases Nat.eq_zero_or_pos xs.length with h0 | h0
    · exact h0
    · exfalso
      have : 1 * 2 ≤ xs.length * bw := Nat.mul_le_mul h0 hb
      omega
  exact List.eq_nil_of_length_eq_zero this

theorem packLE_nil : packLE bw ([] : List Nat) = [] := by
  simp [packLE, tobytes, pack4, pack2]

theorem agrees_protoInt32 (wf : WF d dims bw xs) (ys : List Int) (hl : d.int32Legal = true)
    (hy : if 8 ≤ bw then ys.map (wrap bw) = xs else ys.map (wrap 8) = packLE bw xs) :
    Agrees d dims bw xs (.proto { dataType := d.code, dims := dims, int32Data := ys }) := by
  have F := facts d bw wf.hbw
  obtain ⟨hle, h16, h8s, h32⟩ := F.i32 hl
  have hdt : Proto.dtype { dataType := d.code, dims := dims, int32Data := ys } = .ok d :=
    proto_dtype rfl
  have hp : bw = 2 ∨ bw = 4 ∨ bw % 8 = 0 := by
    rcases F.range with h | h | h | h | h | h | h <;> omega
  have h2le : 2 ≤ bw := by rcases F.range with h | h | h | h | h | h | h <;> omega
  apply agrees_of_proto wf _ rfl rfl
  · -- numpy
    by_cases hys : ys = []
    · subst hys
      have hx : xs = [] := by
        by_cases h8 : 8 ≤ bw
        · rw [if_pos h8] at hy; simpa using hy.symm
        · rw [if_neg h8] at hy
          exact packLE_eq_nil h2le hp (by simpa using hy.symm)
      subst hx
      have hn : prod dims = 0 := by simpa using wf.len.symm
      refine ⟨[], ?_, rfl⟩
      simp [Proto.numpy, hdt, F.nundef, F.nstr, hn]
    · refine ⟨xs, ?_, obsBits_id bw xs wf.range⟩
      simp only [Proto.numpy, hdt, F.nundef, F.nstr, if_false, Option.isSome_none,
        Bool.false_eq_true, ne_eq, hys, not_false_eq_true, if_true, int32Numpy, hl, Bool.not_true,
        wf.hbw]
      rcases F.range with h | h | h | h | h | h | h <;> subst h <;> simp at hy hle ⊢
      · rw [hy, ← wf.len]; simp [packLE, tobytes, unpack2_pack2 xs (by simpa using wf.range)]
      · rw [hy, ← wf.len]; simp [packLE, tobytes, unpack4_pack4 xs (by simpa using wf.range)]
      · rw [hy]; exact reshape_ok wf
      · rw [hy]; exact reshape_ok wf
      · rw [hy]; exact reshape_ok wf
  · -- tobytes
    by_cases hys : ys = []
    · subst hys
      have hx : xs = [] := by
        by_cases h8 : 8 ≤ bw
        · rw [if_pos h8] at hy; simpa using hy.symm
        · rw [if_neg h8] at hy
          exact packLE_eq_nil h2le hp (by simpa using hy.symm)
      subst hx
      simp [Proto.tobytes, hdt, F.nundef, F.nstr, packLE_nil]
    · simp only [Proto.tobytes, hdt, F.nundef, F.nstr, if_false, Option.isSome_none,
        Bool.false_eq_true, ne_eq, hys, not_false_eq_true, if_true, not_true_eq_false]
      rcases F.range with h | h | h | h | h | h | h <;> subst h <;> simp at hy hle h16 h8s h32 ⊢
      · simp [h16, h8s, hy, flatMap_leBytes_one _ (packLE_byte 2 xs)]
      · simp [h16, h8s, hy, flatMap_leBytes_one _ (packLE_byte 4 xs)]
      · simp [h16, h8s, hy, packLE, tobytes]
      · simp [h16, hy, packLE, tobytes]
      · simp only [h16, h8s, Bool.false_eq_true, if_false]
        simp [h32, hy, packLE, tobytes]

theorem prod_zero_of_nil (wf : WF d dims bw []) : prod dims = 0 := by
  simpa using wf.len.symm

theorem agrees_protoInt64 (wf : WF d dims bw xs) (ys : List Int) (hd : d = .int64)
    (hy : ys.map (wrap 64) = xs) :
    Agrees d dims bw xs (.proto { dataType := d.code, dims := dims, int64Data := ys }) := by
  have F := facts d bw wf.hbw
  have hbw : bw = 64 := F.w64 (Or.inl hd)
  subst hbw
  have hdt : Proto.dtype { dataType := d.code, dims := dims, int64Data := ys } = .ok d :=
    proto_dtype rfl
  subst hd
  apply agrees_of_proto wf _ rfl rfl
  · by_cases hys : ys = []
    · subst hys
      simp only [List.map_nil] at hy; subst hy
      exact ⟨[], by simp [Proto.numpy, hdt, F.nundef, F.nstr, prod_zero_of_nil wf], rfl⟩
    · refine ⟨xs, ?_, obsBits_id 64 xs wf.range⟩
      simp [Proto.numpy, hdt, F.nundef, F.nstr, hys, hy, reshape, wf.len]
  · by_cases hys : ys = []
    · subst hys
      simp only [List.map_nil] at hy; subst hy
      simp [Proto.tobytes, hdt, F.nundef, F.nstr, packLE_nil]
    · simp [Proto.tobytes, hdt, F.nundef, F.nstr, hys, hy, packLE, tobytes]

theorem agrees_protoUint64 (wf : WF d dims bw xs) (hd : d = .uint64) :
    Agrees d dims bw xs (.proto { dataType := d.code, dims := dims, uint64Data := xs }) := by
  have F := facts d bw wf.hbw
  have hbw : bw = 64 := F.w64 (Or.inr (Or.inl hd))
  subst hbw
  have hdt : Proto.dtype { dataType := d.code, dims := dims, uint64Data := xs } = .ok d :=
    proto_dtype rfl
  subst hd
  apply agrees_of_proto wf _ rfl rfl
  · by_cases hys : xs = []
    · subst hys
      exact ⟨[], by simp [Proto.numpy, hdt, F.nundef, F.nstr, prod_zero_of_nil wf], rfl⟩
    · refine ⟨xs, ?_, obsBits_id 64 xs wf.range⟩
      simp [Proto.numpy, hdt, F.nundef, F.nstr, hys, reshape, wf.len]
  · by_cases hys : xs = []
    · subst hys
      simp [Proto.tobytes, hdt, F.nundef, F.nstr, packLE_nil]
    · simp [Proto.tobytes, hdt, F.nundef, F.nstr, hys, packLE, tobytes]

theorem agrees_protoUint64as32 (wf : WF d dims bw xs) (ys : List Nat) (hd : d = .uint32)
    (hy : ys.map (· % 2 ^ 32) = xs) :
    Agrees d dims bw xs (.proto { dataType := d.code, dims := dims, uint64Data := ys }) := by
  have F := facts d bw wf.hbw
  have hbw : bw = 32 := F.w32 (Or.inl hd)
  subst hbw
  have hdt : Proto.dtype { dataType := d.code, dims := dims, uint64Data := ys } = .ok d :=
    proto_dtype rfl
  subst hd
  apply agrees_of_proto wf _ rfl rfl
  · by_cases hys : ys = []
    · subst hys
      simp only [List.map_nil] at hy; subst hy
      exact ⟨[], by simp [Proto.numpy, hdt, F.nundef, F.nstr, prod_zero_of_nil wf], rfl⟩
    · refine ⟨xs, ?_, obsBits_id 32 xs wf.range⟩
      simp only [Proto.numpy, hdt, F.nundef, F.nstr, if_false, Option.isSome_none,
        Bool.false_eq_true, ne_eq, hys, not_false_eq_true, if_true, not_true_eq_false, hy]
      simp [reshape, wf.len]
  · by_cases hys : ys = []
    · subst hys
      simp only [List.map_nil] at hy; subst hy
      simp [Proto.tobytes, hdt, F.nundef, F.nstr, packLE_nil]
    · simp only [Proto.tobytes, hdt, F.nundef, F.nstr, if_false, Option.isSome_none,
        Bool.false_eq_true, ne_eq, hys, not_false_eq_true, if_true, not_true_eq_false, hy]
      simp [packLE, tobytes]

theorem agrees_protoFloat (wf : WF d dims bw xs) (hd : d = .float) :
    Agrees d dims bw xs (.proto { dataType := d.code, dims := dims, floatData := xs }) := by
  have F := facts d bw wf.hbw
  have hbw : bw = 32 := F.w32 (Or.inr hd)
  subst hbw
  have hdt : Proto.dtype { dataType := d.code, dims := dims, floatData := xs } = .ok d :=
    proto_dtype rfl
  subst hd
  apply agrees_of_proto wf _ rfl rfl
  · by_cases hys : xs = []
    · subst hys
      exact ⟨[], by simp [Proto.numpy, hdt, F.nundef, F.nstr, prod_zero_of_nil wf], rfl⟩
    · refine ⟨xs, ?_, obsBits_id 32 xs wf.range⟩
      simp [Proto.numpy, hdt, F.nundef, F.nstr, hys, reshape, wf.len]
  · by_cases hys : xs = []
    · subst hys
      simp [Proto.tobytes, hdt, F.nundef, F.nstr, packLE_nil]
    · simp [Proto.tobytes, hdt, F.nundef, F.nstr, hys, packLE, tobytes]

theorem agrees_protoDouble (wf : WF d dims bw xs) (hd : d = .double) :
    Agrees d dims bw xs (.proto { dataType := d.code, dims := dims, doubleData := xs }) := by
  have F := facts d bw wf.hbw
  have hbw : bw = 64 := F.w64 (Or.inr (Or.inr (Or.inl hd)))
  subst hbw
  have hdt : Proto.dtype { dataType := d.code, dims := dims, doubleData := xs } = .ok d :=
    proto_dtype rfl
  subst hd
  apply agrees_of_proto wf _ rfl rfl
  · by_cases hys : xs = []
    · subst hys
      exact ⟨[], by simp [Proto.numpy, hdt, F.nundef, F.nstr, prod_zero_of_nil wf], rfl⟩
    · refine ⟨xs, ?_, obsBits_id 64 xs wf.range⟩
      simp [Proto.numpy, hdt, F.nundef, F.nstr, hys, reshape, wf.len]
  · by_cases hys : xs = []
    · subst hys
      simp [Proto.tobytes, hdt, F.nundef, F.nstr, packLE_nil]
    · simp [Proto.tobytes, hdt, F.nundef, F.nstr, hys, packLE, tobytes]

theorem agrees_protoComplex64 (wf : WF d dims bw xs) (hd : d = .complex64) :
    Agrees d dims bw xs (.proto { dataType := d.code, dims := dims, floatData := splitParts 32 xs }) := by
  have F := facts d bw wf.hbw
  have hbw : bw = 64 := F.w64 (Or.inr (Or.inr (Or.inr hd)))
  subst hbw
  have hdt : Proto.dtype { dataType := d.code, dims := dims, floatData := splitParts 32 xs } = .ok d :=
    proto_dtype rfl
  subst hd
  apply agrees_of_proto wf _ rfl rfl
  · by_cases hys : xs = []
    · subst hys
      exact ⟨[], by simp [Proto.numpy, F.nundef, F.nstr, prod_zero_of_nil wf, splitParts, Proto.dtype, ofCode_code], rfl⟩
    · refine ⟨xs, ?_, obsBits_id 64 xs wf.range⟩
      have hne : splitParts 32 xs ≠ [] := fun h => hys ((splitParts_eq_nil 32 xs).mp h)
      simp [Proto.numpy, hdt, F.nundef, F.nstr, hne, pairUp_splitParts, reshape, wf.len]
  · by_cases hys : xs = []
    · subst hys
      simp [Proto.tobytes, F.nundef, F.nstr, packLE_nil, splitParts, Proto.dtype, ofCode_code]
    · have hne : splitParts 32 xs ≠ [] := fun h => hys ((splitParts_eq_nil 32 xs).mp h)
      simp [Proto.tobytes, hdt, F.nundef, F.nstr, hne, packLE, tobytes, splitParts_bytes32]

theorem agrees_protoComplex128 (wf : WF d dims bw xs) (hd : d = .complex128) :
    Agrees d dims bw xs (.proto { dataType := d.code, dims := dims, doubleData := splitParts 64 xs }) := by
  have F := facts d bw wf.hbw
  have hbw : bw = 128 := F.w128 hd
  subst hbw
  have hdt : Proto.dtype { dataType := d.code, dims := dims, doubleData := splitParts 64 xs } = .ok d :=
    proto_dtype rfl
  subst hd
  apply agrees_of_proto wf _ rfl rfl
  · by_cases hys : xs = []
    · subst hys
      exact ⟨[], by simp [Proto.numpy, F.nundef, F.nstr, prod_zero_of_nil wf, splitParts, Proto.dtype, ofCode_code], rfl⟩
    · refine ⟨xs, ?_, obsBits_id 128 xs wf.range⟩
      have hne : splitParts 64 xs ≠ [] := fun h => hys ((splitParts_eq_nil 64 xs).mp h)
      simp [Proto.numpy, hdt, F.nundef, F.nstr, hne, pairUp_splitParts, reshape, wf.len]
  · by_cases hys : xs = []
    · subst hys
      simp [Proto.tobytes, F.nundef, F.nstr, packLE_nil, splitParts, Proto.dtype, ofCode_code]
    · have hne : splitParts 64 xs ≠ [] := fun h => hys ((splitParts_eq_nil 64 xs).mp h)
      simp [Proto.tobytes, hdt, F.nundef, F.nstr, hne, packLE, tobytes, splitParts_bytes64]

/-! ### external -/

theorem byteCount_ok (wf : WF d dims bw xs) (e : Ext) (hd : e.dtype = d) (hdims : e.dims = dims)
    (hlen : ∀ l, e.length = some l → l = 0 ∨ l = nbytes (prod dims) bw) :
    e.byteCount = .ok (nbytes (prod dims) bw) := by
  unfold Ext.byteCount
  rcases hl : e.length with _ | l
  · simp [hd, hdims, nbytesOf_ok wf.hbw]
  · cases l with
    | zero => simp [hd, hdims, nbytesOf_ok wf.hbw]
    | succ l =>
      rcases hlen _ hl with h | h
      · omega
      · simp [h]

theorem agrees_external (wf : WF d dims bw xs) (e : Ext) (pre post : List Nat) (hd : e.dtype = d)
    (hdims : e.dims = dims) (hoff : e.offset.getD 0 = pre.length)
    (hlen : ∀ l, e.length = some l → l = 0 ∨ l = nbytes (prod dims) bw) :
    Agrees d dims bw xs (.external e (some (pre ++ packLE bw xs ++ post))) := by
  have F := facts d bw wf.hbw
  have hp : bw = 2 ∨ bw = 4 ∨ bw % 8 = 0 := by
    rcases F.range with h | h | h | h | h | h | h <;> omega
  have hL : (packLE bw xs).length = nbytes (prod dims) bw := by
    rw [← wf.len]; exact packLE_length bw xs hp
  have hbc := byteCount_ok wf e hd hdims hlen
  have hslice : ((pre ++ packLE bw xs ++ post).drop (e.offset.getD 0)).take (nbytes (prod dims) bw)
      = packLE bw xs := by
    rw [hoff, ← hL]; exact slice_mid pre (packLE bw xs) post
  -- numpy
  have hnp : ∃ u, e.numpy (some (pre ++ packLE bw xs ++ post)) = .ok u ∧ obsBits bw u = xs := by
    by_cases hn : prod dims = 0
    · have hx : xs = [] := List.eq_nil_of_length_eq_zero (by rw [wf.len, hn])
      subst hx
      exact ⟨[], by simp [Ext.numpy, hdims, hn, hd, F.np], rfl⟩
    · refine ⟨xs, ?_, obsBits_id bw xs wf.range⟩
      have hpos : 0 < nbytes (prod dims) bw := by
        have h2 : 2 ≤ bw := by rcases F.range with h | h | h | h | h | h | h <;> omega
        have h1 : 1 ≤ prod dims := Nat.one_le_iff_ne_zero.mpr hn
        have : 1 * 2 ≤ prod dims * bw := Nat.mul_le_mul h1 h2
        simp only [nbytes]; omega
      have hne : pre ++ packLE bw xs ++ post ≠ [] := by
        intro h
        have := congrArg List.length h
        simp only [List.length_append, List.length_nil] at this
        omega
      -- count * w = number of canonical bytes
      have hcw : (if e.dtype.extSubByte then nbytes (prod dims) bw else prod dims) *
          (if e.dtype.extSubByte then 1 else bw / 8) = nbytes (prod dims) bw := by
        rw [hd]
        by_cases hs : d.extSubByte = true
        · simp [hs]
        · have hs' := not_true_false hs
          have h42 : ¬ (bw = 4 ∨ bw = 2) := mt F.sub.mpr hs
          have h4 : bw ≠ 4 := fun h => h42 (Or.inl h)
          have h2 : bw ≠ 2 := fun h => h42 (Or.inr h)
          rw [← hL]
          simp only [hs', Bool.false_eq_true, if_false, packLE, tobytes, h4, h2]
          rw [flatMap_leBytes_length, wf.len]
      simp only [Ext.numpy, hdims, hn, if_false, hne, hd, wf.hbw]
      rw [hd] at hcw
      rw [hcw]
      have hfit : ¬ (e.offset.getD 0 + nbytes (prod dims) bw > (pre ++ packLE bw xs ++ post).length) := by
        simp only [List.length_append, hoff, hL]; omega
      simp only [hfit, if_false, hslice]
      by_cases h4 : bw = 4
      · subst h4
        rw [← wf.len]
        simp [packLE, tobytes, unpack4_pack4 xs (by simpa using wf.range)]
      · by_cases h2 : bw = 2
        · subst h2
          rw [← wf.len]
          simp [packLE, tobytes, unpack2_pack2 xs (by simpa using wf.range)]
        · have hs' : d.extSubByte = false :=
            not_true_false (mt F.sub.mp (by omega))
          have h8 : bw % 8 = 0 := by omega
          have hw : 0 < bw / 8 := by rcases F.range with h | h | h | h | h | h | h <;> omega
          simp only [h4, h2, if_false, hs', Bool.false_eq_true, packLE, tobytes]
          rw [fromLE_flatMap (bw / 8) hw xs (range_lt_256pow wf h8)]
          exact reshape_ok wf
  have htb : e.tobytes (some (pre ++ packLE bw xs ++ post)) = .ok (packLE bw xs) := by
    by_cases hn : prod dims = 0
    · have hx : xs = [] := List.eq_nil_of_length_eq_zero (by rw [wf.len, hn])
      subst hx
      simp [Ext.tobytes, hdims, hn, packLE_nil]
    · obtain ⟨u, hu, _⟩ := hnp
      simp only [Ext.tobytes, hdims, hn, if_false, hu, hbc, hslice]
  exact { dtype := by simp [Rep.dtype, hd], shape := hdims,
          nbytes := by simp [Rep.nbytes, Rep.dtype, Rep.shape, hd, hdims, nbytesOf_ok wf.hbw],
          numpy := hnp, tobytes := htb,
          tofile := by
            simp only [Rep.tofile, Ext.tofile, hbc, hslice, hL]
            simp }

/-! ### all legal representations -/

theorem legal_agrees (wf : WF d dims bw xs) {r : Rep} (h : Legal d dims bw xs r) :
    Agrees d dims bw xs r := by
  induction h with
  | array elems hu hx => exact agrees_array wf elems hu hx
  | torch elems ht hu hx => exact agrees_torch wf elems ht hu hx
  | arrayMem be nd hnb h8 hc => exact agrees_arrayMem wf be nd hnb h8 hc
  | torchView pre elems post ht hu hx =>
    rw [torchView_mid wf pre elems post hx]; exact agrees_torch wf elems ht hu hx
  | packed hb => exact agrees_packed wf hb
  | protoRaw p hd hdims hext hraw => exact agrees_protoRaw wf p hd hdims hext hraw
  | protoInt32 ys hl hy => exact agrees_protoInt32 wf ys hl hy
  | protoInt64 ys hd hy => exact agrees_protoInt64 wf ys hd hy
  | protoUint64 hd => exact agrees_protoUint64 wf hd
  | protoUint64as32 ys hd hy => exact agrees_protoUint64as32 wf ys hd hy
  | protoFloat hd => exact agrees_protoFloat wf hd
  | protoComplex64 hd => exact agrees_protoComplex64 wf hd
  | protoDouble hd => exact agrees_protoDouble wf hd
  | protoComplex128 hd => exact agrees_protoComplex128 wf hd
  | external e pre post hd hdims hoff hlen => exact agrees_external wf e pre post hd hdims hoff hlen
  | lazy inner _ ih => exact agrees_lazy wf inner ih

/-! ### destination files -/

theorem splice_nil (img : List Nat) (off : Nat) : splice img off [] = img := by simp [splice]

theorem splice_length (img : List Nat) (off : Nat) (data : List Nat) (h : data ≠ []) :
    (splice img off data).length = max img.length (off + data.length) := by
  simp only [splice, h, if_false, List.length_append, List.length_take, List.length_replicate,
    List.length_drop]
  omega

theorem drop_append_len (L D : List Nat) (n k : Nat) (h : L.length = n) :
    (L ++ D).drop (n + k) = D.drop k := by
  subst h
  rw [List.drop_append, List.drop_of_length_le (by omega)]
  simp

/-- two adjacent positioned writes are one positioned write of the concatenation -/
theorem splice_splice (img : List Nat) (p : Nat) (a b : List Nat) :
    splice (splice img p a) (p + a.length) b = splice img p (a ++ b) := by
  by_cases ha : a = []
  · subst ha; simp [splice_nil]
  by_cases hb : b = []
  · subst hb; simp [splice_nil]
  have hab : a ++ b ≠ [] := by simp [ha]
  have hA : (img.take p ++ List.replicate (p - img.length) 0).length = p := by
    simp only [List.length_append, List.length_take, List.length_replicate]; omega
  have hl := splice_length img p a ha
  have e1 : ∀ (X : List Nat) (q : Nat), splice X q b
      = X.take q ++ List.replicate (q - X.length) 0 ++ b ++ X.drop (q + b.length) := by
    intro X q; rw [splice, if_neg hb]
  have e2 : splice img p (a ++ b) = img.take p ++ List.replicate (p - img.length) 0 ++ (a ++ b)
      ++ img.drop (p + (a ++ b).length) := by
    rw [splice, if_neg hab]
  rw [e1, e2]
  have hs : splice img p a
      = (img.take p ++ List.replicate (p - img.length) 0 ++ a) ++ img.drop (p + a.length) := by
    simp [splice, ha]
  have hAa : (img.take p ++ List.replicate (p - img.length) 0 ++ a).length = p + a.length := by
    rw [List.length_append, hA]
  have ht : (splice img p a).take (p + a.length)
      = img.take p ++ List.replicate (p - img.length) 0 ++ a := by
    rw [hs]; exact List.take_left' hAa
  have hd : (splice img p a).drop (p + a.length + b.length) = img.drop (p + (a ++ b).length) := by
    rw [hs, drop_append_len _ _ (p + a.length) b.length hAa, List.drop_drop]
    congr 1
    simp only [List.length_append]; omega
  have hz : p + a.length - (splice img p a).length = 0 := by rw [hl]; omega
  rw [ht, hd, hz]
  simp [List.append_assoc]

theorem write_nil (f : Dest) : f.write [] = f := by simp [Dest.write]

theorem write_eq (f : Dest) (data : List Nat) (h : data ≠ []) :
    f.write data = { f with img := splice f.img (if f.append then f.img.length else f.pos) data,
                            pos := (if f.append then f.img.length else f.pos) + data.length } := by
  simp [Dest.write, h, Dest.pwrite, Dest.seek]

theorem write_spec (f : Dest) (data : List Nat) (hne : data ≠ []) :
    (f.write data).pos = (if f.append then f.img.length else f.pos) + data.length ∧
    (f.write data).img.take (if f.append then f.img.length else f.pos)
      = f.img.take (if f.append then f.img.length else f.pos)
        ++ List.replicate ((if f.append then f.img.length else f.pos) - f.img.length) 0 ∧
    ((f.write data).img.drop (if f.append then f.img.length else f.pos)).take data.length = data ∧
    (f.write data).img.drop ((if f.append then f.img.length else f.pos) + data.length)
      = f.img.drop ((if f.append then f.img.length else f.pos) + data.length) := by
  rw [write_eq f data hne]
  generalize (if f.append then f.img.length else f.pos) = p
  have hA : (f.img.take p ++ List.replicate (p - f.img.length) 0).length = p := by
    simp only [List.length_append, List.length_take, List.length_replicate]; omega
  simp only [splice, hne, if_false]
  refine ⟨by simp, ?_, ?_, ?_⟩
  · simp only [List.append_assoc]
    rw [← List.append_assoc (f.img.take p)]
    exact List.take_left' hA
  · simp only [List.append_assoc]
    rw [← List.append_assoc (f.img.take p), List.drop_left' hA]
    exact List.take_left' rfl
  · have hB : (f.img.take p ++ List.replicate (p - f.img.length) 0 ++ data).length
        = p + data.length := by
      rw [List.length_append, hA]
    exact List.drop_left' hB

/-- two consecutive `write`s are one `write` of the concatenation (also in append mode) -/
theorem write_write (f : Dest) (a b : List Nat) : (f.write a).write b = f.write (a ++ b) := by
  by_cases ha : a = []
  · subst ha; simp [write_nil]
  by_cases hb : b = []
  · subst hb; simp [write_nil]
  have hab : a ++ b ≠ [] := by simp [ha]
  rw [write_eq f a ha, write_eq _ b hb, write_eq f (a ++ b) hab]
  generalize hp : (if f.append then f.img.length else f.pos) = p
  have hlen : (splice f.img p a).length = max f.img.length (p + a.length) := splice_length _ _ _ ha
  have hp' : (if f.append then (splice f.img p a).length else p + a.length) = p + a.length := by
    cases hfa : f.append
    · simp
    · simp only [hfa, if_true] at hp
      simp only [if_true]; rw [hlen]; omega
  simp only [hp', splice_splice, List.length_append, Nat.add_assoc]

theorem writeAll_eq (f : Dest) (cs : List (List Nat)) : f.writeAll cs = f.write cs.flatten := by
  induction cs generalizing f with
  | nil => simp [Dest.writeAll, write_nil]
  | cons c cs ih =>
    have : f.writeAll (c :: cs) = (f.write c).writeAll cs := by simp [Dest.writeAll]
    rw [this, ih, write_write]; simp

theorem chunk_flatten (n : Nat) (hn : 0 < n) (data : List Nat) : (chunk n data).flatten = data := by
  induction h : data.length using Nat.strongRecOn generalizing data with
  | _ k ih =>
    rw [chunk]
    by_cases hd : data = []
    · simp [hd]
    · have hc : ¬ (n = 0 ∨ data = []) := by simp [hd]; omega
      rw [dif_neg hc, List.flatten_cons]
      have hlt : (data.drop n).length < k := by
        have : data.length ≠ 0 := fun h0 => hd (List.eq_nil_of_length_eq_zero h0)
        simp only [List.length_drop]; omega
      rw [ih _ hlt (data.drop n) rfl, List.take_append_drop]

theorem ndTofile_eq_write (f : Dest) (data : List Nat) : f.ndTofile data = f.write data := by
  by_cases h : data = []
  · subst h; cases f; simp [Dest.ndTofile, Dest.write, Dest.seek]
  · simp [Dest.ndTofile, Dest.write, h]

/-- what the kernel-copy rounds have achieved after any number of rounds -/
theorem copyRounds_inv (f0 : Dest) (d : Nat) (data : List Nat) (rs : List Nat) :
    ∀ (g : Dest) (c : Nat), c ≤ data.length →
      g = { f0 with img := splice f0.img d (data.take c) } →
      ∃ c', c' ≤ data.length ∧
        copyRounds g d data rs c = ({ f0 with img := splice f0.img d (data.take c') }, c') := by
  induction rs with
  | nil => intro g c hc hg; exact ⟨c, hc, by simp [copyRounds, hg]⟩
  | cons r rs ih =>
    intro g c hc hg
    simp only [copyRounds]
    by_cases h1 : data.length ≤ c
    · exact ⟨c, hc, by simp [h1, hg]⟩
    · by_cases h2 : min r (data.length - c) = 0
      · exact ⟨c, hc, by simp [h1, h2, hg]⟩
      · simp only [h1, h2, if_false]
        have hn : c + min r (data.length - c) ≤ data.length := by omega
        apply ih _ _ hn
        subst hg
        have hlen : (data.take c).length = c := by simp; omega
        simp only [Dest.pwrite]
        have := splice_splice f0.img d (data.take c) ((data.drop c).take (min r (data.length - c)))
        rw [hlen] at this
        rw [this, ← List.take_add]

theorem copyRange_eq_write (f : Dest) (data : List Nat) (rounds : List Nat) :
    f.copyRange data rounds = f.write data := by
  unfold Dest.copyRange
  cases hfa : f.append
  · -- kernel copy, then the rest through write
    obtain ⟨c, hc, hcr⟩ := copyRounds_inv f f.pos data rounds f 0 (Nat.zero_le _)
      (by cases f; simp [splice_nil])
    simp only [Bool.false_eq_true, if_false, hcr, writeAll_eq,
      chunk_flatten copyChunkSize (by decide)]
    by_cases hd : data = []
    · subst hd
      have : c = 0 := by simpa using hc
      subst this
      cases f; simp [Dest.seek, write_nil, splice_nil]
    · have hlen : (data.take c).length = c := by simp; omega
      by_cases hrest : data.drop c = []
      · -- everything was copied by the kernel
        have hcl : c = data.length := by
          have := congrArg List.length hrest
          simp at this; omega
        subst hcl
        rw [hrest, write_nil, write_eq f data hd]
        simp [Dest.seek, hfa]
      · rw [write_eq _ _ hrest, write_eq f data hd]
        simp only [Dest.seek, hfa, Bool.false_eq_true, if_false]
        have := splice_splice f.img f.pos (data.take c) (data.drop c)
        rw [hlen, List.take_append_drop] at this
        rw [this]
        have : f.pos + c + (data.drop c).length = f.pos + data.length := by
          simp only [List.length_drop]; omega
        rw [this]
  · -- append mode: EBADF, nothing copied, everything through write
    simp only [if_true, Nat.add_zero, List.drop_zero, writeAll_eq,
      chunk_flatten copyChunkSize (by decide)]
    cases f; simp [Dest.seek]

/-- every delivery mechanism performs exactly `write` -/
theorem deliver_eq_write (f : Dest) (path : Rep.Path) (data : List Nat) :
    f.deliver path data = f.write data := by
  cases path
  · rfl
  · exact ndTofile_eq_write f data
  · exact copyRange_eq_write f data _
  · simp [Dest.deliver, writeAll_eq, chunk_flatten copyChunkSize (by decide)]

/-! ### serialize / deserialize -/

/-- the data file a representation reads from (only external tensors have one) -/
def fileOf : Rep → Option (List Nat)
  | .external _ f => f
  | _ => none

theorem serializeRaw_ok (wf : WF d dims bw xs) {r : Rep} (h : Legal d dims bw xs r) :
    serializeRaw r = .ok { dataType := d.code, dims := dims, rawData := some (packLE bw xs) } := by
  have A := legal_agrees wf h
  simp [serializeRaw, A.dtype, A.tobytes, A.shape]

theorem serialize_roundtrip (wf : WF d dims bw xs) {r : Rep} (h : Legal d dims bw xs r) :
    ∃ p r', serialize r = .ok p ∧ deserialize p (fileOf r) = .ok r' ∧ Legal d dims bw xs r' := by
  have hraw : ∀ r0, Legal d dims bw xs r0 → serialize r0 = serializeRaw r0 →
      ∃ p r', serialize r0 = .ok p ∧ deserialize p (fileOf r0) = .ok r' ∧ Legal d dims bw xs r' := by
    intro r0 h0 hs
    refine ⟨{ dataType := d.code, dims := dims, rawData := some (packLE bw xs) },
      .proto { dataType := d.code, dims := dims, rawData := some (packLE bw xs) },
      by rw [hs]; exact serializeRaw_ok wf h0, by simp [deserialize], ?_⟩
    exact Legal.protoRaw _ rfl rfl rfl rfl
  cases h with
  | array elems hu hx => exact hraw _ (Legal.array elems hu hx) rfl
  | torch elems ht hu hx => exact hraw _ (Legal.torch elems ht hu hx) rfl
  | arrayMem be nd hnb h8 hc => exact hraw _ (Legal.arrayMem be nd hnb h8 hc) rfl
  | torchView pre elems post ht hu hx => exact hraw _ (Legal.torchView pre elems post ht hu hx) rfl
  | packed hb => exact hraw _ (Legal.packed hb) rfl
  | lazy inner hi => exact hraw _ (Legal.lazy inner hi) rfl
  | protoRaw p hd hdims hext hraw' =>
    exact ⟨p, .proto p, rfl, by simp [deserialize, hext], Legal.protoRaw p hd hdims hext hraw'⟩
  | protoInt32 ys hl hy => exact ⟨_, .proto _, rfl, by simp [deserialize], Legal.protoInt32 ys hl hy⟩
  | protoInt64 ys hd hy => exact ⟨_, .proto _, rfl, by simp [deserialize], Legal.protoInt64 ys hd hy⟩
  | protoUint64 hd => exact ⟨_, .proto _, rfl, by simp [deserialize], Legal.protoUint64 hd⟩
  | protoUint64as32 ys hd hy =>
    exact ⟨_, .proto _, rfl, by simp [deserialize], Legal.protoUint64as32 ys hd hy⟩
  | protoFloat hd => exact ⟨_, .proto _, rfl, by simp [deserialize], Legal.protoFloat hd⟩
  | protoComplex64 hd => exact ⟨_, .proto _, rfl, by simp [deserialize], Legal.protoComplex64 hd⟩
  | protoDouble hd => exact ⟨_, .proto _, rfl, by simp [deserialize], Legal.protoDouble hd⟩
  | protoComplex128 hd => exact ⟨_, .proto _, rfl, by simp [deserialize], Legal.protoComplex128 hd⟩
  | external e pre post hd hdims hoff hlen =>
    refine ⟨_, .external e (some (pre ++ packLE bw xs ++ post)), rfl, ?_,
      Legal.external e pre post hd hdims hoff hlen⟩
    simp [deserialize, fileOf, Proto.dtype, ofCode_code]

end IrVerif.TensorRepr

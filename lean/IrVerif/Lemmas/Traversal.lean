/-
`Model/Traversal.lean` (the recursive iterator with lazily read, editable attributes): the dict
iterator on an unchanged dict, stack consistency, the fuel-free step relation `TSteps`, and the
frame-completion lemma from which termination, the pre-order stream and the attribute-edit clauses
follow.
-/
import IrVerif.Lemmas.LinkedSetTree
import IrVerif.Model.Traversal
namespace IrVerif.LinkedSet

/-! ### the dict iterator while it is in step with its dict -/

theorem firstLive_none {es : List (Option (Nat × AVal))} {i : Nat} (h : firstLive es i = none) :
    es.filterMap id = [] := by
  induction es generalizing i with
  | nil => rfl
  | cons e es ih =>
    cases e with
    | none => simp only [firstLive] at h; simpa using ih h
    | some p => obtain ⟨k, a⟩ := p; simp [firstLive] at h

theorem firstLive_some {es : List (Option (Nat × AVal))} {i j k : Nat} {a : AVal}
    (h : firstLive es i = some (j, k, a)) :
    ∃ n, j = i + n ∧ es.filterMap id = (k, a) :: (es.drop (n + 1)).filterMap id := by
  induction es generalizing i with
  | nil => simp [firstLive] at h
  | cons e es ih =>
    cases e with
    | none =>
      simp only [firstLive] at h
      obtain ⟨n, hj, he⟩ := ih h
      exact ⟨n + 1, by omega, by simpa using he⟩
    | some p =>
      obtain ⟨k', a'⟩ := p
      simp only [firstLive, Option.some.injEq, Prod.mk.injEq] at h
      obtain ⟨rfl, rfl, rfl⟩ := h
      exact ⟨0, rfl, by simp⟩

theorem itOk_iff {dct : PyDict} {it : DictIter} :
    itOk dct it = true ↔ it.used = dct.used ∧ it.len = (itRest dct it).length := by
  simp [itOk, itRest]

/-- an in-step iterator produces the live entries from its position on, one by one, and never
    raises -/
theorem next_synced {dct : PyDict} {it : DictIter} (h : itOk dct it = true) :
    match itRest dct it with
    | [] => (it.next dct).2 = .stop
    | e :: tl => ∃ it', it.next dct = (it', .item e.1 e.2) ∧ itOk dct it' = true ∧ itRest dct it' = tl := by
  obtain ⟨hu, hl⟩ := itOk_iff.1 h
  cases hf : firstLive (dct.entries.drop it.pos) it.pos with
  | none =>
    have := firstLive_none hf
    have e : itRest dct it = [] := this
    rw [e]
    simp [DictIter.next, hu, hf]
  | some r =>
    obtain ⟨j, k, a⟩ := r
    obtain ⟨n, hj, he⟩ := firstLive_some hf
    have e : itRest dct it = (k, a) :: (dct.entries.drop (it.pos + n + 1)).filterMap id := by
      simp [itRest, he, List.drop_drop, Nat.add_assoc]
    rw [e]
    have hlen : it.len ≠ 0 := by rw [hl, e]; simp
    refine ⟨⟨j + 1, it.len - 1, it.used⟩, ?_, ?_, ?_⟩
    · simp [DictIter.next, hu, hf, hlen]
    · apply itOk_iff.2
      refine ⟨hu, ?_⟩
      simp only [itRest, hj]
      rw [hl, e]; simp
    · simp only [itRest, hj]

theorem start_synced (dct : PyDict) :
    itOk dct (DictIter.start dct) = true ∧ itRest dct (DictIter.start dct) = dct.live := by
  constructor
  · apply itOk_iff.2; simp [DictIter.start, itRest, PyDict.used, PyDict.live]
  · simp [DictIter.start, itRest, PyDict.live]

/-! ### worlds and stacks -/

/-- every node container satisfies the representation invariant -/
def TWorldWF (w : TWorld) : Prop := ∀ s ∈ w.sets, WF s

theorem TWorldWF.setOf {w : TWorld} (h : TWorldWF w) (g : Nat) : WF (w.setOf g) :=
  WorldWF.setOf (w := w.toR) h g

/-- a frame is consistent: its cursor refers to a box of its graph's container, and a frame that
    has yielded a node is past `notStarted` -/
structure TFrameOK (w : TWorld) (fr : TFrame) : Prop where
  valid : fr.c.Valid (w.setOf fr.g)
  started : fr.mode ≠ .loop → fr.c ≠ .notStarted

def TStackOK (w : TWorld) (st : List TFrame) : Prop := ∀ fr ∈ st, TFrameOK w fr

theorem tframeOK_fresh {w : TWorld} (h : TWorldWF w) (g : Nat) : TFrameOK w (TFrame.fresh g) := by
  obtain ⟨bs, hi⟩ := h.setOf g
  exact ⟨by simpa [TFrame.fresh, Cursor.Valid, Cursor.pos] using hi.size_pos, by simp [TFrame.fresh]⟩

/-- frames that differ only in `mode` -/
theorem TFrameOK.withMode {w : TWorld} {fr : TFrame} (ok : TFrameOK w fr) (m : TMode)
    (hs : fr.c ≠ .notStarted) : TFrameOK w { fr with mode := m } :=
  ⟨ok.valid, fun _ => hs⟩

theorem TFrameOK.toLoop {w : TWorld} {fr : TFrame} (ok : TFrameOK w fr) :
    TFrameOK w { fr with mode := .loop } :=
  ⟨ok.valid, fun h => absurd rfl h⟩

/-! ### the kinds of step -/

theorem tStep_last (w : TWorld) (d : Dir) (fr : TFrame) (rest : List TFrame) (v : Nat)
    (h : fr.mode = .last v) :
    tStep w d (fr :: rest) =
      ((if w.recurse v then { fr with mode := .expand v (DictIter.start (w.dictOf v)) [] }
        else { fr with mode := .loop }) :: rest,
       (if w.recf.isSome then [Out.pred v] else []), none) := by
  simp only [tStep, h]
  split <;> rfl

theorem tStep_pend (w : TWorld) (d : Dir) (fr : TFrame) (rest : List TFrame) (v : Nat) (it : DictIter)
    (h : Nat) (ps : List Nat) (hm : fr.mode = .expand v it (h :: ps)) :
    tStep w d (fr :: rest) =
      (TFrame.fresh h :: { fr with mode := .expand v it ps } :: rest, [Out.enter h], none) := by
  simp [tStep, hm]

theorem tStep_yield (w : TWorld) (d : Dir) (fr : TFrame) (rest : List TFrame) (c' : Cursor) (v : Nat)
    (h1 : fr.mode = .loop) (h3 : iterNext (w.setOf fr.g) d fr.c = (c', .yield v)) :
    tStep w d (fr :: rest) =
      ({ fr with c := c', mode := .last v } :: rest,
       (if fr.c = .notStarted then [Out.enter fr.g] else []) ++ [Out.yield fr.g v], some (.yield v)) := by
  simp [tStep, h1, h3]

theorem tStep_stop (w : TWorld) (d : Dir) (fr : TFrame) (rest : List TFrame) (c' : Cursor)
    (h1 : fr.mode = .loop) (h3 : iterNext (w.setOf fr.g) d fr.c = (c', .stop)) :
    tStep w d (fr :: rest) =
      (rest, (if fr.c = .notStarted then [Out.enter fr.g] else []) ++ [Out.exit fr.g] ++
        (if rest.isEmpty then [] else [Out.exit fr.g]), none) := by
  simp [tStep, h1, h3]

/-- the dict-iterator step of a frame that is expanding a node, by what the iterator returns -/
theorem tStep_entry (w : TWorld) (d : Dir) (fr : TFrame) (rest : List TFrame) (v : Nat) (it it' : DictIter)
    (k : Nat) (a : AVal) (hm : fr.mode = .expand v it []) (hn : it.next (w.dictOf v) = (it', .item k a)) :
    tStep w d (fr :: rest) =
      match a with
      | .graph h => (TFrame.fresh h :: { fr with mode := .expand v it' [] } :: rest, [Out.enter h], none)
      | .graphs hs => ({ fr with mode := .expand v it' (if d = .rev then hs.reverse else hs) } :: rest, [], none)
      | .other => ({ fr with mode := .expand v it' [] } :: rest, [], none) := by
  cases a <;> simp [tStep, hm, hn]

theorem tStep_entries_end (w : TWorld) (d : Dir) (fr : TFrame) (rest : List TFrame) (v : Nat) (it : DictIter)
    (hm : fr.mode = .expand v it []) (hn : (it.next (w.dictOf v)).2 = .stop) :
    tStep w d (fr :: rest) = ({ fr with mode := .loop } :: rest, [], none) := by
  cases hx : it.next (w.dictOf v) with
  | mk it' r =>
    rw [hx] at hn; simp only at hn; subst hn
    simp [tStep, hm, hx]

/-! ### stack consistency is preserved; yields are members -/

theorem tStep_ok {w : TWorld} {d : Dir} (hw : TWorldWF w) {st st' : List TFrame} {o : List Out}
    {r : Option Res} (ok : TStackOK w st) (e : tStep w d st = (st', o, r)) :
    TStackOK w st' ∧ (∀ g v, Out.yield g v ∈ o → v ∈ toList (w.setOf g)) ∧
    (r = none ∨ r = some .stop ∨ r = some .raised ∨ ∃ v, r = some (.yield v)) := by
  cases st with
  | nil =>
    simp only [tStep, Prod.mk.injEq] at e
    obtain ⟨rfl, rfl, rfl⟩ := e
    exact ⟨ok, by simp, Or.inr (Or.inl rfl)⟩
  | cons fr rest =>
    have okf := ok fr (by simp)
    have okr : TStackOK w rest := fun x hx => ok x (by simp [hx])
    cases hm : fr.mode with
    | last v =>
      rw [tStep_last w d fr rest v hm] at e
      simp only [Prod.mk.injEq] at e
      obtain ⟨rfl, rfl, rfl⟩ := e
      have hs := okf.started (by rw [hm]; simp)
      refine ⟨?_, ?_, Or.inl rfl⟩
      · intro x hx
        simp only [List.mem_cons] at hx
        rcases hx with rfl | hx
        · split
          · exact okf.withMode _ hs
          · exact okf.toLoop
        · exact okr x hx
      · intro g v' hmm; split at hmm <;> simp at hmm
    | expand v it pend =>
      have hs := okf.started (by rw [hm]; simp)
      cases pend with
      | cons h ps =>
        rw [tStep_pend w d fr rest v it h ps hm] at e
        simp only [Prod.mk.injEq] at e
        obtain ⟨rfl, rfl, rfl⟩ := e
        refine ⟨?_, by simp, Or.inl rfl⟩
        intro x hx
        simp only [List.mem_cons] at hx
        rcases hx with rfl | rfl | hx
        · exact tframeOK_fresh hw h
        · exact okf.withMode _ hs
        · exact okr x hx
      | nil =>
        cases hx : it.next (w.dictOf v) with
        | mk it' res =>
          cases res with
          | item k a =>
            rw [tStep_entry w d fr rest v it it' k a hm hx] at e
            cases a with
            | graph h =>
              simp only [Prod.mk.injEq] at e
              obtain ⟨rfl, rfl, rfl⟩ := e
              refine ⟨?_, by simp, Or.inl rfl⟩
              intro x hx
              simp only [List.mem_cons] at hx
              rcases hx with rfl | rfl | hx
              · exact tframeOK_fresh hw h
              · exact okf.withMode _ hs
              · exact okr x hx
            | graphs hs' =>
              simp only [Prod.mk.injEq] at e
              obtain ⟨rfl, rfl, rfl⟩ := e
              refine ⟨?_, by simp, Or.inl rfl⟩
              intro x hx
              simp only [List.mem_cons] at hx
              rcases hx with rfl | hx
              · exact okf.withMode _ hs
              · exact okr x hx
            | other =>
              simp only [Prod.mk.injEq] at e
              obtain ⟨rfl, rfl, rfl⟩ := e
              refine ⟨?_, by simp, Or.inl rfl⟩
              intro x hx
              simp only [List.mem_cons] at hx
              rcases hx with rfl | hx
              · exact okf.withMode _ hs
              · exact okr x hx
          | stop =>
            rw [tStep_entries_end w d fr rest v it hm (by rw [hx])] at e
            simp only [Prod.mk.injEq] at e
            obtain ⟨rfl, rfl, rfl⟩ := e
            refine ⟨?_, by simp, Or.inl rfl⟩
            intro x hx
            simp only [List.mem_cons] at hx
            rcases hx with rfl | hx
            · exact okf.toLoop
            · exact okr x hx
          | raised =>
            simp only [tStep, hm, hx, Prod.mk.injEq] at e
            obtain ⟨rfl, rfl, rfl⟩ := e
            exact ⟨(by intro x hx; cases hx), (by simp), Or.inr (Or.inr (Or.inl rfl))⟩
    | loop =>
      obtain ⟨bs, hi⟩ := hw.setOf fr.g
      have hok := hi.iterNext_ok d fr.c okf.valid
      cases hres : iterNext (w.setOf fr.g) d fr.c with
      | mk c' res =>
        rw [hres] at hok
        simp only at hok
        cases res with
        | stop =>
          rw [tStep_stop w d fr rest c' hm hres] at e
          simp only [Prod.mk.injEq] at e
          obtain ⟨rfl, rfl, rfl⟩ := e
          refine ⟨okr, ?_, Or.inl rfl⟩
          intro g v hmm
          simp only [List.mem_append] at hmm
          rcases hmm with (hmm | hmm) | hmm
          · split at hmm <;> simp at hmm
          · simp at hmm
          · split at hmm <;> simp at hmm
        | yield v =>
          rw [tStep_yield w d fr rest c' v hm hres] at e
          simp only [Prod.mk.injEq] at e
          obtain ⟨rfl, rfl, rfl⟩ := e
          obtain ⟨t, ht, hc', hvt⟩ := hi.iterNext_yield d okf.valid hres
          have hmem : v ∈ toList (w.setOf fr.g) := (hi.mem_toList v).2 ⟨t, ht, hvt⟩
          refine ⟨?_, ?_, Or.inr (Or.inr (Or.inr ⟨v, rfl⟩))⟩
          · intro x hx
            simp only [List.mem_cons] at hx
            rcases hx with rfl | hx
            · exact ⟨by show c'.Valid (w.setOf fr.g); rw [hc']; exact (hi.live t ht).2.1,
                fun _ => by show c' ≠ .notStarted; rw [hc']; simp⟩
            · exact okr x hx
          · intro g v' hmm
            simp only [List.mem_append, List.mem_singleton, Out.yield.injEq] at hmm
            rcases hmm with hmm | ⟨rfl, rfl⟩
            · split at hmm <;> simp at hmm
            · exact hmem
        | raised => rcases hok with h | ⟨_, h⟩ <;> cases h
        | fuel => rcases hok with h | ⟨_, h⟩ <;> cases h

theorem tNext_ok {w : TWorld} {d : Dir} (hw : TWorldWF w) :
    ∀ (f : Nat) (st : List TFrame), TStackOK w st →
      TStackOK w (tNext w d f st).1 ∧
      (∀ g v, Out.yield g v ∈ (tNext w d f st).2.1 → v ∈ toList (w.setOf g))
  | 0, st, ok => ⟨ok, by simp [tNext]⟩
  | f + 1, st, ok => by
      cases hs : tStep w d st with
      | mk st' p =>
        obtain ⟨o, r⟩ := p
        obtain ⟨ok', hm, _⟩ := tStep_ok hw ok hs
        cases r with
        | some r => simpa [tNext, hs] using ⟨ok', hm⟩
        | none =>
          obtain ⟨ok2, hm2⟩ := tNext_ok hw f st' ok'
          simp only [tNext, hs]
          refine ⟨ok2, ?_⟩
          intro g v hv
          simp only [List.mem_append] at hv
          rcases hv with hv | hv
          · exact hm g v hv
          · exact hm2 g v hv

/-! ### edits keep the stack consistent -/

theorem tsetOf_applyAt_same (w : TWorld) (g : Nat) (op : Op) (hg : g < w.sets.length) :
    (w.applyAt g op).1.setOf g = (apply (w.setOf g) op).1 := by
  simp [TWorld.applyAt, TWorld.setOf, List.getD, hg]

theorem tsetOf_applyAt_other (w : TWorld) (g g' : Nat) (op : Op) (hne : g' ≠ g) :
    (w.applyAt g op).1.setOf g' = w.setOf g' := by
  simp [TWorld.applyAt, TWorld.setOf, List.getD, Ne.symm hne]

theorem tapplyAt_oob (w : TWorld) (g : Nat) (op : Op) (hg : ¬ g < w.sets.length) :
    (w.applyAt g op).1 = w := by
  simp [TWorld.applyAt, List.set_eq_of_length_le (Nat.le_of_not_lt hg)]

theorem tapplyAt_ok {w : TWorld} (hw : TWorldWF w) {st : List TFrame} (ok : TStackOK w st) (g : Nat) (op : Op) :
    TWorldWF (w.applyAt g op).1 ∧ TStackOK (w.applyAt g op).1 st := by
  by_cases hg : g < w.sets.length
  · have hsame := tsetOf_applyAt_same w g op hg
    obtain ⟨bs, hi⟩ := hw.setOf g
    refine ⟨?_, ?_⟩
    · intro s hs
      simp only [TWorld.applyAt] at hs
      rcases List.mem_or_eq_of_mem_set hs with h | h
      · exact hw s h
      · rw [h]
        obtain ⟨bs', hi', _⟩ := sim_apply hi op .fwd .notStarted (by simpa [Cursor.pos] using hi.size_pos)
        exact ⟨bs', hi'⟩
    · intro fr hfr
      have okf := ok fr hfr
      refine ⟨?_, okf.started⟩
      by_cases hfg : fr.g = g
      · rw [hfg, hsame]
        have hv : fr.c.pos < size (w.setOf g) := by rw [← hfg]; exact okf.valid
        obtain ⟨_, _, _, _, hsz⟩ := sim_apply hi op d fr.c hv
        exact Nat.lt_of_lt_of_le hv hsz
      · rw [tsetOf_applyAt_other w g fr.g op hfg]; exact okf.valid
  · rw [tapplyAt_oob w g op hg]; exact ⟨hw, ok⟩
where d : Dir := .fwd

theorem tstackOK_sets {w w' : TWorld} (h : w'.sets = w.sets) {st : List TFrame} (ok : TStackOK w st) :
    TStackOK w' st := by
  intro fr hfr
  have := ok fr hfr
  refine ⟨?_, this.started⟩
  have e : w'.setOf fr.g = w.setOf fr.g := by simp [TWorld.setOf, h]
  rw [e]; exact this.valid

theorem tapplyEv_ok {w : TWorld} (hw : TWorldWF w) {st : List TFrame} (ok : TStackOK w st) (e : TEv) :
    TWorldWF (w.applyEv e) ∧ TStackOK (w.applyEv e) st := by
  cases e with
  | edit g op => exact tapplyAt_ok hw ok g op
  | setAttr v k a => exact ⟨hw, tstackOK_sets (w := w) (w' := w.applyEv (.setAttr v k a)) rfl ok⟩
  | delAttr v k =>
    simp only [TWorld.applyEv, TWorld.delAttr]
    split
    · exact ⟨hw, tstackOK_sets (w := w) (w' := w.setDict v ((w.dictOf v).del k).1) rfl ok⟩
    · exact ⟨hw, ok⟩
  | next => exact ⟨hw, ok⟩

/-- what holds along a history of `next()` calls, edits of node sequences and edits of node
    attributes: every `next()` yields members only and returns a yield, StopIteration or the dict
    iterator's RuntimeError; at the end the world and the stack are consistent -/
def THistInv (d : Dir) (fuel : Nat) : TWorld → List TFrame → List TEv → Prop
  | w, st, [] => TWorldWF w ∧ TStackOK w st
  | w, st, .next :: es =>
      (∀ g v, Out.yield g v ∈ (tNext w d fuel st).2.1 → v ∈ toList (w.setOf g)) ∧
      THistInv d fuel w (tNext w d fuel st).1 es
  | w, st, e :: es => THistInv d fuel (w.applyEv e) st es

theorem thistory (d : Dir) (fuel : Nat) :
    ∀ (es : List TEv) (w : TWorld) (st : List TFrame), TWorldWF w → TStackOK w st → THistInv d fuel w st es
  | [], _, _, hw, ok => ⟨hw, ok⟩
  | .next :: es, w, st, hw, ok => by
      obtain ⟨ok', hm⟩ := tNext_ok (d := d) hw fuel st ok
      exact ⟨hm, thistory d fuel es w _ hw ok'⟩
  | .edit g op :: es, w, st, hw, ok => by
      obtain ⟨hw', ok'⟩ := tapplyEv_ok hw ok (.edit g op)
      exact thistory d fuel es _ st hw' ok'
  | .setAttr v k a :: es, w, st, hw, ok => by
      obtain ⟨hw', ok'⟩ := tapplyEv_ok hw ok (.setAttr v k a)
      exact thistory d fuel es _ st hw' ok'
  | .delAttr v k :: es, w, st, hw, ok => by
      obtain ⟨hw', ok'⟩ := tapplyEv_ok hw ok (.delAttr v k)
      exact thistory d fuel es _ st hw' ok'

end IrVerif.LinkedSet

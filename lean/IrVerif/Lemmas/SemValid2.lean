/-
Lemmas/SemValid2.lean — OutputFixPass preserves `validModel` (the Identity nodes it appends have fresh outputs
above every id of the model and read values of the graph they are appended to).
-/
import IrVerif.Lemmas.SemValid
import IrVerif.Lemmas.SemOutputFix
namespace IrVerif.Passes
open IrVerif.Sem IrVerif.PassFlags

/-! ## appending node lists -/

theorem defsNodes_append' : ∀ (a b : List Node), defsNodes (a ++ b) = defsNodes a ++ defsNodes b
  | [], b => by simp [defsNodes]
  | n :: a, b => by simp [defsNodes, defsNodes_append' a b]

theorem refsNodes_append' : ∀ (a b : List Node), refsNodes (a ++ b) = refsNodes a ++ refsNodes b
  | [], b => by simp [refsNodes]
  | n :: a, b => by simp [refsNodes, refsNodes_append' a b]

theorem outsTop_append' : ∀ (a b : List Node), outsTop (a ++ b) = outsTop a ++ outsTop b
  | [], b => by simp [outsTop]
  | n :: a, b => by simp [outsTop, outsTop_append' a b]

theorem closedNodes_append' : ∀ (a b : List Node), closedNodes (a ++ b) = (closedNodes a && closedNodes b)
  | [], b => by simp [closedNodes]
  | n :: a, b => by simp [closedNodes, closedNodes_append' a b, Bool.and_assoc]

theorem scopedNodes_append' : ∀ (a b : List Node) (D : List VId),
    scopedNodes D (a ++ b) = (scopedNodes D a && scopedNodes (D ++ outsTop a) b)
  | [], b, D => by simp [scopedNodes, outsTop]
  | n :: a, b, D => by
    simp only [List.cons_append, scopedNodes, outsTop, scopedNodes_append' a b (D ++ n.outs), List.append_assoc,
      Bool.and_assoc]

/-- two node lists whose value ids are separated: the first defines values below `n1` or in `F`-free old ids,
    the second only values that the first neither defines nor reads -/
theorem ssaNodes_append' : ∀ (a b : List Node), (∀ w ∈ defsNodes a, w ∉ defsNodes b) →
    ssaNodes a = true → ssaNodes b = true → ssaNodes (a ++ b) = true
  | [], b, _, _, hb => by simpa using hb
  | n :: a, b, hd, ha, hb => by
    simp only [ssaNodes, Bool.and_eq_true, disj_iff] at ha
    simp only [defsNodes, List.mem_append] at hd
    simp only [List.cons_append, ssaNodes, Bool.and_eq_true, disj_iff, defsNodes_append', List.mem_append, not_or]
    exact ⟨⟨ha.1.1, fun x hx => ⟨ha.1.2 x hx, hd x (Or.inl hx)⟩⟩,
      ssaNodes_append' a b (fun w hw => hd w (Or.inr hw)) ha.2 hb⟩

theorem noFwdNodes_append' : ∀ (a b : List Node), (∀ w ∈ refsNodes a, w ∉ defsNodes b) →
    noFwdNodes a = true → noFwdNodes b = true → noFwdNodes (a ++ b) = true
  | [], b, _, _, hb => by simpa using hb
  | n :: a, b, hr, ha, hb => by
    simp only [noFwdNodes, Bool.and_eq_true, disj_iff] at ha
    simp only [refsNodes, List.mem_append] at hr
    have hrn : ∀ w ∈ refsN n, w ∉ defsNodes b := fun w hw => hr w (Or.inl hw)
    cases n with
    | mk op attrs ins outs bodies =>
    simp only [refsN, List.mem_append] at hrn
    simp only [Node.ins, Node.outs, Node.bodies] at ha
    simp only [List.cons_append, noFwdNodes, Bool.and_eq_true, disj_iff, Node.ins, Node.outs, Node.bodies]
    refine ⟨⟨⟨?_, ?_⟩, ha.1.2⟩, noFwdNodes_append' a b (fun w hw => hr w (Or.inr hw)) ha.2 hb⟩
    · intro x hx hx'
      have h0 := ha.1.1.1 x hx
      simp only [defsNodes, List.mem_append, defsNodes_append'] at h0 hx'
      rcases hx' with hx' | hx' | hx'
      · exact h0 (Or.inl hx')
      · exact h0 (Or.inr hx')
      · exact hrn x (Or.inl hx) hx'
    · intro x hx hx'
      have h0 := ha.1.1.2 x hx
      simp only [List.mem_append, defsNodes_append'] at h0 hx'
      rcases hx' with hx' | hx' | hx'
      · exact h0 (Or.inl hx')
      · exact h0 (Or.inr hx')
      · exact hrn x (Or.inr hx) hx'

/-! ## chains of Identity nodes with increasing fresh outputs -/

/-- `ns` = Identity nodes reading values that satisfy `S`, with strictly increasing outputs in `[lo, hi)` -/
inductive IdChain (S : VId → Prop) : Nat → List Node → Nat → Prop
  | nil {lo hi : Nat} : lo ≤ hi → IdChain S lo [] hi
  | cons {lo hi : Nat} {x y : VId} {ns : List Node} : S x → lo ≤ y → IdChain S (y + 1) ns hi →
      IdChain S lo (identityNode x y :: ns) hi

theorem IdChain.le {S : VId → Prop} {lo hi : Nat} {ns : List Node} (h : IdChain S lo ns hi) : lo ≤ hi := by
  induction h with
  | nil h => exact h
  | cons _ hy _ ih => exact Nat.le_trans hy (Nat.le_of_succ_le ih)

theorem IdChain.defs {S : VId → Prop} {lo hi : Nat} {ns : List Node} (h : IdChain S lo ns hi) :
    defsNodes ns = outsTop ns ∧ ∀ v ∈ outsTop ns, lo ≤ v ∧ v < hi := by
  induction h with
  | nil _ => exact ⟨rfl, fun _ h => by simp [outsTop] at h⟩
  | @cons lo hi x y ns _ hy hc ih =>
    refine ⟨by simp only [defsNodes, outsTop, identityNode, defsN, defsBodies, Node.outs, List.append_nil, ih.1], ?_⟩
    intro v hv
    simp only [outsTop, identityNode, Node.outs, List.mem_append, List.mem_singleton] at hv
    rcases hv with hv | hv
    · subst hv; exact ⟨hy, Nat.lt_of_succ_le hc.le⟩
    · exact ⟨Nat.le_trans hy (Nat.le_of_succ_le (ih.2 v hv).1), (ih.2 v hv).2⟩

theorem IdChain.refs {S : VId → Prop} {lo hi : Nat} {ns : List Node} (h : IdChain S lo ns hi) :
    ∀ v ∈ refsNodes ns, S v := by
  induction h with
  | nil _ => exact fun _ h => by simp [refsNodes] at h
  | cons hx _ _ ih =>
    intro v hv
    simp only [refsNodes, identityNode, refsN, refsBodies, List.append_nil, List.mem_append, List.filterMap_cons, id,
      List.filterMap_nil, List.mem_singleton] at hv
    rcases hv with hv | hv
    · subst hv; exact hx
    · exact ih v hv

theorem IdChain.wf {S : VId → Prop} {lo hi : Nat} {ns : List Node} (h : IdChain S lo ns hi) (hS : ∀ x, S x → x < lo) :
    ssaNodes ns = true ∧ closedNodes ns = true ∧ noFwdNodes ns = true := by
  induction h with
  | nil _ => exact ⟨rfl, rfl, rfl⟩
  | @cons lo hi x y ns hx hy hc ih =>
    obtain ⟨i1, i2, i3⟩ := ih (fun x hx => Nat.lt_succ_of_lt (Nat.lt_of_lt_of_le (hS x hx) hy))
    have hd := hc.defs
    refine ⟨?_, ?_, ?_⟩
    · simp only [ssaNodes, identityNode, ssaN, nodupB, defsN, defsBodies, ssaBodies, Bool.and_eq_true, disj_iff,
        List.append_nil, List.mem_singleton]
      refine ⟨⟨⟨⟨by simp, by simp⟩, trivial⟩, ?_⟩, i1⟩
      intro v hv hv'
      subst hv
      rw [hd.1] at hv'
      exact absurd (hd.2 v hv').1 (Nat.not_succ_le_self _)
    · simp only [closedNodes, identityNode, closedN, closedBodies, Bool.true_and]; exact i2
    · simp only [noFwdNodes, identityNode, noFwdN, noFwdBodies, Node.ins, Node.outs, Node.bodies, refsBodies,
        Bool.and_eq_true, disj_iff, List.not_mem_nil, false_imp_iff, implies_true, and_true, true_and]
      refine ⟨?_, i3⟩
      intro v hv hv'
      simp only [List.filterMap_cons, id, List.filterMap_nil, List.mem_singleton] at hv
      subst hv
      have hxl := hS v hx
      simp only [defsNodes, defsN, defsBodies, List.append_nil, List.mem_append, List.mem_singleton] at hv'
      rcases hv' with hv' | hv'
      · exact absurd (hv' ▸ hxl) (Nat.not_lt.2 hy)
      · rw [hd.1] at hv'
        exact absurd (Nat.lt_of_lt_of_le hxl hy) (Nat.not_lt.2 (Nat.le_of_succ_le (hd.2 v hv').1))

theorem IdChain.scoped {S : VId → Prop} {lo hi : Nat} {ns : List Node} (h : IdChain S lo ns hi) :
    ∀ D : List VId, (∀ x, S x → x ∈ D) → scopedNodes D ns = true := by
  induction h with
  | nil _ => exact fun _ _ => rfl
  | cons hx _ _ ih =>
    intro D hD
    simp only [scopedNodes, identityNode, scopedN, scopedBodies, Node.ins, Node.outs, Bool.and_eq_true, List.all_eq_true,
      List.contains_eq_mem, decide_eq_true_eq, List.filterMap_cons, id, List.filterMap_nil, List.mem_singleton,
      forall_eq, and_true]
    exact ⟨hD _ hx, ih _ (fun x hx => List.mem_append_left _ (hD x hx))⟩

theorem IdChain.mono {S S' : VId → Prop} {lo hi : Nat} {ns : List Node} (h : IdChain S lo ns hi) (hS : ∀ x, S x → S' x) :
    IdChain S' lo ns hi := by
  induction h with
  | nil h => exact .nil h
  | cons hx hy _ ih => exact .cons (hS _ hx) hy ih

theorem ofixMulti_chain (S : VId → Prop) : ∀ (outs seen : List VId) (next : Nat), (∀ o ∈ outs, S o) →
    IdChain S next (ofixMulti seen outs next).2.1 (ofixMulti seen outs next).2.2 ∧
    ∀ o ∈ (ofixMulti seen outs next).1, S o ∨ o ∈ outsTop (ofixMulti seen outs next).2.1
  | [], _, next, _ => by simp only [ofixMulti]; exact ⟨.nil (Nat.le_refl _), fun _ h => by simp at h⟩
  | o :: rest, seen, next, h => by
    have hrest : ∀ o' ∈ rest, S o' := fun o' ho' => h o' (List.mem_cons_of_mem _ ho')
    simp only [ofixMulti]
    split
    · obtain ⟨c, m⟩ := ofixMulti_chain S rest seen (next + 1) hrest
      refine ⟨.cons (h o (by simp)) (Nat.le_refl _) c, fun v hv => ?_⟩
      simp only [outsTop, identityNode, Node.outs, List.mem_append, List.mem_singleton]
      rcases List.mem_cons.1 hv with hv | hv
      · exact Or.inr (Or.inl hv)
      · exact (m v hv).imp id Or.inr
    · obtain ⟨c, m⟩ := ofixMulti_chain S rest (o :: seen) next hrest
      refine ⟨c, fun v hv => ?_⟩
      rcases List.mem_cons.1 hv with hv | hv
      · exact Or.inl (hv ▸ h o (by simp))
      · exact m v hv

theorem ofixDirect_chain (gi : List VId) (S : VId → Prop) : ∀ (outs : List VId) (next : Nat), (∀ o ∈ outs, S o) →
    IdChain S next (ofixDirect gi outs next).2.1 (ofixDirect gi outs next).2.2 ∧
    ∀ o ∈ (ofixDirect gi outs next).1, S o ∨ o ∈ outsTop (ofixDirect gi outs next).2.1
  | [], next, _ => by simp only [ofixDirect]; exact ⟨.nil (Nat.le_refl _), fun _ h => by simp at h⟩
  | o :: rest, next, h => by
    have hrest : ∀ o' ∈ rest, S o' := fun o' ho' => h o' (List.mem_cons_of_mem _ ho')
    simp only [ofixDirect]
    split
    · obtain ⟨c, m⟩ := ofixDirect_chain gi S rest (next + 1) hrest
      refine ⟨.cons (h o (by simp)) (Nat.le_refl _) c, fun v hv => ?_⟩
      simp only [outsTop, identityNode, Node.outs, List.mem_append, List.mem_singleton]
      rcases List.mem_cons.1 hv with hv | hv
      · exact Or.inr (Or.inl hv)
      · exact (m v hv).imp id Or.inr
    · obtain ⟨c, m⟩ := ofixDirect_chain gi S rest next hrest
      refine ⟨c, fun v hv => ?_⟩
      rcases List.mem_cons.1 hv with hv | hv
      · exact Or.inl (hv ▸ h o (by simp))
      · exact m v hv

/-! ## OutputFix -/

theorem ofixNodes_outsTop (gi : List VId) : ∀ (ns : List Node) (next : Nat), outsTop (ofixNodes gi next ns).1 = outsTop ns
  | [], _ => by simp [ofixNodes]
  | .mk op attrs ins outs bodies :: ns, next => by
    simp only [ofixNodes, outsTop, Node.outs, ofixNodes_outsTop gi ns]

/-- what the pass does to a graph / node list / list of graphs: still well-formed; every value it defines or reads
    is an old one or a fresh one from `[next, next')` -/
structure OfixWF (next nx : Nat) (s c f sc : Bool) (defs defs0 refs refs0 : List VId) : Prop where
  ssa : s = true
  closed : c = true
  nofwd : f = true
  sco : sc = true
  defs : ∀ v ∈ defs, v ∈ defs0 ∨ (next ≤ v ∧ v < nx)
  refs : ∀ v ∈ refs, v ∈ refs0 ∨ (next ≤ v ∧ v < nx)
  le : next ≤ nx

mutual
theorem ofixG_valid (gi : List VId) : ∀ (g : Graph) (next : Nat) (D : List VId), ssaG g = true → closedG g = true →
    noFwdG g = true → scopedG D g = true → (∀ v, (v ∈ refsG g ∨ v ∈ defsG g) → v < next) →
    OfixWF next (ofixG gi next g).2 (ssaG (ofixG gi next g).1) (closedG (ofixG gi next g).1) (noFwdG (ofixG gi next g).1)
      (scopedG D (ofixG gi next g).1) (defsG (ofixG gi next g).1) (defsG g) (refsG (ofixG gi next g).1) (refsG g)
  | .mk inputs outputs inits nodes, next, D, hs, hc, hf, hsc, hb => by
    simp only [ssaG, Bool.and_eq_true, nodupB_iff, disj_iff] at hs
    simp only [closedG, Bool.and_eq_true, List.all_eq_true, List.contains_eq_mem, decide_eq_true_eq] at hc
    simp only [noFwdG] at hf
    simp only [scopedG] at hsc
    simp only [refsG, defsG, List.mem_append] at hb
    have hn := ofixNodes_valid gi nodes next (D ++ inputs ++ inits.map Prod.fst) hs.2 hc.2 hf hsc
      (fun v hv => hb v (hv.imp Or.inr Or.inr))
    -- the two chains
    have hout : ∀ o ∈ outputs, o < (ofixNodes gi next nodes).2 := fun o ho =>
      Nat.lt_of_lt_of_le (hb o (Or.inl (Or.inl ho))) hn.le
    obtain ⟨c1, m1⟩ := ofixMulti_chain (· ∈ outputs) outputs [] (ofixNodes gi next nodes).2 (fun o ho => ho)
    obtain ⟨c2, m2⟩ := ofixDirect_chain gi (· ∈ (ofixMulti [] outputs (ofixNodes gi next nodes).2).1)
      (ofixMulti [] outputs (ofixNodes gi next nodes).2).1 (ofixMulti [] outputs (ofixNodes gi next nodes).2).2.2
      (fun o ho => ho)
    have hlt1 := ofixMulti_lt outputs [] (ofixNodes gi next nodes).2 hout
    obtain ⟨w1s, w1c, w1f⟩ := c1.wf hout
    obtain ⟨w2s, w2c, w2f⟩ := c2.wf hlt1
    have d1 := c1.defs
    have d2 := c2.defs
    obtain ⟨hnd', hmem'⟩ := foldl_moveToEnd (fixedInputs (ofixDirect gi (ofixMulti [] outputs (ofixNodes gi next nodes).2).1
      (ofixMulti [] outputs (ofixNodes gi next nodes).2).2.2).2.1) inits hs.1.1.2
    have hids : ∀ v, v ∈ ((fixedInputs (ofixDirect gi (ofixMulti [] outputs (ofixNodes gi next nodes).2).1
        (ofixMulti [] outputs (ofixNodes gi next nodes).2).2.2).2.1).foldl (fun acc o => moveToEnd o acc) inits).map Prod.fst ↔
        v ∈ inits.map Prod.fst := by
      intro v
      simp only [List.mem_map]
      constructor
      · rintro ⟨p, hp, rfl⟩; exact ⟨p, (hmem' p).1 hp, rfl⟩
      · rintro ⟨p, hp, rfl⟩; exact ⟨p, (hmem' p).2 hp, rfl⟩
    have hle1 := c1.le
    have hle2 := c2.le
    -- old values are below `next`
    have hold : ∀ v ∈ defsNodes (ofixNodes gi next nodes).1, v < (ofixNodes gi next nodes).2 := by
      intro v hv
      rcases hn.defs v hv with h | h
      · exact Nat.lt_of_lt_of_le (hb v (Or.inr (Or.inr h))) hn.le
      · exact h.2
    have holdr : ∀ v ∈ refsNodes (ofixNodes gi next nodes).1, v < (ofixNodes gi next nodes).2 := by
      intro v hv
      rcases hn.refs v hv with h | h
      · exact Nat.lt_of_lt_of_le (hb v (Or.inl (Or.inr h))) hn.le
      · exact h.2
    simp only [ofixG]
    refine ⟨?_, ?_, ?_, ?_, ?_, ?_, Nat.le_trans hn.le (Nat.le_trans hle1 hle2)⟩
    · -- SSA
      simp only [ssaG, Bool.and_eq_true, nodupB_iff, disj_iff]
      refine ⟨⟨⟨hs.1.1.1, hnd'⟩, ?_⟩, ?_⟩
      · intro x hx hx'
        have hxo : x ∈ inputs ++ inits.map Prod.fst := by
          rw [List.mem_append] at hx ⊢
          exact hx.imp id (hids x).1
        have hxlt : x < next := hb x (Or.inr (Or.inl (List.mem_append.1 hxo)))
        simp only [defsNodes_append', List.mem_append] at hx'
        rcases hx' with (hx' | hx') | hx'
        · rcases hn.defs x hx' with h | h
          · exact hs.1.2 x hxo h
          · exact absurd hxlt (Nat.not_lt.2 h.1)
        · rw [d1.1] at hx'
          exact absurd (Nat.lt_of_lt_of_le hxlt hn.le) (Nat.not_lt.2 (d1.2 x hx').1)
        · rw [d2.1] at hx'
          exact absurd (Nat.lt_of_lt_of_le hxlt (Nat.le_trans hn.le hle1)) (Nat.not_lt.2 (d2.2 x hx').1)
      · refine ssaNodes_append' _ _ ?_ (ssaNodes_append' _ _ ?_ hn.ssa w1s) w2s
        · intro w hw hw'
          rw [d2.1] at hw'
          simp only [defsNodes_append', List.mem_append] at hw
          rcases hw with hw | hw
          · exact absurd (Nat.lt_of_lt_of_le (hold w hw) hle1) (Nat.not_lt.2 (d2.2 w hw').1)
          · rw [d1.1] at hw
            exact absurd (d1.2 w hw).2 (Nat.not_lt.2 (d2.2 w hw').1)
        · intro w hw hw'
          rw [d1.1] at hw'
          exact absurd (hold w hw) (Nat.not_lt.2 (d1.2 w hw').1)
    · -- closed
      simp only [closedG, Bool.and_eq_true, List.all_eq_true, List.contains_eq_mem, decide_eq_true_eq,
        closedNodes_append', hn.closed, w1c, w2c, and_true]
      intro v hv
      simp only [List.mem_append, outsTop_append', ofixNodes_outsTop]
      rcases m2 v hv with h | h
      · rcases m1 v h with h' | h'
        · have := hc.1 v h'
          simp only [List.mem_append] at this
          rcases this with (h'' | h'') | h''
          · exact Or.inl (Or.inl h'')
          · exact Or.inl (Or.inr ((hids v).2 h''))
          · exact Or.inr (Or.inl (Or.inl h''))
        · exact Or.inr (Or.inl (Or.inr h'))
      · exact Or.inr (Or.inr h)
    · -- ordered
      simp only [noFwdG]
      refine noFwdNodes_append' _ _ ?_ (noFwdNodes_append' _ _ ?_ hn.nofwd w1f) w2f
      · intro w hw hw'
        rw [d2.1] at hw'
        simp only [refsNodes_append', List.mem_append] at hw
        rcases hw with hw | hw
        · exact absurd (Nat.lt_of_lt_of_le (holdr w hw) hle1) (Nat.not_lt.2 (d2.2 w hw').1)
        · exact absurd (Nat.lt_of_lt_of_le (hout w (c1.refs w hw)) hle1) (Nat.not_lt.2 (d2.2 w hw').1)
      · intro w hw hw'
        rw [d1.1] at hw'
        exact absurd (holdr w hw) (Nat.not_lt.2 (d1.2 w hw').1)
    · -- scoped
      simp only [scopedG, scopedNodes_append', Bool.and_eq_true]
      have hD : ∀ v ∈ D ++ inputs ++ inits.map Prod.fst, v ∈ D ++ inputs ++
          ((fixedInputs (ofixDirect gi (ofixMulti [] outputs (ofixNodes gi next nodes).2).1
          (ofixMulti [] outputs (ofixNodes gi next nodes).2).2.2).2.1).foldl (fun acc o => moveToEnd o acc) inits).map Prod.fst := by
        intro v hv
        simp only [List.mem_append] at hv ⊢
        exact hv.imp id (hids v).2
      have hS1 : ∀ x, x ∈ outputs → x ∈ (D ++ inputs ++ ((fixedInputs (ofixDirect gi (ofixMulti [] outputs (ofixNodes gi next nodes).2).1
          (ofixMulti [] outputs (ofixNodes gi next nodes).2).2.2).2.1).foldl (fun acc o => moveToEnd o acc) inits).map Prod.fst) ++
          outsTop (ofixNodes gi next nodes).1 := by
        intro x hx
        have := hc.1 x hx
        simp only [List.mem_append, ofixNodes_outsTop] at this ⊢
        rcases this with (h | h) | h
        · exact Or.inl (Or.inl (Or.inr h))
        · exact Or.inl (Or.inr ((hids x).2 h))
        · exact Or.inr h
      refine ⟨⟨scopedNodes_mono _ _ _ hD hn.sco, c1.scoped _ hS1⟩, c2.scoped _ (fun x hx => ?_)⟩
      rw [outsTop_append']
      rcases m1 x hx with h | h
      · have := hS1 x h
        simp only [List.mem_append] at this ⊢
        rcases this with h' | h'
        · exact Or.inl h'
        · exact Or.inr (Or.inl h')
      · simp only [List.mem_append]
        exact Or.inr (Or.inr h)
    · -- defs
      intro v hv
      simp only [defsG, defsNodes_append', List.mem_append] at hv ⊢
      rcases hv with (hv | hv) | ((hv | hv) | hv)
      · exact Or.inl (Or.inl (Or.inl hv))
      · exact Or.inl (Or.inl (Or.inr ((hids v).1 hv)))
      · rcases hn.defs v hv with h | h
        · exact Or.inl (Or.inr h)
        · exact Or.inr ⟨h.1, Nat.lt_of_lt_of_le h.2 (Nat.le_trans hle1 hle2)⟩
      · rw [d1.1] at hv
        exact Or.inr ⟨Nat.le_trans hn.le (d1.2 v hv).1, Nat.lt_of_lt_of_le (d1.2 v hv).2 hle2⟩
      · rw [d2.1] at hv
        exact Or.inr ⟨Nat.le_trans hn.le (Nat.le_trans hle1 (d2.2 v hv).1), (d2.2 v hv).2⟩
    · -- refs
      intro v hv
      simp only [refsG, refsNodes_append', List.mem_append] at hv ⊢
      have hfresh1 : ∀ v ∈ outsTop (ofixMulti [] outputs (ofixNodes gi next nodes).2).2.1,
          next ≤ v ∧ v < (ofixDirect gi (ofixMulti [] outputs (ofixNodes gi next nodes).2).1
            (ofixMulti [] outputs (ofixNodes gi next nodes).2).2.2).2.2 :=
        fun v hv => ⟨Nat.le_trans hn.le (d1.2 v hv).1, Nat.lt_of_lt_of_le (d1.2 v hv).2 hle2⟩
      have hm1 : ∀ v ∈ (ofixMulti [] outputs (ofixNodes gi next nodes).2).1, v ∈ outputs ∨
          (next ≤ v ∧ v < (ofixDirect gi (ofixMulti [] outputs (ofixNodes gi next nodes).2).1
            (ofixMulti [] outputs (ofixNodes gi next nodes).2).2.2).2.2) :=
        fun v hv => (m1 v hv).imp id (hfresh1 v)
      rcases hv with hv | ((hv | hv) | hv)
      · rcases m2 v hv with h | h
        · exact (hm1 v h).imp Or.inl id
        · exact Or.inr ⟨Nat.le_trans hn.le (Nat.le_trans hle1 (d2.2 v h).1), (d2.2 v h).2⟩
      · rcases hn.refs v hv with h | h
        · exact Or.inl (Or.inr h)
        · exact Or.inr ⟨h.1, Nat.lt_of_lt_of_le h.2 (Nat.le_trans hle1 hle2)⟩
      · exact Or.inl (Or.inl (c1.refs v hv))
      · exact (hm1 v (c2.refs v hv)).imp Or.inl id
theorem ofixNodes_valid (gi : List VId) : ∀ (ns : List Node) (next : Nat) (D : List VId), ssaNodes ns = true →
    closedNodes ns = true → noFwdNodes ns = true → scopedNodes D ns = true →
    (∀ v, (v ∈ refsNodes ns ∨ v ∈ defsNodes ns) → v < next) →
    OfixWF next (ofixNodes gi next ns).2 (ssaNodes (ofixNodes gi next ns).1) (closedNodes (ofixNodes gi next ns).1)
      (noFwdNodes (ofixNodes gi next ns).1) (scopedNodes D (ofixNodes gi next ns).1)
      (defsNodes (ofixNodes gi next ns).1) (defsNodes ns) (refsNodes (ofixNodes gi next ns).1) (refsNodes ns)
  | [], next, _, _, _, _, _, _ => by
    simp only [ofixNodes]
    exact ⟨rfl, rfl, rfl, rfl, fun _ h => Or.inl h, fun _ h => Or.inl h, Nat.le_refl _⟩
  | .mk op attrs ins outs bodies :: ns, next, D, hs, hc, hf, hsc, hb => by
    simp only [ssaNodes, ssaN, Bool.and_eq_true, disj_iff, nodupB_iff] at hs
    simp only [closedNodes, closedN, Bool.and_eq_true] at hc
    simp only [noFwdNodes, noFwdN, Bool.and_eq_true, disj_iff, Node.ins, Node.outs, Node.bodies] at hf
    simp only [scopedNodes, scopedN, Bool.and_eq_true, List.all_eq_true, List.contains_eq_mem, decide_eq_true_eq,
      Node.ins, Node.outs] at hsc
    simp only [refsNodes, refsN, defsNodes, defsN, List.mem_append] at hb
    have hbd := ofixBodies_valid gi bodies next D hs.1.1.2 hc.1 hf.1.2 hsc.1.2
      (fun v hv => hb v (hv.imp (fun h => Or.inl (Or.inr h)) (fun h => Or.inl (Or.inr h))))
    have hn := ofixNodes_valid gi ns (ofixBodies gi next bodies).2 (D ++ outs) hs.2 hc.2 hf.2 hsc.2
      (fun v hv => Nat.lt_of_lt_of_le (hb v (hv.imp Or.inr Or.inr)) hbd.le)
    have hlt : ∀ v, (v ∈ ins.filterMap id ∨ v ∈ outs ∨ v ∈ refsBodies bodies ∨ v ∈ defsBodies bodies ∨
        v ∈ refsNodes ns ∨ v ∈ defsNodes ns) → v < next := by
      intro v hv
      rcases hv with h | h | h | h | h | h
      · exact hb v (Or.inl (Or.inl (Or.inl h)))
      · exact hb v (Or.inr (Or.inl (Or.inl h)))
      · exact hb v (Or.inl (Or.inl (Or.inr h)))
      · exact hb v (Or.inr (Or.inl (Or.inr h)))
      · exact hb v (Or.inl (Or.inr h))
      · exact hb v (Or.inr (Or.inr h))
    simp only [ofixNodes]
    refine ⟨?_, ?_, ?_, ?_, ?_, ?_, Nat.le_trans hbd.le hn.le⟩
    · simp only [ssaNodes, ssaN, Bool.and_eq_true, disj_iff, nodupB_iff]
      refine ⟨⟨⟨⟨hs.1.1.1.1, fun x hx hx' => ?_⟩, hbd.ssa⟩, fun x hx hx' => ?_⟩, hn.ssa⟩
      · rcases hbd.defs x hx' with h | h
        · exact hs.1.1.1.2 x hx h
        · exact absurd (hlt x (Or.inr (Or.inl hx))) (Nat.not_lt.2 h.1)
      · simp only [defsN, List.mem_append] at hx
        have hxo : (x ∈ defsN (.mk op attrs ins outs bodies) ∧ x < next) ∨
            (next ≤ x ∧ x < (ofixBodies gi next bodies).2) := by
          rcases hx with hx | hx
          · exact Or.inl ⟨by simp only [defsN, List.mem_append]; exact Or.inl hx, hlt x (Or.inr (Or.inl hx))⟩
          · rcases hbd.defs x hx with h | h
            · exact Or.inl ⟨by simp only [defsN, List.mem_append]; exact Or.inr h,
                hlt x (Or.inr (Or.inr (Or.inr (Or.inl h))))⟩
            · exact Or.inr h
        rcases hn.defs x hx' with h | h
        · rcases hxo with h' | h'
          · exact hs.1.2 x h'.1 h
          · exact absurd (hlt x (Or.inr (Or.inr (Or.inr (Or.inr (Or.inr h)))))) (Nat.not_lt.2 h'.1)
        · rcases hxo with h' | h'
          · exact absurd (Nat.lt_of_lt_of_le h'.2 hbd.le) (Nat.not_lt.2 h.1)
          · exact absurd h'.2 (Nat.not_lt.2 h.1)
    · simp only [closedNodes, closedN, Bool.and_eq_true]; exact ⟨hbd.closed, hn.closed⟩
    · simp only [noFwdNodes, noFwdN, Bool.and_eq_true, disj_iff, Node.ins, Node.outs, Node.bodies]
      refine ⟨⟨⟨fun x hx hx' => ?_, fun x hx hx' => ?_⟩, hbd.nofwd⟩, hn.nofwd⟩
      · have hxl := hlt x (Or.inl hx)
        simp only [defsNodes, defsN, List.mem_append] at hx'
        rcases hx' with (hx' | hx') | hx'
        · exact hf.1.1.1 x hx (by simp only [defsNodes, defsN, List.mem_append]; exact Or.inl (Or.inl hx'))
        · rcases hbd.defs x hx' with h | h
          · exact hf.1.1.1 x hx (by simp only [defsNodes, defsN, List.mem_append]; exact Or.inl (Or.inr h))
          · exact absurd hxl (Nat.not_lt.2 h.1)
        · rcases hn.defs x hx' with h | h
          · exact hf.1.1.1 x hx (by simp only [defsNodes, defsN, List.mem_append]; exact Or.inr h)
          · exact absurd (Nat.lt_of_lt_of_le hxl hbd.le) (Nat.not_lt.2 h.1)
      · simp only [List.mem_append] at hx'
        rcases hbd.refs x hx with h | h
        · have hxl := hlt x (Or.inr (Or.inr (Or.inl h)))
          rcases hx' with hx' | hx'
          · exact hf.1.1.2 x h (List.mem_append_left _ hx')
          · rcases hn.defs x hx' with h' | h'
            · exact hf.1.1.2 x h (List.mem_append_right _ h')
            · exact absurd (Nat.lt_of_lt_of_le hxl hbd.le) (Nat.not_lt.2 h'.1)
        · rcases hx' with hx' | hx'
          · exact absurd (hlt x (Or.inr (Or.inl hx'))) (Nat.not_lt.2 h.1)
          · rcases hn.defs x hx' with h' | h'
            · exact absurd (hlt x (Or.inr (Or.inr (Or.inr (Or.inr (Or.inr h')))))) (Nat.not_lt.2 h.1)
            · exact absurd h.2 (Nat.not_lt.2 h'.1)
    · simp only [scopedNodes, scopedN, Bool.and_eq_true, List.all_eq_true, List.contains_eq_mem, decide_eq_true_eq,
        Node.ins, Node.outs]
      exact ⟨⟨hsc.1.1, hbd.sco⟩, hn.sco⟩
    · intro v hv
      simp only [defsNodes, defsN, List.mem_append] at hv ⊢
      rcases hv with (hv | hv) | hv
      · exact Or.inl (Or.inl (Or.inl hv))
      · rcases hbd.defs v hv with h | h
        · exact Or.inl (Or.inl (Or.inr h))
        · exact Or.inr ⟨h.1, Nat.lt_of_lt_of_le h.2 hn.le⟩
      · rcases hn.defs v hv with h | h
        · exact Or.inl (Or.inr h)
        · exact Or.inr ⟨Nat.le_trans hbd.le h.1, h.2⟩
    · intro v hv
      simp only [refsNodes, refsN, List.mem_append] at hv ⊢
      rcases hv with (hv | hv) | hv
      · exact Or.inl (Or.inl (Or.inl hv))
      · rcases hbd.refs v hv with h | h
        · exact Or.inl (Or.inl (Or.inr h))
        · exact Or.inr ⟨h.1, Nat.lt_of_lt_of_le h.2 hn.le⟩
      · rcases hn.refs v hv with h | h
        · exact Or.inl (Or.inr h)
        · exact Or.inr ⟨Nat.le_trans hbd.le h.1, h.2⟩
theorem ofixBodies_valid (gi : List VId) : ∀ (bs : List Graph) (next : Nat) (D : List VId), ssaBodies bs = true →
    closedBodies bs = true → noFwdBodies bs = true → scopedBodies D bs = true →
    (∀ v, (v ∈ refsBodies bs ∨ v ∈ defsBodies bs) → v < next) →
    OfixWF next (ofixBodies gi next bs).2 (ssaBodies (ofixBodies gi next bs).1) (closedBodies (ofixBodies gi next bs).1)
      (noFwdBodies (ofixBodies gi next bs).1) (scopedBodies D (ofixBodies gi next bs).1)
      (defsBodies (ofixBodies gi next bs).1) (defsBodies bs) (refsBodies (ofixBodies gi next bs).1) (refsBodies bs)
  | [], next, _, _, _, _, _, _ => by
    simp only [ofixBodies]
    exact ⟨rfl, rfl, rfl, rfl, fun _ h => Or.inl h, fun _ h => Or.inl h, Nat.le_refl _⟩
  | b :: bs, next, D, hs, hc, hf, hsc, hb => by
    simp only [ssaBodies, Bool.and_eq_true, disj_iff] at hs
    simp only [closedBodies, Bool.and_eq_true] at hc
    simp only [noFwdBodies, Bool.and_eq_true] at hf
    simp only [scopedBodies, Bool.and_eq_true] at hsc
    simp only [refsBodies, defsBodies, List.mem_append] at hb
    have hg := ofixG_valid gi b next D hs.1.1 hc.1 hf.1 hsc.1 (fun v hv => hb v (hv.imp Or.inl Or.inl))
    have hr := ofixBodies_valid gi bs (ofixG gi next b).2 D hs.2 hc.2 hf.2 hsc.2
      (fun v hv => Nat.lt_of_lt_of_le (hb v (hv.imp Or.inr Or.inr)) hg.le)
    simp only [ofixBodies]
    refine ⟨?_, ?_, ?_, ?_, ?_, ?_, Nat.le_trans hg.le hr.le⟩
    · simp only [ssaBodies, Bool.and_eq_true, disj_iff]
      refine ⟨⟨hg.ssa, fun x hx hx' => ?_⟩, hr.ssa⟩
      rcases hg.defs x hx with h | h <;> rcases hr.defs x hx' with h' | h'
      · exact hs.1.2 x h h'
      · exact absurd (Nat.lt_of_lt_of_le (hb x (Or.inr (Or.inl h))) hg.le) (Nat.not_lt.2 h'.1)
      · exact absurd (hb x (Or.inr (Or.inr h'))) (Nat.not_lt.2 h.1)
      · exact absurd h.2 (Nat.not_lt.2 h'.1)
    · simp only [closedBodies, Bool.and_eq_true]; exact ⟨hg.closed, hr.closed⟩
    · simp only [noFwdBodies, Bool.and_eq_true]; exact ⟨hg.nofwd, hr.nofwd⟩
    · simp only [scopedBodies, Bool.and_eq_true]; exact ⟨hg.sco, hr.sco⟩
    · intro v hv
      simp only [defsBodies, List.mem_append] at hv ⊢
      rcases hv with hv | hv
      · rcases hg.defs v hv with h | h
        · exact Or.inl (Or.inl h)
        · exact Or.inr ⟨h.1, Nat.lt_of_lt_of_le h.2 hr.le⟩
      · rcases hr.defs v hv with h | h
        · exact Or.inl (Or.inr h)
        · exact Or.inr ⟨Nat.le_trans hg.le h.1, h.2⟩
    · intro v hv
      simp only [refsBodies, List.mem_append] at hv ⊢
      rcases hv with hv | hv
      · rcases hg.refs v hv with h | h
        · exact Or.inl (Or.inl h)
        · exact Or.inr ⟨h.1, Nat.lt_of_lt_of_le h.2 hr.le⟩
      · rcases hr.refs v hv with h | h
        · exact Or.inl (Or.inr h)
        · exact Or.inr ⟨Nat.le_trans hg.le h.1, h.2⟩
end

theorem ofixG_validG (gi : List VId) (g : Graph) (next : Nat) (hv : validG g = true)
    (hb : ∀ v, (v ∈ refsG g ∨ v ∈ defsG g) → v < next) : validG (ofixG gi next g).1 = true := by
  rw [validG_iff'] at hv ⊢
  have h := ofixG_valid gi g next [] hv.1 hv.2.1 hv.2.2.1 hv.2.2.2 hb
  exact ⟨h.ssa, h.closed, h.nofwd, h.sco⟩

/-- the function bodies one after the other (they need not have disjoint value ids) -/
theorem ofixFuncs_valid (gi : List VId) : ∀ (fs : List Graph) (next : Nat), fs.all validG = true →
    (∀ v, (v ∈ refsBodies fs ∨ v ∈ defsBodies fs) → v < next) → (ofixBodies gi next fs).1.all validG = true
  | [], _, _, _ => by simp [ofixBodies]
  | f :: fs, next, hv, hb => by
    simp only [List.all_cons, Bool.and_eq_true] at hv
    simp only [refsBodies, defsBodies, List.mem_append] at hb
    simp only [ofixBodies, List.all_cons, Bool.and_eq_true]
    exact ⟨ofixG_validG gi f next hv.1 (fun v hv' => hb v (hv'.imp Or.inl Or.inl)),
      ofixFuncs_valid gi fs _ hv.2 (fun v hv' => Nat.lt_of_lt_of_le (hb v (hv'.imp Or.inr Or.inr)) (ofixG_mono gi f next))⟩

theorem ofixModel_valid (m : Model) (hv : validModel m = true) : validModel (ofixModel m) = true := by
  simp only [validModel, Bool.and_eq_true] at hv ⊢
  simp only [ofixModel]
  refine ⟨ofixG_validG _ m.graph (freshId m) hv.1 (fun v hv' => lt_freshId_of_mem m ?_),
    ofixFuncs_valid _ m.funcs _ hv.2 (fun v hv' => Nat.lt_of_lt_of_le (lt_freshId_of_mem m ?_) (ofixG_mono _ _ _))⟩
  · simp only [List.mem_append]
    rcases hv' with h | h
    · exact Or.inl (Or.inl (Or.inl h))
    · exact Or.inl (Or.inl (Or.inr h))
  · simp only [List.mem_append]
    rcases hv' with h | h
    · exact Or.inl (Or.inr h)
    · exact Or.inr h

end IrVerif.Passes

/-
C19 — the inliner's instantiation of a function-body node (`instNode`, i.e. `Cloner.clone_node` with a
value map that may hold `None`): helper development for `C19_inline_remap`.
-/
import IrVerif.Lemmas.Device
namespace IrVerif.Device

theorem olookup_mem {om : OMap} {a : VId} {t : Option VId} (h : olookup om a = some t) : (a, t) ∈ om := by
  unfold olookup at h
  cases hf : om.find? (fun p => decide (p.1 = a)) with
  | none => simp [hf] at h
  | some p =>
    simp [hf] at h
    have h1 := List.mem_of_find?_eq_some hf
    have h2 := List.find?_some hf
    simp at h2
    have : p = (a, t) := by cases p; simp_all
    rw [← this]; exact h1

theorem olookup_isSome_of_mem {om : OMap} {a : VId} {t : Option VId} (h : (a, t) ∈ om) :
    ∃ t', olookup om a = some t' := by
  unfold olookup
  cases hf : om.find? (fun p => decide (p.1 = a)) with
  | none =>
    rw [List.find?_eq_none] at hf
    have := hf (a, t) h
    simp at this
  | some p => exact ⟨p.2, rfl⟩

theorem olookup_append (l1 l2 : OMap) (a : VId) :
    olookup (l1 ++ l2) a = (olookup l1 a).or (olookup l2 a) := by
  unfold olookup
  rw [List.find?_append]
  cases List.find? (fun p => decide (p.1 = a)) l1 <;> simp

/-- the image of an input under the inliner's value map (`None` for a dropped formal) -/
def oimg (vm : OMap) (v : VId) : Option VId := (olookup vm v).getD none

/-- a successful `cloneInputsO` maps every input through `oimg` -/
theorem cloneInputsO_eq {vm : OMap} : ∀ {ins res : List (Option VId)},
    cloneInputsO vm ins = some res → res = ins.map (fun o => o.bind (oimg vm)) := by
  intro ins
  induction ins with
  | nil => intro res h; simp [cloneInputsO] at h; subst h; rfl
  | cons o rest ih =>
    intro res h
    cases o with
    | none =>
      simp only [cloneInputsO] at h
      cases hr : cloneInputsO vm rest with
      | none => simp [hr] at h
      | some r => simp [hr] at h; subst h; simp [ih hr]
    | some v0 =>
      simp only [cloneInputsO] at h
      cases hl : olookup vm v0 with
      | none => simp [hl] at h
      | some t =>
        simp only [hl] at h
        cases hr : cloneInputsO vm rest with
        | none => simp [hr] at h
        | some r => simp [hr] at h; subst h; simp [ih hr, oimg, hl]

/-- the input part of `io_map` -/
def inPartO (f : VId → Option VId) (ins : List (Option VId)) : OMap :=
  ((ins.zip (ins.map (fun o => o.bind f))).filterMap (fun p => match p.1 with
    | some a => some (a, p.2)
    | none => none)).reverse

theorem mem_inPartO {f : VId → Option VId} {ins : List (Option VId)} {a : VId} {t : Option VId} :
    (a, t) ∈ inPartO f ins ↔ some a ∈ ins ∧ t = f a := by
  unfold inPartO
  rw [List.mem_reverse]
  induction ins with
  | nil => simp
  | cons o rest ih =>
    cases o with
    | none =>
      simp only [List.map_cons, List.zip_cons_cons, List.filterMap_cons]
      rw [ih]; simp
    | some x =>
      simp only [List.map_cons, List.zip_cons_cons, List.filterMap_cons, Option.bind_some, List.mem_cons, Prod.mk.injEq]
      rw [ih]
      constructor
      · rintro (⟨rfl, rfl⟩ | ⟨h1, h2⟩)
        · exact ⟨Or.inl rfl, rfl⟩
        · exact ⟨Or.inr h1, h2⟩
      · rintro ⟨h1 | h1, h2⟩
        · cases h1; exact Or.inl ⟨rfl, h2⟩
        · exact Or.inr ⟨h1, h2⟩

theorem olookup_inPartO {f : VId → Option VId} {ins : List (Option VId)} (x : VId) :
    olookup (inPartO f ins) x = if some x ∈ ins then some (f x) else none := by
  cases hl : olookup (inPartO f ins) x with
  | some t =>
    have := mem_inPartO.mp (olookup_mem hl)
    simp [this.1, this.2]
  | none =>
    split
    · rename_i hx
      obtain ⟨t', ht'⟩ := olookup_isSome_of_mem (mem_inPartO.mpr ⟨hx, rfl⟩)
      rw [ht'] at hl; cases hl
    · rfl

/-- the output part of `io_map` -/
def outPartO (outs newOuts : List VId) : OMap := ((outs.zip newOuts).map (fun p => (p.1, some p.2))).reverse

theorem mem_outPartO {outs newOuts : List VId} {a : VId} {t : Option VId} (h : (a, t) ∈ outPartO outs newOuts) :
    a ∈ outs ∧ ∃ b ∈ newOuts, t = some b := by
  unfold outPartO at h
  rw [List.mem_reverse, List.mem_map] at h
  obtain ⟨p, hp, he⟩ := h
  simp only [Prod.mk.injEq] at he
  obtain ⟨rfl, rfl⟩ := he
  exact ⟨(List.of_mem_zip hp).1, p.2, (List.of_mem_zip hp).2, rfl⟩

theorem olookup_outPartO_of_mem {outs newOuts : List VId} (hlen : outs.length = newOuts.length) {a : VId}
    (ha : a ∈ outs) : ∃ b ∈ newOuts, olookup (outPartO outs newOuts) a = some (some b) := by
  have hfst : (outs.zip newOuts).map Prod.fst = outs := List.map_fst_zip (by omega)
  rw [← hfst] at ha
  simp only [List.mem_map] at ha
  obtain ⟨p, hp, hpa⟩ := ha
  have : (a, some p.2) ∈ outPartO outs newOuts := by
    unfold outPartO
    rw [List.mem_reverse, List.mem_map]
    exact ⟨p, hp, by simp [hpa]⟩
  obtain ⟨t', ht'⟩ := olookup_isSome_of_mem this
  obtain ⟨_, b, hb, rfl⟩ := mem_outPartO (olookup_mem ht')
  exact ⟨b, hb, ht'⟩

theorem olookup_outPartO_of_not_mem {outs newOuts : List VId} {a : VId} (ha : a ∉ outs) :
    olookup (outPartO outs newOuts) a = none := by
  cases hl : olookup (outPartO outs newOuts) a with
  | none => rfl
  | some t => exact absurd (mem_outPartO (olookup_mem hl)).1 ha

theorem ioMapO_eq (f : VId → Option VId) (ins : List (Option VId)) (outs newOuts : List VId) :
    ioMapO ins (ins.map (fun o => o.bind f)) outs newOuts = outPartO outs newOuts ++ inPartO f ins := rfl

/-- what the inliner's instantiation does to the annotations of a body node: see `C19_inline_remap` -/
theorem instNode_spec {vm : OMap} {nd nd' : NodeS} {base : Nat}
    (hio : ∀ nc ∈ nd.dev, ∀ s ∈ nc.specs, InIO nd s.value) (h : instNode vm nd base = some nd') :
    nd'.inputs = nd.inputs.map (fun o => o.bind (oimg vm)) ∧
    nd'.outputs = List.range' base nd.outputs.length ∧
    nd'.dev.map (·.cfg) = nd.dev.map (·.cfg) ∧ nd'.dev.map (·.stage) = nd.dev.map (·.stage) ∧
    (∀ nc' ∈ nd'.dev, ∀ s' ∈ nc'.specs, InIO nd' s'.value) ∧
    (∀ nc' ∈ nd'.dev, ∀ s' ∈ nc'.specs, ∃ nc ∈ nd.dev, nc.cfg = nc'.cfg ∧ ∃ s ∈ nc.specs,
      s'.device = s.device ∧ s'.dims = s.dims ∧
      ((s.value ∈ nd.outputs ∧ s'.value ∈ nd'.outputs) ∨ (s.value ∉ nd.outputs ∧ oimg vm s.value = some s'.value))) := by
  unfold instNode at h
  cases hci : cloneInputsO vm nd.inputs with
  | none => simp [hci] at h
  | some ins =>
    simp only [hci] at h
    split at h
    · cases h
    simp only [Option.some.injEq] at h
    have hins := cloneInputsO_eq hci
    subst hins
    subst h
    simp only
    have hlen : nd.outputs.length = (List.range' base nd.outputs.length).length := by simp
    have key : ∀ nc' ∈ remapDevO (ioMapO nd.inputs (nd.inputs.map (fun o => o.bind (oimg vm))) nd.outputs
        (List.range' base nd.outputs.length) ++ vm) nd.dev, ∀ s' ∈ nc'.specs,
        ∃ nc ∈ nd.dev, nc.cfg = nc'.cfg ∧ ∃ s ∈ nc.specs, s'.device = s.device ∧ s'.dims = s.dims ∧
        ((s.value ∈ nd.outputs ∧ s'.value ∈ List.range' base nd.outputs.length) ∨
         (s.value ∉ nd.outputs ∧ some s.value ∈ nd.inputs ∧ oimg vm s.value = some s'.value)) := by
      intro nc' hnc' s' hs'
      unfold remapDevO at hnc'
      simp only [List.mem_map] at hnc'
      obtain ⟨nc, hnc, rfl⟩ := hnc'
      simp only [List.mem_filterMap] at hs'
      obtain ⟨s, hs, hF⟩ := hs'
      refine ⟨nc, hnc, rfl, s, hs, ?_⟩
      have hv := hio nc hnc s hs
      rw [ioMapO_eq, List.append_assoc, olookup_append] at hF
      by_cases hvo : s.value ∈ nd.outputs
      · obtain ⟨b, hb, hl⟩ := olookup_outPartO_of_mem hlen hvo
        simp only [hl, Option.or_some] at hF
        cases hF
        exact ⟨rfl, rfl, Or.inl ⟨hvo, hb⟩⟩
      · have hvi : some s.value ∈ nd.inputs := by
          rcases hv with hv | hv
          · exact hv
          · exact absurd hv hvo
        rw [olookup_outPartO_of_not_mem hvo, olookup_append, olookup_inPartO] at hF
        simp only [hvi, if_true, Option.none_or, Option.some_or] at hF
        cases hi : oimg vm s.value with
        | none => simp [hi] at hF
        | some b =>
          simp only [hi, Option.some.injEq] at hF
          rw [← hF]
          refine ⟨?_, ?_, Or.inr ⟨hvo, hvi, ?_⟩⟩ <;> first | rfl | trivial
    refine ⟨by first | rfl | trivial, by first | rfl | trivial, ?_, ?_, ?_, ?_⟩
    · simp [remapDevO, List.map_map, Function.comp_def]
    · simp [remapDevO, List.map_map, Function.comp_def]
    · intro nc' hnc' s' hs'
      obtain ⟨nc, _, _, s, _, _, _, hc⟩ := key nc' hnc' s' hs'
      rcases hc with ⟨_, h2⟩ | ⟨_, hvi, hi⟩
      · exact Or.inr h2
      · left
        show some s'.value ∈ nd.inputs.map (fun o => o.bind (oimg vm))
        exact List.mem_map.mpr ⟨some s.value, hvi, by simp [hi]⟩
    · intro nc' hnc' s' hs'
      obtain ⟨nc, hnc, hc1, s, hs, hd1, hd2, hc⟩ := key nc' hnc' s' hs'
      refine ⟨nc, hnc, hc1, s, hs, hd1, hd2, ?_⟩
      rcases hc with h1 | ⟨h1, _, h3⟩
      · exact Or.inl h1
      · exact Or.inr ⟨h1, h3⟩

end IrVerif.Device

/-
Frame for the primary fields (info, const) of value cells and for the tensor store: a (sub)graph
deserialization never touches cells / tensors allocated before it started.
-/
import IrVerif.Lemmas.ScopeStruct
namespace IrVerif.Scope

/-- cells below `b` keep `info` and `const`; tensors allocated before keep everything -/
structure Prim (b : Nat) (st st' : Store) : Prop where
  cell : ∀ v, v < b → (st'.vals v).info = (st.vals v).info ∧ (st'.vals v).const = (st.vals v).const
  nt_le : st.nt ≤ st'.nt
  tens : ∀ t, t < st.nt → st'.tens t = st.tens t

theorem Prim.refl (b : Nat) (st : Store) : Prim b st st := ⟨fun _ _ => ⟨rfl, rfl⟩, Nat.le_refl _, fun _ _ => rfl⟩

theorem Prim.trans {b : Nat} {s1 s2 s3 : Store} (h1 : Prim b s1 s2) (h2 : Prim b s2 s3) : Prim b s1 s3 :=
  ⟨fun v hv => ⟨by rw [(h2.cell v hv).1, (h1.cell v hv).1], by rw [(h2.cell v hv).2, (h1.cell v hv).2]⟩,
    Nat.le_trans h1.nt_le h2.nt_le,
    fun t ht => by rw [h2.tens t (Nat.lt_of_lt_of_le ht h1.nt_le), h1.tens t ht]⟩

theorem Prim.weaken {b b' : Nat} {s1 s2 : Store} (h : Prim b s1 s2) (hb : b' ≤ b) : Prim b' s1 s2 :=
  ⟨fun v hv => h.cell v (Nat.lt_of_lt_of_le hv hb), h.nt_le, h.tens⟩

theorem Prim.alloc (b : Nat) (st : Store) (c : ValueS) (hb : b ≤ st.nv) : Prim b st (st.alloc c).1 :=
  ⟨fun v hv => by rw [alloc_vals_lt _ _ (Nat.lt_of_lt_of_le hv hb)]; exact ⟨rfl, rfl⟩, Nat.le_refl _, fun _ _ => rfl⟩

theorem Prim.modify (b : Nat) (st : Store) (v : Nat) (f : ValueS → ValueS) (hv : b ≤ v) : Prim b st (st.modify v f) :=
  ⟨fun w hw => by
    have : w ≠ v := by omega
    rw [modify_vals_ne _ _ _ this]; exact ⟨rfl, rfl⟩, Nat.le_refl _, fun _ _ => rfl⟩

theorem Prim.allocTensor (b : Nat) (st : Store) (t : TensorS) : Prim b st (st.allocTensor t).1 :=
  ⟨fun _ _ => ⟨rfl, rfl⟩, by simp [Store.allocTensor], fun i hi => by
    simp only [Store.allocTensor]
    have : i ≠ st.nt := by omega
    simp [this]⟩

theorem newNamed_prim (b : Nat) (st : Store) (vi : List (Name × Info)) (x : Name) (hb : b ≤ st.nv) :
    Prim b st (newNamed st vi x) := by
  unfold newNamed
  split
  · exact (Prim.alloc b st _ hb).trans (Prim.modify b _ _ _ hb)
  · exact Prim.alloc b st _ hb

theorem newInit_prim (b : Nat) (st : Store) (vi : List (Name × Info)) (t : TensorP) (tid : Nat) (hb : b ≤ st.nv) :
    Prim b st (newInit st vi t tid) := by
  unfold newInit
  split
  · exact (Prim.alloc b st _ hb).trans (Prim.modify b _ _ _ hb)
  · exact Prim.alloc b st _ hb

theorem deserInputs_prim (b : Nat) (is : List VInfoP) : ∀ (st : Store), b ≤ st.nv → Prim b st (deserInputs st is).1 := by
  induction is with
  | nil => intro st _; exact Prim.refl _ _
  | cons i is ih =>
    intro st hb
    simp only [deserInputs]
    exact (Prim.alloc b st _ hb).trans (ih _ (by simp; omega))

theorem deserInits_prim (b : Nat) (vi : List (Name × Info)) (ts : List TensorP) :
    ∀ (st : Store) (tbl : Table), TableGe b tbl → b ≤ st.nv → Prim b st (deserInits st tbl vi ts).1 := by
  induction ts with
  | nil => intro st tbl _ _; exact Prim.refl _ _
  | cons t ts ih =>
    intro st tbl hge hb
    simp only [deserInits]
    split
    · exact ih st tbl hge hb
    · split
      · rename_i v hv
        exact ((Prim.allocTensor b st _).trans (Prim.modify b _ v _ (hge _ (lookup_mem _ _ _ hv)))).trans
          (ih _ tbl hge hb)
      · have hq := (newInit_quiet (st.allocTensor { name := some t.name, data := t.data, ty := t.ty, sh := t.sh }).1
          vi t st.nt).2
        refine ((Prim.allocTensor b st _).trans (newInit_prim b _ vi t st.nt hb)).trans (ih _ _ ?_ ?_)
        · intro e he
          simp only [List.mem_cons] at he
          rcases he with rfl | he
          · exact hb
          · exact hge e he
        · rw [hq]; simp; omega

theorem declareOutputs_prim (b : Nat) (vi : List (Name × Info)) (xs : List Name) :
    ∀ (st : Store) (tbl : Table) (st' : Store) (tbl' : Table), b ≤ st.nv →
      declareOutputs st tbl vi xs = .ok (st', tbl') → Prim b st st' := by
  induction xs with
  | nil =>
    intro st tbl st' tbl' _ he
    simp only [declareOutputs, Except.ok.injEq, Prod.mk.injEq] at he
    obtain ⟨rfl, rfl⟩ := he
    exact Prim.refl _ _
  | cons x xs ih =>
    intro st tbl st' tbl' hb he
    simp only [declareOutputs] at he
    split at he
    · exact ih st tbl st' tbl' hb he
    · split at he
      · simp at he
      · have hq := (newNamed_quiet st vi x).2
        exact (newNamed_prim b st vi x hb).trans (ih _ _ st' tbl' (by omega) he)

theorem declareNodes_prim (b : Nat) (vi : List (Name × Info)) (ns : List NodeP) :
    ∀ (st : Store) (tbl : Table) (st' : Store) (tbl' : Table), b ≤ st.nv →
      declareNodes st tbl vi ns = .ok (st', tbl') → Prim b st st' := by
  induction ns with
  | nil =>
    intro st tbl st' tbl' _ he
    simp only [declareNodes, Except.ok.injEq, Prod.mk.injEq] at he
    obtain ⟨rfl, rfl⟩ := he
    exact Prim.refl _ _
  | cons n ns ih =>
    intro st tbl st' tbl' hb he
    simp only [declareNodes] at he
    split at he
    · simp at he
    · rename_i st1 tbl1 h1
      have p1 := declareOutputs_prim b vi n.outputs st tbl st1 tbl1 hb h1
      have hle : st.nv ≤ st1.nv := by
        -- counters only grow
        have key : ∀ (xs : List Name) (st : Store) (tbl : Table) (st' : Store) (tbl' : Table),
            declareOutputs st tbl vi xs = .ok (st', tbl') → st.nv ≤ st'.nv := by
          intro xs
          induction xs with
          | nil =>
            intro st tbl st' tbl' he
            simp only [declareOutputs, Except.ok.injEq, Prod.mk.injEq] at he
            obtain ⟨rfl, rfl⟩ := he
            exact Nat.le_refl _
          | cons x xs ih' =>
            intro st tbl st' tbl' he
            simp only [declareOutputs] at he
            split at he
            · exact ih' st tbl st' tbl' he
            · split at he
              · simp at he
              · have := ih' _ _ st' tbl' he
                have hq := (newNamed_quiet st vi x).2
                omega
        exact key n.outputs st tbl st1 tbl1 h1
      exact p1.trans (ih st1 tbl1 st' tbl' (Nat.le_trans hb hle) he)

theorem resolveInputs_prim (b : Nat) (outer : List Table) (vi : List (Name × Info)) (xs : List Name) :
    ∀ (st : Store) (top : Table), b ≤ st.nv → Prim b st (resolveInputs st top outer vi xs).1 := by
  induction xs with
  | nil => intro st top _; exact Prim.refl _ _
  | cons x xs ih =>
    intro st top hb
    simp only [resolveInputs]
    split
    · exact ih st top hb
    · split
      · exact ih st top hb
      · have hq := (newNamed_quiet st vi x).2
        exact (newNamed_prim b st vi x hb).trans (ih _ _ (by omega))

theorem lookupOutputs_prim (b : Nat) (top : Table) (xs : List Name) :
    ∀ (st st' : Store) (outs : List Nat), b ≤ st.nv → lookupOutputs st top xs = .ok (st', outs) → Prim b st st' := by
  induction xs with
  | nil =>
    intro st st' outs _ he
    simp only [lookupOutputs, Except.ok.injEq, Prod.mk.injEq] at he
    obtain ⟨rfl, rfl⟩ := he
    exact Prim.refl _ _
  | cons x xs ih =>
    intro st st' outs hb he
    simp only [lookupOutputs] at he
    split at he
    · split at he
      · simp at he
      · rename_i st2 vs h2
        simp only [Except.ok.injEq, Prod.mk.injEq] at he
        obtain ⟨rfl, _⟩ := he
        exact (Prim.alloc b st _ hb).trans (ih _ _ _ (by simp; omega) h2)
    · split at he
      · simp at he
      · split at he
        · simp at he
        · rename_i st1 vs h2
          simp only [Except.ok.injEq, Prod.mk.injEq] at he
          obtain ⟨rfl, _⟩ := he
          exact ih _ _ _ hb h2

theorem deserOutputs_prim (b : Nat) (tbl : Table) (os : List VInfoP) :
    ∀ (st : Store), TableGe b tbl → b ≤ st.nv → Prim b st (deserOutputs st tbl os).1 := by
  induction os with
  | nil => intro st _ _; exact Prim.refl _ _
  | cons o os ih =>
    intro st hge hb
    simp only [deserOutputs]
    split
    · rename_i v hv
      exact (Prim.modify b st v _ (hge _ (lookup_mem _ _ _ hv))).trans (ih _ hge hb)
    · exact (Prim.alloc b st _ hb).trans (ih _ hge (by simp; omega))

theorem mkNode_prim (b : Nat) (st : Store) (ins : List (Option Nat)) (outs : List Nat) (gs : List GraphT) :
    Prim b st (mkNode st ins outs gs).1 :=
  have h1 : ∀ (outs : List Nat) (st : Store) (n i : Nat),
      (setProducers st n i outs).tens = st.tens ∧ (setProducers st n i outs).nt = st.nt := by
    intro outs
    induction outs with
    | nil => intro st n i; exact ⟨rfl, rfl⟩
    | cons a r ih => intro st n i; simp only [setProducers]; exact ih _ _ _
  have h2 : ∀ (ins : List (Option Nat)) (st : Store) (n i : Nat),
      (addUses st n i ins).tens = st.tens ∧ (addUses st n i ins).nt = st.nt := by
    intro ins
    induction ins with
    | nil => intro st n i; exact ⟨rfl, rfl⟩
    | cons a r ih =>
      intro st n i
      cases a with
      | none => simp only [addUses]; exact ih _ _ _
      | some w => simp only [addUses]; exact ih _ _ _
  ⟨fun v _ => ⟨(mkNode_keeps st ins outs gs v).2.1, (mkNode_keeps st ins outs gs v).2.2.1⟩,
    by
      simp only [mkNode]
      show st.nt ≤ (addUses _ _ _ _).nt
      rw [(h2 _ _ _ _).2, (h1 _ _ _ _).2]; exact Nat.le_refl _,
    fun t _ => by
      simp only [mkNode]
      show (addUses _ _ _ _).tens t = _
      rw [(h2 _ _ _ _).1, (h1 _ _ _ _).1]⟩

theorem setOwner_tens (st : Store) (gid : Nat) (f : ValueS → ValueS) (vs : List Nat) :
    (setOwner st gid f vs).tens = st.tens ∧ (setOwner st gid f vs).nt = st.nt := by
  induction vs generalizing st with
  | nil => exact ⟨rfl, rfl⟩
  | cons a r ih => simp only [setOwner]; rw [(ih _).1, (ih _).2]; exact ⟨rfl, rfl⟩

theorem mkGraph_prim (b : Nat) (st : Store) (ins outs : List Nat) (ns : List NodeT) (iv : List Nat) :
    Prim b st (mkGraph st ins outs ns iv).1 := by
  have h3 := setOwner_tens (setOwner (setOwner st st.ng (fun c => { c with isIn := true }) ins) st.ng
    (fun c => { c with isOut := true }) outs) st.ng (fun c => { c with isInit := true })
    ((initDict (setOwner (setOwner st st.ng (fun c => { c with isIn := true }) ins) st.ng
      (fun c => { c with isOut := true }) outs) [] iv).map (·.2))
  have h2 := setOwner_tens (setOwner st st.ng (fun c => { c with isIn := true }) ins) st.ng
    (fun c => { c with isOut := true }) outs
  have h1 := setOwner_tens st st.ng (fun c => { c with isIn := true }) ins
  refine ⟨fun v _ => ?_, ?_, fun t _ => ?_⟩
  · have key : ∀ (st : Store) (gid : Nat) (f : ValueS → ValueS), (∀ c, (f c).info = c.info ∧ (f c).const = c.const) →
        ∀ (vs : List Nat) (v : Nat), ((setOwner st gid f vs).vals v).info = (st.vals v).info ∧
          ((setOwner st gid f vs).vals v).const = (st.vals v).const := by
      intro st gid f hf vs
      induction vs generalizing st with
      | nil => intro v; exact ⟨rfl, rfl⟩
      | cons a r ih =>
        intro v
        simp only [setOwner]
        rw [(ih _ v).1, (ih _ v).2, modify_vals]
        split
        · exact hf _
        · exact ⟨rfl, rfl⟩
    show ((setOwner _ _ _ _).vals v).info = _ ∧ ((setOwner _ _ _ _).vals v).const = _
    have k3 := key (setOwner (setOwner st st.ng (fun c => { c with isIn := true }) ins) st.ng
      (fun c => { c with isOut := true }) outs) st.ng (fun c => { c with isInit := true }) (fun _ => ⟨rfl, rfl⟩)
      ((initDict (setOwner (setOwner st st.ng (fun c => { c with isIn := true }) ins) st.ng
        (fun c => { c with isOut := true }) outs) [] iv).map (·.2)) v
    have k2 := key (setOwner st st.ng (fun c => { c with isIn := true }) ins) st.ng
      (fun c => { c with isOut := true }) (fun _ => ⟨rfl, rfl⟩) outs v
    have k1 := key st st.ng (fun c => { c with isIn := true }) (fun _ => ⟨rfl, rfl⟩) ins v
    exact ⟨by rw [k3.1, k2.1, k1.1], by rw [k3.2, k2.2, k1.2]⟩
  · show st.nt ≤ (setOwner _ _ _ _).nt
    rw [h3.2, h2.2, h1.2]; exact Nat.le_refl _
  · show (setOwner _ _ _ _).tens t = _
    rw [h3.1, h2.1, h1.1]

/-! ### the mutual induction -/

mutual
theorem deserGraph_prim :
    ∀ (p : GraphP) (st : Store) (outer : List Table) (st' : Store) (g : GraphT),
      Fresh st → TablesLt st outer → deserGraph st outer p = .ok (st', g) → Prim st.nv st st'
  | .mk inputs inits vinfo nodes outputs, st, outer, st', g, hf, ho, h => by
    obtain ⟨st3, tbl3, st4, tbl4, ns, h3, h4, h5⟩ := deserGraph_inv h
    obtain ⟨q1, _, _⟩ := deserInputs_spec st inputs
    have ok1 := inputTable_ok st inputs
    have f1 := q1.fresh hf
    obtain ⟨q2, ok2, _, _⟩ := deserInits_spec (vinfoTable vinfo) inits _ _ st.nv ok1 q1.nv_le
    have f2 := q2.fresh f1
    have le2 : st.nv ≤ (deserInits (deserInputs st inputs).1 (inputTable inputs (deserInputs st inputs).2)
        (vinfoTable vinfo) inits).1.nv := Nat.le_trans q1.nv_le q2.nv_le
    obtain ⟨q3, ok3, _, _, _⟩ := declareNodes_spec (vinfoTable vinfo) nodes _ _ st.nv st3 tbl3 ok2 le2 h3
    have f3 := q3.fresh f2
    have le3 : st.nv ≤ st3.nv := Nat.le_trans le2 q3.nv_le
    obtain ⟨_, m4, ok4, _⟩ := deserNodes_struct nodes st3 tbl3 outer (vinfoTable vinfo) st.nv st4 tbl4 ns f3 ok3
      (ho.mono le3) le3 h4
    have p1 := deserInputs_prim st.nv inputs st (Nat.le_refl _)
    have p2 := deserInits_prim st.nv (vinfoTable vinfo) inits _ _ ok1.ge q1.nv_le
    have p3 := declareNodes_prim st.nv (vinfoTable vinfo) nodes _ _ st3 tbl3 le2 h3
    have p4 := deserNodes_prim nodes st3 tbl3 outer (vinfoTable vinfo) st.nv st4 tbl4 ns f3 ok3 (ho.mono le3) le3 h4
    have p5 := deserOutputs_prim st.nv tbl4 outputs st4 ok4.ge (Nat.le_trans le3 m4.nv_le)
    have e1 : st' = (mkGraph (deserOutputs st4 tbl4 outputs).1 (deserInputs st inputs).2
        (deserOutputs st4 tbl4 outputs).2 ns (deserInits (deserInputs st inputs).1
          (inputTable inputs (deserInputs st inputs).2) (vinfoTable vinfo) inits).2.2).1 := by rw [h5]
    rw [e1]
    exact ((((p1.trans p2).trans p3).trans p4).trans p5).trans (mkGraph_prim _ _ _ _ _ _)
theorem deserNodes_prim :
    ∀ (ns : List NodeP) (st : Store) (top : Table) (outer : List Table) (vi : List (Name × Info)) (b : Nat)
      (st' : Store) (top' : Table) (nts : List NodeT),
      Fresh st → TblOK st b top → TablesLt st outer → b ≤ st.nv →
      deserNodes st top outer vi ns = .ok (st', top', nts) → Prim b st st'
  | [], st, top, outer, vi, b, st', top', nts, _, _, _, _, h => by
    simp only [deserNodes, Except.ok.injEq, Prod.mk.injEq] at h
    obtain ⟨rfl, rfl, rfl⟩ := h
    exact Prim.refl _ _
  | n :: ns, st, top, outer, vi, b, st', top', nts, hf, hok, ho, hb, h => by
    obtain ⟨st1, top1, nt, nts', h1, h2, _⟩ := deserNodes_inv h
    obtain ⟨f1, m1, ok1, _⟩ := deserNode_struct n st top outer vi b st1 top1 nt hf hok ho hb h1
    have p1 := deserNode_prim n st top outer vi b st1 top1 nt hf hok ho hb h1
    have p2 := deserNodes_prim ns st1 top1 outer vi b st' top' nts' f1 ok1 (ho.mono m1.nv_le)
      (Nat.le_trans hb m1.nv_le) h2
    exact p1.trans p2
theorem deserNode_prim :
    ∀ (n : NodeP) (st : Store) (top : Table) (outer : List Table) (vi : List (Name × Info)) (b : Nat)
      (st' : Store) (top' : Table) (nt : NodeT),
      Fresh st → TblOK st b top → TablesLt st outer → b ≤ st.nv →
      deserNode st top outer vi n = .ok (st', top', nt) → Prim b st st'
  | .mk inputs outputs subs, st, top, outer, vi, b, st', top', nt, hf, hok, ho, hb, h => by
    obtain ⟨st2, outs, st3, gs, h2, h3, rfl, rfl, _⟩ := deserNode_inv h
    obtain ⟨q1, ok1, _, _⟩ := resolveInputs_spec outer vi inputs st top b hok ho hb
    have f1 := q1.fresh hf
    obtain ⟨q2, _, _, _, _⟩ := lookupOutputs_spec _ outputs _ _ _ h2
    have f2 := q2.fresh f1
    have le1 : b ≤ (resolveInputs st top outer vi inputs).1.nv := Nat.le_trans hb q1.nv_le
    have le2 : b ≤ st2.nv := Nat.le_trans le1 q2.nv_le
    have hts : TablesLt st2 ((resolveInputs st top outer vi inputs).2.1 :: outer) :=
      TablesLt.cons (ok1.lt.mono q2.nv_le) (ho.mono (Nat.le_trans q1.nv_le q2.nv_le))
    have p1 := resolveInputs_prim b outer vi inputs st top hb
    have p2 := lookupOutputs_prim b _ outputs _ _ _ le1 h2
    have p3 := (deserSubs_prim subs st2 _ st3 gs f2 hts h3).weaken le2
    exact ((p1.trans p2).trans p3).trans (mkNode_prim b st3 _ outs gs)
theorem deserSubs_prim :
    ∀ (gs : List GraphP) (st : Store) (scopes : List Table) (st' : Store) (gts : List GraphT),
      Fresh st → TablesLt st scopes → deserSubs st scopes gs = .ok (st', gts) → Prim st.nv st st'
  | [], st, scopes, st', gts, _, _, h => by
    simp only [deserSubs, Except.ok.injEq, Prod.mk.injEq] at h
    obtain ⟨rfl, rfl⟩ := h
    exact Prim.refl _ _
  | g :: gs, st, scopes, st', gts, hf, hs, h => by
    obtain ⟨st1, gt, gts', h1, h2, _⟩ := deserSubs_inv h
    obtain ⟨f1, m1⟩ := deserGraph_struct g st scopes st1 gt hf hs h1
    have p1 := deserGraph_prim g st scopes st1 gt hf hs h1
    have p2 := deserSubs_prim gs st1 scopes st' gts' f1 (hs.mono m1.nv_le) h2
    exact p1.trans (p2.weaken m1.nv_le)
end

end IrVerif.Scope

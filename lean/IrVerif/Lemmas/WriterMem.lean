/-
C09: the memory bound from the code's own reservation rule.  `planArgs` (Model/WriterPlan.lean) computes the
reservation of every tensor with `reservationBytes` = `_reservation_bytes`; the copy loop of
`ExternalTensor.tofile` never holds a buffer larger than that reservation, an in-memory tensor holds exactly its
`nbytes`; the configuration keeps the tensors (reservation, bytes) in input order.
-/
import IrVerif.Lemmas.WriterLayoutShards
import IrVerif.Lemmas.WriterNLocks
namespace IrVerif.WriterN

/-! ### the copy loop -/

theorem copyReads_le (chunk : Nat) : ∀ (fuel rem : Nat), ∀ k ∈ copyReads chunk fuel rem, k ≤ min rem chunk
  | 0, _ => by intro k h; simp [copyReads] at h
  | fuel + 1, rem => by
      intro k h
      simp only [copyReads] at h
      split at h
      · simp at h
      · split at h
        · simp at h
        · rcases List.mem_cons.1 h with rfl | h
          · omega
          · have := copyReads_le chunk fuel _ k h; omega

/-- with a positive chunk size the loop copies everything -/
theorem copyReads_sum (chunk : Nat) (hc : 0 < chunk) : ∀ (fuel rem : Nat), rem ≤ fuel →
    (copyReads chunk fuel rem).sum = rem
  | 0, rem, h => by simp [copyReads]; omega
  | fuel + 1, rem, h => by
      simp only [copyReads]
      split
      · simp; omega
      · split
        · omega
        · rw [List.sum_cons, copyReads_sum chunk hc fuel _ (by omega)]; omega

theorem foldr_max_le (l : List Nat) (b : Nat) (h : ∀ k ∈ l, k ≤ b) : l.foldr max 0 ≤ b := by
  induction l with
  | nil => simp
  | cons x xs ih =>
      simp only [List.foldr_cons]
      have := h x (List.mem_cons_self ..)
      have := ih (fun k hk => h k (List.mem_cons_of_mem _ hk))
      omega

/-- what a writer holds never exceeds what `_reservation_bytes` reserves for it -/
theorem peak_le_reservation (chunk : Nat) (a : TArg) :
    peakBytes chunk a ≤ reservationBytes chunk a.external a.data.length := by
  simp only [peakBytes, reservationBytes]
  split
  · exact foldr_max_le _ _ (copyReads_le chunk _ _)
  · exact Nat.le_refl _

theorem reservation_le_nbytes (chunk : Nat) (external : Bool) (len : Nat) :
    reservationBytes chunk external len ≤ len := by
  simp only [reservationBytes]; split <;> omega

/-! ### the configuration keeps the tensor arguments in input order -/

def specOf (t : Tensor) : TSpec := ⟨t.obj, t.size, t.fails, t.cbFails, t.data⟩

theorem placeZip_spec (file : Nat) (jobOf : Nat → Nat) : ∀ (infs : List Layout.Info) (sh : List TSpec) (k : Nat),
    infs.length = sh.length → (placeZip file jobOf k infs sh).map specOf = sh
  | [], [], _, _ => rfl
  | [], _ :: _, _, h => by simp at h
  | _ :: _, [], _, h => by simp at h
  | _ :: infs, t :: sh, k, h => by
      simp only [placeZip, List.map_cons, specOf]
      rw [placeZip_spec file jobOf infs sh (k + 1) (by simpa using h)]

theorem placeFile_spec (al : Option Nat) (athr : Nat) (file : Nat) (jobOf : Nat → Nat) (sh : List TSpec) :
    (placeFile al athr file jobOf sh).map specOf = sh := by
  apply placeZip_spec
  simp [fileInfos, Layout.computeInfos, Layout.computeInfosFrom_length]

theorem planShards_spec (al : Option Nat) (athr : Nat) (S wps : Nat) :
    ∀ (shards : List (List TSpec)) (j st np nj : Nat),
      (planShards al athr S wps j st np nj shards).tensors.map specOf = shards.flatten
  | [], _, _, _, _ => by simp [planShards]
  | sh :: rest, j, st, np, nj => by
      rw [ps_tensors, List.map_append, placeFile_spec, planShards_spec al athr S wps rest]
      simp

theorem planCfg_spec {ts : List TSpec} {maxShard al : Option Nat} {athr workers capacity : Nat} {cfg : Cfg}
    (h : planCfg ts maxShard al athr workers capacity = some cfg) :
    cfg.tensors.map specOf = ts ∧ cfg.capacity = max capacity 1 := by
  simp only [planCfg] at h
  split at h
  · split at h
    · cases h; exact ⟨placeFile_spec al athr 0 _ ts, rfl⟩
    · simp at h
  · split at h
    · cases h
      refine ⟨?_, rfl⟩
      show (planShards _ _ _ _ 0 0 0 0 _).tensors.map specOf = ts
      rw [planShards_spec, shardsOf_flatten]
    · simp at h

theorem size_of_spec {cfg : Cfg} {ts : List TSpec} (h : cfg.tensors.map specOf = ts) (i : Nat) :
    cfg.size i = (ts.getD i default).size ∧ (cfg.data i) = (ts.getD i default).data := by
  subst h
  simp only [Cfg.size, Cfg.data, List.getD_eq_getElem?_getD, List.getElem?_map]
  cases cfg.tensors[i]? <;> exact ⟨rfl, rfl⟩

theorem getD_map_spec (chunk : Nat) (args : List TArg) (i : Nat) :
    (args.map (TArg.spec chunk)).getD i default = TArg.spec chunk (args.getD i default) := by
  simp only [List.getD_eq_getElem?_getD, List.getElem?_map]
  cases args[i]? with
  | none => simp [TArg.spec, reservationBytes]; rfl
  | some a => rfl

/-! ### what is held in a state -/

/-- userspace bytes held by all threads that are between `budget.acquire` and `budget.release` -/
def heldBytes (chunk : Nat) (args : List TArg) (s : State) : Nat :=
  wsum (fun i p => if holds p = true then peakBytes chunk (args.getD i default) else 0) 0 s.tasks

/-- `max(tensor.nbytes)` -/
def maxNbytes (args : List TArg) : Nat := args.foldr (fun a m => max a.data.length m) 0

theorem nbytes_le_max (args : List TArg) (i : Nat) : (args.getD i default).data.length ≤ maxNbytes args := by
  unfold maxNbytes
  induction args generalizing i with
  | nil => simp; rfl
  | cons a as ih =>
      cases i with
      | zero => simp; omega
      | succ i => have := ih i; simp at this ⊢; omega

end IrVerif.WriterN

/-
C18 <- C01, nodes holding subgraphs (follow-up round): a world of the C01 kernel read as a world of the C18 model
WITH the graphs its node attributes hold (`NodeS.attrs`, unfolded `fuel` levels deep as `treeOf` does), the
`.graph` back pointer being the `Value.graph` PROPERTY (`_core.py` 3223-3236: `_graph` when set, else the graph
of the producer).  From the kernel invariant `Kernel.WF` and closedness of the kernel graphs (every graph output
is defined at the top level of its graph: what onnx.checker demands) the back pointers are consistent with the
structure on every subtree (`BackPtrOK`), and every unfolded tree is closed.
-/
import IrVerif.Lemmas.ExtractKernel
import IrVerif.Lemmas.ExtractScope
namespace IrVerif.Extract

/-- `Value.graph` (the property) -/
def kOwner (w : Kernel.World) (v : Nat) : Option Nat :=
  match (w.val v).graph with
  | some g => some g
  | none =>
    match (w.val v).producer with
    | some n => (w.node n).graph
    | none => none

/-- the graphs held by the attributes of kernel node `n`, in `attributes.values()` order -/
def kAttrGraphs (w : Kernel.World) (n : Nat) : List Nat := (w.node n).attrs.flatMap (fun p => p.2)

/-- kernel node `n` with its graph attributes unfolded `fuel` levels deep -/
def kNode (w : Kernel.World) : Nat → Nat → NodeT
  | 0, n => .mk (w.node n).inputs (w.node n).outputs []
  | fuel + 1, n =>
    .mk (w.node n).inputs (w.node n).outputs
      ((kAttrGraphs w n).map (fun g =>
        GraphT.mk g (w.gr g).inputs ((w.gr g).inits.map (·.2)) (w.gr g).outputs
          ((w.gr g).nodes.map (kNode w fuel))))

/-- kernel graph `g` as a tree -/
def kGraph (w : Kernel.World) (fuel g : Nat) : GraphT :=
  .mk g (w.gr g).inputs ((w.gr g).inits.map (·.2)) (w.gr g).outputs ((w.gr g).nodes.map (kNode w fuel))

theorem kNode_succ (w : Kernel.World) (fuel n : Nat) :
    kNode w (fuel + 1) n =
      .mk (w.node n).inputs (w.node n).outputs ((kAttrGraphs w n).map (kGraph w fuel)) := rfl

/-- the kernel world as a C18 world: same creation indices, back pointer = the `graph` property, nodes with
    their subgraphs -/
def ofKernelN (w : Kernel.World) (fuel : Nat) : World :=
  { vals := (List.range w.vals.length).map (fun v =>
      { name := (w.val v).name.getD "", producer := (w.val v).producer, graph := kOwner w v,
        isInit := (w.val v).isInit }),
    nodes := (List.range w.nodes.length).map (kNode w fuel) }

theorem kval_out_of_range {w : Kernel.World} {v : Nat} (h : w.vals.length ≤ v) : w.val v = default := by
  unfold Kernel.World.val
  rw [lget_eq_getD, List.getD_eq_getElem?_getD, List.getElem?_eq_none h]
  rfl

theorem ofKernelN_graphOf (w : Kernel.World) (fuel v : Nat) : (ofKernelN w fuel).graphOf v = kOwner w v := by
  unfold World.graphOf World.val ofKernelN
  by_cases h : v < w.vals.length
  · simp [List.getD_eq_getElem?_getD, List.getElem?_map, List.getElem?_range h]
  · have h' : w.vals.length ≤ v := Nat.le_of_not_lt h
    have hr : (List.range w.vals.length)[v]? = none := List.getElem?_eq_none (by simpa using h')
    simp only [List.getD_eq_getElem?_getD, List.getElem?_map, hr, Option.map_none, Option.getD_none]
    unfold kOwner
    rw [kval_out_of_range h']
    rfl

/-- `v` is defined at the top level of kernel graph `g` -/
def TopDef (w : Kernel.World) (g v : Nat) : Prop :=
  v ∈ (w.gr g).inputs ∨ v ∈ (w.gr g).inits.map (·.2) ∨ ∃ n, n ∈ (w.gr g).nodes ∧ v ∈ (w.node n).outputs

/-- every graph output is defined at the top level of its graph (ONNX: onnx.checker rejects anything else) -/
def KClosed (w : Kernel.World) : Prop := ∀ g v, v ∈ (w.gr g).outputs → TopDef w g v

theorem mem_outputs_of_producer {w : Kernel.World} (h : Kernel.WF w) {v n : Nat}
    (hp : (w.val v).producer = some n) : v ∈ (w.node n).outputs := by
  obtain ⟨i, hi⟩ := h.prod.2 v n hp
  exact List.mem_iff_getElem?.mpr ⟨i, (h.prod.1 n i v).mpr ⟨hp, hi⟩⟩

theorem producer_of_mem_outputs {w : Kernel.World} (h : Kernel.WF w) {v n : Nat}
    (ho : v ∈ (w.node n).outputs) : (w.val v).producer = some n := by
  obtain ⟨i, hi⟩ := List.mem_iff_getElem?.mp ho
  exact ((h.prod.1 n i v).mp hi).1

/-- **per graph**: the `graph` property of a value names `g` exactly when `g` defines the value at its top
    level -/
theorem owner_iff {w : Kernel.World} (h : Kernel.WF w) (hc : KClosed w) (g v : Nat) :
    kOwner w v = some g ↔ TopDef w g v := by
  constructor
  · intro ho
    unfold kOwner at ho
    cases hg : (w.val v).graph with
    | some g' =>
      rw [hg] at ho
      simp only [Option.some.injEq] at ho
      subst ho
      have hown := h.own.graph_owned v g' hg
      unfold Kernel.owned at hown
      simp only [Bool.or_eq_true] at hown
      rcases hown with (hin | hout) | hinit
      · obtain ⟨g2, hg2, hm⟩ := h.own.io_flag .inp v hin
        rw [hg] at hg2; cases hg2
        exact Or.inl hm
      · obtain ⟨g2, hg2, hm⟩ := h.own.io_flag .out v hout
        rw [hg] at hg2; cases hg2
        exact hc g' v hm
      · obtain ⟨g2, key, hg2, hm⟩ := h.own.init_flag v hinit
        rw [hg] at hg2; cases hg2
        exact Or.inr (Or.inl (List.mem_map.mpr ⟨_, hm, rfl⟩))
    | none =>
      rw [hg] at ho
      simp only [] at ho
      cases hp : (w.val v).producer with
      | none => rw [hp] at ho; cases ho
      | some n =>
        rw [hp] at ho
        simp only [] at ho
        exact Or.inr (Or.inr ⟨n, (h.node.mem n g).mp ho, mem_outputs_of_producer h hp⟩)
  · intro hd
    unfold kOwner
    rcases hd with hd | hd | ⟨n, hn, ho⟩
    · rw [(h.own.io_mem .inp g v hd).2]
    · obtain ⟨kv, hkv, rfl⟩ := List.mem_map.mp hd
      rw [(h.own.init_mem g kv.1 kv.2 hkv).2]
    · have hp := producer_of_mem_outputs h ho
      have hng := (h.node.mem n g).mpr hn
      cases hg : (w.val v).graph with
      | none => simp only [hp, hng]
      | some g' =>
        simp only [Option.some.injEq]
        have hown := h.own.graph_owned v g' hg
        unfold Kernel.owned at hown
        simp only [Bool.or_eq_true] at hown
        have hroot : ¬ ((w.val v).isIn = true ∨ (w.val v).isInit = true) := by
          intro hr
          have := h.root v hr
          rw [hp] at this; cases this
        rcases hown with (hin | hout) | hinit
        · exact absurd (Or.inl hin) hroot
        · obtain ⟨g2, hg2, hm⟩ := h.own.io_flag .out v hout
          rw [hg] at hg2; cases hg2
          rcases hc g' v hm with hd | hd | ⟨n', hn', ho'⟩
          · exact absurd (Or.inl (h.own.io_mem .inp g' v hd).1) hroot
          · obtain ⟨kv, hkv, rfl⟩ := List.mem_map.mp hd
            exact absurd (Or.inr (h.own.init_mem g' kv.1 kv.2 hkv).1) hroot
          · have hp' := producer_of_mem_outputs h ho'
            rw [hp] at hp'
            cases hp'
            have := (h.node.mem n g').mpr hn'
            rw [hng] at this
            cases this
            rfl
        · exact absurd (Or.inr hinit) hroot

/-! ## the unfolded trees -/

theorem nestedIn_kGraph_zero (w : Kernel.World) (g k : Nat) : NestedIn (kGraph w 0 g) k ↔ k = g := by
  constructor
  · intro h
    cases h with
    | self => rfl
    | deeper hn hc _ =>
      simp only [kGraph, GraphT.nodes_mk, List.mem_map] at hn
      obtain ⟨m, _, rfl⟩ := hn
      simp [kNode] at hc
  · rintro rfl; exact NestedIn.self (b := kGraph w 0 k)

theorem nestedIn_kGraph_succ (w : Kernel.World) (f g k : Nat) :
    NestedIn (kGraph w (f + 1) g) k ↔
      k = g ∨ ∃ m, m ∈ (w.gr g).nodes ∧ ∃ g', g' ∈ kAttrGraphs w m ∧ NestedIn (kGraph w f g') k := by
  constructor
  · intro h
    cases h with
    | self => exact Or.inl rfl
    | deeper hn hc hk =>
      simp only [kGraph, GraphT.nodes_mk, List.mem_map] at hn
      obtain ⟨m, hm, rfl⟩ := hn
      rw [kNode_succ] at hc
      simp only [NodeT.bodies_mk, List.mem_map] at hc
      obtain ⟨g', hg', rfl⟩ := hc
      exact Or.inr ⟨m, hm, g', hg', hk⟩
  · rintro (rfl | ⟨m, hm, g', hg', hk⟩)
    · exact NestedIn.self (b := kGraph w (f + 1) k)
    · refine NestedIn.deeper (b := kGraph w (f + 1) g) (n := kNode w (f + 1) m) (c := kGraph w f g') ?_ ?_ hk
      · simp only [kGraph, GraphT.nodes_mk, List.mem_map]; exact ⟨m, hm, rfl⟩
      · rw [kNode_succ]; simp only [NodeT.bodies_mk, List.mem_map]; exact ⟨g', hg', rfl⟩

theorem defInG_kGraph_zero (w : Kernel.World) (g v : Nat) : DefInG (kGraph w 0 g) v ↔ TopDef w g v := by
  unfold TopDef
  constructor
  · intro h
    cases h with
    | input hi => exact Or.inl hi
    | init hi => exact Or.inr (Or.inl hi)
    | node hn hd =>
      simp only [kGraph, GraphT.nodes_mk, List.mem_map] at hn
      obtain ⟨m, hm, rfl⟩ := hn
      cases hd with
      | out ho => exact Or.inr (Or.inr ⟨m, hm, ho⟩)
      | nested hb _ => simp [kNode] at hb
  · rintro (h | h | ⟨m, hm, ho⟩)
    · exact DefInG.input (g := kGraph w 0 g) h
    · exact DefInG.init (g := kGraph w 0 g) h
    · refine DefInG.node (g := kGraph w 0 g) (n := kNode w 0 m) ?_ (DefInN.out (n := kNode w 0 m) ho)
      simp only [kGraph, GraphT.nodes_mk, List.mem_map]; exact ⟨m, hm, rfl⟩

theorem defInG_kGraph_succ (w : Kernel.World) (f g v : Nat) :
    DefInG (kGraph w (f + 1) g) v ↔
      TopDef w g v ∨ ∃ m, m ∈ (w.gr g).nodes ∧ ∃ g', g' ∈ kAttrGraphs w m ∧ DefInG (kGraph w f g') v := by
  unfold TopDef
  constructor
  · intro h
    cases h with
    | input hi => exact Or.inl (Or.inl hi)
    | init hi => exact Or.inl (Or.inr (Or.inl hi))
    | node hn hd =>
      simp only [kGraph, GraphT.nodes_mk, List.mem_map] at hn
      obtain ⟨m, hm, rfl⟩ := hn
      cases hd with
      | out ho => exact Or.inl (Or.inr (Or.inr ⟨m, hm, ho⟩))
      | nested hb hdb =>
        rw [kNode_succ] at hb
        simp only [NodeT.bodies_mk, List.mem_map] at hb
        obtain ⟨g', hg', rfl⟩ := hb
        exact Or.inr ⟨m, hm, g', hg', hdb⟩
  · rintro ((h | h | ⟨m, hm, ho⟩) | ⟨m, hm, g', hg', hd⟩)
    · exact DefInG.input (g := kGraph w (f + 1) g) h
    · exact DefInG.init (g := kGraph w (f + 1) g) h
    · refine DefInG.node (g := kGraph w (f + 1) g) (n := kNode w (f + 1) m) ?_
        (DefInN.out (n := kNode w (f + 1) m) ho)
      simp only [kGraph, GraphT.nodes_mk, List.mem_map]; exact ⟨m, hm, rfl⟩
    · refine DefInG.node (g := kGraph w (f + 1) g) (n := kNode w (f + 1) m) ?_
        (DefInN.nested (n := kNode w (f + 1) m) (b := kGraph w f g') ?_ hd)
      · simp only [kGraph, GraphT.nodes_mk, List.mem_map]; exact ⟨m, hm, rfl⟩
      · rw [kNode_succ]; simp only [NodeT.bodies_mk, List.mem_map]; exact ⟨g', hg', rfl⟩

/-- defined in the unfolded tree = defined at the top level of one of its graphs -/
theorem defInG_kGraph (w : Kernel.World) : ∀ (fuel g v : Nat),
    DefInG (kGraph w fuel g) v ↔ ∃ k, NestedIn (kGraph w fuel g) k ∧ TopDef w k v
  | 0, g, v => by
    rw [defInG_kGraph_zero]
    constructor
    · intro h; exact ⟨g, (nestedIn_kGraph_zero w g g).mpr rfl, h⟩
    · rintro ⟨k, hk, h⟩
      rw [(nestedIn_kGraph_zero w g k).mp hk] at h
      exact h
  | f + 1, g, v => by
    rw [defInG_kGraph_succ]
    constructor
    · rintro (h | ⟨m, hm, g', hg', hd⟩)
      · exact ⟨g, (nestedIn_kGraph_succ w f g g).mpr (Or.inl rfl), h⟩
      · obtain ⟨k, hk, ht⟩ := (defInG_kGraph w f g' v).mp hd
        exact ⟨k, (nestedIn_kGraph_succ w f g k).mpr (Or.inr ⟨m, hm, g', hg', hk⟩), ht⟩
    · rintro ⟨k, hk, ht⟩
      rcases (nestedIn_kGraph_succ w f g k).mp hk with rfl | ⟨m, hm, g', hg', hk'⟩
      · exact Or.inl ht
      · exact Or.inr ⟨m, hm, g', hg', (defInG_kGraph w f g' v).mpr ⟨k, hk', ht⟩⟩

/-- consistent back pointers on every unfolded tree -/
theorem backPtrOK_kGraph {w : Kernel.World} (h : Kernel.WF w) (hc : KClosed w) (F fuel g : Nat) :
    BackPtrOK (ofKernelN w F) (kGraph w fuel g) := by
  intro v
  rw [defInG_kGraph]
  constructor
  · rintro ⟨k, hk, ht⟩
    exact ⟨k, hk, by rw [ofKernelN_graphOf]; exact (owner_iff h hc k v).mpr ht⟩
  · rintro ⟨k, hk, ho⟩
    rw [ofKernelN_graphOf] at ho
    exact ⟨k, hk, (owner_iff h hc k v).mp ho⟩

theorem mem_outsTop_kNodes (w : Kernel.World) (fuel : Nat) (l : List Nat) (v : Nat) :
    v ∈ outsTop (l.map (kNode w fuel)) ↔ ∃ n, n ∈ l ∧ v ∈ (w.node n).outputs := by
  rw [mem_outsTop]
  constructor
  · rintro ⟨n, hn, hv⟩
    obtain ⟨m, hm, rfl⟩ := List.mem_map.mp hn
    refine ⟨m, hm, ?_⟩
    cases fuel with
    | zero => exact hv
    | succ f => rw [kNode_succ] at hv; exact hv
  · rintro ⟨m, hm, hv⟩
    refine ⟨kNode w fuel m, List.mem_map.mpr ⟨m, hm, rfl⟩, ?_⟩
    cases fuel with
    | zero => exact hv
    | succ f => rw [kNode_succ]; exact hv

/-- every unfolded tree is closed when the kernel graphs are -/
theorem closedG_kGraph {w : Kernel.World} (hc : KClosed w) : ∀ (fuel g : Nat), closedG (kGraph w fuel g) = true
  | fuel, g => by
    have hclosedNs : closedNs ((w.gr g).nodes.map (kNode w fuel)) = true := by
      generalize (w.gr g).nodes = l
      induction l with
      | nil => rfl
      | cons a l ih =>
        simp only [List.map_cons, closedNs, Bool.and_eq_true]
        refine ⟨?_, ih⟩
        cases fuel with
        | zero => simp [kNode, closedN, closedGs]
        | succ f =>
          rw [kNode_succ, closedN]
          generalize kAttrGraphs w a = gl
          induction gl with
          | nil => rfl
          | cons b gl ihg =>
            simp only [List.map_cons, closedGs, Bool.and_eq_true]
            exact ⟨closedG_kGraph hc f b, ihg⟩
    unfold kGraph
    rw [closedG, Bool.and_eq_true]
    refine ⟨?_, hclosedNs⟩
    rw [List.all_eq_true]
    intro v hv
    simp only [List.contains_eq_mem, decide_eq_true_eq, List.mem_append]
    rcases hc g v hv with h | h | ⟨n, hn, ho⟩
    · exact Or.inl (Or.inl h)
    · exact Or.inl (Or.inr h)
    · exact Or.inr ((mem_outsTop_kNodes w fuel _ v).mpr ⟨n, hn, ho⟩)


theorem knode_out_of_range {w : Kernel.World} {n : Nat} (h : w.nodes.length ≤ n) : w.node n = default := by
  unfold Kernel.World.node
  rw [lget_eq_getD, List.getD_eq_getElem?_getD, List.getElem?_eq_none h]
  rfl

theorem kNode_out_of_range {w : Kernel.World} {n : Nat} (h : w.nodes.length ≤ n) (fuel : Nat) :
    kNode w fuel n = .mk [] [] [] := by
  cases fuel with
  | zero => simp only [kNode, knode_out_of_range h]; rfl
  | succ f =>
    rw [kNode_succ]
    simp only [kAttrGraphs, knode_out_of_range h]
    rfl

theorem ofKernelN_nodeD (w : Kernel.World) (fuel n : Nat) : (ofKernelN w fuel).nodeD n = kNode w fuel n := by
  unfold World.nodeD ofKernelN
  by_cases h : n < w.nodes.length
  · simp [List.getElem?_map, List.getElem?_range h]
  · have h' : w.nodes.length ≤ n := Nat.le_of_not_lt h
    have hr : (List.range w.nodes.length)[n]? = none := List.getElem?_eq_none (by simpa using h')
    simp only [List.getElem?_map, hr, Option.map_none, Option.getD_none]
    rw [kNode_out_of_range h']

theorem kNode_outputs (w : Kernel.World) (fuel n : Nat) : (kNode w fuel n).outputs = (w.node n).outputs := by
  cases fuel <;> rfl

theorem kNode_bodies (w : Kernel.World) (fuel n : Nat) (b : GraphT) (hb : b ∈ (kNode w fuel n).bodies) :
    ∃ f g, fuel = f + 1 ∧ b = kGraph w f g := by
  cases fuel with
  | zero => simp [kNode] at hb
  | succ f =>
    rw [kNode_succ] at hb
    simp only [NodeT.bodies_mk, List.mem_map] at hb
    obtain ⟨g, _, rfl⟩ := hb
    exact ⟨f, g, rfl, rfl⟩

theorem ofKernelN_val (w : Kernel.World) (fuel v : Nat) :
    (ofKernelN w fuel).val v = { name := (w.val v).name.getD "", producer := (w.val v).producer,
                                 graph := kOwner w v, isInit := (w.val v).isInit } := by
  unfold World.val ofKernelN
  by_cases h : v < w.vals.length
  · simp [List.getD_eq_getElem?_getD, List.getElem?_map, List.getElem?_range h]
  · have h' : w.vals.length ≤ v := Nat.le_of_not_lt h
    have hr : (List.range w.vals.length)[v]? = none := List.getElem?_eq_none (by simpa using h')
    simp only [List.getD_eq_getElem?_getD, List.getElem?_map, hr, Option.map_none, Option.getD_none]
    unfold kOwner
    rw [kval_out_of_range h']
    rfl

theorem ofKernelN_prod {w : Kernel.World} (h : Kernel.WF w) (fuel v : Nat) :
    (ofKernelN w fuel).prod v = (w.val v).producer := by
  unfold World.prod
  rw [ofKernelN_val]
  simp only []
  cases hp : (w.val v).producer with
  | none => rfl
  | some n =>
    simp only []
    have : (ofKernelN w fuel).nodes.length = w.nodes.length := by simp [ofKernelN]
    rw [this, if_pos (producer_in_range h hp)]

end IrVerif.Extract
